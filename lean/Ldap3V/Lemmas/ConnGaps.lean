/- Lemmas for the gap-analysis theorems of Props/C11.lean (a malformed frame under a search's ID),
Props/C13.lean (Abandon of a search, collection of a dropped stream) and Props/C12.lean (run-level
"a time-out leaves the other operations alone"). -/
import Ldap3V.Lemmas.ConnFinal
namespace Ldap3V.Conn

/-! ### histories extended by events that allocate nothing -/

theorem freshAt2_nonalloc (s : St) (e : Ev) (h : isAlloc e = false) : FreshAt2 s e := by
  intro kind he
  subst he
  cases h

theorem freshRun2_nonalloc : ∀ (b : List Ev) (s : St), (∀ e ∈ b, isAlloc e = false) → FreshRun2 s b
  | [], _, _ => trivial
  | e :: es, s, h =>
    ⟨freshAt2_nonalloc s e (h e (by simp)), freshRun2_nonalloc es _ (fun x hx => h x (by simp [hx]))⟩

theorem freshRun2_append_of : ∀ (a b : List Ev) (s : St), FreshRun2 s a → FreshRun2 (Conn.run s a) b → FreshRun2 s (a ++ b)
  | [], _, _, _, h => h
  | e :: es, b, s, h1, h2 => by
    have h1' : FreshAt2 s e ∧ FreshRun2 (next s e) es := h1
    rw [run_cons] at h2
    exact ⟨h1'.1, freshRun2_append_of es b (next s e) h1'.2 h2⟩

/-- a history stays fresh when events that allocate nothing are appended -/
theorem freshRun2_append_nonalloc (a b : List Ev) (s : St) (h : FreshRun2 s a) (hb : ∀ e ∈ b, isAlloc e = false) :
    FreshRun2 s (a ++ b) :=
  freshRun2_append_of a b s h (freshRun2_nonalloc b _ hb)

theorem allocCount_append_nonalloc (a b : List Ev) (hb : ∀ e ∈ b, isAlloc e = false) :
    allocCount (a ++ b) = allocCount a := by
  unfold allocCount
  rw [List.countP_append]
  have : List.countP isAlloc b = 0 := by
    rw [List.countP_eq_zero]
    intro e he
    simp [hb e he]
  omega

theorem run_snoc (s : St) (evs : List Ev) (e : Ev) : Conn.run s (evs ++ [e]) = next (Conn.run s evs) e := by
  rw [run_append]; rfl

/-! ### item 1: a frame under a search's ID that is neither an item nor a well-formed done -/

theorem drvResp_bad_search (s : St) (f : Frame) (c : Nat) (hr : s.drv = .running)
    (hf : s.srvLog[s.pos]? = some f) (hl : lookup s.searchmap f.id = some c)
    (hitem : ¬ (f.op = 4 ∨ f.op = 25 ∨ f.op = 19)) (hdone : ¬ (f.op = 5 ∧ f.good = true)) :
    Conn.step s .drvResp = some (endDriver { s with pos := s.pos + 1 } .endedErr, .none) := by
  have hne : (s.drv ≠ .running) = False := by simp [hr]
  simp only [Conn.step, hne, if_false, hf, hl, routeSearch, if_neg hitem]
  by_cases h5 : f.op = 5
  · have hg : f.good = false := by
      cases hgg : f.good with
      | true => exact absurd ⟨h5, hgg⟩ hdone
      | false => rfl
    simp [h5, hg]
  · simp [h5]

/-! ### item 2: Abandon of a search closes the stream's channel -/

/-- a result that is there is still there after any step (`ResKeep`, as a statement about `bind`) -/
theorem resKeep_bind {ops ops' : List Op} (h : ResKeep ops ops') (j : Nat) (r : Res)
    (hj : (ops[j]?.bind (·.res)) = some r) : (ops'[j]?.bind (·.res)) = some r := by
  cases ho : ops[j]? with
  | none => rw [ho] at hj; cases hj
  | some o =>
    rw [ho] at hj
    simp only [Option.bind_some] at hj
    obtain ⟨o', ho', hk⟩ := h j o ho
    rw [ho']
    simp only [Option.bind_some]
    rw [hk (by rw [hj]; rfl), hj]

/-- all entries of the search map that point at one channel carry the same key -/
theorem sm_chan_key {s : St} (ha : Acct s) {p q : Nat × Nat} (hp : p ∈ s.searchmap) (hq : q ∈ s.searchmap)
    (e : p.2 = q.2) : p.1 = q.1 := by
  obtain ⟨ch1, o1, hc1, ho1, hid1, _⟩ := ha.smOk p hp
  obtain ⟨ch2, o2, hc2, ho2, hid2, _⟩ := ha.smOk q hq
  rw [e, hc2] at hc1; cases hc1
  rw [ho2] at ho1; cases ho1
  rw [← hid1, ← hid2]

/-- the owner of a channel that is registered in the search map is not waiting in the op queue -/
theorem sm_chan_not_queued {s : St} (ha : Acct s) (hri : RouteInv s) {t c : Nat} (hmem : (t, c) ∈ s.searchmap)
    (j : Nat) (hj : j ∈ s.opQ) (o : Op) (ho : s.ops[j]? = some o) : o.chan ≠ some c := by
  intro hch
  obtain ⟨ch, o1, hc, ho1, _, _, hph, _⟩ := ha.smOk (t, c) hmem
  obtain ⟨ch', hc', hidx⟩ := hri.chanOf j o c ho hch
  simp only at hc
  rw [hc] at hc'; cases hc'
  rw [hidx, ho] at ho1; cases ho1
  obtain ⟨o2, ho2, hq⟩ := ha.qPhase j hj
  rw [ho] at ho2; cases ho2
  rw [hph] at hq; cases hq

/-- no sender is left for channel `c` once the entries under key `t` are erased and the queue is
not longer, whatever tame change the operations undergo -/
theorem chanOpen_erase_false {s s' : St} (ha : Acct s) (hri : RouteInv s) {t c : Nat} (hmem : (t, c) ∈ s.searchmap)
    (hsm : s'.searchmap = erase s.searchmap (t : Int)) (hq : ∀ j ∈ s'.opQ, j ∈ s.opQ) (hops : Tame s.ops s'.ops) :
    chanOpen s' c = false := by
  unfold chanOpen
  rw [Bool.or_eq_false_iff]
  constructor
  · rw [List.any_eq_false]
    intro p hp
    rw [hsm] at hp
    obtain ⟨hp1, hp2⟩ := mem_erase hp
    intro e
    simp only [beq_iff_eq] at e
    have := sm_chan_key ha hp1 hmem e
    exact hp2 (by rw [this])
  · rw [List.any_eq_false]
    intro j hj
    cases ho' : s'.ops[j]? with
    | none => simp
    | some o' =>
      obtain ⟨o, ho, hsig, _⟩ := hops.2 j o' ho'
      have hne := sm_chan_not_queued ha hri hmem j (hq j hj) o ho
      have : o'.chan = o.chan := (sig_id hsig).2.2
      simp only [beq_iff_eq]
      rw [this]; exact hne

theorem drvOp_abandon_closes (s : St) (ha : Acct s) (hri : RouteInv s) (i : Nat) (rest : List Nat) (o : Op) (t c : Nat)
    (hr : s.drv = .running) (hq : s.opQ = i :: rest) (ho : s.ops[i]? = some o) (hk : o.kind = .abandon (t : Int))
    (hin : s.inUse.contains o.id = true) (hmem : (t, c) ∈ s.searchmap) :
    ∃ s', Conn.step s (.drvOp true) = some (s', .none) ∧ chanOpen s' c = false ∧ s'.chans = s.chans ∧
      ResKeep s.ops s'.ops ∧ s'.drv = .running := by
  have hst : ∃ s', Conn.step s (.drvOp true) = some (s', .none) ∧ s'.chans = s.chans ∧ s'.drv = .running ∧
      s'.searchmap = erase s.searchmap (t : Int) ∧ s'.opQ = rest ∧
      s'.ops = modifyOp (dropSenderOpt (s.ops.set i { o with phase := .taken }) (lookup s.resultmap (t : Int))) i
        (fun o => { o with mail := .ack }) := by
    have hne : (s.drv ≠ .running) = False := by simp [hr]
    simp only [Conn.step, hne, if_false, hq, ho, hk, hin, Bool.not_true, Bool.false_eq_true]
    exact ⟨_, rfl, rfl, hr, rfl, rfl, rfl⟩
  obtain ⟨s', hs, hc, hd, hsm, hq', hops⟩ := hst
  have htame : Tame s.ops s'.ops := by
    rw [hops]
    refine (tame_set s.ops i o { o with phase := .taken } ho rfl (fun f hf => hf)).trans ((tame_dropSenderOpt _ _).trans (tame_modify _ _ _ ?_))
    intro x
    exact ⟨rfl, fun f hf => by cases hf⟩
  refine ⟨s', hs, ?_, hc, step_resKeep ha _ hs, hd⟩
  exact chanOpen_erase_false ha hri hmem hsm (fun j hj => by rw [hq'] at hj; rw [hq]; simp [hj]) htame

/-! ### item 3: a frame routed to a search whose receiver is gone -/

theorem routeSearch_dead_rx (s : St) (c : Nat) (ch : Chan) (f : Frame) (hc : s.chans[c]? = some ch)
    (hdead : ch.rxAlive = false) (hop : f.op = 4 ∨ f.op = 25 ∨ f.op = 19 ∨ (f.op = 5 ∧ f.good = true)) :
    routeSearch s c f = { s with searchmap := erase s.searchmap f.id, inUse := eraseId s.inUse f.id } := by
  by_cases h1 : f.op = 4 ∨ f.op = 25 ∨ f.op = 19
  · simp only [routeSearch, if_pos h1, hc, hdead]
    simp
  · have h5 : f.op = 5 ∧ f.good = true := by
      rcases hop with h | h | h | h
      · exact absurd (Or.inl h) h1
      · exact absurd (Or.inr (Or.inl h)) h1
      · exact absurd (Or.inr (Or.inr h)) h1
      · exact h
    simp only [routeSearch, if_neg h1, if_pos h5.1, h5.2, hc, hdead]
    simp

theorem drvResp_dead_rx (s : St) (f : Frame) (c : Nat) (ch : Chan) (hr : s.drv = .running)
    (hf : s.srvLog[s.pos]? = some f) (hl : lookup s.searchmap f.id = some c) (hc : s.chans[c]? = some ch)
    (hdead : ch.rxAlive = false) (hop : f.op = 4 ∨ f.op = 25 ∨ f.op = 19 ∨ (f.op = 5 ∧ f.good = true)) :
    Conn.step s .drvResp =
      some ({ s with pos := s.pos + 1, searchmap := erase s.searchmap f.id, inUse := eraseId s.inUse f.id }, .none) := by
  have hne : (s.drv ≠ .running) = False := by simp [hr]
  simp only [Conn.step, hne, if_false, hf, hl]
  rw [routeSearch_dead_rx ({ s with pos := s.pos + 1 } : St) c ch f hc hdead hop]

end Ldap3V.Conn

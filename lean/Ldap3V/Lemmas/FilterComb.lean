/- Facts about the nom combinators of Model/Filter.lean (no grammar yet). -/
import Ldap3V.Model.Filter
namespace Ldap3V.Filter

/-! ## sequencing -/

theorem andThen_ok {α β : Type} {p : P α} {f : α → P β} {i : Bytes} {b : β} {r : Bytes}
    (h : andThen p f i = .ok b r) : ∃ a r', p i = .ok a r' ∧ f a r' = .ok b r := by
  unfold andThen at h
  cases hp : p i with
  | ok a r' => rw [hp] at h; exact ⟨a, r', rfl, h⟩
  | err => rw [hp] at h; cases h
  | panic => rw [hp] at h; cases h

theorem andThen_eq {α β : Type} {p : P α} {f : α → P β} {i : Bytes} {a : α} {r' : Bytes}
    (h : p i = .ok a r') : andThen p f i = f a r' := by
  unfold andThen; rw [h]

theorem andThen_err {α β : Type} {p : P α} {f : α → P β} {i : Bytes}
    (h : p i = .err) : andThen p f i = .err := by
  unfold andThen; rw [h]

theorem ret_ok {α : Type} {a b : α} {i r : Bytes} (h : ret a i = .ok b r) : b = a ∧ r = i := by
  unfold ret at h; cases h; exact ⟨rfl, rfl⟩

theorem mapRes_eq {α β : Type} {p : P α} {f : α → Option β} {i : Bytes} {a : α} {b : β} {r : Bytes}
    (h : p i = .ok a r) (hf : f a = some b) : mapRes p f i = .ok b r := by
  unfold mapRes; rw [andThen_eq h]; simp only [hf]; rfl

theorem mapP_eq {α β : Type} {p : P α} {f : α → β} {i : Bytes} {a : α} {r : Bytes}
    (h : p i = .ok a r) : mapP p f i = .ok (f a) r := by
  unfold mapP; rw [andThen_eq h]; rfl

theorem mapP_ok {α β : Type} {p : P α} {f : α → β} {i : Bytes} {b : β} {r : Bytes}
    (h : mapP p f i = .ok b r) : ∃ a, p i = .ok a r ∧ b = f a := by
  obtain ⟨a, r', h1, h2⟩ := andThen_ok h
  obtain ⟨e1, e2⟩ := ret_ok h2
  subst e2
  exact ⟨a, h1, e1⟩

/-! ## tag -/

theorem isPrefixOf_append (t r : Bytes) : t.isPrefixOf (t ++ r) = true := by
  induction t with
  | nil => simp
  | cons a t ih => simp [ih]

theorem isPrefixOf_split (t i : Bytes) (h : t.isPrefixOf i = true) : i = t ++ i.drop t.length := by
  obtain ⟨r, rfl⟩ := List.isPrefixOf_iff_prefix.mp h
  simp

theorem tag_append (t r : Bytes) : tag t (t ++ r) = .ok t r := by
  simp [tag, isPrefixOf_append]

theorem tag_ok {t i x r : Bytes} (h : tag t i = .ok x r) : x = t ∧ i = t ++ r := by
  unfold tag at h
  split at h
  · rename_i hp
    cases h
    exact ⟨rfl, isPrefixOf_split t i hp⟩
  · cases h

theorem tag_ne_panic (t i : Bytes) : tag t i ≠ .panic := by
  unfold tag; split <;> simp

/-- a one-octet tag against a given first octet -/
theorem tag1_cons (c d : UInt8) (r : Bytes) :
    tag [c] (d :: r) = if c = d then .ok [c] r else .err := by
  simp [tag]

theorem tag1_nil (c : UInt8) : tag [c] [] = .err := by simp [tag]

theorem tag_err_of_head {t : Bytes} {c d : UInt8} {t' r : Bytes} (ht : t = c :: t') (h : c ≠ d) :
    tag t (d :: r) = .err := by
  subst ht; simp [tag, h]

theorem tag_nil_err {t : Bytes} (h : t ≠ []) : tag t [] = .err := by
  cases t with
  | nil => exact absurd rfl h
  | cons a t => simp [tag]

/-! ## no panic -/

/-- the parser never panics -/
def NP {α : Type} (p : P α) : Prop := ∀ i, p i ≠ .panic

theorem np_ret {α : Type} (a : α) : NP (ret a) := by intro i; simp [ret]
theorem np_failP {α : Type} : NP (failP : P α) := by intro i; simp [failP]
theorem np_tag (t : Bytes) : NP (tag t) := tag_ne_panic t

theorem np_andThen {α β : Type} {p : P α} {f : α → P β} (hp : NP p) (hf : ∀ a, NP (f a)) :
    NP (andThen p f) := by
  intro i
  unfold andThen
  cases h : p i with
  | ok a r => exact hf a r
  | err => simp
  | panic => exact absurd h (hp i)

/-- `np_andThen` where the continuation is only known not to panic on results of `p` -/
theorem np_andThen_of {α β : Type} {p : P α} {f : α → P β} (hp : NP p)
    (hf : ∀ i a r, p i = .ok a r → f a r ≠ .panic) : NP (andThen p f) := by
  intro i
  unfold andThen
  cases h : p i with
  | ok a r => exact hf i a r h
  | err => simp
  | panic => exact absurd h (hp i)

theorem np_alt {α : Type} {p q : P α} (hp : NP p) (hq : NP q) : NP (alt p q) := by
  intro i
  unfold alt
  cases h : p i with
  | ok a r => simp
  | err => exact hq i
  | panic => exact absurd h (hp i)

theorem np_opt {α : Type} {p : P α} (hp : NP p) : NP (opt p) := by
  intro i
  unfold opt
  cases h : p i with
  | ok a r => simp
  | err => simp
  | panic => exact absurd h (hp i)

theorem np_peek {α : Type} {p : P α} (hp : NP p) : NP (peek p) := by
  intro i
  unfold peek
  cases h : p i with
  | ok a r => simp
  | err => simp
  | panic => exact absurd h (hp i)

theorem np_recognize {α : Type} {p : P α} (hp : NP p) : NP (recognize p) := by
  intro i
  unfold recognize
  cases h : p i with
  | ok a r => simp
  | err => simp
  | panic => exact absurd h (hp i)

theorem np_mapP {α β : Type} {p : P α} (f : α → β) (hp : NP p) : NP (mapP p f) :=
  np_andThen hp fun a => np_ret _

theorem np_preceded {α β : Type} {p : P α} {q : P β} (hp : NP p) (hq : NP q) : NP (preceded p q) :=
  np_andThen hp fun _ => hq

theorem np_terminated {α β : Type} {p : P α} {q : P β} (hp : NP p) (hq : NP q) : NP (terminated p q) :=
  np_andThen hp fun _ => np_andThen hq fun _ => np_ret _

theorem np_delimited {α β γ : Type} {p : P α} {q : P β} {r : P γ} (hp : NP p) (hq : NP q) (hr : NP r) :
    NP (delimited p q r) :=
  np_andThen hp fun _ => np_andThen hq fun _ => np_andThen hr fun _ => np_ret _

theorem np_mapRes {α β : Type} {p : P α} (f : α → Option β) (hp : NP p) : NP (mapRes p f) :=
  np_andThen hp fun a => by
    cases h : f a with
    | some b => simp only []; exact np_ret b
    | none => simp only []; exact np_failP

theorem np_verify {α : Type} {p : P α} (c : α → Bool) (hp : NP p) : NP (verify p c) :=
  np_andThen hp fun a => by
    by_cases h : c a
    · simp only [h, if_true]; exact np_ret a
    · simp only [h]; exact np_failP

theorem np_beU8 : NP beU8 := by
  intro i; cases i <;> simp [beU8]

theorem np_takeWhile (c : UInt8 → Bool) : NP (takeWhile c) := by intro i; simp [takeWhile]
theorem np_takeWhile1 (c : UInt8 → Bool) : NP (takeWhile1 c) := by
  intro i; unfold takeWhile1; split <;> simp

theorem np_many0Go {α : Type} {p : P α} (hp : NP p) (n : Nat) (i : Bytes) : many0Go p n i ≠ .panic := by
  induction n generalizing i with
  | zero => simp [many0Go]
  | succ n ih =>
    unfold many0Go
    cases h : p i with
    | ok o i1 =>
      simp only []
      split
      · have := ih i1
        cases h2 : many0Go p n i1 with
        | ok os r => simp
        | err => simp
        | panic => exact absurd h2 this
      · simp
    | err => simp
    | panic => exact absurd h (hp i)

theorem np_many0 {α : Type} {p : P α} (hp : NP p) : NP (many0 p) := fun i => np_many0Go hp _ i

theorem np_many1 {α : Type} {p : P α} (hp : NP p) : NP (many1 p) := by
  intro i
  unfold many1
  cases h : p i with
  | ok o i1 =>
    simp only []
    have := np_many0Go hp (i1.length + 1) i1
    cases h2 : many0Go p (i1.length + 1) i1 with
    | ok os r => simp
    | err => simp
    | panic => exact absurd h2 this
  | err => simp
  | panic => exact absurd h (hp i)

theorem np_foldMany0Go {α β : Type} {p : P α} (g : β → α → β) (hp : NP p) (n : Nat) (i : Bytes) (acc : β) :
    foldMany0Go p g n i acc ≠ .panic := by
  induction n generalizing i acc with
  | zero => simp [foldMany0Go]
  | succ n ih =>
    unfold foldMany0Go
    cases h : p i with
    | ok o i1 =>
      simp only []
      split
      · exact ih i1 _
      · simp
    | err => simp
    | panic => exact absurd h (hp i)

theorem np_foldMany0 {α β : Type} {p : P α} (init : β) (g : β → α → β) (hp : NP p) :
    NP (foldMany0 p init g) := fun i => np_foldMany0Go g hp _ i init

/-! ## alt, opt, peek, recognize -/

theorem alt_ok {α : Type} {p q : P α} {i : Bytes} {a : α} {r : Bytes} (h : alt p q i = .ok a r) :
    p i = .ok a r ∨ (p i = .err ∧ q i = .ok a r) := by
  unfold alt at h
  cases hp : p i with
  | ok a' r' => rw [hp] at h; exact Or.inl h
  | err => rw [hp] at h; exact Or.inr ⟨rfl, h⟩
  | panic => rw [hp] at h; cases h

theorem alt_left {α : Type} {p q : P α} {i : Bytes} {a : α} {r : Bytes} (h : p i = .ok a r) :
    alt p q i = .ok a r := by
  unfold alt; rw [h]

theorem alt_right {α : Type} {p q : P α} {i : Bytes} (h : p i = .err) : alt p q i = q i := by
  unfold alt; rw [h]

theorem opt_ok {α : Type} {p : P α} {i : Bytes} {o : Option α} {r : Bytes} (h : opt p i = .ok o r) :
    (∃ a, o = some a ∧ p i = .ok a r) ∨ (o = none ∧ r = i ∧ p i = .err) := by
  unfold opt at h
  cases hp : p i with
  | ok a' r' => rw [hp] at h; cases h; exact Or.inl ⟨a', rfl, rfl⟩
  | err => rw [hp] at h; cases h; exact Or.inr ⟨rfl, rfl, rfl⟩
  | panic => rw [hp] at h; cases h

theorem opt_some {α : Type} {p : P α} {i : Bytes} {a : α} {r : Bytes} (h : p i = .ok a r) :
    opt p i = .ok (some a) r := by
  unfold opt; rw [h]

theorem opt_none {α : Type} {p : P α} {i : Bytes} (h : p i = .err) : opt p i = .ok none i := by
  unfold opt; rw [h]

theorem peek_eq {α : Type} {p : P α} {i : Bytes} {a : α} {r : Bytes} (h : p i = .ok a r) :
    peek p i = .ok a i := by
  unfold peek; rw [h]

theorem peek_err {α : Type} {p : P α} {i : Bytes} (h : p i = .err) : peek p i = .err := by
  unfold peek; rw [h]

theorem peek_ok {α : Type} {p : P α} {i : Bytes} {a : α} {r : Bytes} (h : peek p i = .ok a r) :
    r = i ∧ ∃ r', p i = .ok a r' := by
  unfold peek at h
  cases hp : p i with
  | ok a' r' => rw [hp] at h; cases h; exact ⟨rfl, r', rfl⟩
  | err => rw [hp] at h; cases h
  | panic => rw [hp] at h; cases h

theorem recognize_ok {α : Type} {p : P α} {i x r : Bytes} (h : recognize p i = .ok x r) :
    ∃ a, p i = .ok a r ∧ x = i.take (i.length - r.length) := by
  unfold recognize at h
  cases hp : p i with
  | ok a' r' => rw [hp] at h; cases h; exact ⟨a', rfl, rfl⟩
  | err => rw [hp] at h; cases h
  | panic => rw [hp] at h; cases h

theorem recognize_append {α : Type} {p : P α} {s r : Bytes} {a : α} (h : p (s ++ r) = .ok a r) :
    recognize p (s ++ r) = .ok s r := by
  unfold recognize; rw [h]; simp

theorem recognize_err {α : Type} {p : P α} {i : Bytes} (h : p i = .err) : recognize p i = .err := by
  unfold recognize; rw [h]

theorem take_of_append {s r : Bytes} : (s ++ r).take ((s ++ r).length - r.length) = s := by simp

/-! ## the `many0` loop -/

/-- `Many R os b`: `b` is a concatenation of strings, one per element of `os`, related by `R` -/
inductive Many {α : Type} (R : α → Bytes → Prop) : List α → Bytes → Prop where
  | nil : Many R [] []
  | cons {o : α} {s : Bytes} {os : List α} {b : Bytes} : R o s → Many R os b → Many R (o :: os) (s ++ b)

theorem many0Go_sound {α : Type} {p : P α} {R : α → Bytes → Prop}
    (hp : ∀ i o r, p i = .ok o r → ∃ s, i = s ++ r ∧ R o s) :
    ∀ (n : Nat) (i : Bytes) (os : List α) (r : Bytes), many0Go p n i = .ok os r →
      ∃ b, i = b ++ r ∧ Many R os b ∧ p r = .err := by
  intro n
  induction n with
  | zero => intro i os r h; simp [many0Go] at h
  | succ n ih =>
    intro i os r h
    unfold many0Go at h
    cases h1 : p i with
    | err => rw [h1] at h; cases h; exact ⟨[], by simp, .nil, h1⟩
    | panic => rw [h1] at h; cases h
    | ok o i1 =>
      rw [h1] at h
      simp only [] at h
      split at h
      · cases h2 : many0Go p n i1 with
        | ok os' r' =>
          rw [h2] at h
          cases h
          obtain ⟨b, hb, hm, he⟩ := ih i1 os' r h2
          obtain ⟨s, hs, hr⟩ := hp i o i1 h1
          exact ⟨s ++ b, by rw [hs, hb]; simp, .cons hr hm, he⟩
        | err => rw [h2] at h; cases h
        | panic => rw [h2] at h; cases h
      · cases h

/-- completeness of the loop: each element string is parsed back when followed by a `stop` string,
each element string starts like a `stop` string, and the element parser fails on the final rest -/
theorem many0Go_complete {α : Type} {p : P α} {R : α → Bytes → Prop} {stop : Bytes → Prop}
    (h1 : ∀ o s rest, R o s → stop rest → p (s ++ rest) = .ok o rest)
    (h2 : ∀ o s, R o s → s ≠ [])
    (h3 : ∀ o s rest, R o s → stop (s ++ rest))
    {os : List α} {b : Bytes} (hm : Many R os b) :
    ∀ (n : Nat) (r : Bytes), stop r → p r = .err → (b ++ r).length < n →
      many0Go p n (b ++ r) = .ok os r := by
  induction hm with
  | nil =>
    intro n r _ he hn
    obtain ⟨m, rfl⟩ : ∃ m, n = m + 1 := ⟨n - 1, by omega⟩
    simp [many0Go, he]
  | @cons o s os b hr hm ih =>
    intro n r hs he hn
    obtain ⟨m, rfl⟩ : ∃ m, n = m + 1 := ⟨n - 1, by omega⟩
    have hne := h2 o s hr
    have hstop : stop (b ++ r) := by
      cases hm with
      | nil => simpa using hs
      | cons hr' _ => rw [List.append_assoc]; exact h3 _ _ _ hr'
    have hp := h1 o s (b ++ r) hr hstop
    have hpos : 0 < s.length := List.length_pos_iff.mpr hne
    have hlen : (b ++ r).length < (s ++ (b ++ r)).length := by
      simp; omega
    unfold many0Go
    rw [List.append_assoc, hp]
    simp only [hlen, if_true]
    rw [ih m r hs he (by simp at hn ⊢; omega)]

end Ldap3V.Filter

/- Assertion values: the model's `unescaped` takes the longest run of value octets and succeeds
exactly when that run is a `valueencoding` (`Spec.Filter.RVal`) of the octets it returns. -/
import Ldap3V.Lemmas.FilterLex
namespace Ldap3V.Filter
open Ldap3V.Spec.Filter

/-! ## hex digits: the model's nibble arithmetic against the spec's `hexVal` -/

def hexChk (n : Nat) : Bool :=
  match hexVal n.toUInt8 with
  | some x => isHexDigit n.toUInt8 && hexNibble n.toUInt8 == x.toUInt8 && decide (x < 16)
  | none => !isHexDigit n.toUInt8

set_option maxRecDepth 100000 in
theorem hexChk_all : ∀ n, n < 256 → hexChk n = true := by decide

theorem hex_some {c : UInt8} {x : Nat} (h : hexVal c = some x) :
    isHexDigit c = true ∧ hexNibble c = x.toUInt8 ∧ x < 16 := by
  have := hexChk_all c.toNat c.toNat_lt
  have e : c.toNat.toUInt8 = c := by simp
  unfold hexChk at this
  rw [e, h] at this
  obtain ⟨⟨a, b⟩, c⟩ : (isHexDigit c = true ∧ hexNibble c = x.toUInt8) ∧ x < 16 := by simpa using this
  exact ⟨a, b, c⟩

theorem hex_none {c : UInt8} (h : hexVal c = none) : isHexDigit c = false := by
  have := hexChk_all c.toNat c.toNat_lt
  have e : c.toNat.toUInt8 = c := by simp
  unfold hexChk at this
  rw [e, h] at this
  simpa using this

theorem hex_of_digit {c : UInt8} (h : isHexDigit c = true) : ∃ x, hexVal c = some x := by
  cases hv : hexVal c with
  | some x => exact ⟨x, rfl⟩
  | none => rw [hex_none hv] at h; cases h

set_option maxRecDepth 100000 in
theorem nibbles : ∀ x : Nat, x < 16 → ∀ y : Nat, y < 16 →
    ((x.toUInt8 <<< (4 : UInt8)) + y.toUInt8 : UInt8) = (16 * x + y).toUInt8 := by
  decide

/-! ## `fold_many0` over a one-octet class is a `foldl` over the longest run -/

theorem verify_beU8_cons (c : UInt8 → Bool) (x : UInt8) (r : Bytes) :
    verify beU8 c (x :: r) = if c x then .ok x r else .err := by
  unfold verify andThen beU8
  by_cases h : c x = true
  · simp [h, ret]
  · simp at h; simp [h, failP]

theorem verify_beU8_nil (c : UInt8 → Bool) : verify beU8 c [] = .err := by
  simp [verify, andThen, beU8]

theorem foldMany0Go_class {β : Type} (c : UInt8 → Bool) (g : β → UInt8 → β) :
    ∀ (i : Bytes) (n : Nat) (acc : β), i.length < n →
      foldMany0Go (verify beU8 c) g n i acc = .ok ((i.takeWhile c).foldl g acc) (i.dropWhile c) := by
  intro i
  induction i with
  | nil =>
    intro n acc hn
    obtain ⟨m, rfl⟩ : ∃ m, n = m + 1 := ⟨n - 1, by omega⟩
    simp [foldMany0Go, verify_beU8_nil]
  | cons x r ih =>
    intro n acc hn
    obtain ⟨m, rfl⟩ : ∃ m, n = m + 1 := ⟨n - 1, by omega⟩
    unfold foldMany0Go
    rw [verify_beU8_cons]
    by_cases h : c x = true
    · simp only [h, if_true]
      rw [List.takeWhile_cons_of_pos h, List.dropWhile_cons_of_pos h]
      simp only [List.length_cons, Nat.lt_add_one, if_true, List.foldl_cons]
      exact ih m (g acc x) (by simp at hn; omega)
    · rw [List.takeWhile_cons_of_neg h, List.dropWhile_cons_of_neg h]
      simp at h
      simp [h]

/-! ## the unescaper over a run of octets -/

def run (st : Unescaper × Bytes) (w : Bytes) : Unescaper × Bytes := w.foldl unescStep st

theorem run_nil (st : Unescaper × Bytes) : run st [] = st := rfl
theorem run_cons (st : Unescaper × Bytes) (b : UInt8) (w : Bytes) :
    run st (b :: w) = run (unescStep st b) w := rfl

theorem step_lit (c b : UInt8) (acc : Bytes) (h : b ≠ 0x5C) :
    unescStep (.value c, acc) b = (.value b, acc ++ [b]) := by
  simp [unescStep, Unescaper.feed, h]

theorem step_bs (c : UInt8) (acc : Bytes) : unescStep (.value c, acc) 0x5C = (.wantFirst, acc) := by
  simp [unescStep, Unescaper.feed]

theorem step_first (h : UInt8) (acc : Bytes) :
    unescStep (.wantFirst, acc) h =
      if isHexDigit h then (.wantSecond (hexNibble h), acc) else (.error, acc) := by
  by_cases hh : isHexDigit h = true
  · simp [unescStep, Unescaper.feed, hh]
  · simp at hh; simp [unescStep, Unescaper.feed, hh]

theorem step_second (p h : UInt8) (acc : Bytes) :
    unescStep (.wantSecond p, acc) h =
      if isHexDigit h then (.value ((p <<< 4) + hexNibble h), acc ++ [(p <<< 4) + hexNibble h])
      else (.error, acc) := by
  by_cases hh : isHexDigit h = true
  · simp [unescStep, Unescaper.feed, hh]
  · simp at hh; simp [unescStep, Unescaper.feed, hh]

theorem run_error (acc w : Bytes) : run (.error, acc) w = (.error, acc) := by
  induction w with
  | nil => rfl
  | cons b w ih => rw [run_cons]; simpa [unescStep, Unescaper.feed] using ih

theorem special_iff (b : UInt8) : isSpecial b = false ↔ isValueChar b = true ∧ b ≠ 0x5C := by
  simp [isSpecial, isValueChar]

theorem hexdigit_valueChar {h : UInt8} (hh : isHexDigit h = true) : isValueChar h = true := by
  simp only [isValueChar, Bool.and_eq_true, bne_iff_ne]
  refine ⟨⟨⟨?_, ?_⟩, ?_⟩, ?_⟩ <;> (intro e; subst e; revert hh; decide)

/-- every octet of a `valueencoding` is a value octet -/
theorem rval_valueChars {v s : Bytes} (h : RVal v s) : ∀ b ∈ s, isValueChar b = true := by
  induction h with
  | nil => simp
  | lit hb _ ih =>
    intro b hb'
    cases hb' with
    | head => exact ((special_iff _).mp hb).1
    | tail _ hb' => exact ih b hb'
  | esc h1 h2 _ ih =>
    intro b hb
    cases hb with
    | head => decide
    | tail _ hb =>
      cases hb with
      | head => exact hexdigit_valueChar (hex_some h1).1
      | tail _ hb =>
        cases hb with
        | head => exact hexdigit_valueChar (hex_some h2).1
        | tail _ hb => exact ih b hb

theorem run_complete {v s : Bytes} (h : RVal v s) :
    ∀ (c : UInt8) (acc : Bytes), ∃ c', run (.value c, acc) s = (.value c', acc ++ v) := by
  induction h with
  | nil => intro c acc; exact ⟨c, by simp [run_nil]⟩
  | @lit b v s hb _ ih =>
    intro c acc
    obtain ⟨c', hc'⟩ := ih b (acc ++ [b])
    refine ⟨c', ?_⟩
    rw [run_cons, step_lit c b acc ((special_iff b).mp hb).2, hc']
    simp
  | @esc h1 h2 x y v s hx hy _ ih =>
    intro c acc
    obtain ⟨d1, n1, lx⟩ := hex_some hx
    obtain ⟨d2, n2, ly⟩ := hex_some hy
    obtain ⟨c', hc'⟩ := ih ((16 * x + y).toUInt8) (acc ++ [(16 * x + y).toUInt8])
    refine ⟨c', ?_⟩
    rw [run_cons, step_bs, run_cons, step_first]
    simp only [d1, if_true]
    rw [run_cons, step_second]
    simp only [d2, if_true, n1, n2, nibbles x lx y ly]
    rw [hc']
    simp

theorem run_sound : ∀ (n : Nat) (w : Bytes), w.length ≤ n → (∀ b ∈ w, isValueChar b = true) →
    ∀ (c : UInt8) (acc : Bytes) (c' : UInt8) (out : Bytes),
      run (.value c, acc) w = (.value c', out) → ∃ v, RVal v w ∧ out = acc ++ v := by
  intro n
  induction n with
  | zero =>
    intro w hw _ c acc c' out h
    cases w with
    | nil => rw [run_nil] at h; cases h; exact ⟨[], .nil, by simp⟩
    | cons b w => simp at hw
  | succ n ih =>
    intro w hw hv c acc c' out h
    cases w with
    | nil => rw [run_nil] at h; cases h; exact ⟨[], .nil, by simp⟩
    | cons b w =>
      by_cases hb : b = 0x5C
      · subst hb
        rw [run_cons, step_bs] at h
        cases w with
        | nil => rw [run_nil] at h; cases h
        | cons h1 w =>
          rw [run_cons, step_first] at h
          by_cases hh1 : isHexDigit h1 = true
          · simp only [hh1, if_true] at h
            cases w with
            | nil => rw [run_nil] at h; cases h
            | cons h2 w =>
              rw [run_cons, step_second] at h
              by_cases hh2 : isHexDigit h2 = true
              · simp only [hh2, if_true] at h
                obtain ⟨x, hx⟩ := hex_of_digit hh1
                obtain ⟨y, hy⟩ := hex_of_digit hh2
                obtain ⟨_, n1, lx⟩ := hex_some hx
                obtain ⟨_, n2, ly⟩ := hex_some hy
                rw [n1, n2, nibbles x lx y ly] at h
                obtain ⟨v, hr, ho⟩ := ih w (by simp at hw; omega)
                  (fun b hb => hv b (by simp [hb])) (16 * x + y).toUInt8 (acc ++ [(16 * x + y).toUInt8]) c' out h
                exact ⟨(16 * x + y).toUInt8 :: v, .esc hx hy hr, by rw [ho]; simp⟩
              · simp at hh2
                simp only [hh2, Bool.false_eq_true, if_false] at h
                rw [run_error] at h; cases h
          · simp at hh1
            simp only [hh1, Bool.false_eq_true, if_false] at h
            rw [run_error] at h; cases h
      · rw [run_cons, step_lit c b acc hb] at h
        obtain ⟨v, hr, ho⟩ := ih w (by simp at hw; omega) (fun b hb => hv b (by simp [hb])) b (acc ++ [b]) c' out h
        have hs : isSpecial b = false := (special_iff b).mpr ⟨hv b (by simp), hb⟩
        exact ⟨b :: v, .lit hs hr, by rw [ho]; simp⟩

/-! ## `unescaped` -/

/-- the next octet is not a value octet (end of input, NUL, parenthesis or asterisk) -/
abbrev ValStop : Bytes → Prop := Stop isValueChar

def unescFinish (s : Unescaper × Bytes) : Option Bytes :=
  match s.1 with
  | .value _ => some s.2
  | _ => none

theorem unescaped_eq (i : Bytes) : unescaped i =
    match unescFinish (run (.value 0, []) (i.takeWhile isValueChar)) with
    | some v => .ok v (i.dropWhile isValueChar)
    | none => .err := by
  unfold unescaped mapRes andThen foldMany0
  rw [foldMany0Go_class isValueChar unescStep i _ _ (by omega)]
  simp only [run, unescFinish]
  split <;> simp_all [ret, failP]

theorem np_unescaped : NP unescaped := by
  intro i; rw [unescaped_eq]; split <;> simp

theorem unescaped_complete {v sv r : Bytes} (h : RVal v sv) (hr : ValStop r) :
    unescaped (sv ++ r) = .ok v r := by
  obtain ⟨h1, h2⟩ := takeWhile_app (rval_valueChars h) hr
  obtain ⟨c', hc⟩ := run_complete h 0 []
  rw [unescaped_eq, h1, h2, hc]
  simp [unescFinish]

theorem unescaped_sound {i v r : Bytes} (h : unescaped i = .ok v r) :
    ∃ sv, i = sv ++ r ∧ RVal v sv ∧ ValStop r := by
  rw [unescaped_eq] at h
  obtain ⟨e, hall, hstop⟩ := takeWhile_split isValueChar i
  cases hf : run (.value 0, []) (i.takeWhile isValueChar) with
  | mk u out =>
    rw [hf] at h
    cases u with
    | value c' =>
      simp only [unescFinish] at h
      cases h
      obtain ⟨v', hr, ho⟩ := run_sound _ _ (Nat.le_refl _) hall _ _ _ _ hf
      simp at ho
      subst ho
      exact ⟨_, e, hr, hstop⟩
    | wantFirst => simp [unescFinish] at h
    | wantSecond p => simp [unescFinish] at h
    | error => simp [unescFinish] at h

end Ldap3V.Filter

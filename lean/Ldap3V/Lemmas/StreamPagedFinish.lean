/-
With `stream.res` cleared when a follow-up page is asked for (fix F23) the paged chains refine the
cursor for ALL call sequences, `finish()` included.
-/
import Ldap3V.Lemmas.StreamRes
import Ldap3V.Lemmas.StreamBehindEo
namespace Ldap3V.Stream
open Spec

/-- a chain relation together with the `res` invariant of the model and the cursor's own invariant -/
def Full (R : M → Cursor → Prop) (m : M) (c : Cursor) : Prop := R m c ∧ ResInv m ∧ CInv c

theorem Full.step (R : M → Cursor → Prop) (r : StartOut)
    (hnf : ∀ m c k, k ≠ .finish → R m c → (step m k).2 = (c.step r k).2 ∧
      ((step m k).2.stuck = false → R (step m k).1 (c.step r k).1))
    (hstate : ∀ m c, R m c → m.s.state = c.state)
    (hdone : ∀ m c, R m c → c.state = .done → m.s.res = c.final)
    (hrefs : ∀ m c, R m c → chainRefs m.chain = c.acc)
    (hclose : ∀ m c, R m c → c.state ≠ .closed → R (step m .finish).1 c.finish.1)
    (m : M) (c : Cursor) (k : Call) (h : Full R m c) :
    (step m k).2 = (c.step r k).2 ∧ ((step m k).2.stuck = false → Full R (step m k).1 (c.step r k).1) := by
  obtain ⟨hR, hI, hC⟩ := h
  by_cases hk : k = .finish
  · subst hk
    have hst := hstate m c hR
    by_cases hc : c.state = .closed
    · rw [step_finish_closed m (by rw [hst]; exact hc)]
      simp only [Cursor.step, Cursor.finish, hc, if_true]
      exact ⟨trivial, fun _ => ⟨hR, hI, hC⟩⟩
    · have hmc : m.s.state ≠ .closed := by rw [hst]; exact hc
      obtain ⟨h1, _, _⟩ := step_finish_open m hmc
      have hres : m.s.res = c.final := by
        by_cases hd : c.state = .done
        · exact hdone m c hR hd
        · rw [hI (by rw [hst]; exact hd), hC.fin hd]
      refine ⟨?_, fun hns => ⟨?_, hI.step m .finish hns, hC.step r .finish⟩⟩
      · rw [h1, hres, hrefs m c hR]
        simp [Cursor.step, Cursor.finish, hc]
      · have := hclose m c hR hc
        simpa [Cursor.step] using this
  · obtain ⟨ho, hn⟩ := hnf m c k hk hR
    exact ⟨ho, fun hns => ⟨hn hns, hI.step m k hns, hC.step r k⟩⟩

section
variable (size : Int) (sv : Saved) (cs : List RCtl)

theorem RelP.close (total : List Req) (m : M) (c : Cursor) (h : RelP size sv cs total m c) (hc : c.state ≠ .closed) :
    RelP size sv cs total (Ldap3V.Stream.step m .finish).1 c.finish.1 := by
  obtain ⟨ch, s⟩ := m
  have hch : ch = [.paged size (some sv)] := h.chain
  subst hch
  have hs : s.state ≠ .closed := by have := h.state; simp only at this; rw [this]; exact hc
  simp only [Ldap3V.Stream.step, finish, hs, if_false, Cursor.finish, hc, finishInner]
  exact ⟨rfl, rfl, by simp, rfl, by simp, by simp, by simp⟩

theorem RelEP.close (total : List Req) (m : M) (c : Cursor) (h : RelEP size sv cs total m c) (hc : c.state ≠ .closed) :
    RelEP size sv cs total (Ldap3V.Stream.step m .finish).1 c.finish.1 := by
  obtain ⟨ch, s⟩ := m
  have hch : ch = [.entriesOnly c.acc, .paged size (some sv)] := h.chain
  subst hch
  have hs : s.state ≠ .closed := by have := h.state; simp only at this; rw [this]; exact hc
  simp only [Ldap3V.Stream.step, finish, hs, if_false, Cursor.finish, hc, finishInner]
  exact ⟨rfl, rfl, by simp, by simp, by simp, by simp⟩

theorem RelPE.close (total : List Req) (m : M) (c : Cursor) (h : RelPE size sv cs total m c) (hc : c.state ≠ .closed) :
    RelPE size sv cs total (Ldap3V.Stream.step m .finish).1 c.finish.1 := by
  obtain ⟨ch, s⟩ := m
  have hch : ch = [.paged size (some sv), .entriesOnly c.acc] := h.chain
  subst hch
  have hs : s.state ≠ .closed := by have := h.state; simp only at this; rw [this]; exact hc
  simp only [Ldap3V.Stream.step, finish, hs, if_false, Cursor.finish, hc, finishInner]
  exact ⟨rfl, rfl, by simp, by simp, by simp, by simp⟩
end

/-- glue: a relation established by `start`, kept by every call -/
theorem run_full (R : M → Cursor → Prop) (r : StartOut)
    (hstep : ∀ m c k, Full R m c → (step m k).2 = (c.step r k).2 ∧
      ((step m k).2.stuck = false → Full R (step m k).1 (c.step r k).1))
    (chain : List Adapter) (h : Handle) (pages : List Page) (v : View) (q : Query) (calls : List Call)
    (ho : (step (init chain h pages) (.start q)).2 = ((Cursor.ofView v).step r (.start q)).2)
    (hR : R (step (init chain h pages) (.start q)).1 ((Cursor.ofView v).step r (.start q)).1) :
    run (init chain h pages) (.start q :: calls) = Cursor.run r (Cursor.ofView v) (.start q :: calls) := by
  refine run_start_of_sim r (Full R) (fun m c k hF => hstep m c k hF) _ _ q calls ho ⟨hR, ?_, (CInv.ofView v).step r _⟩
  exact (ResInv.init chain h pages).step _ _ (by rw [ho]; exact Cursor.start_not_stuck _ _ _)

/-- `[PagedResults]`, all call sequences -/
theorem refines_paged_all (size : Int) (h : Handle) (pages : List Page) (q : Query) (calls : List Call)
    (hh : (h.ctrls.getD []).any RCtl.isPaged = false) (hq : q.filterOk = true) :
    run (init [pr size] h pages) (.start q :: calls) =
      Cursor.run (startOutcome [.paged] h q pages) (Cursor.ofView (view [.paged] pages)) (.start q :: calls) := by
  obtain ⟨ho, hR⟩ := pr_start size h pages q hh hq
  refine run_full _ _ (Full.step _ _
    (fun m c k hk hR => RelP.step size (savedOf h q) (othersOf h) rfl hq _ _ m c k hk hR)
    (fun m c hR => hR.state) (fun m c hR => hR.fin)
    (fun m c hR => by rw [hR.chain, hR.acc]; rfl)
    (fun m c hR hc => RelP.close size _ _ _ m c hR hc)) _ h pages _ q calls ho hR

/-- `[EntriesOnly, PagedResults]`, all call sequences -/
theorem refines_eo_paged_all (size : Int) (h : Handle) (pages : List Page) (q : Query) (calls : List Call)
    (hh : (h.ctrls.getD []).any RCtl.isPaged = false) (hq : q.filterOk = true) :
    run (init [eo, pr size] h pages) (.start q :: calls) =
      Cursor.run (startOutcome [.entriesOnly, .paged] h q pages)
        (Cursor.ofView (view [.entriesOnly, .paged] pages)) (.start q :: calls) := by
  obtain ⟨ho, hR⟩ := ep_start size h pages q hh hq
  refine run_full _ _ (Full.step _ _
    (fun m c k hk hR => RelEP.step size (savedOf h q) (othersOf h) rfl hq _ _ m c k hk hR)
    (fun m c hR => hR.state) (fun m c hR => hR.fin)
    (fun m c hR => by rw [hR.chain]; simp [chainRefs])
    (fun m c hR hc => RelEP.close size _ _ _ m c hR hc)) _ h pages _ q calls ho hR

/-- `[PagedResults, EntriesOnly]`, all call sequences -/
theorem refines_paged_eo_all (size : Int) (h : Handle) (pages : List Page) (q : Query) (calls : List Call)
    (hh : (h.ctrls.getD []).any RCtl.isPaged = false) (hq : q.filterOk = true) :
    run (init [pr size, eo] h pages) (.start q :: calls) =
      Cursor.run (startOutcome [.paged, .entriesOnly] h q pages)
        (Cursor.ofView (view [.paged, .entriesOnly] pages)) (.start q :: calls) := by
  obtain ⟨ho, hR⟩ := pe_start size h pages q hh hq
  refine run_full _ _ (Full.step _ _
    (fun m c k hk hR => RelPE.step size (savedOf h q) (othersOf h) rfl hq _ _ m c k hk hR)
    (fun m c hR => hR.state) (fun m c hR => hR.fin)
    (fun m c hR => by rw [hR.chain]; simp [chainRefs])
    (fun m c hR hc => RelPE.close size _ _ _ m c hR hc)) _ h pages _ q calls ho hR

end Ldap3V.Stream

/- C17 at the octet level: a server which answers the StartTLS request with a well-formed RFC 4511
response (any kind, any result code below 2^32, any legal BER length forms), with arbitrary bytes
behind it in the same segment and arbitrary further segments.  Uses the C03/C06 theorems about the
frame decoder and the result conversion. -/
import Ldap3V.Lemmas.TlsSetup
import Ldap3V.Lemmas.Result
import Ldap3V.Lemmas.FramingWF
namespace Ldap3V.TlsSetup
open Ldap3V Ldap3V.Spec

/-- what `Framed` hands to the turn: the response frame, however the server's segments cut the
response (`ps`: segments holding a proper part of it, `q`: its last part); `y`, sent in the same
segment as the end of the response, stays in the read buffer; `more` stays in the socket -/
theorem readFrame_response (m : WireMsg) (r : Resp) (e q y : Bytes) (more : List Bytes) (atEnd : End)
    (hop : m.op = respOp r) (hm : m.WF) (hid : m.id = 1) (he : Enc m.tlv e)
    (hsz : (e ++ y).length < 18446744073709551616) (hq : q ≠ []) :
    ∀ (ps : List Bytes) (buf : Bytes), buf ++ ps.flatten ++ q = e →
      readFrame atEnd buf (ps ++ (q ++ y) :: more) = .frame 1 (respOp r) (ctrlsMeaning m.ctrls) e y more
  | [], buf, hcut => by
    have hd := decodeInner_msg m e y hm he hsz
    simp only [WireMsg.frame, hop, hid] at hd
    simp only [List.flatten_nil, List.append_nil] at hcut
    unfold readFrame
    simp only [List.nil_append]
    rw [← List.append_assoc, hcut, hd]
    simp
  | p :: ps, buf, hcut => by
    have hsz' : e.length < 18446744073709551616 := by simp at hsz; omega
    have hne : ps.flatten ++ q ≠ [] := by simp [hq]
    have hpre := decodeInner_msg_prefix m e (buf ++ p) (ps.flatten ++ q) he hsz' (by rw [← hcut]; simp) hne
    simp only [List.cons_append]
    unfold readFrame
    rw [hpre]
    exact readFrame_response m r e q y more atEnd hop hm hid he hsz hq ps (buf ++ p) (by rw [← hcut]; simp)

theorem decodeInner_nil : decodeInner [] = .needMore := by rfl

/-- the same through the loop of the turn: nothing skipped, the response ends it -/
theorem await_response (m : WireMsg) (r : Resp) (e q y : Bytes) (ps more : List Bytes) (atEnd : End)
    (sk : List (Int × Tlv)) (skb : Bytes)
    (hop : m.op = respOp r) (hm : m.WF) (hid : m.id = 1) (he : Enc m.tlv e)
    (hsz : (e ++ y).length < 18446744073709551616) (hq : q ≠ []) (hcut : ps.flatten ++ q = e) :
    await atEnd [] (ps ++ (q ++ y) :: more) sk skb = .response (respOp r) sk skb e y more := by
  apply await_hit (ctl := ctrlsMeaning m.ctrls)
  unfold nextFrame
  rw [decodeInner_nil]
  exact readFrame_response m r e q y more atEnd hop hm hid he hsz hq ps [] (by simpa using hcut)

/-- a well-formed message for ANOTHER ID in front of the response (same segment): dropped, the
response behind it still ends the turn -/
theorem await_foreign_then_response (m0 m : WireMsg) (r : Resp) (e0 e y : Bytes) (more : List Bytes) (atEnd : End)
    (hm0 : m0.WF) (hid0 : m0.id ≠ 1) (he0 : Enc m0.tlv e0)
    (hop : m.op = respOp r) (hm : m.WF) (hid : m.id = 1) (he : Enc m.tlv e)
    (hsz : (e0 ++ (e ++ y)).length < 18446744073709551616) :
    await atEnd [] ((e0 ++ (e ++ y)) :: more) [] [] = .response (respOp r) [((m0.id : Int), m0.op)] e0 e y more := by
  have hd0 := decodeInner_msg m0 e0 (e ++ y) hm0 he0 hsz
  have hn0 : nextFrame atEnd [] ((e0 ++ (e ++ y)) :: more) =
      .frame (m0.id : Int) m0.op (ctrlsMeaning m0.ctrls) e0 (e ++ y) more := by
    unfold nextFrame
    rw [decodeInner_nil]
    unfold readFrame
    simp only [List.nil_append]
    rw [hd0]
    simp [WireMsg.frame]
  rw [await_skip atEnd [] _ [] [] hn0 (by exact_mod_cast hid0)]
  have hsz' : (e ++ y).length < 18446744073709551616 := by simp at hsz ⊢; omega
  have hd := decodeInner_msg m e y hm he hsz'
  simp only [WireMsg.frame, hop, hid] at hd
  have hn : nextFrame atEnd (e ++ y) more = .frame 1 (respOp r) (ctrlsMeaning m.ctrls) e y more := by
    unfold nextFrame
    rw [hd]
    simp
  rw [await_hit atEnd (e ++ y) more _ _ hn]
  simp

section Wire
variable (lib : TlsLib) (c : Cfg) (s : Server)
variable (m : WireMsg) (r : Resp) (e q y : Bytes) (ps more : List Bytes)

theorem answer_response (hs : s.early = 0) (hc : s.chunks = ps ++ (q ++ y) :: more)
    (hcut : ps.flatten ++ q = e) (hq : q ≠ [])
    (hop : m.op = respOp r) (hm : m.WF) (hid : m.id = 1) (he : Enc m.tlv e)
    (hsz : (e ++ y).length < 18446744073709551616) :
    answer s = some (.response (respOp r) [] [] e y more) := by
  rw [answer_not_early s hs, hc, await_response m r e q y ps more s.atEnd [] [] hop hm hid he hsz hq hcut]

/-- refusal with ANY non-zero code: `Err(LdapResult { rc })`, nothing but the request was written, no TLS -/
theorem refused_wire (hmode : c.mode = .startTls) (hs : s.early = 0)
    (hc : s.chunks = ps ++ (q ++ y) :: more) (hcut : ps.flatten ++ q = e) (hq : q ≠ [])
    (hop : m.op = respOp r) (hm : m.WF) (hid : m.id = 1) (hr : WFResp r) (he : Enc m.tlv e)
    (hsz : (e ++ y).length < 18446744073709551616) (hrc : r.rc ≠ 0) :
    (establish lib c s).outcome = .err (.ldapResult r.rc) ∧
    (establish lib c s).cleartextWrites = [startTlsReq] ∧ (establish lib c s).hasTls = false := by
  have ha := answer_response s m r e q y ps more hs hc hcut hq hop hm hid he hsz
  have hx := establish_answer lib c s hmode _ ha
  have hres := resultExt_respOp r hr
  have ho := ((hx.2.2.2 _ _ _ _ _ _ rfl).2 _ hres).1 hrc
  refine ⟨ho, hx.1, ?_⟩
  have hi := (establish_invariants lib c s).2.1
  cases hh : (establish lib c s).hasTls with
  | false => rfl
  | true => rw [hi.mp hh] at ho; cases ho

/-- success: the response frame is the only thing decoded in cleartext; the bytes behind it in the
same segment are in the dropped buffer; later segments go to the TLS library; its verdict decides -/
theorem success_wire (hmode : c.mode = .startTls) (hs : s.early = 0)
    (hc : s.chunks = ps ++ (q ++ y) :: more) (hcut : ps.flatten ++ q = e) (hq : q ≠ [])
    (hop : m.op = respOp r) (hm : m.WF) (hid : m.id = 1) (hr : WFResp r) (he : Enc m.tlv e)
    (hsz : (e ++ y).length < 18446744073709551616) (hrc : r.rc = 0) :
    let R := establish lib c s
    R.cleartextWrites = [startTlsReq] ∧ R.decoded = [(1, respOp r)] ∧ R.consumed = e ∧ R.discarded = y ∧
    R.tlsStale = more.flatten ∧ R.sessionBuf = [] ∧
    R.outcome = (match lib more.flatten s.peer c.verifyOff with
                 | .ok => .okSecure | .error => .err .nativeTls | .pending => stall c) := by
  intro R
  have hf := firstEvent_not_early s hs
  have haw := await_response m r e q y ps more s.atEnd [] [] hop hm hid he hsz hq hcut
  have hres := resultExt_respOp r hr
  have e1 : R = afterRequest lib c s [] s.chunks [] [] := establish_startTls_sent lib c s hmode hf
  rw [hc] at e1
  rw [e1, afterRequest_success lib c s [] _ [] [] haw hres hrc]
  have f := tlsPhase_fields lib c s (okBase (respOp r) [] [] e y) more.flatten
  exact ⟨f.1, f.2.1, f.2.2.1, f.2.2.2.1, f.2.2.2.2.2, f.2.2.2.2.1, tlsPhase_outcome _ _ _ _ _⟩

/-- a well-formed message `m0` for another ID sent in front of a success response, in one segment,
with `y` behind: `m0` is decoded and delivered to nobody, the response completes the exchange -/
theorem foreign_then_success_wire (m0 : WireMsg) (e0 : Bytes) (hmode : c.mode = .startTls) (hs : s.early = 0)
    (hc : s.chunks = (e0 ++ (e ++ y)) :: more)
    (hm0 : m0.WF) (hid0 : m0.id ≠ 1) (he0 : Enc m0.tlv e0)
    (hop : m.op = respOp r) (hm : m.WF) (hid : m.id = 1) (hr : WFResp r) (he : Enc m.tlv e)
    (hsz : (e0 ++ (e ++ y)).length < 18446744073709551616) (hrc : r.rc = 0) :
    let R := establish lib c s
    R.cleartextWrites = [startTlsReq] ∧ R.decoded = [((m0.id : Int), m0.op), (1, respOp r)] ∧
    R.consumed = e0 ++ e ∧ R.response = e ∧ R.discarded = y ∧ R.tlsStale = more.flatten ∧ R.sessionBuf = [] ∧
    R.outcome = (match lib more.flatten s.peer c.verifyOff with
                 | .ok => .okSecure | .error => .err .nativeTls | .pending => stall c) := by
  intro R
  have hf := firstEvent_not_early s hs
  have haw := await_foreign_then_response m0 m r e0 e y more s.atEnd hm0 hid0 he0 hop hm hid he hsz
  have hres := resultExt_respOp r hr
  have e1 : R = afterRequest lib c s [] s.chunks [] [] := establish_startTls_sent lib c s hmode hf
  rw [hc] at e1
  rw [e1, afterRequest_success lib c s [] _ [] [] haw hres hrc]
  have f := tlsPhase_fields lib c s (okBase (respOp r) [((m0.id : Int), m0.op)] e0 e y) more.flatten
  have hresp : (tlsPhase lib c s (okBase (respOp r) [((m0.id : Int), m0.op)] e0 e y) more.flatten).response = e := by
    simp only [tlsPhase]; split <;> simp [okBase]
  exact ⟨f.1, f.2.1, f.2.2.1, hresp, f.2.2.2.1, f.2.2.2.2.2, f.2.2.2.2.1, tlsPhase_outcome _ _ _ _ _⟩

end Wire

end Ldap3V.TlsSetup

/- A proper prefix of a definite-length encoding is `Incomplete` (the parser takes the whole
content before descending, so nothing is decided before the last byte). -/
import Ldap3V.Lemmas.BerParse
namespace Ldap3V
open Spec

theorem parseLen_prefix (n : Nat) (l content p q : Bytes) (hl : LenEnc n l) (hn : n = content.length)
    (hsz : n < 18446744073709551616) (hpq : p ++ q = l ++ content) (hq : q ≠ []) :
    parseLen p = .incomplete ∨ ∃ c, parseLen p = .ok n c ∧ c.length < n := by
  rcases List.append_eq_append_iff.mp hpq with ⟨a, h1, h2⟩ | ⟨c, h1, h2⟩
  · -- l = p ++ a
    by_cases ha : a = []
    · subst ha
      simp only [List.append_nil] at h1
      simp only [List.nil_append] at h2
      subst h1
      right
      refine ⟨[], ?_, ?_⟩
      · have := parseLen_lenEnc n l [] hl hsz
        simpa using this
      · subst h2
        rw [hn]
        cases q with
        | nil => exact absurd rfl hq
        | cons x xs => simp
    · left
      rcases hl with ⟨_, hs⟩ | ⟨ds, _, h2', _, hs⟩
      · rw [hs] at h1
        cases p with
        | nil => simp [parseLen]
        | cons x xs =>
          have := congrArg List.length h1
          simp at this
          cases a with
          | nil => exact absurd rfl ha
          | cons y ys => simp at this
      · rw [hs] at h1
        cases p with
        | nil => simp [parseLen]
        | cons x xs =>
          simp only [List.cons_append, List.cons.injEq] at h1
          obtain ⟨hx, hds⟩ := h1
          subst hx
          have hb : (128 + ds.length).toUInt8.toNat = 128 + ds.length := toUInt8_toNat _ (by omega)
          simp only [parseLen, hb]
          rw [if_neg (by omega)]
          have hlen : xs.length < 128 + ds.length - 128 := by
            have := congrArg List.length hds
            simp at this
            cases a with
            | nil => exact absurd rfl ha
            | cons y ys => simp at this; omega
          rw [if_pos hlen]
  · -- p = l ++ c, content = c ++ q
    right
    refine ⟨c, ?_, ?_⟩
    · rw [h1]; exact parseLen_lenEnc n l c hl hsz
    · rw [hn, h2]
      cases q with
      | nil => exact absurd rfl hq
      | cons x xs => simp

theorem pTag_prefix_incomplete (t : Tlv) (bs p q : Bytes) (f d : Nat) (h : Enc t bs)
    (hsz : bs.length < 18446744073709551616) (hpq : p ++ q = bs) (hq : q ≠ []) (hf : 1 ≤ f) :
    pTag f d p = .incomplete := by
  obtain ⟨g, rfl⟩ : ∃ g, f = g + 1 := ⟨f - 1, by omega⟩
  -- both constructors have the shape hdr :: (l ++ body) with LenEnc body.length l
  have shape : ∃ hdr l body, LenEnc body.length l ∧ bs = hdr :: (l ++ body) := by
    cases t with
    | prim c i v => obtain ⟨_, _, l, hl, e⟩ := h; exact ⟨_, l, v, hl, e⟩
    | cons c i ks => obtain ⟨_, _, l, body, _, hl, e⟩ := h; exact ⟨_, l, body, hl, e⟩
  obtain ⟨hdr, l, body, hl, rfl⟩ := shape
  cases p with
  | nil => simp [pTag]
  | cons x p' =>
    simp only [List.cons_append, List.cons.injEq] at hpq
    obtain ⟨_, hpq'⟩ := hpq
    have := parseLen_prefix body.length l body p' q hl rfl (by simp at hsz; omega) hpq' hq
    simp only [pTag]
    rcases this with hi | ⟨c, hc, hlt⟩
    · rw [hi]
    · rw [hc]
      simp only
      rw [if_pos hlt]

end Ldap3V

/-
What `lookup` sees in the two maps after the fold: last text occurrence / accumulated binary
chunks; and the specialisation to pairwise distinct attribute types.
-/
import Ldap3V.Lemmas.Entry
namespace Ldap3V
open Spec AMap

theorem lastText_cons (valid : Bytes → Bool) (p : Bytes × List Bytes) (r : List (Bytes × List Bytes)) (a : Bytes) :
    lastText valid (p :: r) a =
      (lastText valid r a).or (if (p.1 == a && p.2.all valid) = true then some p.2 else none) := by
  simp only [lastText, List.reverse_cons, List.find?_append]
  cases List.find? (fun p => p.1 == a && p.2.all valid) r.reverse with
  | some q => simp
  | none =>
    by_cases h : (p.1 == a && p.2.all valid) = true
    · simp [List.find?, h]
    · simp [List.find?, h]

theorem binVals_cons (valid : Bytes → Bool) (p : Bytes × List Bytes) (r : List (Bytes × List Bytes)) (a : Bytes) :
    binVals valid (p :: r) a =
      (if (p.1 == a && !p.2.all valid) = true then binChunk valid p.2 else []) ++ binVals valid r a := by
  simp only [binVals, List.filter_cons]
  by_cases h : (p.1 == a && !p.2.all valid) = true
  · simp only [h, if_true, List.flatMap_cons]
  · simp only [h]; simp

theorem binChunk_ne_nil (valid : Bytes → Bool) (l : List Bytes) (h : ¬ l.all valid = true) :
    binChunk valid l ≠ [] := by
  have := filter_not_ne_nil valid l h
  simp [binChunk, this]

theorem binChunk_perm (valid : Bytes → Bool) (l : List Bytes) : (binChunk valid l).Perm l :=
  List.perm_append_comm.trans (List.filter_append_perm valid l)

theorem fold_lookup (valid : Bytes → Bool) (as : List (Bytes × List Bytes)) :
    ∀ (T B : AMap (List Bytes)) (a : Bytes),
    lookup (as.foldl (stepSpec valid) (T, B)).1 a = (lastText valid as a).or (lookup T a) ∧
    lookup (as.foldl (stepSpec valid) (T, B)).2 a =
      if binVals valid as a = [] then lookup B a else some ((lookup B a).getD [] ++ binVals valid as a) := by
  induction as with
  | nil => intro T B a; simp [lastText, binVals]
  | cons p r ih =>
    intro T B a
    obtain ⟨ty, vals⟩ := p
    rw [List.foldl_cons, lastText_cons, binVals_cons]
    by_cases hall : vals.all valid = true
    · have hs : stepSpec valid (T, B) (ty, vals) = (T.insert ty vals, B) := by simp [stepSpec, hall]
      rw [hs]
      obtain ⟨h1, h2⟩ := ih (T.insert ty vals) B a
      refine ⟨?_, ?_⟩
      · rw [h1, lookup_insert]
        cases lastText valid r a with
        | some v => simp
        | none => by_cases e : ty = a <;> simp [e, hall]
      · rw [h2]; simp [hall]
    · have hs : stepSpec valid (T, B) (ty, vals) = (T, B.appendAt ty (binChunk valid vals)) := by
        simp [stepSpec, hall]
      have hne := binChunk_ne_nil valid vals hall
      rw [hs]
      obtain ⟨h1, h2⟩ := ih T (B.appendAt ty (binChunk valid vals)) a
      simp only [Bool.not_eq_true] at hall
      refine ⟨?_, ?_⟩
      · rw [h1]; simp [hall]
      · rw [h2, lookup_appendAt]
        by_cases e : ty = a
        · subst e
          by_cases hb : binVals valid r ty = [] <;> simp [hall, hb, hne]
        · simp [e]

theorem seOf_text (valid : Bytes → Bool) (e : Entry) (a : Bytes) :
    lookup (seOf valid e).text a = lastText valid e.attrs a := by
  simp [seOf, mapsOf, (fold_lookup valid e.attrs [] [] a).1, lookup]

theorem seOf_bin (valid : Bytes → Bool) (e : Entry) (a : Bytes) :
    lookup (seOf valid e).bin a =
      if binVals valid e.attrs a = [] then none else some (binVals valid e.attrs a) := by
  simp [seOf, mapsOf, (fold_lookup valid e.attrs [] [] a).2, lookup]

theorem construct_entryTlv (valid : Bytes → Bool) (e : Entry) (h : ValidNames valid e) :
    constructWith valid (entryTlv e) = .ok (seOf valid e) := by
  have h2 : e.attrs.all (fun p => valid p.1) = true := List.all_eq_true.mpr h.2
  simp [constructWith_eq, readEntry_entryTlv, h.1, h2]

theorem construct_entryTlv_invalid (valid : Bytes → Bool) (e : Entry) (h : ¬ ValidNames valid e) :
    constructWith valid (entryTlv e) = .panic := by
  have h2 : ¬ ((valid e.dn && e.attrs.all (fun p => valid p.1)) = true) := by
    intro c
    simp only [Bool.and_eq_true] at c
    exact h ⟨c.1, List.all_eq_true.mp c.2⟩
  simp only [constructWith_eq, readEntry_entryTlv, h2]
  simp

/-! ### attribute types that do not occur / occur once -/

theorem absent_type (valid : Bytes → Bool) (as : List (Bytes × List Bytes)) (a : Bytes)
    (h : a ∉ as.map (·.1)) : lastText valid as a = none ∧ binVals valid as a = [] := by
  induction as with
  | nil => simp [lastText, binVals]
  | cons p r ih =>
    simp only [List.map_cons, List.mem_cons, not_or] at h
    obtain ⟨i1, i2⟩ := ih h.2
    have : ¬ p.1 = a := fun e => h.1 e.symm
    rw [lastText_cons, binVals_cons, i1, i2]
    simp [this]

theorem distinct_type (valid : Bytes → Bool) (as : List (Bytes × List Bytes)) (a : Bytes) (vals : List Bytes)
    (hn : (as.map (·.1)).Nodup) (hm : (a, vals) ∈ as) :
    lastText valid as a = (if vals.all valid = true then some vals else none) ∧
    binVals valid as a = (if vals.all valid = true then [] else binChunk valid vals) := by
  induction as with
  | nil => simp at hm
  | cons p r ih =>
    simp only [List.map_cons, List.nodup_cons] at hn
    rw [lastText_cons, binVals_cons]
    rcases List.mem_cons.mp hm with e | hm'
    · subst e
      obtain ⟨i1, i2⟩ := absent_type valid r a hn.1
      rw [i1, i2]
      by_cases hall : vals.all valid = true <;> simp [hall]
    · obtain ⟨i1, i2⟩ := ih hn.2 hm'
      have : ¬ p.1 = a := by
        intro e
        apply hn.1
        rw [e]
        exact List.mem_map.mpr ⟨(a, vals), hm', rfl⟩
      rw [i1, i2]
      by_cases hall : vals.all valid = true <;> simp [hall, this]

theorem type_of_lastText (valid : Bytes → Bool) (as : List (Bytes × List Bytes)) (a : Bytes)
    (h : lastText valid as a ≠ none) : a ∈ as.map (·.1) :=
  Classical.byContradiction fun c => h (absent_type valid as a c).1

theorem type_of_binVals (valid : Bytes → Bool) (as : List (Bytes × List Bytes)) (a : Bytes)
    (h : binVals valid as a ≠ []) : a ∈ as.map (·.1) :=
  Classical.byContradiction fun c => h (absent_type valid as a c).2

end Ldap3V

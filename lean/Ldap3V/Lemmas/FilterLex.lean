/- Attribute descriptions: the model's `attributedescription` / `attributetype` recognise exactly
`Spec.Filter.IsAttrDesc .lib` / `IsOid .lib` (longest match). -/
import Ldap3V.Lemmas.FilterComb
import Ldap3V.Spec.Filter
namespace Ldap3V.Filter
open Ldap3V.Spec.Filter

/-! ## character classes: the spec's and the model's coincide -/

theorem ALPHA_eq (c : UInt8) : ALPHA c = isAlpha c := rfl
theorem DIGIT_eq (c : UInt8) : DIGIT c = isDigit c := rfl
theorem keychar_eq (c : UInt8) : keychar c = isAlnumHyphen c := rfl

theorem alpha_alnumHyphen {c : UInt8} (h : isAlpha c = true) : isAlnumHyphen c = true := by
  simp [isAlnumHyphen, isAlnum, h]
theorem digit_alnumHyphen {c : UInt8} (h : isDigit c = true) : isAlnumHyphen c = true := by
  simp [isAlnumHyphen, isAlnum, h]
theorem alpha_not_digit {c : UInt8} (h : isAlpha c = true) : isDigit c = false := by
  simp [isAlpha, isDigit] at *; omega
theorem ldigit_digit {c : UInt8} (h : LDIGIT c = true) : isDigit c = true := by
  simp [LDIGIT, isDigit] at *; omega
theorem ldigit_ne_zero {c : UInt8} (h : LDIGIT c = true) : c ≠ 0x30 := by
  intro e; subst e; simp [LDIGIT] at h
theorem digit_ne_zero_ldigit {c : UInt8} (h : isDigit c = true) (h0 : c ≠ 0x30) : LDIGIT c = true := by
  have : c.toNat ≠ 0x30 := fun e => h0 (UInt8.toNat_inj.mp (by simpa using e))
  simp [LDIGIT, isDigit] at *; omega

/-! ## longest match of a character class -/

/-- the string is empty or starts with an octet outside the class -/
def Stop (c : UInt8 → Bool) : Bytes → Prop
  | [] => True
  | x :: _ => c x = false

theorem takeWhile_stop {c : UInt8 → Bool} {r : Bytes} (h : Stop c r) :
    r.takeWhile c = [] ∧ r.dropWhile c = r := by
  cases r with
  | nil => simp
  | cons x r => simp [Stop] at h; simp [h]

theorem takeWhile_app {c : UInt8 → Bool} {s r : Bytes} (hs : ∀ x ∈ s, c x = true) (h : Stop c r) :
    (s ++ r).takeWhile c = s ∧ (s ++ r).dropWhile c = r := by
  induction s with
  | nil => simpa using takeWhile_stop h
  | cons a s ih =>
    have ha : c a = true := hs a (by simp)
    have := ih (fun x hx => hs x (by simp [hx]))
    simp [ha, this]

theorem takeWhile_split (c : UInt8 → Bool) (i : Bytes) :
    i = i.takeWhile c ++ i.dropWhile c ∧ (∀ x ∈ i.takeWhile c, c x = true) ∧ Stop c (i.dropWhile c) := by
  induction i with
  | nil => simp [Stop]
  | cons a i ih =>
    by_cases ha : c a = true
    · rw [List.takeWhile_cons_of_pos ha, List.dropWhile_cons_of_pos ha]
      refine ⟨by rw [List.cons_append, ← ih.1], ?_, ih.2.2⟩
      intro x hx
      cases hx with
      | head => exact ha
      | tail _ hx => exact ih.2.1 x hx
    · rw [List.takeWhile_cons_of_neg ha, List.dropWhile_cons_of_neg ha]
      simp at ha
      exact ⟨rfl, by simp, ha⟩

/-! ## number -/

theorem isNumber_iff (n : Bytes) : isNumber n = true ↔
    n ≠ [] ∧ (∀ x ∈ n, isDigit x = true) ∧ (n.length = 1 ∨ ∃ c t, n = c :: t ∧ c ≠ 0x30) := by
  cases n with
  | nil => simp [isNumber]
  | cons c t =>
    cases t with
    | nil => simp [isNumber, DIGIT_eq]
    | cons d t =>
      simp only [isNumber, Bool.and_eq_true, List.all_eq_true, DIGIT_eq]
      constructor
      · rintro ⟨h1, h2⟩
        refine ⟨by simp, ?_, Or.inr ⟨c, d :: t, rfl, ldigit_ne_zero h1⟩⟩
        intro x hx
        cases hx with
        | head => exact ldigit_digit h1
        | tail _ hx => exact h2 x hx
      · rintro ⟨_, h2, h3⟩
        rcases h3 with h3 | ⟨c', t', e, hc⟩
        · simp at h3
        · cases e
          exact ⟨digit_ne_zero_ldigit (h2 c (by simp)) hc, fun x hx => h2 x (by simp [hx])⟩

theorem number_eq (i : Bytes) : number i =
    if (i.takeWhile isDigit).isEmpty then .err
    else if isNumber (i.takeWhile isDigit) then .ok (i.takeWhile isDigit) (i.dropWhile isDigit) else .err := by
  unfold number verifyP digit1 takeWhile1 andThen
  dsimp only
  have hall : ∀ x ∈ i.takeWhile isDigit, isDigit x = true := (takeWhile_split isDigit i).2.1
  generalize i.dropWhile isDigit = rr
  revert hall
  generalize i.takeWhile isDigit = d
  intro hall
  cases d with
  | nil => simp
  | cons c t =>
    cases t with
    | nil =>
      have : isDigit c = true := hall c (by simp)
      simp [isNumber, DIGIT_eq, this]
    | cons e t =>
      have hn := isNumber_iff (c :: e :: t)
      by_cases h0 : c = 0x30
      · have : isNumber (c :: e :: t) = false := by
          cases hx : isNumber (c :: e :: t) with
          | false => rfl
          | true =>
            obtain ⟨_, _, h3⟩ := hn.mp hx
            rcases h3 with h3 | ⟨c', t', e', hc⟩
            · simp at h3
            · cases e'; exact absurd h0 hc
        subst h0
        simp [this]
      · have : isNumber (c :: e :: t) = true :=
          hn.mpr ⟨by simp, hall, Or.inr ⟨c, e :: t, rfl, h0⟩⟩
        have hb : (c != 0x30) = true := by simp [h0]
        simp [this, hb]

theorem np_number : NP number := by
  intro i; rw [number_eq]; split
  · simp
  · split <;> simp

theorem number_sound {i n r : Bytes} (h : number i = .ok n r) : i = n ++ r ∧ isNumber n = true := by
  rw [number_eq] at h
  split at h
  · cases h
  · split at h
    · rename_i hn
      cases h
      exact ⟨(takeWhile_split isDigit i).1, hn⟩
    · cases h

theorem number_complete {n r : Bytes} (hn : isNumber n = true) (hr : Stop isDigit r) :
    number (n ++ r) = .ok n r := by
  obtain ⟨hne, hall, _⟩ := (isNumber_iff n).mp hn
  obtain ⟨h1, h2⟩ := takeWhile_app hall hr
  rw [number_eq, h1, h2]
  have : n.isEmpty = false := by cases n <;> simp_all
  simp [hn, this]

theorem number_err_of_head {c : UInt8} {r : Bytes} (h : isDigit c = false) : number (c :: r) = .err := by
  rw [number_eq]; simp [List.takeWhile, h]

theorem number_nil : number [] = .err := by rw [number_eq]; simp

/-! ## `sep item` repeated -/

/-- the element relation of `many0(preceded(tag(sep), item))` -/
def SepR (sep : UInt8) (ok : Bytes → Bool) (o s : Bytes) : Prop := ok o = true ∧ s = sep :: o

theorem many_sepR {sep : UInt8} {ok : Bytes → Bool} {os : List Bytes} {b : Bytes}
    (h : Many (SepR sep ok) os b) : (∀ o ∈ os, ok o = true) ∧ b = (os.map (fun o => sep :: o)).flatten := by
  induction h with
  | nil => simp
  | cons hr _ ih =>
    obtain ⟨h1, h2⟩ := hr
    subst h2
    refine ⟨?_, by simp [ih.2]⟩
    intro o ho
    cases ho with
    | head => exact h1
    | tail _ ho => exact ih.1 o ho

theorem sepR_many {sep : UInt8} {ok : Bytes → Bool} (os : List Bytes) (h : ∀ o ∈ os, ok o = true) :
    Many (SepR sep ok) os (os.map (fun o => sep :: o)).flatten := by
  induction os with
  | nil => exact .nil
  | cons o os ih =>
    simp only [List.map_cons, List.flatten_cons]
    exact .cons ⟨h o (by simp), rfl⟩ (ih fun x hx => h x (by simp [hx]))

/-! ## numericoid -/

def dotNumber : P Bytes := preceded (tag [0x2E]) number

theorem dotNumber_sound {i o r : Bytes} (h : dotNumber i = .ok o r) :
    ∃ s, i = s ++ r ∧ SepR 0x2E isNumber o s := by
  obtain ⟨_, r1, h1, h2⟩ := andThen_ok h
  obtain ⟨_, e1⟩ := tag_ok h1
  obtain ⟨e2, hn⟩ := number_sound h2
  exact ⟨0x2E :: o, by rw [e1, e2]; simp, hn, rfl⟩

theorem dotNumber_complete {o s rest : Bytes} (h : SepR 0x2E isNumber o s) (hr : Stop isDigit rest) :
    dotNumber (s ++ rest) = .ok o rest := by
  obtain ⟨hn, rfl⟩ := h
  have : tag [0x2E] (0x2E :: o ++ rest) = .ok [0x2E] (o ++ rest) := tag_append [0x2E] (o ++ rest)
  unfold dotNumber preceded
  rw [andThen_eq this]
  exact number_complete hn hr

theorem dotNumber_err {r : Bytes} (h : ∀ x r', r = x :: r' → x ≠ 0x2E) : dotNumber r = .err := by
  unfold dotNumber preceded
  apply andThen_err
  cases r with
  | nil => exact tag1_nil _
  | cons x r' =>
    rw [tag1_cons]
    have := h x r' rfl
    simp [Ne.symm this]

/-- the next octet cannot continue an oid: not `keychar`, not `.` -/
def OidStop : Bytes → Prop
  | [] => True
  | x :: _ => isAlnumHyphen x = false ∧ x ≠ 0x2E

theorem OidStop.digit {r : Bytes} (h : OidStop r) : Stop isDigit r := by
  cases r with
  | nil => trivial
  | cons x r =>
    simp only [OidStop] at h
    simp only [Stop]
    cases hd : isDigit x with
    | false => rfl
    | true => rw [digit_alnumHyphen hd] at h; exact absurd h.1 (by simp)

theorem OidStop.alnum {r : Bytes} (h : OidStop r) : Stop isAlnumHyphen r := by
  cases r with
  | nil => trivial
  | cons x r => exact h.1

theorem OidStop.noDot {r : Bytes} (h : OidStop r) : ∀ x r', r = x :: r' → x ≠ 0x2E := by
  intro x r' e; subst e; exact h.2

def numericoidBody : P Unit := andThen number fun _ => andThen (many0 dotNumber) fun _ => ret ()

theorem numericoid_def : numericoid = recognize numericoidBody := rfl

theorem numericoid_sound {i x r : Bytes} (h : numericoid i = .ok x r) :
    i = x ++ r ∧ IsNumericOid .lib x := by
  rw [numericoid_def] at h
  obtain ⟨_, hb, hx⟩ := recognize_ok h
  obtain ⟨n0, r1, h1, hb⟩ := andThen_ok hb
  obtain ⟨os, r2, h2, hb⟩ := andThen_ok hb
  obtain ⟨_, e⟩ := ret_ok hb
  subst e
  obtain ⟨e1, hn0⟩ := number_sound h1
  obtain ⟨b, e2, hm, _⟩ := many0Go_sound (R := SepR 0x2E isNumber) (fun i o r h => dotNumber_sound h) _ _ _ _ h2
  obtain ⟨hall, eb⟩ := many_sepR hm
  have ei : i = (n0 ++ b) ++ r := by rw [e1, e2]; simp
  have : x = n0 ++ b := by rw [hx, ei]; exact take_of_append
  subst this
  exact ⟨ei, n0, os, hn0, hall, Or.inl rfl, by rw [eb]⟩

theorem numericoid_complete {x r : Bytes} (hx : IsNumericOid .lib x) (hr : OidStop r) :
    numericoid (x ++ r) = .ok x r := by
  obtain ⟨n0, ns, hn0, hall, _, rfl⟩ := hx
  rw [numericoid_def]
  apply recognize_append (a := ())
  have hm := sepR_many (sep := 0x2E) (ok := isNumber) ns hall
  have hstop : Stop isDigit ((ns.map (fun o => (0x2E : UInt8) :: o)).flatten ++ r) := by
    cases ns with
    | nil => simpa using hr.digit
    | cons n ns => simp [Stop, isDigit]
  have h1 : number (n0 ++ ((ns.map (fun o => (0x2E : UInt8) :: o)).flatten ++ r)) = .ok n0 _ :=
    number_complete hn0 hstop
  have h2 : many0 dotNumber ((ns.map (fun o => (0x2E : UInt8) :: o)).flatten ++ r) = .ok ns r := by
    unfold many0
    exact many0Go_complete (R := SepR 0x2E isNumber) (stop := Stop isDigit)
      (fun o s rest h hs => dotNumber_complete h hs)
      (fun o s h => by rw [h.2]; simp)
      (fun o s rest h => by rw [h.2]; simp [Stop, isDigit])
      hm _ r hr.digit (dotNumber_err hr.noDot) (by omega)
  unfold numericoidBody
  rw [List.append_assoc, andThen_eq h1, andThen_eq h2]
  rfl

theorem numericoid_err_of_head {c : UInt8} {r : Bytes} (h : isDigit c = false) : numericoid (c :: r) = .err := by
  rw [numericoid_def]
  apply recognize_err
  exact andThen_err (number_err_of_head h)

theorem numericoid_nil : numericoid [] = .err := by
  rw [numericoid_def]
  apply recognize_err
  exact andThen_err number_nil

theorem np_dotNumber : NP dotNumber := np_preceded (np_tag _) np_number

theorem np_numericoid : NP numericoid :=
  np_recognize (np_andThen np_number fun _ => np_andThen (np_many0 np_dotNumber) fun _ => np_ret _)

/-! ## descr -/

def descrBody : P Unit :=
  andThen (verify beU8 isAlpha) fun _ => andThen (takeWhile isAlnumHyphen) fun _ => ret ()

theorem descr_def : descr = recognize descrBody := rfl

theorem descrBody_cons (c : UInt8) (r : Bytes) :
    descrBody (c :: r) = if isAlpha c then .ok () (r.dropWhile isAlnumHyphen) else .err := by
  unfold descrBody verify andThen beU8
  by_cases h : isAlpha c = true
  · simp [h, ret, takeWhile]
  · simp at h; simp [h, failP]

theorem descr_sound {i x r : Bytes} (h : descr i = .ok x r) : i = x ++ r ∧ isDescr x = true := by
  rw [descr_def] at h
  obtain ⟨_, hb, hx⟩ := recognize_ok h
  cases i with
  | nil => simp [descrBody, verify, andThen, beU8] at hb
  | cons c i =>
    rw [descrBody_cons] at hb
    split at hb
    · rename_i hc
      cases hb
      obtain ⟨e, hall, _⟩ := takeWhile_split isAlnumHyphen i
      have ei : c :: i = (c :: i.takeWhile isAlnumHyphen) ++ i.dropWhile isAlnumHyphen := by
        rw [List.cons_append, ← e]
      have : x = c :: i.takeWhile isAlnumHyphen := by
        rw [hx]
        have := take_of_append (s := c :: i.takeWhile isAlnumHyphen) (r := i.dropWhile isAlnumHyphen)
        rw [← ei] at this
        exact this
      subst this
      refine ⟨ei, ?_⟩
      simp only [isDescr, ALPHA_eq, hc, Bool.true_and, List.all_eq_true]
      intro y hy; rw [keychar_eq]; exact hall y hy
    · cases hb

theorem descr_complete {x r : Bytes} (hx : isDescr x = true) (hr : Stop isAlnumHyphen r) :
    descr (x ++ r) = .ok x r := by
  cases x with
  | nil => simp [isDescr] at hx
  | cons c t =>
    simp only [isDescr, ALPHA_eq, Bool.and_eq_true, List.all_eq_true] at hx
    rw [descr_def]
    apply recognize_append (a := ())
    rw [List.cons_append, descrBody_cons]
    have := takeWhile_app (c := isAlnumHyphen) (s := t) (r := r) (fun y hy => by rw [← keychar_eq]; exact hx.2 y hy) hr
    simp [hx.1, this.2]

theorem descr_err_of_head {c : UInt8} {r : Bytes} (h : isAlpha c = false) : descr (c :: r) = .err := by
  rw [descr_def]; apply recognize_err; rw [descrBody_cons]; simp [h]

theorem descr_nil : descr [] = .err := by
  rw [descr_def]; apply recognize_err; simp [descrBody, verify, andThen, beU8]

theorem np_descr : NP descr :=
  np_recognize (np_andThen (np_verify _ np_beU8) fun _ => np_andThen (np_takeWhile _) fun _ => np_ret _)

/-! ## attributetype -/

theorem attributetype_sound {i x r : Bytes} (h : attributetype i = .ok x r) : i = x ++ r ∧ IsOid .lib x := by
  rcases alt_ok h with h | ⟨_, h⟩
  · obtain ⟨e, hx⟩ := numericoid_sound h
    exact ⟨e, Or.inr hx⟩
  · obtain ⟨e, hx⟩ := descr_sound h
    exact ⟨e, Or.inl hx⟩

theorem attributetype_complete {x r : Bytes} (hx : IsOid .lib x) (hr : OidStop r) :
    attributetype (x ++ r) = .ok x r := by
  rcases hx with hx | hx
  · cases x with
    | nil => simp [isDescr] at hx
    | cons c t =>
      have hc : isAlpha c = true := by
        simp only [isDescr, ALPHA_eq, Bool.and_eq_true] at hx; exact hx.1
      unfold attributetype
      rw [List.cons_append, alt_right (numericoid_err_of_head (alpha_not_digit hc))]
      exact descr_complete hx hr.alnum
  · exact alt_left (numericoid_complete hx hr)

theorem attributetype_err_of_head {c : UInt8} {r : Bytes} (h : isAlnumHyphen c = false) :
    attributetype (c :: r) = .err := by
  have h1 : isDigit c = false := by
    cases hd : isDigit c with
    | false => rfl
    | true => rw [digit_alnumHyphen hd] at h; cases h
  have h2 : isAlpha c = false := by
    cases hd : isAlpha c with
    | false => rfl
    | true => rw [alpha_alnumHyphen hd] at h; cases h
  unfold attributetype
  rw [alt_right (numericoid_err_of_head h1)]
  exact descr_err_of_head h2

theorem attributetype_nil : attributetype [] = .err := by
  unfold attributetype; rw [alt_right numericoid_nil]; exact descr_nil

theorem np_attributetype : NP attributetype := np_alt np_numericoid np_descr

/-- an oid starts with a letter or a digit, and consists of `keychar`s and dots -/
theorem oid_chars {d : Dialect} {x : Bytes} (h : IsOid d x) :
    (∃ c t, x = c :: t ∧ (isAlpha c = true ∨ isDigit c = true)) ∧
    ∀ y ∈ x, isAlnumHyphen y = true ∨ y = 0x2E := by
  rcases h with h | ⟨n0, ns, hn0, hall, _, rfl⟩
  · cases x with
    | nil => simp [isDescr] at h
    | cons c t =>
      simp only [isDescr, ALPHA_eq, Bool.and_eq_true, List.all_eq_true] at h
      refine ⟨⟨c, t, rfl, Or.inl h.1⟩, ?_⟩
      intro y hy
      cases hy with
      | head => exact Or.inl (alpha_alnumHyphen h.1)
      | tail _ hy => exact Or.inl (by rw [← keychar_eq]; exact h.2 y hy)
  · obtain ⟨hne, hd, _⟩ := (isNumber_iff n0).mp hn0
    constructor
    · cases n0 with
      | nil => exact absurd rfl hne
      | cons c t => exact ⟨c, _, rfl, Or.inr (hd c (by simp))⟩
    · intro y hy
      simp only [List.mem_append, List.mem_flatten, List.mem_map] at hy
      rcases hy with hy | ⟨l, ⟨n, hn, rfl⟩, hy⟩
      · exact Or.inl (digit_alnumHyphen (hd y hy))
      · cases hy with
        | head => exact Or.inr rfl
        | tail _ hy =>
          exact Or.inl (digit_alnumHyphen (((isNumber_iff n).mp (hall n hn)).2.1 y hy))

/-! ## attributedescription -/

def semiOption : P Bytes := preceded (tag [0x3B]) (takeWhile1 isAlnumHyphen)

def attrBody : P Unit := andThen attributetype fun _ => andThen (many0 semiOption) fun _ => ret ()

theorem attributedescription_def : attributedescription = recognize attrBody := rfl

theorem isOption_iff (o : Bytes) : isOption o = true ↔ o ≠ [] ∧ ∀ x ∈ o, isAlnumHyphen x = true := by
  cases o <;> simp [isOption, keychar_eq]

theorem semiOption_sound {i o r : Bytes} (h : semiOption i = .ok o r) :
    ∃ s, i = s ++ r ∧ SepR 0x3B isOption o s := by
  obtain ⟨_, r1, h1, h2⟩ := andThen_ok h
  obtain ⟨_, e1⟩ := tag_ok h1
  unfold takeWhile1 at h2
  split at h2
  · cases h2
  · rename_i hne
    cases h2
    obtain ⟨e, hall, _⟩ := takeWhile_split isAlnumHyphen r1
    refine ⟨0x3B :: r1.takeWhile isAlnumHyphen, ?_, ?_, rfl⟩
    · rw [e1]; show (0x3B : UInt8) :: r1 = 0x3B :: (r1.takeWhile isAlnumHyphen ++ r1.dropWhile isAlnumHyphen)
      rw [← e]
    · rw [isOption_iff]
      refine ⟨?_, hall⟩
      intro e0; rw [e0] at hne; simp at hne

theorem semiOption_complete {o s rest : Bytes} (h : SepR 0x3B isOption o s) (hr : Stop isAlnumHyphen rest) :
    semiOption (s ++ rest) = .ok o rest := by
  obtain ⟨ho, rfl⟩ := h
  obtain ⟨hne, hall⟩ := (isOption_iff o).mp ho
  have : tag [0x3B] (0x3B :: o ++ rest) = .ok [0x3B] (o ++ rest) := tag_append [0x3B] (o ++ rest)
  unfold semiOption preceded
  rw [andThen_eq this]
  obtain ⟨h1, h2⟩ := takeWhile_app hall hr
  unfold takeWhile1
  rw [h1, h2]
  have : o.isEmpty = false := by cases o <;> simp_all
  simp [this]

theorem semiOption_err {r : Bytes} (h : ∀ x r', r = x :: r' → x ≠ 0x3B) : semiOption r = .err := by
  unfold semiOption preceded
  apply andThen_err
  cases r with
  | nil => exact tag1_nil _
  | cons x r' =>
    rw [tag1_cons]
    have := h x r' rfl
    simp [Ne.symm this]

/-- the next octet cannot continue an attribute description: not `keychar`, `.` or `;` -/
def AttrStop : Bytes → Prop
  | [] => True
  | x :: _ => isAlnumHyphen x = false ∧ x ≠ 0x2E ∧ x ≠ 0x3B

theorem AttrStop.oid {r : Bytes} (h : AttrStop r) : OidStop r := by
  cases r with
  | nil => trivial
  | cons x r => exact ⟨h.1, h.2.1⟩

theorem AttrStop.noSemi {r : Bytes} (h : AttrStop r) : ∀ x r', r = x :: r' → x ≠ 0x3B := by
  intro x r' e; subst e; exact h.2.2

theorem attributedescription_sound {i x r : Bytes} (h : attributedescription i = .ok x r) :
    i = x ++ r ∧ IsAttrDesc .lib x := by
  rw [attributedescription_def] at h
  obtain ⟨_, hb, hx⟩ := recognize_ok h
  obtain ⟨t, r1, h1, hb⟩ := andThen_ok hb
  obtain ⟨os, r2, h2, hb⟩ := andThen_ok hb
  obtain ⟨_, e⟩ := ret_ok hb
  subst e
  obtain ⟨e1, ht⟩ := attributetype_sound h1
  obtain ⟨b, e2, hm, _⟩ := many0Go_sound (R := SepR 0x3B isOption) (fun i o r h => semiOption_sound h) _ _ _ _ h2
  obtain ⟨hall, eb⟩ := many_sepR hm
  have ei : i = (t ++ b) ++ r := by rw [e1, e2]; simp
  have : x = t ++ b := by rw [hx, ei]; exact take_of_append
  subst this
  exact ⟨ei, t, os, ht, hall, by rw [eb]⟩

theorem attributedescription_complete {x r : Bytes} (hx : IsAttrDesc .lib x) (hr : AttrStop r) :
    attributedescription (x ++ r) = .ok x r := by
  obtain ⟨t, opts, ht, hall, rfl⟩ := hx
  rw [attributedescription_def]
  apply recognize_append (a := ())
  have hm := sepR_many (sep := 0x3B) (ok := isOption) opts hall
  have hstop : OidStop ((opts.map (fun o => (0x3B : UInt8) :: o)).flatten ++ r) := by
    cases opts with
    | nil => simpa using hr.oid
    | cons n ns => simp [OidStop, isAlnumHyphen, isAlnum, isAlpha, isDigit]
  have h1 : attributetype (t ++ ((opts.map (fun o => (0x3B : UInt8) :: o)).flatten ++ r)) = .ok t _ :=
    attributetype_complete ht hstop
  have h2 : many0 semiOption ((opts.map (fun o => (0x3B : UInt8) :: o)).flatten ++ r) = .ok opts r := by
    unfold many0
    exact many0Go_complete (R := SepR 0x3B isOption) (stop := Stop isAlnumHyphen)
      (fun o s rest h hs => semiOption_complete h hs)
      (fun o s h => by rw [h.2]; simp)
      (fun o s rest h => by rw [h.2]; simp [Stop, isAlnumHyphen, isAlnum, isAlpha, isDigit])
      hm _ r hr.oid.alnum (semiOption_err hr.noSemi) (by omega)
  unfold attrBody
  rw [List.append_assoc, andThen_eq h1, andThen_eq h2]
  rfl

theorem attributedescription_err_of_head {c : UInt8} {r : Bytes} (h : isAlnumHyphen c = false) :
    attributedescription (c :: r) = .err := by
  rw [attributedescription_def]
  apply recognize_err
  exact andThen_err (attributetype_err_of_head h)

theorem attributedescription_nil : attributedescription [] = .err := by
  rw [attributedescription_def]
  apply recognize_err
  exact andThen_err attributetype_nil

theorem np_semiOption : NP semiOption := np_preceded (np_tag _) (np_takeWhile1 _)

theorem np_attributedescription : NP attributedescription :=
  np_recognize (np_andThen np_attributetype fun _ => np_andThen (np_many0 np_semiOption) fun _ => np_ret _)

/-- an attribute description starts with a letter or digit and contains only `keychar`, `.`, `;` -/
theorem attrDesc_chars {d : Dialect} {x : Bytes} (h : IsAttrDesc d x) :
    (∃ c t, x = c :: t ∧ (isAlpha c = true ∨ isDigit c = true)) ∧
    ∀ y ∈ x, isAlnumHyphen y = true ∨ y = 0x2E ∨ y = 0x3B := by
  obtain ⟨t, opts, ht, hall, rfl⟩ := h
  obtain ⟨⟨c, t', rfl, hc⟩, hch⟩ := oid_chars ht
  refine ⟨⟨c, _, rfl, hc⟩, ?_⟩
  intro y hy
  simp only [List.mem_append, List.mem_flatten, List.mem_map] at hy
  rcases hy with hy | ⟨l, ⟨o, ho, rfl⟩, hy⟩
  · rcases hch y hy with h | h
    · exact Or.inl h
    · exact Or.inr (Or.inl h)
  · cases hy with
    | head => exact Or.inr (Or.inr rfl)
    | tail _ hy => exact Or.inl (((isOption_iff o).mp (hall o ho)).2 y hy)

end Ldap3V.Filter

/-
Well-formedness of the search channels of Model/Conn.lean, for EVERY reachable state (no freshness
hypothesis): the receive cursor is within the queue, every queued item is classified by its
protocolOp number the way the driver classifies (`.entry` ⇔ 4 / 25 / 19, `.done` ⇔ 5 with a
well-formed LDAPResult), and a driver that has ended holds no sender of any channel.
-/
import Ldap3V.Lemmas.ConnStream
namespace Ldap3V.ConnStream
open Ldap3V Ldap3V.Conn

/-- the protocolOp numbers the driver hands on as stream items -/
def isItemOp (n : Nat) : Bool := n == 4 || n == 25 || n == 19

def clsOk : Item → Prop
  | .entry f => isItemOp f.op = true
  | .done f => f.op = 5 ∧ f.good = true

def ChanOk (ch : Chan) : Prop := ch.taken ≤ ch.items.length ∧ ∀ it ∈ ch.items, clsOk it

structure ChanWF (s : St) : Prop where
  ok : ∀ ch ∈ s.chans, ChanOk ch
  dead : s.drv ≠ .running → s.searchmap = [] ∧ s.opQ = []

theorem ChanWF.init (N : Nat) : ChanWF (Conn.init N) := ⟨by simp [Conn.init], by simp [Conn.init]⟩

theorem ChanWF.get {s : St} (h : ChanWF s) {c : Nat} {ch : Chan} (hc : s.chans[c]? = some ch) : ChanOk ch :=
  h.ok ch (List.mem_of_getElem? hc)

theorem ok_set {cs : List Chan} (h : ∀ ch ∈ cs, ChanOk ch) (c : Nat) (ch' : Chan) (h' : ChanOk ch') :
    ∀ x ∈ cs.set c ch', ChanOk x := by
  intro x hx
  rcases List.mem_or_eq_of_mem_set hx with hx | rfl
  · exact h x hx
  · exact h'

theorem ok_modify {cs : List Chan} (h : ∀ ch ∈ cs, ChanOk ch) (c : Nat) (g : Chan → Chan)
    (hg : ∀ ch, ChanOk ch → ChanOk (g ch)) : ∀ x ∈ modifyChan cs c g, ChanOk x := by
  unfold modifyChan
  cases hc : cs[c]? with
  | none => exact h
  | some ch => exact ok_set h c _ (hg ch (h ch (List.mem_of_getElem? hc)))

theorem ok_dropRx {cs : List Chan} (h : ∀ ch ∈ cs, ChanOk ch) (oc : Option Nat) : ∀ x ∈ dropRxOf cs oc, ChanOk x := by
  cases oc with
  | none => exact h
  | some c => exact ok_modify h c _ (fun ch hch => hch)

theorem chanWF_endDriver {s : St} (hok : ∀ ch ∈ s.chans, ChanOk ch) (how : Drv) : ChanWF (endDriver s how) :=
  ⟨hok, fun _ => ⟨rfl, rfl⟩⟩

theorem chanOk_push {ch : Chan} (h : ChanOk ch) (it : Item) (hit : clsOk it) :
    ChanOk { ch with items := ch.items ++ [it] } := by
  refine ⟨?_, ?_⟩
  · have := h.1
    simp only [List.length_append, List.length_singleton]
    omega
  · intro x hx
    simp only [List.mem_append, List.mem_singleton] at hx
    rcases hx with hx | rfl
    · exact h.2 x hx
    · exact hit

theorem chanWF_ite {s : St} (hr : s.drv = .running) {cs : List Chan} (hcs : ∀ x ∈ cs, ChanOk x)
    (sm : List (Nat × Nat)) (iu : List Nat) (b : Bool) :
    ChanWF (if b = true then ({ s with chans := cs, searchmap := sm, inUse := iu } : St) else { s with chans := cs }) := by
  cases b
  · exact ⟨hcs, fun hd => absurd hr hd⟩
  · exact ⟨hcs, fun hd => absurd hr hd⟩

theorem chanWF_routeSearch {s : St} (h : ChanWF s) (hr : s.drv = .running) (c : Nat) (f : Frame) :
    ChanWF (routeSearch s c f) := by
  unfold routeSearch
  generalize hcl : (if f.op = 4 ∨ f.op = 25 ∨ f.op = 19 then some (Item.entry f, false)
      else if f.op = 5 then (if f.good then some (Item.done f, true) else none) else none) = cl
  cases cl with
  | none => exact chanWF_endDriver h.ok _
  | some pr =>
    obtain ⟨item, isDone⟩ := pr
    have hcls : clsOk item := by
      split at hcl
      · next h4 =>
        cases hcl
        show isItemOp f.op = true
        rcases h4 with h4 | h4 | h4 <;> simp [isItemOp, h4]
      · split at hcl
        · next h5 =>
          split at hcl
          · next hg => cases hcl; exact ⟨h5, hg⟩
          · cases hcl
        · cases hcl
    have key : ∀ (alive : Bool),
        (∀ x ∈ (if alive = true then modifyChan s.chans c fun ch => { ch with items := ch.items ++ [item] } else s.chans),
          ChanOk x) := by
      intro alive
      cases alive
      · exact h.ok
      · exact ok_modify h.ok c _ (fun ch hch => chanOk_push hch item hcls)
    exact chanWF_ite hr (key _) _ _ _

theorem ChanWF.step {s s' : St} {ob : Obs} (h : ChanWF s) (e : Ev) (hs : Conn.step s e = some (s', ob)) :
    ChanWF s' := by
  cases e with
  | alloc kind =>
    simp only [Conn.step] at hs
    cases hn : nextId s.N s.last s.inUse with
    | diverge => rw [hn] at hs; cases hs
    | panic => rw [hn] at hs; simp only [Option.some.injEq, Prod.mk.injEq] at hs; rw [← hs.1]; exact h
    | ok id =>
      rw [hn] at hs
      simp only [Option.some.injEq, Prod.mk.injEq] at hs
      obtain ⟨rfl, _⟩ := hs
      refine ⟨?_, h.dead⟩
      intro ch hch
      cases kind <;> simp only at hch <;> try exact h.ok ch hch
      simp only [List.mem_append, List.mem_singleton] at hch
      rcases hch with hch | rfl
      · exact h.ok ch hch
      · exact ⟨Nat.le_refl _, fun it hit => by cases hit⟩
  | enqueue i tmo =>
    simp only [Conn.step] at hs
    cases ho : s.ops[i]? with
    | none => rw [ho] at hs; cases hs
    | some o =>
      rw [ho] at hs
      simp only at hs
      split at hs
      · cases hs
      · split at hs
        · simp only [Option.some.injEq, Prod.mk.injEq] at hs
          obtain ⟨rfl, _⟩ := hs
          exact ⟨h.ok, h.dead⟩
        · next hrun =>
          simp only [Option.some.injEq, Prod.mk.injEq] at hs
          obtain ⟨rfl, _⟩ := hs
          exact ⟨h.ok, fun hd => absurd hd hrun⟩
  | poll i =>
    simp only [Conn.step] at hs
    cases ho : s.ops[i]? with
    | none => rw [ho] at hs; cases hs
    | some o =>
      rw [ho] at hs
      simp only at hs
      split at hs
      · cases hs
      · split at hs
        all_goals try (
          simp only [Option.some.injEq, Prod.mk.injEq] at hs
          rw [← hs.1]
          first | exact ⟨h.ok, h.dead⟩ | exact ⟨ok_dropRx h.ok _, h.dead⟩)
        split at hs
        · split at hs
          · split at hs
            · simp only [Option.some.injEq, Prod.mk.injEq] at hs; rw [← hs.1]; exact ⟨ok_dropRx h.ok _, h.dead⟩
            · simp only [Option.some.injEq, Prod.mk.injEq] at hs; rw [← hs.1]; exact ⟨ok_dropRx h.ok _, h.dead⟩
          · simp only [Option.some.injEq, Prod.mk.injEq] at hs; rw [← hs.1]; exact h
        · simp only [Option.some.injEq, Prod.mk.injEq] at hs; rw [← hs.1]; exact h
  | recv c dl =>
    simp only [Conn.step] at hs
    cases hc : s.chans[c]? with
    | none => rw [hc] at hs; cases hs
    | some ch =>
      rw [hc] at hs
      simp only at hs
      have hok := h.get hc
      split at hs
      · cases hs
      · split at hs
        · cases hs
        · split at hs
          · next it hit =>
            simp only [Option.some.injEq, Prod.mk.injEq] at hs
            rw [← hs.1]
            have hlt : ch.taken < ch.items.length := (List.getElem?_eq_some_iff.mp hit).1
            exact ⟨ok_set h.ok c _ ⟨hlt, hok.2⟩, h.dead⟩
          · split at hs
            · simp only [Option.some.injEq, Prod.mk.injEq] at hs; rw [← hs.1]; exact h
            · split at hs
              · split at hs
                · split at hs
                  · split at hs
                    · simp only [Option.some.injEq, Prod.mk.injEq] at hs; rw [← hs.1]
                      exact ⟨ok_set h.ok c _ hok, h.dead⟩
                    · simp only [Option.some.injEq, Prod.mk.injEq] at hs; rw [← hs.1]; exact h
                  · cases hs
                · simp only [Option.some.injEq, Prod.mk.injEq] at hs; rw [← hs.1]; exact h
              · simp only [Option.some.injEq, Prod.mk.injEq] at hs; rw [← hs.1]; exact h
  | finish c b =>
    simp only [Conn.step] at hs
    cases hc : s.chans[c]? with
    | none => rw [hc] at hs; cases hs
    | some ch =>
      rw [hc] at hs
      simp only at hs
      have hok := h.get hc
      split at hs
      · cases hs
      · split at hs
        · cases hs
        · split at hs
          · cases hs
          · simp only [Option.some.injEq, Prod.mk.injEq] at hs
            rw [← hs.1]
            exact ⟨ok_set h.ok c _ hok, h.dead⟩
  | dropHandles =>
    simp only [Conn.step, Option.some.injEq, Prod.mk.injEq] at hs; rw [← hs.1]; exact ⟨h.ok, h.dead⟩
  | drvScrub =>
    simp only [Conn.step] at hs
    split at hs
    · cases hs
    · next hrun =>
      split at hs
      · cases hs
      · simp only [Option.some.injEq, Prod.mk.injEq] at hs
        rw [← hs.1]
        exact ⟨h.ok, fun hd => absurd hd hrun⟩
  | drvOp sendOk =>
    simp only [Conn.step] at hs
    split at hs
    · cases hs
    · next hrun =>
      split at hs
      · cases hs
      · next i rest hq =>
        cases ho : s.ops[i]? with
        | none => rw [ho] at hs; cases hs
        | some o =>
          rw [ho] at hs
          simp only at hs
          split at hs
          · simp only [Option.some.injEq, Prod.mk.injEq] at hs
            rw [← hs.1]
            exact ⟨h.ok, fun hd => absurd hd hrun⟩
          · split at hs
            · simp only [Option.some.injEq, Prod.mk.injEq] at hs
              rw [← hs.1]
              exact chanWF_endDriver (s := { s with opQ := rest, ops := _, searchmap := _ }) h.ok _
            · split at hs
              · cases hs
              · cases hk : o.kind <;> (
                  simp only [hk, Option.some.injEq, Prod.mk.injEq] at hs
                  rw [← hs.1]
                  exact ⟨h.ok, fun hd => absurd hd hrun⟩)
  | drvOpClosed =>
    simp only [Conn.step] at hs
    split at hs
    · simp only [Option.some.injEq, Prod.mk.injEq] at hs; rw [← hs.1]; exact chanWF_endDriver h.ok _
    · cases hs
  | drvMiscClosed =>
    simp only [Conn.step] at hs
    split at hs
    · simp only [Option.some.injEq, Prod.mk.injEq] at hs; rw [← hs.1]; exact chanWF_endDriver h.ok _
    · cases hs
  | drvResp =>
    simp only [Conn.step] at hs
    split at hs
    · cases hs
    · next hrun =>
      have hrun' : s.drv = .running := by simpa using hrun
      cases hf : s.srvLog[s.pos]? with
      | none =>
        rw [hf] at hs
        simp only at hs
        split at hs
        · cases hs
        · simp only [Option.some.injEq, Prod.mk.injEq] at hs; rw [← hs.1]; exact chanWF_endDriver h.ok _
        · simp only [Option.some.injEq, Prod.mk.injEq] at hs; rw [← hs.1]; exact chanWF_endDriver h.ok _
      | some f =>
        rw [hf] at hs
        simp only at hs
        cases hl : lookup s.searchmap f.id with
        | some c =>
          rw [hl] at hs
          simp only [Option.some.injEq, Prod.mk.injEq] at hs
          rw [← hs.1]
          exact chanWF_routeSearch (s := { s with pos := s.pos + 1 }) ⟨h.ok, h.dead⟩ hrun' c f
        | none =>
          rw [hl] at hs
          simp only at hs
          cases hr : lookup s.resultmap f.id with
          | none =>
            rw [hr] at hs
            simp only [Option.some.injEq, Prod.mk.injEq] at hs
            rw [← hs.1]
            exact ⟨h.ok, h.dead⟩
          | some i =>
            rw [hr] at hs
            simp only [Option.some.injEq, Prod.mk.injEq] at hs
            rw [← hs.1]
            exact ⟨h.ok, h.dead⟩
  | srvSend f =>
    simp only [Conn.step] at hs
    split at hs
    · simp only [Option.some.injEq, Prod.mk.injEq] at hs; rw [← hs.1]; exact ⟨h.ok, h.dead⟩
    · cases hs
  | srvClose =>
    simp only [Conn.step] at hs
    split at hs
    · simp only [Option.some.injEq, Prod.mk.injEq] at hs; rw [← hs.1]; exact ⟨h.ok, h.dead⟩
    · cases hs
  | srvGarbage =>
    simp only [Conn.step] at hs
    split at hs
    · simp only [Option.some.injEq, Prod.mk.injEq] at hs; rw [← hs.1]; exact ⟨h.ok, h.dead⟩
    · cases hs
  | tick dt =>
    simp only [Conn.step, Option.some.injEq, Prod.mk.injEq] at hs; rw [← hs.1]; exact ⟨h.ok, h.dead⟩

/-- the invariant holds in every state reachable by any event list -/
theorem ChanWF.run (N : Nat) (evs : List Ev) : ChanWF (Conn.run (Conn.init N) evs) := by
  suffices h : ∀ s, ChanWF s → ChanWF (Conn.run s evs) from h _ (ChanWF.init N)
  induction evs with
  | nil => intro s hs; exact hs
  | cons e es ih =>
    intro s hs
    simp only [Conn.run, List.foldl_cons]
    cases hstep : Conn.step s e with
    | none => exact ih s hs
    | some r => obtain ⟨s', ob⟩ := r; exact ih s' (hs.step e hstep)

/-- once the driver has ended no channel has a sender -/
theorem ChanWF.closed_of_dead {s : St} (h : ChanWF s) (hd : s.drv ≠ .running) (c : Nat) : chanOpen s c = false := by
  obtain ⟨h1, h2⟩ := h.dead hd
  simp [chanOpen, h1, h2]

end Ldap3V.ConnStream

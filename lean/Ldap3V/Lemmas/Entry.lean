/-
`constructWith` on an arbitrary tree = lenient reading (`Spec.readEntry`) followed by a left fold
of a per-attribute step over the two maps; the panic set is exactly "not readable or a name is
not text".
-/
import Ldap3V.Lemmas.EntryMap
import Ldap3V.Spec.Entry
namespace Ldap3V
open Spec AMap

/-- effect of one attribute on `(attr_vals, bin_attr_vals)` -/
def stepSpec (valid : Bytes → Bool) (s : AMap (List Bytes) × AMap (List Bytes)) (p : Bytes × List Bytes) :
    AMap (List Bytes) × AMap (List Bytes) :=
  if p.2.all valid then (s.1.insert p.1 p.2, s.2) else (s.1, s.2.appendAt p.1 (binChunk valid p.2))

/-- the maps after all attributes -/
def mapsOf (valid : Bytes → Bool) (attrs : List (Bytes × List Bytes)) : AMap (List Bytes) × AMap (List Bytes) :=
  attrs.foldl (stepSpec valid) ([], [])

def seOf (valid : Bytes → Bool) (e : Entry) : SearchEntry :=
  { dn := e.dn, text := (mapsOf valid e.attrs).1, bin := (mapsOf valid e.attrs).2 }

theorem valuesLoop_eq (valid : Bytes → Bool) (ty : Bytes) (ts : List Tlv) :
    ∀ (text : List Bytes) (bin : AMap (List Bytes)) (ab : Bool),
    valuesLoop valid ty ts text bin ab =
      match readVals ts with
      | none => .panic
      | some vs => .ok (text ++ vs.filter valid, pushAll bin ty (vs.filter fun v => !valid v),
                        ab || vs.any fun v => !valid v) := by
  induction ts with
  | nil => intro text bin ab; simp [valuesLoop, readVals, pushAll]
  | cons t ts ih =>
    intro text bin ab
    cases t with
    | cons c i ks => simp [valuesLoop, readVals, Tlv.expectPrim]
    | prim c i v =>
      by_cases hv : valid v = true
      · simp only [valuesLoop, Tlv.expectPrim, readVals, hv, if_true, ih]
        cases readVals ts <;> simp [hv]
      · simp only [valuesLoop, Tlv.expectPrim, readVals, hv, ih]
        cases readVals ts <;> simp [hv, pushAll]

theorem filter_not_eq_nil_of_all (valid : Bytes → Bool) (l : List Bytes) (h : l.all valid = true) :
    l.filter (fun v => !valid v) = [] := by
  simp only [List.filter_eq_nil_iff]
  intro v hv
  simp [List.all_eq_true.mp h v hv]

theorem filter_eq_self_of_all (valid : Bytes → Bool) (l : List Bytes) (h : l.all valid = true) :
    l.filter valid = l := by
  simp only [List.filter_eq_self]
  exact fun v hv => List.all_eq_true.mp h v hv

theorem filter_not_ne_nil (valid : Bytes → Bool) (l : List Bytes) (h : ¬ l.all valid = true) :
    l.filter (fun v => !valid v) ≠ [] := by
  intro e
  apply h
  rw [List.all_eq_true]
  intro v hv
  have := (List.filter_eq_nil_iff.mp e) v hv
  simpa using this

theorem any_not_of_all (valid : Bytes → Bool) (l : List Bytes) :
    (l.any fun v => !valid v) = !l.all valid := by
  induction l with
  | nil => rfl
  | cons v l ih => simp [ih]

theorem attrStep_readable (valid : Bytes → Bool) (T B : AMap (List Bytes)) (c i c1 i1 c2 i2 : Nat)
    (ty : Bytes) (vals rest : List Tlv) :
    attrStep valid T B (.cons c i (.prim c1 i1 ty :: .cons c2 i2 vals :: rest)) =
      match readVals vals with
      | none => .panic
      | some l => if valid ty then .ok (stepSpec valid (T, B) (ty, l)) else .panic := by
  by_cases hty : valid ty = true
  · simp only [attrStep, Tlv.expectCons, Tlv.expectPrim, hty, valuesLoop_eq]
    cases readVals vals with
    | none => simp
    | some l =>
      by_cases hall : l.all valid = true
      · simp [stepSpec, hall, any_not_of_all, filter_not_eq_nil_of_all valid l hall,
          filter_eq_self_of_all valid l hall, pushAll]
      · have hne := filter_not_ne_nil valid l hall
        simp only [Bool.not_eq_true] at hall
        simp [stepSpec, hall, any_not_of_all, pushAll_eq _ _ _ hne, extendAt_appendAt, binChunk]
  · simp only [Bool.not_eq_true] at hty
    simp only [attrStep, Tlv.expectCons, Tlv.expectPrim, hty]
    cases readVals vals <;> simp

theorem attrStep_eq (valid : Bytes → Bool) (T B : AMap (List Bytes)) (t : Tlv) :
    attrStep valid T B t =
      match readAttr t with
      | none => .panic
      | some p => if valid p.1 then .ok (stepSpec valid (T, B) p) else .panic := by
  match t with
  | .prim _ _ _ => simp [attrStep, Tlv.expectCons, readAttr]
  | .cons _ _ [] => simp [attrStep, Tlv.expectCons, readAttr]
  | .cons _ _ (.cons _ _ _ :: _) => simp [attrStep, Tlv.expectCons, Tlv.expectPrim, readAttr]
  | .cons _ _ [.prim _ _ ty] =>
    simp only [attrStep, Tlv.expectCons, Tlv.expectPrim, readAttr]
    cases valid ty <;> simp
  | .cons _ _ (.prim _ _ ty :: .prim _ _ _ :: _) =>
    simp only [attrStep, Tlv.expectCons, Tlv.expectPrim, readAttr]
    cases valid ty <;> simp
  | .cons c i (.prim c1 i1 ty :: .cons c2 i2 vals :: rest) =>
    rw [attrStep_readable]
    simp only [readAttr]
    cases readVals vals <;> simp

theorem attrsLoop_eq (valid : Bytes → Bool) (ts : List Tlv) :
    ∀ (T B : AMap (List Bytes)),
    attrsLoop valid ts T B =
      match readAttrs ts with
      | none => .panic
      | some as => if as.all (fun p => valid p.1) then .ok (as.foldl (stepSpec valid) (T, B)) else .panic := by
  induction ts with
  | nil => intro T B; simp [attrsLoop, readAttrs]
  | cons t ts ih =>
    intro T B
    simp only [attrsLoop, attrStep_eq, readAttrs]
    cases readAttr t with
    | none => simp
    | some p =>
      by_cases hp : valid p.1 = true
      · simp only [hp, if_true, ih]
        cases readAttrs ts with
        | none => simp
        | some as =>
          simp only [List.all_cons, hp, Bool.true_and, List.foldl_cons]
      · simp only [Bool.not_eq_true] at hp
        cases readAttrs ts <;> simp [hp]

/-- the model on every tree: lenient reading, name check, fold -/
theorem constructWith_eq (valid : Bytes → Bool) (t : Tlv) :
    constructWith valid t =
      match readEntry t with
      | none => .panic
      | some e => if valid e.dn && e.attrs.all (fun p => valid p.1) then .ok (seOf valid e) else .panic := by
  match t with
  | .prim _ _ _ => simp [constructWith, Tlv.expectCons, readEntry]
  | .cons _ _ [] => simp [constructWith, Tlv.expectCons, readEntry]
  | .cons _ _ (.cons _ _ _ :: _) => simp [constructWith, Tlv.expectCons, Tlv.expectPrim, readEntry]
  | .cons _ _ [.prim _ _ dn] =>
    simp only [constructWith, Tlv.expectCons, Tlv.expectPrim, readEntry]
    cases valid dn <;> simp
  | .cons _ _ (.prim _ _ dn :: .prim _ _ _ :: _) =>
    simp only [constructWith, Tlv.expectCons, Tlv.expectPrim, readEntry]
    cases valid dn <;> simp
  | .cons c i (.prim c1 i1 dn :: .cons c2 i2 as :: rest) =>
    by_cases hi : i = 4
    · subst hi
      simp only [constructWith, Tlv.id, Tlv.expectCons, Tlv.expectPrim, readEntry, attrsLoop_eq]
      cases readAttrs as with
      | none => cases valid dn <;> simp
      | some l =>
        cases hd : valid dn
        · simp [hd]
        · cases hl : l.all (fun p => valid p.1) <;> simp [hd, hl, seOf, mapsOf]
    · simp [constructWith, Tlv.id, readEntry, hi]

/-! ### reading back what `entryTlv` builds -/

theorem readVals_map (vs : List Bytes) : readVals (vs.map valueTlv) = some vs := by
  induction vs with
  | nil => rfl
  | cons v vs ih => simp [readVals, valueTlv, Tlv.expectPrim, ih]

theorem readAttr_attrTlv (p : Bytes × List Bytes) : readAttr (attrTlv p) = some p := by
  simp [attrTlv, readAttr, readVals_map]

theorem readAttrs_map (as : List (Bytes × List Bytes)) : readAttrs (as.map attrTlv) = some as := by
  induction as with
  | nil => rfl
  | cons p as ih => simp [readAttrs, readAttr_attrTlv, ih]

theorem readEntry_entryTlv (e : Entry) : readEntry (entryTlv e) = some e := by
  simp [entryTlv, readEntry, readAttrs_map]

/-- nesting depth of an entry tree is at most 4 -/
theorem depthList_values (vs : List Bytes) : Tlv.depthList (vs.map valueTlv) = 0 := by
  induction vs with
  | nil => rfl
  | cons v vs ih => simp [Tlv.depthList, valueTlv, Tlv.depth, ih]

theorem depthList_attrs (as : List (Bytes × List Bytes)) : Tlv.depthList (as.map attrTlv) ≤ 2 := by
  induction as with
  | nil => simp [Tlv.depthList]
  | cons p as ih =>
    simp only [List.map_cons, Tlv.depthList, attrTlv, Tlv.depth, depthList_values]
    omega

theorem depth_entryTlv (e : Entry) : (entryTlv e).depth ≤ 4 := by
  have := depthList_attrs e.attrs
  simp only [entryTlv, Tlv.depth, Tlv.depthList]
  omega

end Ldap3V

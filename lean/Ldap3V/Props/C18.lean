/-
C18 — connection set-up honours the URL.

"ldap URLs connect over TCP to the given host and port (default 389, a missing host meaning
localhost), ldaps over TLS (default 636), ldapi to the percent-decoded Unix socket path, and a
pre-opened stream is used only if its type matches the scheme.  Unknown schemes, empty or
port-bearing ldapi paths, mismatched streams, unparsable URLs and unreachable endpoints return an
error, and a connection timeout bounds the whole establishment including StartTLS.  No URL or
settings combination makes connection setup panic."

Statements only; proofs are references to Lemmas/ConnSetup.lean.
Model: Ldap3V/Model/ConnSetup.lean — `plan` (the dispatch of `from_url_with_settings` / `new_unix`
/ `new_tcp`, from `url.scheme()` / `url.host_str()` / `url.port()` on) and `run` (a plan executed
against an abstract resolver + kernel + peer; the StartTLS exchange and the TLS handshake are
opaque steps that complete, fail or never complete — slice C17).
Spec: Ldap3V/Spec/ConnSetup.lean (`Spec.plan`, the decision table of the property).

Every theorem quantifies over ALL `UrlParts × Settings`: scheme, host and socket path are arbitrary
byte strings, the port an arbitrary natural number.  "Unparsable URLs return an error" is outside
the model (`Url::parse(..)?` is the first statement of `with_settings`; observed by the lane).

KNOWN LIMITATION of the code with respect to the property text, stated as theorems below:
* `C18_ldapi_timeout_not_applied`: for `ldapi` the connection time-out is ignored.  The property
  says "a connection timeout bounds the whole establishment"; the only step of an `ldapi`
  establishment is a non-blocking `connect(2)` on an AF_UNIX stream socket, which the kernel
  completes or refuses at once (a full backlog is EAGAIN, surfaced as an `Io` error), and `ldapi`
  never runs StartTLS or a handshake.  Under that environment assumption (`UnixConnectImmediate`)
  the establishment is bounded anyway (`C18_ldapi_bounded_if_connect_immediate`); without it, it is
  not.  The lane measures it (R `setup.timeout-bounds`, including a listener with a full backlog).

History: up to /repo 6325cc1 the socket path went through `decode_utf8_lossy`, so a percent-decoded
path that was not UTF-8 led to a DIFFERENT socket (finding F20, fixed in 4abae7f: the path is now
the decoded byte string); `C18_ldapi_path_bytes` is the positive statement and keeps the witness.
-/
import Ldap3V.Lemmas.ConnSetup
import Ldap3V.Lemmas.Url
namespace Ldap3V
open Ldap3V.ConnSetup Ldap3V.Url

/-- No URL / settings combination reaches one of the panic arms of `new_tcp`
(`expect("StdStream")`, `"non-tcp stream in enum"`, `"underlying stream not TCP"`,
`unimplemented!()`), and no environment makes the execution of the plan panic. -/
theorem C18_never_panics (s : Settings) (u : UrlParts) :
    plan s u ≠ .panic ∧ ∀ env, run env (plan s u) ≠ .panic :=
  ⟨plan_ne_panic s u, fun env => run_ne_panic env _ (plan_ne_panic s u)⟩

/-- `ldap`: TCP to the given host (absent or empty ⇒ `localhost`) and port (explicit wins, default
389), StartTLS iff requested, a pre-opened TCP stream is used instead of connecting, any other
pre-opened stream is `MismatchedStreamType`. -/
theorem C18_ldap (s : Settings) (u : UrlParts) (h : u.scheme = litLdap) :
    plan s u = match s.stdStream with
      | none => .tcpConnect (match u.host with | none => litLocalhost | some [] => litLocalhost | some h => h)
                  (match u.port with | some p => p | none => 389)
                  (if s.starttls then .starttls else .none) s.connTimeout
      | some .tcp => .useTcpStream (match u.host with | none => litLocalhost | some [] => litLocalhost | some h => h)
                  (if s.starttls then .starttls else .none) s.connTimeout
      | some _ => .err .mismatchedStreamType := by
  rw [plan_ldap s u h]
  cases s.stdStream with
  | none => cases u.port <;> rfl
  | some k => cases k <;> rfl

/-- `ldaps`: TLS at once, default port 636, and the `starttls` setting is ignored. -/
theorem C18_ldaps (s : Settings) (u : UrlParts) (h : u.scheme = litLdaps) :
    (plan s u = match s.stdStream with
      | none => .tcpConnect (match u.host with | none => litLocalhost | some [] => litLocalhost | some h => h)
                  (match u.port with | some p => p | none => 636) .tls s.connTimeout
      | some .tcp => .useTcpStream (match u.host with | none => litLocalhost | some [] => litLocalhost | some h => h)
                  .tls s.connTimeout
      | some _ => .err .mismatchedStreamType) ∧
    plan { s with starttls := true } u = plan { s with starttls := false } u := by
  refine ⟨?_, by rw [plan_ldaps _ u h, plan_ldaps _ u h]⟩
  rw [plan_ldaps s u h]
  cases s.stdStream with
  | none => cases u.port <;> rfl
  | some k => cases k <;> rfl

/-- `ldapi` without a pre-opened stream: the host part is the percent-encoded socket path.
Absent or empty ⇒ `EmptyUnixPath`; a port or a `:` ⇒ `PortInUnixPath`; otherwise connect to the
percent-decoded path, byte for byte.  The time-out is not applied (`bound = none`, whatever
`connTimeout` is). -/
theorem C18_ldapi (s : Settings) (u : UrlParts) (h : u.scheme = litLdapi) (hs : s.stdStream = none) :
    (u.host = none ∨ u.host = some [] → plan s u = .err .emptyUnixPath) ∧
    (∀ p, u.host = some p → p ≠ [] → (0x3A ∈ p ∨ u.port ≠ none) → plan s u = .err .portInUnixPath) ∧
    (∀ p, u.host = some p → p ≠ [] → 0x3A ∉ p → u.port = none →
      plan s u = .unixConnect (percentDecode p) none) := by
  rw [plan_ldapi s u h]
  refine ⟨?_, ?_, ?_⟩
  · rintro (h0 | h0) <;> simp [newUnix, hs, h0]
  · intro p h0 hne hc
    cases hp : u.port <;> simp_all [newUnix]
  · intro p h0 hne hc hp
    simp [newUnix, hs, h0, hne, hc, hp]

/-- LIMITATION (time-out): whatever `connTimeout` is, an `ldapi` plan carries no bound, and if the
Unix-socket connect does not complete the establishment never returns. -/
theorem C18_ldapi_timeout_not_applied (s : Settings) (u : UrlParts) (h : u.scheme = litLdapi) :
    plan s u = plan { s with connTimeout := none } u ∧
    ∀ env path b, plan s u = .unixConnect path b → env.unix path = .never → run env (plan s u) = .hang .none := by
  refine ⟨by rw [plan_ldapi s u h, plan_ldapi _ u h]; rfl, ?_⟩
  intro env path b hpl hnev
  have hb : b = none := by
    rw [plan_ldapi s u h] at hpl
    rcases newUnix_cases s u with h1 | ⟨k, h1⟩ | ⟨q, h1⟩ <;> rw [h1] at hpl <;> simp at hpl
    exact hpl.2.symm
  subst hb
  rw [hpl]
  simp [run, hnev, stuck]

/-- environment assumption under which `ldapi` needs no time-out: `UnixStream::connect` (a
non-blocking AF_UNIX `connect(2)`) completes or fails at once -/
def UnixConnectImmediate (env : Env) : Prop := ∀ path, env.unix path ≠ .never

theorem C18_ldapi_bounded_if_connect_immediate (s : Settings) (u : UrlParts) (env : Env)
    (h : u.scheme = litLdapi) (himm : UnixConnectImmediate env) (c : Contact) :
    run env (plan s u) ≠ .hang c ∧ run env (plan s u) ≠ .timeout c := by
  rw [plan_ldapi s u h]
  rcases newUnix_cases s u with h1 | ⟨k, h1⟩ | ⟨q, h1⟩ <;> rw [h1]
  · simp [run]
  · simp [run]
  · have := himm q
    simp only [run]
    cases hx : env.unix q <;> simp_all

/-- The socket path is the percent-decoded BYTE string, UTF-8 or not (F20, fixed): for every
non-empty host text without `:` the plan connects to exactly `percentDecode` of it, and
percent-encoding any path byte by byte (`%XX` for every byte, either hex case) leads back to that
path; e.g. `ldapi://%2Ftmp%2Fs%FF` connects to the socket `/tmp/s\xFF`. -/
theorem C18_ldapi_path_bytes :
    (∀ (s : Settings) (p : Bytes), s.stdStream = none → p ≠ [] → 0x3A ∉ p →
      plan s ⟨litLdapi, some p, none⟩ = .unixConnect (percentDecode p) none) ∧
    (∀ (s : Settings) (up : Bool) (path : Bytes), s.stdStream = none → path ≠ [] →
      plan s ⟨litLdapi, some (Spec.pctEncode (fun _ => false) up path), none⟩ = .unixConnect path none) ∧
    plan ⟨false, none, none⟩ ⟨litLdapi, some [0x25, 0x32, 0x46, 0x74, 0x6D, 0x70, 0x25, 0x32, 0x46, 0x73, 0x25, 0x46, 0x46], none⟩
      = .unixConnect [0x2F, 0x74, 0x6D, 0x70, 0x2F, 0x73, 0xFF] none := by
  have key : ∀ (s : Settings) (p : Bytes), s.stdStream = none → p ≠ [] → 0x3A ∉ p →
      plan s ⟨litLdapi, some p, none⟩ = .unixConnect (percentDecode p) none := by
    intro s p hs hne hc
    exact (C18_ldapi s ⟨litLdapi, some p, none⟩ rfl hs).2.2 p rfl hne hc rfl
  refine ⟨key, ?_, by decide⟩
  intro s up path hs hne
  have hdec := percentDecode_pctEncode (fun _ => false) up (fun b hb => by simp at hb) path
  have hne' : Spec.pctEncode (fun _ => false) up path ≠ [] := by
    intro e
    rw [e] at hdec
    exact hne (by simpa [percentDecode] using hdec.symm)
  have hcolon : (0x3A : UInt8) ∉ Spec.pctEncode (fun _ => false) up path :=
    not_mem_pctEncode _ up path 0x3A (by simp) (by decide) (by decide)
  rw [key s _ hs hne' hcolon, hdec]

/-- A pre-opened stream is used iff its kind matches the scheme (TCP for `ldap`/`ldaps`, Unix for
`ldapi` — then whatever the path and port are); with a known scheme every other pre-opened stream
is `MismatchedStreamType`; without a pre-opened stream no plan uses one. -/
theorem C18_streams (s : Settings) (u : UrlParts) :
    ((∃ host sec b, plan s u = .useTcpStream host sec b) ↔
      s.stdStream = some .tcp ∧ (u.scheme = litLdap ∨ u.scheme = litLdaps)) ∧
    (plan s u = .useUnixStream ↔ s.stdStream = some .unix ∧ u.scheme = litLdapi) ∧
    (∀ k, s.stdStream = some k →
      ((u.scheme = litLdap ∨ u.scheme = litLdaps) ∧ k ≠ .tcp) ∨ (u.scheme = litLdapi ∧ k ≠ .unix) →
      plan s u = .err .mismatchedStreamType) := by
  obtain ⟨n1, n2, n3, _, _⟩ := lit_ne
  by_cases h1 : u.scheme = litLdap
  · have e2 : u.scheme ≠ litLdaps := by rw [h1]; exact n1
    have e3 : u.scheme ≠ litLdapi := by rw [h1]; exact n2
    rw [plan_ldap s u h1]
    cases hstd : s.stdStream with
    | none => simp
    | some k => cases k <;> simp [h1, n2]
  · by_cases h2 : u.scheme = litLdaps
    · have e3 : u.scheme ≠ litLdapi := by rw [h2]; exact n3
      rw [plan_ldaps s u h2]
      cases hstd : s.stdStream with
      | none => simp
      | some k => cases k <;> simp [h2, n1.symm, n3]
    · by_cases h3 : u.scheme = litLdapi
      · rw [plan_ldapi s u h3]
        cases hstd : s.stdStream with
        | some k => cases k <;> simp [newUnix, hstd, h3, n2.symm, n3.symm]
        | none =>
          rcases newUnix_none s u hstd with ⟨k, e⟩ | ⟨q, e⟩ <;> simp [e]
      · rw [plan_unknown s u h1 h2 h3]
        simp [h1, h2, h3]

/-- Any scheme other than `ldap`, `ldaps`, `ldapi` (as `Url::scheme()` reports it, i.e. lower-cased)
is `UnknownScheme` carrying that scheme — whatever the settings are, a pre-opened stream of any
kind included (the scheme is checked before the stream). -/
theorem C18_unknown_scheme (s : Settings) (u : UrlParts)
    (h : u.scheme ≠ litLdap ∧ u.scheme ≠ litLdaps ∧ u.scheme ≠ litLdapi) :
    plan s u = .err (.unknownScheme u.scheme) :=
  plan_unknown s u h.1 h.2.1 h.2.2

/-- The time-out wraps ALL of `new_tcp`: for `ldap`/`ldaps` every plan that does something carries
`connTimeout` as its bound, and with a time-out set no environment makes the establishment hang —
a connect, a StartTLS exchange or a handshake that never completes ends in `Timeout`. -/
theorem C18_timeout_scope (s : Settings) (u : UrlParts) (t : Nat)
    (h : u.scheme = litLdap ∨ u.scheme = litLdaps) (ht : s.connTimeout = some t) :
    ((∃ host port sec, plan s u = .tcpConnect host port sec (some t)) ∨
     (∃ host sec, plan s u = .useTcpStream host sec (some t)) ∨
     plan s u = .err .mismatchedStreamType) ∧
    (∀ env c, run env (plan s u) ≠ .hang c) ∧
    (∀ env host port sec b, plan s u = .tcpConnect host port sec b →
      (env.tcp host port = .never → run env (plan s u) = .timeout .none) ∧
      (∀ e, env.tcp host port = .reached e → sec = .starttls → (env.peer e).startTls = .never →
        run env (plan s u) = .timeout (.tcp e)) ∧
      (∀ e, env.tcp host port = .reached e → (sec = .tls ∨ (sec = .starttls ∧ (env.peer e).startTls = .done)) →
        (env.peer e).handshake = .never → run env (plan s u) = .timeout (.tcp e))) := by
  have hshape : (∃ host port sec, plan s u = .tcpConnect host port sec (some t)) ∨
      (∃ host sec, plan s u = .useTcpStream host sec (some t)) ∨ plan s u = .err .mismatchedStreamType := by
    rcases h with h | h
    · rw [plan_ldap s u h, ht]
      cases s.stdStream with
      | none => exact .inl ⟨_, _, _, rfl⟩
      | some k => cases k <;> simp
    · rw [plan_ldaps s u h, ht]
      cases s.stdStream with
      | none => exact .inl ⟨_, _, _, rfl⟩
      | some k => cases k <;> simp
  refine ⟨hshape, ?_, ?_⟩
  · intro env c
    rcases hshape with h1 | h1 | h1
    · exact run_tcp_bounded env _ t (.inl h1) c
    · exact run_tcp_bounded env _ t (.inr h1) c
    · rw [h1]; simp [run]
  · intro env host port sec b hpl
    have hb : b = some t := by
      rcases hshape with ⟨_, _, _, h1⟩ | ⟨_, _, h1⟩ | h1 <;> rw [h1] at hpl <;> simp at hpl
      exact hpl.2.2.2.symm
    subst hb
    rw [hpl]
    refine ⟨fun hn => by simp [run, hn, stuck], ?_, ?_⟩
    · intro e he hsec hst
      subst hsec
      simp [run, he, runSecure, hst, stuck]
    · intro e he hsec hhs
      rcases hsec with rfl | ⟨rfl, hst⟩
      · simp [run, he, runSecure, runHandshake, hhs, stuck]
      · simp [run, he, runSecure, runHandshake, hst, hhs, stuck]

/-- An unreachable endpoint (the connect is refused / the name does not resolve / no such socket)
is an `Io` error, for TCP and for Unix sockets. -/
theorem C18_unreachable (env : Env) :
    (∀ host port sec b, env.tcp host port = .refused → run env (.tcpConnect host port sec b) = .err .io .none) ∧
    (∀ path b, env.unix path = .refused → run env (.unixConnect path b) = .err .io .none) :=
  ⟨fun _ _ _ _ h => by simp [run, h], fun _ _ h => by simp [run, h]⟩

/-- The code against the decision table of the property: they agree up to `Spec.codeView`, which
(only on Unix-socket connects) drops the time-out — the exact list of deviations has this one
entry; in particular they agree on every `ldap`/`ldaps`/unknown-scheme input, on every error, on the
socket path, and on `ldapi` whenever no time-out is set. -/
theorem C18_matches_spec (s : Settings) (u : UrlParts) :
    plan s u = Spec.codeView (Spec.plan s u) ∧
    (plan s u = Spec.plan s u ∨
      ∃ p t, s.connTimeout = some t ∧ Spec.plan s u = .unixConnect p (some t) ∧ plan s u = .unixConnect p none) := by
  refine ⟨plan_eq_codeView s u, ?_⟩
  rw [plan_eq_codeView s u]
  cases hsp : Spec.plan s u with
  | unixConnect p b =>
    have hb : b = s.connTimeout := by
      unfold Spec.plan at hsp
      split at hsp
      · simp at hsp
      · unfold Spec.planUnix at hsp
        split at hsp <;> try (simp at hsp)
        split at hsp <;> try (simp at hsp)
        split at hsp <;> simp at hsp
        exact hsp.2.symm
      · unfold Spec.planTcp at hsp
        split at hsp <;> simp at hsp
    subst hb
    cases hc : s.connTimeout with
    | none => left; simp [Spec.codeView]
    | some t => right; exact ⟨p, t, rfl, rfl, by simp [Spec.codeView]⟩
  | tcpConnect _ _ _ _ => left; rfl
  | useTcpStream _ _ _ => left; rfl
  | useUnixStream => left; rfl
  | err _ => left; rfl
  | panic => left; rfl

/-! ## Non-vacuity: concrete URLs and settings through the model -/

/-- `ldap://example.org` with StartTLS and a 50 ms time-out -/
example : plan ⟨true, some 50, none⟩ ⟨litLdap, some [0x65, 0x78, 0x2E, 0x6F, 0x72, 0x67], none⟩ =
    .tcpConnect [0x65, 0x78, 0x2E, 0x6F, 0x72, 0x67] 389 .starttls (some 50) := by decide
/-- `ldap:///` (empty host) with an explicit port 0 would be `ldap://:0`; here absent host, port 1389 -/
example : plan ⟨false, none, none⟩ ⟨litLdap, none, some 1389⟩ = .tcpConnect litLocalhost 1389 .none none := by decide
example : plan ⟨false, none, none⟩ ⟨litLdap, some [], none⟩ = .tcpConnect litLocalhost 389 .none none := by decide
/-- `ldaps://h` with `starttls = true`: TLS, 636, StartTLS dropped -/
example : plan ⟨true, none, none⟩ ⟨litLdaps, some [0x68], none⟩ = .tcpConnect [0x68] 636 .tls none := by decide
/-- `ldaps` with a pre-opened TCP stream / a cloned (`Invalid`) one -/
example : plan ⟨false, some 7, some .tcp⟩ ⟨litLdaps, some [0x68], some 1⟩ = .useTcpStream [0x68] .tls (some 7) := by decide
example : plan ⟨false, none, some .invalid⟩ ⟨litLdap, some [0x68], none⟩ = .err .mismatchedStreamType := by decide
/-- `ldapi://%2Ftmp%2Fs` -/
example : plan ⟨false, some 50, none⟩ ⟨litLdapi, some [0x25, 0x32, 0x46, 0x74, 0x6D, 0x70, 0x25, 0x32, 0x46, 0x73], none⟩ =
    .unixConnect [0x2F, 0x74, 0x6D, 0x70, 0x2F, 0x73] none := by decide
/-- the same with the table: the bound differs — a member of the deviation list of `C18_matches_spec` -/
example : Spec.plan ⟨false, some 50, none⟩ ⟨litLdapi, some [0x25, 0x32, 0x46, 0x74, 0x6D, 0x70, 0x25, 0x32, 0x46, 0x73], none⟩ =
    .unixConnect [0x2F, 0x74, 0x6D, 0x70, 0x2F, 0x73] (some 50) := by decide
example : plan ⟨false, none, none⟩ ⟨litLdapi, none, none⟩ = .err .emptyUnixPath := by decide
example : plan ⟨false, none, none⟩ ⟨litLdapi, some [0x61], some 389⟩ = .err .portInUnixPath := by decide
example : plan ⟨false, none, none⟩ ⟨litLdapi, some [0x5B, 0x3A, 0x3A, 0x31, 0x5D], none⟩ = .err .portInUnixPath := by decide
/-- `ldapi:///` with a pre-opened Unix stream: used, the empty path does not matter -/
example : plan ⟨false, none, some .unix⟩ ⟨litLdapi, some [], none⟩ = .useUnixStream := by decide
/-- `http://h` with a pre-opened TCP stream: the scheme decides first -/
example : plan ⟨false, none, some .tcp⟩ ⟨[0x68, 0x74, 0x74, 0x70], some [0x68], none⟩ =
    .err (.unknownScheme [0x68, 0x74, 0x74, 0x70]) := by decide
/-- the internal scheme word "starttls" is not a URL scheme -/
example : plan ⟨false, none, none⟩ ⟨litStarttls, some [0x68], none⟩ = .err (.unknownScheme litStarttls) := by decide

/-- a black-hole peer (accepts, never answers StartTLS) with and without a time-out -/
def blackHole : Env :=
  { tcp := fun _ _ => .reached 1, unix := fun _ => .never, peer := fun _ => ⟨.never, .never⟩, preTcp := 1, preUnix := 2 }
example : run blackHole (plan ⟨true, some 50, none⟩ ⟨litLdap, some [0x68], none⟩) = .timeout (.tcp 1) := by decide
example : run blackHole (plan ⟨true, none, none⟩ ⟨litLdap, some [0x68], none⟩) = .hang (.tcp 1) := by decide
example : run blackHole (plan ⟨false, some 50, none⟩ ⟨litLdaps, some [0x68], none⟩) = .timeout (.tcp 1) := by decide
example : run blackHole (plan ⟨false, none, none⟩ ⟨litLdap, some [0x68], none⟩) = .ok (.tcp 1) := by decide
/-- `ldapi` against a (hypothetical) never-completing Unix connect: the time-out does not help -/
example : run blackHole (plan ⟨false, some 50, none⟩ ⟨litLdapi, some [0x61], none⟩) = .hang .none := by decide
/-- a socket path that is not UTF-8 / that holds a literal `%` and a broken escape -/
example : plan ⟨false, none, none⟩ ⟨litLdapi, some [0x25, 0x66, 0x66, 0x25, 0x32, 0x35, 0x25, 0x34], none⟩ =
    .unixConnect [0xFF, 0x25, 0x25, 0x34] none := by decide

end Ldap3V

/-
C09 — escaped text is inert.
  "For every string v, embedding ldap_escape(v) as an assertion value in a filter yields a filter of
   unchanged structure whose value is byte-for-byte v, and ldap_unescape(ldap_escape(v)) equals v.
   For every string v, embedding dn_escape(v) as an attribute value in a distinguished name yields a
   DN that an RFC 4514 parser reads with the same RDN structure and the value v.  Strings that need
   no escaping are returned unchanged."
Statements only; proofs are references to Lemmas/Escape*.lean.
Model: Ldap3V/Model/Escape.lean (src/util.rs), Model/Unescaper.lean (src/filter.rs), Model/Utf8.lean.
Spec:  Ldap3V/Spec/FilterValue.lean (RFC 4515 valueencoding), Ldap3V/Spec/Dn.lean (RFC 4514 §3 reader).

Strings are their UTF-8 bytes.  The Rust argument type is `str`, so `utf8Valid v` always holds for
real inputs; theorems that need it carry it as a hypothesis, the others hold for every byte string.
No length bound anywhere.

Filter level (section "ldap_escape inside a filter string"): the parser is the MODEL PARSER of the
C08 slice, `Filter.parse` (Model/Filter.lean = `ldap3::parse_filter` of src/filter.rs, tied to the real
code by lane `filter`); the trees are `Spec.Filter` (RFC 4515 §3) and "yields the node f" is stated as
in C08: the tag built has the RFC 4511 BER structure `Spec.Filter.toTlv f` (injective, and read back by
the strict decoder `ofTlv`: `C08_toTlv_injective`, `C08_ofTlv_toTlv`).  These theorems hold for EVERY
byte string `v`, valid UTF-8 or not (the library's value language admits any octet ≥ 0x80).  The real
parser is additionally exercised on `(a=<ldap_escape v>)` by lane `escape` (R lines `filter.value`).
-/
import Ldap3V.Lemmas.Escape
import Ldap3V.Lemmas.EscapeFilter
import Ldap3V.Lemmas.EscapeFilterGuard
import Ldap3V.Lemmas.EscapeUtf8
import Ldap3V.Lemmas.EscapeDn
import Ldap3V.Lemmas.EscapeDnStruct
import Ldap3V.Lemmas.GenPure
namespace Ldap3V
open Spec Spec.Dn

/-! ### ldap_escape / ldap_unescape -/

/-- `ldap_unescape(ldap_escape(v)) == Ok(v)` for every string. -/
theorem C09_unescape_escape (v : Bytes) (h : utf8Valid v = true) : ldapUnescape (ldapEscape v) = .ok v := by
  rw [ldapEscape_eq]
  exact ldapUnescape_escMap ldapNeed (fun _ => needsEscape_bs) v h

/-- `ldap_escape(v)` is an RFC 4515 rendering of the octets of `v`. -/
theorem C09_escape_renders (v : Bytes) : RVal v (ldapEscape v) := by
  rw [ldapEscape_eq]; exact rval_escMap v 0

/-- the independent RFC 4515 value reader undoes every rendering of `v` (either hex case, any octet escaped) … -/
theorem C09_reader_complete (v r : Bytes) (h : RVal v r) : readFilterValue r = some v :=
  readFilterValue_of_rval v r h

/-- … in particular it reads `ldap_escape(v)` as byte-for-byte `v`. -/
theorem C09_escape_read (v : Bytes) : readFilterValue (ldapEscape v) = some v :=
  readFilterValue_of_rval v _ (C09_escape_renders v)

/-- `ldap_escape(v)` contains none of NUL `(` `)` `*`: it cannot end the value, close or open a filter
component, or introduce a substring/presence wildcard.  (Every backslash in it starts a `\hh`: that
is `C09_escape_renders`.) -/
theorem C09_escape_inert (v : Bytes) : ∀ b ∈ ldapEscape v, b ≠ 0 ∧ b ≠ 0x28 ∧ b ≠ 0x29 ∧ b ≠ 0x2A := by
  intro b hb
  rw [ldapEscape_eq] at hb
  have := escMap_ldap_no_structural v 0 b hb
  simp only [isStructural, Bool.or_eq_false_iff, beq_eq_false_iff_ne] at this
  exact ⟨this.1.1.1, this.1.1.2, this.1.2, this.2⟩

/-- The `expect("ldap escaped")` / `expect("dn escaped")` are dead: on valid UTF-8 both functions
return (`…O` is the function as written, with the panic as an outcome), and the result is valid UTF-8. -/
theorem C09_escape_total (v : Bytes) (h : utf8Valid v = true) :
    (utf8Valid (ldapEscape v) = true ∧ utf8Valid (dnEscape v) = true) ∧
    ldapEscapeO v = .ok (ldapEscape v) ∧ dnEscapeO v = .ok (dnEscape v) := by
  have h1 : utf8Valid (ldapEscape v) = true := by
    rw [ldapEscape_eq]; exact utf8_escMap ldapNeed ldapNeed_ascii v.length v 0 (Nat.le_refl _) h
  have h2 : utf8Valid (dnEscape v) = true := by
    rw [dnEscape_eq]; exact utf8_escMap _ (dnNeed_ascii v.length) v.length v 0 (Nat.le_refl _) h
  exact ⟨⟨h1, h2⟩, escFinish_ok v _ h1, escFinish_ok v _ h2⟩

/-- No byte of `v` is one of `\ * ( ) NUL` ⇒ `ldap_escape` returns its argument, without allocating
(`output` stays `None`, the `Cow` is the one passed in). -/
theorem C09_noop (v : Bytes) (h : ∀ b ∈ v, needsEscape b = false) :
    ldapEscape v = v ∧ ldapEscapeO v = .ok v ∧ escapeLoop ldapNeed v v 0 none = none := by
  have hn := escapeLoop_noNeed ldapNeed v 0 v (noNeed_ldap 0 v h)
  exact ⟨by simp [ldapEscape, hn], by simp [ldapEscapeO, hn, escFinish], hn⟩

/-- No byte of `v` is one of `" + , ; < = > \ NUL`, the first is neither space nor `#`, the last is
not a space ⇒ `dn_escape` returns its argument, without allocating. -/
theorem C09_dn_noop (v : Bytes) (ha : ∀ b ∈ v, alwaysEscape b = false)
    (hl : ∀ c, v.head? = some c → escapeLeading c = false)
    (ht : ∀ c, v.getLast? = some c → escapeTrailing c = false) :
    dnEscape v = v ∧ dnEscapeO v = .ok v ∧ escapeLoop (dnNeed v.length) v v 0 none = none := by
  have hn := escapeLoop_noNeed (dnNeed v.length) v 0 v (by simpa using noNeed_dn 0 v ha (fun _ => hl) ht)
  exact ⟨by simp [dnEscape, hn], by simp [dnEscapeO, hn, escFinish], hn⟩

/-- `ldap_unescape` of a string without backslash returns its argument. -/
theorem C09_unescape_noop (v : Bytes) (h : ∀ b ∈ v, b ≠ 0x5C) : ldapUnescape v = .ok v := by
  have := unescLoop_no_bs v v 0 0 h
  unfold ldapUnescape
  generalize unescLoop v v 0 (.value 0) none = res at this
  obtain ⟨e, o⟩ := res
  simp only at this
  subst this
  rfl

/-! ### ldap_escape inside a filter string

Hypothesis on the attribute description `a`: `attrDescOk a`, i.e. the model's own
`attributedescription` sub-parser consumes all of `a`; by `C09_attr_hypothesis` this is the grammar's
`attributedescription` of RFC 4512 §2.5 in the library's dialect (a bare number is accepted as an oid).
Without it the filter is rejected whatever the value is: `(=x)`, `(a b=x)`, `(1.=x)` (examples below).
No hypothesis on `v`: in particular `v = ""` gives `(a=)`, which the parser reads as an equality
match with the empty value (filter.rs `eq`: `mid_final.is_empty()` ⇒ `EQ_MATCH`), not as presence. -/

/-- the decidable hypothesis is the grammar's attribute description (library dialect) -/
theorem C09_attr_hypothesis (a : Bytes) : attrDescOk a = true ↔ Spec.Filter.IsAttrDesc .lib a :=
  attrDescOk_iff a

/-- `(a=<ldap_escape v>)` is accepted and is exactly the equality match of attribute `a` with
assertion value `v` — `.cons 2 3 [.prim 0 4 a, .prim 0 4 v]` on the wire. -/
theorem C09_filter_inert (a v : Bytes) (ha : attrDescOk a = true) :
    (Filter.parse ([0x28] ++ a ++ [0x3D] ++ ldapEscape v ++ [0x29])).map Tag.toTlv =
      some (Spec.Filter.toTlv (.eq a v)) :=
  gparse_of_G (valItem_G (.eq a) ((attrDescOk_iff a).mp ha) (rvalF_ldapEscape v)) (fdepth_valItem_le (.eq a) v)

/-- … the tag the model parser returns, constructor for constructor (what `eq` of filter.rs builds) -/
theorem C09_filter_inert_tag (a v : Bytes) (ha : attrDescOk a = true) :
    Filter.parse ([0x28] ++ a ++ [0x3D] ++ ldapEscape v ++ [0x29]) =
      some (.sequence 2 3 [.octetString 0 4 a, .octetString 0 4 v]) :=
  gparse_exact (valItem_G (.eq a) ((attrDescOk_iff a).mp ha) (rvalF_ldapEscape v)) (fdepth_valItem_le (.eq a) v)
    (parse_eq_exact ((attrDescOk_iff a).mp ha) (rvalF_ldapEscape v))

/-- … and the strict RFC 4511 decoder reads that tag as `equalityMatch (a, v)`. -/
theorem C09_filter_inert_decoded (a v : Bytes) (ha : attrDescOk a = true) :
    (Filter.parse ([0x28] ++ a ++ [0x3D] ++ ldapEscape v ++ [0x29])).bind (fun t => Spec.Filter.ofTlv t.toTlv) =
      some (.eq a v) :=
  decoded_of_map (C09_filter_inert a v ha)

/-- the same for `>=`, `<=`, `~=` -/
theorem C09_filter_inert_ord (a v : Bytes) (ha : attrDescOk a = true) :
    (Filter.parse ([0x28] ++ a ++ [0x3E, 0x3D] ++ ldapEscape v ++ [0x29])).map Tag.toTlv =
      some (Spec.Filter.toTlv (.ge a v)) ∧
    (Filter.parse ([0x28] ++ a ++ [0x3C, 0x3D] ++ ldapEscape v ++ [0x29])).map Tag.toTlv =
      some (Spec.Filter.toTlv (.le a v)) ∧
    (Filter.parse ([0x28] ++ a ++ [0x7E, 0x3D] ++ ldapEscape v ++ [0x29])).map Tag.toTlv =
      some (Spec.Filter.toTlv (.approx a v)) := by
  have h := (attrDescOk_iff a).mp ha
  exact ⟨gparse_of_G (valItem_G (.ge a) h (rvalF_ldapEscape v)) (fdepth_valItem_le (.ge a) v),
    gparse_of_G (valItem_G (.le a) h (rvalF_ldapEscape v)) (fdepth_valItem_le (.le a) v),
    gparse_of_G (valItem_G (.approx a) h (rvalF_ldapEscape v)) (fdepth_valItem_le (.approx a) v)⟩

/-- … with the tags the model parser returns (`non_eq` of filter.rs: ids 5, 6, 8) -/
theorem C09_filter_inert_ord_tag (a v : Bytes) (ha : attrDescOk a = true) :
    Filter.parse ([0x28] ++ a ++ [0x3E, 0x3D] ++ ldapEscape v ++ [0x29]) =
      some (.sequence 2 5 [.octetString 0 4 a, .octetString 0 4 v]) ∧
    Filter.parse ([0x28] ++ a ++ [0x3C, 0x3D] ++ ldapEscape v ++ [0x29]) =
      some (.sequence 2 6 [.octetString 0 4 a, .octetString 0 4 v]) ∧
    Filter.parse ([0x28] ++ a ++ [0x7E, 0x3D] ++ ldapEscape v ++ [0x29]) =
      some (.sequence 2 8 [.octetString 0 4 a, .octetString 0 4 v]) := by
  have h := (attrDescOk_iff a).mp ha
  exact ⟨gparse_exact (valItem_G (.ge a) h (rvalF_ldapEscape v)) (fdepth_valItem_le (.ge a) v)
      (parse_ge_exact h (rvalF_ldapEscape v)),
    gparse_exact (valItem_G (.le a) h (rvalF_ldapEscape v)) (fdepth_valItem_le (.le a) v)
      (parse_le_exact h (rvalF_ldapEscape v)),
    gparse_exact (valItem_G (.approx a) h (rvalF_ldapEscape v)) (fdepth_valItem_le (.approx a) v)
      (parse_approx_exact h (rvalF_ldapEscape v))⟩

/-- Substring filters, any number of pieces: `(a=[esc ini]*{esc any_k *}[esc fin])`
(`substrText`) is the substring filter with exactly these pieces, in this order.  The pieces must be
non-empty (RFC 4511: `SIZE (1..MAX)`; an empty escaped piece makes `(a=i**f)`, which is rejected, or
changes `initial`/`final` into "absent"), and there must be at least one (otherwise the text is
`(a=*)`, the presence filter: `C09_filter_present`). -/
theorem C09_filter_substr (a : Bytes) (ini fin : Option Bytes) (any : List Bytes) (ha : attrDescOk a = true)
    (hi : ini ≠ some []) (hy : ∀ m ∈ any, m ≠ []) (hf : fin ≠ some [])
    (hne : ini.isSome = true ∨ any ≠ [] ∨ fin.isSome = true) :
    (Filter.parse (substrText a ini any fin)).map Tag.toTlv = some (Spec.Filter.toTlv (.substr a ini any fin)) :=
  gparse_of_G (substr_G ((attrDescOk_iff a).mp ha) ini fin any hi hy hf hne) (by simp [Filter.fdepth, Filter.maxNesting])

/-- the instance `(a=<esc i>*<esc m>*<esc f>)`: initial `i`, any `[m]`, final `f` -/
theorem C09_filter_substr3 (a i m f : Bytes) (ha : attrDescOk a = true) (hi : i ≠ []) (hm : m ≠ []) (hf : f ≠ []) :
    (Filter.parse ([0x28] ++ a ++ [0x3D] ++ ldapEscape i ++ [0x2A] ++ ldapEscape m ++ [0x2A] ++ ldapEscape f ++
      [0x29])).map Tag.toTlv = some (Spec.Filter.toTlv (.substr a (some i) [m] (some f))) := by
  have := C09_filter_substr a (some i) (some f) [m] ha (by simpa using hi) (by simpa using hm) (by simpa using hf)
    (Or.inl rfl)
  simpa [substrText, ldapEscapeOpt, ldapEscapeAny] using this

/-- what the non-emptiness hypotheses exclude, exactly: an empty `any` piece is rejected (two adjacent
asterisks), for every attribute and all other pieces; an empty `initial` / `final` gives the same text
as an absent one (so it is read as absent). -/
theorem C09_filter_substr_empty_piece (a : Bytes) (ini fin : Option Bytes) (any pre post : List Bytes) :
    Filter.parse (substrText a ini (pre ++ [] :: post) fin) = none ∧
    substrText a (some []) any fin = substrText a none any fin ∧
    substrText a ini any (some []) = substrText a ini any none :=
  ⟨Filter.parse_none_of_core (substr_empty_any_rejected a ini fin pre post), by simp [substrText, ldapEscapeOpt, ldapEscape_nil],
    by simp [substrText, ldapEscapeOpt, ldapEscape_nil]⟩

/-- with no piece at all the text is `(a=*)`: presence -/
theorem C09_filter_present (a : Bytes) (ha : attrDescOk a = true) :
    substrText a none [] none = [0x28] ++ a ++ [0x3D, 0x2A, 0x29] ∧
    (Filter.parse (substrText a none [] none)).map Tag.toTlv = some (Spec.Filter.toTlv (.present a)) := by
  have e : substrText a none [] none = [0x28] ++ a ++ [0x3D, 0x2A, 0x29] := by
    simp [substrText, ldapEscapeOpt, ldapEscapeAny]
  refine ⟨e, ?_⟩
  have := Filter.G_of_item (Spec.Filter.GItem.present ((attrDescOk_iff a).mp ha))
  rw [e]
  exact gparse_of_G (by simpa using this) (by simp [Filter.fdepth, Filter.maxNesting])

/-- Extensible match `(a:=<ldap_escape v>)`: type `a`, no matching rule, value `v`, dnAttributes FALSE. -/
theorem C09_filter_ext (a v : Bytes) (ha : attrDescOk a = true) :
    (Filter.parse ([0x28] ++ a ++ [0x3A, 0x3D] ++ ldapEscape v ++ [0x29])).map Tag.toTlv =
      some (Spec.Filter.toTlv (.ext none (some a) v false)) :=
  gparse_of_G (valItem_G (.ext a) ((attrDescOk_iff a).mp ha) (rvalF_ldapEscape v)) (fdepth_valItem_le (.ext a) v)

/-- The general extensible match with a type: `(a[:dn][:rule]:=<ldap_escape v>)` (`extText`; `kw` is
the spelling of the keyword, `dn` in any case).  A rule must be an oid (`oidOk`: the model's
`attributetype` consumes it), and without `:dn` it must not itself be spelled like the keyword
(`(a:dn:=v)` is read as dnAttributes TRUE, not as the rule called `dn`). -/
theorem C09_filter_ext_rule (a kw v : Bytes) (rule : Option Bytes) (dn : Bool) (ha : attrDescOk a = true)
    (hk : dn = true → Spec.Filter.isDnKw .lib kw = true) (ho : ∀ r, rule = some r → oidOk r = true)
    (hn : dn = false → ∀ r, rule = some r → Spec.Filter.isDnKw .lib r = false) :
    (Filter.parse (extText a dn kw rule (ldapEscape v))).map Tag.toTlv =
      some (Spec.Filter.toTlv (.ext rule (some a) v dn)) :=
  gparse_of_G (ext_G ((attrDescOk_iff a).mp ha) hk (fun r h => (oidOk_iff r).mp (ho r h)) hn (rvalF_ldapEscape v))
    (by simp [Filter.fdepth, Filter.maxNesting])

/-- The documented extension, an item WITHOUT the outer parentheses (`a=<ldap_escape v>`, and likewise `>=` `<=`
`~=` `:=`): the value then runs to the very end of the string, and the node still carries exactly `v` — a value
ending in a space, a tab or a newline included: nothing is trimmed.  (Seeded change C09d trimmed ASCII white space
from the filter string "for filters read from configuration files": in the parenthesised form the `)` shields the
value, in this form nothing does; `ldap_escape` rightly leaves white space alone.) -/
theorem C09_filter_inert_bare (it : Spec.Filter.ValItem) (ha : attrDescOk it.attr = true) (v : Bytes) :
    (Filter.parse (it.attr ++ it.op ++ ldapEscape v)).map Tag.toTlv = some (Spec.Filter.toTlv (it.tree v)) :=
  gparse_bare it ((attrDescOk_iff _).mp ha) (rvalF_ldapEscape v)

/-- `cn=v␠` (value `v` followed by a space) is the equality match with the two-octet value -/
example : (Filter.parse ([0x63, 0x6E, 0x3D] ++ ldapEscape [0x76, 0x20])).map Tag.toTlv =
    some (Spec.Filter.toTlv (.eq [0x63, 0x6E] [0x76, 0x20])) :=
  C09_filter_inert_bare (.eq [0x63, 0x6E]) (by decide) [0x76, 0x20]

/-- Structure: put `(a op <ldap_escape v>)` (`op` one of `=` `>=` `<=` `~=` `:=`) anywhere inside a
boolean structure — any nesting of `(&…)` `(|…)` `(!…)`, any sibling filters of the language before
and after it at each level (`Ctx`, Spec/FilterCtx.lean).  The result is that structure with exactly
the node (`a`, `v`) in the hole: the same siblings, the same nesting, nothing added, closed or merged,
whatever `v` is.  The whole structure must be one `parse_filter` accepts at all: at most 128 levels of
nesting (`hd`; the value has no influence on that number: `Filter.fdepth (it.tree v) = 1`). -/
theorem C09_filter_nested (c : Spec.Filter.Ctx) (hc : c.ok .lib) (it : Spec.Filter.ValItem)
    (ha : attrDescOk it.attr = true) (v : Bytes)
    (hd : Filter.fdepth (c.tree (it.tree v)) ≤ Filter.maxNesting) :
    (Filter.parse (c.fill (it.text (ldapEscape v)))).map Tag.toTlv = some (Spec.Filter.toTlv (c.tree (it.tree v))) :=
  gparse_of_G (ctx_G c hc (valItem_G it ((attrDescOk_iff _).mp ha) (rvalF_ldapEscape v))) hd

/-- the same for a substring item in the hole -/
theorem C09_filter_substr_nested (c : Spec.Filter.Ctx) (hc : c.ok .lib) (a : Bytes) (ini fin : Option Bytes)
    (any : List Bytes) (ha : attrDescOk a = true)
    (hi : ini ≠ some []) (hy : ∀ m ∈ any, m ≠ []) (hf : fin ≠ some [])
    (hne : ini.isSome = true ∨ any ≠ [] ∨ fin.isSome = true)
    (hd : Filter.fdepth (c.tree (.substr a ini any fin)) ≤ Filter.maxNesting) :
    (Filter.parse (c.fill (substrText a ini any fin))).map Tag.toTlv =
      some (Spec.Filter.toTlv (c.tree (.substr a ini any fin))) :=
  gparse_of_G (ctx_G c hc (substr_G ((attrDescOk_iff a).mp ha) ini fin any hi hy hf hne)) hd

/-- `(objectClass=person)` -/
def C09_objectClassPerson : Bytes :=
  [0x28, 0x6F, 0x62, 0x6A, 0x65, 0x63, 0x74, 0x43, 0x6C, 0x61, 0x73, 0x73, 0x3D, 0x70, 0x65, 0x72, 0x73, 0x6F, 0x6E, 0x29]

/-- `(objectClass=person)` with its tree -/
def C09_personSib : Spec.Filter × Bytes :=
  (.eq [0x6F, 0x62, 0x6A, 0x65, 0x63, 0x74, 0x43, 0x6C, 0x61, 0x73, 0x73] [0x70, 0x65, 0x72, 0x73, 0x6F, 0x6E],
    C09_objectClassPerson)

theorem C09_person_ok : Spec.Filter.Sibs.ok .lib [C09_personSib] := by
  intro p hp
  simp only [List.mem_singleton] at hp
  subst hp
  exact Filter.G_of_item (.eq ((attrDescOk_iff _).mp (by decide))
    (.lit (by decide) (.lit (by decide) (.lit (by decide) (.lit (by decide) (.lit (by decide) (.lit (by decide) .nil)))))))

/-- the instance named in the property discussion: `(&(objectClass=person)(a=<ldap_escape v>))` is
`And [objectClass=person, a=v]` -/
theorem C09_filter_and_person (a v : Bytes) (ha : attrDescOk a = true) :
    (Filter.parse ([0x28, 0x26] ++ C09_objectClassPerson ++ ([0x28] ++ a ++ [0x3D] ++ ldapEscape v ++ [0x29]) ++
      [0x29])).map Tag.toTlv =
    some (Spec.Filter.toTlv (.and [.eq [0x6F, 0x62, 0x6A, 0x65, 0x63, 0x74, 0x43, 0x6C, 0x61, 0x73, 0x73]
      [0x70, 0x65, 0x72, 0x73, 0x6F, 0x6E], .eq a v])) := by
  have := C09_filter_nested (.and [C09_personSib] .hole []) ⟨C09_person_ok, trivial, by simp [Spec.Filter.Sibs.ok]⟩
    (.eq a) ha v (by simp [Spec.Filter.Ctx.tree, Spec.Filter.Sibs.trees, Spec.Filter.ValItem.tree, C09_personSib,
      Filter.fdepth, Filter.fdepthList, Filter.maxNesting])
  simpa [Spec.Filter.Ctx.fill, Spec.Filter.Ctx.tree, Spec.Filter.Sibs.text, Spec.Filter.Sibs.trees,
    Spec.Filter.ValItem.text, Spec.Filter.ValItem.tree, Spec.Filter.ValItem.attr, Spec.Filter.ValItem.op,
    C09_personSib] using this

/-- The statement of DESIGN.md: any way `C` of building a filter string around a value text, such
that every RFC 4515 rendering of `v` in it gives a string denoting `f`, gives a string the parser
compiles to `f` when the text is `ldap_escape(v)`. -/
theorem C09_filter_inert_ctx (f : Spec.Filter) (C : Bytes → Bytes) (v : Bytes)
    (h : ∀ r, Spec.Filter.RVal v r → Spec.Filter.GLib f (C r)) (hd : Filter.fdepth f ≤ Filter.maxNesting) :
    (Filter.parse (C (ldapEscape v))).map Tag.toTlv = some (Spec.Filter.toTlv f) :=
  gparse_of_GLib (h _ (rvalF_ldapEscape v)) hd

/-- For a Rust `str` `v` and an attribute description of RFC 4512 as written (a numeric oid has at
least two arcs), the text `(a op <ldap_escape v>)` is itself valid UTF-8 (a `&str` that can be handed to
`parse_filter`) and a filter string of RFC 4515 as written (`GRfc`, the language of `C08_complete`)
denoting the node (`a`, `v`): escaping never leaves the RFC's language. -/
theorem C09_filter_text_rfc (it : Spec.Filter.ValItem) (v : Bytes) (ha : Spec.Filter.IsAttrDesc .rfc it.attr)
    (hv : utf8Valid v = true) : Spec.Filter.GRfc (it.tree v) (it.text (ldapEscape v)) :=
  ⟨Or.inl (valItem_G it ha (rvalF_ldapEscape v)), valItem_text_utf8 it ha v hv⟩

/-! ### dn_escape -/

/-- The RFC 4514 reader, placed at the start of `dn_escape(v)` followed by the end of the DN or a
`,` / `+` separator, reads an attribute value in `string` form whose octets are exactly `v`, and
stops exactly at the separator. -/
theorem C09_dn (v rest : Bytes) (hv : utf8Valid v = true)
    (h : rest = [] ∨ rest.head? = some 0x2C ∨ rest.head? = some 0x2B) :
    Spec.Dn.readValue (dnEscape v ++ rest) = some (v, rest) := by
  apply readValue_dnEscape v rest hv
  cases rest with
  | nil => rfl
  | cons c t =>
    simp only [List.head?_cons, Option.some.injEq, reduceCtorEq, false_or] at h
    rcases h with rfl | rfl <;> rfl

/-- well-formed input of `C09_dn_structure`: every RDN has at least one AVA, every attribute type is
an RFC 4514 `descr` or `numericoid`, every value is a string (valid UTF-8) -/
def wfDn (rdns : List (List (Bytes × Bytes))) : Bool :=
  rdns.all fun rdn => !rdn.isEmpty && rdn.all fun av => isAttrType av.1 && utf8Valid av.2

/-- Rendering a DN whose attribute values went through `dn_escape` and parsing it per RFC 4514 gives
back the same list of RDNs, the same AVAs in each, every value in `string` form with the original
octets: no value can add, remove or merge RDNs/AVAs. -/
theorem C09_dn_structure (rdns : List (List (Bytes × Bytes))) (h : wfDn rdns = true) :
    Spec.Dn.parse (Spec.Dn.render (rdns.map (·.map fun av => (av.1, dnEscape av.2)))) =
      some (rdns.map (·.map fun av => (av.1, AttrVal.str av.2))) := by
  simp only [wfDn, List.all_eq_true] at h
  exact parse_render rdns (fun rdn hr => by simpa [rdnOk, avaOk, List.all_eq_true] using h rdn hr)

/-! ### non-vacuity and the small cases where the position rules interact (tests, labelled as such) -/

-- `a\*(b)NUL`
example : ldapEscape [0x61, 0x5C, 0x2A, 0x28, 0x62, 0x29, 0x00] =
    [0x61, 0x5C,0x35,0x63, 0x5C,0x32,0x61, 0x5C,0x32,0x38, 0x62, 0x5C,0x32,0x39, 0x5C,0x30,0x30] := by decide
example : utf8Valid [0x61, 0x5C, 0x2A, 0x28, 0x62, 0x29, 0x00] = true := by decide
example : ldapUnescape (ldapEscape [0x61, 0x5C, 0x2A, 0x28, 0x62, 0x29, 0x00]) = .ok [0x61, 0x5C, 0x2A, 0x28, 0x62, 0x29, 0x00] := by decide
example : readFilterValue [0x5C, 0x32, 0x41, 0x5C, 0x32, 0x61, 0x62] = some [0x2A, 0x2A, 0x62] := by decide
-- hypotheses of the filter-level theorems: `cn`, `cn;lang-de`, `2.5.4.3` are attribute descriptions;
-- `` (empty), `a b`, `1.` are not, and `(=x)`, `(a b=x)`, `(1.=x)` are rejected
example : attrDescOk [0x63, 0x6E] = true ∧ attrDescOk [0x63, 0x6E, 0x3B, 0x6C, 0x61, 0x6E, 0x67, 0x2D, 0x64, 0x65] = true ∧
    attrDescOk [0x32, 0x2E, 0x35, 0x2E, 0x34, 0x2E, 0x33] = true := by decide
example : attrDescOk [] = false ∧ attrDescOk [0x61, 0x20, 0x62] = false ∧ attrDescOk [0x31, 0x2E] = false := by decide
example : (Filter.parse [0x28, 0x3D, 0x78, 0x29]).isNone = true ∧
    (Filter.parse [0x28, 0x61, 0x20, 0x62, 0x3D, 0x78, 0x29]).isNone = true ∧
    (Filter.parse [0x28, 0x31, 0x2E, 0x3D, 0x78, 0x29]).isNone = true := by decide
example : Spec.Filter.IsAttrDesc .rfc (Spec.Filter.ValItem.approx [0x63, 0x6E]).attr :=
  ⟨[0x63, 0x6E], [], Or.inl (by decide), by simp, rfl⟩
-- `(cn=<ldap_escape "a\*(b)NUL">)`: the BER of equalityMatch (cn, a\*(b)NUL), all seven octets in the value
example : (Filter.parse ([0x28, 0x63, 0x6E, 0x3D] ++ ldapEscape [0x61, 0x5C, 0x2A, 0x28, 0x62, 0x29, 0x00] ++ [0x29])).map
      (fun t => encode t.toTlv) =
    some [0xA3, 0x0D, 0x04, 0x02, 0x63, 0x6E, 0x04, 0x07, 0x61, 0x5C, 0x2A, 0x28, 0x62, 0x29, 0x00] := by decide
-- the empty value: `(cn=)` is equalityMatch (cn, ""), not presence
example : (Filter.parse ([0x28, 0x63, 0x6E, 0x3D] ++ ldapEscape [] ++ [0x29])).map (fun t => encode t.toTlv) =
    some [0xA3, 0x06, 0x04, 0x02, 0x63, 0x6E, 0x04, 0x00] := by decide
-- what escaping prevents: the value `x)(b=y` pasted raw into `(&(objectClass=person)(a=…))` adds a third
-- conjunct `(b=y)`; escaped, it is the value of the second of two
example : (Filter.parse ([0x28, 0x26] ++ C09_objectClassPerson ++ ([0x28, 0x61, 0x3D] ++ [0x78, 0x29, 0x28, 0x62, 0x3D, 0x79] ++ [0x29]) ++
      [0x29])).map (fun t => encode t.toTlv) =
    some [0xA0, 0x27, 0xA3, 0x15, 0x04, 0x0B, 0x6F, 0x62, 0x6A, 0x65, 0x63, 0x74, 0x43, 0x6C, 0x61, 0x73, 0x73, 0x04, 0x06,
      0x70, 0x65, 0x72, 0x73, 0x6F, 0x6E, 0xA3, 0x06, 0x04, 0x01, 0x61, 0x04, 0x01, 0x78, 0xA3, 0x06, 0x04, 0x01, 0x62,
      0x04, 0x01, 0x79] := by decide
example : (Filter.parse ([0x28, 0x26] ++ C09_objectClassPerson ++
      ([0x28, 0x61, 0x3D] ++ ldapEscape [0x78, 0x29, 0x28, 0x62, 0x3D, 0x79] ++ [0x29]) ++ [0x29])).map (fun t => encode t.toTlv) =
    some [0xA0, 0x24, 0xA3, 0x15, 0x04, 0x0B, 0x6F, 0x62, 0x6A, 0x65, 0x63, 0x74, 0x43, 0x6C, 0x61, 0x73, 0x73, 0x04, 0x06,
      0x70, 0x65, 0x72, 0x73, 0x6F, 0x6E, 0xA3, 0x0B, 0x04, 0x01, 0x61, 0x04, 0x06, 0x78, 0x29, 0x28, 0x62, 0x3D, 0x79] := by
  decide
-- substring pieces `*`, `)`, `\`: `(a=\2a*\29*\5c)` is initial `*`, any `)`, final `\`
example : (Filter.parse ([0x28, 0x61, 0x3D] ++ ldapEscape [0x2A] ++ [0x2A] ++ ldapEscape [0x29] ++ [0x2A] ++ ldapEscape [0x5C] ++
      [0x29])).map (fun t => encode t.toTlv) =
    some [0xA4, 0x0E, 0x04, 0x01, 0x61, 0x30, 0x09, 0x80, 0x01, 0x2A, 0x81, 0x01, 0x29, 0x82, 0x01, 0x5C] := by decide
-- an empty middle piece is rejected: `(a=i**f)`
example : (Filter.parse (substrText [0x61] (some [0x69]) [[]] (some [0x66]))).isNone = true := by decide
-- hypothesis `hn` of `C09_filter_ext_rule`: `(a:dn:=v)` has dnAttributes TRUE and no rule
example : (Filter.parse [0x28, 0x61, 0x3A, 0x64, 0x6E, 0x3A, 0x3D, 0x76, 0x29]).map (fun t => encode t.toTlv) =
    some [0xA9, 0x09, 0x82, 0x01, 0x61, 0x83, 0x01, 0x76, 0x84, 0x01, 0xFF] := by decide
-- … and its other hypotheses are satisfiable: `(cn:DN:2.4.6:=…)`
example : Spec.Filter.isDnKw .lib [0x44, 0x4E] = true ∧ oidOk [0x32, 0x2E, 0x34, 0x2E, 0x36] = true := by decide
-- a context with siblings on both sides and two levels: `(|(!(&(objectClass=person)□(objectClass=person))))`
example : (Spec.Filter.Ctx.or [] (.not (.and [C09_personSib] .hole [C09_personSib])) []).ok .lib :=
  ⟨by simp [Spec.Filter.Sibs.ok], ⟨C09_person_ok, trivial, C09_person_ok⟩, by simp [Spec.Filter.Sibs.ok]⟩
-- `é𝄞*` : multi-byte characters pass through, the result is still UTF-8
example : ldapEscapeO [0xC3, 0xA9, 0xF0, 0x9D, 0x84, 0x9E, 0x2A] = .ok [0xC3, 0xA9, 0xF0, 0x9D, 0x84, 0x9E, 0x5C, 0x32, 0x61] := by decide
-- on bytes that are not UTF-8 (impossible for a Rust `str`) the modelled `expect` would fire
example : ldapEscapeO [0xFF, 0x2A] = .panicExpect := by decide
-- `" "`, `"  "`, `"   "`, `"# "`, `"a#"`, `" #"`
example : dnEscape [0x20] = [0x5C, 0x32, 0x30] := by decide
example : dnEscape [0x20, 0x20] = [0x5C, 0x32, 0x30, 0x5C, 0x32, 0x30] := by decide
example : dnEscape [0x20, 0x20, 0x20] = [0x5C, 0x32, 0x30, 0x20, 0x5C, 0x32, 0x30] := by decide
example : dnEscape [0x23, 0x20] = [0x5C, 0x32, 0x33, 0x5C, 0x32, 0x30] := by decide
example : dnEscape [0x61, 0x23] = [0x61, 0x23] := by decide
example : Spec.Dn.readValue (dnEscape [0x20] ++ [0x2C, 0x64]) = some ([0x20], [0x2C, 0x64]) := by decide
example : Spec.Dn.readValue (dnEscape [0x20, 0x20] ++ [0x2B, 0x64]) = some ([0x20, 0x20], [0x2B, 0x64]) := by decide
example : Spec.Dn.readValue (dnEscape [0x23, 0x20]) = some ([0x23, 0x20], []) := by decide
-- the reader is strict: unescaped leading/trailing space and leading `#`-non-hex are not values
example : Spec.Dn.readValue [0x20, 0x61] = none ∧ Spec.Dn.readValue [0x61, 0x20] = none ∧ Spec.Dn.readValue [0x23, 0x20] = none := by decide
-- an unescaped `,` ends the value (this is what escaping prevents): `a,b` reads as `a`
example : Spec.Dn.readValue [0x61, 0x2C, 0x62] = some ([0x61], [0x2C, 0x62]) := by decide
-- no-op on a non-trivial string `f o#`: an inner space and a trailing `#` are not escaped
example : dnEscape [0x66, 0x20, 0x6F, 0x23] = [0x66, 0x20, 0x6F, 0x23] := by decide
-- structure: cn=`a,b`+sn=` `,dc=`#x` (three values that would each break the DN if unescaped)
example : wfDn [[([0x63, 0x6E], [0x61, 0x2C, 0x62]), ([0x73, 0x6E], [0x20])], [([0x64, 0x63], [0x23, 0x78])]] = true := by decide
example : Spec.Dn.parse (Spec.Dn.render
      ([[([0x63, 0x6E], [0x61, 0x2C, 0x62]), ([0x73, 0x6E], [0x20])], [([0x64, 0x63], [0x23, 0x78])]].map
        (·.map fun av => (av.1, dnEscape av.2)))) =
    some [[([0x63, 0x6E], .str [0x61, 0x2C, 0x62]), ([0x73, 0x6E], .str [0x20])], [([0x64, 0x63], .str [0x23, 0x78])]] := by decide
-- numericoid types are accepted, `1.` / `01.2` / `a_b` are not
example : isAttrType [0x32, 0x2E, 0x35, 0x2E, 0x34, 0x2E, 0x33] = true ∧ isAttrType [0x31, 0x2E] = false ∧
    isAttrType [0x30, 0x31, 0x2E, 0x32] = false ∧ isAttrType [0x61, 0x5F, 0x62] = false := by decide

/-! ### tie by regeneration (translate/pure_fns.py): the escape sets and the hex-digit writer of the
*current* src/util.rs are the model's.  `Gen.*` is regenerated from the Rust source on every run; a
changed character set or nibble formula makes this theorem fail to re-check. -/

/-- `needs_escape`, `always_escape`, `escape_leading`, `escape_trailing` as written in src/util.rs today
decide every byte like the model predicates all C09 theorems are about, and both copies of `xdigit`
compute the model's `xdigit` without overflow on every nibble (their only arguments: `c >> 4`, `c & 0xF`). -/
theorem C09_escape_sets_source (c : UInt8) :
    Gen.ldap_escape_needs_escape c = some (needsEscape c) ∧
    Gen.dn_escape_always_escape c = some (alwaysEscape c) ∧
    Gen.dn_escape_escape_leading c = some (escapeLeading c) ∧
    Gen.dn_escape_escape_trailing c = some (escapeTrailing c) ∧
    Gen.ldap_escape_xdigit (c >>> 4) = some (xdigit (c >>> 4)) ∧
    Gen.ldap_escape_xdigit (c &&& 0xF) = some (xdigit (c &&& 0xF)) ∧
    Gen.dn_escape_xdigit (c >>> 4) = some (xdigit (c >>> 4)) ∧
    Gen.dn_escape_xdigit (c &&& 0xF) = some (xdigit (c &&& 0xF)) :=
  ⟨gen_needs_escape c, gen_always_escape c, gen_escape_leading c, gen_escape_trailing c,
   gen_ldap_xdigit _ (nibbles_lt c).1, gen_ldap_xdigit _ (nibbles_lt c).2,
   gen_dn_xdigit _ (nibbles_lt c).1, gen_dn_xdigit _ (nibbles_lt c).2⟩

-- non-vacuity: the generated predicate is the real thing (`*` is escaped, `a` is not); outside its
-- domain the generated `xdigit` reports the overflow the model's wrapping `+` would hide
example : Gen.ldap_escape_needs_escape 0x2A = some true ∧ Gen.ldap_escape_needs_escape 0x61 = some false ∧
    Gen.ldap_escape_xdigit 0x0B = some 0x62 ∧ Gen.ldap_escape_xdigit 0xFF = none := by decide


end Ldap3V

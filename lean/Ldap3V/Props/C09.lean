/-
C09 — escaped text is inert.
  "For every string v, embedding ldap_escape(v) as an assertion value in a filter yields a filter of
   unchanged structure whose value is byte-for-byte v, and ldap_unescape(ldap_escape(v)) equals v.
   For every string v, embedding dn_escape(v) as an attribute value in a distinguished name yields a
   DN that an RFC 4514 parser reads with the same RDN structure and the value v.  Strings that need
   no escaping are returned unchanged."
Statements only; proofs are references to Lemmas/Escape*.lean.
Model: Ldap3V/Model/Escape.lean (src/util.rs), Model/Unescaper.lean (src/filter.rs), Model/Utf8.lean.
Spec:  Ldap3V/Spec/FilterValue.lean (RFC 4515 valueencoding), Ldap3V/Spec/Dn.lean (RFC 4514 §3 reader).

Strings are their UTF-8 bytes.  The Rust argument type is `str`, so `utf8Valid v` always holds for
real inputs; theorems that need it carry it as a hypothesis, the others hold for every byte string.
No length bound anywhere.

Not in this file: the filter-level corollary `C09_filter_inert` of DESIGN.md (any one-hole value
context of the RFC 4515 grammar) needs the C08 filter grammar/parser model; until that slice is merged
the value level is covered by `C09_escape_renders` / `C09_escape_read` / `C09_escape_inert`, and the
real filter parser is exercised on `(a=<ldap_escape v>)` by lane `escape` (R lines `filter.value`).
-/
import Ldap3V.Lemmas.Escape
import Ldap3V.Lemmas.EscapeUtf8
import Ldap3V.Lemmas.EscapeDn
import Ldap3V.Lemmas.EscapeDnStruct
namespace Ldap3V
open Spec Spec.Dn

/-! ### ldap_escape / ldap_unescape -/

/-- `ldap_unescape(ldap_escape(v)) == Ok(v)` for every string. -/
theorem C09_unescape_escape (v : Bytes) (h : utf8Valid v = true) : ldapUnescape (ldapEscape v) = .ok v := by
  rw [ldapEscape_eq]
  exact ldapUnescape_escMap ldapNeed (fun _ => needsEscape_bs) v h

/-- `ldap_escape(v)` is an RFC 4515 rendering of the octets of `v`. -/
theorem C09_escape_renders (v : Bytes) : RVal v (ldapEscape v) := by
  rw [ldapEscape_eq]; exact rval_escMap v 0

/-- the independent RFC 4515 value reader undoes every rendering of `v` (either hex case, any octet escaped) … -/
theorem C09_reader_complete (v r : Bytes) (h : RVal v r) : readFilterValue r = some v :=
  readFilterValue_of_rval v r h

/-- … in particular it reads `ldap_escape(v)` as byte-for-byte `v`. -/
theorem C09_escape_read (v : Bytes) : readFilterValue (ldapEscape v) = some v :=
  readFilterValue_of_rval v _ (C09_escape_renders v)

/-- `ldap_escape(v)` contains none of NUL `(` `)` `*`: it cannot end the value, close or open a filter
component, or introduce a substring/presence wildcard.  (Every backslash in it starts a `\hh`: that
is `C09_escape_renders`.) -/
theorem C09_escape_inert (v : Bytes) : ∀ b ∈ ldapEscape v, b ≠ 0 ∧ b ≠ 0x28 ∧ b ≠ 0x29 ∧ b ≠ 0x2A := by
  intro b hb
  rw [ldapEscape_eq] at hb
  have := escMap_ldap_no_structural v 0 b hb
  simp only [isStructural, Bool.or_eq_false_iff, beq_eq_false_iff_ne] at this
  exact ⟨this.1.1.1, this.1.1.2, this.1.2, this.2⟩

/-- The `expect("ldap escaped")` / `expect("dn escaped")` are dead: on valid UTF-8 both functions
return (`…O` is the function as written, with the panic as an outcome), and the result is valid UTF-8. -/
theorem C09_escape_total (v : Bytes) (h : utf8Valid v = true) :
    (utf8Valid (ldapEscape v) = true ∧ utf8Valid (dnEscape v) = true) ∧
    ldapEscapeO v = .ok (ldapEscape v) ∧ dnEscapeO v = .ok (dnEscape v) := by
  have h1 : utf8Valid (ldapEscape v) = true := by
    rw [ldapEscape_eq]; exact utf8_escMap ldapNeed ldapNeed_ascii v.length v 0 (Nat.le_refl _) h
  have h2 : utf8Valid (dnEscape v) = true := by
    rw [dnEscape_eq]; exact utf8_escMap _ (dnNeed_ascii v.length) v.length v 0 (Nat.le_refl _) h
  exact ⟨⟨h1, h2⟩, escFinish_ok v _ h1, escFinish_ok v _ h2⟩

/-- No byte of `v` is one of `\ * ( ) NUL` ⇒ `ldap_escape` returns its argument, without allocating
(`output` stays `None`, the `Cow` is the one passed in). -/
theorem C09_noop (v : Bytes) (h : ∀ b ∈ v, needsEscape b = false) :
    ldapEscape v = v ∧ ldapEscapeO v = .ok v ∧ escapeLoop ldapNeed v v 0 none = none := by
  have hn := escapeLoop_noNeed ldapNeed v 0 v (noNeed_ldap 0 v h)
  exact ⟨by simp [ldapEscape, hn], by simp [ldapEscapeO, hn, escFinish], hn⟩

/-- No byte of `v` is one of `" + , ; < = > \ NUL`, the first is neither space nor `#`, the last is
not a space ⇒ `dn_escape` returns its argument, without allocating. -/
theorem C09_dn_noop (v : Bytes) (ha : ∀ b ∈ v, alwaysEscape b = false)
    (hl : ∀ c, v.head? = some c → escapeLeading c = false)
    (ht : ∀ c, v.getLast? = some c → escapeTrailing c = false) :
    dnEscape v = v ∧ dnEscapeO v = .ok v ∧ escapeLoop (dnNeed v.length) v v 0 none = none := by
  have hn := escapeLoop_noNeed (dnNeed v.length) v 0 v (by simpa using noNeed_dn 0 v ha (fun _ => hl) ht)
  exact ⟨by simp [dnEscape, hn], by simp [dnEscapeO, hn, escFinish], hn⟩

/-- `ldap_unescape` of a string without backslash returns its argument. -/
theorem C09_unescape_noop (v : Bytes) (h : ∀ b ∈ v, b ≠ 0x5C) : ldapUnescape v = .ok v := by
  have := unescLoop_no_bs v v 0 0 h
  unfold ldapUnescape
  generalize unescLoop v v 0 (.value 0) none = res at this
  obtain ⟨e, o⟩ := res
  simp only at this
  subst this
  rfl

/-! ### dn_escape -/

/-- The RFC 4514 reader, placed at the start of `dn_escape(v)` followed by the end of the DN or a
`,` / `+` separator, reads an attribute value in `string` form whose octets are exactly `v`, and
stops exactly at the separator. -/
theorem C09_dn (v rest : Bytes) (hv : utf8Valid v = true)
    (h : rest = [] ∨ rest.head? = some 0x2C ∨ rest.head? = some 0x2B) :
    Spec.Dn.readValue (dnEscape v ++ rest) = some (v, rest) := by
  apply readValue_dnEscape v rest hv
  cases rest with
  | nil => rfl
  | cons c t =>
    simp only [List.head?_cons, Option.some.injEq, reduceCtorEq, false_or] at h
    rcases h with rfl | rfl <;> rfl

/-- well-formed input of `C09_dn_structure`: every RDN has at least one AVA, every attribute type is
an RFC 4514 `descr` or `numericoid`, every value is a string (valid UTF-8) -/
def wfDn (rdns : List (List (Bytes × Bytes))) : Bool :=
  rdns.all fun rdn => !rdn.isEmpty && rdn.all fun av => isAttrType av.1 && utf8Valid av.2

/-- Rendering a DN whose attribute values went through `dn_escape` and parsing it per RFC 4514 gives
back the same list of RDNs, the same AVAs in each, every value in `string` form with the original
octets: no value can add, remove or merge RDNs/AVAs. -/
theorem C09_dn_structure (rdns : List (List (Bytes × Bytes))) (h : wfDn rdns = true) :
    Spec.Dn.parse (Spec.Dn.render (rdns.map (·.map fun av => (av.1, dnEscape av.2)))) =
      some (rdns.map (·.map fun av => (av.1, AttrVal.str av.2))) := by
  simp only [wfDn, List.all_eq_true] at h
  exact parse_render rdns (fun rdn hr => by simpa [rdnOk, avaOk, List.all_eq_true] using h rdn hr)

/-! ### non-vacuity and the small cases where the position rules interact (tests, labelled as such) -/

-- `a\*(b)NUL`
example : ldapEscape [0x61, 0x5C, 0x2A, 0x28, 0x62, 0x29, 0x00] =
    [0x61, 0x5C,0x35,0x63, 0x5C,0x32,0x61, 0x5C,0x32,0x38, 0x62, 0x5C,0x32,0x39, 0x5C,0x30,0x30] := by decide
example : utf8Valid [0x61, 0x5C, 0x2A, 0x28, 0x62, 0x29, 0x00] = true := by decide
example : ldapUnescape (ldapEscape [0x61, 0x5C, 0x2A, 0x28, 0x62, 0x29, 0x00]) = .ok [0x61, 0x5C, 0x2A, 0x28, 0x62, 0x29, 0x00] := by decide
example : readFilterValue [0x5C, 0x32, 0x41, 0x5C, 0x32, 0x61, 0x62] = some [0x2A, 0x2A, 0x62] := by decide
-- `é𝄞*` : multi-byte characters pass through, the result is still UTF-8
example : ldapEscapeO [0xC3, 0xA9, 0xF0, 0x9D, 0x84, 0x9E, 0x2A] = .ok [0xC3, 0xA9, 0xF0, 0x9D, 0x84, 0x9E, 0x5C, 0x32, 0x61] := by decide
-- on bytes that are not UTF-8 (impossible for a Rust `str`) the modelled `expect` would fire
example : ldapEscapeO [0xFF, 0x2A] = .panicExpect := by decide
-- `" "`, `"  "`, `"   "`, `"# "`, `"a#"`, `" #"`
example : dnEscape [0x20] = [0x5C, 0x32, 0x30] := by decide
example : dnEscape [0x20, 0x20] = [0x5C, 0x32, 0x30, 0x5C, 0x32, 0x30] := by decide
example : dnEscape [0x20, 0x20, 0x20] = [0x5C, 0x32, 0x30, 0x20, 0x5C, 0x32, 0x30] := by decide
example : dnEscape [0x23, 0x20] = [0x5C, 0x32, 0x33, 0x5C, 0x32, 0x30] := by decide
example : dnEscape [0x61, 0x23] = [0x61, 0x23] := by decide
example : Spec.Dn.readValue (dnEscape [0x20] ++ [0x2C, 0x64]) = some ([0x20], [0x2C, 0x64]) := by decide
example : Spec.Dn.readValue (dnEscape [0x20, 0x20] ++ [0x2B, 0x64]) = some ([0x20, 0x20], [0x2B, 0x64]) := by decide
example : Spec.Dn.readValue (dnEscape [0x23, 0x20]) = some ([0x23, 0x20], []) := by decide
-- the reader is strict: unescaped leading/trailing space and leading `#`-non-hex are not values
example : Spec.Dn.readValue [0x20, 0x61] = none ∧ Spec.Dn.readValue [0x61, 0x20] = none ∧ Spec.Dn.readValue [0x23, 0x20] = none := by decide
-- an unescaped `,` ends the value (this is what escaping prevents): `a,b` reads as `a`
example : Spec.Dn.readValue [0x61, 0x2C, 0x62] = some ([0x61], [0x2C, 0x62]) := by decide
-- no-op on a non-trivial string `f o#`: an inner space and a trailing `#` are not escaped
example : dnEscape [0x66, 0x20, 0x6F, 0x23] = [0x66, 0x20, 0x6F, 0x23] := by decide
-- structure: cn=`a,b`+sn=` `,dc=`#x` (three values that would each break the DN if unescaped)
example : wfDn [[([0x63, 0x6E], [0x61, 0x2C, 0x62]), ([0x73, 0x6E], [0x20])], [([0x64, 0x63], [0x23, 0x78])]] = true := by decide
example : Spec.Dn.parse (Spec.Dn.render
      ([[([0x63, 0x6E], [0x61, 0x2C, 0x62]), ([0x73, 0x6E], [0x20])], [([0x64, 0x63], [0x23, 0x78])]].map
        (·.map fun av => (av.1, dnEscape av.2)))) =
    some [[([0x63, 0x6E], .str [0x61, 0x2C, 0x62]), ([0x73, 0x6E], .str [0x20])], [([0x64, 0x63], .str [0x23, 0x78])]] := by decide
-- numericoid types are accepted, `1.` / `01.2` / `a_b` are not
example : isAttrType [0x32, 0x2E, 0x35, 0x2E, 0x34, 0x2E, 0x33] = true ∧ isAttrType [0x31, 0x2E] = false ∧
    isAttrType [0x30, 0x31, 0x2E, 0x32] = false ∧ isAttrType [0x61, 0x5F, 0x62] = false := by decide

end Ldap3V

/-
C05 — in-flight operations never share a message ID; IDs stay within 1..2^31-1; wrap-around skips
IDs in use.  Part 1: the allocator (`Ldap::next_msgid`), parametric in the bound `N`.
Part 2, over the connection model and whole histories: `C05_unique` (in every reachable state the
operations the connection still knows about — between allocation and queueing, queued, or registered
in a routing map — carry pairwise different IDs), `C05_request_id_unique` (the ID a request leaves
with differs from that of every other such operation) and `C05_range` (every ID is within 1..N),
for ANY interleaving of any number of handles' calls with the driver and the server.  Hypothesis
`FreshRun2` (finding F13: needs a full wrap of the ID space while one call is stuck before the
driver), discharged for all histories with at most N allocations (`C05_unique_nowrap`).
-/
import Ldap3V.Lemmas.IdAlloc
import Ldap3V.Lemmas.ConnUniq
namespace Ldap3V

/-- The allocator returns the FIRST free ID in the cyclic order last+1, …, N, 1, …, last; it is
within 1..N and not in use; it panics only if every ID 1..N is in use; it never loops forever. -/
theorem C05_alloc_spec (N last : Nat) (inUse : List Nat) (hl : 1 ≤ last) (hN : last ≤ N) :
    (∀ id, nextId N last inUse = .ok id →
        1 ≤ id ∧ id ≤ N ∧ id ∉ inUse ∧
        ∃ before after, candidates N last = before ++ id :: after ∧ ∀ j ∈ before, j ∈ inUse) ∧
    (nextId N last inUse = .panic → ∀ j, 1 ≤ j → j ≤ N → j ∈ inUse) ∧
    nextId N last inUse ≠ .diverge := by
  rw [nextId_eq N last inUse hl hN]
  cases hf : firstFree inUse (candidates N last) with
  | none =>
    refine ⟨fun id h => by simp [outOf] at h, fun _ j h1 h2 => ?_, by simp [outOf]⟩
    have := List.find?_eq_none.mp hf j ((mem_candidates N last j hN).mpr ⟨h1, h2⟩)
    simpa using this
  | some a =>
    refine ⟨fun id h => ?_, fun h => by simp [outOf] at h, by simp [outOf]⟩
    simp only [outOf, AllocOut.ok.injEq] at h
    subst h
    obtain ⟨hp, as, bs, hsplit, hbefore⟩ := List.find?_eq_some_iff_append.mp hf
    have hmem : a ∈ candidates N last := by rw [hsplit]; simp
    have hr := (mem_candidates N last a hN).mp hmem
    refine ⟨hr.1, hr.2, by simpa using hp, as, bs, hsplit, fun j hj => ?_⟩
    have := hbefore j hj
    simpa using this

/-- the very first allocation on a connection -/
theorem C05_first (N : Nat) (hN : 1 ≤ N) : nextId N 0 [] = .ok 1 := nextId_fresh N hN

/-- the wrap-around case spelled out: at `last = N` the search continues from 1 and skips IDs in use -/
theorem C05_wrap (N : Nat) (inUse : List Nat) (hN : 1 ≤ N) :
    nextId N N inUse = outOf (firstFree inUse (List.range' 1 N)) := by
  rw [nextId_eq N N inUse hN (Nat.le_refl _)]
  simp [candidates]

/-- In the connection model an allocation is ONE atomic step (the real code holds the table's mutex
across the whole loop), whatever else is going on: the ID handed out is not reserved by anybody,
becomes reserved in the same step, and becomes the new counter position.  With `C05_alloc_spec` it
is the first free ID in cyclic order. -/
theorem C05_alloc_step (s : Conn.St) (kind : Conn.Kind) (id : Nat) (h : nextId s.N s.last s.inUse = .ok id) :
    ∃ s', Conn.step s (.alloc kind) = some (s', .id id) ∧ s'.last = id ∧ s'.inUse = id :: s.inUse ∧
      (∃ o : Conn.Op, s'.ops = s.ops ++ [o] ∧ o.id = id ∧ o.kind = kind ∧ o.phase = .allocated) := by
  simp only [Conn.step, h]
  exact ⟨_, rfl, rfl, rfl, _, rfl, rfl, rfl, rfl⟩

/-- an ID that is reserved is never handed out -/
theorem C05_never_reserved (N last : Nat) (inUse : List Nat) (id : Nat) (hl : 1 ≤ last) (hN : last ≤ N)
    (h : nextId N last inUse = .ok id) : id ∉ inUse :=
  ((C05_alloc_spec N last inUse hl hN).1 id h).2.2.1

open Conn in
/-- **C05, whole histories: outstanding operations never share a message ID.**  In every state
reachable from a fresh connection, two different operations that are outstanding (`Live`: the call
is between allocating the ID and queueing the request, the request is queued, or the driver holds a
routing entry for it) have different IDs. -/
theorem C05_unique (N : Nat) (evs : List Ev) (hf : FreshRun2 (init N) evs) (i j : Nat) (oi oj : Op)
    (hi : (run (init N) evs).ops[i]? = some oi) (hj : (run (init N) evs).ops[j]? = some oj)
    (li : Live (run (init N) evs) i oi) (lj : Live (run (init N) evs) j oj) (hne : i ≠ j) : oi.id ≠ oj.id :=
  fun e => hne ((Uniq.run N evs hf).uniq i j oi oj hi hj li lj e)

open Conn in
/-- the same without any hypothesis on the schedule, for every history that allocates at most `N`
(= 2^31-1) IDs -/
theorem C05_unique_nowrap (N : Nat) (evs : List Ev) (hcount : allocCount evs ≤ N) (i j : Nat) (oi oj : Op)
    (hi : (run (init N) evs).ops[i]? = some oi) (hj : (run (init N) evs).ops[j]? = some oj)
    (li : Live (run (init N) evs) i oi) (lj : Live (run (init N) evs) j oj) (hne : i ≠ j) : oi.id ≠ oj.id :=
  C05_unique N evs (freshRun2_init N evs hcount) i j oi oj hi hj li lj hne

open Conn in
/-- **the ID a request leaves the client with** (the driver writes request `i` — `(o.id, o.kind)` is
appended to the wire) differs from the ID of every other outstanding operation, and every routing
entry the driver holds at that moment is for a different ID -/
theorem C05_request_id_unique (N : Nat) (evs : List Ev) (hf : FreshRun2 (init N) evs) (i : Nat) (rest : List Nat) (o : Op)
    (hq : (run (init N) evs).opQ = i :: rest) (ho : (run (init N) evs).ops[i]? = some o) :
    (∀ (j : Nat) (oj : Op), (run (init N) evs).ops[j]? = some oj → Live (run (init N) evs) j oj → j ≠ i → oj.id ≠ o.id) ∧
    (∀ p ∈ (run (init N) evs).resultmap, p.1 ≠ o.id) ∧ (∀ p ∈ (run (init N) evs).searchmap, p.1 ≠ o.id) := by
  obtain ⟨hu, ha, _⟩ := Uniq.run' evs _ (Uniq.init N) (Acct.init N) (RouteInv.init N) hf
  refine ⟨fun j oj hoj lj hne e => hne (hu.uniq j i oj o hoj ho lj (Or.inr (Or.inl (by rw [hq]; simp))) e), ?_⟩
  exact hu.head_not_in_maps ha hq ho

open Conn in
/-- a routing entry is held only under an ID that is reserved -/
theorem C05_registered_ids_reserved (N : Nat) (evs : List Ev) (hf : FreshRun2 (init N) evs) :
    (∀ p ∈ (run (init N) evs).resultmap, p.1 ∈ (run (init N) evs).inUse) ∧
    (∀ p ∈ (run (init N) evs).searchmap, p.1 ∈ (run (init N) evs).inUse) :=
  (Uniq.run N evs hf).mapIn

open Conn in
/-- **every message ID is between 1 and N** (= 2^31-1), after any history -/
theorem C05_range (N : Nat) (hN : 1 ≤ N) (evs : List Ev) (i : Nat) (o : Op)
    (ho : (run (init N) evs).ops[i]? = some o) : 1 ≤ o.id ∧ o.id ≤ N := by
  have h0 : InRange (init N) := ⟨by simp [init], fun _ => rfl, fun x hx => by simp [init, ids] at hx⟩
  obtain ⟨⟨_, _, h3⟩, hn⟩ := inRange_run evs (init N) hN h0
  have : o.id ∈ ids (run (init N) evs).ops := by
    unfold ids; exact List.mem_map.mpr ⟨o, List.mem_of_getElem? ho, rfl⟩
  have := h3 _ this
  rw [hn] at this
  exact this

/-! ### non-vacuity (tests) -/
open Conn in
/-- a reachable state with three outstanding operations (one registered, one queued, one between
allocation and queueing): the hypotheses of `C05_unique_nowrap` are satisfiable -/
example :
    let evs : List Ev := [.alloc .single, .enqueue 0 none, .drvOp true, .alloc .search, .enqueue 1 none, .alloc .single]
    let s := run (init 100) evs
    allocCount evs ≤ 100 ∧
    (∃ o, s.ops[0]? = some o ∧ Live s 0 o) ∧ (∃ o, s.ops[1]? = some o ∧ Live s 1 o) ∧ (∃ o, s.ops[2]? = some o ∧ Live s 2 o) := by
  refine ⟨by decide, ⟨_, rfl, Or.inr (Or.inr (Or.inl (by decide)))⟩, ⟨_, rfl, Or.inr (Or.inl (by decide))⟩,
    ⟨_, rfl, Or.inl (by decide)⟩⟩

example : nextId 7 7 [7, 1, 2] = .ok 3 := by decide
example : nextId 7 5 [6, 7, 1] = .ok 2 := by decide
example : nextId 3 2 [1, 2, 3] = .panic := by decide
example : nextId maxId 0 [] = .ok 1 := C05_first _ (by decide)

/-! ### the hypothesis is needed: finding F13 in the small (ID space of size 2)

A request times out while it is still queued (the driver is busy), its scrub is handled first, two
further allocations wrap the 2-element ID space and hand ID 1 out again while the stale request still
waits: now two outstanding operations carry ID 1, and both requests go out under it.  On the real
connection this takes 2^31-1 allocations while one request stays queued. -/
open Conn in
def f13History : List Ev :=
  [.alloc .single, .enqueue 0 (some 1), .tick 1, .poll 0, .drvScrub, .alloc .single, .alloc .single]

open Conn in
example :
    let s := run (init 2) f13History
    s.ops.map (·.id) = [1, 2, 1] ∧ s.opQ = [0] ∧ s.ops.map (·.phase) = [.queued, .allocated, .allocated] := by decide

open Conn in
/-- so the freshness hypothesis fails on this history — it is exactly what `C05_unique` needs -/
theorem F13_freshness_fails_after_a_wrap : ¬ FreshRun2 (init 2) f13History := by
  intro hf
  have h0 : (run (init 2) f13History).ops[0]? = some { id := 1, kind := .single, deadline := some 1, res := some .timeout, phase := .queued } := by decide
  have h2 : (run (init 2) f13History).ops[2]? = some { id := 1, kind := .single } := by decide
  exact C05_unique 2 f13History hf 0 2 _ _ h0 h2 (Or.inr (Or.inl (by decide))) (Or.inl rfl) (by decide) rfl

open Conn in
/-- and both requests leave under the same ID -/
example :
    (run (init 2) (f13History ++ [.drvOp true, .enqueue 2 none, .drvOp true])).wire = [(1, .single), (1, .single)] := by
  decide

end Ldap3V

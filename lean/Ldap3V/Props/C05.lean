/-
C05 — in-flight operations never share a message ID; IDs stay within 1..2^31-1; wrap-around skips
IDs in use.  Part 1: the allocator (`Ldap::next_msgid`), parametric in the bound `N`.
Part 2, over the connection model and whole histories: `C05_unique` (in every reachable state the
operations the connection still knows about — between allocation and queueing, queued, or registered
in a routing map — carry pairwise different IDs), `C05_request_id_unique` (the ID a request leaves
with differs from that of every other such operation) and `C05_range` (every ID is within 1..N),
for ANY interleaving of any number of handles' calls with the driver and the server.  Hypothesis
`FreshRun2` (finding F13: needs a full wrap of the ID space while one call is stuck before the
driver), discharged for all histories with at most N allocations (`C05_unique_nowrap`) and, ACROSS any
number of wraps, for all histories of any length in which no ID of a call on its way to the driver is
released early (`C05_unique_across_wraps`, `C05_request_id_unique_across_wraps`,
`C05_next_id_skips_outstanding`; decidable check `noEarlyRelease`, purely syntactic sufficient
condition `calm` + driver alive).
-/
import Ldap3V.Lemmas.IdAlloc
import Ldap3V.Lemmas.ConnUniq
import Ldap3V.Lemmas.ConnWrap
import Ldap3V.Lemmas.ConnCalm
namespace Ldap3V

/-- The allocator returns the FIRST free ID in the cyclic order last+1, …, N, 1, …, last; it is
within 1..N and not in use; it panics only if every ID 1..N is in use; it never loops forever. -/
theorem C05_alloc_spec (N last : Nat) (inUse : List Nat) (hl : 1 ≤ last) (hN : last ≤ N) :
    (∀ id, nextId N last inUse = .ok id →
        1 ≤ id ∧ id ≤ N ∧ id ∉ inUse ∧
        ∃ before after, candidates N last = before ++ id :: after ∧ ∀ j ∈ before, j ∈ inUse) ∧
    (nextId N last inUse = .panic → ∀ j, 1 ≤ j → j ≤ N → j ∈ inUse) ∧
    nextId N last inUse ≠ .diverge := by
  rw [nextId_eq N last inUse hl hN]
  cases hf : firstFree inUse (candidates N last) with
  | none =>
    refine ⟨fun id h => by simp [outOf] at h, fun _ j h1 h2 => ?_, by simp [outOf]⟩
    have := List.find?_eq_none.mp hf j ((mem_candidates N last j hN).mpr ⟨h1, h2⟩)
    simpa using this
  | some a =>
    refine ⟨fun id h => ?_, fun h => by simp [outOf] at h, by simp [outOf]⟩
    simp only [outOf, AllocOut.ok.injEq] at h
    subst h
    obtain ⟨hp, as, bs, hsplit, hbefore⟩ := List.find?_eq_some_iff_append.mp hf
    have hmem : a ∈ candidates N last := by rw [hsplit]; simp
    have hr := (mem_candidates N last a hN).mp hmem
    refine ⟨hr.1, hr.2, by simpa using hp, as, bs, hsplit, fun j hj => ?_⟩
    have := hbefore j hj
    simpa using this

/-- the very first allocation on a connection -/
theorem C05_first (N : Nat) (hN : 1 ≤ N) : nextId N 0 [] = .ok 1 := nextId_fresh N hN

/-- the wrap-around case spelled out: at `last = N` the search continues from 1 and skips IDs in use -/
theorem C05_wrap (N : Nat) (inUse : List Nat) (hN : 1 ≤ N) :
    nextId N N inUse = outOf (firstFree inUse (List.range' 1 N)) := by
  rw [nextId_eq N N inUse hN (Nat.le_refl _)]
  simp [candidates]

/-- In the connection model an allocation is ONE atomic step (the real code holds the table's mutex
across the whole loop), whatever else is going on: the ID handed out is not reserved by anybody,
becomes reserved in the same step, and becomes the new counter position.  With `C05_alloc_spec` it
is the first free ID in cyclic order. -/
theorem C05_alloc_step (s : Conn.St) (kind : Conn.Kind) (id : Nat) (h : nextId s.N s.last s.inUse = .ok id) :
    ∃ s', Conn.step s (.alloc kind) = some (s', .id id) ∧ s'.last = id ∧ s'.inUse = id :: s.inUse ∧
      (∃ o : Conn.Op, s'.ops = s.ops ++ [o] ∧ o.id = id ∧ o.kind = kind ∧ o.phase = .allocated) := by
  simp only [Conn.step, h]
  exact ⟨_, rfl, rfl, rfl, _, rfl, rfl, rfl, rfl⟩

/-- an ID that is reserved is never handed out -/
theorem C05_never_reserved (N last : Nat) (inUse : List Nat) (id : Nat) (hl : 1 ≤ last) (hN : last ≤ N)
    (h : nextId N last inUse = .ok id) : id ∉ inUse :=
  ((C05_alloc_spec N last inUse hl hN).1 id h).2.2.1

open Conn in
/-- **C05, whole histories: outstanding operations never share a message ID.**  In every state
reachable from a fresh connection, two different operations that are outstanding (`Live`: the call
is between allocating the ID and queueing the request, the request is queued, or the driver holds a
routing entry for it) have different IDs. -/
theorem C05_unique (N : Nat) (evs : List Ev) (hf : FreshRun2 (init N) evs) (i j : Nat) (oi oj : Op)
    (hi : (run (init N) evs).ops[i]? = some oi) (hj : (run (init N) evs).ops[j]? = some oj)
    (li : Live (run (init N) evs) i oi) (lj : Live (run (init N) evs) j oj) (hne : i ≠ j) : oi.id ≠ oj.id :=
  fun e => hne ((Uniq.run N evs hf).uniq i j oi oj hi hj li lj e)

open Conn in
/-- the same without any hypothesis on the schedule, for every history that allocates at most `N`
(= 2^31-1) IDs -/
theorem C05_unique_nowrap (N : Nat) (evs : List Ev) (hcount : allocCount evs ≤ N) (i j : Nat) (oi oj : Op)
    (hi : (run (init N) evs).ops[i]? = some oi) (hj : (run (init N) evs).ops[j]? = some oj)
    (li : Live (run (init N) evs) i oi) (lj : Live (run (init N) evs) j oj) (hne : i ≠ j) : oi.id ≠ oj.id :=
  C05_unique N evs (freshRun2_init N evs hcount) i j oi oj hi hj li lj hne

open Conn in
/-- **the ID a request leaves the client with** (the driver writes request `i` — `(o.id, o.kind)` is
appended to the wire) differs from the ID of every other outstanding operation, and every routing
entry the driver holds at that moment is for a different ID -/
theorem C05_request_id_unique (N : Nat) (evs : List Ev) (hf : FreshRun2 (init N) evs) (i : Nat) (rest : List Nat) (o : Op)
    (hq : (run (init N) evs).opQ = i :: rest) (ho : (run (init N) evs).ops[i]? = some o) :
    (∀ (j : Nat) (oj : Op), (run (init N) evs).ops[j]? = some oj → Live (run (init N) evs) j oj → j ≠ i → oj.id ≠ o.id) ∧
    (∀ p ∈ (run (init N) evs).resultmap, p.1 ≠ o.id) ∧ (∀ p ∈ (run (init N) evs).searchmap, p.1 ≠ o.id) := by
  obtain ⟨hu, ha, _⟩ := Uniq.run' evs _ (Uniq.init N) (Acct.init N) (RouteInv.init N) hf
  refine ⟨fun j oj hoj lj hne e => hne (hu.uniq j i oj o hoj ho lj (Or.inr (Or.inl (by rw [hq]; simp))) e), ?_⟩
  exact hu.head_not_in_maps ha hq ho

open Conn in
/-- a routing entry is held only under an ID that is reserved -/
theorem C05_registered_ids_reserved (N : Nat) (evs : List Ev) (hf : FreshRun2 (init N) evs) :
    (∀ p ∈ (run (init N) evs).resultmap, p.1 ∈ (run (init N) evs).inUse) ∧
    (∀ p ∈ (run (init N) evs).searchmap, p.1 ∈ (run (init N) evs).inUse) :=
  (Uniq.run N evs hf).mapIn

open Conn in
/-- **every message ID is between 1 and N** (= 2^31-1), after any history -/
theorem C05_range (N : Nat) (hN : 1 ≤ N) (evs : List Ev) (i : Nat) (o : Op)
    (ho : (run (init N) evs).ops[i]? = some o) : 1 ≤ o.id ∧ o.id ≤ N := by
  have h0 : InRange (init N) := ⟨by simp [init], fun _ => rfl, fun x hx => by simp [init, ids] at hx⟩
  obtain ⟨⟨_, _, h3⟩, hn⟩ := inRange_run evs (init N) hN h0
  have : o.id ∈ ids (run (init N) evs).ops := by
    unfold ids; exact List.mem_map.mpr ⟨o, List.mem_of_getElem? ho, rfl⟩
  have := h3 _ this
  rw [hn] at this
  exact this

/-! ### across wraps: uniqueness for histories of ANY length

`noEarlyRelease (init N) evs` (Lemmas/ConnWrap.lean; decidable — it evaluates the model along the
history) says that no event of the history releases the ID of a call that is still on its way to the
driver, i.e. at every event:
  * `drvScrub`: the ID being scrubbed is not the ID of an operation the driver has not taken yet (excludes
    the time-out of a request still in the queue — F13 — and a scrub that is overtaken by a re-issue of its ID);
  * `drvOp` of an Abandon: its target is not the ID of an operation the driver has not taken yet;
  * `alloc`: the driver is running, or no other call sits between `next_msgid` and `tx.send` (when the
    driver ends it clears the whole ID table — fix F22 — under the feet of such calls).
Nothing is assumed about the NUMBER of allocations: the counter may wrap any number of times. -/

open Conn in
/-- the schedule hypotheses of finding F13 hold along every history without an early release -/
theorem C05_fresh_across_wraps (N : Nat) (evs : List Ev) (hsafe : noEarlyRelease (init N) evs = true) :
    FreshRun2 (init N) evs ∧ FreshRun (init N) evs :=
  ⟨freshRun2_wraps N evs hsafe, freshRun_wraps N evs hsafe⟩

open Conn in
/-- while the driver runs, the ID of every call that is on its way to the driver (between `next_msgid`
and `tx.send`, or in the op queue) is reserved in the ID table -/
theorem C05_pending_ids_reserved (N : Nat) (evs : List Ev) (hsafe : noEarlyRelease (init N) evs = true)
    (hrun : (run (init N) evs).drv = .running) (i : Nat) (o : Op) (ho : (run (init N) evs).ops[i]? = some o)
    (hp : o.phase = .allocated ∨ i ∈ (run (init N) evs).opQ) : o.id ∈ (run (init N) evs).inUse :=
  pendingReserved_run N evs hsafe hrun i o ho hp

open Conn in
/-- **C05 across wraps: outstanding operations never share a message ID**, for every size `N` of the ID
space and every history of ANY length (so with any number of wraps of the counter) without an early
release. -/
theorem C05_unique_across_wraps (N : Nat) (evs : List Ev) (hsafe : noEarlyRelease (init N) evs = true) (i j : Nat) (oi oj : Op)
    (hi : (run (init N) evs).ops[i]? = some oi) (hj : (run (init N) evs).ops[j]? = some oj)
    (li : Live (run (init N) evs) i oi) (lj : Live (run (init N) evs) j oj) (hne : i ≠ j) : oi.id ≠ oj.id :=
  C05_unique N evs (freshRun2_wraps N evs hsafe) i j oi oj hi hj li lj hne

open Conn in
/-- **C05 across wraps: the ID a request leaves the client with** differs from the ID of every other
outstanding operation and from every ID the driver holds a routing entry for — after any number of wraps. -/
theorem C05_request_id_unique_across_wraps (N : Nat) (evs : List Ev) (hsafe : noEarlyRelease (init N) evs = true)
    (i : Nat) (rest : List Nat) (o : Op)
    (hq : (run (init N) evs).opQ = i :: rest) (ho : (run (init N) evs).ops[i]? = some o) :
    (∀ (j : Nat) (oj : Op), (run (init N) evs).ops[j]? = some oj → Live (run (init N) evs) j oj → j ≠ i → oj.id ≠ o.id) ∧
    (∀ p ∈ (run (init N) evs).resultmap, p.1 ≠ o.id) ∧ (∀ p ∈ (run (init N) evs).searchmap, p.1 ≠ o.id) :=
  C05_request_id_unique N evs (freshRun2_wraps N evs hsafe) i rest o hq ho

open Conn in
/-- **the wrap skips every ID that is still in use**: whatever ID the allocator hands out next (after
any number of wraps) differs from the ID of every outstanding operation -/
theorem C05_next_id_skips_outstanding (N : Nat) (evs : List Ev) (hsafe : noEarlyRelease (init N) evs = true)
    (hrun : (run (init N) evs).drv = .running) (k : Nat)
    (hk : nextId (run (init N) evs).N (run (init N) evs).last (run (init N) evs).inUse = .ok k)
    (j : Nat) (oj : Op) (hj : (run (init N) evs).ops[j]? = some oj) (lj : Live (run (init N) evs) j oj) : oj.id ≠ k := by
  intro e
  have hnotin := nextId_notin hk
  have hu := Uniq.run N evs (freshRun2_wraps N evs hsafe)
  have hp := pendingReserved_run N evs hsafe hrun
  rcases lj with l | l | l | ⟨c, _, l⟩
  · exact hnotin (by rw [← e]; exact hp j oj hj (Or.inl l))
  · exact hnotin (by rw [← e]; exact hp j oj hj (Or.inr l))
  · exact hnotin (by rw [← e]; exact hu.mapIn.1 _ l)
  · exact hnotin (by rw [← e]; exact hu.mapIn.2 _ l)

/-! ### a purely syntactic class of histories without early release

`calm evs`: no event of the history is an `op_call` with a time-out (`enqueue _ (some _)`), an Abandon
(`alloc (abandon _)`), a stream `next()` with a time-out (`recv _ (some _)`) or a `finish()` of a stream
that is not Done (`finish _ true`) — so nothing is ever scrubbed — and the driver still runs at the end
(it never restarts, so it ran all along).  Any interleaving, any number of allocations and wraps. -/

open Conn in
theorem C05_calm_no_early_release (N : Nat) (evs : List Ev) (hc : calm evs = true)
    (hr : (run (init N) evs).drv = .running) : noEarlyRelease (init N) evs = true :=
  noEarlyRelease_calm N evs hc hr

open Conn in
theorem C05_unique_across_wraps_calm (N : Nat) (evs : List Ev) (hc : calm evs = true)
    (hr : (run (init N) evs).drv = .running) (i j : Nat) (oi oj : Op)
    (hi : (run (init N) evs).ops[i]? = some oi) (hj : (run (init N) evs).ops[j]? = some oj)
    (li : Live (run (init N) evs) i oi) (lj : Live (run (init N) evs) j oj) (hne : i ≠ j) : oi.id ≠ oj.id :=
  C05_unique_across_wraps N evs (noEarlyRelease_calm N evs hc hr) i j oi oj hi hj li lj hne

open Conn in
theorem C05_request_id_unique_across_wraps_calm (N : Nat) (evs : List Ev) (hc : calm evs = true)
    (hr : (run (init N) evs).drv = .running) (i : Nat) (rest : List Nat) (o : Op)
    (hq : (run (init N) evs).opQ = i :: rest) (ho : (run (init N) evs).ops[i]? = some o) :
    (∀ (j : Nat) (oj : Op), (run (init N) evs).ops[j]? = some oj → Live (run (init N) evs) j oj → j ≠ i → oj.id ≠ o.id) ∧
    (∀ p ∈ (run (init N) evs).resultmap, p.1 ≠ o.id) ∧ (∀ p ∈ (run (init N) evs).searchmap, p.1 ≠ o.id) :=
  C05_request_id_unique_across_wraps N evs (noEarlyRelease_calm N evs hc hr) i rest o hq ho

/-! ### non-vacuity (tests) -/
open Conn in
/-- a reachable state with three outstanding operations (one registered, one queued, one between
allocation and queueing): the hypotheses of `C05_unique_nowrap` are satisfiable -/
example :
    let evs : List Ev := [.alloc .single, .enqueue 0 none, .drvOp true, .alloc .search, .enqueue 1 none, .alloc .single]
    let s := run (init 100) evs
    allocCount evs ≤ 100 ∧
    (∃ o, s.ops[0]? = some o ∧ Live s 0 o) ∧ (∃ o, s.ops[1]? = some o ∧ Live s 1 o) ∧ (∃ o, s.ops[2]? = some o ∧ Live s 2 o) := by
  refine ⟨by decide, ⟨_, rfl, Or.inr (Or.inr (Or.inl (by decide)))⟩, ⟨_, rfl, Or.inr (Or.inl (by decide))⟩,
    ⟨_, rfl, Or.inl (by decide)⟩⟩

example : nextId 7 7 [7, 1, 2] = .ok 3 := by decide
example : nextId 7 5 [6, 7, 1] = .ok 2 := by decide
example : nextId 3 2 [1, 2, 3] = .panic := by decide
example : nextId maxId 0 [] = .ok 1 := C05_first _ (by decide)

/-! ### the hypothesis is needed: finding F13 in the small (ID space of size 2)

A request times out while it is still queued (the driver is busy), its scrub is handled first, two
further allocations wrap the 2-element ID space and hand ID 1 out again while the stale request still
waits: now two outstanding operations carry ID 1, and both requests go out under it.  On the real
connection this takes 2^31-1 allocations while one request stays queued. -/
open Conn in
def f13History : List Ev :=
  [.alloc .single, .enqueue 0 (some 1), .tick 1, .poll 0, .drvScrub, .alloc .single, .alloc .single]

open Conn in
example :
    let s := run (init 2) f13History
    s.ops.map (·.id) = [1, 2, 1] ∧ s.opQ = [0] ∧ s.ops.map (·.phase) = [.queued, .allocated, .allocated] := by decide

open Conn in
/-- so the freshness hypothesis fails on this history — it is exactly what `C05_unique` needs -/
theorem F13_freshness_fails_after_a_wrap : ¬ FreshRun2 (init 2) f13History := by
  intro hf
  have h0 : (run (init 2) f13History).ops[0]? = some { id := 1, kind := .single, deadline := some 1, res := some .timeout, phase := .queued } := by decide
  have h2 : (run (init 2) f13History).ops[2]? = some { id := 1, kind := .single } := by decide
  exact C05_unique 2 f13History hf 0 2 _ _ h0 h2 (Or.inr (Or.inl (by decide))) (Or.inl rfl) (by decide) rfl

open Conn in
/-- and both requests leave under the same ID -/
example :
    (run (init 2) (f13History ++ [.drvOp true, .enqueue 2 none, .drvOp true])).wire = [(1, .single), (1, .single)] := by
  decide

/-! ### non-vacuity of the `_across_wraps` theorems: ID space of size 3, 8 allocations, the counter
wraps three times while the search with ID 1 stays open -/
open Conn in
/-- one complete single-result operation: op index `i`, expected ID `id` -/
def roundTrip (i id : Nat) : List Ev :=
  [.alloc .single, .enqueue i none, .drvOp true, .srvSend { id := id, op := 1, tok := i, good := true }, .drvResp, .poll i]

open Conn in
def wrapHistory : List Ev :=
  -- a search is started and stays open (it even delivers an entry)
  [.alloc .search, .enqueue 0 none, .drvOp true, .poll 0,
   .srvSend { id := 1, op := 4, tok := 100, good := true }, .drvResp, .recv 0 none] ++
  roundTrip 1 2 ++
  -- an operation that times out AFTER the driver took it: its scrub is not an early release
  [.alloc .single, .enqueue 2 (some 1), .drvOp true, .tick 1, .poll 2, .drvScrub] ++
  roundTrip 3 2 ++      -- first wrap: 3 → (1 in use) → 2
  roundTrip 4 3 ++
  roundTrip 5 2 ++      -- second wrap
  roundTrip 6 3 ++
  -- third wrap; this call is still on its way to the driver at the end
  [.alloc .single, .enqueue 7 none]

set_option maxRecDepth 100000 in
open Conn in
example :
    let s := run (init 3) wrapHistory
    noEarlyRelease (init 3) wrapHistory = true ∧ allocCount wrapHistory = 8 ∧ 2 * 3 < allocCount wrapHistory ∧
    -- the IDs handed out, in order: each wrap skipped ID 1, which the open search still uses
    s.ops.map (·.id) = [1, 2, 3, 2, 3, 2, 3, 2] ∧
    s.searchmap = [(1, 0)] ∧ s.opQ = [7] ∧ s.drv = .running ∧ s.inUse = [2, 1] ∧
    s.wire.map (·.1) = [1, 2, 3, 2, 3, 2, 3] ∧
    -- two outstanding operations at the end (hypotheses of `C05_unique_across_wraps`)
    (∃ o, s.ops[0]? = some o ∧ Live s 0 o) ∧ (∃ o, s.ops[7]? = some o ∧ Live s 7 o) ∧
    -- and the next allocation would skip both of them
    nextId s.N s.last s.inUse = .ok 3 := by
  refine ⟨by decide, by decide, by decide, by decide, by decide, by decide, by decide, by decide, by decide,
    ⟨_, rfl, Or.inr (Or.inr (Or.inr ⟨0, by decide, by decide⟩))⟩, ⟨_, rfl, Or.inr (Or.inl (by decide))⟩, by decide⟩

open Conn in
/-- a calm history (hypotheses of the `_calm` theorems): 8 allocations over 3 IDs, three wraps, the
search with ID 1 open throughout, one request queued at the end -/
def calmWrapHistory : List Ev :=
  [.alloc .search, .enqueue 0 none, .drvOp true, .poll 0] ++
  roundTrip 1 2 ++ roundTrip 2 3 ++ roundTrip 3 2 ++ roundTrip 4 3 ++ roundTrip 5 2 ++ roundTrip 6 3 ++
  [.alloc .single, .enqueue 7 none]

set_option maxRecDepth 100000 in
open Conn in
example :
    let s := run (init 3) calmWrapHistory
    calm calmWrapHistory = true ∧ s.drv = .running ∧ 2 * 3 < allocCount calmWrapHistory ∧
    s.ops.map (·.id) = [1, 2, 3, 2, 3, 2, 3, 2] ∧ s.searchmap = [(1, 0)] ∧ s.opQ = [7] := by
  refine ⟨by decide, by decide, by decide, by decide, by decide, by decide⟩

open Conn in
/-- the F13 history is rejected by the check (at its `drvScrub`: the request is still queued) -/
example : noEarlyRelease (init 2) f13History = false := by decide

end Ldap3V

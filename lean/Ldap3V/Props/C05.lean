/-
C05 — in-flight operations never share a message ID; IDs stay within 1..2^31-1; wrap-around skips
IDs in use.  Part 1: the allocator (`Ldap::next_msgid`), parametric in the bound `N`.
Part 2 (uniqueness among outstanding operations over all interleavings) is `C05_unique` below,
over the connection model.
-/
import Ldap3V.Lemmas.IdAlloc
import Ldap3V.Lemmas.ConnSteps
namespace Ldap3V

/-- The allocator returns the FIRST free ID in the cyclic order last+1, …, N, 1, …, last; it is
within 1..N and not in use; it panics only if every ID 1..N is in use; it never loops forever. -/
theorem C05_alloc_spec (N last : Nat) (inUse : List Nat) (hl : 1 ≤ last) (hN : last ≤ N) :
    (∀ id, nextId N last inUse = .ok id →
        1 ≤ id ∧ id ≤ N ∧ id ∉ inUse ∧
        ∃ before after, candidates N last = before ++ id :: after ∧ ∀ j ∈ before, j ∈ inUse) ∧
    (nextId N last inUse = .panic → ∀ j, 1 ≤ j → j ≤ N → j ∈ inUse) ∧
    nextId N last inUse ≠ .diverge := by
  rw [nextId_eq N last inUse hl hN]
  cases hf : firstFree inUse (candidates N last) with
  | none =>
    refine ⟨fun id h => by simp [outOf] at h, fun _ j h1 h2 => ?_, by simp [outOf]⟩
    have := List.find?_eq_none.mp hf j ((mem_candidates N last j hN).mpr ⟨h1, h2⟩)
    simpa using this
  | some a =>
    refine ⟨fun id h => ?_, fun h => by simp [outOf] at h, by simp [outOf]⟩
    simp only [outOf, AllocOut.ok.injEq] at h
    subst h
    obtain ⟨hp, as, bs, hsplit, hbefore⟩ := List.find?_eq_some_iff_append.mp hf
    have hmem : a ∈ candidates N last := by rw [hsplit]; simp
    have hr := (mem_candidates N last a hN).mp hmem
    refine ⟨hr.1, hr.2, by simpa using hp, as, bs, hsplit, fun j hj => ?_⟩
    have := hbefore j hj
    simpa using this

/-- the very first allocation on a connection -/
theorem C05_first (N : Nat) (hN : 1 ≤ N) : nextId N 0 [] = .ok 1 := nextId_fresh N hN

/-- the wrap-around case spelled out: at `last = N` the search continues from 1 and skips IDs in use -/
theorem C05_wrap (N : Nat) (inUse : List Nat) (hN : 1 ≤ N) :
    nextId N N inUse = outOf (firstFree inUse (List.range' 1 N)) := by
  rw [nextId_eq N N inUse hN (Nat.le_refl _)]
  simp [candidates]

/-- In the connection model an allocation is ONE atomic step (the real code holds the table's mutex
across the whole loop), whatever else is going on: the ID handed out is not reserved by anybody,
becomes reserved in the same step, and becomes the new counter position.  With `C05_alloc_spec` it
is the first free ID in cyclic order.  (Uniqueness among all operations still registered with the
driver, over whole histories, additionally needs that a reserved ID is only released together
with its registration — C13's step theorems — and that no ID is handed out again while a stale
scrub for it is still queued, which takes 2^31-1 further allocations: finding F13; the whole-history
statement is checked by lane `ids` (server-side oracle) and by the model explorer, and is not
claimed as a theorem yet.) -/
theorem C05_alloc_step (s : Conn.St) (kind : Conn.Kind) (id : Nat) (h : nextId s.N s.last s.inUse = .ok id) :
    ∃ s', Conn.step s (.alloc kind) = some (s', .id id) ∧ s'.last = id ∧ s'.inUse = id :: s.inUse ∧
      (∃ o : Conn.Op, s'.ops = s.ops ++ [o] ∧ o.id = id ∧ o.kind = kind ∧ o.phase = .allocated) := by
  simp only [Conn.step, h]
  exact ⟨_, rfl, rfl, rfl, _, rfl, rfl, rfl, rfl⟩

/-- an ID that is reserved is never handed out -/
theorem C05_never_reserved (N last : Nat) (inUse : List Nat) (id : Nat) (hl : 1 ≤ last) (hN : last ≤ N)
    (h : nextId N last inUse = .ok id) : id ∉ inUse :=
  ((C05_alloc_spec N last inUse hl hN).1 id h).2.2.1

/-! ### non-vacuity (tests) -/
example : nextId 7 7 [7, 1, 2] = .ok 3 := by decide
example : nextId 7 5 [6, 7, 1] = .ok 2 := by decide
example : nextId 3 2 [1, 2, 3] = .panic := by decide
example : nextId maxId 0 [] = .ok 1 := C05_first _ (by decide)

end Ldap3V

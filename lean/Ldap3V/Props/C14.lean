/-
C14 — the synchronous façade is the asynchronous API.

"For every sequence of operations, LdapConn and EntryStream put the same bytes on the wire and return the
same results, errors and stream items as the corresponding Ldap and SearchStream calls against the same
server behaviour, including the effect of with_controls, with_timeout and with_search_options."

How it is decided.
  1. translate/sync_table.py reads /repo/src/sync.rs on EVERY run of ./check and regenerates
     `Gen.syncTable` (one row per `pub fn` of `impl LdapConn` / `impl EntryStream`: the method awaited inside
     `block_on`, its receiver, the argument expressions, what is returned, the field a modifier writes) and
     `Gen.asyncInfo` (from ldap.rs / search.rs / conn.rs: the public methods of `Ldap` and `SearchStream`, the
     bodies of `Ldap::with_*`, `Ldap::last_id`, `Ldap::is_closed`, the delegations of the `LdapConnAsync` constructors).
  2. `C14_table_faithful` (by `decide` over the REGENERATED tables): every row is the correspondence of
     Spec/Sync.lean.  This is the obligation that stops building when sync.rs is edited so that a method
     delegates elsewhere, swaps or drops arguments, blocks on another runtime, writes another field, drops the
     result — or is written in a shape the translator does not know (`Body.unclassified`).
  3. `C14_equiv`: for EVERY faithful table, EVERY script over its methods and EVERY behaviour of the async
     API + network + server (an opaque state machine: success, error codes, silence, disconnect are all
     instances), running the script through the table gives the transcript (results/errors/items and wire
     bytes per call) of running it on the async API.  Induction over the script.
  4. `C14_surface_covered`: which async methods have a sync counterpart, and which have none.
  5. lane `sync`: the real `LdapConn`/`EntryStream` and the real `Ldap`/`SearchStream` against the same
     scripted server over Unix socket pairs: identical wire transcripts and canonical results.

Trusted base of the proof part.
  * the translator: ~250 lines of Python, regular expressions over a very regular file; fails closed
    (unknown shape ⇒ `unclassified` row ⇒ `C14_table_faithful` does not build, and exit status 1);
    tied to the source a second time by the lane's own reading of sync.rs (`sync.row` lines).
  * `tokio::runtime::Runtime::block_on(fut)`: runs `fut` to completion on the connection's own
    current-thread runtime — the runtime on which `drive!(conn)` spawned the connection driver in
    `from_url_with_settings` — and returns its output.  `stepSync` reads `block_on(async move { x.m(args).await })`
    as "the async method m, completed"; the lane observes exactly this assumption on the real code.
  * Rust semantics of the one-expression methods `Ldap::with_*` (a field write), `Ldap::last_id`,
    `Ldap::is_closed` (a field read): calling them = evaluating their extracted bodies (`asyncMethod`).
  * `IntoAdapterVec::into` on a `Vec<Box<dyn Adapter>>` is the identity (adapters.rs) — `into_absorbed`.
  * an `EntryStream { stream, conn }` is identified with its `SearchStream` (`entryStreamOf`).
-/
import Ldap3V.Lemmas.Sync
import Ldap3V.Gen.SyncTable
namespace Ldap3V
open Ldap3V.Sync

/-- Every `pub fn` of sync.rs as it is NOW delegates to the async method of the same name
(`EntryStream::result ↦ SearchStream::finish`) on the right receiver, on the connection's own runtime, with its
parameters passed through in order, returning the result unchanged (the two stream openers: wrapped into an
`EntryStream`); every `with_*` writes exactly the field `Ldap::with_*` writes with the same `Some(arg)`;
`is_closed` is the inlined body of `Ldap::is_closed`; the constructors delegate as the `LdapConnAsync`
constructors do and `from_url_with_settings` opens with `LdapConnAsync::from_url_with_settings` on a
current-thread runtime and spawns the driver. -/
theorem C14_table_faithful : TableFaithful Gen.asyncInfo Gen.syncTable = true := by decide

/-- the same, spelled out for the rows that put bytes on the wire -/
theorem C14_delegation :
    ∀ r ∈ Gen.syncTable, ∀ rt recv callee args ret, r.body = .blockOn rt recv callee args ret →
      callee = expectedCallee r.owner r.name ∧ recv = expectedRecv r.owner r.name ∧
      args = expectedArgs r.owner r.name r.params.length ∧ ret = expectedRet r.owner r.name ∧
      rt = expectedRt r.owner ∧ Gen.asyncInfo.method recv callee = some true := by
  intro r hr rt recv callee args ret hb
  have h := rowOk_of_mem C14_table_faithful hr
  simp only [rowOk, hb, decide_eq_true_eq] at h
  exact ⟨h.2.2.2.1, h.2.2.1, h.2.2.2.2.1, h.2.2.2.2.2.1, h.2.1, h.2.2.2.2.2.2.1⟩

/-- the modifiers: `LdapConn::with_X` writes the field `Ldap::with_X` writes, with the same value -/
theorem C14_modifiers :
    ∀ s ∈ Gen.asyncInfo.setters, ∃ r ∈ Gen.syncTable, r.owner = "LdapConn" ∧ r.name = s.name ∧
      r.body = .assign s.field s.value ∧ s.field = expectedField s.name ∧ isSomeOfArg s.value = true := by
  decide

/-- SAME TRANSCRIPT.  For every faithful table `t`, every behaviour `b` of the async API (hence every server
behaviour), every start state and every script whose calls name methods of `t` with the right number of
arguments: the sync façade yields, call by call, the same result/error/stream item and the same bytes on the wire. -/
theorem C14_equiv {σ ρ : Type} (a : AsyncInfo) (b : AsyncBehaviour σ ρ) (script : List ApiCall) (t : List SyncEntry)
    (h : TableFaithful a t = true) (hcov : Covered t script = true) (s : σ) :
    runSync t a b s script = runAsync a b s script :=
  runSync_eq_runAsync h b script hcov s

/-- … in particular for sync.rs as it is now -/
theorem C14_equiv_current {σ ρ : Type} (b : AsyncBehaviour σ ρ) (script : List ApiCall)
    (hcov : Covered Gen.syncTable script = true) (s : σ) :
    runSync Gen.syncTable Gen.asyncInfo b s script = runAsync Gen.asyncInfo b s script :=
  C14_equiv Gen.asyncInfo b script Gen.syncTable C14_table_faithful hcov s

/-- The surface.  Every public method of `Ldap` (outside cfg gssapi/ntlm) has a sync counterpart and vice versa;
of `SearchStream`, `next` and `finish` have one (`EntryStream::next`, `EntryStream::result`), `EntryStream::last_id`
is `Ldap::last_id` on the stream's handle, and `streamOnlyAsync` lists the ones that have none; the constructors
are the same four; the same two methods are feature-gated on both sides. -/
theorem C14_surface_covered :
    sameSet (calleesOf Gen.syncTable "LdapConn" .ldap) (Gen.asyncInfo.ldapMethods.map (·.1)) = true ∧
    calleesOf Gen.syncTable "EntryStream" .stream = ["next", "finish"] ∧
    calleesOf Gen.syncTable "EntryStream" .streamLdap = ["last_id"] ∧
    calleesOf Gen.syncTable "EntryStream" .ldap = [] ∧ calleesOf Gen.syncTable "LdapConn" .stream = [] ∧
    sameSet (["next", "finish"] ++ streamOnlyAsync) (Gen.asyncInfo.streamMethods.map (·.1)) = true ∧
    sameSet (ctorNames Gen.syncTable) (Gen.asyncInfo.ctors.map (·.name)) = true ∧
    Gen.syncTable.all (fun r => r.owner = "LdapConn" ∨ r.owner = "EntryStream") = true ∧
    Gen.syncCfgSkipped = ["LdapConn::sasl_gssapi_bind", "LdapConn::sasl_ntlm_bind"] ∧
    Gen.asyncCfgSkipped = ["sasl_gssapi_bind", "sasl_ntlm_bind"] := by
  decide

/-! ## non-vacuity -/

namespace C14Demo
/-- a toy behaviour: the state is the log of what reached the async API; the result names the call;
one "message" per opaque call -/
def strip : Val → Val
  | .into v => strip v
  | v => v

def show1 (recv : Recv) (m : String) (args : List Val) : String :=
  s!"{repr recv}.{m}/{args.length}"

def toy : AsyncBehaviour (List (Recv × String × List Val)) String where
  call s recv m args := (s ++ [(recv, m, args.map strip)], m, [[(args.map strip).length.toUInt8]])
  setField s recv f v := s ++ [(recv, "set " ++ f, [v])]
  readExpr s recv e := (s, "read " ++ e, [])
  selfRef := "&mut self"
  stuck := "STUCK"
  entryStreamOf r := "EntryStream(" ++ r ++ ")"
  into_absorbed := by intro s v rest; simp [strip]

def script : List ApiCall :=
  [⟨"LdapConn", "new", [.atom "ldapi://x"]⟩,
   ⟨"LdapConn", "with_controls", [.atom "c"]⟩, ⟨"LdapConn", "with_timeout", [.atom "100ms"]⟩,
   ⟨"LdapConn", "modifydn", [.atom "dn", .atom "rdn", .atom "true", .atom "None"]⟩,
   ⟨"LdapConn", "streaming_search_with", [.atom "paged", .atom "b", .atom "s", .atom "f", .atom "a"]⟩,
   ⟨"EntryStream", "next", []⟩, ⟨"EntryStream", "last_id", []⟩, ⟨"EntryStream", "result", []⟩,
   ⟨"LdapConn", "is_closed", []⟩, ⟨"LdapConn", "delete", [.atom "dn"]⟩]

/-- the script is covered by the current table, so `C14_equiv_current` applies to it -/
example : Covered Gen.syncTable script = true := by decide

/-- … and the common transcript is not trivial: the constructor chain ends in the async constructor, the
modifiers put nothing on the wire, `result` is `finish`, `is_closed` reads `tx.is_closed()` -/
example : (runSync Gen.syncTable Gen.asyncInfo toy [] script).map (·.1) =
    ["LdapConnAsync::from_url_with_settings", "&mut self", "&mut self", "modifydn",
     "EntryStream(streaming_search_with)", "next", "read last_id", "finish", "read tx.is_closed()", "delete"] := by
  decide

/-- a table in which `delete` awaits `Ldap::add` is NOT faithful, and the transcripts do differ:
the hypothesis of `C14_equiv` is what carries the theorem -/
def badTable : List SyncEntry :=
  Gen.syncTable.map fun r =>
    if r.name = "delete" then { r with body := .blockOn "self.rt" .ldap "add" [.param 0] .unchanged } else r

example : TableFaithful Gen.asyncInfo badTable = false := by decide
example : runSync badTable Gen.asyncInfo toy [] script ≠ runAsync Gen.asyncInfo toy [] script := by decide

/-- swapped arguments, a modifier writing the wrong field, `result()` awaiting `next()`: not faithful either -/
example : TableFaithful Gen.asyncInfo (Gen.syncTable.map fun r =>
    if r.name = "modifydn" then { r with body := .blockOn "self.rt" .ldap "modifydn" [.param 1, .param 0, .param 2, .param 3] .unchanged } else r) = false := by decide
example : TableFaithful Gen.asyncInfo (Gen.syncTable.map fun r =>
    if r.name = "with_timeout" then { r with body := .assign "controls" (.some (.param 0)) } else r) = false := by decide
example : TableFaithful Gen.asyncInfo (Gen.syncTable.map fun r =>
    if r.name = "result" then { r with body := .blockOn "self.conn.rt" .stream "next" [] .unchanged } else r) = false := by decide
example : TableFaithful Gen.asyncInfo (Gen.syncTable ++ [⟨"LdapConn", "frob", [], .unclassified "?"⟩]) = false := by decide

end C14Demo
end Ldap3V

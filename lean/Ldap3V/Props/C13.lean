/-
C13 — completed operations leave nothing behind.
Model: Model/Conn.lean.  Proved here (for EVERY state, hence at every point of every history):
each way an operation can complete releases its message ID and its routing entry in the same
driver step — response delivered, SearchResultDone routed (fix F8), scrub after a timeout or an
early finish(), Abandon (fix F9: the abandoned ID too), and a request whose scrub overtook it is
never registered (fix F15); an operation that fails because the connection is gone gives its ID
back, and the table is cleared when the driver ends (fix F22).

Whole histories: `C13_quiescent` — in EVERY state reachable from the initial one by ANY sequence of
events (client calls of every kind, driver steps, server frames, closes, garbage, clock ticks, in
any interleaving) in which no operation is outstanding, the ID table and both routing maps are
empty.  It rests on the accounting invariant `Acct` (Lemmas/ConnAcct*.lean), which is proved to be
preserved by every event.  The single hypothesis is `FreshRun`: an ID handed out is not the ID of a
request that is at that moment still waiting in the driver's queue — which can only fail after a
full wrap of the 2^31-1 ID space while that request waits (finding F13, see DESIGN.md).
`C13_quiescent_nowrap` discharges it for every history with fewer allocations than there are IDs.
Streams: `C13_abandon_releases_stream` — abandoning a SEARCH also drops the last sender of its item channel,
so the stream ends (`EndOfStream` after the queued items); `C13_dropped_stream_is_collected` — a search whose
stream was dropped is removed, and its ID released, at the next frame routed to it.
-/
import Ldap3V.Lemmas.ConnNoWrap
import Ldap3V.Lemmas.ConnGaps
import Ldap3V.Props.C04
namespace Ldap3V.Conn

/-- the stream of a started search is over from its caller's point of view: it has been handed the
final result (so that result was routed), or it called `finish()`/`abandon` before the end (which
asks for a scrub), or one of its `next()` calls timed out (which asks for a scrub) -/
def StreamOver (ch : Chan) : Prop := (∃ f, Item.done f ∈ ch.items) ∨ ch.finScrub = true ∨ ch.timedOut = true

/-- no operation is outstanding, and the driver has caught up with what it was asked to do -/
structure Quiescent (s : St) : Prop where
  /-- every call has returned to its caller (with a result, an error or a timeout) -/
  returned : ∀ (i : Nat) (o : Op), s.ops[i]? = some o → o.res ≠ none
  /-- every search that was started has been read to the end, finished or has timed out -/
  streams : ∀ (c : Nat) (ch : Chan) (o : Op), s.chans[c]? = some ch → s.ops[ch.opIdx]? = some o → o.res = some .ack →
    StreamOver ch
  /-- a live driver has emptied its request and scrub queues -/
  caughtUp : s.drv = .running → s.opQ = [] ∧ s.scrubQ = []

/-- The state-level core: accounting invariant + quiescent ⇒ nothing is left, except that the ID of
an Unbind (after which the connection is closed by definition) is never given back. -/
theorem C13_quiescent_state (s : St) (h : Acct s) (q : Quiescent s) :
    s.resultmap = [] ∧ s.searchmap = [] ∧
    ∀ k ∈ s.inUse, ∃ (i : Nat) (o : Op), s.ops[i]? = some o ∧ o.id = k ∧ o.kind = .unbind := by
  have hq : s.opQ = [] := by
    by_cases hr : s.drv = .running
    · exact (q.caughtUp hr).1
    · exact (h.dead hr).2.2
  have hsq : s.drv = .running → s.scrubQ = [] := fun hr => (q.caughtUp hr).2
  have hrm : s.resultmap = [] := by
    by_cases hr : s.drv = .running
    · cases hm : s.resultmap with
      | nil => rfl
      | cons p rest =>
        exfalso
        obtain ⟨o, ho, _, _, _, hres⟩ := h.rmOk p (by rw [hm]; simp)
        rcases hres with r | ⟨_, r⟩
        · exact q.returned _ o ho r
        · rw [hsq hr] at r; cases r
    · exact (h.dead hr).1
  have hsm : s.searchmap = [] := by
    by_cases hr : s.drv = .running
    · cases hm : s.searchmap with
      | nil => rfl
      | cons p rest =>
        exfalso
        obtain ⟨ch, o, hc, ho, _, _, _, _, hnd, himp, hres⟩ := h.smOk p (by rw [hm]; simp)
        have hnot : ¬ (ch.finScrub = true ∨ ch.timedOut = true ∨ o.res = some .timeout) := by
          intro hh; have := himp hh; rw [hsq hr] at this; cases this
        have hack : o.res = some .ack := by
          rcases hres with r | r | r
          · exact absurd r (q.returned _ o ho)
          · exact r
          · exact absurd (Or.inr (Or.inr r)) hnot
        rcases q.streams p.2 ch o hc ho hack with ⟨f, hf⟩ | hf | hf
        · exact hnd f hf
        · exact hnot (Or.inl hf)
        · exact hnot (Or.inr (Or.inl hf))
    · exact (h.dead hr).2.1
  refine ⟨hrm, hsm, ?_⟩
  intro k hk
  obtain ⟨i, o, ho, hid, hreg⟩ := h.acct k hk
  rcases hreg with r | r | r | ⟨c, _, r⟩ | r
  · exfalso
    have := (h.fresh i o ho (by rw [r]; simp)).2
    rcases this with e | ⟨_, e⟩
    · exact q.returned i o ho e
    · rw [r] at e; cases e
  · rw [hq] at r; cases r
  · rw [hrm] at r; cases r
  · rw [hsm] at r; cases r
  · exact ⟨i, o, ho, hid, r.1⟩

/-- **C13, whole histories.**  After any history from a fresh connection, at any point where no
operation is outstanding, no message ID is reserved and the connection holds no routing state
(the connection not having been closed by an Unbind). -/
theorem C13_quiescent (N : Nat) (evs : List Ev) (hf : FreshRun (init N) evs)
    (q : Quiescent (run (init N) evs))
    (hnu : ∀ (i : Nat) (o : Op), (run (init N) evs).ops[i]? = some o → o.kind ≠ .unbind) :
    (run (init N) evs).inUse = [] ∧ (run (init N) evs).resultmap = [] ∧ (run (init N) evs).searchmap = [] := by
  obtain ⟨h1, h2, h3⟩ := C13_quiescent_state _ (Acct.run N evs hf) q
  refine ⟨?_, h1, h2⟩
  cases hm : (run (init N) evs).inUse with
  | nil => rfl
  | cons k rest =>
    exfalso
    obtain ⟨i, o, ho, _, hk⟩ := h3 k (by rw [hm]; simp)
    exact hnu i o ho hk

/-- a response routed to a single-result operation releases the ID and the routing entry -/
theorem C13_response_releases (s : St) (f : Frame) (i : Nat) (hr : s.drv = .running)
    (hf : s.srvLog[s.pos]? = some f) (h1 : lookup s.searchmap f.id = none) (h2 : lookup s.resultmap f.id = some i) :
    ∃ s', step s .drvResp = some (s', .none) ∧ lookup s'.resultmap f.id = none ∧
      s'.searchmap = s.searchmap ∧ ∀ k : Nat, (k : Int) = f.id → k ∉ s'.inUse := by
  have e : step s .drvResp = some (({ s with
      pos := s.pos + 1
      resultmap := erase s.resultmap f.id
      ops := modifyOp s.ops i (fun o => if o.mail = .empty then { o with mail := .frame f } else o)
      inUse := eraseId s.inUse f.id } : St), .none) := by
    simp [step, hr, hf, h1, h2]
  refine ⟨_, e, lookup_erase_self _ _, rfl, ?_⟩
  intro k hk hmem
  exact (mem_eraseId.mp hmem).2 hk

/-- the final result of a search releases the ID and the routing entry -/
theorem C13_done_releases (s : St) (c : Nat) (ch : Chan) (f : Frame) (hc : s.chans[c]? = some ch)
    (h5 : f.op = 5) (hg : f.good = true) :
    lookup (routeSearch s c f).searchmap f.id = none ∧ ∀ k : Nat, (k : Int) = f.id → k ∉ (routeSearch s c f).inUse := by
  have h4 : ¬ (f.op = 4 ∨ f.op = 25 ∨ f.op = 19) := by omega
  simp only [routeSearch, if_neg h4, if_pos h5, hg, hc]
  simp only [if_true, Bool.true_or]
  exact ⟨lookup_erase_self _ _, fun k hk hmem => (mem_eraseId.mp hmem).2 hk⟩

/-- a scrub (timeout, or finish() before the end) releases the ID and both routing entries, and a
caller still waiting on that operation is released with an error -/
theorem C13_scrub_releases (s : St) (k : Nat) (rest : List Nat) (hr : s.drv = .running) (hq : s.scrubQ = k :: rest) :
    ∃ s', step s .drvScrub = some (s', .none) ∧ k ∉ s'.inUse ∧ lookup s'.resultmap k = none ∧
      lookup s'.searchmap k = none ∧ s'.scrubQ = rest ∧
      (∀ i, lookup s.resultmap k = some i → ∀ o : Op, s'.ops[i]? = some o → o.mail ≠ .empty) := by
  have e : step s .drvScrub = some (({ s with
      scrubQ := rest
      ops := dropSenderOpt s.ops (lookup s.resultmap k)
      resultmap := erase s.resultmap k
      searchmap := erase s.searchmap k
      inUse := eraseId s.inUse k } : St), .none) := by
    simp [step, hr, hq]
  refine ⟨_, e, not_mem_eraseId _ _, lookup_erase_self _ _, lookup_erase_self _ _, rfl, ?_⟩
  intro i hi o ho
  simp only [hi, dropSenderOpt] at ho
  exact dropSender_mail _ _ _ ho

/-- Abandon: an AbandonRequest naming the given ID goes out; that ID and the Abandon's own ID are
released; routing state for the abandoned ID is gone; a caller still waiting on the abandoned
operation is released with an error (its reply slot is no longer empty: last clause). -/
theorem C13_abandon (s : St) (i : Nat) (rest : List Nat) (o : Op) (t : Nat) (hr : s.drv = .running)
    (hq : s.opQ = i :: rest) (ho : s.ops[i]? = some o) (hk : o.kind = .abandon (t : Int))
    (hin : s.inUse.contains o.id = true) (hsk : s.sinkClosed = false) :
    ∃ s', step s (.drvOp true) = some (s', .none) ∧
      s'.wire = s.wire ++ [(o.id, .abandon (t : Int))] ∧ t ∉ s'.inUse ∧ o.id ∉ s'.inUse ∧
      lookup s'.resultmap t = none ∧ lookup s'.searchmap t = none ∧
      (∀ j, lookup s.resultmap t = some j → j ≠ i → ∀ oj : Op, s'.ops[j]? = some oj → oj.mail ≠ .empty) := by
  have hne : (s.drv ≠ .running) = False := by simp [hr]
  simp only [step, hne, if_false, hq, ho, hk, hin, hsk, Bool.not_true, Bool.false_eq_true]
  refine ⟨_, rfl, by simp, not_mem_eraseId _ _, ?_, lookup_erase_self _ _, lookup_erase_self _ _, ?_⟩
  · intro hmem
    have := (mem_eraseId.mp hmem).1
    exact not_mem_eraseId _ _ this
  · -- the caller still waiting on the abandoned operation finds "sender dropped" in its reply slot
    intro j hj hji oj hoj
    simp only at hoj
    rw [modifyOp_get, if_neg hji, hj] at hoj
    simp only [dropSenderOpt] at hoj
    exact dropSender_mail _ _ _ hoj

/-- Abandon of a SEARCH releases the stream as well: when the driver handles `abandon t` and `t` is the
ID of a search registered with channel `c`, the sender clone the driver held for `c` is dropped and no
other sender exists (`chanOpen s' c = false`: no entry of the search map points at `c` any more, and the
original sender is not travelling in the op queue) — so, by `C04_closed_channel_ends`, the stream's
`next()` returns the items already queued and then `EndOfStream`, never "pending".
`Acct`/`RouteInv` hold in every reachable state (`C13_abandon_releases_stream_nowrap`). -/
theorem C13_abandon_releases_stream (s : St) (ha : Acct s) (hri : RouteInv s) (i : Nat) (rest : List Nat) (o : Op) (t c : Nat)
    (hr : s.drv = .running) (hq : s.opQ = i :: rest) (ho : s.ops[i]? = some o) (hk : o.kind = .abandon (t : Int))
    (hin : s.inUse.contains o.id = true) (hmem : (t, c) ∈ s.searchmap) (hsk : s.sinkClosed = false) :
    ∃ s', step s (.drvOp true) = some (s', .none) ∧ chanOpen s' c = false ∧ s'.chans = s.chans ∧
      ∀ (ch : Chan) (dl : Option Nat), s.chans[c]? = some ch →
        (s.ops[ch.opIdx]?.bind (·.res)) = some .ack →      -- the stream exists: `start()` returned Ok
        ch.rxAlive = true →
        (∀ it, ch.items[ch.taken]? = some it →
          step s' (.recv c dl) = some ({ s' with chans := s'.chans.set c { ch with taken := ch.taken + 1 } }, .item (some it))) ∧
        (ch.items[ch.taken]? = none → step s' (.recv c dl) = some (s', .closed)) := by
  obtain ⟨s', hs, hclosed, hc, hres, _⟩ := drvOp_abandon_closes s ha hri i rest o t c hr hq ho hk hin hmem hsk
  refine ⟨s', hs, hclosed, hc, fun ch dl hch hack hrx => ?_⟩
  exact C04_closed_channel_ends s' c ch dl (by rw [hc]; exact hch) (resKeep_bind hres _ _ hack) hrx hclosed

/-- the same at the end of ANY history with at most `N` (= 2^31-1) allocations: no hypothesis on the state -/
theorem C13_abandon_releases_stream_nowrap (N : Nat) (evs : List Ev) (hcount : allocCount evs ≤ N)
    (i : Nat) (rest : List Nat) (o : Op) (t c : Nat)
    (hr : (run (init N) evs).drv = .running) (hq : (run (init N) evs).opQ = i :: rest)
    (ho : (run (init N) evs).ops[i]? = some o) (hk : o.kind = .abandon (t : Int))
    (hin : (run (init N) evs).inUse.contains o.id = true) (hmem : (t, c) ∈ (run (init N) evs).searchmap)
    (hsk : (run (init N) evs).sinkClosed = false) :
    ∃ s', step (run (init N) evs) (.drvOp true) = some (s', .none) ∧ chanOpen s' c = false ∧
      s'.chans = (run (init N) evs).chans ∧
      ∀ (ch : Chan) (dl : Option Nat), (run (init N) evs).chans[c]? = some ch →
        ((run (init N) evs).ops[ch.opIdx]?.bind (·.res)) = some .ack → ch.rxAlive = true →
        (∀ it, ch.items[ch.taken]? = some it →
          step s' (.recv c dl) = some ({ s' with chans := s'.chans.set c { ch with taken := ch.taken + 1 } }, .item (some it))) ∧
        (ch.items[ch.taken]? = none → step s' (.recv c dl) = some (s', .closed)) :=
  C13_abandon_releases_stream _ (Acct.run N evs (freshRun_init N evs hcount)) (RouteInv.run N evs) i rest o t c hr hq ho hk hin hmem hsk

/-- … read to the end: after the Abandon of a search has been handled, the `k`-th following `next()` of its
stream returns the `k`-th item that was still queued, in order, and the one after the last returns
`EndOfStream` (`closed`) — the stream never pends again. -/
theorem C13_abandoned_stream_drains (s : St) (ha : Acct s) (hri : RouteInv s) (i : Nat) (rest : List Nat) (o : Op) (t c : Nat)
    (hr : s.drv = .running) (hq : s.opQ = i :: rest) (ho : s.ops[i]? = some o) (hk : o.kind = .abandon (t : Int))
    (hin : s.inUse.contains o.id = true) (hmem : (t, c) ∈ s.searchmap) (hsk : s.sinkClosed = false)
    (ch : Chan) (dl : Option Nat) (hc : s.chans[c]? = some ch) (hack : (s.ops[ch.opIdx]?.bind (·.res)) = some .ack)
    (hrx : ch.rxAlive = true) :
    ∃ s', step s (.drvOp true) = some (s', .none) ∧
      (∀ (k : Nat) (it : Item), ch.items[ch.taken + k]? = some it →
        ∃ s'', step (run s' (List.replicate k (.recv c dl))) (.recv c dl) = some (s'', .item (some it))) ∧
      step (run s' (List.replicate (ch.items.length - ch.taken) (.recv c dl))) (.recv c dl) =
        some (run s' (List.replicate (ch.items.length - ch.taken) (.recv c dl)), .closed) := by
  obtain ⟨s', hs, hclosed, hcs, hres, _⟩ := drvOp_abandon_closes s ha hri i rest o t c hr hq ho hk hin hmem hsk
  exact ⟨s', hs, closed_channel_drains s' c ch dl (by rw [hcs]; exact hc) (resKeep_bind hres _ _ hack) hrx hclosed⟩

/-- A stream dropped without `finish()` is collected at the next frame routed to it: when a search
item (protocolOp 4, 19, 25) or a well-formed SearchResultDone arrives under the ID of a search whose
receiver is gone (`rxAlive = false`: `tx.send` fails in the driver), the driver removes the search
from the search map and releases its ID (fix F8); nothing is pushed into the dead channel, the
result map, the operations and the driver's state are untouched, and every OTHER search entry and
reserved ID stays. -/
theorem C13_dropped_stream_is_collected (s : St) (f : Frame) (c : Nat) (ch : Chan) (hr : s.drv = .running)
    (hf : s.srvLog[s.pos]? = some f) (hl : lookup s.searchmap f.id = some c) (hc : s.chans[c]? = some ch)
    (hdead : ch.rxAlive = false) (hop : f.op = 4 ∨ f.op = 25 ∨ f.op = 19 ∨ (f.op = 5 ∧ f.good = true)) :
    ∃ s', step s .drvResp = some (s', .none) ∧ lookup s'.searchmap f.id = none ∧
      (∀ k : Nat, (k : Int) = f.id → k ∉ s'.inUse) ∧
      (∀ p, p ∈ s'.searchmap ↔ p ∈ s.searchmap ∧ (p.1 : Int) ≠ f.id) ∧ (∀ j, j ∈ s'.inUse ↔ j ∈ s.inUse ∧ (j : Int) ≠ f.id) ∧
      s'.chans = s.chans ∧ s'.resultmap = s.resultmap ∧ s'.ops = s.ops ∧ s'.opQ = s.opQ ∧ s'.drv = .running ∧
      s'.pos = s.pos + 1 := by
  refine ⟨_, drvResp_dead_rx s f c ch hr hf hl hc hdead hop, lookup_erase_self _ _,
    fun k hk hmem => (mem_eraseId.mp hmem).2 hk, fun p => ⟨mem_erase, fun h => mem_erase_of h.1 h.2⟩,
    fun j => mem_eraseId, rfl, rfl, rfl, rfl, hr, rfl⟩

/-- … and in every reachable state (histories with at most `N` = 2^31-1 allocations) that was the last
sender of the channel: after the step no sender for channel `c` is left anywhere -/
theorem C13_dropped_stream_is_collected_nowrap (N : Nat) (evs : List Ev) (hcount : allocCount evs ≤ N)
    (f : Frame) (c : Nat) (ch : Chan) (hr : (run (init N) evs).drv = .running)
    (hf : (run (init N) evs).srvLog[(run (init N) evs).pos]? = some f)
    (hl : lookup (run (init N) evs).searchmap f.id = some c) (hc : (run (init N) evs).chans[c]? = some ch)
    (hdead : ch.rxAlive = false) (hop : f.op = 4 ∨ f.op = 25 ∨ f.op = 19 ∨ (f.op = 5 ∧ f.good = true)) :
    ∃ s', step (run (init N) evs) .drvResp = some (s', .none) ∧ lookup s'.searchmap f.id = none ∧
      (∀ k : Nat, (k : Int) = f.id → k ∉ s'.inUse) ∧ chanOpen s' c = false := by
  obtain ⟨s', hs, h1, h2, _⟩ := C13_dropped_stream_is_collected _ f c ch hr hf hl hc hdead hop
  refine ⟨s', hs, h1, h2, ?_⟩
  obtain ⟨n, hmem, hn⟩ := lookup_some hl
  have e := drvResp_dead_rx _ f c ch hr hf hl hc hdead hop
  rw [hs] at e
  simp only [Option.some.injEq, Prod.mk.injEq] at e
  have ha := Acct.run N evs (freshRun_init N evs hcount)
  refine chanOpen_erase_false ha (RouteInv.run N evs) hmem ?_ ?_ ?_
  · rw [e.1, hn]
  · rw [e.1]; exact fun j hj => hj
  · rw [e.1]; exact Tame.refl _

/-- a request whose ID was released while it waited in the queue is discarded: nothing is sent,
nothing is registered (fix F15) -/
theorem C13_scrubbed_request_not_registered (s : St) (i : Nat) (rest : List Nat) (o : Op) (b : Bool)
    (hr : s.drv = .running) (hq : s.opQ = i :: rest) (ho : s.ops[i]? = some o) (hin : s.inUse.contains o.id = false) :
    ∃ s', step s (.drvOp b) = some (s', .skipped) ∧ s'.wire = s.wire ∧ s'.resultmap = s.resultmap ∧
      s'.searchmap = s.searchmap ∧ s'.inUse = s.inUse := by
  have hne : (s.drv ≠ .running) = False := by simp [hr]
  simp only [step, hne, if_false, hq, ho, hin, Bool.not_false, if_true]
  exact ⟨_, rfl, rfl, rfl, rfl, rfl⟩

/-- **C13 for every history that does not exhaust the ID space** (at most `N` = 2^31-1 operations
on the connection): no hypothesis on the schedule at all. -/
theorem C13_quiescent_nowrap (N : Nat) (evs : List Ev) (hcount : allocCount evs ≤ N)
    (q : Quiescent (run (init N) evs))
    (hnu : ∀ (i : Nat) (o : Op), (run (init N) evs).ops[i]? = some o → o.kind ≠ .unbind) :
    (run (init N) evs).inUse = [] ∧ (run (init N) evs).resultmap = [] ∧ (run (init N) evs).searchmap = [] :=
  C13_quiescent N evs (freshRun_init N evs hcount) q hnu

/-- on a connection whose driver has ended nothing is held either, outstanding operations or not,
beyond the IDs of calls that are at this moment between allocation and queueing (fix F22) -/
theorem C13_dead_holds_nothing (N : Nat) (evs : List Ev) (hf : FreshRun (init N) evs)
    (hd : (run (init N) evs).drv ≠ .running) :
    (run (init N) evs).resultmap = [] ∧ (run (init N) evs).searchmap = [] ∧
    ∀ k ∈ (run (init N) evs).inUse, ∃ (i : Nat) (o : Op), (run (init N) evs).ops[i]? = some o ∧ o.id = k ∧
      (o.phase = .allocated ∨ o.kind = .unbind) := by
  have h := Acct.run N evs hf
  obtain ⟨h1, h2, h3⟩ := h.dead hd
  refine ⟨h1, h2, ?_⟩
  intro k hk
  obtain ⟨i, o, ho, hid, hreg⟩ := h.acct k hk
  refine ⟨i, o, ho, hid, ?_⟩
  rcases hreg with r | r | r | ⟨c, _, r⟩ | r
  · exact Or.inl r
  · rw [h3] at r; cases r
  · rw [h1] at r; cases r
  · rw [h2] at r; cases r
  · exact Or.inr r.1

/-! ### non-vacuity (tests): a mixed history that ends quiescent with everything released -/
example :
    let s := run (init 100) [.alloc .single, .enqueue 0 none, .alloc .search, .enqueue 1 none, .alloc .single,
      .enqueue 2 (some 5), .drvOp true, .drvOp true, .drvOp true, .srvSend ⟨1, 11, 7, true⟩, .drvResp,
      .srvSend ⟨2, 4, 8, false⟩, .srvSend ⟨2, 5, 9, true⟩, .drvResp, .drvResp, .tick 5, .poll 2, .drvScrub,
      .alloc (.abandon 9), .enqueue 3 none, .drvOp true]
    s.inUse = [] ∧ s.resultmap = [] ∧ s.searchmap = [] := by
  decide

/-- the hypotheses of `C13_quiescent_nowrap` are met by a mixed history (a response, a search read
to the end and finished, a timeout with its scrub, an abandon, an unsolicited frame) -/
def sampleHistory : List Ev :=
  [.alloc .single, .enqueue 0 none, .alloc .search, .enqueue 1 none, .alloc .single,
   .enqueue 2 (some 5), .drvOp true, .drvOp true, .drvOp true, .srvSend ⟨1, 11, 7, true⟩, .drvResp, .poll 0,
   .srvSend ⟨2, 4, 8, false⟩, .srvSend ⟨2, 5, 9, true⟩, .srvSend ⟨77, 11, 10, true⟩, .drvResp, .drvResp, .drvResp,
   .poll 1, .recv 0 none, .recv 0 none, .finish 0 false, .tick 5, .poll 2, .drvScrub,
   .alloc (.abandon 9), .enqueue 3 none, .drvOp true, .poll 3]

example : allocCount sampleHistory ≤ 100 := by decide

/-- a decidable form of `Quiescent`, to exhibit states that meet it -/
def quiescentB (s : St) : Bool :=
  s.ops.all (fun o => o.res.isSome) &&
  (s.chans.all fun ch => match s.ops[ch.opIdx]? with
    | some o => o.res != some .ack || (ch.items.any (fun it => match it with | .done _ => true | _ => false) || ch.finScrub || ch.timedOut)
    | none => true) &&
  (s.drv != .running || (s.opQ.isEmpty && s.scrubQ.isEmpty))

theorem quiescent_of_B (s : St) (h : quiescentB s = true) : Quiescent s := by
  simp only [quiescentB, Bool.and_eq_true, List.all_eq_true] at h
  obtain ⟨⟨h1, h2⟩, h3⟩ := h
  refine ⟨?_, ?_, ?_⟩
  · intro i o ho hn
    have := h1 o (List.mem_of_getElem? ho)
    rw [hn] at this; cases this
  · intro c ch o hc ho hack
    have := h2 ch (List.mem_of_getElem? hc)
    rw [ho] at this
    simp only [hack, bne_self_eq_false, Bool.false_or, Bool.or_eq_true, List.any_eq_true] at this
    rcases this with (⟨it, hit, hd⟩ | hf) | ht
    · cases it with
      | entry f => cases hd
      | done f => exact Or.inl ⟨f, hit⟩
    · exact Or.inr (Or.inl hf)
    · exact Or.inr (Or.inr ht)
  · intro hr
    simp only [hr, bne_self_eq_false, Bool.false_or, Bool.and_eq_true, List.isEmpty_iff] at h3
    exact h3

example : Quiescent (run (init 100) sampleHistory) := quiescent_of_B _ (by decide)

example : ∀ (i : Nat) (o : Op), (run (init 100) sampleHistory).ops[i]? = some o → o.kind ≠ .unbind := by
  intro i o ho
  have : o ∈ (run (init 100) sampleHistory).ops := List.mem_of_getElem? ho
  have hall : ((run (init 100) sampleHistory).ops.all fun o => o.kind != .unbind) = true := by decide
  have := List.all_eq_true.mp hall o this
  simpa using this

example : (run (init 100) sampleHistory).ops.map (·.res) =
    [some (.frame ⟨1, 11, 7, true⟩), some .ack, some .timeout, some .ack] := by decide

/-- `C13_abandon_releases_stream(_nowrap)`, `C13_abandoned_stream_drains`: a started search with one entry queued, then an Abandon naming it is
queued; the hypotheses hold, and after the driver's step the stream reads its entry and then `closed` -/
def abandonSearchHistory : List Ev :=
  [.alloc .search, .enqueue 0 none, .drvOp true, .poll 0, .srvSend ⟨1, 4, 8, false⟩, .drvResp,
   .alloc (.abandon 1), .enqueue 1 none]

example :
    let s := run (init 100) abandonSearchHistory
    allocCount abandonSearchHistory ≤ 100 ∧ s.drv = .running ∧ s.opQ = [1] ∧ (s.ops[1]?.map (·.kind)) = some (.abandon ((1 : Nat) : Int)) ∧
    (s.ops[1]?.map fun o => s.inUse.contains o.id) = some true ∧ (1, 0) ∈ s.searchmap ∧
    (s.chans[0]?.map fun ch => (ch.rxAlive, ch.items.length, ch.taken, s.ops[ch.opIdx]?.bind (·.res))) = some (true, 1, 0, some .ack) ∧
    chanOpen s 0 = true := by decide

example :
    let s1 := run (init 100) (abandonSearchHistory ++ [.drvOp true])
    chanOpen s1 0 = false ∧ s1.inUse = [] ∧ s1.searchmap = [] ∧
    (step s1 (.recv 0 none)).map (·.2) = some (.item (some (.entry ⟨1, 4, 8, false⟩))) ∧
    (step (run s1 [.recv 0 none]) (.recv 0 none)).map (·.2) = some .closed := by decide

/-- `C13_dropped_stream_is_collected`: a search is started (a second call is outstanding beside it), its
stream's receiver goes away without a scrub; the next entry under the search's ID meets a dead receiver -/
def droppedStreamHistory : List Ev :=
  [.alloc .search, .enqueue 0 none, .alloc .single, .enqueue 1 none, .drvOp true, .drvOp true, .poll 0,
   .finish 0 false, .srvSend ⟨1, 4, 8, false⟩]

example :
    let s := run (init 100) droppedStreamHistory
    allocCount droppedStreamHistory ≤ 100 ∧ s.drv = .running ∧ s.srvLog[s.pos]? = some ⟨1, 4, 8, false⟩ ∧
    lookup s.searchmap (1 : Int) = some 0 ∧ (s.chans[0]?.map (·.rxAlive)) = some false ∧ s.inUse = [2, 1] ∧
    s.searchmap = [(1, 0)] ∧ chanOpen s 0 = true := by decide

example :
    let s1 := run (init 100) (droppedStreamHistory ++ [.drvResp])
    s1.searchmap = [] ∧ s1.inUse = [2] ∧ s1.resultmap = [(2, 1)] ∧ s1.chans.map (·.items) = [[]] ∧ chanOpen s1 0 = false ∧
    s1.drv = .running := by decide

/-! ### the caller does not matter

Whether the caller of a single-result operation ever looks at its result — polls its future once more, times
out, or is gone (the future dropped by an outer `timeout`, a `select!` arm, a task abort) — plays no part in the
release: nothing below mentions `o.res` or a `poll` event.  (Seeded change C13d released the ID only when the
reply could be handed to a caller that was still there; lane `leaks`: `cancelled-caller-leaves-nothing-behind`.) -/

/-- After ANY history: a single-result operation (or an Abandon) whose reply slot is no longer empty — the
driver has answered it, or has dropped it with the connection — is registered nowhere: not waiting to be queued,
not in the request queue, in neither routing map.  If the ID table holds its number at all, then for ANOTHER
operation that is registered (the number was handed out again); the answered operation itself holds nothing. -/
theorem C13_answered_operation_holds_nothing (N : Nat) (evs : List Ev) (hf : FreshRun (init N) evs)
    (i : Nat) (o : Op) (ho : (run (init N) evs).ops[i]? = some o)
    (hk : o.kind ≠ .search ∧ o.kind ≠ .unbind) (hm : o.mail ≠ .empty) :
    ¬ Reg (run (init N) evs) i o ∧ (o.id, i) ∉ (run (init N) evs).resultmap ∧
    ∀ k ∈ (run (init N) evs).inUse, k = o.id →
      ∃ (j : Nat) (o' : Op), j ≠ i ∧ (run (init N) evs).ops[j]? = some o' ∧ o'.id = k ∧ Reg (run (init N) evs) j o' := by
  have A := Acct.run N evs hf
  have hnr : ¬ Reg (run (init N) evs) i o := by
    intro hr
    rcases hr with h | h | h | ⟨c, hc, _⟩ | ⟨hu, _⟩
    · exact hm (A.fresh i o ho (by rw [h]; intro e; cases e)).1
    · obtain ⟨o', ho', hq⟩ := A.qPhase i h
      rw [ho] at ho'
      cases ho'
      exact hm (A.fresh i o ho (by rw [hq]; intro e; cases e)).1
    · obtain ⟨o', ho', _, _, hme, _⟩ := A.rmOk _ h
      rw [ho] at ho'
      cases ho'
      exact hm hme
    · have := (A.kindChan i o ho).mpr (by rw [hc]; intro e; cases e)
      exact hk.1 this
    · exact hk.2 hu
  refine ⟨hnr, fun h => hnr (Or.inr (Or.inr (Or.inl h))), ?_⟩
  intro k hkm hke
  obtain ⟨j, o', ho', hid, hreg⟩ := A.acct k hkm
  refine ⟨j, o', ?_, ho', hid, hreg⟩
  intro e
  subst e
  rw [ho] at ho'
  cases ho'
  exact hnr hreg

/-- a history meeting the hypotheses: a delete is sent and answered, its caller never polls (ops[0] has its reply
in the slot, `res = none`); the table is empty -/
example :
    let s := run (init 100) [.alloc .single, .enqueue 0 none, .drvOp true, .srvSend ⟨1, 11, 7, true⟩, .drvResp]
    s.ops.map (fun o => (o.mail, o.res)) = [(.frame ⟨1, 11, 7, true⟩, none)] ∧ s.inUse = [] ∧ s.resultmap = [] := by
  decide

end Ldap3V.Conn

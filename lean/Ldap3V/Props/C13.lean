/-
C13 — completed operations leave nothing behind.
Model: Model/Conn.lean.  Proved here (for EVERY state, hence at every point of every history):
each way an operation can complete releases its message ID and its routing entry in the same
driver step — response delivered, SearchResultDone routed (fix F8), scrub after a timeout or an
early finish(), Abandon (fix F9: the abandoned ID too), and a request whose scrub overtook it is
never registered (fix F15).  The whole-history statement `C13_quiescent` (quiescent ⇒ table and
both maps empty) is checked on every run by lane `leaks` against the real ID table and map gauges
and, on the model, by the random-walk explorer; its proof by invariant is work in progress and is
NOT claimed here.
-/
import Ldap3V.Lemmas.ConnSteps
namespace Ldap3V.Conn

/-- a response routed to a single-result operation releases the ID and the routing entry -/
theorem C13_response_releases (s : St) (f : Frame) (i : Nat) (hr : s.drv = .running)
    (hf : s.srvLog[s.pos]? = some f) (h1 : lookup s.searchmap f.id = none) (h2 : lookup s.resultmap f.id = some i) :
    ∃ s', step s .drvResp = some (s', .none) ∧ lookup s'.resultmap f.id = none ∧
      s'.searchmap = s.searchmap ∧ ∀ k : Nat, (k : Int) = f.id → k ∉ s'.inUse := by
  have e : step s .drvResp = some (({ s with
      pos := s.pos + 1
      resultmap := erase s.resultmap f.id
      ops := modifyOp s.ops i (fun o => if o.mail = .empty then { o with mail := .frame f } else o)
      inUse := eraseId s.inUse f.id } : St), .none) := by
    simp [step, hr, hf, h1, h2]
  refine ⟨_, e, lookup_erase_self _ _, rfl, ?_⟩
  intro k hk hmem
  exact (mem_eraseId.mp hmem).2 hk

/-- the final result of a search releases the ID and the routing entry -/
theorem C13_done_releases (s : St) (c : Nat) (ch : Chan) (f : Frame) (hc : s.chans[c]? = some ch)
    (h5 : f.op = 5) (hg : f.good = true) :
    lookup (routeSearch s c f).searchmap f.id = none ∧ ∀ k : Nat, (k : Int) = f.id → k ∉ (routeSearch s c f).inUse := by
  have h4 : ¬ (f.op = 4 ∨ f.op = 25 ∨ f.op = 19) := by omega
  simp only [routeSearch, if_neg h4, if_pos h5, hg, hc]
  simp only [if_true, Bool.true_or]
  exact ⟨lookup_erase_self _ _, fun k hk hmem => (mem_eraseId.mp hmem).2 hk⟩

/-- a scrub (timeout, or finish() before the end) releases the ID and both routing entries, and a
caller still waiting on that operation is released with an error -/
theorem C13_scrub_releases (s : St) (k : Nat) (rest : List Nat) (hr : s.drv = .running) (hq : s.scrubQ = k :: rest) :
    ∃ s', step s .drvScrub = some (s', .none) ∧ k ∉ s'.inUse ∧ lookup s'.resultmap k = none ∧
      lookup s'.searchmap k = none ∧ s'.scrubQ = rest ∧
      (∀ i, lookup s.resultmap k = some i → ∀ o : Op, s'.ops[i]? = some o → o.mail ≠ .empty) := by
  have e : step s .drvScrub = some (({ s with
      scrubQ := rest
      ops := dropSenderOpt s.ops (lookup s.resultmap k)
      resultmap := erase s.resultmap k
      searchmap := erase s.searchmap k
      inUse := eraseId s.inUse k } : St), .none) := by
    simp [step, hr, hq]
  refine ⟨_, e, not_mem_eraseId _ _, lookup_erase_self _ _, lookup_erase_self _ _, rfl, ?_⟩
  intro i hi o ho
  simp only [hi, dropSenderOpt] at ho
  exact dropSender_mail _ _ _ ho

/-- Abandon: an AbandonRequest naming the given ID goes out; that ID and the Abandon's own ID are
released; routing state for the abandoned ID is gone; a caller still waiting on the abandoned
operation is released with an error. -/
theorem C13_abandon (s : St) (i : Nat) (rest : List Nat) (o : Op) (t : Nat) (hr : s.drv = .running)
    (hq : s.opQ = i :: rest) (ho : s.ops[i]? = some o) (hk : o.kind = .abandon (t : Int))
    (hin : s.inUse.contains o.id = true) :
    ∃ s', step s (.drvOp true) = some (s', .none) ∧
      s'.wire = s.wire ++ [(o.id, .abandon (t : Int))] ∧ t ∉ s'.inUse ∧ o.id ∉ s'.inUse ∧
      lookup s'.resultmap t = none ∧ lookup s'.searchmap t = none := by
  have hne : (s.drv ≠ .running) = False := by simp [hr]
  simp only [step, hne, if_false, hq, ho, hk, hin, Bool.not_true, Bool.false_eq_true]
  refine ⟨_, rfl, by simp, not_mem_eraseId _ _, ?_, lookup_erase_self _ _, lookup_erase_self _ _⟩
  intro hmem
  have := (mem_eraseId.mp hmem).1
  exact not_mem_eraseId _ _ this

/-- a request whose ID was released while it waited in the queue is discarded: nothing is sent,
nothing is registered (fix F15) -/
theorem C13_scrubbed_request_not_registered (s : St) (i : Nat) (rest : List Nat) (o : Op) (b : Bool)
    (hr : s.drv = .running) (hq : s.opQ = i :: rest) (ho : s.ops[i]? = some o) (hin : s.inUse.contains o.id = false) :
    ∃ s', step s (.drvOp b) = some (s', .skipped) ∧ s'.wire = s.wire ∧ s'.resultmap = s.resultmap ∧
      s'.searchmap = s.searchmap ∧ s'.inUse = s.inUse := by
  have hne : (s.drv ≠ .running) = False := by simp [hr]
  simp only [step, hne, if_false, hq, ho, hin, Bool.not_false, if_true]
  exact ⟨_, rfl, rfl, rfl, rfl, rfl⟩

/-! ### non-vacuity (tests): a mixed history that ends quiescent with everything released -/
example :
    let s := run (init 100) [.alloc .single, .enqueue 0 none, .alloc .search, .enqueue 1 none, .alloc .single,
      .enqueue 2 (some 5), .drvOp true, .drvOp true, .drvOp true, .srvSend ⟨1, 11, 7, true⟩, .drvResp,
      .srvSend ⟨2, 4, 8, false⟩, .srvSend ⟨2, 5, 9, true⟩, .drvResp, .drvResp, .tick 5, .poll 2, .drvScrub,
      .alloc (.abandon 9), .enqueue 3 none, .drvOp true]
    s.inUse = [] ∧ s.resultmap = [] ∧ s.searchmap = [] := by
  decide

end Ldap3V.Conn

/-
C02 — each request on the wire is the PDU asked for; modifiers are one-shot.
Statements only; proofs are references to Lemmas/Requests*.lean.
Model: Model/Requests.lean (`build`, `issue`, `step`/`runHandle`) + Model/Envelope.lean (`encodeMsg`) +
Model/Ber.lean (`encode`, `parseTag`).  Independent reader and law: Spec/Requests.lean.

Value sets (`HashSet`) appear in a `Request` as lists in the order they are written; the theorems hold
for every order, so whatever order the iterator yields, the reader returns the same elements in that
order (the lane compares them as multisets with what was asked).
-/
import Ldap3V.Lemmas.RequestsBytes
import Ldap3V.Lemmas.RequestsHandle
import Ldap3V.Props.C07
import Ldap3V.Lemmas.FilterShape
import Ldap3V.Lemmas.FilterNesting
import Ldap3V.Gen.AppTags
namespace Ldap3V
open Spec

/-- Tree level: the bytes of a message are the BER encoding of a tree which the independent RFC 4511
reader reads back as exactly the message ID, the operation with all its arguments, and the controls.
`WFReq`: what the API does not refuse locally (see `C02_rejected_sends_nothing`; this excludes the
nameless `Exop`, on which `extended` panics) and numeric arguments
within their Rust types (`i32`).  Message IDs of a connection are 1..2^31-1 (C05). -/
theorem C02_roundtrip (id : Nat) (r : Request) (cs : Option (List RawControl))
    (hid : 1 ≤ id ∧ id < 2147483648) (h : WFReq r) :
    ∃ t, encodeMsg (id : Int) (build r) cs = encode t ∧ decodeRequest t = some (id, r, cs) :=
  ⟨msgTree id r cs, encodeMsg_eq id r cs, decodeRequest_msgTree id r cs hid.2 h⟩

/-- Byte level: lber's own parser (any conforming parser, by C07) turns the written bytes back into
that tree with nothing left over, so the reader applied to the parsed bytes returns the request.
Side conditions: the filter element uses low tag numbers and nests at most 62 deep (`FilterOk`; the
parser's limit is 64 levels including LDAPMessage and SearchRequest), and the message is shorter than
2^64 bytes. -/
theorem C02_roundtrip_bytes (id : Nat) (r : Request) (cs : Option (List RawControl))
    (hid : 1 ≤ id ∧ id < 2147483648) (h : WFReq r) (hf : FilterOk r)
    (hl : (encodeMsg (id : Int) (build r) cs).length < 18446744073709551616) :
    ∃ t, parseTag (encodeMsg (id : Int) (build r) cs) = .ok t [] ∧ decodeRequest t = some (id, r, cs) :=
  ⟨msgTree id r cs, parse_encodeMsg id r cs h.1 hf hl, decodeRequest_msgTree id r cs hid.2 h⟩

/-- the same through C07's statement about arbitrary well-formed trees -/
theorem C02_roundtrip_via_C07 (id : Nat) (r : Request) (cs : Option (List RawControl)) (h : WFReq r) (hf : FilterOk r)
    (hl : (encodeMsg (id : Int) (build r) cs).length < 18446744073709551616) :
    ∃ t, encodeMsg (id : Int) (build r) cs = encode t ∧ WF t ∧ t.depth ≤ maxDepth ∧
      parseTag (encode t ++ []) = .ok t [] := by
  have e := encodeMsg_eq id r cs
  have hwf := wf_of_low _ (low_msgTree id r cs h.1 hf) (by rw [← e]; exact hl)
  have hd := depth_msgTree id r cs h.1 hf
  exact ⟨msgTree id r cs, e, hwf, hd, C07_parse_encode _ [] hwf hd (by rw [List.append_nil, ← e]; exact hl)⟩

/-- The model refuses exactly the calls the API documentation says must fail (an `add` with an empty
value set, a `Mod::Add` with an empty value set: `Err(AddNoValues)`; an `Exop` without a name: panic in
`construct_exop`), and a refused call — like a Search whose filter does not parse — sends nothing and
allocates no message ID. -/
theorem C02_rejected_sends_nothing (s : HState) (h : Nat) (r : Request) :
    rejected r = mustReject r ∧
    (mustReject r = true → (step s (.op h r)).wire = s.wire ∧ (step s (.op h r)).lastId = s.lastId) ∧
    (step s (.searchBadFilter h)).wire = s.wire ∧ (step s (.searchBadFilter h)).lastId = s.lastId := by
  refine ⟨rejected_eq r, ?_, by simp [step], by simp [step]⟩
  intro hr; rw [step_op]; by_cases hp : panics r = true <;> simp [hr, hp]

/-- … and which verdict each refusal is -/
theorem C02_rejected_verdicts (r : Request) :
    (∀ t, issue r = .send t → t = build r ∧ mustReject r = false) ∧
    (issue r = .errAddNoValues → (∃ dn as, r = .add dn as) ∨ (∃ dn ms, r = .modify dn ms)) ∧
    (issue r = .panic → ∃ v, r = .extended none v) := by
  have hr := rejected_eq r
  refine ⟨?_, ?_, ?_⟩
  · intro t ht
    constructor
    · cases r <;> simp only [issue] at ht <;> (try split at ht) <;> simp_all
    · rw [← hr]; simp [rejected, ht]
  · intro h; cases r <;> simp only [issue] at h <;> (try split at h) <;> simp_all
  · intro h; cases r <;> simp only [issue] at h <;> (try split at h) <;> simp_all

/-- THE LAW of the property: "Controls, timeout and search options set on a handle affect exactly the
next operation invoked on it and none after it."  On every script of calls: the k-th message sent has
ID k and carries exactly the controls / timeout / (for a Search) options set on its handle since the
previous operation invoked on that handle — sent, refused with `AddNoValues`, or a Search with an
unparsable filter alike (last writer wins; a clone starts empty); any other operation discards pending
search options; refused operations send nothing.  Afterwards every handle holds exactly what the law
says is still pending.
`NoNamelessExop`: the script contains no `extended` call with a nameless `Exop`.  That call violates the
documented caller contract and panics in `construct_exop` (an explicit `Verdict.panic` of the model, see
`C02_rejected_verdicts`); scripts containing it are covered by `C02_one_shot_with_panics`. -/
theorem C02_one_shot (calls : List HandleCall) (hc : NoNamelessExop calls) :
    (runHandle calls).wire = expectedWire calls ∧ ∀ h, (runHandle calls).handles h = pendingAfter calls h := by
  obtain ⟨hw, hh⟩ := run_asBuilt calls
  refine ⟨?_, ?_⟩
  · rw [hw, expectedWire, expectedFrom_agree calls [] 0 (by simp) hc]
  · intro h
    rw [hh h, pendingAfter, pendingHandle_agree h _ (by intro c hcm; exact hc c (by simpa using hcm))]

/-- Every script, panicking calls included (a caller that catches the unwind and goes on using the
handle): the same law, except that the panicking `extended` call leaves the modifiers on the handle —
it unwinds before anything is taken. -/
theorem C02_one_shot_with_panics (calls : List HandleCall) :
    (runHandle calls).wire = expectedFrom consumesUnlessPanic [] 0 calls ∧
    ∀ h, (runHandle calls).handles h = pendingHandle consumesUnlessPanic h calls.reverse :=
  run_asBuilt calls

/-- End to end: every message a script puts on the wire is read back by the independent reader, from
the bytes, as the operation that was invoked with its ID and the controls the model says it carried. -/
theorem C02_every_sent_message (calls : List HandleCall) (m : Sent) (hm : m ∈ (runHandle calls).wire)
    (hr : InRange m.req) (hf : FilterOk m.req) (hid : m.id < 2147483648)
    (hl : m.bytes.length < 18446744073709551616) :
    ∃ t, parseTag m.bytes = .ok t [] ∧ decodeRequest t = some (m.id, m.req, m.ctrls) := by
  obtain ⟨hw, _⟩ := run_asBuilt calls
  rw [hw] at hm
  obtain ⟨h1, h2⟩ := expectedFrom_sound _ _ _ _ m hm
  exact C02_roundtrip_bytes m.id m.req m.ctrls ⟨h2, hid⟩ ⟨h1, hr⟩ hf hl

/-! ### the filter element as the filter parser produces it (C08) -/

/-- `FilterOk` is true of whatever `parse_filter` accepts, provided the string does not nest parentheses
deeper than 60 (61 when it starts with `(`, i.e. is not a bare item): low tag numbers hold for EVERY accepted
string, and the tree is at most two levels (one level) deeper than the string nests (`C08_output_shape`;
`Filter.nest 0 s` is the greatest parenthesis depth reached in `s`).  No size bound is needed here; the
size of the whole message is the separate hypothesis `hl` of `C02_roundtrip_bytes`. -/
theorem C02_parsed_filter_ok (s : Bytes) (t : Tag) (h : Filter.parse s = some t)
    (hn : Filter.nest 0 s ≤ 60 ∨ (s.head? = some 0x28 ∧ Filter.nest 0 s ≤ 61))
    (base : Bytes) (scope : Scope) (deref : Deref) (sizeLimit timeLimit : Int) (typesOnly : Bool)
    (attrs : List Bytes) :
    FilterOk (.search base scope deref sizeLimit timeLimit typesOnly t.toTlv attrs) := by
  obtain ⟨h1, _, h3, _, h5, _⟩ := Filter.parse_shape (Filter.parse_core h)
  refine ⟨h1, ?_⟩
  rcases hn with hn | ⟨hh, hn⟩
  · omega
  · have := h5 hh; omega

/-- `C02_roundtrip_bytes` for a Search whose filter came out of the filter parser: `FilterOk` discharged. -/
theorem C02_roundtrip_bytes_parsed (id : Nat) (s : Bytes) (t : Tag) (h : Filter.parse s = some t)
    (hn : Filter.nest 0 s ≤ 60 ∨ (s.head? = some 0x28 ∧ Filter.nest 0 s ≤ 61))
    (base : Bytes) (scope : Scope) (deref : Deref) (sizeLimit timeLimit : Int) (typesOnly : Bool)
    (attrs : List Bytes) (cs : Option (List RawControl))
    (hid : 1 ≤ id ∧ id < 2147483648) (hr : I32 sizeLimit ∧ I32 timeLimit)
    (hl : (encodeMsg (id : Int) (build (.search base scope deref sizeLimit timeLimit typesOnly t.toTlv attrs)) cs).length
      < 18446744073709551616) :
    ∃ tr, parseTag (encodeMsg (id : Int) (build (.search base scope deref sizeLimit timeLimit typesOnly t.toTlv attrs)) cs)
        = .ok tr [] ∧
      decodeRequest tr = some (id, .search base scope deref sizeLimit timeLimit typesOnly t.toTlv attrs, cs) :=
  C02_roundtrip_bytes id _ cs hid ⟨rfl, hr⟩
    (C02_parsed_filter_ok s t h hn base scope deref sizeLimit timeLimit typesOnly attrs) hl

/-- `C02_every_sent_message` for a Search whose filter came out of the filter parser -/
theorem C02_every_sent_message_parsed (calls : List HandleCall) (m : Sent) (hm : m ∈ (runHandle calls).wire)
    (s : Bytes) (t : Tag) (h : Filter.parse s = some t)
    (hn : Filter.nest 0 s ≤ 60 ∨ (s.head? = some 0x28 ∧ Filter.nest 0 s ≤ 61))
    (base : Bytes) (scope : Scope) (deref : Deref) (sizeLimit timeLimit : Int) (typesOnly : Bool)
    (attrs : List Bytes) (hreq : m.req = .search base scope deref sizeLimit timeLimit typesOnly t.toTlv attrs)
    (hr : InRange m.req) (hid : m.id < 2147483648) (hl : m.bytes.length < 18446744073709551616) :
    ∃ tr, parseTag m.bytes = .ok tr [] ∧ decodeRequest tr = some (m.id, m.req, m.ctrls) :=
  C02_every_sent_message calls m hm hr
    (by rw [hreq]; exact C02_parsed_filter_ok s t h hn base scope deref sizeLimit timeLimit typesOnly attrs) hid hl

/-- The depth side condition is not an artefact: `parse_filter` accepts up to 128 levels of parentheses
(`C08_depth_limit`), lber's parser stops at `maxDepth` = 64, two of which are LDAPMessage and SearchRequest.
A Search whose filter string nests deeper than 63 (and at most 128) is WRITTEN, and the library's own parser
answers `error` on the message. -/
theorem C02_deep_filter_not_read_back (id : Nat) (s : Bytes) (t : Tag) (h : Filter.parse s = some t)
    (hn : 63 < Filter.nest 0 s)
    (base : Bytes) (scope : Scope) (deref : Deref) (sizeLimit timeLimit : Int) (typesOnly : Bool)
    (attrs : List Bytes) (cs : Option (List RawControl))
    (hl : (encodeMsg (id : Int) (build (.search base scope deref sizeLimit timeLimit typesOnly t.toTlv attrs)) cs).length
      < 18446744073709551616) :
    parseTag (encodeMsg (id : Int) (build (.search base scope deref sizeLimit timeLimit typesOnly t.toTlv attrs)) cs)
      = .error := by
  obtain ⟨h1, _, _, h4, _⟩ := Filter.parse_shape (Filter.parse_core h)
  exact search_deep_not_read_back id base scope deref sizeLimit timeLimit typesOnly _ attrs cs h1 (by omega) hl

/-! ### non-vacuity (tests, labelled as such) -/

/-- a search with negative size limit, 2^31-1 time limit, an AND filter and two attributes -/
example : WFReq (.search [0x6f, 0x3d, 0x78] .subtree .always (-5) 2147483647 true
    (.cons 2 0 [.prim 2 7 [0x63, 0x6e], .cons 2 3 [.prim 0 4 [0x61], .prim 0 4 [0x62]]]) [[0x63, 0x6e], [0x2a]]) ∧
    FilterOk (.search [0x6f, 0x3d, 0x78] .subtree .always (-5) 2147483647 true
    (.cons 2 0 [.prim 2 7 [0x63, 0x6e], .cons 2 3 [.prim 0 4 [0x61], .prim 0 4 [0x62]]]) [[0x63, 0x6e], [0x2a]]) := by
  decide

/-- a modify with all four kinds (delete with an empty set), an add, an extended with value -/
example : WFReq (.modify [0x78] [(.add, [0x61], [[1], []]), (.delete, [0x62], []), (.replace, [0x63], [[0xff]]),
    (.increment, [0x64], [[0x31]])]) ∧ WFReq (.add [0x78] [([0x61], [[0], [1]]), ([0x62], [[]])]) ∧
    WFReq (.extended (some [0x31]) (some [0, 0xff])) ∧ ¬ WFReq (.extended none none) ∧
    ¬ WFReq (.add [0x78] [([0x61], [])]) := by decide

/-- the bytes of a small message, decoded -/
example : (parseTag (encodeMsg 7 (build (.delete [0x6f, 0x3d, 0x78])) (some [⟨[0x31], true, some [5]⟩])) |>
    fun | .ok t [] => (decodeRequest t).map (fun x => (x.1, x.2.2)) | _ => none) =
    some (7, some [⟨[0x31], true, some [5]⟩]) := by decide

/-- a script meeting `C02_one_shot`'s hypothesis: modifiers before a refused add (they are used up), a
clone, a bad filter, a named extended operation; the law's prediction evaluated -/
example : NoNamelessExop [.withControls 0 [⟨[0x31], true, none⟩], .withTimeout 0 10,
    .op 0 (.add [0x78] [([0x61], [])]), .op 0 (.delete [0x78]), .clone 0 1, .withSearchOptions 1 ⟨.finding, true, 1, 2⟩,
    .searchBadFilter 1, .op 1 (.extended (some [0x31]) none), .op 1 .unbind] ∧
    (expectedWire [.withControls 0 [⟨[0x31], true, none⟩], .withTimeout 0 10,
      .op 0 (.add [0x78] [([0x61], [])]), .op 0 (.delete [0x78])]).map (fun m => (m.id, m.ctrls, m.timeout)) =
      [(1, none, none)] ∧
    (runHandle [.withControls 0 [⟨[0x31], true, none⟩], .withTimeout 0 10,
      .op 0 (.add [0x78] [([0x61], [])]), .op 0 (.delete [0x78])]).wire.map (fun m => (m.id, m.ctrls, m.timeout)) =
      [(1, none, none)] := by decide

/-- `(&(cn=*)(a=b))` is accepted and nests 2 deep; `(a=b)` under 63 negations is accepted and nests 64 deep -/
example : (Filter.parse [0x28, 0x26, 0x28, 0x63, 0x6e, 0x3d, 0x2a, 0x29, 0x28, 0x61, 0x3d, 0x62, 0x29, 0x29]).isSome = true ∧
    Filter.nest 0 [0x28, 0x26, 0x28, 0x63, 0x6e, 0x3d, 0x2a, 0x29, 0x28, 0x61, 0x3d, 0x62, 0x29, 0x29] ≤ 60 := by decide
example : (∃ t, Filter.parse (Filter.notStr 63 [0x28, 0x61, 0x3D, 0x62, 0x29]) = some t) ∧
    63 < Filter.nest 0 (Filter.notStr 63 [0x28, 0x61, 0x3D, 0x62, 0x29]) := by
  obtain ⟨t, h, _⟩ := (Filter.parse_notStr 63).1 (by decide)
  exact ⟨⟨t, h⟩, by rw [Filter.nest_notStr]; decide⟩

/-! ### tie by regeneration (translate/app_tags.py): the protocolOp tag numbers

Every request builder of src/ldap.rs / src/search.rs writes its protocolOp as a literal
`Tag::K(K { id: N, class: TagClass::Application, .. })`; the translator reads `N` and `K` out of the CURRENT source,
per enclosing function (`Gen/AppTags.lean`). -/

/-- class, tag number and constructed/primitive form of the outermost element of a tag -/
def rootForm (t : Tag) : Nat × Nat × Bool :=
  match t.toTlv with
  | .prim c i _ => (c, i, false)
  | .cons c i _ => (c, i, true)

/-- For every request kind the model's `build` produces class APPLICATION (1), the tag number that the builder
of that operation carries in the source today, and the same form (constructed SEQUENCE / primitive). -/
theorem C02_app_tags_source :
    (∀ dn pw, rootForm (build (.simpleBind dn pw)) = (1, Gen.appTag_simple_bind, Gen.appCons_simple_bind)) ∧
    rootForm (build .saslExternal) = (1, Gen.appTag_sasl_bind_req, Gen.appCons_sasl_bind_req) ∧
    (∀ b sc d sl tl ty f a, rootForm (build (.search b sc d sl tl ty f a)) = (1, Gen.appTag_start_inner, Gen.appCons_start_inner)) ∧
    (∀ dn a, rootForm (build (.add dn a)) = (1, Gen.appTag_add, Gen.appCons_add)) ∧
    (∀ dn a v, rootForm (build (.compare dn a v)) = (1, Gen.appTag_compare, Gen.appCons_compare)) ∧
    (∀ dn, rootForm (build (.delete dn)) = (1, Gen.appTag_delete, Gen.appCons_delete)) ∧
    (∀ dn m, rootForm (build (.modify dn m)) = (1, Gen.appTag_modify, Gen.appCons_modify)) ∧
    (∀ dn r d n, rootForm (build (.modifyDn dn r d n)) = (1, Gen.appTag_modifydn, Gen.appCons_modifydn)) ∧
    (∀ n v, rootForm (build (.extended n v)) = (1, Gen.appTag_extended, Gen.appCons_extended)) ∧
    rootForm (build .unbind) = (1, Gen.appTag_unbind, Gen.appCons_unbind) ∧
    (∀ id, rootForm (build (.abandon id)) = (1, Gen.appTag_abandon, Gen.appCons_abandon)) := by
  refine ⟨fun _ _ => rfl, rfl, fun _ _ _ _ _ _ _ _ => rfl, fun _ _ => rfl, fun _ _ _ => rfl, fun _ => rfl,
    fun _ _ => rfl, fun _ _ _ _ => rfl, ?_, rfl, fun _ => rfl⟩
  intro n v
  cases n <;> rfl

/-- … and the numbers that travel as ENUMERATED values: the discriminants of `Scope` and `DerefAliases`
(`scope as i64`, `opts.deref as i64`) and the operation number `fn modify` writes for each `Mod` variant, as they stand in
the source today, are the model's `Scope.toInt`, `Deref.toInt` and `ModKind.toInt` (by variant name: the order in which the
variants or arms are written does not matter). -/
theorem C02_enum_values_source :
    (Gen.enum_Scope.lookup "Base" = some Scope.base.toInt ∧ Gen.enum_Scope.lookup "OneLevel" = some Scope.oneLevel.toInt ∧
      Gen.enum_Scope.lookup "Subtree" = some Scope.subtree.toInt ∧ Gen.enum_Scope.length = 3) ∧
    (Gen.enum_DerefAliases.lookup "Never" = some Deref.never.toInt ∧
      Gen.enum_DerefAliases.lookup "Searching" = some Deref.searching.toInt ∧
      Gen.enum_DerefAliases.lookup "Finding" = some Deref.finding.toInt ∧
      Gen.enum_DerefAliases.lookup "Always" = some Deref.always.toInt ∧ Gen.enum_DerefAliases.length = 4) ∧
    (Gen.modNums.lookup "Add" = some ModKind.add.toInt ∧ Gen.modNums.lookup "Delete" = some ModKind.delete.toInt ∧
      Gen.modNums.lookup "Replace" = some ModKind.replace.toInt ∧
      Gen.modNums.lookup "Increment" = some ModKind.increment.toInt ∧ Gen.modNums.length = 4) := by decide

example : rootForm (build (.delete [0x78])) = (1, 10, false) ∧ rootForm (build (.add [0x78] [])) = (1, 8, true) := by
  decide

end Ldap3V

/-
C20 — LDAP URL parameters: formatting components as an RFC 4516 URL and reading them back with
`get_url_params` returns the same components with the documented defaults; the error cases.

Statements only; proofs are references to Lemmas/Url*.lean.
Model: Ldap3V/Model/Url.lean (`getUrlParams`, from what `Url::path()` / `Url::query()` return on;
the `url` crate is the named environment assumption checked by the `url` lane).
Spec: Ldap3V/Spec/Url.lean (`format`, `withDefaults`, `WFC`, `Style`, `Omit`).

A `Style` is the producer's freedom in percent-encoding (which bytes stay raw, hex digit case);
`Style.strict` is the formatter of the property text (everything outside `ALPHA DIGIT - . _ ~`
is encoded), `Style.minimal` the least RFC 4516 permits.  An `Omit` is the producer's freedom
in leaving out trailing empty fields; `o.Legal` says that only those are left out.
-/
import Ldap3V.Lemmas.UrlPanic
namespace Ldap3V
open Ldap3V.Url Ldap3V.Url.Spec

/-- Key lemma: percent-decoding inverts percent-encoding for every byte string and every legal
choice of raw bytes / hex case, and the encoded text contains no byte that the producer encodes
and that is neither `%` nor a hex digit — in particular none of `?` `,` (nor `=` `!` `#` SP)
unless deliberately left raw. -/
theorem C20_percent_roundtrip (raw : UInt8 → Bool) (up : Bool) (hraw : ∀ b, raw b = true → b ≠ 0x25) (bs : Bytes) :
    percentDecode (pctEncode raw up bs) = bs ∧
    ∀ sep, raw sep = false → sep ≠ 0x25 → isHex sep = false → sep ∉ pctEncode raw up bs :=
  ⟨percentDecode_pctEncode raw up hraw bs,
   fun sep h1 h2 h3 => not_mem_pctEncode raw up bs sep (fun h => by rw [h1] at h; exact Bool.noConfusion h) h2 h3⟩

/-- The formatters named in the property text and in RFC 4516 are legal styles. -/
theorem C20_styles_legal : Style.strict.Legal ∧ (∀ up, (Style.minimal up).Legal) :=
  ⟨strict_legal, minimal_legal⟩

/-- Round trip.  For all well-formed components (`WFC`: arbitrary valid-UTF-8 base, filter and
extension values; attribute descriptions and extension types over their RFC 4512 alphabets; unknown
extensions non-critical), with at most one extension per recognised kind, every legal encoding
style and every legal amount of omission: reading the formatted URL returns exactly the
components, with `["*"]`, subtree and `(objectClass=*)` for omitted ones, and without the unknown
extensions. -/
theorem C20_roundtrip (s : Style) (hs : s.Legal) (c : UrlComps) (o : Omit) (h : WFC c) (h1 : OnePerKind c)
    (ho : o.Legal (encodeComps s c)) :
    getUrlParams (format s c o).path (format s c o).query = .ok (withDefaults c) := by
  rw [format, getUrlParams_raw _ o (encodeComps_unambiguous s hs c h.1) ho, readRaw_encodeComps s hs c h,
    firstOfKind_nodup _ h1]
  rfl

/-- the instance spelled out in the property text: encode every byte outside `ALPHA DIGIT - . _ ~` -/
theorem C20_roundtrip_strict (c : UrlComps) (o : Omit) (h : WFC c) (h1 : OnePerKind c)
    (ho : o.Legal (encodeComps .strict c)) :
    getUrlParams (format .strict c o).path (format .strict c o).query = .ok (withDefaults c) :=
  C20_roundtrip .strict strict_legal c o h h1 ho

/-- Several extensions of one kind: the FIRST of each kind is returned (`HashSet::insert` does not
replace an equal element, and `LdapUrlExt` equality looks at the variant only). -/
theorem C20_first_extension_of_a_kind_wins (s : Style) (hs : s.Legal) (c : UrlComps) (o : Omit) (h : WFC c)
    (ho : o.Legal (encodeComps s c)) :
    getUrlParams (format s c o).path (format s c o).query =
      .ok ((withDefaults c).setExts (firstOfKind (c.exts.filterMap toExt))) := by
  rw [format, getUrlParams_raw _ o (encodeComps_unambiguous s hs c h.1) ho, readRaw_encodeComps s hs c h]

/-- An unknown critical extension anywhere in the list is `UnrecognizedCriticalExtension`. -/
theorem C20_err_unknown_critical (s : Style) (hs : s.Legal) (c : UrlComps) (o : Omit) (h : WFCore c)
    (hx : ∃ e ∈ c.exts, kindOf e.name = none ∧ e.critical = true) (ho : o.Legal (encodeComps s c)) :
    getUrlParams (format s c o).path (format s c o).query = .err .unrecognizedCritical := by
  obtain ⟨e1, e2, e3⟩ := encodeComps_front s hs c h
  rw [format, getUrlParams_raw _ o (encodeComps_unambiguous s hs c h) ho]
  exact readRaw_exts_err _ _ _ _ _ e1 e2 e3 (extLoop_unknown_critical s hs c.exts [] h.2.2.2 hx)

/-- A scope field that is none of `""`, `base`, `one`, `sub` (compared as written: no case
folding, no percent-decoding) is `InvalidScopeString`, whatever the filter and extensions are. -/
theorem C20_err_invalid_scope (s : Style) (hs : s.Legal) (c : UrlComps) (o : Omit) (w : Bytes) (h : WFCore c)
    (hq : 0x3F ∉ w) (hw : w ≠ [] ∧ w ≠ litBase ∧ w ≠ litOne ∧ w ≠ litSub)
    (ho : o.Legal ((encodeComps s c).setScope w)) :
    getUrlParams (((encodeComps s c).setScope w).format o).path
      (((encodeComps s c).setScope w).format o).query = .err .invalidScope := by
  obtain ⟨e1, _, _⟩ := encodeComps_front s hs c h
  obtain ⟨u0, _, u2, u3⟩ := encodeComps_unambiguous s hs c h
  rw [getUrlParams_raw ((encodeComps s c).setScope w) o ⟨u0, hq, u2, u3⟩ ho]
  exact readRaw_bad_scope _ _ e1 ⟨hw.1, by simp [RawUrl.setScope, parseScope, hw.2.1, hw.2.2.1, hw.2.2.2]⟩

/-- A base whose percent-decoding is not UTF-8 is `DecodingUTF8`, whatever the query is. -/
theorem C20_err_utf8_base (path : Bytes) (query : Option Bytes)
    (h : utf8Valid (percentDecode (stripSlash path)) = false) :
    getUrlParams path query = .err .decodingUtf8 := by
  simp [getUrlParams, decodeUtf8, h]

/-- A filter field whose percent-decoding is not UTF-8 is `DecodingUTF8`. -/
theorem C20_err_utf8_filter (s : Style) (hs : s.Legal) (c : UrlComps) (o : Omit) (t : Bytes) (h : WFCore c)
    (hq : 0x3F ∉ t) (ht : utf8Valid (percentDecode t) = false)
    (ho : o.Legal ((encodeComps s c).setFilter t)) :
    getUrlParams (((encodeComps s c).setFilter t).format o).path
      (((encodeComps s c).setFilter t).format o).query = .err .decodingUtf8 := by
  obtain ⟨e1, e2, _⟩ := encodeComps_front s hs c h
  obtain ⟨u0, u1, _, u3⟩ := encodeComps_unambiguous s hs c h
  rw [getUrlParams_raw ((encodeComps s c).setFilter t) o ⟨u0, u1, hq, u3⟩ ho]
  have hne : t ≠ [] := by intro e; subst e; revert ht; decide
  exact readRaw_bad_filter _ _ _ e1 e2 hne (by simp [RawUrl.setFilter, decodeUtf8, ht])

/-- An extension value whose percent-decoding is not UTF-8, after extensions that are fine, is
`DecodingUTF8` — also when that extension is unknown and non-critical (it would otherwise be
ignored) or StartTLS (whose value is otherwise dropped), and whatever follows it. -/
theorem C20_err_utf8_ext_value (s : Style) (hs : s.Legal) (c : UrlComps) (o : Omit) (crit : Bool) (name t : Bytes)
    (post : List Bytes) (h : WFC c) (hn : ∀ b ∈ name, oidChar b = true)
    (hc : 0x2C ∉ t) (ht : utf8Valid (percentDecode t) = false) (hp : ∀ x ∈ post, 0x2C ∉ x)
    (ho : o.Legal ((encodeComps s c).setExts ((encodeComps s c).exts ++ fmtExtRaw crit name (some t) :: post))) :
    let r : RawUrl := (encodeComps s c).setExts ((encodeComps s c).exts ++ fmtExtRaw crit name (some t) :: post)
    getUrlParams (r.format o).path (r.format o).query = .err .decodingUtf8 := by
  intro r
  obtain ⟨e1, e2, e3⟩ := encodeComps_front s hs c h.1
  obtain ⟨u0, u1, u2, u3⟩ := encodeComps_unambiguous s hs c h.1
  have hbad : 0x2C ∉ fmtExtRaw crit name (some t) := by
    rw [fmtExtRaw_eq]; intro hm
    rcases List.mem_append.mp hm with hm | hm
    · exact not_mem_idTxt _ _ _ hn (by decide) (by decide) hm
    · rcases List.mem_cons.mp hm with hm | hm
      · exact absurd hm (by decide)
      · exact hc hm
  have hu : r.Unambiguous := ⟨u0, u1, u2, fun x hx => by
    rcases List.mem_append.mp hx with hx | hx
    · exact u3 x hx
    · rcases List.mem_cons.mp hx with hx | hx
      · subst hx; exact hbad
      · exact hp x hx⟩
  rw [getUrlParams_raw r o hu ho]
  exact readRaw_exts_err r _ _ _ _ e1 e2 e3
    (extLoop_bad_value s hs c.exts crit name t post [] h.1.2.2.2 h.2 hn (by simp [decodeUtf8, ht]))

/-- An unknown non-critical extension is ignored: the URL with it reads exactly like the URL
without it (wherever it stands in the list, whatever its value). -/
theorem C20_unknown_noncritical_ignored (s : Style) (hs : s.Legal) (c : UrlComps) (pre post : List ExtC) (u : ExtC)
    (o o' : Omit) (h : WFC (c.setExts (pre ++ u :: post))) (hu : kindOf u.name = none)
    (ho' : o'.Legal (encodeComps s (c.setExts (pre ++ u :: post))))
    (ho : o.Legal (encodeComps s (c.setExts (pre ++ post)))) :
    getUrlParams (format s (c.setExts (pre ++ u :: post)) o').path (format s (c.setExts (pre ++ u :: post)) o').query
      = getUrlParams (format s (c.setExts (pre ++ post)) o).path (format s (c.setExts (pre ++ post)) o).query := by
  have h' : WFC (c.setExts (pre ++ post)) := by
    obtain ⟨⟨a, b, c', d⟩, e⟩ := h
    refine ⟨⟨a, b, c', fun x hx => d x ?_⟩, fun x hx => e x ?_⟩ <;>
      (simp only [UrlComps.setExts, List.mem_append, List.mem_cons] at hx ⊢; rcases hx with hx | hx <;> simp [hx])
  rw [C20_first_extension_of_a_kind_wins s hs _ o' h ho', C20_first_extension_of_a_kind_wins s hs _ o h' ho]
  have : toExt u = none := by simp [toExt, hu]
  simp only [withDefaults, UrlComps.setExts, Params.setExts, List.filterMap_append, List.filterMap_cons, this]
  rfl

/-- `bindname` and `x-bindpw` are recognised in any ASCII letter case (critical or not). -/
theorem C20_ext_names_case_insensitive (s : Style) (hs : s.Legal) (name : Bytes) (crit : Bool) (v : Bytes) (k : ExtKind)
    (hv : utf8Valid v = true)
    (hk : (name.map toAsciiLower = litBindname ∧ k = .bindname) ∨ (name.map toAsciiLower = litXBindpw ∧ k = .xbindpw)) :
    let c : UrlComps := ⟨[], [], none, none, [⟨name, crit, some v⟩]⟩
    classify name = some k ∧
    getUrlParams (format s c ⟨true, 4⟩).path (format s c ⟨true, 4⟩).query =
      .ok ⟨[], [litStar], .subtree, litDefaultFilter, [⟨k, v⟩]⟩ := by
  intro c
  have hkind : kindOf name = some k ∧ k ≠ .startTls ∧ ∀ b ∈ name, oidChar b = true := by
    rcases hk with ⟨h, rfl⟩ | ⟨h, rfl⟩
    · exact ⟨kindOf_bindname name h, by decide, oidChar_of_map_lower name _ h (by decide)⟩
    · exact ⟨kindOf_xbindpw name h, by decide, oidChar_of_map_lower name _ h (by decide)⟩
  obtain ⟨hkn, hns, hoid⟩ := hkind
  have hte : toExt ⟨name, crit, some v⟩ = some ⟨k, v⟩ := by
    simp only [toExt, hkn]; cases k <;> simp_all
  have hw : WFC c := ⟨⟨by simp [c, utf8Valid], by simp [c], by simp [c], by simpa [c] using ⟨hoid, hv⟩⟩, by simp [c, hkn]⟩
  have h1 : OnePerKind c := by simp [OnePerKind, c, hte]
  refine ⟨by rw [classify_eq_kindOf, hkn], ?_⟩
  rw [C20_roundtrip s hs c ⟨true, 4⟩ hw h1 ⟨minFields_le _, by simp⟩]
  simp [withDefaults, c, hte, litStar, litDefaultFilter]

/-- No panic: the one panicking operation of `get_url_params` (`&id[..1]` on an extension type
whose first character is not ASCII) needs a non-ASCII byte in the query; `Url::query()` only
returns ASCII (the lane asserts it on every URL).  For arbitrary `path`, arbitrary ASCII query. -/
theorem C20_no_panic_on_ascii_query (path : Bytes) (query : Option Bytes)
    (h : ∀ q ∈ query, ∀ b ∈ q, b.toNat < 128) : getUrlParams path query ≠ .panic :=
  getUrlParams_ne_panic path query h

/-! ### non-vacuity: the hypotheses are met by non-trivial values (tests, labelled as such) -/

/-- base `o=a?b,c=d%#e é` (with `?` `,` `=` `%` `#` SP and U+00E9), attributes `cn`,
`userCertificate;binary`-like `sn;x`, scope one, filter `(cn=*é?)`, extensions
`!BindName=cn=M,dc=x`, `x-foo=y` (unknown, non-critical), StartTLS -/
def exComps : UrlComps where
  base := [0x6F, 0x3D, 0x61, 0x3F, 0x62, 0x2C, 0x63, 0x3D, 0x64, 0x25, 0x23, 0x65, 0x20, 0xC3, 0xA9]
  attrs := [[0x63, 0x6E], [0x73, 0x6E, 0x3B, 0x78]]
  scope := some .oneLevel
  filter := some [0x28, 0x63, 0x6E, 0x3D, 0x2A, 0xC3, 0xA9, 0x3F, 0x29]
  exts := [⟨[0x42, 0x69, 0x6E, 0x64, 0x4E, 0x61, 0x6D, 0x65], true, some [0x63, 0x6E, 0x3D, 0x4D, 0x2C, 0x64, 0x63, 0x3D, 0x78]⟩,
           ⟨[0x78, 0x2D, 0x66, 0x6F, 0x6F], false, some [0x79]⟩,
           ⟨oidStartTls, false, none⟩]

example : WFC exComps ∧ OnePerKind exComps ∧ (⟨true, 4⟩ : Omit).Legal (encodeComps .strict exComps) ∧
    (⟨true, 4⟩ : Omit).Legal (encodeComps (.minimal false) exComps) := by decide

/-- the strict formatter writes `/o%3Da%3Fb%2Cc%3Dd%25%23e%20%C3%A9` and the reader returns the components -/
example : (format .strict exComps ⟨true, 4⟩).path =
      [0x2F, 0x6F, 0x25, 0x33, 0x44, 0x61, 0x25, 0x33, 0x46, 0x62, 0x25, 0x32, 0x43, 0x63, 0x25, 0x33, 0x44, 0x64,
       0x25, 0x32, 0x35, 0x25, 0x32, 0x33, 0x65, 0x25, 0x32, 0x30, 0x25, 0x43, 0x33, 0x25, 0x41, 0x39] ∧
    getUrlParams (format .strict exComps ⟨true, 4⟩).path (format .strict exComps ⟨true, 4⟩).query
      = .ok (withDefaults exComps) ∧
    (withDefaults exComps).exts = [⟨.bindname, [0x63, 0x6E, 0x3D, 0x4D, 0x2C, 0x64, 0x63, 0x3D, 0x78]⟩, ⟨.startTls, []⟩] := by
  decide

/-- the RFC-minimal formatter leaves `=` `,` raw in the dn (`/o=a%3fb,c=d%25%23e%20%c3%a9`) -/
example : (format (.minimal false) exComps ⟨true, 4⟩).path =
      [0x2F, 0x6F, 0x3D, 0x61, 0x25, 0x33, 0x66, 0x62, 0x2C, 0x63, 0x3D, 0x64, 0x25, 0x32, 0x35, 0x25, 0x32, 0x33,
       0x65, 0x25, 0x32, 0x30, 0x25, 0x63, 0x33, 0x25, 0x61, 0x39] := by decide

/-- omission: only a base — no `?`, one `?`, … four `?` are all legal and `/` may not be dropped;
an empty base with nothing else may drop the `/` -/
example : let c : UrlComps := ⟨[0x6F, 0x3D, 0xC3, 0xA9], [], none, none, []⟩
    WFC c ∧ OnePerKind c ∧ (∀ k ≤ 6, (⟨true, k⟩ : Omit).Legal (encodeComps .strict c)) ∧
    ¬ (⟨false, 0⟩ : Omit).Legal (encodeComps .strict c) ∧
    (⟨false, 0⟩ : Omit).Legal (encodeComps .strict ⟨[], [], none, none, []⟩) ∧
    ¬ (⟨true, 2⟩ : Omit).Legal (encodeComps .strict exComps) := by decide

/-- duplicates: the first `bindname` wins over a later `BINDNAME` -/
example : firstOfKind [⟨.bindname, [0x61]⟩, ⟨.xbindpw, [0x62]⟩, ⟨.bindname, [0x63]⟩] =
    [⟨.bindname, [0x61]⟩, ⟨.xbindpw, [0x62]⟩] := by decide

/-- error hypotheses are satisfiable: an unknown critical extension; the scope word `BASE`; `%ff`, `%c3`
decode to bytes that are not UTF-8; `%`, `%g1`, `%2` are kept literally and are fine -/
example : kindOf [0x78, 0x2D, 0x66, 0x6F, 0x6F] = none ∧
    ([0x42, 0x41, 0x53, 0x45] : Bytes) ≠ litBase ∧
    utf8Valid (percentDecode [0x25, 0x66, 0x66]) = false ∧ utf8Valid (percentDecode [0x25, 0x63, 0x33]) = false ∧
    percentDecode [0x25] = [0x25] ∧ percentDecode [0x25, 0x67, 0x31] = [0x25, 0x67, 0x31] ∧
    percentDecode [0x25, 0x32] = [0x25, 0x32] ∧ percentDecode [0x25, 0x25, 0x34, 0x31] = [0x25, 0x41] := by decide

/-- the model does have the panic: query `???é` (not producible by `Url::parse`) -/
example : getUrlParams [0x2F] (some [0x3F, 0x3F, 0x3F, 0xC3, 0xA9]) = .panic ∧
    getUrlParams [0x2F] (some [0x3F, 0x3F, 0x3F, 0x25, 0x43, 0x33, 0x25, 0x41, 0x39]) ≠ .panic := by decide

/-- `BiNdNaMe` lower-cases to `bindname` -/
example : ([0x42, 0x69, 0x4E, 0x64, 0x4E, 0x61, 0x4D, 0x65] : Bytes).map toAsciiLower = litBindname := by decide

end Ldap3V

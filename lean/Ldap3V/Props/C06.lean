/-
C06 — message framing does not depend on how the byte stream is segmented.
Model: Model/Envelope.lean (`decodeInner` = protocol.rs decode_inner, `Framing` = the
tokio_util FramedRead loop: append what was read, decode until `None`).
-/
import Ldap3V.Lemmas.FramingWF
namespace Ldap3V
open Spec

/-- For ANY byte stream (well-formed or not) the delivered frames, the leftover buffer and the
error state depend only on the concatenation of the read chunks, not on where the reads were cut. -/
theorem C06_segmentation_independent (cs cs' : List Bytes) (h : cs.flatten = cs'.flatten) :
    Framing.feedAll {} cs = Framing.feedAll {} cs' := by
  rw [feedAll_flatten {} cs init_drained, feedAll_flatten {} cs' init_drained, h]

/-- A message is never surfaced before its last byte has arrived: on every proper prefix of every
definite-length encoding the decoder answers "need more" (and leaves the buffer alone: `needMore`
carries no consumed count). -/
theorem C06_prefix_needs_more (m : WireMsg) (e p q : Bytes) (he : Enc m.tlv e)
    (hsz : e.length < 18446744073709551616) (hpq : p ++ q = e) (hq : q ≠ []) :
    decodeInner p = .needMore :=
  decodeInner_msg_prefix m e p q he hsz hpq hq

/-- A complete message is delivered exactly, consuming exactly its own bytes, whatever follows. -/
theorem C06_consumes_own_bytes (m : WireMsg) (e y : Bytes) (hwf : m.WF) (he : Enc m.tlv e)
    (hsz : (e ++ y).length < 18446744073709551616) :
    decodeInner (e ++ y) = .frame m.frame.1 m.frame.2.1 m.frame.2.2 e.length :=
  decodeInner_msg m e y hwf he hsz

/-- For every sequence of well-formed messages, every choice of definite-length encoding of each,
every cut-off point `k` and every partition of the first `k` bytes into reads: the client has
delivered exactly the messages whose last byte is among those `k` bytes, in order, and holds the
remaining bytes unconsumed. -/
theorem C06_exactly_the_complete_ones (ms : List (WireMsg × Bytes)) (k : Nat) (cs : List Bytes)
    (hwf : ∀ p ∈ ms, p.1.WF ∧ Enc p.1.tlv p.2)
    (hk : k ≤ (ms.map (·.2)).flatten.length)
    (hsz : (ms.map (·.2)).flatten.length < 18446744073709551616)
    (hc : cs.flatten = (ms.map (·.2)).flatten.take k) :
    Framing.feedAll {} cs = { buf := (arrived ms k).2, frames := (arrived ms k).1, errored := false } := by
  rw [feedAll_flatten {} cs init_drained, hc]
  unfold Framing.feed
  simp only [Bool.false_eq_true, if_false, List.nil_append]
  have := drain_wf_stream ms k [] _ hwf hk hsz (Nat.lt_succ_self _)
  simpa using this

theorem arrived_all (ms : List (WireMsg × Bytes)) :
    arrived ms (ms.map (·.2)).flatten.length = (ms.map (·.1.frame), []) := by
  induction ms with
  | nil => rfl
  | cons p ms ih =>
    obtain ⟨m, e⟩ := p
    simp only [arrived, List.map_cons, List.flatten_cons, List.length_append]
    rw [if_pos (by omega)]
    have : e.length + (ms.map (·.2)).flatten.length - e.length = (ms.map (·.2)).flatten.length := by omega
    rw [this, ih]

/-- the whole stream, any chunking: all messages, in order, nothing left over -/
theorem C06_chunking (ms : List (WireMsg × Bytes)) (cs : List Bytes)
    (hwf : ∀ p ∈ ms, p.1.WF ∧ Enc p.1.tlv p.2)
    (hsz : (ms.map (·.2)).flatten.length < 18446744073709551616)
    (hc : cs.flatten = (ms.map (·.2)).flatten) :
    Framing.feedAll {} cs = { buf := [], frames := ms.map (·.1.frame), errored := false } := by
  have := C06_exactly_the_complete_ones ms _ cs hwf (Nat.le_refl _) hsz (by rw [hc, List.take_length])
  rw [this, arrived_all]

/-! ### non-vacuity (tests) -/

/-- a DelResponse, message ID 1, success -/
def exMsg : WireMsg := ⟨[1], 1, .cons 1 11 [.prim 0 10 [0], .prim 0 4 [], .prim 0 4 []], none⟩

example : exMsg.WF := by
  refine ⟨by decide, by decide, rfl, ?_, ?_⟩
  · intro cs h; cases h
  · simp [WireMsg.tlv, exMsg, msgTlv, Tlv.depth, Tlv.depthList, maxDepth]

example : Enc exMsg.tlv [0x30, 0x0c, 0x02, 0x01, 0x01, 0x6b, 0x07, 0x0a, 0x01, 0x00, 0x04, 0x00, 0x04, 0x00] := by
  have := enc_encode exMsg.tlv (by simp [exMsg, WireMsg.tlv, msgTlv, WF, WFList, encodeList, encode, encType, encLen])
  simpa [exMsg, WireMsg.tlv, msgTlv, encodeList, encode, encType, encLen] using this

example : (Framing.feedAll {} [[0x30, 0x0c, 0x02], [0x01, 0x01, 0x6b, 0x07, 0x0a, 0x01, 0x00, 0x04], [0x00, 0x04, 0x00, 0x30]]).buf = [0x30] ∧
    (Framing.feedAll {} [[0x30, 0x0c, 0x02], [0x01, 0x01, 0x6b, 0x07, 0x0a, 0x01, 0x00, 0x04], [0x00, 0x04, 0x00, 0x30]]).frames.map (·.1) = [1] := by
  decide

end Ldap3V

/-
C06 — message framing does not depend on how the byte stream is segmented.
Model: Model/Envelope.lean (`decodeInner` = protocol.rs decode_inner, `Framing` = the
tokio_util FramedRead loop: append what was read, decode until `None`).
Second half: the composition with the connection model (Model/Conn.lean) — the frames and the error flag
the connection level is fed, and hence every run of it, do not depend on the segmentation
(`C06_conn_log_independent_of_segmentation`, `C06_conn_run_independent_of_segmentation`, `C06_conn_log_of_wf_stream`).
-/
import Ldap3V.Lemmas.FramingWF
import Ldap3V.Lemmas.FramingConn
namespace Ldap3V
open Spec

/-- For ANY byte stream (well-formed or not) the delivered frames, the leftover buffer and the
error state depend only on the concatenation of the read chunks, not on where the reads were cut. -/
theorem C06_segmentation_independent (cs cs' : List Bytes) (h : cs.flatten = cs'.flatten) :
    Framing.feedAll {} cs = Framing.feedAll {} cs' := by
  rw [feedAll_flatten {} cs init_drained, feedAll_flatten {} cs' init_drained, h]

/-- A message is never surfaced before its last byte has arrived: on every proper prefix of every
definite-length encoding the decoder answers "need more" (and leaves the buffer alone: `needMore`
carries no consumed count). -/
theorem C06_prefix_needs_more (m : WireMsg) (e p q : Bytes) (he : Enc m.tlv e)
    (hsz : e.length < 18446744073709551616) (hpq : p ++ q = e) (hq : q ≠ []) :
    decodeInner p = .needMore :=
  decodeInner_msg_prefix m e p q he hsz hpq hq

/-- A complete message is delivered exactly, consuming exactly its own bytes, whatever follows. -/
theorem C06_consumes_own_bytes (m : WireMsg) (e y : Bytes) (hwf : m.WF) (he : Enc m.tlv e)
    (hsz : (e ++ y).length < 18446744073709551616) :
    decodeInner (e ++ y) = .frame m.frame.1 m.frame.2.1 m.frame.2.2 e.length :=
  decodeInner_msg m e y hwf he hsz

/-- For every sequence of well-formed messages, every choice of definite-length encoding of each,
every cut-off point `k` and every partition of the first `k` bytes into reads: the client has
delivered exactly the messages whose last byte is among those `k` bytes, in order, and holds the
remaining bytes unconsumed. -/
theorem C06_exactly_the_complete_ones (ms : List (WireMsg × Bytes)) (k : Nat) (cs : List Bytes)
    (hwf : ∀ p ∈ ms, p.1.WF ∧ Enc p.1.tlv p.2)
    (hk : k ≤ (ms.map (·.2)).flatten.length)
    (hsz : (ms.map (·.2)).flatten.length < 18446744073709551616)
    (hc : cs.flatten = (ms.map (·.2)).flatten.take k) :
    Framing.feedAll {} cs = { buf := (arrived ms k).2, frames := (arrived ms k).1, errored := false } := by
  rw [feedAll_flatten {} cs init_drained, hc]
  unfold Framing.feed
  simp only [Bool.false_eq_true, if_false, List.nil_append]
  have := drain_wf_stream ms k [] _ hwf hk hsz (Nat.lt_succ_self _)
  simpa using this

theorem arrived_all (ms : List (WireMsg × Bytes)) :
    arrived ms (ms.map (·.2)).flatten.length = (ms.map (·.1.frame), []) := by
  induction ms with
  | nil => rfl
  | cons p ms ih =>
    obtain ⟨m, e⟩ := p
    simp only [arrived, List.map_cons, List.flatten_cons, List.length_append]
    rw [if_pos (by omega)]
    have : e.length + (ms.map (·.2)).flatten.length - e.length = (ms.map (·.2)).flatten.length := by omega
    rw [this, ih]

/-- the whole stream, any chunking: all messages, in order, nothing left over -/
theorem C06_chunking (ms : List (WireMsg × Bytes)) (cs : List Bytes)
    (hwf : ∀ p ∈ ms, p.1.WF ∧ Enc p.1.tlv p.2)
    (hsz : (ms.map (·.2)).flatten.length < 18446744073709551616)
    (hc : cs.flatten = (ms.map (·.2)).flatten) :
    Framing.feedAll {} cs = { buf := [], frames := ms.map (·.1.frame), errored := false } := by
  have := C06_exactly_the_complete_ones ms _ cs hwf (Nat.le_refl _) hsz (by rw [hc, List.take_length])
  rw [this, arrived_all]

/-! ### non-vacuity (tests) -/

/-- a DelResponse, message ID 1, success -/
def exMsg : WireMsg := ⟨[1], 1, .cons 1 11 [.prim 0 10 [0], .prim 0 4 [], .prim 0 4 []], none⟩

example : exMsg.WF := by
  refine ⟨by decide, by decide, rfl, ?_, ?_⟩
  · intro cs h; cases h
  · simp [WireMsg.tlv, exMsg, msgTlv, Tlv.depth, Tlv.depthList, maxDepth]

example : Enc exMsg.tlv [0x30, 0x0c, 0x02, 0x01, 0x01, 0x6b, 0x07, 0x0a, 0x01, 0x00, 0x04, 0x00, 0x04, 0x00] := by
  have := enc_encode exMsg.tlv (by simp [exMsg, WireMsg.tlv, msgTlv, WF, WFList, encodeList, encode, encType, encLen])
  simpa [exMsg, WireMsg.tlv, msgTlv, encodeList, encode, encType, encLen] using this

example : (Framing.feedAll {} [[0x30, 0x0c, 0x02], [0x01, 0x01, 0x6b, 0x07, 0x0a, 0x01, 0x00, 0x04], [0x00, 0x04, 0x00, 0x30]]).buf = [0x30] ∧
    (Framing.feedAll {} [[0x30, 0x0c, 0x02], [0x01, 0x01, 0x6b, 0x07, 0x0a, 0x01, 0x00, 0x04], [0x00, 0x04, 0x00, 0x30]]).frames.map (·.1) = [1] := by
  decide

/-! ## composition with the connection model ("C01_with_framing")

The connection model (Model/Conn.lean) works on a log of abstract frames `Conn.Frame` and a `link`
state; the byte level above produces decoded messages and an error flag.  `connFramesWith tokOf cs`
(Lemmas/FramingConn.lean) is the translation: the `i`-th message `(id, op, ctrls)` delivered by the
read loop on the reads `cs` becomes the frame `⟨id, op.id, tokOf i (id, op, ctrls), (resultExt op).isSome⟩`
(message ID, protocolOp tag number, a token for the rest of the content, "the protocolOp is
LDAPResult-shaped" — exactly what the driver and `op_call` look at), paired with the loop's error
flag; `connFrames` uses the position `i` as the token.  `srvEvents` turns the pair into the model's
events `srvSend f₀, srvSend f₁, …` followed by `srvGarbage` if the flag is set; `weave srv segs`
inserts client/driver events `segs[i]` before the `i`-th of them. -/

/-- **The connection model's input does not depend on how the server's bytes were segmented**: for
ANY byte stream and any two ways of cutting it into reads, the frames handed to the connection
level and the error flag are the same — for every choice of tokens, and also when the stream then
ends (`decode_eof`: leftover bytes are an error). -/
theorem C06_conn_log_independent_of_segmentation (cs cs' : List Bytes) (h : cs.flatten = cs'.flatten) :
    connFrames cs = connFrames cs' ∧ connFramesEof cs = connFramesEof cs' ∧
    ∀ tokOf, connFramesWith tokOf cs = connFramesWith tokOf cs' ∧ connFramesEofWith tokOf cs = connFramesEofWith tokOf cs' :=
  ⟨connFramesWith_flatten _ cs cs' h, connFramesEofWith_flatten _ cs cs' h,
    fun tokOf => ⟨connFramesWith_flatten tokOf cs cs' h, connFramesEofWith_flatten tokOf cs cs' h⟩⟩

/-- … hence **every run of the connection model is the same under every segmentation of the same
server byte stream**: from any state `s`, with the server's events first and then ANY events `evs`
(client calls, driver steps, ticks, faults), the final state and every observation on the way —
every ID handed out, every result an operation returns, every item a stream delivers — are equal.
Also with the transport closed after the stream (`srvEventsEof`). -/
theorem C06_conn_run_independent_of_segmentation (cs cs' : List Bytes) (h : cs.flatten = cs'.flatten)
    (s : Conn.St) (evs : List Conn.Ev) :
    Conn.runObs s (srvEvents (connFrames cs) ++ evs) = Conn.runObs s (srvEvents (connFrames cs') ++ evs) ∧
    Conn.run s (srvEvents (connFrames cs) ++ evs) = Conn.run s (srvEvents (connFrames cs') ++ evs) ∧
    Conn.runObs s (srvEventsEof (connFramesEof cs) ++ evs) = Conn.runObs s (srvEventsEof (connFramesEof cs') ++ evs) ∧
    Conn.run s (srvEventsEof (connFramesEof cs) ++ evs) = Conn.run s (srvEventsEof (connFramesEof cs') ++ evs) := by
  obtain ⟨h1, h2, _⟩ := C06_conn_log_independent_of_segmentation cs cs' h
  rw [h1, h2]
  exact ⟨rfl, rfl, rfl, rfl⟩

/-- … and with the server's events interleaved in any way with the others (`segs[i]` happens before
the `i`-th server event), for any token assignment -/
theorem C06_conn_run_independent_of_segmentation_weave (cs cs' : List Bytes) (h : cs.flatten = cs'.flatten)
    (tokOf : Nat → Int × Tlv × List Control → Nat) (s : Conn.St) (segs : List (List Conn.Ev)) :
    Conn.runObs s (weave (srvEvents (connFramesWith tokOf cs)) segs) =
      Conn.runObs s (weave (srvEvents (connFramesWith tokOf cs')) segs) ∧
    Conn.run s (weave (srvEvents (connFramesWith tokOf cs)) segs) =
      Conn.run s (weave (srvEvents (connFramesWith tokOf cs')) segs) := by
  rw [connFramesWith_flatten tokOf cs cs' h]
  exact ⟨rfl, rfl⟩

/-- **C01_with_framing.**  For every sequence of well-formed messages in any definite-length
encodings and EVERY segmentation of their concatenation into reads, with the client's and driver's
events `segs` interleaved in any way: the server log of the connection model is exactly the frames
of the messages, in order — message ID, protocolOp number and LDAPResult-shape of each, tokens
`0, 1, 2, …` — and the link is up.  So every theorem of C01/C03/C04 about `srvLog` (which frame goes
to which operation, in which order) speaks about the messages the server encoded, however TCP
cut them. -/
theorem C06_conn_log_of_wf_stream (ms : List (WireMsg × Bytes)) (cs : List Bytes)
    (hwf : ∀ p ∈ ms, p.1.WF ∧ Enc p.1.tlv p.2)
    (hsz : (ms.map (·.2)).flatten.length < 18446744073709551616)
    (hc : cs.flatten = (ms.map (·.2)).flatten)
    (N : Nat) (segs : List (List Conn.Ev)) (hs : ∀ seg ∈ segs, ∀ e ∈ seg, Conn.isSrv e = false) :
    connFrames cs = ((ms.map (·.1.frame)).mapIdx fun i m => connFrameWith i m, false) ∧
    (Conn.run (Conn.init N) (weave (srvEvents (connFrames cs)) segs)).srvLog =
      (ms.map (·.1.frame)).mapIdx (fun i m => connFrameWith i m) ∧
    (Conn.run (Conn.init N) (weave (srvEvents (connFrames cs)) segs)).link = .up := by
  have hf : connFrames cs = ((ms.map (·.1.frame)).mapIdx fun i m => connFrameWith i m, false) :=
    connFramesWith_wf _ ms cs hwf hsz hc
  refine ⟨hf, ?_⟩
  rw [hf]
  have := Conn.run_weave_srvEvents ((ms.map (·.1.frame)).mapIdx fun i m => connFrameWith i m) false segs (Conn.init N) rfl hs
  simpa [Conn.init] using this

/-- positional tokens identify frames: two frames of the log with the same token are the same entry -/
theorem C06_conn_tokens_distinct (cs : List Bytes) (i j : Nat) (f g : Conn.Frame)
    (hi : (connFrames cs).1[i]? = some f) (hj : (connFrames cs).1[j]? = some g) (ht : f.tok = g.tok) : i = j :=
  connFrames_tok_inj cs i j f g hi hj ht

/-! ### non-vacuity (tests) -/

/-- a SearchResultEntry under message ID 2 (DN "x", no attributes) -/
def exEntryMsg : WireMsg := ⟨[2], 2, .cons 1 4 [.prim 0 4 [0x78], .cons 0 16 []], none⟩
def exMsgBytes : Bytes := [0x30, 0x0c, 0x02, 0x01, 0x01, 0x6b, 0x07, 0x0a, 0x01, 0x00, 0x04, 0x00, 0x04, 0x00]
def exEntryBytes : Bytes := [0x30, 0x0a, 0x02, 0x01, 0x02, 0x64, 0x05, 0x04, 0x01, 0x78, 0x30, 0x00]

example : exEntryMsg.WF ∧ Enc exEntryMsg.tlv exEntryBytes := by
  refine ⟨⟨by decide, by decide, rfl, ?_, ?_⟩, ?_⟩
  · intro cs h; cases h
  · simp [WireMsg.tlv, exEntryMsg, msgTlv, Tlv.depth, Tlv.depthList, maxDepth]
  · have := enc_encode exEntryMsg.tlv (by simp [exEntryMsg, WireMsg.tlv, msgTlv, WF, WFList, encodeList, encode, encType, encLen])
    simpa [exEntryMsg, exEntryBytes, WireMsg.tlv, msgTlv, encodeList, encode, encType, encLen] using this

/-- the two messages one byte at a time, all at once, and cut inside both: the same two frames
(DelResponse: ID 1, op 11, LDAPResult-shaped; entry: ID 2, op 4, not), no error -/
example :
    ∀ cs ∈ [(exMsgBytes ++ exEntryBytes).map ([·]), [exMsgBytes ++ exEntryBytes],
            [exMsgBytes.take 5, exMsgBytes.drop 5 ++ exEntryBytes.take 3, exEntryBytes.drop 3]],
      cs.flatten = exMsgBytes ++ exEntryBytes ∧ connFrames cs = ([⟨1, 11, 0, true⟩, ⟨2, 4, 1, false⟩], false) := by decide

/-- a bad element after one good message: one frame and the error flag, under both segmentations;
cut off inside the second message: no error yet, but an error at end of stream -/
example :
    connFrames ((exMsgBytes ++ [0x30, 0x03, 0x04, 0x01, 0x41]).map ([·])) = ([⟨1, 11, 0, true⟩], true) ∧
    connFrames [exMsgBytes ++ [0x30, 0x03, 0x04, 0x01, 0x41]] = ([⟨1, 11, 0, true⟩], true) ∧
    connFrames [exMsgBytes ++ exEntryBytes.take 4] = ([⟨1, 11, 0, true⟩], false) ∧
    connFramesEof [exMsgBytes ++ exEntryBytes.take 4] = ([⟨1, 11, 0, true⟩], true) ∧
    connFramesEof [exMsgBytes] = ([⟨1, 11, 0, true⟩], false) := by decide

/-- a run of the connection model fed from the bytes, one byte per read: a Delete (ID 1) and a
search (ID 2) are issued and sent, the driver consumes the two frames, the Delete's caller gets
its response, the stream its entry -/
example :
    (Conn.runObs (Conn.init 100) (srvEvents (connFrames ((exMsgBytes ++ exEntryBytes).map ([·]))) ++
      [.alloc .single, .enqueue 0 none, .alloc .search, .enqueue 1 none, .drvOp true, .drvOp true, .poll 1,
       .drvResp, .drvResp, .poll 0, .recv 0 none])).2.drop 9 =
    [some .none, some .none, some (.res (some (.frame ⟨1, 11, 0, true⟩))), some (.item (some (.entry ⟨2, 4, 1, false⟩)))] := by
  decide

end Ldap3V

/-
C10 — "A streaming search yields exactly the entries, referrals and intermediate messages the server
sent for it, in order, then Ok(None); finish() returns the server's final result with its controls
if the stream was read to the end and a synthetic 'cancelled' result (code 88) otherwise. The stream
moves Fresh, Active, Done, Closed (Error after any failure), next() outside Active returns Ok(None)
without panicking, and a second finish() returns code 80. search() returns exactly the directory
entries in order, merges the URIs of reference messages into the result's referral list and drops
intermediate messages."

Model: Model/Stream.lean (shims `start/next/finish` with the adapter index and the state guards,
`start_inner/next_inner/finish_inner`, `EntriesOnly`, `PagedResults`, `Ldap::search`) over abstract
channel scripts; specification: the cursor of Spec/Stream.lean on `view chain pages`.
All theorems quantify over ALL scripts (items of the three kinds with per-item controls, any ending:
Done with any result code / controls / referrals, disconnect, time-out, silence), ALL call sequences
over {start, next, finish, state} and ALL handles (controls, time-out, options).
`C10_refines`, `C10_finish`, `C10_no_panic` are stated for a direct stream and a stream behind
EntriesOnly (`streamChain false / true`); the state-machine laws (`C10_states`,
`C10_error_is_absorbing` part 1) hold for EVERY adapter chain including PagedResults.

Chains containing PagedResults: until /repo 103366d `finish()` before the end (or after an error) on
page k ≥ 2 returned page k-1's result (finding F23: `stream.res` kept the previous page's result);
the adapter now clears `stream.res` before it submits the follow-up search, the model mirrors it
(`pageStart`), and the finish clause holds for EVERY chain (`C10_finish_any_chain`) and the paged
chains refine the cursor for all call sequences (`C10_refines_paged`).  Paging itself: Props/C16.lean.

Bridge to the connection model (Model/Conn.lean), last section: the scripts are no longer abstract.
`ConnStream.scriptOf D s c` is the script the channel `c` of a connection state `s` produces;
`C10_recv_is_next_inner`: one `.recv` step of the connection model = one `next_inner` on that script;
`C10_conn_stream`: for every history of the connection model, the stream (direct / EntriesOnly) fed
with what the connection put into the search's channel presents exactly the frames the server sent
under the search's ID: items in order, then the result (finish() returns it), for all call sequences.
Soundness (nothing foreign, order) holds outright (`C10_conn_stream_sound`); completeness of the
channel is the explicit hypothesis `ConnStream.ChanComplete` of `C10_conn_stream`.
End to end (last section): `ChanComplete` is DISCHARGED from the completeness of routing (`C01_complete`'s
invariant `CAt`): `C10_end_to_end`, `C10_end_to_end_items`, `C10_end_to_end_cut`, `C10_end_to_end_inv` have no
hypothesis about the contents of the channel, only about the history: the search was not scrubbed /
abandoned / displaced / dropped while the driver ran and its result was outstanding
(`ConnStream.ServedAll`; not needed once the result is in the channel).  `C10_lost_search_incomplete`:
without it the statement is false.  `C10_end_to_end_causal`: the same from the causal hypothesis "no step of
the history is one of the four kinds that can take a search's registration or receiver away" (`lossEv`).
-/
import Ldap3V.Lemmas.StreamC10
import Ldap3V.Lemmas.StreamPagedFinish
import Ldap3V.Lemmas.GenPure
import Ldap3V.Lemmas.ConnStreamTrace
import Ldap3V.Lemmas.ConnStreamCut
import Ldap3V.Lemmas.ConnStreamServed
namespace Ldap3V.Stream
open Spec

/-- the two chains of C10: a direct stream, a stream behind `EntriesOnly` -/
def streamChain (entriesOnly : Bool) : List Adapter := if entriesOnly then [eo] else []
def streamKinds (entriesOnly : Bool) : List AKind := if entriesOnly then [.entriesOnly] else []

/-- For every script, handle and call sequence the model's outputs (what `start`, every `next()`,
`finish()` and `state()` return, up to the first call that never returns) are those of the cursor on
the view: all items in server order for a direct stream; the entries only, with the reference URIs
collected, behind EntriesOnly. -/
theorem C10_refines (entriesOnly : Bool) (h : Handle) (pages : List Page) (q : Query) (calls : List Call) :
    run (init (streamChain entriesOnly) h pages) (.start q :: calls) =
      Cursor.run (startOutcome (streamKinds entriesOnly) h q pages)
        (Cursor.ofView (view (streamKinds entriesOnly) pages)) (.start q :: calls) := by
  cases entriesOnly with
  | false => exact refines_direct h pages q calls
  | true => exact refines_eo h pages q calls

example : run (init (streamChain true) {} [.script [.item ⟨.entry, 1, none, []⟩, .item ⟨.ref, 2, some [[0x6c]], []⟩,
      .item ⟨.inter, 3, none, []⟩, .item ⟨.entry, 4, none, [⟨false, none, 7⟩]⟩, .done ⟨0, [[0x61]], [⟨false, none, 9⟩], .server 5⟩]])
    [.start ⟨1, true⟩, .next, .next, .state, .next, .state, .finish, .finish] =
    [.started .ok, .item (.ok (some ⟨.entry, 1, none, []⟩)), .item (.ok (some ⟨.entry, 4, none, [⟨false, none, 7⟩]⟩)),
     .st .active, .item (.ok none), .st .done, .result ⟨0, [[0x61], [0x6c]], [⟨false, none, 9⟩], .server 5⟩,
     .result alreadyFinalized] := by decide +kernel

/-- The state machine, for EVERY adapter chain and every state of the stream object:
(1) one call moves the state only along Fresh → Active|Error (start), Active → Done|Error (next),
anything but Closed → Closed (finish); (2) `next()` outside Active returns `Ok(None)` and changes
nothing; (3) `finish()` on a Closed stream returns rc 80 "stream already finalized" and changes
nothing; (4) any other `finish()` closes the stream, returns `stream.res` or, if there is none, the
synthetic rc 88 "user cancelled" (with the referrals the EntriesOnly adapters collected appended), and
sends a scrub for the search in flight unless the state was Done. -/
theorem C10_states (m : M) :
    (∀ k, Trans m.s.state (step m k).1.s.state) ∧
    (m.s.state ≠ .active → step m .next = (m, .item (.ok none))) ∧
    (m.s.state = .closed → step m .finish = (m, .result alreadyFinalized)) ∧
    (m.s.state ≠ .closed →
      (step m .finish).2 = .result { (m.s.res.getD cancelled) with
        refs := (m.s.res.getD cancelled).refs ++ chainRefs m.chain } ∧
      (step m .finish).1.s.state = .closed ∧
      (step m .finish).1.s.scrubs = (if m.s.state = .done then m.s.scrubs else m.s.scrubs ++ [m.s.reqs.length])) :=
  ⟨step_trans m, step_next_inactive m, step_finish_closed m, step_finish_open m⟩

example : alreadyFinalized.rc = 80 ∧ cancelled.rc = 88 := ⟨rfl, rfl⟩

/-- `finish()` at any state a direct / EntriesOnly stream can reach: read to the end (state Done) it
returns the server's SearchResultDone `r` — result code, text and controls as sent, referrals
`r.refs` followed by the collected reference URIs (none for a direct stream) — and sends no scrub;
before the end or after a failure (Active / Error) it returns rc 88 "user cancelled" without
controls (referrals: the URIs EntriesOnly had collected so far) and sends exactly one scrub, naming
the search in flight. -/
theorem C10_finish (entriesOnly : Bool) (h : Handle) (pages : List Page) (q : Query) (calls : List Call)
    (hns : ∀ o ∈ run (init (streamChain entriesOnly) h pages) (.start q :: calls), o.stuck = false) :
    let m := exec (init (streamChain entriesOnly) h pages) (.start q :: calls)
    (m.s.state = .done → ∃ l ps r refs, pages = .script l :: ps ∧ Recv.done r ∈ l ∧
      (step m .finish).2 = .result { r with refs := r.refs ++ refs } ∧ (entriesOnly = false → refs = []) ∧
      (step m .finish).1.s.scrubs = m.s.scrubs) ∧
    ((m.s.state = .active ∨ m.s.state = .error) → ∃ refs,
      (step m .finish).2 = .result { cancelled with refs := refs } ∧ (entriesOnly = false → refs = []) ∧
      (step m .finish).1.s.scrubs = m.s.scrubs ++ [m.s.reqs.length]) := by
  intro m
  cases entriesOnly with
  | false =>
    obtain ⟨c, hR, hI, hE⟩ := reach_direct h pages q calls hns
    have hch : m.chain = [] := hR.chain
    have hst : m.s.state = c.state := hR.state
    have hres : m.s.res = c.final := hR.res
    refine ⟨fun hd => ?_, fun ha => ?_⟩
    · obtain ⟨g, r, he, hf⟩ := hI.finDone (by rw [← hst]; exact hd)
      obtain ⟨l, ps, hp, hm⟩ := view_done_mem false pages g r (by show (view [] pages).ending = _; rw [← hE]; exact he)
      obtain ⟨h1, _, h3⟩ := step_finish_open m (by rw [hd]; simp)
      refine ⟨l, ps, r, [], hp, hm, ?_, fun _ => rfl, by rw [h3]; simp [hd]⟩
      rw [h1, hres, hf, hch]; simp [chainRefs]
    · have hnd : c.state ≠ .done := by rw [← hst]; rcases ha with ha | ha <;> rw [ha] <;> simp
      obtain ⟨h1, _, h3⟩ := step_finish_open m (by rcases ha with ha | ha <;> rw [ha] <;> simp)
      refine ⟨[], ?_, fun _ => rfl, ?_⟩
      · rw [h1, hres, hI.fin hnd, hch]; simp [chainRefs, cancelled]
      · rw [h3]; rcases ha with ha | ha <;> simp [ha]
  | true =>
    obtain ⟨c, hR, hI, hE⟩ := reach_eo h pages q calls hns
    have hch : m.chain = [.entriesOnly c.acc] := hR.chain
    have hst : m.s.state = c.state := hR.state
    have hres : m.s.res = c.final := hR.res
    refine ⟨fun hd => ?_, fun ha => ?_⟩
    · obtain ⟨g, r, he, hf⟩ := hI.finDone (by rw [← hst]; exact hd)
      obtain ⟨l, ps, hp, hm⟩ := view_done_mem true pages g r (by show (view [.entriesOnly] pages).ending = _; rw [← hE]; exact he)
      obtain ⟨h1, _, h3⟩ := step_finish_open m (by rw [hd]; simp)
      refine ⟨l, ps, r, c.acc, hp, hm, ?_, fun hb => by simp at hb, by rw [h3]; simp [hd]⟩
      rw [h1, hres, hf, hch]; simp [chainRefs]
    · have hnd : c.state ≠ .done := by rw [← hst]; rcases ha with ha | ha <;> rw [ha] <;> simp
      obtain ⟨h1, _, h3⟩ := step_finish_open m (by rcases ha with ha | ha <;> rw [ha] <;> simp)
      refine ⟨c.acc, ?_, fun hb => by simp at hb, ?_⟩
      · rw [h1, hres, hI.fin hnd, hch]; simp [chainRefs, cancelled]
      · rw [h3]; rcases ha with ha | ha <;> simp [ha]

-- finish() in the middle: rc 88, one scrub for search #1; read to the end: the server's result, no scrub
example : (exec (init (streamChain false) {} [.script [.item ⟨.entry, 1, none, []⟩, .done ⟨32, [], [⟨false, none, 9⟩], .server 5⟩]])
    [.start ⟨1, true⟩, .next, .finish]).s.scrubs = [1] ∧
  (exec (init (streamChain false) {} [.script [.item ⟨.entry, 1, none, []⟩, .done ⟨32, [], [⟨false, none, 9⟩], .server 5⟩]])
    [.start ⟨1, true⟩, .next, .next, .finish]).s.scrubs = [] ∧
  run (init (streamChain false) {} [.script [.item ⟨.entry, 1, none, []⟩, .done ⟨32, [], [⟨false, none, 9⟩], .server 5⟩]])
    [.start ⟨1, true⟩, .next, .next, .finish] =
    [.started .ok, .item (.ok (some ⟨.entry, 1, none, []⟩)), .item (.ok none), .result ⟨32, [], [⟨false, none, 9⟩], .server 5⟩] := by
  decide +kernel

/-- No call sequence makes a direct stream panic or run out of fuel; behind EntriesOnly the same
holds when every reference message has a well-formed URI list (`parse_refs` panics otherwise, on the
caller's side: `C10_malformed_reference_panics`).  In particular `self.rx.as_mut().unwrap()` in
`next_inner` is dead code: `rx` is `None` only in states in which the shim does not call it. -/
theorem C10_no_panic (entriesOnly : Bool) (h : Handle) (pages : List Page) (q : Query) (calls : List Call)
    (hwf : entriesOnly = true → ∀ l ps, pages = .script l :: ps → wfRefs l) :
    ∀ o ∈ run (init (streamChain entriesOnly) h pages) (.start q :: calls), o ≠ .item .panic ∧ o ≠ .item .outOfFuel := by
  rw [C10_refines]
  apply Cursor.run_no_panic
  cases entriesOnly with
  | false =>
    cases pages with
    | nil => simp [streamKinds, view, Cursor.ofView]
    | cons p ps => cases p <;> simp [streamKinds, view, Cursor.ofView, rawView_no_panic]
  | true =>
    cases pages with
    | nil => simp [streamKinds, view, Cursor.ofView, eoView, eoSteps, End.addGain]
    | cons p ps =>
      cases p with
      | script l => exact eoRaw_no_panic l [] (hwf rfl l ps rfl)
      | fail e => simp [streamKinds, view, Cursor.ofView, eoView, eoSteps, End.addGain]

example : wfRefs [.item ⟨.ref, 2, some [[0x6c]], []⟩, .item ⟨.entry, 1, none, []⟩] := by
  intro i hi hk; simp at hi; rcases hi with rfl | rfl <;> simp_all

/-- the branch the hypothesis of `C10_no_panic` excludes: EntriesOnly on a malformed reference -/
theorem C10_malformed_reference_panics :
    run (init (streamChain true) {} [.script [.item ⟨.ref, 2, none, []⟩]]) [.start ⟨1, true⟩, .next, .next] =
      [.started .ok, .item .panic] := by decide +kernel

/-- Errors are absorbing.  (1) For every chain and state: a `next()` that returns `Err` leaves the
stream in state Error, and in state Error every further `next()` returns `Ok(None)` and changes
nothing (only `finish()` leaves Error, to Closed).  (2) A direct stream whose channel is closed
(connection lost) or whose per-call deadline fires after the items `items`: the items in order, then
`Err(EndOfStream)` / `Err(Timeout)`, then `Ok(None)` for ever. -/
theorem C10_error_is_absorbing :
    (∀ (m : M) (e : Err), (step m .next).2 = .item (.err e) → (step m .next).1.s.state = .error) ∧
    (∀ (m : M), m.s.state = .error → step m .next = (m, .item (.ok none))) ∧
    (∀ (h : Handle) (q : Query) (items : List Item) (x : Recv) (e : Err) (tl : List Recv) (ps : List Page) (k : Nat),
      q.filterOk = true → ((x = .closed ∧ e = .endOfStream) ∨ (x = .timeout ∧ e = .timeout)) →
      run (init [] h (.script (items.map .item ++ x :: tl) :: ps))
          (.start q :: List.replicate (items.length + 1 + k) .next) =
        .started .ok :: (items.map (fun i => Output.item (.ok (some i))) ++ [.item (.err e)] ++
          List.replicate k (.item (.ok none)))) := by
  refine ⟨step_next_err, fun m hm => step_next_inactive m (by rw [hm]; simp), ?_⟩
  intro h q items x e tl ps k hq hx
  rw [refines_direct]
  have hso : startOutcome [] h q (.script (items.map .item ++ x :: tl) :: ps) = .ok := by simp [startOutcome, hq]
  rw [hso, Cursor.run]
  have hc : (Cursor.ofView (view [] (.script (items.map .item ++ x :: tl) :: ps))).step .ok (.start q) =
      ({ Cursor.ofView (view [] (.script (items.map .item ++ x :: tl) :: ps)) with state := .active }, .started .ok) := by
    simp [Cursor.step, Cursor.start, Cursor.ofView]
  rw [hc]
  simp only [Output.stuck, Bool.false_eq_true, if_false, List.cons.injEq, true_and]
  obtain ⟨h1, h2⟩ := rawView_items items (x :: tl)
  have hend : (rawView (x :: tl)) = ⟨[], .fail [] e⟩ := by
    rcases hx with ⟨rfl, rfl⟩ | ⟨rfl, rfl⟩ <;> rfl
  have := Cursor.run_nexts_fail .ok (items.map fun i => (⟨[], i⟩ : Step))
    { Cursor.ofView (view [] (.script (items.map .item ++ x :: tl) :: ps)) with state := .active } [] e k rfl
    (by simp [Cursor.ofView, view, h1, hend]) (by simp [Cursor.ofView, view, h2, hend])
  simp only [List.length_map, List.map_map] at this
  rw [this]
  simp [Function.comp_def]

example : run (init [] {} [.script [.item ⟨.entry, 1, none, []⟩, .closed]]) [.start ⟨1, true⟩, .next, .next, .next, .state] =
    [.started .ok, .item (.ok (some ⟨.entry, 1, none, []⟩)), .item (.err .endOfStream), .item (.ok none), .st .error] := by
  decide +kernel

/-- `Ldap::search` on any script `items…, Done(r), …` (references well-formed): exactly the directory
entries in server order; the result is the server's `r` — code, text, controls untouched — whose
referral list is `r.refs` followed by the URIs of the reference messages in order; intermediate
messages are dropped. -/
theorem C10_search (h : Handle) (q : Query) (hq : q.filterOk = true) (items : List Item) (r : Res)
    (tl : List Recv) (ps : List Page) (hwf : ∀ i ∈ items, i.kind = .ref → i.uris ≠ none) :
    search h (.script (items.map .item ++ .done r :: tl) :: ps) q =
      .ok (items.filter fun i => i.kind == .entry) { r with refs := r.refs ++ refUris items } :=
  search_spec h q hq items r tl ps hwf

example : search {} [.script [.item ⟨.entry, 1, none, []⟩, .item ⟨.ref, 2, some [[0x6c], [0x6d]], []⟩,
      .item ⟨.inter, 3, none, []⟩, .item ⟨.entry, 4, none, []⟩, .done ⟨10, [[0x61]], [], .server 5⟩]] ⟨1, true⟩ =
    .ok [⟨.entry, 1, none, []⟩, ⟨.entry, 4, none, []⟩] ⟨10, [[0x61], [0x6c], [0x6d]], [], .server 5⟩ := by decide +kernel

/-- `finish()` at any state reached by ANY call sequence on ANY adapter chain (PagedResults included,
any nesting), the caller never stuck: unless the stream is Done or already Closed — i.e. Fresh,
Active or Error: not read to the end — the result is the synthetic rc 88 "user cancelled" without
controls (referrals: what the EntriesOnly adapters of the chain hold) and exactly one scrub is sent,
for the search in flight.  No hypothesis on the scripts: disconnects, time-outs, follow-up searches
that cannot be submitted are all covered. -/
theorem C10_finish_any_chain (chain : List Adapter) (h : Handle) (pages : List Page) (calls : List Call)
    (hns : ∀ o ∈ run (init chain h pages) calls, o.stuck = false) :
    let m := exec (init chain h pages) calls
    m.s.state ≠ .done → m.s.state ≠ .closed →
      (step m .finish).2 = .result { cancelled with refs := chainRefs m.chain } ∧
      (step m .finish).1.s.scrubs = m.s.scrubs ++ [m.s.reqs.length] :=
  finish_not_done chain h pages calls hns

/-- The three chains with PagedResults refine the cursor on their view for ALL call sequences,
`finish()` anywhere included: at Done the last page's result without its first paging control,
otherwise rc 88. -/
theorem C10_refines_paged (size : Int) (h : Handle) (pages : List Page) (q : Query) (calls : List Call)
    (hh : (h.ctrls.getD []).any RCtl.isPaged = false) (hq : q.filterOk = true) :
    (run (init [pr size] h pages) (.start q :: calls) =
      Cursor.run (startOutcome [.paged] h q pages) (Cursor.ofView (view [.paged] pages)) (.start q :: calls)) ∧
    (run (init [eo, pr size] h pages) (.start q :: calls) =
      Cursor.run (startOutcome [.entriesOnly, .paged] h q pages)
        (Cursor.ofView (view [.entriesOnly, .paged] pages)) (.start q :: calls)) ∧
    (run (init [pr size, eo] h pages) (.start q :: calls) =
      Cursor.run (startOutcome [.paged, .entriesOnly] h q pages)
        (Cursor.ofView (view [.paged, .entriesOnly] pages)) (.start q :: calls)) :=
  ⟨refines_paged_all size h pages q calls hh hq, refines_eo_paged_all size h pages q calls hh hq,
    refines_paged_eo_all size h pages q calls hh hq⟩

/-- The two former witnesses of F23: `finish()` in the middle of page 2, and `finish()` after the
follow-up search could not be submitted, both return the synthetic rc 88 and scrub the search in flight. -/
theorem paged_early_finish_is_cancelled :
    run (init [pr 5] {} [.script [.item ⟨.entry, 1, none, []⟩, .done ⟨0, [], [⟨true, some [7], 0⟩], .server 2⟩],
        .script [.item ⟨.entry, 3, none, []⟩, .item ⟨.entry, 4, none, []⟩, .done ⟨0, [], [⟨true, some [], 0⟩], .server 5⟩]])
      [.start ⟨1, true⟩, .next, .next, .finish] =
    [.started .ok, .item (.ok (some ⟨.entry, 1, none, []⟩)), .item (.ok (some ⟨.entry, 3, none, []⟩)),
     .result cancelled] ∧
    run (init [pr 5] {} [.script [.item ⟨.entry, 1, none, []⟩, .done ⟨0, [], [⟨true, some [7], 0⟩], .server 2⟩, .closed],
        .fail (.op 0)])
      [.start ⟨1, true⟩, .next, .next, .state, .finish] =
    [.started .ok, .item (.ok (some ⟨.entry, 1, none, []⟩)), .item (.err (.op 0)), .st .error,
     .result cancelled] := by decide +kernel

/-! ### tie by regeneration (translate/pure_fns.py): which protocolOp numbers the *current*
src/search.rs calls a reference / an intermediate message (the `Kind` of an item: `EntriesOnly` and
`Ldap::search` branch on exactly these two methods). -/

/-- `ResultEntry::is_ref` is "tag number 19" and `is_intermediate` is "tag number 25", for every tag number -/
theorem C10_item_kinds_source (id : Nat) :
    Gen.resultEntry_is_ref id = some (id == 19) ∧ Gen.resultEntry_is_intermediate id = some (id == 25) :=
  ⟨gen_is_ref id, gen_is_intermediate id⟩


/-! ### bridge to the connection model: the scripts are what the driver puts into the search's channel

`D : ConnStream.Content` decodes the opaque frame tokens of Model/Conn.lean (referral URIs, controls,
result code, referral list); every theorem holds for ALL decodings.  A frame becomes the stream item
with `kind` by its protocolOp number (4 entry, 19 reference, 25 intermediate) and `tok` = the frame's
token (`ConnStream.itemOf`); a SearchResultDone frame becomes the result `ConnStream.resOf`. -/

/-- Simulation.  Connection state `s`, a stream whose receiver holds the script of channel `c`.
One `.recv c dl` step of the connection model (= one wait of `next_inner` on the channel) observes
what `nextInner` of the stream model returns, and the receiver then holds the script of the new
connection state: an entry / reference / intermediate frame ⇒ `Ok(Some(item))`; the
SearchResultDone ⇒ `Ok(None)`, `res` set, receiver dropped; closed and drained ⇒ `Err(EndOfStream)`,
receiver dropped; nothing there yet ⇒ the caller waits.  Holds in EVERY state (no invariant needed). -/
theorem C10_recv_is_next_inner (D : ConnStream.Content) (s s' : Conn.St) (c : Nat) (dl : Option Nat) (ob : Conn.Obs)
    (hs : Conn.step s (.recv c dl) = some (s', ob)) (m : Stream) (hrx : m.rx = some (ConnStream.scriptOf D s c)) :
    (∀ f, ob = .item (some (.entry f)) →
      nextInner m = ({ m with rx := some (ConnStream.scriptOf D s' c) }, .ok (some (ConnStream.itemOf D f))) ∧
      ConnStream.scriptOf D s c = .item (ConnStream.itemOf D f) :: ConnStream.scriptOf D s' c) ∧
    (∀ f, ob = .item (some (.done f)) →
      nextInner m = ({ m with res := some (ConnStream.resOf D f), rx := none }, .ok none) ∧
      ConnStream.scriptOf D s c = .done (ConnStream.resOf D f) :: ConnStream.scriptOf D s' c) ∧
    (ob = .closed → nextInner m = ({ m with rx := none }, .err .endOfStream) ∧ s' = s ∧
      ConnStream.scriptOf D s c = [.closed]) ∧
    (ob = .pending → nextInner m = (m, .pending) ∧ s' = s ∧ ConnStream.scriptOf D s c = []) := by
  obtain ⟨h1, h2, h3, h4⟩ := ConnStream.nextInner_sim D hs m hrx
  refine ⟨fun f hf => ⟨h1 f hf, ?_⟩, fun f hf => ⟨h2 f hf, ?_⟩, fun hf => ⟨h3 hf, ?_⟩, fun hf => ⟨h4 hf, ?_⟩⟩
  · rcases ConnStream.recv_sim D hs with ⟨it, hob, hscr⟩ | ⟨hob, _⟩ | ⟨hob, _⟩ | ⟨hob, _⟩
    · rw [hf] at hob; cases hob; exact hscr
    · rw [hf] at hob; cases hob
    · rw [hf] at hob; cases hob
    · rcases hob with hob | hob <;> (rw [hf] at hob; cases hob)
  · rcases ConnStream.recv_sim D hs with ⟨it, hob, hscr⟩ | ⟨hob, _⟩ | ⟨hob, _⟩ | ⟨hob, _⟩
    · rw [hf] at hob; cases hob; exact hscr
    · rw [hf] at hob; cases hob
    · rw [hf] at hob; cases hob
    · rcases hob with hob | hob <;> (rw [hf] at hob; cases hob)
  · rcases ConnStream.recv_sim D hs with ⟨it, hob, _⟩ | ⟨_, h5, h6⟩ | ⟨hob, _⟩ | ⟨hob, _⟩
    · rw [hf] at hob; cases hob
    · exact ⟨h5, h6⟩
    · rw [hf] at hob; cases hob
    · rcases hob with hob | hob <;> (rw [hf] at hob; cases hob)
  · rcases ConnStream.recv_sim D hs with ⟨it, hob, _⟩ | ⟨hob, _⟩ | ⟨_, h5, h6⟩ | ⟨hob, _⟩
    · rw [hf] at hob; cases hob
    · rw [hf] at hob; cases hob
    · exact ⟨h5, h6⟩
    · rcases hob with hob | hob <;> (rw [hf] at hob; cases hob)

/-- the content decoding and the history of the examples below: one search (ID 1) submitted, written
and acknowledged; the server sends an entry, a reference and the final result under ID 1 and an
unrelated frame under ID 9; the driver reads all four -/
def bridgeD : ConnStream.Content :=
  ⟨fun t => if t = 71 then some [[0x6c]] else none, fun t => if t = 72 then [⟨false, none, 9⟩] else [], fun _ => 32, fun _ => [[0x61]]⟩

def bridgeEvs : List Conn.Ev :=
  [.alloc .search, .enqueue 0 none, .drvOp true, .poll 0,
   .srvSend ⟨1, 4, 70, false⟩, .srvSend ⟨9, 4, 99, false⟩, .srvSend ⟨1, 19, 71, false⟩, .srvSend ⟨1, 5, 72, true⟩,
   .drvResp, .drvResp, .drvResp, .drvResp]

example : ConnStream.scriptOf bridgeD (Conn.run (Conn.init 100) bridgeEvs) 0 =
      [.item ⟨.entry, 70, none, []⟩, .item ⟨.ref, 71, some [[0x6c]], []⟩, .done ⟨32, [[0x61]], [⟨false, none, 9⟩], .server 72⟩, .closed] ∧
    (Conn.step (Conn.run (Conn.init 100) bridgeEvs) (.recv 0 none)).map (·.2) = some (.item (some (.entry ⟨1, 4, 70, false⟩))) ∧
    ConnStream.scriptOf bridgeD (Conn.run (Conn.init 100) (bridgeEvs ++ [.recv 0 none])) 0 =
      [.item ⟨.ref, 71, some [[0x6c]], []⟩, .done ⟨32, [[0x61]], [⟨false, none, 9⟩], .server 72⟩, .closed] := by decide

/-- Soundness of the channel, for EVERY history of the connection model and every search channel
(no hypothesis): the script the stream is fed with consists of frames the server sent under the
search's own message ID and the driver read, in sending order (a subsequence), each handed on as
an item iff its protocolOp is 4 / 19 / 25 and as the final result iff it is a well-formed
SearchResultDone (5); then `closed` iff no sender is left. -/
theorem C10_conn_stream_sound (D : ConnStream.Content) (N : Nat) (evs : List Conn.Ev) (c : Nat) (ch : Conn.Chan) (o : Conn.Op)
    (hc : (Conn.run (Conn.init N) evs).chans[c]? = some ch) (ho : (Conn.run (Conn.init N) evs).ops[ch.opIdx]? = some o) :
    (ch.items.map Conn.itemFrame).Sublist (ConnStream.sentFor (Conn.run (Conn.init N) evs) o.id) ∧
    (∀ f ∈ ch.items.map Conn.itemFrame, ConnStream.isItemOp f.op = true ∨ (f.op = 5 ∧ f.good = true)) ∧
    ConnStream.fullScript D (Conn.run (Conn.init N) evs) c =
      (ch.items.map Conn.itemFrame).map (ConnStream.recvOfFrame D) ++ ConnStream.closedTail (Conn.run (Conn.init N) evs) c ∧
    (ch.taken ≤ ch.items.length ∧
      ConnStream.scriptOf D (Conn.run (Conn.init N) evs) c = (ConnStream.fullScript D (Conn.run (Conn.init N) evs) c).drop ch.taken) := by
  have hwf := ConnStream.ChanWF.run N evs
  obtain ⟨h1, h2, h3⟩ := ConnStream.fullScript_sound D (Conn.RouteInv.run N evs) hwf hc ho
  exact ⟨h1, h2, h3, (hwf.get hc).1, ConnStream.scriptOf_drop hc (hwf.get hc).1⟩

/-- channel and operation record of the search at the end of `bridgeEvs` -/
def bridgeCh : Conn.Chan :=
  { opIdx := 0, items := [.entry ⟨1, 4, 70, false⟩, .entry ⟨1, 19, 71, false⟩, .done ⟨1, 5, 72, true⟩] }
def bridgeOp : Conn.Op :=
  { id := 1, kind := .search, mail := .ack, res := some .ack, chan := some 0, phase := .taken }

example : (Conn.run (Conn.init 100) bridgeEvs).chans[0]? = some bridgeCh ∧
    (Conn.run (Conn.init 100) bridgeEvs).ops[bridgeCh.opIdx]? = some bridgeOp := by decide

/-- The bridge.  Any history `evs` of the connection model (any interleaving of callers, driver,
server and faults), a search with channel `c` and operation record `o`, in a state where the driver
has ended or the search's SearchResultDone has been routed; `sent` = the frames the server sent under
the search's message ID (as far as the driver read them; counted from the `p0`-th frame of the
connection on — `p0` = what the server had sent when the search was registered, 0 = everything), in order.
HYPOTHESIS `ChanComplete` (completeness of routing; being proved separately as `C01_complete`): the
channel was given every one of those frames up to the one that ends the search.
Then a stream — direct, or behind EntriesOnly — whose inner receive is fed by that channel
(`fullScript`: what the channel has held from its first item on, then `closed` if it has no sender)
answers EVERY call sequence exactly as the specification cursor on the view of `sent`
(`ConnStream.sentView`): `next()` yields the server's entries / references / intermediate messages
item for item, in order, then `Ok(None)` and `finish()` returns the server's result; if the frames
end without a result, `Err(EndOfStream)` after the last item and `finish()` returns rc 88.
Behind EntriesOnly: the entries only, the reference URIs merged into the result (`eoView`). -/
theorem C10_conn_stream (D : ConnStream.Content) (N : Nat) (evs : List Conn.Ev) (c : Nat) (ch : Conn.Chan) (o : Conn.Op)
    (p0 : Nat) (entriesOnly : Bool) (h : Handle) (q : Query) (calls : List Call)
    (hc : (Conn.run (Conn.init N) evs).chans[c]? = some ch)
    (_ho : (Conn.run (Conn.init N) evs).ops[ch.opIdx]? = some o)
    (hcomp : ConnStream.ChanComplete (Conn.run (Conn.init N) evs) ch o p0)
    (hend : (Conn.run (Conn.init N) evs).drv ≠ .running ∨ ∃ f, Conn.Item.done f ∈ ch.items) :
    run (init (streamChain entriesOnly) h [.script (ConnStream.fullScript D (Conn.run (Conn.init N) evs) c)]) (.start q :: calls) =
      Cursor.run (if q.filterOk then .ok else .err .filterParsing)
        (Cursor.ofView
          (if entriesOnly then eoView (ConnStream.sentView D false (ConnStream.sentFrom (Conn.run (Conn.init N) evs) p0 o.id))
           else ConnStream.sentView D false (ConnStream.sentFrom (Conn.run (Conn.init N) evs) p0 o.id)))
        (.start q :: calls) := by
  have hwf := ConnStream.ChanWF.run N evs
  rw [← ConnStream.sentView_ended D hwf hc hcomp hend]
  exact ConnStream.conn_stream_refines D hc (hwf.get hc) hcomp entriesOnly h q calls

/-- `C10_conn_stream` spelled out for a completed search: `sent = its ++ fd :: rest`, `its` items,
`fd` the well-formed SearchResultDone.  Direct stream: `its.length` calls of `next()` return the
frames of `its` one by one (kind by protocolOp, same token), the next returns `Ok(None)`, `finish()`
returns `fd`'s result.  `Ldap::search` (EntriesOnly, drain, finish): exactly the entries among `its`
in order, and `fd`'s result with the URIs of the references appended to its referral list. -/
theorem C10_conn_stream_items (D : ConnStream.Content) (N : Nat) (evs : List Conn.Ev) (c : Nat) (ch : Conn.Chan) (o : Conn.Op)
    (p0 : Nat) (h : Handle) (q : Query) (hq : q.filterOk = true)
    (hc : (Conn.run (Conn.init N) evs).chans[c]? = some ch)
    (_ho : (Conn.run (Conn.init N) evs).ops[ch.opIdx]? = some o)
    (hcomp : ConnStream.ChanComplete (Conn.run (Conn.init N) evs) ch o p0)
    (its : List Conn.Frame) (fd : Conn.Frame) (rest : List Conn.Frame)
    (hsent : ConnStream.sentFrom (Conn.run (Conn.init N) evs) p0 o.id = its ++ fd :: rest)
    (hi : ∀ f ∈ its, ConnStream.isItemOp f.op = true) (h5 : fd.op = 5) (hg : fd.good = true) :
    run (init [] h [.script (ConnStream.fullScript D (Conn.run (Conn.init N) evs) c)])
        (.start q :: (List.replicate (its.length + 1) .next ++ [.finish])) =
      .started .ok :: (its.map (fun f => Output.item (.ok (some (ConnStream.itemOf D f)))) ++
        [.item (.ok none), .result (ConnStream.resOf D fd)]) ∧
    ((∀ f ∈ its, f.op = 19 → D.uris f.tok ≠ none) →
      search h [.script (ConnStream.fullScript D (Conn.run (Conn.init N) evs) c)] q =
        .ok ((its.map (ConnStream.itemOf D)).filter fun i => i.kind == .entry)
          { ConnStream.resOf D fd with refs := (ConnStream.resOf D fd).refs ++ refUris (its.map (ConnStream.itemOf D)) }) := by
  have hwf := ConnStream.ChanWF.run N evs
  have hshape := ConnStream.fullScript_shape D hc (hwf.get hc) hcomp hsent hi h5 hg
  rw [hshape]
  refine ⟨?_, fun hu => ?_⟩
  · have := ConnStream.run_direct_items_done h q hq (its.map (ConnStream.itemOf D)) (ConnStream.resOf D fd)
      (ConnStream.closedTail (Conn.run (Conn.init N) evs) c) []
    simp only [List.length_map] at this
    rw [this]
    simp [Function.comp_def]
  · apply C10_search h q hq
    intro i hi' hk
    obtain ⟨f, hf, rfl⟩ := List.mem_map.mp hi'
    have h19 : f.op = 19 := by
      simp only [ConnStream.itemOf, ConnStream.kindOfOp] at hk
      split at hk
      · assumption
      · split at hk <;> cases hk
    exact hu f hf h19

/-- What the caller HAS received and what it WILL receive make up the channel, for every history:
the items handed to the `.recv c _` events of the history (`ConnStream.recvTrace`, read off the
observations step by step), followed by the script still to come, are the full script.  So the
stream of `C10_conn_stream`, fed with `fullScript`, is the stream the caller has been reading all
along, whatever the interleaving of its `next()` calls with the driver. -/
theorem C10_conn_recv_trace (D : ConnStream.Content) (N : Nat) (evs : List Conn.Ev) (c : Nat) :
    (ConnStream.recvTrace c (Conn.init N) evs).map (ConnStream.recvOf D) ++
        ConnStream.scriptOf D (Conn.run (Conn.init N) evs) c =
      ConnStream.fullScript D (Conn.run (Conn.init N) evs) c :=
  ConnStream.trace_script D N evs c

-- the caller polls between the driver's steps: one item received early, one late, the result still queued
example : ConnStream.recvTrace 0 (Conn.init 100)
      [.alloc .search, .enqueue 0 none, .drvOp true, .poll 0, .srvSend ⟨1, 4, 70, false⟩, .recv 0 none, .drvResp,
       .recv 0 none, .srvSend ⟨1, 19, 71, false⟩, .srvSend ⟨1, 5, 72, true⟩, .drvResp, .drvResp, .recv 0 none] =
    [.entry ⟨1, 4, 70, false⟩, .entry ⟨1, 19, 71, false⟩] := by decide

-- non-vacuity of `C10_conn_stream` / `C10_conn_stream_items`: the hypotheses hold for the concrete
-- history (the channel is complete, the search is complete), and the outputs are the three frames
example : (Conn.run (Conn.init 100) bridgeEvs).chans[0]? = some bridgeCh ∧
    (Conn.run (Conn.init 100) bridgeEvs).ops[bridgeCh.opIdx]? = some bridgeOp ∧
    ConnStream.ChanComplete (Conn.run (Conn.init 100) bridgeEvs) bridgeCh bridgeOp 0 ∧
    Conn.Item.done ⟨1, 5, 72, true⟩ ∈ bridgeCh.items ∧
    ConnStream.sentFrom (Conn.run (Conn.init 100) bridgeEvs) 0 bridgeOp.id =
      [⟨1, 4, 70, false⟩, ⟨1, 19, 71, false⟩] ++ ⟨1, 5, 72, true⟩ :: [] := by decide

example : run (init [] {} [.script (ConnStream.fullScript bridgeD (Conn.run (Conn.init 100) bridgeEvs) 0)])
      [.start ⟨1, true⟩, .next, .next, .next, .next, .finish] =
    [.started .ok, .item (.ok (some ⟨.entry, 70, none, []⟩)), .item (.ok (some ⟨.ref, 71, some [[0x6c]], []⟩)),
     .item (.ok none), .item (.ok none), .result ⟨32, [[0x61]], [⟨false, none, 9⟩], .server 72⟩] ∧
    search {} [.script (ConnStream.fullScript bridgeD (Conn.run (Conn.init 100) bridgeEvs) 0)] ⟨1, true⟩ =
      .ok [⟨.entry, 70, none, []⟩] ⟨32, [[0x61], [0x6c]], [⟨false, none, 9⟩], .server 72⟩ := by decide +kernel

-- why `p0`: a frame under ID 1 read BEFORE the search is registered is dropped (it belongs to nobody);
-- the channel is complete from frame 1 on, not from frame 0 on
example :
    let evs : List Conn.Ev := [.srvSend ⟨1, 4, 60, false⟩, .drvResp, .alloc .search, .enqueue 0 none, .drvOp true, .poll 0,
      .srvSend ⟨1, 4, 70, false⟩, .srvSend ⟨1, 5, 72, true⟩, .drvResp, .drvResp]
    (Conn.run (Conn.init 100) evs).chans[0]? = some { opIdx := 0, items := [.entry ⟨1, 4, 70, false⟩, .done ⟨1, 5, 72, true⟩] } ∧
    ConnStream.ChanComplete (Conn.run (Conn.init 100) evs)
      { opIdx := 0, items := [.entry ⟨1, 4, 70, false⟩, .done ⟨1, 5, 72, true⟩] } bridgeOp 1 ∧
    ¬ ConnStream.ChanComplete (Conn.run (Conn.init 100) evs)
      { opIdx := 0, items := [.entry ⟨1, 4, 70, false⟩, .done ⟨1, 5, 72, true⟩] } bridgeOp 0 := by decide

-- the other branch of `hend`: a malformed SearchResultDone under the search's ID ends the driver (F4);
-- the channel is complete, closed, and the stream yields the entry, then Err(EndOfStream); finish(): rc 88
example :
    let evs : List Conn.Ev := [.alloc .search, .enqueue 0 none, .drvOp true, .poll 0,
      .srvSend ⟨1, 4, 70, false⟩, .srvSend ⟨1, 5, 72, false⟩, .srvSend ⟨1, 4, 73, false⟩, .drvResp, .drvResp, .drvResp]
    (Conn.run (Conn.init 100) evs).drv = .endedErr ∧
    (Conn.run (Conn.init 100) evs).chans[0]? = some { opIdx := 0, items := [.entry ⟨1, 4, 70, false⟩] } ∧
    ConnStream.ChanComplete (Conn.run (Conn.init 100) evs) { opIdx := 0, items := [.entry ⟨1, 4, 70, false⟩] }
      { bridgeOp with mail := .ack } 0 ∧
    run (init [] {} [.script (ConnStream.fullScript bridgeD (Conn.run (Conn.init 100) evs) 0)])
        [.start ⟨1, true⟩, .next, .next, .next, .finish] =
      [.started .ok, .item (.ok (some ⟨.entry, 70, none, []⟩)), .item (.err .endOfStream), .item (.ok none), .result cancelled] := by
  decide +kernel

/-! ### end to end: `ChanComplete` discharged from the completeness of routing (C01)

The situation of `C01_complete`: ANY history `pre`, after which the driver is running and the request at
the head of its queue is the search `o` (operation `i`, channel `c`); the driver handles it (`drvOp b`)
at read position `p0 = s0.pos`; then ANYTHING happens (`post`).  `sent` = the frames under `o`'s ID among
`srvLog[p0 .. pos)` of the final state, in order (`ConnStream.sentFrom s p0 o.id`).

No hypothesis about the channel's contents is left.  What is needed instead, and only when the final
result is not in the channel, is that the search was not LOST: `ConnStream.ServedAll N pre b post c o.id`
— at every moment after the driver took the request at which the driver was running and the
SearchResultDone had not been delivered, the search was still registered and its receiver alive
(`ConnStream.Served`; decidable on a concrete history).  It excludes: a scrub (a `next()` or `op_call`
time-out, `finish()` before the end, a stale scrub for a reused ID), an Abandon naming the ID, a later
search taking over the ID (wrap, F13), a receiver dropped before a further frame came.  For those the
statement is false (`C10_lost_search_incomplete`): the driver drops later frames under the ID as
unmatched.  No schedule hypothesis (`FreshRun`) is needed, so there is no `_nowrap` variant. -/

/-- End to end, all call sequences.  If the SearchResultDone is in the channel, or the driver has ended
and the search was served until then, a stream — direct, or behind EntriesOnly — fed by the channel
answers EVERY call sequence as the specification cursor on the view of `sent`: the server's entries /
references / intermediate messages under the search's ID from `p0` on, item for item, in order, then
`Ok(None)` and `finish()` returns the server's result; if the connection ended first,
`Err(EndOfStream)` after the last item and `finish()` returns the synthetic rc 88. -/
theorem C10_end_to_end (D : ConnStream.Content) (N : Nat) (pre post : List Conn.Ev) (b : Bool) (i c : Nat) (o : Conn.Op)
    (entriesOnly : Bool) (h : Handle) (q : Query) (calls : List Call) :
    let s0 := Conn.run (Conn.init N) pre
    let s := Conn.run (Conn.init N) (pre ++ Conn.Ev.drvOp b :: post)
    s0.drv = .running → s0.opQ.head? = some i → s0.ops[i]? = some o → o.chan = some c →
    ∀ ch, s.chans[c]? = some ch →
      ((∃ f, Conn.Item.done f ∈ ch.items) ∨ (s.drv ≠ .running ∧ ConnStream.ServedAll N pre b post c o.id)) →
      run (init (streamChain entriesOnly) h [.script (ConnStream.fullScript D s c)]) (.start q :: calls) =
        Cursor.run (if q.filterOk then .ok else .err .filterParsing)
          (Cursor.ofView
            (if entriesOnly then eoView (ConnStream.sentView D false (ConnStream.sentFrom s s0.pos o.id))
             else ConnStream.sentView D false (ConnStream.sentFrom s s0.pos o.id)))
          (.start q :: calls) := by
  intro s0 s hd hq ho hc ch hch hend
  have hwf := ConnStream.ChanWF.run N (pre ++ Conn.Ev.drvOp b :: post)
  have hcomp : ConnStream.ChanComplete s ch o s0.pos :=
    ConnStream.chanComplete_of N pre post b hd hq ho hc hch (hend.imp id (·.2)) o rfl
  have hend' : s.drv ≠ .running ∨ ∃ f, Conn.Item.done f ∈ ch.items := by
    rcases hend with h1 | ⟨h2, _⟩
    · exact Or.inr h1
    · exact Or.inl h2
  rw [← ConnStream.sentView_ended D hwf hch hcomp hend']
  exact ConnStream.conn_stream_refines D hch (hwf.get hch) hcomp entriesOnly h q calls

/-- The same at ANY moment of a served search (still in progress, read to the end, or cut off): the view
ends in the server's result if it has come, in `Err(EndOfStream)` if the channel has no sender left
(`chanOpen = false`), and in an endless wait otherwise. -/
theorem C10_end_to_end_any (D : ConnStream.Content) (N : Nat) (pre post : List Conn.Ev) (b : Bool) (i c : Nat) (o : Conn.Op)
    (entriesOnly : Bool) (h : Handle) (q : Query) (calls : List Call) :
    let s0 := Conn.run (Conn.init N) pre
    let s := Conn.run (Conn.init N) (pre ++ Conn.Ev.drvOp b :: post)
    s0.drv = .running → s0.opQ.head? = some i → s0.ops[i]? = some o → o.chan = some c →
    ∀ ch, s.chans[c]? = some ch →
      ((∃ f, Conn.Item.done f ∈ ch.items) ∨ ConnStream.ServedAll N pre b post c o.id) →
      run (init (streamChain entriesOnly) h [.script (ConnStream.fullScript D s c)]) (.start q :: calls) =
        Cursor.run (if q.filterOk then .ok else .err .filterParsing)
          (Cursor.ofView
            (if entriesOnly then eoView (ConnStream.sentView D (Conn.chanOpen s c) (ConnStream.sentFrom s s0.pos o.id))
             else ConnStream.sentView D (Conn.chanOpen s c) (ConnStream.sentFrom s s0.pos o.id)))
          (.start q :: calls) := by
  intro s0 s hd hq ho hc ch hch hsv
  have hwf := ConnStream.ChanWF.run N (pre ++ Conn.Ev.drvOp b :: post)
  have hcomp : ConnStream.ChanComplete s ch o s0.pos := ConnStream.chanComplete_of N pre post b hd hq ho hc hch hsv o rfl
  exact ConnStream.conn_stream_refines D hch (hwf.get hch) hcomp entriesOnly h q calls

/-- End to end, spelled out for a search whose result the driver has read: `sent = its ++ fd :: rest`, `its`
item frames, `fd` the well-formed SearchResultDone.  Hypotheses on the history and on what the SERVER
sent only (`ServedAll` up to the final state, or the Done in the channel).  Direct stream: `its.length`
calls of `next()` return the frames of `its` one by one, the next returns `Ok(None)`, `finish()` returns
`fd`'s result.  `Ldap::search`: exactly the entries among `its` in order, and `fd`'s result with the URIs
of the references appended to its referral list. -/
theorem C10_end_to_end_items (D : ConnStream.Content) (N : Nat) (pre post : List Conn.Ev) (b : Bool) (i c : Nat) (o : Conn.Op)
    (h : Handle) (q : Query) (hq : q.filterOk = true) :
    let s0 := Conn.run (Conn.init N) pre
    let s := Conn.run (Conn.init N) (pre ++ Conn.Ev.drvOp b :: post)
    s0.drv = .running → s0.opQ.head? = some i → s0.ops[i]? = some o → o.chan = some c →
    ∀ ch, s.chans[c]? = some ch →
      ((∃ f, Conn.Item.done f ∈ ch.items) ∨ ConnStream.ServedAll N pre b post c o.id) →
      ∀ (its : List Conn.Frame) (fd : Conn.Frame) (rest : List Conn.Frame),
        ConnStream.sentFrom s s0.pos o.id = its ++ fd :: rest →
        (∀ f ∈ its, ConnStream.isItemOp f.op = true) → fd.op = 5 → fd.good = true →
        run (init [] h [.script (ConnStream.fullScript D s c)])
            (.start q :: (List.replicate (its.length + 1) .next ++ [.finish])) =
          .started .ok :: (its.map (fun f => Output.item (.ok (some (ConnStream.itemOf D f)))) ++
            [.item (.ok none), .result (ConnStream.resOf D fd)]) ∧
        ((∀ f ∈ its, f.op = 19 → D.uris f.tok ≠ none) →
          search h [.script (ConnStream.fullScript D s c)] q =
            .ok ((its.map (ConnStream.itemOf D)).filter fun i => i.kind == .entry)
              { ConnStream.resOf D fd with refs := (ConnStream.resOf D fd).refs ++ refUris (its.map (ConnStream.itemOf D)) }) := by
  intro s0 s hd hq' ho hc ch hch hsv its fd rest hsent hi h5 hg
  have hwf := ConnStream.ChanWF.run N (pre ++ Conn.Ev.drvOp b :: post)
  have hcomp : ConnStream.ChanComplete s ch o s0.pos := ConnStream.chanComplete_of N pre post b hd hq' ho hc hch hsv o rfl
  have hshape := ConnStream.fullScript_shape D hch (hwf.get hch) hcomp hsent hi h5 hg
  rw [hshape]
  refine ⟨?_, fun hu => ?_⟩
  · have := ConnStream.run_direct_items_done h q hq (its.map (ConnStream.itemOf D)) (ConnStream.resOf D fd)
      (ConnStream.closedTail s c) []
    simp only [List.length_map] at this
    rw [this]
    simp [Function.comp_def]
  · apply C10_search h q hq
    intro x hx hk
    obtain ⟨f, hf, rfl⟩ := List.mem_map.mp hx
    have h19 : f.op = 19 := by
      simp only [ConnStream.itemOf, ConnStream.kindOfOp] at hk
      split at hk
      · assumption
      · split at hk <;> cases hk
    exact hu f hf h19

/-- End to end, spelled out for a search cut off by the end of the connection: the driver has ended, the
search was served until then, and `sent = its ++ tl`: item frames, then nothing more or a frame the
driver does not hand on (`CutTail`: e.g. the malformed frame that ended the connection, fix F4).  A direct
stream returns the frames of `its` one by one, then `Err(EndOfStream)`, then `Ok(None)` as often as
asked, and `finish()` returns the synthetic "user cancelled" result (rc 88). -/
theorem C10_end_to_end_cut (D : ConnStream.Content) (N : Nat) (pre post : List Conn.Ev) (b : Bool) (i c : Nat) (o : Conn.Op)
    (h : Handle) (q : Query) (hq : q.filterOk = true) (k : Nat) :
    let s0 := Conn.run (Conn.init N) pre
    let s := Conn.run (Conn.init N) (pre ++ Conn.Ev.drvOp b :: post)
    s0.drv = .running → s0.opQ.head? = some i → s0.ops[i]? = some o → o.chan = some c →
    ∀ ch, s.chans[c]? = some ch → s.drv ≠ .running → ConnStream.ServedAll N pre b post c o.id →
      ∀ (its tl : List Conn.Frame), ConnStream.sentFrom s s0.pos o.id = its ++ tl →
        (∀ f ∈ its, ConnStream.isItemOp f.op = true) → ConnStream.CutTail tl →
        run (init [] h [.script (ConnStream.fullScript D s c)])
            (.start q :: (List.replicate (its.length + 1 + k) .next ++ [.finish])) =
          .started .ok :: (its.map (fun f => Output.item (.ok (some (ConnStream.itemOf D f)))) ++
            [.item (.err .endOfStream)] ++ List.replicate k (.item (.ok none)) ++ [.result cancelled]) := by
  intro s0 s hd hq' ho hc ch hch hdead hsv its tl hsent hi ht
  have hwf := ConnStream.ChanWF.run N (pre ++ Conn.Ev.drvOp b :: post)
  have hcomp : ConnStream.ChanComplete s ch o s0.pos :=
    ConnStream.chanComplete_of N pre post b hd hq' ho hc hch (Or.inr hsv) o rfl
  rw [ConnStream.fullScript_cut D hwf hch hcomp hdead hsent hi ht]
  have := ConnStream.run_direct_items_closed h q hq (its.map (ConnStream.itemOf D)) [] [] k
  simp only [List.length_map] at this
  rw [this]
  simp [Function.comp_def]

/-- End to end as an invariant of every reachable state (start position existentially quantified):
EVERY history `evs`, every search channel `c` with its operation record `o`; the driver has ended or the
result is in the channel; the result is in the channel or the search was served throughout
(`ServedHist`).  Then there is a read position `p0` such that the stream fed by the channel presents
exactly the frames under the search's ID read from `p0` on: `C10_conn_stream` with `hcomp` discharged. -/
theorem C10_end_to_end_inv (D : ConnStream.Content) (N : Nat) (evs : List Conn.Ev) (c : Nat) (ch : Conn.Chan) (o : Conn.Op)
    (entriesOnly : Bool) (h : Handle) (q : Query) (calls : List Call)
    (hc : (Conn.run (Conn.init N) evs).chans[c]? = some ch)
    (ho : (Conn.run (Conn.init N) evs).ops[ch.opIdx]? = some o)
    (hsv : (∃ f, Conn.Item.done f ∈ ch.items) ∨ ConnStream.ServedHist N evs c)
    (hend : (Conn.run (Conn.init N) evs).drv ≠ .running ∨ ∃ f, Conn.Item.done f ∈ ch.items) :
    ∃ p0, p0 ≤ (Conn.run (Conn.init N) evs).pos ∧
      run (init (streamChain entriesOnly) h [.script (ConnStream.fullScript D (Conn.run (Conn.init N) evs) c)]) (.start q :: calls) =
        Cursor.run (if q.filterOk then .ok else .err .filterParsing)
          (Cursor.ofView
            (if entriesOnly then eoView (ConnStream.sentView D false (ConnStream.sentFrom (Conn.run (Conn.init N) evs) p0 o.id))
             else ConnStream.sentView D false (ConnStream.sentFrom (Conn.run (Conn.init N) evs) p0 o.id)))
          (.start q :: calls) := by
  obtain ⟨p0, hp0, hcomp⟩ := ConnStream.chanComplete_inv N evs c ch o hc ho hsv
  exact ⟨p0, hp0, C10_conn_stream D N evs c ch o p0 entriesOnly h q calls hc ho hcomp hend⟩

/-! non-vacuity: two interleaved searches (IDs 1 and 2, channels 0 and 1) and two unsolicited frames (IDs 9, 7).
The driver registers search 1 at read position 0, reads the unsolicited frame, registers search 2 at read
position 1.  The server's answers arrive interleaved; search 1 gets its result; then the server closes the
connection and the driver ends: search 2 is cut off after two items. -/
def e2eHead : List Conn.Ev :=
  [.alloc .search, .enqueue 0 none, .alloc .search, .enqueue 1 none, .srvSend ⟨9, 4, 60, false⟩]

def e2eMid : List Conn.Ev := [.poll 0, .drvResp]

def e2eTail : List Conn.Ev :=
  [.poll 1, .srvSend ⟨1, 4, 61, false⟩, .srvSend ⟨2, 4, 62, false⟩, .srvSend ⟨1, 19, 63, false⟩, .srvSend ⟨7, 11, 64, true⟩,
   .srvSend ⟨2, 25, 65, false⟩, .srvSend ⟨1, 5, 66, true⟩, .drvResp, .recv 0 none, .drvResp, .drvResp, .drvResp, .drvResp, .drvResp,
   .srvClose, .drvResp, .recv 1 none]

def e2eD : ConnStream.Content :=
  ⟨fun t => if t = 63 then some [[0x6c]] else none, fun t => if t = 66 then [⟨false, none, 9⟩] else [], fun _ => 0, fun _ => [[0x61]]⟩

/-- search 1 = `pre := e2eHead`, `post := e2eMid ++ drvOp true :: e2eTail`, operation 0, channel 0, `p0 = 0`;
search 2 = `pre := e2eHead ++ drvOp true :: e2eMid`, `post := e2eTail`, operation 1, channel 1, `p0 = 1`:
the hypotheses of `C10_end_to_end` / `_items` / `_cut` hold (both disjuncts of `hend` for search 1) -/
example :
    let s0 := Conn.run (Conn.init 100) e2eHead
    let s0' := Conn.run (Conn.init 100) (e2eHead ++ Conn.Ev.drvOp true :: e2eMid)
    let s := Conn.run (Conn.init 100) (e2eHead ++ Conn.Ev.drvOp true :: (e2eMid ++ Conn.Ev.drvOp true :: e2eTail))
    (s0.drv = .running ∧ s0.opQ.head? = some 0 ∧ (s0.ops[0]?.map fun o => (o.id, o.chan)) = some (1, some 0) ∧ s0.pos = 0) ∧
    (s0'.drv = .running ∧ s0'.opQ.head? = some 1 ∧ (s0'.ops[1]?.map fun o => (o.id, o.chan)) = some (2, some 1) ∧ s0'.pos = 1) ∧
    s.drv = .endedOk ∧
    ConnStream.ServedAll 100 e2eHead true (e2eMid ++ Conn.Ev.drvOp true :: e2eTail) 0 1 ∧
    ConnStream.ServedAll 100 (e2eHead ++ Conn.Ev.drvOp true :: e2eMid) true e2eTail 1 2 ∧
    (s.chans.map fun ch => (ch.items.map Conn.itemFrame, ch.taken)) =
      [([⟨1, 4, 61, false⟩, ⟨1, 19, 63, false⟩, ⟨1, 5, 66, true⟩], 1), ([⟨2, 4, 62, false⟩, ⟨2, 25, 65, false⟩], 1)] ∧
    ConnStream.sentFrom s 0 1 = [⟨1, 4, 61, false⟩, ⟨1, 19, 63, false⟩] ++ ⟨1, 5, 66, true⟩ :: [] ∧
    ConnStream.sentFrom s 1 2 = [⟨2, 4, 62, false⟩, ⟨2, 25, 65, false⟩] ++ [] ∧ ConnStream.CutTail [] := by
  refine ⟨by decide, by decide, by decide, by decide, by decide, by decide, by decide, by decide, Or.inl rfl⟩

/-- … and the conclusions, evaluated: search 1 read to the end (direct stream, and `Ldap::search`), search 2 cut off -/
example :
    let s := Conn.run (Conn.init 100) (e2eHead ++ Conn.Ev.drvOp true :: (e2eMid ++ Conn.Ev.drvOp true :: e2eTail))
    run (init [] {} [.script (ConnStream.fullScript e2eD s 0)]) [.start ⟨1, true⟩, .next, .next, .next, .finish] =
      [.started .ok, .item (.ok (some ⟨.entry, 61, none, []⟩)), .item (.ok (some ⟨.ref, 63, some [[0x6c]], []⟩)),
       .item (.ok none), .result ⟨0, [[0x61]], [⟨false, none, 9⟩], .server 66⟩] ∧
    search {} [.script (ConnStream.fullScript e2eD s 0)] ⟨1, true⟩ =
      .ok [⟨.entry, 61, none, []⟩] ⟨0, [[0x61], [0x6c]], [⟨false, none, 9⟩], .server 66⟩ ∧
    run (init [] {} [.script (ConnStream.fullScript e2eD s 1)]) [.start ⟨1, true⟩, .next, .next, .next, .next, .finish] =
      [.started .ok, .item (.ok (some ⟨.entry, 62, none, []⟩)), .item (.ok (some ⟨.inter, 65, none, []⟩)),
       .item (.err .endOfStream), .item (.ok none), .result cancelled] := by decide +kernel

/-! non-vacuity of the other way a search is cut off: a malformed SearchResultDone under search 1's ID ends
the driver (fix F4).  Search 1: `sent = [entry] ++ bad :: …` (the bad frame IS consumed; `CutTail`, second case);
search 2, interleaved: `sent = [entry] ++ []`.  Both served until the end; both streams: the entry, then
`Err(EndOfStream)`, `finish()` = rc 88. -/
example :
    let pre1 : List Conn.Ev := [.alloc .search, .enqueue 0 none, .alloc .search, .enqueue 1 none]
    let tail : List Conn.Ev := [.poll 0, .poll 1, .srvSend ⟨2, 4, 80, false⟩, .srvSend ⟨1, 4, 81, false⟩, .srvSend ⟨1, 5, 82, false⟩,
      .srvSend ⟨2, 4, 83, false⟩, .drvResp, .drvResp, .drvResp, .drvResp]
    let s := Conn.run (Conn.init 100) (pre1 ++ Conn.Ev.drvOp true :: Conn.Ev.drvOp true :: tail)
    s.drv = .endedErr ∧ s.pos = 3 ∧
    ConnStream.ServedAll 100 pre1 true (Conn.Ev.drvOp true :: tail) 0 1 ∧
    ConnStream.ServedAll 100 (pre1 ++ [Conn.Ev.drvOp true]) true tail 1 2 ∧
    ConnStream.sentFrom s 0 1 = [⟨1, 4, 81, false⟩] ++ [⟨1, 5, 82, false⟩] ∧
    ConnStream.CutTail [⟨1, 5, 82, false⟩] ∧
    ConnStream.sentFrom s 0 2 = [⟨2, 4, 80, false⟩] ++ [] ∧
    run (init [] {} [.script (ConnStream.fullScript e2eD s 0)]) [.start ⟨1, true⟩, .next, .next, .next, .finish] =
      [.started .ok, .item (.ok (some ⟨.entry, 81, none, []⟩)), .item (.err .endOfStream), .item (.ok none), .result cancelled] ∧
    run (init [] {} [.script (ConnStream.fullScript e2eD s 1)]) [.start ⟨1, true⟩, .next, .next, .next, .finish] =
      [.started .ok, .item (.ok (some ⟨.entry, 80, none, []⟩)), .item (.err .endOfStream), .item (.ok none), .result cancelled] := by
  refine ⟨by decide, by decide, by decide, by decide, by decide, Or.inr ⟨_, _, rfl, by decide⟩, by decide, by decide +kernel,
    by decide +kernel⟩

/-- the hypotheses of `C10_end_to_end_inv` for the same history, both channels -/
example :
    ConnStream.ServedHist 100 (e2eHead ++ Conn.Ev.drvOp true :: (e2eMid ++ Conn.Ev.drvOp true :: e2eTail)) 0 ∧
    ConnStream.ServedHist 100 (e2eHead ++ Conn.Ev.drvOp true :: (e2eMid ++ Conn.Ev.drvOp true :: e2eTail)) 1 := by
  constructor <;> decide

/-- Why `ServedAll`: a search that LOST its registration while the driver went on is not complete.  Search 1
gets an entry; a `next()` with a deadline times out and asks for a scrub; the driver scrubs the ID; the
server's next entry under ID 1 is dropped as unmatched; the connection ends.  The channel holds one frame,
the server sent two: `ChanComplete` fails (for every start position), and so does `ServedAll`. -/
theorem C10_lost_search_incomplete :
    let pre : List Conn.Ev := [.alloc .search, .enqueue 0 none]
    let post : List Conn.Ev := [.poll 0, .srvSend ⟨1, 4, 70, false⟩, .drvResp, .recv 0 none, .tick 5, .recv 0 (some 3),
      .drvScrub, .srvSend ⟨1, 4, 71, false⟩, .drvResp, .srvClose, .drvResp]
    let s := Conn.run (Conn.init 100) (pre ++ Conn.Ev.drvOp true :: post)
    s.drv = .endedOk ∧
    s.chans = [{ opIdx := 0, items := [.entry ⟨1, 4, 70, false⟩], taken := 1, timedOut := true }] ∧
    ConnStream.sentFrom s 0 1 = [⟨1, 4, 70, false⟩, ⟨1, 4, 71, false⟩] ∧
    ¬ ConnStream.ChanComplete s { opIdx := 0, items := [.entry ⟨1, 4, 70, false⟩], taken := 1, timedOut := true } bridgeOp 0 ∧
    ¬ ConnStream.ServedAll 100 pre true post 0 1 := by
  refine ⟨by decide, by decide, by decide, by decide, by decide⟩

/-- `C10_end_to_end` from a CAUSAL hypothesis.  `ServedAll` (a statement about the states of the history)
follows from a statement about its steps: right after the driver's step the search is registered with a
live receiver (or the write failed and the driver ended) — `Served s1` —, and none of the later steps is a
loss step (`ConnStream.lossEv`, an exhaustive list, `ConnStream.served_step`): the caller's `finish()` of this
stream; a poll of the search's `op_call` that finds its reply sender dropped or its deadline passed; the
driver processing a scrub request naming the search's ID; the driver handling an Abandon naming the ID,
or registering another search under the same ID. -/
theorem C10_end_to_end_causal (D : ConnStream.Content) (N : Nat) (pre post : List Conn.Ev) (b : Bool) (i c : Nat) (o : Conn.Op)
    (entriesOnly : Bool) (h : Handle) (q : Query) (calls : List Call) :
    let s0 := Conn.run (Conn.init N) pre
    let s1 := Conn.run (Conn.init N) (pre ++ [Conn.Ev.drvOp b])
    let s := Conn.run (Conn.init N) (pre ++ Conn.Ev.drvOp b :: post)
    s0.drv = .running → s0.opQ.head? = some i → s0.ops[i]? = some o → o.chan = some c →
    ∀ ch, s.chans[c]? = some ch → s.drv ≠ .running →
      ConnStream.Served s1 c o.id → ConnStream.noLoss c i o.id s1 post = true →
      run (init (streamChain entriesOnly) h [.script (ConnStream.fullScript D s c)]) (.start q :: calls) =
        Cursor.run (if q.filterOk then .ok else .err .filterParsing)
          (Cursor.ofView
            (if entriesOnly then eoView (ConnStream.sentView D false (ConnStream.sentFrom s s0.pos o.id))
             else ConnStream.sentView D false (ConnStream.sentFrom s s0.pos o.id)))
          (.start q :: calls) := by
  intro s0 s1 s hd hq ho hc ch hch hdead hS1 hN
  exact C10_end_to_end D N pre post b i c o entriesOnly h q calls hd hq ho hc ch hch
    (Or.inr ⟨hdead, ConnStream.servedAll_of_noLoss N pre post b hd hq ho hc hS1 hN⟩)

/-- non-vacuity: in the history of the two interleaved searches no loss step occurs, for either search; in the
history of `C10_lost_search_incomplete` the driver's scrub step is one -/
example :
    ConnStream.Served (Conn.run (Conn.init 100) (e2eHead ++ [Conn.Ev.drvOp true])) 0 1 ∧
    ConnStream.noLoss 0 0 1 (Conn.run (Conn.init 100) (e2eHead ++ [Conn.Ev.drvOp true]))
      (e2eMid ++ Conn.Ev.drvOp true :: e2eTail) = true ∧
    ConnStream.Served (Conn.run (Conn.init 100) ((e2eHead ++ Conn.Ev.drvOp true :: e2eMid) ++ [Conn.Ev.drvOp true])) 1 2 ∧
    ConnStream.noLoss 1 1 2 (Conn.run (Conn.init 100) ((e2eHead ++ Conn.Ev.drvOp true :: e2eMid) ++ [Conn.Ev.drvOp true])) e2eTail = true ∧
    ConnStream.noLoss 0 0 1 (Conn.run (Conn.init 100) [.alloc .search, .enqueue 0 none, .drvOp true])
      [.poll 0, .srvSend ⟨1, 4, 70, false⟩, .drvResp, .recv 0 none, .tick 5, .recv 0 (some 3),
       .drvScrub, .srvSend ⟨1, 4, 71, false⟩, .drvResp, .srvClose, .drvResp] = false := by
  refine ⟨by decide, by decide, by decide, by decide, by decide⟩

end Ldap3V.Stream

/-
C10 — "A streaming search yields exactly the entries, referrals and intermediate messages the server
sent for it, in order, then Ok(None); finish() returns the server's final result with its controls
if the stream was read to the end and a synthetic 'cancelled' result (code 88) otherwise. The stream
moves Fresh, Active, Done, Closed (Error after any failure), next() outside Active returns Ok(None)
without panicking, and a second finish() returns code 80. search() returns exactly the directory
entries in order, merges the URIs of reference messages into the result's referral list and drops
intermediate messages."

Model: Model/Stream.lean (shims `start/next/finish` with the adapter index and the state guards,
`start_inner/next_inner/finish_inner`, `EntriesOnly`, `PagedResults`, `Ldap::search`) over abstract
channel scripts; specification: the cursor of Spec/Stream.lean on `view chain pages`.
All theorems quantify over ALL scripts (items of the three kinds with per-item controls, any ending:
Done with any result code / controls / referrals, disconnect, time-out, silence), ALL call sequences
over {start, next, finish, state} and ALL handles (controls, time-out, options).
`C10_refines`, `C10_finish`, `C10_no_panic` are stated for a direct stream and a stream behind
EntriesOnly (`streamChain false / true`); the state-machine laws (`C10_states`,
`C10_error_is_absorbing` part 1) hold for EVERY adapter chain including PagedResults.

Chains containing PagedResults: until /repo 103366d `finish()` before the end (or after an error) on
page k ≥ 2 returned page k-1's result (finding F23: `stream.res` kept the previous page's result);
the adapter now clears `stream.res` before it submits the follow-up search, the model mirrors it
(`pageStart`), and the finish clause holds for EVERY chain (`C10_finish_any_chain`) and the paged
chains refine the cursor for all call sequences (`C10_refines_paged`).  Paging itself: Props/C16.lean.
-/
import Ldap3V.Lemmas.StreamC10
import Ldap3V.Lemmas.StreamPagedFinish
import Ldap3V.Lemmas.GenPure
namespace Ldap3V.Stream
open Spec

/-- the two chains of C10: a direct stream, a stream behind `EntriesOnly` -/
def streamChain (entriesOnly : Bool) : List Adapter := if entriesOnly then [eo] else []
def streamKinds (entriesOnly : Bool) : List AKind := if entriesOnly then [.entriesOnly] else []

/-- For every script, handle and call sequence the model's outputs (what `start`, every `next()`,
`finish()` and `state()` return, up to the first call that never returns) are those of the cursor on
the view: all items in server order for a direct stream; the entries only, with the reference URIs
collected, behind EntriesOnly. -/
theorem C10_refines (entriesOnly : Bool) (h : Handle) (pages : List Page) (q : Query) (calls : List Call) :
    run (init (streamChain entriesOnly) h pages) (.start q :: calls) =
      Cursor.run (startOutcome (streamKinds entriesOnly) h q pages)
        (Cursor.ofView (view (streamKinds entriesOnly) pages)) (.start q :: calls) := by
  cases entriesOnly with
  | false => exact refines_direct h pages q calls
  | true => exact refines_eo h pages q calls

example : run (init (streamChain true) {} [.script [.item ⟨.entry, 1, none, []⟩, .item ⟨.ref, 2, some [[0x6c]], []⟩,
      .item ⟨.inter, 3, none, []⟩, .item ⟨.entry, 4, none, [⟨false, none, 7⟩]⟩, .done ⟨0, [[0x61]], [⟨false, none, 9⟩], .server 5⟩]])
    [.start ⟨1, true⟩, .next, .next, .state, .next, .state, .finish, .finish] =
    [.started .ok, .item (.ok (some ⟨.entry, 1, none, []⟩)), .item (.ok (some ⟨.entry, 4, none, [⟨false, none, 7⟩]⟩)),
     .st .active, .item (.ok none), .st .done, .result ⟨0, [[0x61], [0x6c]], [⟨false, none, 9⟩], .server 5⟩,
     .result alreadyFinalized] := by decide +kernel

/-- The state machine, for EVERY adapter chain and every state of the stream object:
(1) one call moves the state only along Fresh → Active|Error (start), Active → Done|Error (next),
anything but Closed → Closed (finish); (2) `next()` outside Active returns `Ok(None)` and changes
nothing; (3) `finish()` on a Closed stream returns rc 80 "stream already finalized" and changes
nothing; (4) any other `finish()` closes the stream, returns `stream.res` or, if there is none, the
synthetic rc 88 "user cancelled" (with the referrals the EntriesOnly adapters collected appended), and
sends a scrub for the search in flight unless the state was Done. -/
theorem C10_states (m : M) :
    (∀ k, Trans m.s.state (step m k).1.s.state) ∧
    (m.s.state ≠ .active → step m .next = (m, .item (.ok none))) ∧
    (m.s.state = .closed → step m .finish = (m, .result alreadyFinalized)) ∧
    (m.s.state ≠ .closed →
      (step m .finish).2 = .result { (m.s.res.getD cancelled) with
        refs := (m.s.res.getD cancelled).refs ++ chainRefs m.chain } ∧
      (step m .finish).1.s.state = .closed ∧
      (step m .finish).1.s.scrubs = (if m.s.state = .done then m.s.scrubs else m.s.scrubs ++ [m.s.reqs.length])) :=
  ⟨step_trans m, step_next_inactive m, step_finish_closed m, step_finish_open m⟩

example : alreadyFinalized.rc = 80 ∧ cancelled.rc = 88 := ⟨rfl, rfl⟩

/-- `finish()` at any state a direct / EntriesOnly stream can reach: read to the end (state Done) it
returns the server's SearchResultDone `r` — result code, text and controls as sent, referrals
`r.refs` followed by the collected reference URIs (none for a direct stream) — and sends no scrub;
before the end or after a failure (Active / Error) it returns rc 88 "user cancelled" without
controls (referrals: the URIs EntriesOnly had collected so far) and sends exactly one scrub, naming
the search in flight. -/
theorem C10_finish (entriesOnly : Bool) (h : Handle) (pages : List Page) (q : Query) (calls : List Call)
    (hns : ∀ o ∈ run (init (streamChain entriesOnly) h pages) (.start q :: calls), o.stuck = false) :
    let m := exec (init (streamChain entriesOnly) h pages) (.start q :: calls)
    (m.s.state = .done → ∃ l ps r refs, pages = .script l :: ps ∧ Recv.done r ∈ l ∧
      (step m .finish).2 = .result { r with refs := r.refs ++ refs } ∧ (entriesOnly = false → refs = []) ∧
      (step m .finish).1.s.scrubs = m.s.scrubs) ∧
    ((m.s.state = .active ∨ m.s.state = .error) → ∃ refs,
      (step m .finish).2 = .result { cancelled with refs := refs } ∧ (entriesOnly = false → refs = []) ∧
      (step m .finish).1.s.scrubs = m.s.scrubs ++ [m.s.reqs.length]) := by
  intro m
  cases entriesOnly with
  | false =>
    obtain ⟨c, hR, hI, hE⟩ := reach_direct h pages q calls hns
    have hch : m.chain = [] := hR.chain
    have hst : m.s.state = c.state := hR.state
    have hres : m.s.res = c.final := hR.res
    refine ⟨fun hd => ?_, fun ha => ?_⟩
    · obtain ⟨g, r, he, hf⟩ := hI.finDone (by rw [← hst]; exact hd)
      obtain ⟨l, ps, hp, hm⟩ := view_done_mem false pages g r (by show (view [] pages).ending = _; rw [← hE]; exact he)
      obtain ⟨h1, _, h3⟩ := step_finish_open m (by rw [hd]; simp)
      refine ⟨l, ps, r, [], hp, hm, ?_, fun _ => rfl, by rw [h3]; simp [hd]⟩
      rw [h1, hres, hf, hch]; simp [chainRefs]
    · have hnd : c.state ≠ .done := by rw [← hst]; rcases ha with ha | ha <;> rw [ha] <;> simp
      obtain ⟨h1, _, h3⟩ := step_finish_open m (by rcases ha with ha | ha <;> rw [ha] <;> simp)
      refine ⟨[], ?_, fun _ => rfl, ?_⟩
      · rw [h1, hres, hI.fin hnd, hch]; simp [chainRefs, cancelled]
      · rw [h3]; rcases ha with ha | ha <;> simp [ha]
  | true =>
    obtain ⟨c, hR, hI, hE⟩ := reach_eo h pages q calls hns
    have hch : m.chain = [.entriesOnly c.acc] := hR.chain
    have hst : m.s.state = c.state := hR.state
    have hres : m.s.res = c.final := hR.res
    refine ⟨fun hd => ?_, fun ha => ?_⟩
    · obtain ⟨g, r, he, hf⟩ := hI.finDone (by rw [← hst]; exact hd)
      obtain ⟨l, ps, hp, hm⟩ := view_done_mem true pages g r (by show (view [.entriesOnly] pages).ending = _; rw [← hE]; exact he)
      obtain ⟨h1, _, h3⟩ := step_finish_open m (by rw [hd]; simp)
      refine ⟨l, ps, r, c.acc, hp, hm, ?_, fun hb => by simp at hb, by rw [h3]; simp [hd]⟩
      rw [h1, hres, hf, hch]; simp [chainRefs]
    · have hnd : c.state ≠ .done := by rw [← hst]; rcases ha with ha | ha <;> rw [ha] <;> simp
      obtain ⟨h1, _, h3⟩ := step_finish_open m (by rcases ha with ha | ha <;> rw [ha] <;> simp)
      refine ⟨c.acc, ?_, fun hb => by simp at hb, ?_⟩
      · rw [h1, hres, hI.fin hnd, hch]; simp [chainRefs, cancelled]
      · rw [h3]; rcases ha with ha | ha <;> simp [ha]

-- finish() in the middle: rc 88, one scrub for search #1; read to the end: the server's result, no scrub
example : (exec (init (streamChain false) {} [.script [.item ⟨.entry, 1, none, []⟩, .done ⟨32, [], [⟨false, none, 9⟩], .server 5⟩]])
    [.start ⟨1, true⟩, .next, .finish]).s.scrubs = [1] ∧
  (exec (init (streamChain false) {} [.script [.item ⟨.entry, 1, none, []⟩, .done ⟨32, [], [⟨false, none, 9⟩], .server 5⟩]])
    [.start ⟨1, true⟩, .next, .next, .finish]).s.scrubs = [] ∧
  run (init (streamChain false) {} [.script [.item ⟨.entry, 1, none, []⟩, .done ⟨32, [], [⟨false, none, 9⟩], .server 5⟩]])
    [.start ⟨1, true⟩, .next, .next, .finish] =
    [.started .ok, .item (.ok (some ⟨.entry, 1, none, []⟩)), .item (.ok none), .result ⟨32, [], [⟨false, none, 9⟩], .server 5⟩] := by
  decide +kernel

/-- No call sequence makes a direct stream panic or run out of fuel; behind EntriesOnly the same
holds when every reference message has a well-formed URI list (`parse_refs` panics otherwise, on the
caller's side: `C10_malformed_reference_panics`).  In particular `self.rx.as_mut().unwrap()` in
`next_inner` is dead code: `rx` is `None` only in states in which the shim does not call it. -/
theorem C10_no_panic (entriesOnly : Bool) (h : Handle) (pages : List Page) (q : Query) (calls : List Call)
    (hwf : entriesOnly = true → ∀ l ps, pages = .script l :: ps → wfRefs l) :
    ∀ o ∈ run (init (streamChain entriesOnly) h pages) (.start q :: calls), o ≠ .item .panic ∧ o ≠ .item .outOfFuel := by
  rw [C10_refines]
  apply Cursor.run_no_panic
  cases entriesOnly with
  | false =>
    cases pages with
    | nil => simp [streamKinds, view, Cursor.ofView]
    | cons p ps => cases p <;> simp [streamKinds, view, Cursor.ofView, rawView_no_panic]
  | true =>
    cases pages with
    | nil => simp [streamKinds, view, Cursor.ofView, eoView, eoSteps, End.addGain]
    | cons p ps =>
      cases p with
      | script l => exact eoRaw_no_panic l [] (hwf rfl l ps rfl)
      | fail e => simp [streamKinds, view, Cursor.ofView, eoView, eoSteps, End.addGain]

example : wfRefs [.item ⟨.ref, 2, some [[0x6c]], []⟩, .item ⟨.entry, 1, none, []⟩] := by
  intro i hi hk; simp at hi; rcases hi with rfl | rfl <;> simp_all

/-- the branch the hypothesis of `C10_no_panic` excludes: EntriesOnly on a malformed reference -/
theorem C10_malformed_reference_panics :
    run (init (streamChain true) {} [.script [.item ⟨.ref, 2, none, []⟩]]) [.start ⟨1, true⟩, .next, .next] =
      [.started .ok, .item .panic] := by decide +kernel

/-- Errors are absorbing.  (1) For every chain and state: a `next()` that returns `Err` leaves the
stream in state Error, and in state Error every further `next()` returns `Ok(None)` and changes
nothing (only `finish()` leaves Error, to Closed).  (2) A direct stream whose channel is closed
(connection lost) or whose per-call deadline fires after the items `items`: the items in order, then
`Err(EndOfStream)` / `Err(Timeout)`, then `Ok(None)` for ever. -/
theorem C10_error_is_absorbing :
    (∀ (m : M) (e : Err), (step m .next).2 = .item (.err e) → (step m .next).1.s.state = .error) ∧
    (∀ (m : M), m.s.state = .error → step m .next = (m, .item (.ok none))) ∧
    (∀ (h : Handle) (q : Query) (items : List Item) (x : Recv) (e : Err) (tl : List Recv) (ps : List Page) (k : Nat),
      q.filterOk = true → ((x = .closed ∧ e = .endOfStream) ∨ (x = .timeout ∧ e = .timeout)) →
      run (init [] h (.script (items.map .item ++ x :: tl) :: ps))
          (.start q :: List.replicate (items.length + 1 + k) .next) =
        .started .ok :: (items.map (fun i => Output.item (.ok (some i))) ++ [.item (.err e)] ++
          List.replicate k (.item (.ok none)))) := by
  refine ⟨step_next_err, fun m hm => step_next_inactive m (by rw [hm]; simp), ?_⟩
  intro h q items x e tl ps k hq hx
  rw [refines_direct]
  have hso : startOutcome [] h q (.script (items.map .item ++ x :: tl) :: ps) = .ok := by simp [startOutcome, hq]
  rw [hso, Cursor.run]
  have hc : (Cursor.ofView (view [] (.script (items.map .item ++ x :: tl) :: ps))).step .ok (.start q) =
      ({ Cursor.ofView (view [] (.script (items.map .item ++ x :: tl) :: ps)) with state := .active }, .started .ok) := by
    simp [Cursor.step, Cursor.start, Cursor.ofView]
  rw [hc]
  simp only [Output.stuck, Bool.false_eq_true, if_false, List.cons.injEq, true_and]
  obtain ⟨h1, h2⟩ := rawView_items items (x :: tl)
  have hend : (rawView (x :: tl)) = ⟨[], .fail [] e⟩ := by
    rcases hx with ⟨rfl, rfl⟩ | ⟨rfl, rfl⟩ <;> rfl
  have := Cursor.run_nexts_fail .ok (items.map fun i => (⟨[], i⟩ : Step))
    { Cursor.ofView (view [] (.script (items.map .item ++ x :: tl) :: ps)) with state := .active } [] e k rfl
    (by simp [Cursor.ofView, view, h1, hend]) (by simp [Cursor.ofView, view, h2, hend])
  simp only [List.length_map, List.map_map] at this
  rw [this]
  simp [Function.comp_def]

example : run (init [] {} [.script [.item ⟨.entry, 1, none, []⟩, .closed]]) [.start ⟨1, true⟩, .next, .next, .next, .state] =
    [.started .ok, .item (.ok (some ⟨.entry, 1, none, []⟩)), .item (.err .endOfStream), .item (.ok none), .st .error] := by
  decide +kernel

/-- `Ldap::search` on any script `items…, Done(r), …` (references well-formed): exactly the directory
entries in server order; the result is the server's `r` — code, text, controls untouched — whose
referral list is `r.refs` followed by the URIs of the reference messages in order; intermediate
messages are dropped. -/
theorem C10_search (h : Handle) (q : Query) (hq : q.filterOk = true) (items : List Item) (r : Res)
    (tl : List Recv) (ps : List Page) (hwf : ∀ i ∈ items, i.kind = .ref → i.uris ≠ none) :
    search h (.script (items.map .item ++ .done r :: tl) :: ps) q =
      .ok (items.filter fun i => i.kind == .entry) { r with refs := r.refs ++ refUris items } :=
  search_spec h q hq items r tl ps hwf

example : search {} [.script [.item ⟨.entry, 1, none, []⟩, .item ⟨.ref, 2, some [[0x6c], [0x6d]], []⟩,
      .item ⟨.inter, 3, none, []⟩, .item ⟨.entry, 4, none, []⟩, .done ⟨10, [[0x61]], [], .server 5⟩]] ⟨1, true⟩ =
    .ok [⟨.entry, 1, none, []⟩, ⟨.entry, 4, none, []⟩] ⟨10, [[0x61], [0x6c], [0x6d]], [], .server 5⟩ := by decide +kernel

/-- `finish()` at any state reached by ANY call sequence on ANY adapter chain (PagedResults included,
any nesting), the caller never stuck: unless the stream is Done or already Closed — i.e. Fresh,
Active or Error: not read to the end — the result is the synthetic rc 88 "user cancelled" without
controls (referrals: what the EntriesOnly adapters of the chain hold) and exactly one scrub is sent,
for the search in flight.  No hypothesis on the scripts: disconnects, time-outs, follow-up searches
that cannot be submitted are all covered. -/
theorem C10_finish_any_chain (chain : List Adapter) (h : Handle) (pages : List Page) (calls : List Call)
    (hns : ∀ o ∈ run (init chain h pages) calls, o.stuck = false) :
    let m := exec (init chain h pages) calls
    m.s.state ≠ .done → m.s.state ≠ .closed →
      (step m .finish).2 = .result { cancelled with refs := chainRefs m.chain } ∧
      (step m .finish).1.s.scrubs = m.s.scrubs ++ [m.s.reqs.length] :=
  finish_not_done chain h pages calls hns

/-- The three chains with PagedResults refine the cursor on their view for ALL call sequences,
`finish()` anywhere included: at Done the last page's result without its first paging control,
otherwise rc 88. -/
theorem C10_refines_paged (size : Int) (h : Handle) (pages : List Page) (q : Query) (calls : List Call)
    (hh : (h.ctrls.getD []).any RCtl.isPaged = false) (hq : q.filterOk = true) :
    (run (init [pr size] h pages) (.start q :: calls) =
      Cursor.run (startOutcome [.paged] h q pages) (Cursor.ofView (view [.paged] pages)) (.start q :: calls)) ∧
    (run (init [eo, pr size] h pages) (.start q :: calls) =
      Cursor.run (startOutcome [.entriesOnly, .paged] h q pages)
        (Cursor.ofView (view [.entriesOnly, .paged] pages)) (.start q :: calls)) ∧
    (run (init [pr size, eo] h pages) (.start q :: calls) =
      Cursor.run (startOutcome [.paged, .entriesOnly] h q pages)
        (Cursor.ofView (view [.paged, .entriesOnly] pages)) (.start q :: calls)) :=
  ⟨refines_paged_all size h pages q calls hh hq, refines_eo_paged_all size h pages q calls hh hq,
    refines_paged_eo_all size h pages q calls hh hq⟩

/-- The two former witnesses of F23: `finish()` in the middle of page 2, and `finish()` after the
follow-up search could not be submitted, both return the synthetic rc 88 and scrub the search in flight. -/
theorem paged_early_finish_is_cancelled :
    run (init [pr 5] {} [.script [.item ⟨.entry, 1, none, []⟩, .done ⟨0, [], [⟨true, some [7], 0⟩], .server 2⟩],
        .script [.item ⟨.entry, 3, none, []⟩, .item ⟨.entry, 4, none, []⟩, .done ⟨0, [], [⟨true, some [], 0⟩], .server 5⟩]])
      [.start ⟨1, true⟩, .next, .next, .finish] =
    [.started .ok, .item (.ok (some ⟨.entry, 1, none, []⟩)), .item (.ok (some ⟨.entry, 3, none, []⟩)),
     .result cancelled] ∧
    run (init [pr 5] {} [.script [.item ⟨.entry, 1, none, []⟩, .done ⟨0, [], [⟨true, some [7], 0⟩], .server 2⟩, .closed],
        .fail (.op 0)])
      [.start ⟨1, true⟩, .next, .next, .state, .finish] =
    [.started .ok, .item (.ok (some ⟨.entry, 1, none, []⟩)), .item (.err (.op 0)), .st .error,
     .result cancelled] := by decide +kernel

/-! ### tie by regeneration (translate/pure_fns.py): which protocolOp numbers the *current*
src/search.rs calls a reference / an intermediate message (the `Kind` of an item: `EntriesOnly` and
`Ldap::search` branch on exactly these two methods). -/

/-- `ResultEntry::is_ref` is "tag number 19" and `is_intermediate` is "tag number 25", for every tag number -/
theorem C10_item_kinds_source (id : Nat) :
    Gen.resultEntry_is_ref id = some (id == 19) ∧ Gen.resultEntry_is_intermediate id = some (id == 25) :=
  ⟨gen_is_ref id, gen_is_intermediate id⟩


end Ldap3V.Stream

/-
C12 — timeouts fire on time, keep the connection usable and orphan the late reply.
Model: Model/Conn.lean with a virtual clock (`now`, `tick`); `poll` is `time::timeout(T, rx)`:
the receive is polled first, only then is the clock compared with the deadline.
Partial, named: that tokio's timer wheel fires at the requested instant (1 ms granularity) and
wakes the task is trusted, and exercised by lane `timeouts` under the paused clock.

Whole histories (invariants `Acct` and `Uniq`, every reachable state of every interleaving):
`C12_timed_out_holds_no_routing_state` — once the driver has handled the scrub of a timed-out
operation, no routing entry refers to that operation and its ID is reserved only if it has meanwhile
been handed to ANOTHER outstanding operation (it is reusable); `C12_late_reply_is_dropped` — a
response arriving under the ID of a timed-out operation whose scrub has been handled and whose ID
has not been handed out again matches nothing: it is dropped and changes nothing but the read cursor.
`C12_timeout_leaves_others_registered` — when one operation times out and the driver handles its scrub, another
operation waiting for its reply is untouched and still registered (the connection keeps serving it).
The `_nowrap` forms need no schedule hypothesis (histories with at most 2^31-1 allocations).

The search timer over WHOLE streams (namespace `Ldap3V.StreamTimed`, Model/StreamTimed.lean: `next_inner`
as written, on a virtual clock; tied to the real stream by lane `timeouts`, command `tstream.run`):
`C12_stream_timer_restarts` (+ `_gaps`, `_evenly`) — the timer restarts with every received item: if
every element arrives less than T after the call that receives it started, the loop delivers all of
them, however long that takes in total; `C12_stream_timeout_at_deadline` — the first element that is
late for its call yields `timeout` at exactly that call's start + T, everything before it has been
delivered, it is never delivered; `C12_stream_untimed_never_times_out`.
-/
import Ldap3V.Lemmas.ConnFinal
import Ldap3V.Lemmas.ConnGaps
import Ldap3V.Lemmas.StreamTimed
namespace Ldap3V.Conn

/-- The timeout law of one poll of a timed operation, for EVERY state:
* a response already in the mailbox is returned, whatever the clock says (a reply that arrived
  earlier — or at the very instant of the deadline — wins);
* with an empty mailbox the operation stays pending strictly before its deadline;
* with an empty mailbox at or after the deadline it returns the timeout error and asks the driver
  to scrub its ID. -/
theorem C12_law (s : St) (i : Nat) (o : Op) (d : Nat) (ho : s.ops[i]? = some o) (hres : o.res = none)
    (hph : o.phase ≠ .allocated) (hd : o.deadline = some d) :
    (∀ f, o.mail = .frame f → ∀ r, r = (if f.good then Res.frame f else Res.decodeErr) →   -- a non-result frame: decoding error (F27)
      step s (.poll i) = some ({ s with ops := s.ops.set i { o with res := some r } }, .res (some r))) ∧
    (o.mail = .empty → s.now < d → step s (.poll i) = some (s, .res none)) ∧
    (o.mail = .empty → d ≤ s.now → s.drv = .running →
      step s (.poll i) = some ({ s with ops := s.ops.set i { o with res := some .timeout },
                                        scrubQ := s.scrubQ ++ [o.id],
                                        chans := dropRxOf s.chans o.chan }, .res (some .timeout))) := by
  refine ⟨?_, ?_, ?_⟩
  · intro f hm r hr; subst hr; simp [step, ho, hres, hph, hm]
  · intro hm hlt
    have : ¬ s.now ≥ d := by omega
    simp [step, ho, hres, hph, hm, hd, this]
  · intro hm hle hr
    simp [step, ho, hres, hph, hm, hd, hle, hr]

/-- an operation without a timeout never returns a timeout: it is pending until its mailbox fills -/
theorem C12_untimed_never_times_out (s : St) (i : Nat) (o : Op) (ho : s.ops[i]? = some o) (hres : o.res = none)
    (hph : o.phase ≠ .allocated) (hd : o.deadline = none) (hm : o.mail = .empty) :
    step s (.poll i) = some (s, .res none) := by
  simp [step, ho, hres, hph, hm, hd]

/-- the deadline is armed when the request is queued: now + T -/
theorem C12_deadline_armed (s : St) (i : Nat) (o : Op) (t : Nat) (ho : s.ops[i]? = some o) (hp : o.phase = .allocated)
    (hr : s.drv = .running) :
    step s (.enqueue i (some t)) =
      some ({ s with ops := s.ops.set i { o with phase := .queued, deadline := some (s.now + t) }, opQ := s.opQ ++ [i] }, .none) := by
  simp [step, ho, hp, hr]

/-- for a search the timer restarts with every `next()`: each receive is judged against the
deadline of that call alone; an item that is there is returned even if the deadline has passed -/
theorem C12_search_timer_restarts (s : St) (c : Nat) (ch : Chan) (d : Nat) (hc : s.chans[c]? = some ch)
    (hack : (s.ops[ch.opIdx]?.bind (·.res)) = some .ack) (ha : ch.rxAlive = true) :
    (∀ it, ch.items[ch.taken]? = some it →
      step s (.recv c (some d)) = some ({ s with chans := s.chans.set c { ch with taken := ch.taken + 1 } }, .item (some it))) ∧
    (ch.items[ch.taken]? = none → chanOpen s c = true → s.now < d → step s (.recv c (some d)) = some (s, .pending)) := by
  constructor
  · intro it hit; simp [step, hc, ha, hit, hack]
  · intro hn ho hlt
    have : ¬ s.now ≥ d := by omega
    simp [step, hc, ha, hn, ho, this, hack]

/-- the time-out branch of a search's `next()`: nothing queued, the channel still has a sender, the
deadline of this call has passed and the driver is running — the call returns the timeout error
and asks the driver to scrub the search's own ID (fix F24); the channel and everything already
queued in it stay as they are -/
theorem C12_search_times_out (s : St) (c : Nat) (ch : Chan) (o : Op) (d : Nat) (hc : s.chans[c]? = some ch)
    (ho : s.ops[ch.opIdx]? = some o) (hack : o.res = some .ack) (ha : ch.rxAlive = true)
    (hn : ch.items[ch.taken]? = none) (hopen : chanOpen s c = true) (hd : d ≤ s.now) (hr : s.drv = .running) :
    step s (.recv c (some d)) =
      some ({ s with scrubQ := s.scrubQ ++ [o.id], chans := s.chans.set c { ch with timedOut := true } }, .timeout) := by
  have h2 : s.now ≥ d := hd
  simp [step, hc, ha, hn, hopen, h2, ho, hr, hack]

/-- After the timeout the driver's scrub step touches exactly the timed-out ID: its routing entries
and its reservation go, every other entry of both maps and every other reserved ID stays. -/
theorem C12_scrub_frame (s : St) (k : Nat) (rest : List Nat) (hr : s.drv = .running) (hq : s.scrubQ = k :: rest) :
    ∃ s', step s .drvScrub = some (s', .none) ∧
      (∀ p, p ∈ s'.resultmap ↔ p ∈ s.resultmap ∧ p.1 ≠ k) ∧ (∀ p, p ∈ s'.searchmap ↔ p ∈ s.searchmap ∧ p.1 ≠ k) ∧
      (∀ j, j ∈ s'.inUse ↔ j ∈ s.inUse ∧ j ≠ k) ∧ s'.chans = s.chans ∧ s'.opQ = s.opQ ∧ s'.srvLog = s.srvLog ∧
      s'.pos = s.pos ∧ s'.wire = s.wire ∧ s'.drv = .running := by
  have e : step s .drvScrub = some (({ s with
      scrubQ := rest
      ops := dropSenderOpt s.ops (lookup s.resultmap k)
      resultmap := erase s.resultmap k
      searchmap := erase s.searchmap k
      inUse := eraseId s.inUse k } : St), .none) := by
    simp [step, hr, hq]
  refine ⟨_, e, ?_, ?_, ?_, rfl, rfl, rfl, rfl, rfl, hr⟩
  · intro p; simp only [erase, List.mem_filter, Bool.not_eq_eq_eq_not, Bool.not_true, beq_eq_false_iff_ne, ne_eq]
    constructor <;> (intro ⟨a, b⟩; exact ⟨a, by omega⟩)
  · intro p; simp only [erase, List.mem_filter, Bool.not_eq_eq_eq_not, Bool.not_true, beq_eq_false_iff_ne, ne_eq]
    constructor <;> (intro ⟨a, b⟩; exact ⟨a, by omega⟩)
  · intro j; simp only [eraseId, List.mem_filter, Bool.not_eq_eq_eq_not, Bool.not_true, beq_eq_false_iff_ne, ne_eq]
    constructor <;> (intro ⟨a, b⟩; exact ⟨a, by omega⟩)

/-- the late reply to the timed-out operation is discarded: once its ID is in neither map the frame
is consumed and nothing else changes (this is C01_unmatched_inert at the scrubbed ID) -/
theorem C12_late_reply_orphaned (s : St) (f : Frame) (hd : s.drv = .running) (hf : s.srvLog[s.pos]? = some f)
    (h1 : lookup s.searchmap f.id = none) (h2 : lookup s.resultmap f.id = none) :
    step s .drvResp = some ({ s with pos := s.pos + 1 }, .none) := by
  simp [step, hd, hf, h1, h2]

/-- **whole histories**: after the scrub of a timed-out operation has been handled, the connection
holds no routing state for it, and its ID is in the table only on behalf of another operation -/
theorem C12_timed_out_holds_no_routing_state (N : Nat) (evs : List Ev) (hf : FreshRun2 (init N) evs) (i : Nat) (o : Op)
    (ho : (run (init N) evs).ops[i]? = some o) (hto : o.res = some .timeout)
    (hscrubbed : o.id ∉ (run (init N) evs).scrubQ) :
    (∀ p ∈ (run (init N) evs).resultmap, p.2 ≠ i) ∧
    (∀ p ∈ (run (init N) evs).searchmap, o.chan ≠ some p.2) ∧
    (o.id ∈ (run (init N) evs).inUse → i ∉ (run (init N) evs).opQ → o.kind ≠ .unbind →
      ∃ (j : Nat) (oj : Op), j ≠ i ∧ (run (init N) evs).ops[j]? = some oj ∧ oj.id = o.id ∧ Reg (run (init N) evs) j oj) := by
  obtain ⟨_, _, ha, hr⟩ := reach N evs hf
  refine ⟨?_, ?_, ?_⟩
  · intro p hp e
    obtain ⟨o2, ho2, hid2, _, _, hres2⟩ := ha.rmOk p hp
    rw [e, ho] at ho2; cases ho2
    rcases hres2 with r | ⟨_, r⟩
    · rw [hto] at r; cases r
    · exact hscrubbed (by rw [hid2]; exact r)
  · intro p hp e
    obtain ⟨ch, o2, hc, ho2, hid2, _, _, _, _, himp, _⟩ := ha.smOk p hp
    obtain ⟨ch', hc', hidx⟩ := hr.chanOf i o p.2 ho e
    rw [hc] at hc'; cases hc'
    rw [hidx, ho] at ho2; cases ho2
    exact hscrubbed (by rw [hid2]; exact himp (Or.inr (Or.inr hto)))
  · intro hin hnq hnu
    obtain ⟨j, oj, hoj, hid, hreg⟩ := ha.acct _ hin
    have hji : j ≠ i := by
      intro e
      subst e
      rw [ho] at hoj; cases hoj
      rcases hreg with r | r | r | ⟨c, r1, r2⟩ | r
      · have := (ha.fresh _ o ho (by rw [r]; simp)).2
        rcases this with e | ⟨_, e⟩
        · rw [hto] at e; cases e
        · rw [r] at e; cases e
      · exact hnq r
      · obtain ⟨o2, ho2, hid2, _, _, hres2⟩ := ha.rmOk _ r
        simp only at ho2
        rw [ho] at ho2; cases ho2
        rcases hres2 with q | ⟨_, q⟩
        · rw [hto] at q; cases q
        · exact hscrubbed q
      · obtain ⟨ch, o2, hc, ho2, hid2, _, _, _, _, himp, _⟩ := ha.smOk _ r2
        obtain ⟨ch', hc', hidx⟩ := hr.chanOf _ o c ho r1
        simp only at hc
        rw [hc] at hc'; cases hc'
        rw [hidx, ho] at ho2; cases ho2
        exact hscrubbed (himp (Or.inr (Or.inr hto)))
      · exact hnu r.1
    exact ⟨j, oj, hji, hoj, hid, hreg⟩

/-- **whole histories**: a response under an ID that is not reserved matches nothing (routing keys
are reserved IDs): it is dropped, and nothing but the read cursor changes -/
theorem C12_reply_under_unreserved_id_is_dropped (N : Nat) (evs : List Ev) (hf : FreshRun2 (init N) evs) (k : Nat) (f : Frame)
    (hfree : k ∉ (run (init N) evs).inUse)
    (hd : (run (init N) evs).drv = .running) (hnext : (run (init N) evs).srvLog[(run (init N) evs).pos]? = some f)
    (hid : f.id = (k : Int)) :
    step (run (init N) evs) .drvResp = some ({ run (init N) evs with pos := (run (init N) evs).pos + 1 }, .none) := by
  obtain ⟨_, hu, _, _⟩ := reach N evs hf
  apply C12_late_reply_orphaned _ f hd hnext
  · cases hl : lookup (run (init N) evs).searchmap f.id with
    | none => rfl
    | some c =>
      obtain ⟨n, hmem, hn⟩ := lookup_some hl
      have : n = k := by rw [hid] at hn; exact_mod_cast hn
      exact absurd (this ▸ hu.mapIn.2 _ hmem) hfree
  · cases hl : lookup (run (init N) evs).resultmap f.id with
    | none => rfl
    | some c =>
      obtain ⟨n, hmem, hn⟩ := lookup_some hl
      have : n = k := by rw [hid] at hn; exact_mod_cast hn
      exact absurd (this ▸ hu.mapIn.1 _ hmem) hfree

/-- in particular the late reply to a timed-out operation whose scrub has been handled (so that its
ID is free again, `C12_timed_out_holds_no_routing_state`) and not yet handed out again is delivered
to nobody -/
theorem C12_late_reply_is_dropped (N : Nat) (evs : List Ev) (hf : FreshRun2 (init N) evs) (i : Nat) (o : Op) (f : Frame)
    (_ho : (run (init N) evs).ops[i]? = some o) (_hto : o.res = some .timeout)
    (hnotreused : o.id ∉ (run (init N) evs).inUse)
    (hd : (run (init N) evs).drv = .running) (hnext : (run (init N) evs).srvLog[(run (init N) evs).pos]? = some f)
    (hid : f.id = (o.id : Int)) :
    step (run (init N) evs) .drvResp = some ({ run (init N) evs with pos := (run (init N) evs).pos + 1 }, .none) :=
  C12_reply_under_unreserved_id_is_dropped N evs hf o.id f hnotreused hd hnext hid

/-- **whole histories: what a call returned is final.**  Whatever happens after a call has returned
— further operations, late or duplicate replies under its ID, scrubs, faults, the ID being handed
out again — the result it returned is not touched: a time-out stays a time-out (the late reply is
never delivered to that caller), a delivered response stays that response. -/
theorem C12_result_is_final (N : Nat) (before after : List Ev) (hf : FreshRun2 (init N) (before ++ after))
    (i : Nat) (o : Op) (r : Res)
    (ho : (run (init N) before).ops[i]? = some o) (hres : o.res = some r) :
    ∃ o' : Op, (run (init N) (before ++ after)).ops[i]? = some o' ∧ o'.res = some r := by
  obtain ⟨hf1, hf2⟩ := freshRun2_append before after _ hf
  obtain ⟨hp, hu, ha, hr⟩ := reach N before hf1
  rw [run_append]
  obtain ⟨o', ho', hk⟩ := resKeep_run after _ hp hu ha hr hf2 i o ho
  exact ⟨o', ho', by rw [hk (by rw [hres]; rfl), hres]⟩

/-! ### the whole-history theorems without a schedule hypothesis

`FreshRun2` (finding F13) holds for every history with at most `N` (= 2^31-1) allocations
(`freshRun2_init`, Lemmas/ConnNoWrap.lean). -/

/-- `C12_timed_out_holds_no_routing_state` for every history with at most `N` allocations -/
theorem C12_timed_out_holds_no_routing_state_nowrap (N : Nat) (evs : List Ev) (hcount : allocCount evs ≤ N) (i : Nat) (o : Op)
    (ho : (run (init N) evs).ops[i]? = some o) (hto : o.res = some .timeout)
    (hscrubbed : o.id ∉ (run (init N) evs).scrubQ) :
    (∀ p ∈ (run (init N) evs).resultmap, p.2 ≠ i) ∧
    (∀ p ∈ (run (init N) evs).searchmap, o.chan ≠ some p.2) ∧
    (o.id ∈ (run (init N) evs).inUse → i ∉ (run (init N) evs).opQ → o.kind ≠ .unbind →
      ∃ (j : Nat) (oj : Op), j ≠ i ∧ (run (init N) evs).ops[j]? = some oj ∧ oj.id = o.id ∧ Reg (run (init N) evs) j oj) :=
  C12_timed_out_holds_no_routing_state N evs (freshRun2_init N evs hcount) i o ho hto hscrubbed

/-- `C12_reply_under_unreserved_id_is_dropped` for every history with at most `N` allocations -/
theorem C12_reply_under_unreserved_id_is_dropped_nowrap (N : Nat) (evs : List Ev) (hcount : allocCount evs ≤ N) (k : Nat) (f : Frame)
    (hfree : k ∉ (run (init N) evs).inUse)
    (hd : (run (init N) evs).drv = .running) (hnext : (run (init N) evs).srvLog[(run (init N) evs).pos]? = some f)
    (hid : f.id = (k : Int)) :
    step (run (init N) evs) .drvResp = some ({ run (init N) evs with pos := (run (init N) evs).pos + 1 }, .none) :=
  C12_reply_under_unreserved_id_is_dropped N evs (freshRun2_init N evs hcount) k f hfree hd hnext hid

/-- `C12_late_reply_is_dropped` for every history with at most `N` allocations -/
theorem C12_late_reply_is_dropped_nowrap (N : Nat) (evs : List Ev) (hcount : allocCount evs ≤ N) (i : Nat) (o : Op) (f : Frame)
    (ho : (run (init N) evs).ops[i]? = some o) (hto : o.res = some .timeout)
    (hnotreused : o.id ∉ (run (init N) evs).inUse)
    (hd : (run (init N) evs).drv = .running) (hnext : (run (init N) evs).srvLog[(run (init N) evs).pos]? = some f)
    (hid : f.id = (o.id : Int)) :
    step (run (init N) evs) .drvResp = some ({ run (init N) evs with pos := (run (init N) evs).pos + 1 }, .none) :=
  C12_late_reply_is_dropped N evs (freshRun2_init N evs hcount) i o f ho hto hnotreused hd hnext hid

/-- `C12_result_is_final` for every history with at most `N` allocations -/
theorem C12_result_is_final_nowrap (N : Nat) (before after : List Ev) (hcount : allocCount (before ++ after) ≤ N)
    (i : Nat) (o : Op) (r : Res)
    (ho : (run (init N) before).ops[i]? = some o) (hres : o.res = some r) :
    ∃ o' : Op, (run (init N) (before ++ after)).ops[i]? = some o' ∧ o'.res = some r :=
  C12_result_is_final N before after (freshRun2_init N _ hcount) i o r ho hres

/-! ### after a time-out the connection keeps serving the other operations (run level) -/

/-- the poll at which operation `i` times out, followed by the driver working off its scrub queue:
the scrubs that were queued before (in state `s`), then the one `i` has just asked for -/
def timeoutAndScrubs (s : St) (i : Nat) : List Ev := .poll i :: List.replicate (s.scrubQ.length + 1) .drvScrub

/-- **whole histories**: after ANY history, let operation `i` be waiting (request queued or taken, reply slot
empty, not returned) with its deadline reached, and let ANOTHER operation `j` be waiting for its reply with
the driver (taken, reply slot empty), nobody having asked to scrub `j`'s ID.  When `i` is polled and
the driver then handles the queued scrubs up to and including `i`'s: `i` has returned the time-out, its
ID is released, the driver is running with an empty scrub queue — and `j` is exactly as it was (still waiting,
nothing put into or dropped from its reply slot) and still registered under its ID, so that its
response will be routed to it.  (`C12_scrub_frame` lifted over the steps `.poll i`, `.drvScrub`…;
the IDs of `i` and `j` differ by the uniqueness invariant `Uniq`.) -/
theorem C12_timeout_leaves_others_registered (N : Nat) (evs : List Ev) (hf : FreshRun2 (init N) evs)
    (i j : Nat) (oi oj : Op) (d : Nat) (hij : i ≠ j)
    (hoj : (run (init N) evs).ops[j]? = some oj) (hjp : oj.phase = .taken) (hjm : oj.mail = .empty)
    (hoi : (run (init N) evs).ops[i]? = some oi) (hres : oi.res = none) (hph : oi.phase ≠ .allocated) (him : oi.mail = .empty)
    (hd : oi.deadline = some d) (hle : d ≤ (run (init N) evs).now) (hr : (run (init N) evs).drv = .running)
    (hnq : oj.id ∉ (run (init N) evs).scrubQ) :
    (run (init N) (evs ++ timeoutAndScrubs (run (init N) evs) i)).drv = .running ∧
    (run (init N) (evs ++ timeoutAndScrubs (run (init N) evs) i)).scrubQ = [] ∧
    (∃ oi' : Op, (run (init N) (evs ++ timeoutAndScrubs (run (init N) evs) i)).ops[i]? = some oi' ∧ oi'.res = some .timeout) ∧
    oi.id ∉ (run (init N) (evs ++ timeoutAndScrubs (run (init N) evs) i)).inUse ∧
    (run (init N) (evs ++ timeoutAndScrubs (run (init N) evs) i)).ops[j]? = some oj ∧
    (oj.id, j) ∈ (run (init N) (evs ++ timeoutAndScrubs (run (init N) evs) i)).resultmap ∧
    lookup (run (init N) (evs ++ timeoutAndScrubs (run (init N) evs) i)).resultmap (oj.id : Int) = some j := by
  obtain ⟨hp, hu, ha, hri⟩ := reach N evs hf
  have hf' : FreshRun2 (init N) (evs ++ timeoutAndScrubs (run (init N) evs) i) :=
    freshRun2_append_nonalloc _ _ _ hf (by
      intro e he
      simp only [timeoutAndScrubs, List.mem_cons, List.mem_replicate] at he
      rcases he with rfl | ⟨_, rfl⟩ <;> rfl)
  obtain ⟨_, hu', ha', _⟩ := reach N _ hf'
  have h := timeout_then_scrubs _ hp hu ha hri i j oi oj d hij hoj hjp hjm hoi hres hph him hd hle hr hnq
  rw [run_append] at hu' ha' ⊢
  exact ⟨h.1, h.2.1, h.2.2.1, h.2.2.2.1, h.2.2.2.2.1, h.2.2.2.2.2, lookup_of_mem hu' ha' h.2.2.2.2.2⟩

/-- the same for every history with at most `N` (= 2^31-1) allocations, with no schedule hypothesis -/
theorem C12_timeout_leaves_others_registered_nowrap (N : Nat) (evs : List Ev) (hcount : allocCount evs ≤ N)
    (i j : Nat) (oi oj : Op) (d : Nat) (hij : i ≠ j)
    (hoj : (run (init N) evs).ops[j]? = some oj) (hjp : oj.phase = .taken) (hjm : oj.mail = .empty)
    (hoi : (run (init N) evs).ops[i]? = some oi) (hres : oi.res = none) (hph : oi.phase ≠ .allocated) (him : oi.mail = .empty)
    (hd : oi.deadline = some d) (hle : d ≤ (run (init N) evs).now) (hr : (run (init N) evs).drv = .running)
    (hnq : oj.id ∉ (run (init N) evs).scrubQ) :
    (run (init N) (evs ++ timeoutAndScrubs (run (init N) evs) i)).drv = .running ∧
    (run (init N) (evs ++ timeoutAndScrubs (run (init N) evs) i)).scrubQ = [] ∧
    (∃ oi' : Op, (run (init N) (evs ++ timeoutAndScrubs (run (init N) evs) i)).ops[i]? = some oi' ∧ oi'.res = some .timeout) ∧
    oi.id ∉ (run (init N) (evs ++ timeoutAndScrubs (run (init N) evs) i)).inUse ∧
    (run (init N) (evs ++ timeoutAndScrubs (run (init N) evs) i)).ops[j]? = some oj ∧
    (oj.id, j) ∈ (run (init N) (evs ++ timeoutAndScrubs (run (init N) evs) i)).resultmap ∧
    lookup (run (init N) (evs ++ timeoutAndScrubs (run (init N) evs) i)).resultmap (oj.id : Int) = some j :=
  C12_timeout_leaves_others_registered N evs (freshRun2_init N evs hcount) i j oi oj d hij hoj hjp hjm hoi hres hph him hd hle hr hnq

/-! ### non-vacuity (tests): reply one tick before, at, and after the deadline -/
def tScript (replyAt : Nat) : List Ev :=
  [.alloc .single, .enqueue 0 (some 10), .drvOp true] ++
  (if replyAt ≤ 10 then [.tick replyAt, .srvSend ⟨1, 11, 5, true⟩, .drvResp, .tick (10 - replyAt), .poll 0]
   else [.tick 10, .poll 0, .drvScrub, .tick (replyAt - 10), .srvSend ⟨1, 11, 5, true⟩, .drvResp])

example : ((run (init 100) (tScript 9)).ops.map (·.res)) = [some (.frame ⟨1, 11, 5, true⟩)] := by decide
example : ((run (init 100) (tScript 10)).ops.map (·.res)) = [some (.frame ⟨1, 11, 5, true⟩)] := by decide
example : ((run (init 100) (tScript 11)).ops.map (·.res)) = [some .timeout] ∧
    ((run (init 100) (tScript 11)).ops.map (·.mail)) = [.dropped] ∧ (run (init 100) (tScript 11)).inUse = [] := by decide

/-- hypotheses of `C12_timed_out_holds_no_routing_state_nowrap`: op 0 timed out and its scrub has been handled -/
example :
    let s := run (init 100) (tScript 11)
    allocCount (tScript 11) ≤ 100 ∧ (s.ops[0]?.map fun o => (o.res, decide (o.id ∈ s.scrubQ))) = some (some .timeout, false) := by decide

/-- hypotheses of `C12_reply_under_unreserved_id_is_dropped_nowrap` / `C12_late_reply_is_dropped_nowrap`: the late
reply to the timed-out, scrubbed operation is the driver's next frame -/
def lateReplyHistory : List Ev :=
  [.alloc .single, .enqueue 0 (some 10), .drvOp true, .tick 10, .poll 0, .drvScrub, .tick 1, .srvSend ⟨1, 11, 5, true⟩]

example :
    let s := run (init 100) lateReplyHistory
    allocCount lateReplyHistory ≤ 100 ∧ 1 ∉ s.inUse ∧ s.drv = .running ∧ s.srvLog[s.pos]? = some ⟨1, 11, 5, true⟩ ∧
    (s.ops[0]?.map fun o => (o.res, o.id)) = some (some .timeout, 1) := by decide

/-- hypotheses of `C12_result_is_final_nowrap`: the time-out has been returned; scrub, late reply and a
further answered operation follow -/
example :
    let before : List Ev := [.alloc .single, .enqueue 0 (some 10), .drvOp true, .tick 10, .poll 0]
    let after : List Ev := [.drvScrub, .srvSend ⟨1, 11, 5, true⟩, .drvResp, .alloc .single, .enqueue 1 none, .drvOp true,
      .srvSend ⟨2, 11, 6, true⟩, .drvResp, .poll 1]
    allocCount (before ++ after) ≤ 100 ∧ ((run (init 100) before).ops[0]?.map (·.res)) = some (some .timeout) ∧
    (run (init 100) (before ++ after)).ops.map (·.res) = [some .timeout, some (.frame ⟨2, 11, 6, true⟩)] := by decide

/-- hypotheses of `C12_timeout_leaves_others_registered_nowrap`: op 0 (timeout 10) and op 2 (no timeout) wait with the
driver, a finished search's scrub (ID 2) is queued ahead, the clock has reached op 0's deadline -/
def twoWaitingHistory : List Ev :=
  [.alloc .single, .enqueue 0 (some 10), .alloc .search, .enqueue 1 none, .alloc .single, .enqueue 2 none,
   .drvOp true, .drvOp true, .drvOp true, .poll 1, .finish 0 true, .tick 10]

example :
    let s := run (init 100) twoWaitingHistory
    allocCount twoWaitingHistory ≤ 100 ∧ s.drv = .running ∧ s.scrubQ = [2] ∧ s.now = 10 ∧
    (s.ops[0]?.map fun o => (o.id, o.res, o.phase, o.mail, o.deadline)) = some (1, none, .taken, .empty, some 10) ∧
    (s.ops[2]?.map fun o => (o.id, o.res, o.phase, o.mail)) = some (3, none, .taken, .empty) ∧
    (timeoutAndScrubs s 0).length = 3 := by decide

/-- … and its conclusion on that history; the reply to op 2 then reaches it -/
example :
    let s' := run (init 100) (twoWaitingHistory ++ timeoutAndScrubs (run (init 100) twoWaitingHistory) 0)
    s'.drv = .running ∧ s'.scrubQ = [] ∧ s'.inUse = [3] ∧ s'.resultmap = [(3, 2)] ∧
    s'.ops.map (·.res) = [some .timeout, some .ack, none] ∧
    (run s' [.srvSend ⟨3, 11, 6, true⟩, .drvResp, .poll 2]).ops.map (·.res) =
      [some .timeout, some .ack, some (.frame ⟨3, 11, 6, true⟩)] := by decide

end Ldap3V.Conn

/-! ## the search timer over a whole stream: `loop { stream.next() }` on a virtual clock

Model/StreamTimed.lean: `nextAt` is `SearchStream::next_inner` as written (`time::timeout(T, rx.recv())`,
deadline = start of THIS call + T), `drain` the caller's loop.  Here the restart of the timer is part
of the model (each call computes its own deadline from its own start), not of the harness. -/
namespace Ldap3V.StreamTimed

/-- the law of one timed call: either it returns `timeout` at exactly its start + T and has consumed
nothing, or it returns the head of the channel at the later of the head's arrival and the call's
start — and then the head arrived no later than start + T -/
theorem C12_stream_call_law (d : Nat) (tie : Bool) (t : Nat) (q : Chan) :
    ((nextAt (some d) tie t q).1 = .timeout ∧ (nextAt (some d) tie t q).2.1 = t + d ∧ (nextAt (some d) tie t q).2.2 = q) ∨
    (∃ a w rest, q = (a, w) :: rest ∧ nextAt (some d) tie t q = (deliver w, max a t, rest) ∧ a ≤ t + d) :=
  nextAt_timed_law d tie t q

/-- **the timer restarts with every received item.**  `InTime d think t0 q`: every element of the
channel arrives less than `d` after the call that will receive it STARTED (not: after the search
started).  Then the loop returns ALL elements, in order, each at the later of its arrival and the
start of its call — no `timeout` among them, however large the total elapsed time; a `timeout`
follows only if the channel does not end with done/closed, `d` after the start of the call that
follows the last item.  (`think`: the caller's pauses between calls; `tie`: either order at a tie.) -/
theorem C12_stream_timer_restarts (d : Nat) (tie : Bool) (think : List Nat) (t0 : Nat) (q : Chan)
    (hwf : TerminalOnlyLast q = true) (hin : InTime d think t0 q) :
    drain (some d) tie think t0 q =
      delivered think t0 q ++ (if endsOpen q then [(Outcome.timeout, startAfter think t0 q + d)] else []) :=
  drain_inTime d tie q think t0 hwf hin

/-- the same read off the GAPS for a caller that calls back at once: first arrival less than `d`
after the start, every further arrival less than `d` after the previous one -/
theorem C12_stream_timer_restarts_gaps (d : Nat) (tie : Bool) (t0 : Nat) (q : Chan)
    (hwf : TerminalOnlyLast q = true) (hg : GapsBelow d t0 q) :
    drain (some d) tie [] t0 q =
      delivered [] t0 q ++ (if endsOpen q then [(Outcome.timeout, startAfter [] t0 q + d)] else []) :=
  drain_inTime d tie q [] t0 hwf (inTime_of_gaps d q t0 t0 (Nat.le_refl _) hg)

/-- … and in closed form: `n` items with gap `g < d` are returned at `t0 + g, t0 + 2g, …, t0 + n*g`
(`n*g` is not bounded by `d`); the time-out comes `d` after the LAST item, at `t0 + n*g + d` -/
theorem C12_stream_timer_restarts_evenly (d g t0 : Nat) (tie : Bool) (toks : List Nat) (hg : g < d) :
    drain (some d) tie [] t0 (evenly t0 g 1 toks) =
      evenlyDelivered t0 g 1 toks ++ [(Outcome.timeout, t0 + toks.length * g + d)] := by
  have h := drain_evenly d g t0 tie hg toks 0
  simpa using h

/-- **the converse: the time-out comes at the deadline of the call that waits.**  Items `pre` in
time for their calls, then an element that arrives more than `d` after the start `ts` of the call
waiting for it (or exactly `d` after it with the timer winning the tie): the loop delivers all of
`pre`, that call returns `timeout` at exactly `ts + d`, and the loop is over — the late element and
everything behind it is never delivered. -/
theorem C12_stream_timeout_at_deadline (d : Nat) (tie : Bool) (think : List Nat) (t0 : Nat)
    (pre : Chan) (a : Nat) (w : What) (post : Chan)
    (hitems : pre.all (fun e => e.2.isItem) = true) (hin : InTime d think t0 pre)
    (hlate : startAfter think t0 pre + d < a ∨ (startAfter think t0 pre + d = a ∧ 0 < d ∧ tie = false)) :
    drain (some d) tie think t0 (pre ++ (a, w) :: post) =
      delivered think t0 pre ++ [(Outcome.timeout, startAfter think t0 pre + d)] :=
  drain_late d tie a w post pre think t0 hitems hin hlate

/-- a stream without a timeout never returns `timeout`, whatever arrives whenever; it delivers
every element and then waits forever (`hang`) unless the channel ended with done/closed -/
theorem C12_stream_untimed_never_times_out (tie : Bool) (think : List Nat) (t0 : Nat) (q : Chan) :
    (∀ p ∈ drain none tie think t0 q, p.1 ≠ Outcome.timeout) ∧
    (TerminalOnlyLast q = true →
      drain none tie think t0 q =
        delivered think t0 q ++ (if endsOpen q then [(Outcome.hang, startAfter think t0 q)] else [])) :=
  ⟨drain_untimed_no_timeout tie q think t0, drain_untimed tie q think t0⟩

/-! ### non-vacuity -/

/-- T = 10, five items 9 apart: total 45 > T, all delivered, the time-out only 10 after the last -/
example : GapsBelow 10 0 [(9, .item 1), (18, .item 2), (27, .item 3), (36, .item 4), (45, .item 5)] ∧
    drain (some 10) true [] 0 [(9, .item 1), (18, .item 2), (27, .item 3), (36, .item 4), (45, .item 5)] =
      [(.item 1, 9), (.item 2, 18), (.item 3, 27), (.item 4, 36), (.item 5, 45), (.timeout, 55)] := by decide

example : evenly 0 9 1 [1, 2, 3, 4, 5] = [(9, .item 1), (18, .item 2), (27, .item 3), (36, .item 4), (45, .item 5)] := by decide

/-- … ending with the final result: no time-out at all -/
example : TerminalOnlyLast [(9, .item 1), (18, .item 2), (27, .done 3)] = true ∧
    InTime 10 [] 0 [(9, .item 1), (18, .item 2), (27, .done 3)] ∧
    drain (some 10) false [] 0 [(9, .item 1), (18, .item 2), (27, .done 3)] = [(.item 1, 9), (.item 2, 18), (.done 3, 27)] := by decide

/-- a slow caller: the item that arrived during the think time is returned at once, and the clock
of the next call starts only then (30 > 9 + 10, yet in time for ITS call, which started at 25) -/
example : InTime 10 [16, 0] 0 [(9, .item 1), (20, .item 2), (30, .item 3)] ∧
    drain (some 10) true [16, 0] 0 [(9, .item 1), (20, .item 2), (30, .item 3)] =
      [(.item 1, 9), (.item 2, 25), (.item 3, 30), (.timeout, 40)] := by decide

/-- gap 11 at the third item: two items, then the time-out at 18 + 10, the third is never delivered -/
example :
    let pre : Chan := [(9, .item 1), (18, .item 2)]
    pre.all (fun e => e.2.isItem) = true ∧ InTime 10 [] 0 pre ∧ startAfter [] 0 pre + 10 < 29 ∧
    drain (some 10) true [] 0 (pre ++ (29, .item 3) :: [(30, .done 4)]) = [(.item 1, 9), (.item 2, 18), (.timeout, 28)] := by decide

/-- the tie (gap exactly T): the item wins if it is made ready first, the timer otherwise -/
example : drain (some 10) true [] 0 [(9, .item 1), (19, .item 2)] = [(.item 1, 9), (.item 2, 19), (.timeout, 29)] ∧
    drain (some 10) false [] 0 [(9, .item 1), (19, .item 2)] = [(.item 1, 9), (.timeout, 19)] := by decide

/-- no timeout configured: gaps of any size, then the loop waits forever -/
example : drain none true [] 0 [(9, .item 1), (5000, .item 2)] = [(.item 1, 9), (.item 2, 5000), (.hang, 5000)] ∧
    drain none true [] 0 [(9, .item 1), (5000, .closed)] = [(.item 1, 9), (.closed, 5000)] := by decide

end Ldap3V.StreamTimed

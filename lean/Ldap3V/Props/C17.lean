/-
C17 — requested TLS is never silently downgraded.
"With an ldaps URL or with StartTLS enabled, no LDAP message other than the StartTLS request itself
is ever sent in cleartext, and connection establishment fails - rather than handing back a usable
cleartext handle - if the StartTLS response is not success, the handshake fails, or (unless
verification was explicitly disabled) the server certificate is not trusted for the host name.
Cleartext bytes injected after the StartTLS response are never interpreted as LDAP responses inside
the protected session."

Statements only; proofs are references to Lemmas/TlsSetup.lean and Lemmas/TlsSetupWire.lean.
Model: Model/TlsSetup.lean (`establish` = `LdapConnAsync::new_tcp` from `conn_pair` on, with the
single-operation driver turn, the tail of `op_call`, `ExopResult::success`, `into_parts()` /
`codec.framed(..)`, `create_tls_stream`, `conn_timeout`), over Model/Envelope.lean (`decodeInner`),
Model/Result.lean (`resultExt`), Model/Requests.lean (`build`, `encodeMsg`).

PARTIAL, by design: this is a proof of the establishment CONTROL FLOW.  The TLS library
(native-tls over OpenSSL: handshake, chain and host-name verification, record layer) is the
parameter `lib : TlsLib`; the theorems which speak about security assume its contract
`lib.Sound` ("`connect` returns Ok only if the handshake completed and, unless verification is
disabled, the chain verified for the host name").  Everything is quantified over ALL libraries,
ALL configurations `c : Cfg` (scheme, StartTLS, no_tls_verify, own connector, conn_timeout) and ALL
server behaviours `s : Server`: arbitrary cleartext bytes cut into arbitrary read chunks (any result
code, garbage, frames for other IDs, forged frames behind the response), close / reset / silence,
every handshake behaviour and certificate verdict, and every `select!` order of the turn (`early`).
The loop of the turn runs on fuel; `awaitResponse_fuel` (Lemmas/TlsSetup.lean) shows that the fuel
`afterRequest` supplies is never exhausted.

"Verification explicitly disabled" is `c.verifyOff`: `no_tls_verify` with the library's own
connector, or the caller's connector accepting invalid certificates (`set_connector` overrides
`no_tls_verify`: `create_tls_stream` does not look at it then).

Outcomes other than Ok/Err which the code has and the model keeps: `hang` (the server stays silent -
possibly after frames for other message IDs, which are dropped - and the caller set no
`conn_timeout`: the future does not resolve; with `conn_timeout` it is `Err(Timeout)`; waiting without
a limit is the caller's choice).  It hands back no handle.  A frame with the request's ID whose protocolOp is
not a well-formed LDAPResult is `Err(notLdapResult)` — `op_call`'s decoding error since the F27 repair (it was the
`expect("ldap result")` panic on the caller's task before).  A peer which CLOSES (or resets) instead of answering is an `Err` at
once, with or without `conn_timeout` (/repo commit "fix: StartTLS establishment fails instead of
hanging when the peer closes or answers another ID").
-/
import Ldap3V.Lemmas.TlsSetupWire
namespace Ldap3V
open Ldap3V.TlsSetup Ldap3V.Spec

/-- Clause 1.  On every path the LDAP messages written in cleartext are: nothing, or exactly the
one StartTLS request - and the latter only with scheme `ldap` and StartTLS enabled.  In particular
nothing for `ldaps` (even with StartTLS set: the setting is overridden) and nothing for plain `ldap`
during establishment.  The request is message ID 1, `[APPLICATION 23] { [0] "1.3.6.1.4.1.1466.20037" }`,
no controls - the octets the lane sees on the wire. -/
theorem C17_cleartext_writes (lib : TlsLib) (c : Cfg) (s : Server) :
    ((establish lib c s).cleartextWrites = [] ∨
      ((establish lib c s).cleartextWrites = [startTlsReq] ∧ c.scheme = .ldap ∧ c.starttls = true)) ∧
    (c.scheme = .ldaps → (establish lib c s).cleartextWrites = []) ∧
    startTlsReq = [0x30, 0x1d, 0x02, 0x01, 0x01, 0x77, 0x18, 0x80, 0x16,
      0x31, 0x2e, 0x33, 0x2e, 0x36, 0x2e, 0x31, 0x2e, 0x34, 0x2e, 0x31, 0x2e,
      0x31, 0x34, 0x36, 0x36, 0x2e, 0x32, 0x30, 0x30, 0x33, 0x37] := by
  have h := (establish_invariants lib c s).2.2.2
  have hmode : c.mode = .startTls → c.scheme = .ldap ∧ c.starttls = true := by
    unfold Cfg.mode; cases c.scheme <;> cases c.starttls <;> simp
  refine ⟨?_, ?_, by decide⟩
  · rcases h with h | ⟨h, hm⟩
    · exact Or.inl h
    · exact Or.inr ⟨h, hmode hm⟩
  · intro hs
    rcases h with h | ⟨_, hm⟩
    · exact h
    · rw [(hmode hm).1] at hs; cases hs

/-- Clause 2.  A handle is handed back over TLS only if the handshake completed and (verification
disabled or the certificate is trusted for the host name), and then `has_tls` is set and the
session's read buffer is empty; with TLS requested NO other kind of handle is ever handed back
(`okPlain` occurs exactly for scheme `ldap` without StartTLS); `has_tls` is set exactly on `okSecure`. -/
theorem C17_ok_implies_secure (lib : TlsLib) (hlib : lib.Sound) (c : Cfg) (s : Server) :
    ((establish lib c s).outcome = .okSecure →
      s.peer.hs = .completes ∧ (c.verifyOff = true ∨ s.peer.certOk = true) ∧
      (establish lib c s).hasTls = true ∧ (establish lib c s).sessionBuf = [] ∧ c.mode ≠ .plain) ∧
    ((establish lib c s).outcome = .okPlain ↔ c.mode = .plain) ∧
    ((establish lib c s).hasTls = true ↔ (establish lib c s).outcome = .okSecure) := by
  have inv := establish_invariants lib c s
  refine ⟨fun hok => ?_, inv.2.2.1, inv.2.1⟩
  have hl : ∃ stale, lib stale s.peer c.verifyOff = .ok ∧ c.mode ≠ .plain := by
    rcases (establish_ok_iff lib c s).mp hok with ⟨hm, h⟩ | ⟨hm, _, _, _, _, _, unread, _, _, _, _, h⟩
    · exact ⟨_, h, by rw [hm]; simp⟩
    · exact ⟨_, h, by rw [hm]; simp⟩
  obtain ⟨stale, hv, hm⟩ := hl
  obtain ⟨h1, h2⟩ := hlib stale s.peer c.verifyOff hv
  refine ⟨h1, ?_, inv.2.1.mpr hok, inv.1, hm⟩
  cases hoff : c.verifyOff with
  | true => exact Or.inl rfl
  | false => exact Or.inr (h2 hoff)

/-- EXACTLY when establishment succeeds with TLS requested: `ldaps` and the library accepts, or
StartTLS and the turn ends with a frame carrying ID 1 (frames for other IDs before it are dropped)
which converts to an LDAPResult with code 0, and the library accepts (reading first whatever
cleartext is still unread). -/
theorem C17_ok_iff (lib : TlsLib) (c : Cfg) (s : Server) :
    (establish lib c s).outcome = .okSecure ↔
      (c.mode = .direct ∧ lib s.chunks.flatten s.peer c.verifyOff = .ok) ∨
      (c.mode = .startTls ∧ ∃ op sk skb resp rest unread r,
          answer s = some (.response op sk skb resp rest unread) ∧ resultExt op = some r ∧ r.rc = 0 ∧
          lib unread.flatten s.peer c.verifyOff = .ok) :=
  establish_ok_iff lib c s

/-- Clause 3.  With TLS requested (`ldaps` or StartTLS), establishment does NOT succeed - no handle of
any kind - whenever
  (a) the handshake does not complete, or
  (b) verification is not disabled and the certificate is not trusted for the host name;
and with StartTLS, for the way `x` the turn ends after the request (frames for other message IDs are
dropped and do not end it),
  (c) a response with a non-zero result code `rc` (any `rc`)   ⇒ `Err(LdapResult rc)`,
  (d) close / reset / garbage / truncated-then-EOF (with or without dropped frames before)
                                                               ⇒ `Err` at once (the driver ended: `ResultRecv`),
      and a peer which does not stay silent (`atEnd ≠ silent`) ALWAYS ends in (c), (d), (f) or a
      success response: it can never make the client wait,
  (e) silence (`atEnd = silent`, nothing with ID 1 so far)     ⇒ a stall: `Err(Timeout)` under `conn_timeout`,
                                                                 else the future does not resolve,
  (f) ID 1 but not an LDAPResult                               ⇒ `Err` (decoding error; a panic on the caller's task before F27),
  (g) the request was never sent (socket served first, ended in close/garbage) ⇒ `Err`, nothing written.
In all of (c)-(g) the only cleartext write is the request (none in (g)) and `has_tls` stays false. -/
theorem C17_failures (lib : TlsLib) (hlib : lib.Sound) (c : Cfg) (s : Server) (hreq : c.mode ≠ .plain) :
    (establish lib c s).outcome ≠ .okPlain ∧
    (s.peer.hs ≠ .completes → (establish lib c s).outcome ≠ .okSecure) ∧
    (c.verifyOff = false → s.peer.certOk = false → (establish lib c s).outcome ≠ .okSecure) ∧
    (c.mode = .startTls →
      (∀ x, answer s = some x →
        (∀ op sk skb resp rest unread, x = .response op sk skb resp rest unread →
          (∀ r, resultExt op = some r → r.rc ≠ 0 → (establish lib c s).outcome = .err (.ldapResult r.rc)) ∧
          (resultExt op = none → (establish lib c s).outcome = .err .notLdapResult)) ∧
        (∀ sk skb, x = .driverErr sk skb → (establish lib c s).outcome = .err .driverEnded) ∧
        (∀ sk skb, x = .waiting sk skb → (establish lib c s).outcome = stall c ∧ s.atEnd = .silent) ∧
        (s.atEnd ≠ .silent → (∃ sk skb, x = .driverErr sk skb) ∨
          (∃ op sk skb resp rest unread, x = .response op sk skb resp rest unread))) ∧
      (answer s = none → (establish lib c s).cleartextWrites = [] ∧
        (establish lib c s).outcome = .err .driverEnded)) ∧
    (stall c = .hang ∨ stall c = .err .timeout) := by
  have sec := (C17_ok_implies_secure lib hlib c s)
  refine ⟨fun h => hreq (sec.2.1.mp h), fun hh hok => hh (sec.1 hok).1, ?_, ?_, stall_cases c⟩
  · intro hoff hcert hok
    rcases (sec.1 hok).2.1 with h | h
    · rw [hoff] at h; cases h
    · rw [hcert] at h; cases h
  · intro hm
    refine ⟨fun x hx => ?_, establish_never_sent lib c s hm⟩
    have ha := establish_answer lib c s hm x hx
    refine ⟨fun op sk skb resp rest unread hxe => ?_, ha.2.1, ha.2.2.1, fun hne => ?_⟩
    · have hf := ha.2.2.2 op sk skb resp rest unread hxe
      exact ⟨fun r hr hrc => ((hf.2 r hr).1 hrc), hf.1⟩
    · cases x with
      | driverErr sk skb => exact Or.inl ⟨sk, skb, rfl⟩
      | waiting sk skb => exact absurd (ha.2.2.1 sk skb rfl).2 hne
      | response op sk skb resp rest unread => exact Or.inr ⟨op, sk, skb, resp, rest, unread, rfl⟩

/-- Clause 3 at the octet level, refusal.  The server answers the request with ANY well-formed
RFC 4511 LDAPMessage `m` for message ID 1 carrying ANY well-formed response `r` (whichever of the
eight response kinds - the client does not check that it is an ExtendedResponse) with ANY non-zero
result code below 2^32, in ANY legal BER encoding `e`, cut over segments in ANY way (`ps`, `q`),
followed by ANY bytes `y` in the same segment (e.g. a forged success) and ANY further segments:
establishment fails with exactly that code, only the request was written, no TLS. -/
theorem C17_refused_wire (lib : TlsLib) (c : Cfg) (s : Server) (m : WireMsg) (r : Resp) (e q y : Bytes)
    (ps more : List Bytes) (hmode : c.mode = .startTls) (hs : s.early = 0)
    (hc : s.chunks = ps ++ (q ++ y) :: more) (hcut : ps.flatten ++ q = e) (hq : q ≠ [])
    (hop : m.op = respOp r) (hm : m.WF) (hid : m.id = 1) (hr : WFResp r) (he : Enc m.tlv e)
    (hsz : (e ++ y).length < 18446744073709551616) (hrc : r.rc ≠ 0) :
    (establish lib c s).outcome = .err (.ldapResult r.rc) ∧
    (establish lib c s).cleartextWrites = [startTlsReq] ∧ (establish lib c s).hasTls = false :=
  refused_wire lib c s m r e q y ps more hmode hs hc hcut hq hop hm hid hr he hsz hrc

/-- Clause 4.  When StartTLS establishment succeeds, every cleartext byte the server sent is
accounted for: `chunks.flatten = consumed ++ discarded ++ tlsStale`, where `consumed` ends with
`response` - the StartTLS response (ID 1, code 0), the LAST frame ever decoded from cleartext and the
only one handed to anybody (the frames `pre` before it carried other IDs or came before the request:
they are dropped) -, `discarded` is what `Framed` had read behind the response (dropped with
`parts.read_buf`), and `tlsStale` was still in the socket and was read by the TLS library, which
accepted it as part of the handshake.  The LDAP decoder of the protected session starts from an
EMPTY buffer over the TLS stream (on every path).  With the observed library (`refLib`: stale
cleartext is a fatal handshake error) `tlsStale = []`: every byte injected behind the response was
in the dropped buffer, or establishment failed. -/
theorem C17_injected_cleartext_not_interpreted (lib : TlsLib) (c : Cfg) (s : Server) :
    (establish lib c s).sessionBuf = [] ∧
    (c.mode = .startTls → (establish lib c s).outcome = .okSecure →
      ∃ pre preb op ctl r, (establish lib c s).decoded = pre ++ [(1, op)] ∧
        (establish lib c s).consumed = preb ++ (establish lib c s).response ∧
        resultExt op = some r ∧ r.rc = 0 ∧
        s.chunks.flatten = (establish lib c s).consumed ++ (establish lib c s).discarded ++ (establish lib c s).tlsStale ∧
        decodeInner ((establish lib c s).response ++ (establish lib c s).discarded) =
          .frame 1 op ctl (establish lib c s).response.length ∧
        lib (establish lib c s).tlsStale s.peer c.verifyOff = .ok) ∧
    (lib = refLib → (establish lib c s).outcome = .okSecure → (establish lib c s).tlsStale = []) := by
  have inv := establish_invariants lib c s
  refine ⟨inv.1, fun hm hok => establish_ok_bytes lib c s hm hok, ?_⟩
  intro hl hok
  subst hl
  cases hm : c.mode with
  | plain => rw [establish_plain refLib c s hm] at hok; cases hok
  | direct =>
    rw [establish_direct refLib c s hm] at hok ⊢
    rw [tlsPhase_ok_iff] at hok
    rw [(tlsPhase_fields refLib c s _ _).2.2.2.2.2]
    exact refLib_ok_stale _ _ _ hok
  | startTls =>
    obtain ⟨_, _, _, _, _, _, _, _, _, _, _, h⟩ := establish_ok_bytes refLib c s hm hok
    exact refLib_ok_stale _ _ _ h

/-- Clause 4 at the octet level.  The server answers with ANY well-formed success response for ID 1
(any encoding, cut over segments in any way) and puts ANY bytes `y` - e.g. complete forged LDAP
frames - right behind it in the same segment, and ANY bytes in later segments `more`: the response
is the only frame decoded, `y` is exactly the dropped buffer, `more` goes to the TLS library, the
session starts with an empty buffer, and the outcome is the library's verdict. -/
theorem C17_injected_wire (lib : TlsLib) (c : Cfg) (s : Server) (m : WireMsg) (r : Resp) (e q y : Bytes)
    (ps more : List Bytes) (hmode : c.mode = .startTls) (hs : s.early = 0)
    (hc : s.chunks = ps ++ (q ++ y) :: more) (hcut : ps.flatten ++ q = e) (hq : q ≠ [])
    (hop : m.op = respOp r) (hm : m.WF) (hid : m.id = 1) (hr : WFResp r) (he : Enc m.tlv e)
    (hsz : (e ++ y).length < 18446744073709551616) (hrc : r.rc = 0) :
    (establish lib c s).cleartextWrites = [startTlsReq] ∧ (establish lib c s).decoded = [(1, respOp r)] ∧
    (establish lib c s).consumed = e ∧ (establish lib c s).discarded = y ∧
    (establish lib c s).tlsStale = more.flatten ∧ (establish lib c s).sessionBuf = [] ∧
    (establish lib c s).outcome = (match lib more.flatten s.peer c.verifyOff with
      | .ok => .okSecure | .error => .err .nativeTls | .pending => stall c) :=
  success_wire lib c s m r e q y ps more hmode hs hc hcut hq hop hm hid hr he hsz hrc

/-- A response for ANOTHER message ID does not end the exchange: any well-formed message `m0` with
ID ≠ 1 sent in front of any well-formed success response for ID 1 (one segment, any bytes `y`
behind, any further segments) is decoded and delivered to nobody, and the response completes the
StartTLS exchange exactly as if `m0` had not been sent. -/
theorem C17_foreign_id_ignored_wire (lib : TlsLib) (c : Cfg) (s : Server) (m0 m : WireMsg) (r : Resp)
    (e0 e y : Bytes) (more : List Bytes) (hmode : c.mode = .startTls) (hs : s.early = 0)
    (hc : s.chunks = (e0 ++ (e ++ y)) :: more)
    (hm0 : m0.WF) (hid0 : m0.id ≠ 1) (he0 : Enc m0.tlv e0)
    (hop : m.op = respOp r) (hm : m.WF) (hid : m.id = 1) (hr : WFResp r) (he : Enc m.tlv e)
    (hsz : (e0 ++ (e ++ y)).length < 18446744073709551616) (hrc : r.rc = 0) :
    (establish lib c s).cleartextWrites = [startTlsReq] ∧
    (establish lib c s).decoded = [((m0.id : Int), m0.op), (1, respOp r)] ∧
    (establish lib c s).consumed = e0 ++ e ∧ (establish lib c s).response = e ∧
    (establish lib c s).discarded = y ∧ (establish lib c s).tlsStale = more.flatten ∧
    (establish lib c s).sessionBuf = [] ∧
    (establish lib c s).outcome = (match lib more.flatten s.peer c.verifyOff with
      | .ok => .okSecure | .error => .err .nativeTls | .pending => stall c) :=
  foreign_then_success_wire lib c s m r e y more m0 e0 hmode hs hc hm0 hid0 he0 hop hm hid hr he hsz hrc

/-- Clause 5.  Scheme `ldap` without StartTLS: the property does not apply; the plain handle is
handed back at once, nothing is written or read during establishment, `has_tls` is false. -/
theorem C17_plain_ldap_untouched (lib : TlsLib) (c : Cfg) (s : Server) (hs : c.scheme = .ldap)
    (hst : c.starttls = false) :
    (establish lib c s).outcome = .okPlain ∧ (establish lib c s).hasTls = false ∧
    (establish lib c s).cleartextWrites = [] ∧ (establish lib c s).decoded = [] ∧
    (establish lib c s).tlsStale = [] := by
  have hm : c.mode = .plain := by simp [Cfg.mode, hs, hst]
  simp [establish_plain lib c s hm]

/-- The library behaviour used by the line driver (and observed on loopback) meets the contract. -/
theorem C17_reflib_sound : TlsLib.Sound refLib := refLib_sound

/-! ## Non-vacuity -/

/-- StartTLS success response for ID 1 (with the responseName), as the lane's server sends it -/
def exSuccess : Bytes :=
  [0x30, 0x24, 0x02, 0x01, 0x01, 0x78, 0x1f, 0x0a, 0x01, 0x00, 0x04, 0x00, 0x04, 0x00, 0x8a, 0x16,
   0x31, 0x2e, 0x33, 0x2e, 0x36, 0x2e, 0x31, 0x2e, 0x34, 0x2e, 0x31, 0x2e, 0x31, 0x34, 0x36, 0x36, 0x2e, 0x32, 0x30, 0x30, 0x33, 0x37]
/-- forged cleartext BindResponse "success" for the ID the first operation of the session will get -/
def exForged : Bytes := [0x30, 0x0c, 0x02, 0x01, 0x02, 0x61, 0x07, 0x0a, 0x01, 0x00, 0x04, 0x00, 0x04, 0x00]
/-- refusal: ExtendedResponse `unavailable` (52) -/
def exRefused : Bytes := [0x30, 0x0c, 0x02, 0x01, 0x01, 0x78, 0x07, 0x0a, 0x01, 0x34, 0x04, 0x00, 0x04, 0x00]

def exStartTls : Cfg := { scheme := .ldap, starttls := true, noVerify := false }
def exLdaps : Cfg := { scheme := .ldaps, starttls := true, noVerify := false }
def exGoodPeer : Peer := ⟨.completes, true⟩

-- forged frame in the SAME segment as the response, honest handshake: secure, the forged frame is the dropped buffer
example :
    let R := establish refLib exStartTls { chunks := [exSuccess ++ exForged], atEnd := .eof, peer := exGoodPeer }
    R.outcome = .okSecure ∧ R.cleartextWrites = [startTlsReq] ∧ R.decoded.length = 1 ∧ R.consumed = exSuccess ∧
    R.discarded = exForged ∧ R.tlsStale = [] ∧ R.sessionBuf = [] ∧ R.hasTls = true := by decide
-- forged frame in a LATER segment: it is still in the socket, the TLS library reads it, the handshake fails
example :
    let R := establish refLib exStartTls { chunks := [exSuccess, exForged], atEnd := .eof, peer := exGoodPeer }
    R.outcome = .err .nativeTls ∧ R.discarded = [] ∧ R.tlsStale = exForged ∧ R.hasTls = false := by decide
-- response cut in two segments, forged frame behind the second part
example :
    let R := establish refLib exStartTls { chunks := [exSuccess.take 11, exSuccess.drop 11 ++ exForged], atEnd := .eof, peer := exGoodPeer }
    R.outcome = .okSecure ∧ R.consumed = exSuccess ∧ R.discarded = exForged := by decide
-- refusal, with a forged success right behind it and a server willing to handshake
example :
    let R := establish refLib exStartTls { chunks := [exRefused ++ exSuccess], atEnd := .eof, peer := exGoodPeer }
    R.outcome = .err (.ldapResult 52) ∧ R.cleartextWrites = [startTlsReq] ∧ R.hasTls = false := by decide
-- untrusted certificate: fails with verification on, succeeds only when it is explicitly disabled
example : (establish refLib exStartTls { chunks := [exSuccess], atEnd := .eof, peer := ⟨.completes, false⟩ }).outcome = .err .nativeTls ∧
    (establish refLib { exStartTls with noVerify := true } { chunks := [exSuccess], atEnd := .eof, peer := ⟨.completes, false⟩ }).outcome = .okSecure ∧
    -- `no_tls_verify` is ignored when the caller supplies a (verifying) connector
    (establish refLib { exStartTls with noVerify := true, connector := .custom false }
        { chunks := [exSuccess], atEnd := .eof, peer := ⟨.completes, false⟩ }).outcome = .err .nativeTls := by decide
-- garbage, close (an error at once, with or without conn_timeout), reset, silence, not-a-result
example : (establish refLib exStartTls { chunks := [[0x30, 0x00]], atEnd := .eof, peer := exGoodPeer }).outcome = .err .driverEnded ∧
    (establish refLib exStartTls { chunks := [], atEnd := .eof, peer := exGoodPeer }).outcome = .err .driverEnded ∧
    (establish refLib { exStartTls with connTimeout := true } { chunks := [], atEnd := .eof, peer := exGoodPeer }).outcome = .err .driverEnded ∧
    (establish refLib exStartTls { chunks := [], atEnd := .reset, peer := exGoodPeer }).outcome = .err .driverEnded ∧
    (establish refLib exStartTls { chunks := [], atEnd := .silent, peer := exGoodPeer }).outcome = .hang ∧
    (establish refLib { exStartTls with connTimeout := true } { chunks := [], atEnd := .silent, peer := exGoodPeer }).outcome = .err .timeout ∧
    (establish refLib exStartTls { chunks := [[0x30, 0x05, 0x02, 0x01, 0x01, 0x78, 0x00]], atEnd := .silent, peer := exGoodPeer }).outcome = .err .notLdapResult := by
  decide
-- a frame for another ID (here ID 2) is dropped: followed by the response the exchange completes,
-- followed by silence the client waits, followed by close it is an error
example :
    let R := establish refLib exStartTls { chunks := [exForged ++ exSuccess ++ exForged], atEnd := .eof, peer := exGoodPeer }
    R.outcome = .okSecure ∧ R.decoded.length = 2 ∧ R.consumed = exForged ++ exSuccess ∧ R.response = exSuccess ∧
    R.discarded = exForged ∧ R.sessionBuf = [] := by decide
example : (establish refLib exStartTls { chunks := [exForged], atEnd := .silent, peer := exGoodPeer }).outcome = .hang ∧
    (establish refLib exStartTls { chunks := [exForged], atEnd := .eof, peer := exGoodPeer }).outcome = .err .driverEnded := by decide
-- the socket is served before the request (`early`): the frame - even one with ID 1 - is dropped;
-- the response sent once more afterwards completes the exchange; close instead: error, nothing written
example :
    let R := establish refLib exStartTls { early := 1, chunks := [exSuccess], atEnd := .silent, peer := exGoodPeer }
    R.outcome = .hang ∧ R.cleartextWrites = [startTlsReq] ∧ R.decoded.length = 1 := by decide
example :
    let R := establish refLib exStartTls { early := 1, chunks := [exSuccess ++ exSuccess], atEnd := .eof, peer := exGoodPeer }
    R.outcome = .okSecure ∧ R.decoded.length = 2 := by decide
example :
    let R := establish refLib exStartTls { early := 1, chunks := [], atEnd := .eof, peer := exGoodPeer }
    R.outcome = .err .driverEnded ∧ R.cleartextWrites = [] := by decide
-- ldaps: no cleartext at all (StartTLS setting overridden); cleartext from the server breaks the handshake
example :
    let R := establish refLib exLdaps { chunks := [], atEnd := .eof, peer := exGoodPeer }
    R.outcome = .okSecure ∧ R.cleartextWrites = [] ∧ R.hasTls = true := by decide
example : (establish refLib exLdaps { chunks := [exForged], atEnd := .eof, peer := exGoodPeer }).outcome = .err .nativeTls := by decide
-- plain ldap
example : (establish refLib { scheme := .ldap, starttls := false, noVerify := false }
    { chunks := [exForged], atEnd := .eof, peer := ⟨.fails, false⟩ }).outcome = .okPlain := by decide

/-- hypotheses of the octet-level theorems are satisfiable: `exSuccess` is an encoding of a
well-formed ExtendedResponse message for ID 1 -/
def exOid : Bytes :=
  [0x31, 0x2e, 0x33, 0x2e, 0x36, 0x2e, 0x31, 0x2e, 0x34, 0x2e, 0x31, 0x2e, 0x31, 0x34, 0x36, 0x36, 0x2e, 0x32, 0x30, 0x30, 0x33, 0x37]
def exResp : Resp := ⟨24, [0], 0, [], [], none, none, some exOid, none⟩
def exMsg : WireMsg := ⟨[1], 1, respOp exResp, none⟩
example : exMsg.WF := by
  refine ⟨by decide, by decide, rfl, ?_, ?_⟩
  · intro cs h; cases h
  · simp [exMsg, exResp, respOp, WireMsg.tlv, msgTlv, Tlv.depth, Tlv.depthList, maxDepth]
example : WFResp exResp := by
  refine ⟨by decide, by decide, by decide, by decide, by decide, ?_, ?_, ?_, ?_⟩
  · intro us h; cases h
  · intro n h; cases h; decide
  · intro _; rfl
  · intro h; exact absurd rfl h
example : encode exMsg.tlv = exSuccess ∧ exOid = startTlsOid := by decide
example : Enc exMsg.tlv (encode exMsg.tlv) :=
  enc_encode exMsg.tlv (by
    simp [exMsg, exResp, exOid, respOp, WireMsg.tlv, msgTlv, WF, WFList, encodeList, encode, encType, encLen])
example : TlsLib.Sound refLib ∧ refLib [] exGoodPeer false = .ok ∧ refLib exForged exGoodPeer true = .error := ⟨refLib_sound, by decide, by decide⟩

end Ldap3V

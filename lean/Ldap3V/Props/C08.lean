/-
C08 — filter strings compile to the RFC 4511 filter they denote.
Statements only; proofs are references to Lemmas/Filter*.  Model: Ldap3V/Model/Filter.lean
(src/filter.rs, nom-7 complete combinators); spec: Ldap3V/Spec/Filter.lean (RFC 4515 / 4512 / 4511).

`Filter.parse : Bytes → Option Tag` is `ldap3::parse_filter`: the nesting guard (`nesting_within_limit`,
at most `Filter.maxNesting` = 128 levels of parentheses — the repair of F28, a stack overflow on deeply
nested strings) followed by the grammar; the BER of the result is `encode t.toTlv` (C07).
`Filter.fdepth f`: the nesting depth of the syntax tree `f` (an item has 1, each `&` `|` `!` adds 1) —
which is the parenthesis depth of every string that denotes it.  `GLib f s`: the string `s` denotes the tree `f` in the library's language
(RFC 4515 grammar + bare item + `(&)` `(|)` + a bare number as attribute type + any octet ≥ 0x80
in values; the keyword `dn` in any case); `GRfc`: RFC 4515 as written (+ the documented extensions), over UTF-8 text; `GRfc ⊆ GLib`.
-/
import Ldap3V.Lemmas.FilterPrint
import Ldap3V.Lemmas.FilterTlv
import Ldap3V.Lemmas.FilterDialect
import Ldap3V.Lemmas.GenPureFeed
import Ldap3V.Lemmas.FilterShape
import Ldap3V.Lemmas.FilterNesting
import Ldap3V.Lemmas.GenLoop
namespace Ldap3V
open Spec.Filter
open Spec (Filter)

/-- Soundness: whatever is accepted is a string of the library's language, and the tag built is
the RFC 4511 encoding of the tree that string denotes. -/
theorem C08_sound (s : Bytes) (t : Tag) (h : Filter.parse s = some t) :
    ∃ f, GLib f s ∧ t.toTlv = toTlv f :=
  Filter.parse_sound ((Filter.parse_some_iff s t).mp (Filter.parse_core h))

/-- Completeness for the library's language (a superset of RFC 4515):
every string of the language whose tree nests at most 128 levels is accepted and compiles to the BER
filter of its tree.  (Deeper ones are refused: `C08_nesting_limit`.) -/
theorem C08_complete_lib (f : Filter) (s : Bytes) (h : GLib f s) (hd : Filter.fdepth f ≤ Filter.maxNesting) :
    (Filter.parse s).map Tag.toTlv = some (toTlv f) := by
  obtain ⟨t, ht, htl⟩ := Filter.parse_complete_guarded h hd
  rw [ht]; simp [htl]

/-- RFC 4515 as written (the literal `"dn"` in any case, RFC 5234 §2.3), with the documented
extensions, is contained in the library's language. -/
theorem C08_rfc_in_lib (f : Filter) (s : Bytes) (h : GRfc f s) : GLib f s := rfc_in_lib h

/-- Every filter string of the RFC 4515 grammar, plus the documented extensions (an item without
outer parentheses, the empty `(&)` and `(|)`), is accepted and compiles to the BER filter of its
syntax tree — up to the nesting bound of 128 levels (the property's quantifier is over trees up to a
nesting bound; what happens beyond it is `C08_nesting_limit`: an error). -/
theorem C08_complete (f : Filter) (s : Bytes) (h : GRfc f s) (hd : Filter.fdepth f ≤ Filter.maxNesting) :
    (Filter.parse s).map Tag.toTlv = some (toTlv f) :=
  C08_complete_lib f s (rfc_in_lib h) hd

/-- The nesting limit, exactly: a string is accepted iff it nests parentheses at most 128 deep and the
grammar accepts it; for a parenthesised string of the language that is: iff its TREE nests at most 128
levels.  So the recursion of the descent parser (one level per level of nesting) is never deeper than
128 + a constant, for every input. -/
theorem C08_nesting_limit :
    (∀ s t, Filter.parse s = some t ↔ Filter.nest 0 s ≤ Filter.maxNesting ∧ Filter.parseCore s = some t) ∧
    (∀ f s, G .lib f s → ((Filter.parse s).isSome = true ↔ Filter.fdepth f ≤ Filter.maxNesting)) ∧
    (∀ s, Filter.maxNesting < Filter.nest 0 s → Filter.parseO s = .reject) := by
  refine ⟨Filter.parse_some, ?_, ?_⟩
  · intro f s h
    constructor
    · intro hs
      cases hp : Filter.parse s with
      | none => rw [hp] at hs; cases hs
      | some t =>
        have hn := Filter.parse_nest hp
        have := Filter.nest_G h 0 []
        simp [Filter.nest] at this
        omega
    · intro hd
      obtain ⟨t, ht, _⟩ := Filter.parse_complete_guarded (Or.inl h) hd
      rw [ht]; rfl
  · intro s h
    rw [Filter.parseO_eq]
    have : ¬ Filter.nest 0 s ≤ Filter.maxNesting := by omega
    simp [this]

/-- The strings of the library's language are unambiguous: a string denotes one tree. -/
theorem C08_unambiguous (f f' : Filter) (s : Bytes) (h : GLib f s) (h' : GLib f' s) : f = f' := by
  obtain ⟨t, ht, e⟩ := Filter.parse_complete h
  obtain ⟨t', ht', e'⟩ := Filter.parse_complete h'
  rw [ht] at ht'
  cases ht'
  exact toTlv_injective (e.symm.trans e')

/-- Different trees have different BER forms … -/
theorem C08_toTlv_injective (f g : Filter) (h : toTlv f = toTlv g) : f = g := toTlv_injective h

/-- … and the (strict) RFC 4511 decoder reads the tree back. -/
theorem C08_ofTlv_toTlv (f : Filter) : ofTlv (toTlv f) = some f := ofTlv_toTlv f

/-- Totality: neither entry point can panic (`filtertag`'s `unimplemented!()`, the `d[0]` of
`number` and the `mid_final[0]` of `eq` are unreachable); `parse s = none` is `Err(())`. -/
theorem C08_total (s : Bytes) : Filter.parseO s ≠ .panic ∧ Filter.parseMvO s ≠ .panic ∧
    (Filter.parse s = none ↔ Filter.parseO s = .reject) := by
  refine ⟨Filter.parseO_total s, Filter.parseMvO_total s, ?_⟩
  have := Filter.parseO_total s
  unfold Filter.parse
  cases h : Filter.parseO s <;> simp_all [Filter.Outcome.toOption]

/-- Every accepted string means what it says: decoding the BER (strict RFC 4511 decoder) gives a
well-formed tree whose canonical RFC 4515 print is the input up to escaping and the spelling of
the `dn` keyword (`normTop`: the keyword in lower case where it is the keyword, every `\hh` replaced
by the canonical rendering of its octet, parentheses supplied for a bare item). -/
theorem C08_means_what_it_says (s : Bytes) (t : Tag) (h : Filter.parse s = some t) :
    ∃ f, ofTlv t.toTlv = some f ∧ wf f = true ∧ print f = normTop s := by
  obtain ⟨f, hg, ht⟩ := C08_sound s t h
  exact ⟨f, by rw [ht]; exact ofTlv_toTlv f, Filter.wf_of_GLib hg, Filter.print_eq_normTop hg⟩

/-! ### rejection corollaries: one per class named in the property -/

/-- unbalanced parentheses (every `(` `)` octet counts: they never stand for themselves) -/
theorem C08_rejects_unbalanced (s : Bytes) (h : balanced 0 s = false) : Filter.parse s = none :=
  Filter.parse_none_of_core (Filter.reject_of_inv (fun _ _ hg => Filter.balanced_GLib hg) s h)

/-- trailing text after a complete parenthesised filter -/
theorem C08_rejects_trailing_text (f : Filter) (s₁ s₂ : Bytes) (h : G .lib f s₁) (h2 : s₂ ≠ []) :
    Filter.parse (s₁ ++ s₂) = none := by
  obtain ⟨t, ht, _⟩ := Filter.filter_complete f s₁ h ((s₁ ++ s₂).length + 1) s₂ (by omega)
  have : Filter.filtexpr (s₁ ++ s₂) = .ok t s₂ := Filter.alt_left ht
  apply Filter.parse_none_of_core
  unfold Filter.parseCore Filter.parseCoreO
  rw [this]
  cases s₂ with
  | nil => exact absurd rfl h2
  | cons c x => rfl

/-- a malformed escape: a backslash not followed by two hex digits -/
theorem C08_rejects_bad_escape (s : Bytes) (h : escapesOk s = false) : Filter.parse s = none :=
  Filter.parse_none_of_core (Filter.reject_of_inv (fun _ _ hg => Filter.escapesOk_GLib hg) s h)

/-- an unescaped special character: NUL anywhere, or a `(` that is neither the first octet nor
preceded by one of `(` `&` `|` `!` `)` (i.e. inside a value or an attribute description).  An
unescaped `)` in a value makes the string unbalanced or leaves trailing text; `\` is covered by
`C08_rejects_bad_escape`, `*` by `C08_rejects_raw_asterisk` / `C08_rejects_adjacent_asterisks`. -/
theorem C08_rejects_raw_special (s : Bytes) (h : (0 : UInt8) ∈ s ∨ parenPrevOk true s = false) :
    Filter.parse s = none := by
  rcases h with h | h
  · cases hp : Filter.parse s with
    | none => rfl
    | some t =>
      obtain ⟨f, hg, _⟩ := C08_sound s t hp
      exact absurd h (Filter.noNul_GLib hg)
  · exact Filter.parse_none_of_core (Filter.reject_of_inv (fun _ _ hg => Filter.prev_GLib hg) s h)

/-- an unescaped `*` in the value of `>=`, `<=`, `~=` or an extensible match (anywhere after the
operator's first octet), with or without the outer parentheses; in an `=` item an asterisk is the
substring separator -/
theorem C08_rejects_raw_asterisk (a x : Bytes) (c : UInt8) (ha : IsAttrDesc .lib a)
    (hc : c = 0x3E ∨ c = 0x3C ∨ c = 0x7E ∨ c = 0x3A) (hx : (0x2A : UInt8) ∈ x) :
    Filter.parse (a ++ c :: x) = none ∧ Filter.parse (0x28 :: ((a ++ c :: x) ++ [0x29])) = none := by
  suffices hs : Filter.starFree x = false by
    obtain ⟨h1, h2⟩ := Filter.reject_star_in_op_value ha hc hs
    exact ⟨Filter.parse_none_of_core h1, Filter.parse_none_of_core h2⟩
  cases h : Filter.starFree x with
  | false => rfl
  | true =>
    have := List.all_eq_true.mp h _ hx
    simp at this

/-- an empty attribute description: a `(` followed by something that cannot start a filter
component (an operator, `)`, `*`, …), or a bare item starting that way -/
theorem C08_rejects_empty_attr (s : Bytes)
    (h : parenFollowOk false s = false ∨
      ∃ c x, s = c :: x ∧ c ≠ 0x28 ∧ c ≠ 0x3A ∧ ALPHA c = false ∧ DIGIT c = false) :
    Filter.parse s = none := by
  rcases h with h | ⟨c, x, rfl, h1, h2, h3, h4⟩
  · exact Filter.parse_none_of_core (Filter.reject_of_inv (fun _ _ hg => Filter.follow_GLib hg) s h)
  · cases hp : Filter.parse (c :: x) with
    | none => rfl
    | some t =>
      obtain ⟨f, hg, _⟩ := C08_sound _ t hp
      rcases hg with hg | hg
      · obtain ⟨y, e⟩ := Filter.G_head hg
        cases e; exact absurd rfl h1
      · obtain ⟨c', y, e, hc⟩ := Filter.item_head hg
        cases e
        rw [← Filter.ALPHA_eq, ← Filter.DIGIT_eq, h3, h4] at hc
        rcases hc with hc | hc | hc
        · cases hc
        · cases hc
        · exact absurd hc h2

/-- adjacent asterisks -/
theorem C08_rejects_adjacent_asterisks (s : Bytes) (h : noAdjacentStars false s = false) :
    Filter.parse s = none :=
  Filter.parse_none_of_core (Filter.reject_of_inv (fun _ _ hg => Filter.noAdjacentStars_GLib hg) s h)

/-! ### shape of the output, for every accepted string (what C02 and C19 assume about the filter element) -/

/-- Every accepted filter string yields a tree which
* uses classes 0..3 and tag numbers ≤ 30 throughout (`Spec.lowTags`), the root being one of the
  alternatives of the RFC 4511 `Filter` CHOICE (context class, tag 0..9);
* is as deep as the string nests parentheses (`Filter.nest 0 s`, the greatest parenthesis depth reached
  in `s`), within −1 (`(a=*)` is a primitive) and +2 (the bare item `a=*b*` has two constructed levels
  and no parenthesis); +1 when the string starts with `(`;
* under the size bound `|s| < 2^58` is one the writer can represent (`Spec.WF`: every content length
  fits a `usize`), its encoding being at most `32·|s| + 51` octets long.
The size bound is a hypothesis on the input only; a Rust `&str` is shorter than 2^63 octets, so the
statement leaves out strings of 2^58 octets (256 PiB) and more. -/
theorem C08_output_shape (s : Bytes) (t : Tag) (h : Filter.parse s = some t) :
    Spec.lowTags t.toTlv = true ∧ (t.toTlv.cls = 2 ∧ t.toTlv.id ≤ 9) ∧
    t.toTlv.depth ≤ Filter.nest 0 s + 2 ∧ Filter.nest 0 s ≤ t.toTlv.depth + 1 ∧
    (s.head? = some 0x28 → t.toTlv.depth ≤ Filter.nest 0 s + 1) ∧
    (s.length < 288230376151711744 →
      Spec.WF t.toTlv ∧ (encode t.toTlv).length ≤ 32 * s.length + 51) := by
  obtain ⟨h1, h2, h3, h4, h5, _⟩ := Filter.parse_shape (Filter.parse_core h)
  exact ⟨h1, h2, h3, h4, h5, fun hl => Filter.parse_wf (Filter.parse_core h) hl⟩

/-- The matched-values parser (`parse_matched_values`) yields a universal SEQUENCE of at least one
RFC 3876 `SimpleFilterItem` (context class, tag 3..9), at most three levels deep, with low tags
throughout, and well-formed for the writer under the same size bound. -/
theorem C08_mv_output_shape (s : Bytes) (t : Tag) (h : Filter.parseMatchedValues s = some t) :
    ∃ ks, t.toTlv = .cons 0 16 ks ∧ ks ≠ [] ∧ ks.all Codecs.Spec.isSimpleItem = true ∧
      Spec.lowTags t.toTlv = true ∧ t.toTlv.depth ≤ 3 ∧
      (s.length < 288230376151711744 → Spec.WF t.toTlv ∧ (encode t.toTlv).length ≤ 32 * s.length) := by
  obtain ⟨ks, h1, h2, h3, h4, h5, _⟩ := Filter.parseMv_shape h
  exact ⟨ks, h1, h2, h3, h4, h5, fun hl => Filter.parseMv_wf h hl⟩

/-- The depth limit of the filter parser is 128 levels of parentheses: `(a=b)` under `n` negations
`(!(!…))` is accepted exactly for `n ≤ 127`, its tree being `n + 1` constructed levels deep; from 128
negations on the answer is `Err(())`, for every `n` — the grammar itself (`parseCore`) would accept every
one of them, which is how the unrepaired parser came to exhaust its stack (F28). -/
theorem C08_depth_limit (n : Nat) :
    (n + 1 ≤ Filter.maxNesting →
      ∃ t, Filter.parse (Filter.notStr n [0x28, 0x61, 0x3D, 0x62, 0x29]) = some t ∧ t.toTlv.depth = n + 1) ∧
    (Filter.maxNesting < n + 1 → Filter.parse (Filter.notStr n [0x28, 0x61, 0x3D, 0x62, 0x29]) = none) ∧
    (∃ t, Filter.parseCore (Filter.notStr n [0x28, 0x61, 0x3D, 0x62, 0x29]) = some t ∧ t.toTlv.depth = n + 1) := by
  obtain ⟨t, h, _, hd⟩ := Filter.parse_notN n
  exact ⟨(Filter.parse_notStr n).1, (Filter.parse_notStr n).2, t, h, hd⟩

/-- … whereas lber's parser stops at `maxDepth` = 64 levels.  A filter whose string nests deeper than 65
(and at most 128) is therefore WRITTEN — the tree has a BER encoding (`Spec.Enc`) and `encode` produces it — but cannot be
READ BACK by the library's own parser: the answer is `error`, whatever follows.  (Inside a SearchRequest the
filter sits two levels down, so the limit for a search filter is 62 levels: `Spec.FilterOk`,
`C02_parsed_filter_ok`, `C02_deep_filter_not_read_back`.) -/
theorem C08_deep_written_not_read_back (s : Bytes) (t : Tag) (h : Filter.parse s = some t)
    (hn : maxDepth + 1 < Filter.nest 0 s) (hl : s.length < 288230376151711744) (rest : Bytes)
    (hr : (encode t.toTlv ++ rest).length < 18446744073709551616) :
    Spec.Enc t.toTlv (encode t.toTlv) ∧ parseTag (encode t.toTlv ++ rest) = .error :=
  Filter.deep_not_read_back (Filter.parse_core h) hn hl rest hr

/-! ### non-vacuity (tests, labelled as such) -/

/-- `(cn:Dn:2.4.6:=x)` (rejected before the fix of F19) is in the RFC 4515 language: type `cn`,
`dnattrs` spelled `Dn`, matching rule `2.4.6`, value `x` … -/
def C08_dnCase : Bytes :=
  [0x28, 0x63, 0x6E, 0x3A, 0x44, 0x6E, 0x3A, 0x32, 0x2E, 0x34, 0x2E, 0x36, 0x3A, 0x3D, 0x78, 0x29]

example : GRfc (.ext (some [0x32, 0x2E, 0x34, 0x2E, 0x36]) (some [0x63, 0x6E]) [0x78] true) C08_dnCase := by
  refine ⟨Or.inl ?_, by decide⟩
  simp only [G]
  refine ⟨_, GItem.extAttr (a := [0x63, 0x6E]) (kw := [0x44, 0x6E]) (sv := [0x78]) ?_ (fun _ => by decide) ?_
    (fun h => by cases h) (.lit (by decide) .nil), rfl⟩
  · exact ⟨[0x63, 0x6E], [], Or.inl (by decide), by simp, rfl⟩
  · intro r hr
    cases hr
    exact Or.inr ⟨[0x32], [[0x34], [0x36]], by decide, by decide, Or.inr (by simp), rfl⟩

/-- … and the model compiles it, `(cn:DN:=x)`, `(cn:DNfoo:=x)` and `(:DN:=x)` as the RFC reads them:
dnAttributes TRUE; dnAttributes TRUE; rule `DNfoo`; rule `DN` -/
example : (Filter.parse C08_dnCase).map (fun t => encode t.toTlv) =
    some [0xA9, 0x11, 0x81, 0x05, 0x32, 0x2E, 0x34, 0x2E, 0x36, 0x82, 0x02, 0x63, 0x6E, 0x83, 0x01, 0x78,
      0x84, 0x01, 0xFF] := by decide
example : (Filter.parse [0x28, 0x63, 0x6E, 0x3A, 0x44, 0x4E, 0x3A, 0x3D, 0x78, 0x29]).map (fun t => encode t.toTlv) =
    some [0xA9, 0x0A, 0x82, 0x02, 0x63, 0x6E, 0x83, 0x01, 0x78, 0x84, 0x01, 0xFF] := by decide
example : (Filter.parse [0x28, 0x63, 0x6E, 0x3A, 0x44, 0x4E, 0x66, 0x6F, 0x6F, 0x3A, 0x3D, 0x78, 0x29]).map
    (fun t => encode t.toTlv) =
    some [0xA9, 0x0E, 0x81, 0x05, 0x44, 0x4E, 0x66, 0x6F, 0x6F, 0x82, 0x02, 0x63, 0x6E, 0x83, 0x01, 0x78] := by decide
example : (Filter.parse [0x28, 0x3A, 0x44, 0x4E, 0x3A, 0x3D, 0x78, 0x29]).map (fun t => encode t.toTlv) =
    some [0xA9, 0x07, 0x81, 0x02, 0x44, 0x4E, 0x83, 0x01, 0x78] := by decide
/-- the normal form lowers the keyword only: `(cn:DN:=:DN:)` ↦ `(cn:dn:=:DN:)`, `(:DN:=x)` unchanged -/
example : normTop [0x28, 0x63, 0x6E, 0x3A, 0x44, 0x4E, 0x3A, 0x3D, 0x3A, 0x44, 0x4E, 0x3A, 0x29] =
    [0x28, 0x63, 0x6E, 0x3A, 0x64, 0x6E, 0x3A, 0x3D, 0x3A, 0x44, 0x4E, 0x3A, 0x29] ∧
    normTop [0x28, 0x3A, 0x44, 0x4E, 0x3A, 0x3D, 0x78, 0x29] = [0x28, 0x3A, 0x44, 0x4E, 0x3A, 0x3D, 0x78, 0x29] := by
  decide



/-- `(&(a=v)(b=x)(!(c=y)))` is in the RFC language -/
example : GRfc (.and [.eq [0x61] [0x76], .eq [0x62] [0x78], .not (.eq [0x63] [0x79])])
    [0x28, 0x26, 0x28, 0x61, 0x3D, 0x76, 0x29, 0x28, 0x62, 0x3D, 0x78, 0x29, 0x28, 0x21, 0x28, 0x63, 0x3D, 0x79,
     0x29, 0x29, 0x29] := by
  have ad : ∀ c : UInt8, isDescr [c] = true → IsAttrDesc .rfc [c] :=
    fun c h => ⟨[c], [], Or.inl h, by simp, rfl⟩
  refine ⟨Or.inl ?_, by decide⟩
  simp only [G, GL]
  refine ⟨_, ⟨_, _, ⟨_, GItem.eq (ad _ (by decide)) (.lit (by decide) .nil), rfl⟩,
    ⟨_, _, ⟨_, GItem.eq (ad _ (by decide)) (.lit (by decide) .nil), rfl⟩,
      ⟨_, _, ⟨_, ⟨_, GItem.eq (ad _ (by decide)) (.lit (by decide) .nil), rfl⟩, rfl⟩, rfl, rfl⟩, rfl⟩, rfl⟩, rfl⟩

/-- the model on the unit-test strings of filter.rs: `(a=v\2ax)` and `(a=f**)` -/
example : (Filter.parse [0x28, 0x61, 0x3D, 0x76, 0x5C, 0x32, 0x61, 0x78, 0x29]).map (fun t => encode t.toTlv) =
    some [0xA3, 0x08, 0x04, 0x01, 0x61, 0x04, 0x03, 0x76, 0x2A, 0x78] := by decide
example : (Filter.parse [0x28, 0x61, 0x3D, 0x66, 0x2A, 0x2A, 0x29]).isNone = true := by decide

/-- the hypotheses of the rejection corollaries are met by the unit-test strings of filter.rs and
friends: `(a=f**)`, `(a=v\2)`, `(a=v\0x)`, `(a=b(c))`, `(=x)`, `((a=b)`, `(a=v)garbage` -/
example : noAdjacentStars false [0x28, 0x61, 0x3D, 0x66, 0x2A, 0x2A, 0x29] = false ∧
    escapesOk [0x28, 0x61, 0x3D, 0x76, 0x5C, 0x32, 0x29] = false ∧
    escapesOk [0x28, 0x61, 0x3D, 0x76, 0x5C, 0x30, 0x78, 0x29] = false ∧
    parenPrevOk true [0x28, 0x61, 0x3D, 0x62, 0x28, 0x63, 0x29, 0x29] = false ∧
    parenFollowOk false [0x28, 0x3D, 0x78, 0x29] = false ∧
    balanced 0 [0x28, 0x28, 0x61, 0x3D, 0x62, 0x29] = false := by decide
/-- `(a>=b*)`: attribute description `a`, operator octet `>`, rest `=b*` -/
example : IsAttrDesc .lib [0x61] ∧ (0x2A : UInt8) ∈ [0x3D, 0x62, 0x2A] :=
  ⟨⟨[0x61], [], Or.inl (by decide), by simp, rfl⟩, by decide⟩
example : G .lib (.eq [0x61] [0x76]) [0x28, 0x61, 0x3D, 0x76, 0x29] := by
  simp only [G]
  exact ⟨_, GItem.eq ⟨[0x61], [], Or.inl (by decide), by simp, rfl⟩ (.lit (by decide) .nil), rfl⟩

/-- shape: `(&(a=b)(!(c=*d*)))` nests 3 deep, its tree 4 (`and`, `not`, substring, SEQUENCE OF); the bare
`a=*b*` nests 0 deep, its tree 2; `(a=*)` nests 1 deep, its tree 0 -/
example : Filter.nest 0 [0x28, 0x26, 0x28, 0x61, 0x3D, 0x62, 0x29, 0x28, 0x21, 0x28, 0x63, 0x3D, 0x2A, 0x64, 0x2A,
      0x29, 0x29, 0x29] = 3 ∧
    (Filter.parse [0x28, 0x26, 0x28, 0x61, 0x3D, 0x62, 0x29, 0x28, 0x21, 0x28, 0x63, 0x3D, 0x2A, 0x64, 0x2A,
      0x29, 0x29, 0x29]).map (fun t => (t.toTlv.depth, t.toTlv.cls, t.toTlv.id, Spec.lowTags t.toTlv)) =
      some (4, 2, 0, true) ∧
    (Filter.parse [0x61, 0x3D, 0x2A, 0x62, 0x2A]).map (fun t => t.toTlv.depth) = some 2 ∧
    Filter.nest 0 [0x61, 0x3D, 0x2A, 0x62, 0x2A] = 0 ∧
    (Filter.parse [0x28, 0x61, 0x3D, 0x2A, 0x29]).map (fun t => t.toTlv.depth) = some 0 ∧
    Filter.nest 0 [0x28, 0x61, 0x3D, 0x2A, 0x29] = 1 := by decide
/-- matched values: `((a=b)(c=*))` -/
example : (Filter.parseMatchedValues [0x28, 0x28, 0x61, 0x3D, 0x62, 0x29, 0x28, 0x63, 0x3D, 0x2A, 0x29, 0x29]).map
    (fun t => encode t.toTlv) = some [0x30, 0x0B, 0xA3, 0x06, 0x04, 0x01, 0x61, 0x04, 0x01, 0x62, 0x87, 0x01, 0x63] := by
  decide
/-- the hypothesis of `C08_deep_written_not_read_back` is met by `(a=b)` under 66 negations: the string
nests 67 deep, is accepted, and its 67-level tree has an encoding the parser refuses -/
example : maxDepth + 1 < Filter.nest 0 (Filter.notStr 66 [0x28, 0x61, 0x3D, 0x62, 0x29]) ∧
    (Filter.notStr 66 [0x28, 0x61, 0x3D, 0x62, 0x29]).length < 288230376151711744 := by
  rw [Filter.nest_notStr, Filter.length_notStr]; decide

/-- the limit is met from both sides: 127 negations around `(a=b)` (128 levels) are accepted, 128 are not;
the loop of `nesting_within_limit` run on `((((a` … and on `)(`: a `)` at depth 0 stays at 0 -/
example : (Filter.parse (Filter.notStr 127 [0x28, 0x61, 0x3D, 0x62, 0x29])).isSome = true ∧
    Filter.parse (Filter.notStr 128 [0x28, 0x61, 0x3D, 0x62, 0x29]) = none := by
  obtain ⟨t, h, _⟩ := (C08_depth_limit 127).1 (by decide)
  exact ⟨by rw [h]; rfl, (C08_depth_limit 128).2.1 (by decide)⟩
example : Filter.nestingGo 126 [0x28, 0x28, 0x61] = true ∧ Filter.nestingGo 126 [0x28, 0x28, 0x28, 0x61] = false ∧
    Filter.nestingGo 0 [0x29, 0x28] = true ∧ Filter.nestingGo 128 [0x29, 0x28] = true := by decide

/-! ### tie by regeneration (translate/pure_fns.py): the lexical classes and the `\\hh` state machine of
the *current* src/filter.rs are the model's. -/

/-- `is_value_char`, `is_alnum_hyphen` and `Unescaper::feed` as written in src/filter.rs today agree with
`Filter.isValueChar`, `Filter.isAlnumHyphen` and `Unescaper.feed` on every byte and in every state (the
checked `u8` arithmetic of the nibble computation never overflows: the result is never `none`). -/
theorem C08_lexer_source (u : Rust.Unescaper) (c : UInt8) :
    Gen.filter_is_value_char c = some (Filter.isValueChar c) ∧
    Gen.filter_is_alnum_hyphen c = some (Filter.isAlnumHyphen c) ∧
    (Gen.unescaper_feed u c).map unescOfRust = some ((unescOfRust u).feed c) :=
  ⟨gen_is_value_char c, gen_is_alnum_hyphen c, gen_feed u c⟩

-- non-vacuity: `\\4` then `1` yields the byte `A`; `g` is not a hex digit
example : Gen.unescaper_feed .WantFirst 0x34 = some (.WantSecond 4) ∧
    Gen.unescaper_feed (.WantSecond 4) 0x31 = some (.Value 0x41) ∧
    Gen.unescaper_feed .WantFirst 0x67 = some .Error ∧ Gen.filter_is_value_char 0x2A = some false := by decide


/-- the nesting guard (`nesting_within_limit`, the repair of F28) as written in src/filter.rs today — a `for`
loop over the octets with a `usize` counter, an early `return false` and `saturating_sub`, REGENERATED by
translate/loop_fns.py on every run — never panics and is the model's guard on every input: it answers
`true` exactly for the strings nested at most `Filter.maxNesting` = 128 deep. -/
theorem C08_guard_source (s : Bytes) :
    Gen.filter_nesting_within_limit s = some (Filter.nestingWithinLimit s) ∧
    (Gen.filter_nesting_within_limit s = some true ↔ Filter.nest 0 s ≤ Filter.maxNesting) := by
  refine ⟨Filter.gen_nesting_within_limit s, ?_⟩
  rw [Filter.gen_nesting_within_limit s, ← Filter.nestingWithinLimit_iff]
  simp

example : Gen.filter_nesting_within_limit [0x28, 0x26, 0x28, 0x61, 0x3D, 0x62, 0x29, 0x29] = some true ∧
    Gen.filter_nesting_within_limit_step 128 0x28 = some (.ret false) ∧
    Gen.filter_nesting_within_limit_step 0 0x29 = some (.next 0) := by decide

end Ldap3V

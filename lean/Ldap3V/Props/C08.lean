import Ldap3V.Model.Filter
import Ldap3V.Spec.Filter
namespace Ldap3V
theorem C08_placeholder : True := trivial
end Ldap3V

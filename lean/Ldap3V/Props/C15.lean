/-
C15 — `SearchEntry::construct` partitions the attributes of a search result entry into the text
map and the binary map without losing, duplicating or altering a value.
Statements only; proofs are references to Lemmas/Entry*.lean.
Model: Ldap3V/Model/Entry.lean (`construct = constructWith utf8Valid`), Spec: Ldap3V/Spec/Entry.lean.

The real function panics (documented: "this function will panic on parsing error") on trees that
are not shaped like a SearchResultEntry and on a DN / attribute type that is not UTF-8; that
branch is `C15_panic_set` / `C15_panics_only_on_malformed`.  Repeated attribute types are
accepted by the code and excluded from `C15_construct` by `WFEntry`; what happens to them is
`C15_duplicates_characterised`.
-/
import Ldap3V.Lemmas.EntryProps
import Ldap3V.Props.C07
namespace Ldap3V
open Spec AMap

/-- C15 for an arbitrary acceptance predicate `valid` in the place of `from_utf8(..).is_ok()`:
the proof uses nothing about UTF-8. -/
theorem C15_construct_generic (valid : Bytes → Bool) (e : Entry) (h : WFEntry valid e) :
    ∃ se, constructWith valid (entryTlv e) = .ok se ∧ se.dn = e.dn ∧
      (∀ a vals, (a, vals) ∈ e.attrs →
        (vals.all valid = true → se.text.lookup a = some vals ∧ se.bin.lookup a = none) ∧
        (¬ vals.all valid = true → se.text.lookup a = none ∧
            ∃ l, se.bin.lookup a = some l ∧ l.Perm vals)) ∧
      (∀ a, a ∈ se.text.keys ∨ a ∈ se.bin.keys → a ∈ e.attrs.map (·.1)) ∧
      (∀ a, ¬ (a ∈ se.text.keys ∧ a ∈ se.bin.keys)) := by
  refine ⟨seOf valid e, construct_entryTlv valid e h.1, rfl, ?_, ?_, ?_⟩
  · intro a vals hm
    obtain ⟨d1, d2⟩ := distinct_type valid e.attrs a vals h.2 hm
    refine ⟨fun hall => ?_, fun hall => ?_⟩
    · simp [seOf_text, seOf_bin, d1, d2, hall]
    · have hne := binChunk_ne_nil valid vals hall
      refine ⟨by simp [seOf_text, d1, hall], binChunk valid vals, by simp [seOf_bin, d2, hall, hne],
        binChunk_perm valid vals⟩
  · intro a ha
    rcases ha with ha | ha
    · rw [mem_keys_iff, seOf_text] at ha
      exact type_of_lastText valid e.attrs a (by intro c; simp [c] at ha)
    · rw [mem_keys_iff, seOf_bin] at ha
      exact type_of_binVals valid e.attrs a (by intro c; simp [c] at ha)
  · intro a ⟨ht, hb⟩
    rw [mem_keys_iff, seOf_text] at ht
    rw [mem_keys_iff, seOf_bin] at hb
    have hmem := type_of_lastText valid e.attrs a (by intro c; simp [c] at ht)
    obtain ⟨p, hp, rfl⟩ := List.mem_map.mp hmem
    obtain ⟨d1, d2⟩ := distinct_type valid e.attrs p.1 p.2 h.2 hp
    by_cases hall : p.2.all valid = true
    · simp [d2, hall] at hb
    · simp [d1, hall] at ht

/-- C15 over the tree handed to `construct` (independent of BER octets): for every well-formed
entry — any number of attributes, any number of values each (also none), values valid UTF-8,
invalid, or mixed in any order — the DN is the server's; an attribute all of whose values are
valid UTF-8 is in the text map with exactly its values in order and not in the binary map; any
other attribute is not in the text map and the binary map holds a permutation of its values
(same multiset: nothing lost, duplicated or altered); the maps have no other keys, and no key is
in both. -/
theorem C15_construct (e : Entry) (h : WFEntry utf8Valid e) :
    ∃ se, construct (entryTlv e) = .ok se ∧ se.dn = e.dn ∧
      (∀ a vals, (a, vals) ∈ e.attrs →
        (vals.all utf8Valid = true → se.text.lookup a = some vals ∧ se.bin.lookup a = none) ∧
        (¬ vals.all utf8Valid = true → se.text.lookup a = none ∧
            ∃ l, se.bin.lookup a = some l ∧ l.Perm vals)) ∧
      (∀ a, a ∈ se.text.keys ∨ a ∈ se.bin.keys → a ∈ e.attrs.map (·.1)) ∧
      (∀ a, ¬ (a ∈ se.text.keys ∧ a ∈ se.bin.keys)) :=
  C15_construct_generic utf8Valid e h

/-- … and through the octets: every definite-length BER encoding `bs` of the entry (any mixture
of short / long / redundant length forms, `Spec.Enc`), followed by anything, is parsed by the
lber model to a tree on which `construct` yields that result (uses C07). -/
theorem C15_construct_all_definite_encodings (e : Entry) (h : WFEntry utf8Valid e) (bs rest : Bytes)
    (he : Enc (entryTlv e) bs) (hl : (bs ++ rest).length < 18446744073709551616) :
    ∃ t se, parseTag (bs ++ rest) = .ok t rest ∧ construct t = .ok se ∧ se.dn = e.dn ∧
      (∀ a vals, (a, vals) ∈ e.attrs →
        (vals.all utf8Valid = true → se.text.lookup a = some vals ∧ se.bin.lookup a = none) ∧
        (¬ vals.all utf8Valid = true → se.text.lookup a = none ∧
            ∃ l, se.bin.lookup a = some l ∧ l.Perm vals)) ∧
      (∀ a, a ∈ se.text.keys ∨ a ∈ se.bin.keys → a ∈ e.attrs.map (·.1)) ∧
      (∀ a, ¬ (a ∈ se.text.keys ∧ a ∈ se.bin.keys)) := by
  obtain ⟨se, hse⟩ := C15_construct e h
  have hd : (entryTlv e).depth ≤ maxDepth := Nat.le_trans (depth_entryTlv e) (by decide)
  exact ⟨entryTlv e, se, C07_all_definite_forms (entryTlv e) bs rest he hd hl, hse⟩

/-- Without the distinctness hypothesis (names still valid UTF-8) the model — hence, by the
correspondence lane, the code — does exactly this, for every attribute type `a`:
* text map: the values of the LAST occurrence of `a` all of whose values are valid (`HashMap::insert`
  replaces); absent if there is no such occurrence;
* binary map: the concatenation, over the occurrences of `a` that have an invalid value, in
  order, of (its invalid values in order ++ its valid values in order); absent if there is none.
So a repeated type can be in both maps, and earlier all-text occurrences are dropped: the
"exactly one map / nothing lost" reading of C15 needs pairwise distinct types. -/
theorem C15_duplicates_characterised (valid : Bytes → Bool) (e : Entry) (h : ValidNames valid e) :
    ∃ se, constructWith valid (entryTlv e) = .ok se ∧ se.dn = e.dn ∧
      ∀ a, se.text.lookup a = lastText valid e.attrs a ∧
           se.bin.lookup a = (if binVals valid e.attrs a = [] then none else some (binVals valid e.attrs a)) :=
  ⟨seOf valid e, construct_entryTlv valid e h, rfl, fun a => ⟨seOf_text valid e a, seOf_bin valid e a⟩⟩

/-- for a single occurrence this gives the exact order inside the binary vector, not only the
multiset: invalid values first (pushed while iterating), then the valid ones (appended after) -/
theorem C15_binary_order (valid : Bytes → Bool) (e : Entry) (h : WFEntry valid e) (a : Bytes) (vals : List Bytes)
    (hm : (a, vals) ∈ e.attrs) (hb : ¬ vals.all valid = true) :
    ∃ se, constructWith valid (entryTlv e) = .ok se ∧
      se.bin.lookup a = some (vals.filter (fun v => !valid v) ++ vals.filter valid) := by
  have hne := binChunk_ne_nil valid vals hb
  refine ⟨seOf valid e, construct_entryTlv valid e h.1, ?_⟩
  rw [seOf_bin, (distinct_type valid e.attrs a vals h.2 hm).2]
  simp [hb, hne]
  rfl

/-- Exact panic set, for EVERY tree: `construct` panics iff the tree cannot be read leniently
as an entry (`Spec.readEntry`: tag number 4 of any class, constructed; first element primitive;
second constructed; every attribute constructed with a primitive first and a constructed second
element whose elements are all primitive; further elements, classes and inner tag numbers are
ignored) or the DN or an attribute type is not valid UTF-8.  In particular
`get_mut(..).expect("bin vector")` is unreachable. -/
theorem C15_panic_set (valid : Bytes → Bool) (t : Tlv) :
    constructWith valid t = .panic ↔ ∀ e, readEntry t = some e → ¬ ValidNames valid e := by
  rw [constructWith_eq]
  cases hr : readEntry t with
  | none => simp
  | some e =>
    by_cases hv : ValidNames valid e
    · have h2 : e.attrs.all (fun p => valid p.1) = true := List.all_eq_true.mpr hv.2
      simp [hv, hv.1, h2]
    · have h2 : ¬ ((valid e.dn && e.attrs.all (fun p => valid p.1)) = true) := by
        intro c
        simp only [Bool.and_eq_true] at c
        exact hv ⟨c.1, List.all_eq_true.mp c.2⟩
      simp only [h2]
      simp [hv]

/-- every tree that does not panic is treated like the canonical tree of the entry read from it -/
theorem C15_lenient_shapes (valid : Bytes → Bool) (t : Tlv) (e : Entry) (h : readEntry t = some e) :
    constructWith valid t = constructWith valid (entryTlv e) := by
  rw [constructWith_eq, constructWith_eq, readEntry_entryTlv, h]

/-- a panic never happens on (any tree of) an entry whose DN and attribute types are valid UTF-8,
whatever its values and whether or not types repeat; and it always happens otherwise -/
theorem C15_panics_only_on_malformed (t : Tlv) (hp : construct t = .panic) :
    ∀ e, ValidNames utf8Valid e → t ≠ entryTlv e := by
  intro e hv c
  rw [c, construct, construct_entryTlv utf8Valid e hv] at hp
  cases hp

theorem C15_invalid_names_panic (e : Entry) (h : ¬ ValidNames utf8Valid e) :
    construct (entryTlv e) = .panic :=
  construct_entryTlv_invalid utf8Valid e h

/-! ### non-vacuity (tests, labelled as such) -/

/-- "cn=é": text attribute with an ASCII and a 2-byte value; `jpegPhoto`-like attribute with
values valid, invalid (FF), valid, invalid (lone continuation 80) in that order; an attribute
without values -/
def exEntry : Entry :=
  { dn := [0x63, 0x6E, 0x3D, 0xC3, 0xA9],
    attrs := [([0x63, 0x6E], [[0x61], [0xC3, 0xA9]]),
              ([0x6A], [[0x61], [0xFF], [0x62], [0x80]]),
              ([0x65], [])] }

example : WFEntry utf8Valid exEntry := by decide

example : construct (entryTlv exEntry) = .ok
    { dn := [0x63, 0x6E, 0x3D, 0xC3, 0xA9],
      text := [([0x63, 0x6E], [[0x61], [0xC3, 0xA9]]), ([0x65], [])],
      bin := [([0x6A], [[0xFF], [0x80], [0x61], [0x62]])] } := by decide

/-- the mixed attribute meets the hypothesis of the binary clause -/
example : ([0x6A], [[0x61], [0xFF], [0x62], [0x80]]) ∈ exEntry.attrs ∧
    ¬ (List.all [[0x61], [0xFF], [0x62], [0x80]] utf8Valid = true) := by decide

/-- `30 81 00 …`: a non-minimal encoding of an entry with DN "a" and no attributes is in `Enc` -/
example : Enc (entryTlv { dn := [0x61], attrs := [] }) [0x64, 0x81, 0x05, 0x04, 0x01, 0x61, 0x30, 0x00] := by
  refine ⟨by decide, by decide, [0x81, 0x05], [0x04, 0x01, 0x61, 0x30, 0x00], ?_,
    Or.inr ⟨[0x05], by decide, by decide, by decide, by decide⟩, by decide⟩
  refine ⟨[0x04, 0x01, 0x61], [0x30, 0x00], ?_, ?_, by decide⟩
  · exact ⟨by decide, by decide, [0x01], Or.inl ⟨by decide, by decide⟩, by decide⟩
  · refine ⟨[0x30, 0x00], [], ?_, rfl, by decide⟩
    exact ⟨by decide, by decide, [0x00], [], rfl, Or.inl ⟨by decide, by decide⟩, by decide⟩

/-- repeated type: in both maps, first text occurrence dropped (hypothesis of
`C15_duplicates_characterised` met, `WFEntry` not) -/
def exDup : Entry :=
  { dn := [0x61], attrs := [([0x74], [[0x31]]), ([0x74], [[0x32]]), ([0x74], [[0xFF], [0x33]]), ([0x74], [[0xFE]])] }

example : ValidNames utf8Valid exDup ∧ ¬ WFEntry utf8Valid exDup := by decide

example : construct (entryTlv exDup) = .ok
    { dn := [0x61], text := [([0x74], [[0x32]])], bin := [([0x74], [[0xFF], [0x33], [0xFE]])] } := by decide

/-- panics: wrong tag number, primitive where constructed is expected, missing attribute list,
non-UTF-8 DN, non-UTF-8 type, constructed value; class and trailing elements are ignored -/
example : construct (.cons 1 5 [.prim 0 4 [0x61], .cons 0 16 []]) = .panic := by decide
example : construct (.prim 1 4 [0x61]) = .panic := by decide
example : construct (.cons 1 4 [.prim 0 4 [0x61]]) = .panic := by decide
example : construct (.cons 1 4 [.prim 0 4 [0xC0, 0x80], .cons 0 16 []]) = .panic := by decide
example : construct (entryTlv { dn := [0x61], attrs := [([0xED, 0xA0, 0x80], [])] }) = .panic := by decide
example : construct (.cons 1 4 [.prim 0 4 [0x61], .cons 0 16 [.cons 0 16 [.prim 0 4 [0x74], .cons 0 17 [.cons 0 4 []]]]]) = .panic := by decide
example : construct (.cons 2 4 [.prim 3 9 [0x61], .cons 1 1 [], .prim 0 0 []]) = .ok { dn := [0x61], text := [], bin := [] } := by decide

end Ldap3V

/-
C19 — control / extended-operation codecs.
"For every value of the library's request controls and extended requests (PagedResults, SyncRequest,
Pre/PostRead, Assertion, MatchedValues, ProxyAuth, TxnSpec, ManageDsaIT, RelaxRules, WhoAmI,
PasswordModify, StartTxn, EndTxn) the emitted OID, criticality and BER value are those the defining
RFC prescribes, and for every well-formed response value (PagedResults, SyncState, SyncDone,
SyncInfo, Pre/PostRead response, WhoAmI, PasswordModify and StartTxn responses) the parsed struct
equals what was encoded.  A control list survives the message envelope unchanged, with absent
criticality read as false and an absent value as none."

Statements only; proofs are references to Lemmas/Codecs*.  Model: Model/Codecs.lean,
Model/Controls.lean; RFC side: Spec/Codecs.lean (`Spec.XOfTlv` readers, `Spec.XTlv` relations,
`Spec.rfc…` OIDs), BER: `Spec.Enc` of Spec/Ber.lean.

Conventions.  `Spec.DecodesTo f val v`: `val` is present, is a definite-length BER encoding (`Spec.Enc`)
of a tree that the RFC's ASN.1 reader `f` maps to `v`, and the executable decoder returns `v`.
`valLen val < 2^64`: the emitted value fits a `usize` (true of every Rust `Vec`).
Sizes / message IDs are restricted to the RFC range `0 .. 2^31-1` by explicit hypotheses, because the
code reads INTEGERs unsigned (`parse_uint(..) as i32`); `C19_pagedResults_req_negative` and
`C19_pagedResults_resp_negative` say what happens outside.
Outside the well-formed domain the response parsers panic (documented caller-side behaviour of
`RawControl::parse` / `Exop::parse`); those branches are covered by the `…_panics` theorems.
-/
import Ldap3V.Gen.Oids
import Ldap3V.Lemmas.CodecsReq
import Ldap3V.Lemmas.CodecsResp
import Ldap3V.Lemmas.CodecsEnvelope
import Ldap3V.Lemmas.CodecsReadEntry
import Ldap3V.Props.C15
import Ldap3V.Lemmas.FilterShape
import Ldap3V.Lemmas.FilterNesting
namespace Ldap3V
open Spec Codecs

/-! ## the OID constants of the source are the RFC ones, and the `CONTROLS` table tags them -/

theorem C19_oids :
    oidPagedResults = Codecs.Spec.rfcPagedResults ∧ oidSyncRequest = Codecs.Spec.rfcSyncRequest ∧
    oidSyncState = Codecs.Spec.rfcSyncState ∧ oidSyncDone = Codecs.Spec.rfcSyncDone ∧
    oidSyncInfo = Codecs.Spec.rfcSyncInfo ∧ oidPreRead = Codecs.Spec.rfcPreRead ∧
    oidPostRead = Codecs.Spec.rfcPostRead ∧ oidAssertion = Codecs.Spec.rfcAssertion ∧
    oidMatchedValues = Codecs.Spec.rfcMatchedValues ∧ oidProxyAuth = Codecs.Spec.rfcProxyAuth ∧
    oidTxnSpec = Codecs.Spec.rfcTxnSpec ∧ oidManageDsaIt = Codecs.Spec.rfcManageDsaIt ∧
    oidRelaxRules = Codecs.Spec.rfcRelaxRules ∧ oidWhoAmI = Codecs.Spec.rfcWhoAmI ∧
    oidPassMod = Codecs.Spec.rfcPassMod ∧ oidTxnStart = Codecs.Spec.rfcTxnStart ∧
    oidTxnEnd = Codecs.Spec.rfcTxnEnd ∧ oidStartTLS = Codecs.Spec.rfcStartTLS := by decide

/-- **tie by regeneration**: the OID constants the model uses are the `*_OID` constants of the Rust
source, read from /repo/src/{controls_impl,exop_impl}/*.rs by translate/consts.py on every run -/
theorem C19_oids_source :
    Gen.rustOid "PAGED_RESULTS_OID" = some oidPagedResults ∧ Gen.rustOid "SYNC_REQUEST_OID" = some oidSyncRequest ∧
    Gen.rustOid "SYNC_STATE_OID" = some oidSyncState ∧ Gen.rustOid "SYNC_DONE_OID" = some oidSyncDone ∧
    Gen.rustOid "SYNC_INFO_OID" = some oidSyncInfo ∧ Gen.rustOid "PRE_READ_OID" = some oidPreRead ∧
    Gen.rustOid "POST_READ_OID" = some oidPostRead ∧ Gen.rustOid "ASSERTION_OID" = some oidAssertion ∧
    Gen.rustOid "MATCHED_VALUES_OID" = some oidMatchedValues ∧ Gen.rustOid "PROXY_AUTH_OID" = some oidProxyAuth ∧
    Gen.rustOid "TXN_REQUEST_OID" = some oidTxnSpec ∧ Gen.rustOid "MANAGE_DSA_IT_OID" = some oidManageDsaIt ∧
    Gen.rustOid "RELAX_RULES_OID" = some oidRelaxRules ∧ Gen.rustOid "WHOAMI_OID" = some oidWhoAmI ∧
    Gen.rustOid "PASSMOD_OID" = some oidPassMod ∧ Gen.rustOid "TXN_START_OID" = some oidTxnStart ∧
    Gen.rustOid "TXN_END_OID" = some oidTxnEnd ∧ Gen.rustOid "STARTTLS_OID" = some oidStartTLS := by decide

/-- the Rust name of a `ControlType` variant -/
def controlTypeName : ControlType → String
  | .pagedResults => "PagedResults" | .postReadResp => "PostReadResp" | .preReadResp => "PreReadResp"
  | .syncDone => "SyncDone" | .syncState => "SyncState" | .manageDsaIt => "ManageDsaIt"
  | .matchedValues => "MatchedValues"

/-- **tie by regeneration**: the `CONTROLS` map of src/controls_impl.rs — one `map.insert(<OID constant>,
ControlType::<Variant>)` per recognised response control, read by translate/consts.py on every run — is the model's
`controlsTable`: every row of the one is a row of the other (OID value by constant name, variant by name), in whatever
order the `insert`s are written (it is a `HashMap`), and the keys are pairwise different on both sides. -/
theorem C19_controls_map_source :
    (Gen.rustControlsMap.all fun p => controlsTable.any fun q =>
      Gen.rustOid p.1 == some q.1 && p.2 == controlTypeName q.2) = true ∧
    (controlsTable.all fun q => Gen.rustControlsMap.any fun p =>
      Gen.rustOid p.1 == some q.1 && p.2 == controlTypeName q.2) = true ∧
    (controlsTable.map (·.1)).Nodup ∧ (Gen.rustControlsMap.map (·.1)).Nodup := by decide

theorem C19_known_table :
    knownType Codecs.Spec.rfcPagedResults = some .pagedResults ∧
    knownType Codecs.Spec.rfcPostRead = some .postReadResp ∧
    knownType Codecs.Spec.rfcPreRead = some .preReadResp ∧
    knownType Codecs.Spec.rfcSyncDone = some .syncDone ∧
    knownType Codecs.Spec.rfcSyncState = some .syncState ∧
    knownType Codecs.Spec.rfcManageDsaIt = some .manageDsaIt ∧
    knownType Codecs.Spec.rfcMatchedValues = some .matchedValues ∧
    knownType Codecs.Spec.rfcSyncRequest = none ∧ knownType Codecs.Spec.rfcAssertion = none := by decide

/-! ## request side -/

/-- RFC 2696: OID, criticality FALSE by default, value = `SEQUENCE { size, cookie }`, for every cookie
and every size in `0..maxInt`. -/
theorem C19_pagedResults_req (v : PagedResults) (h0 : 0 ≤ v.size) (h1 : v.size ≤ 2147483647)
    (hl : valLen (encPagedResults v).val < 18446744073709551616) :
    (encPagedResults v).ctype = Codecs.Spec.rfcPagedResults ∧ (encPagedResults v).crit = false ∧
    Codecs.Spec.DecodesTo Codecs.Spec.pagedOfTlv (encPagedResults v).val v :=
  ⟨C19_oids.1, rfl, paged_req v h0 h1 hl⟩

/-- a negative `size` (representable in the `i32` field) is emitted as a negative INTEGER, outside
`INTEGER (0..maxInt)`: the RFC decoder rejects the value -/
theorem C19_pagedResults_req_negative (v : PagedResults) (h0 : v.size < 0) (h1 : -2147483648 ≤ v.size)
    (hl : valLen (encPagedResults v).val < 18446744073709551616) :
    Codecs.Spec.decPaged (encPagedResults v).val = none :=
  paged_req_negative v h0 h1 hl

/-- RFC 4533 §2.2: mode 1/3, cookie present iff given, reloadHint emitted only when TRUE. -/
theorem C19_syncRequest_req (v : SyncRequest)
    (hl : valLen (encSyncRequest v).val < 18446744073709551616) :
    (encSyncRequest v).ctype = Codecs.Spec.rfcSyncRequest ∧ (encSyncRequest v).crit = false ∧
    Codecs.Spec.DecodesTo Codecs.Spec.syncReqOfTlv (encSyncRequest v).val v :=
  ⟨C19_oids.2.1, rfl, syncReq_req v hl⟩

/-- RFC 4527 §3.1: value = AttributeSelection with exactly the given attribute descriptions. -/
theorem C19_preRead_req (attrs : List Bytes)
    (hl : valLen (encPreRead attrs).val < 18446744073709551616) :
    (encPreRead attrs).ctype = Codecs.Spec.rfcPreRead ∧ (encPreRead attrs).crit = false ∧
    Codecs.Spec.DecodesTo Codecs.Spec.attrSelOfTlv (encPreRead attrs).val attrs :=
  ⟨C19_oids.2.2.2.2.2.1, rfl, readEntry_req _ attrs hl⟩

/-- RFC 4527 §3.2 -/
theorem C19_postRead_req (attrs : List Bytes)
    (hl : valLen (encPostRead attrs).val < 18446744073709551616) :
    (encPostRead attrs).ctype = Codecs.Spec.rfcPostRead ∧ (encPostRead attrs).crit = false ∧
    Codecs.Spec.DecodesTo Codecs.Spec.attrSelOfTlv (encPostRead attrs).val attrs :=
  ⟨C19_oids.2.2.2.2.2.2.1, rfl, readEntry_req _ attrs hl⟩

/-- RFC 4528: the value is the BER encoding of the Filter the filter parser produced (`t`, owned by
C08; `WF`/depth: what lber can write and read back; outermost tag one of the Filter CHOICE);
an unparsable filter string panics (`.expect("filter")`). -/
theorem C19_assertion_req (t : Tlv) (hw : WF t) (hd : t.depth ≤ maxDepth)
    (hl : (encode t).length < 18446744073709551616) (hc : t.cls = 2 ∧ t.id ≤ 9) :
    (∃ rc, encAssertion (some t) = .ok rc ∧ rc.ctype = Codecs.Spec.rfcAssertion ∧ rc.crit = false ∧
      rc.val = some (encode t) ∧ Codecs.Spec.DecodesTo Codecs.Spec.filterOfTlv rc.val t) ∧
    encAssertion none = .panic :=
  ⟨⟨_, rfl, C19_oids.2.2.2.2.2.2.2.1, rfl, rfl, assertion_req t hw hd hl hc⟩, rfl⟩

/-- RFC 3876: the value is the BER encoding of the `SEQUENCE OF SimpleFilterItem` the
matched-values parser produced (owned by C08). -/
theorem C19_matchedValues_req (ks : List Tlv) (hw : WF (.cons 0 16 ks))
    (hd : (Tlv.cons 0 16 ks).depth ≤ maxDepth)
    (hl : (encode (.cons 0 16 ks)).length < 18446744073709551616)
    (hc : ks.all Codecs.Spec.isSimpleItem = true) :
    (∃ rc, encMatchedValues (some (.cons 0 16 ks)) = .ok rc ∧
      rc.ctype = Codecs.Spec.rfcMatchedValues ∧ rc.crit = false ∧
      Codecs.Spec.DecodesTo Codecs.Spec.valuesReturnFilterOfTlv rc.val (.cons 0 16 ks)) ∧
    encMatchedValues none = .panic :=
  ⟨⟨_, rfl, C19_oids.2.2.2.2.2.2.2.2.1, rfl, matchedValues_req ks hw hd hl hc⟩, rfl⟩

/-- `C19_assertion_req` at the output of the filter parser (`Assertion::new(filter)` runs
`crate::filter::parse(filter)`): for EVERY filter string `s`, if it is accepted the control carries the BER
of the tree built, which reads back as a Filter — `WF`, the length bound and the CHOICE tag are
discharged by `C08_output_shape`; what remains is a bound on the input: `|s| < 2^58` and parentheses nested
at most 62 deep (63 when `s` starts with `(`), because `DecodesTo` reads the value with lber's own parser
(`maxDepth` = 64; deeper filters are written and refused, `C08_deep_written_not_read_back`) — and if it is
rejected, `.expect("filter")` panics. -/
theorem C19_assertion_req_parsed (s : Bytes) :
    (∀ t, Filter.parse s = some t → s.length < 288230376151711744 →
      (Filter.nest 0 s ≤ 62 ∨ (s.head? = some 0x28 ∧ Filter.nest 0 s ≤ 63)) →
      ∃ rc, encAssertion ((Filter.parse s).map Tag.toTlv) = .ok rc ∧ rc.ctype = Codecs.Spec.rfcAssertion ∧
        rc.crit = false ∧ rc.val = some (encode t.toTlv) ∧
        Codecs.Spec.DecodesTo Codecs.Spec.filterOfTlv rc.val t.toTlv) ∧
    (Filter.parse s = none → encAssertion ((Filter.parse s).map Tag.toTlv) = .panic) := by
  refine ⟨?_, fun h => by rw [h]; rfl⟩
  intro t h hl hn
  obtain ⟨_, h2, h3, _, h5, _⟩ := Filter.parse_shape (Filter.parse_core h)
  obtain ⟨hw, hlen⟩ := Filter.parse_wf (Filter.parse_core h) hl
  have hd : t.toTlv.depth ≤ maxDepth := by
    rcases hn with hn | ⟨hh, hn⟩
    · simp only [maxDepth]; omega
    · have := h5 hh; simp only [maxDepth]; omega
  rw [h]
  exact (C19_assertion_req t.toTlv hw hd (by omega) h2).1

/-- `C19_matchedValues_req` at the output of the matched-values parser (`MatchedValues::new(filter)` runs
`parse_matched_values(filter)`): every accepted string yields a universal SEQUENCE of `SimpleFilterItem`s,
at most three levels deep, so only the size bound on the input remains; a rejected string panics. -/
theorem C19_matchedValues_req_parsed (s : Bytes) :
    (∀ t, Filter.parseMatchedValues s = some t → s.length < 288230376151711744 →
      ∃ ks rc, t.toTlv = .cons 0 16 ks ∧ ks.all Codecs.Spec.isSimpleItem = true ∧
        encMatchedValues ((Filter.parseMatchedValues s).map Tag.toTlv) = .ok rc ∧
        rc.ctype = Codecs.Spec.rfcMatchedValues ∧ rc.crit = false ∧
        Codecs.Spec.DecodesTo Codecs.Spec.valuesReturnFilterOfTlv rc.val (.cons 0 16 ks)) ∧
    (Filter.parseMatchedValues s = none →
      encMatchedValues ((Filter.parseMatchedValues s).map Tag.toTlv) = .panic) := by
  refine ⟨?_, fun h => by rw [h]; rfl⟩
  intro t h hl
  obtain ⟨ks, e, _, hs, _, hd, _⟩ := Filter.parseMv_shape h
  obtain ⟨hw, hlen⟩ := Filter.parseMv_wf h hl
  rw [e] at hw hlen hd
  obtain ⟨rc, h1, h2, h3, h4⟩ :=
    (C19_matchedValues_req ks hw (by simp only [maxDepth]; omega) (by omega) hs).1
  refine ⟨ks, rc, e, hs, ?_, h2, h3, h4⟩
  rw [h, Option.map_some, e]; exact h1

/-- RFC 4370 §3: criticality TRUE, value = the authzId octets themselves. -/
theorem C19_proxyAuth_req (authzid : Bytes) :
    (encProxyAuth authzid).ctype = Codecs.Spec.rfcProxyAuth ∧ (encProxyAuth authzid).crit = true ∧
    Codecs.Spec.decOctets (encProxyAuth authzid).val = some authzid :=
  ⟨C19_oids.2.2.2.2.2.2.2.2.2.1, rfl, rfl⟩

/-- RFC 5805 §2.2: criticality TRUE, value = the transaction identifier. -/
theorem C19_txnSpec_req (txnId : Bytes) :
    (encTxnSpec txnId).ctype = Codecs.Spec.rfcTxnSpec ∧ (encTxnSpec txnId).crit = true ∧
    Codecs.Spec.decOctets (encTxnSpec txnId).val = some txnId :=
  ⟨C19_oids.2.2.2.2.2.2.2.2.2.2.1, rfl, rfl⟩

/-- RFC 3296 §3 / relax-rules draft: no value. -/
theorem C19_noValue_controls_req :
    encManageDsaIt.ctype = Codecs.Spec.rfcManageDsaIt ∧ encManageDsaIt.crit = false ∧
    Codecs.Spec.decAbsent encManageDsaIt.val = some () ∧
    encRelaxRules.ctype = Codecs.Spec.rfcRelaxRules ∧ encRelaxRules.crit = false ∧
    Codecs.Spec.decAbsent encRelaxRules.val = some () := by decide

/-- `.critical()`: criticality TRUE, OID and value untouched. -/
theorem C19_critical_wrapper (rc : RawControl) :
    (critical rc).crit = true ∧ (critical rc).ctype = rc.ctype ∧ (critical rc).val = rc.val :=
  ⟨rfl, rfl, rfl⟩

/-- RFC 4532 / RFC 5805 §2.1 / RFC 4511 §4.14.1: request name, no value. -/
theorem C19_noValue_exops_req :
    encWhoAmI.name = some Codecs.Spec.rfcWhoAmI ∧ Codecs.Spec.decAbsent encWhoAmI.val = some () ∧
    encStartTxn.name = some Codecs.Spec.rfcTxnStart ∧ Codecs.Spec.decAbsent encStartTxn.val = some () ∧
    encStartTLS.name = some Codecs.Spec.rfcStartTLS ∧ Codecs.Spec.decAbsent encStartTLS.val = some () := by
  decide

/-- RFC 3062 §2: `[0] [1] [2]` present exactly for the given fields; the value is omitted exactly
when all three are absent. -/
theorem C19_passwordModify_req (v : PasswordModify)
    (hl : valLen (encPasswordModify v).val < 18446744073709551616) :
    (encPasswordModify v).name = some Codecs.Spec.rfcPassMod ∧
    Codecs.Spec.decPassMod (encPasswordModify v).val = some v ∧
    ((encPasswordModify v).val = none ↔ (v.userId = none ∧ v.oldPass = none ∧ v.newPass = none)) ∧
    (∀ bs, (encPasswordModify v).val = some bs →
      ∃ t, Enc t bs ∧ Codecs.Spec.passModOfTlv t = some v) :=
  ⟨congrArg some C19_oids.2.2.2.2.2.2.2.2.2.2.2.2.2.2.1, passMod_req v hl⟩

/-- RFC 5805 §2.3: `commit` omitted when TRUE (the DEFAULT), `01 01 00` when FALSE; identifier. -/
theorem C19_endTxn_req (v : EndTxn) (hl : valLen (encEndTxn v).val < 18446744073709551616) :
    (encEndTxn v).name = some Codecs.Spec.rfcTxnEnd ∧
    Codecs.Spec.DecodesTo Codecs.Spec.endTxnOfTlv (encEndTxn v).val v :=
  ⟨congrArg some C19_oids.2.2.2.2.2.2.2.2.2.2.2.2.2.2.2.2.1, endTxn_req v hl⟩

/-- RFC 4511 §4.12: `requestName [0]`, `requestValue [1] OPTIONAL`; a nameless `Exop` trips the
`assert!`.  (Model-level only: `construct_exop` is not reachable from the harness.) -/
theorem C19_construct_exop (name : Bytes) (val : Option Bytes) :
    constructExop ⟨some name, val⟩ = .ok ([Tag.octetString 2 0 name] ++
      (match val with | some v => [Tag.octetString 2 1 v] | none => [])) ∧
    constructExop ⟨none, val⟩ = .panic :=
  ⟨rfl, rfl⟩

/-! ## response side: every definite-length encoding of every well-formed value -/

/-- RFC 2696, for every cookie and every size in `0..maxInt`, every INTEGER octets denoting the
size, every length form. -/
theorem C19_pagedResults_resp (v : PagedResults) (t : Tlv) (bs : Bytes)
    (ht : Codecs.Spec.PagedTlv v t) (he : Enc t bs) (hl : bs.length < 18446744073709551616)
    (h0 : 0 ≤ v.size) (h1 : v.size ≤ 2147483647) : parsePagedResults bs = .ok v :=
  paged_resp v t bs ht he hl h0 h1

/-- the reader takes the INTEGER octets as unsigned: `02 01 FF` (-1) is read as size 255 -/
theorem C19_pagedResults_resp_negative (ck : Bytes) (bs : Bytes)
    (he : Enc (.cons 0 16 [.prim 0 2 [0xFF], .prim 0 4 ck]) bs)
    (hl : bs.length < 18446744073709551616) :
    Spec.twos [0xFF] = -1 ∧ parsePagedResults bs = .ok ⟨255, ck⟩ := by
  have hp := parseSeq_enc 0 16 _ bs he (by simp [Tlv.depth, Tlv.depthList, maxDepth]) hl
  refine ⟨by decide, ?_⟩
  have : Codecs.asI32 (parseUint [0xFF]) = 255 := by decide
  simp [parsePagedResults, hp, matchPrim, Tlv.cls, Tlv.id, Tlv.expectPrim, this]

/-- RFC 4533 §2.3, all four states, any entryUUID, cookie present or absent. -/
theorem C19_syncState_resp (v : SyncState) (t : Tlv) (bs : Bytes)
    (ht : Codecs.Spec.SyncStateTlv v t) (he : Enc t bs) (hl : bs.length < 18446744073709551616) :
    parseSyncState bs = .ok v :=
  syncState_resp v t bs ht he hl

/-- RFC 4533 §2.4, cookie present or absent, refreshDeletes omitted (FALSE) or explicit. -/
theorem C19_syncDone_resp (v : SyncDone) (t : Tlv) (bs : Bytes)
    (ht : Codecs.Spec.SyncDoneTlv v t) (he : Enc t bs) (hl : bs.length < 18446744073709551616) :
    parseSyncDone bs = .ok v :=
  syncDone_resp v t bs ht he hl

/-- RFC 4533 §2.5: all four alternatives, inside the IntermediateResponse (with the Sync Info
responseName, or without a responseName).  The parsed `uuids` is the encoded sequence, hence the
same set. -/
theorem C19_syncInfo_resp (v : SyncInfo) (t : Tlv) (bs : Bytes)
    (ht : Codecs.Spec.SyncInfoTlv v t) (he : Enc t bs) (hl : bs.length < 18446744073709551616) :
    parseSyncInfo (Codecs.Spec.syncInfoMsg bs) = .ok v ∧
    parseSyncInfo (.cons 1 25 [.prim 2 1 bs]) = .ok v :=
  syncInfo_resp v t bs ht he hl

/-- Pre/PostRead response (RFC 4527: a SearchResultEntry) — partial: only the step before
`SearchEntry::construct` is stated here: the tree handed to it is the encoded one.  The full
statement "parsed attribute maps = encoded entry" is this composed with C15's theorem about
`construct`. -/
theorem C19_readEntry_resp_partial (t : Tlv) (bs : Bytes) (he : Enc t bs) (hd : t.depth ≤ maxDepth)
    (hl : bs.length < 18446744073709551616) : parseReadEntryOuter bs = .ok t :=
  readEntry_resp t bs he hd hl

/-- `ReadEntryResp::parse` is `SearchEntry::construct` after `parse_tag`, for EVERY tree `t` the
parser accepts (depth ≤ 64), every definite-length encoding `bs` of it and whatever follows it
(`rest`: the code ignores bytes after the first element): the result is the panic of `construct`,
or the two maps of the `SearchEntry` it returns.  With this, every C15 theorem about `construct`
(`C15_panic_set`, `C15_duplicates_characterised`, `C15_lenient_shapes`, …) is a theorem about the
Pre/PostRead response parser. -/
theorem C19_readEntry_resp_is_construct (t : Tlv) (bs rest : Bytes) (he : Enc t bs)
    (hd : t.depth ≤ maxDepth) (hl : (bs ++ rest).length < 18446744073709551616) :
    parseReadEntryResp (bs ++ rest) =
      (match construct t with
       | .panic => .panic
       | .ok se => .ok { text := se.text, bin := se.bin }) := by
  rw [readEntryResp_enc t bs rest he hd hl]
  cases construct t <;> rfl

/-- Pre/PostRead response, RFC 4527 §3.1 / §3.2: the control value is a BER-encoded
SearchResultEntry.  For every well-formed entry `e` (C15's `WFEntry`: DN and attribute types valid
UTF-8, attribute types pairwise distinct), every definite-length encoding `bs` of
`entryTlv e = [APPLICATION 4] SEQUENCE { objectName, attributes }` (any mixture of short / long /
redundant length forms) and any trailing bytes, `ReadEntryResp::parse` returns a struct `r` whose
two maps satisfy exactly the clauses of `C15_construct`: an attribute all of whose values are valid
UTF-8 is in `attrs` with exactly its values in order and not in `bin_attrs`; any other attribute is
not in `attrs` and `bin_attrs` holds a permutation of its values; the maps have no other keys and no
key is in both.  The last conjunct is the literal composition: `r` is made of the maps of the
`SearchEntry` that `C15_construct` speaks about (whose `dn` is the entry's).

The entry's DN is NOT part of the result: the Rust struct `ReadEntryResp { attrs, bin_attrs }` has
no field for it, the `dn` of the constructed `SearchEntry` is dropped (the DN still has to be valid
UTF-8, otherwise `construct` panics: `C19_readEntry_resp_panics`).

Hypotheses: `h` — outside `ValidNames` the parser panics; with repeated attribute types the maps are
those of `C15_duplicates_characterised` (via `C19_readEntry_resp_is_construct`).  `hl` — the value
fits a `usize`. -/
theorem C19_readEntry_resp (e : Entry) (h : WFEntry utf8Valid e) (bs rest : Bytes)
    (he : Enc (entryTlv e) bs) (hl : (bs ++ rest).length < 18446744073709551616) :
    ∃ r, parseReadEntryResp (bs ++ rest) = .ok r ∧
      (∀ a vals, (a, vals) ∈ e.attrs →
        (vals.all utf8Valid = true → r.text.lookup a = some vals ∧ r.bin.lookup a = none) ∧
        (¬ vals.all utf8Valid = true → r.text.lookup a = none ∧
            ∃ l, r.bin.lookup a = some l ∧ l.Perm vals)) ∧
      (∀ a, a ∈ r.text.keys ∨ a ∈ r.bin.keys → a ∈ e.attrs.map (·.1)) ∧
      (∀ a, ¬ (a ∈ r.text.keys ∧ a ∈ r.bin.keys)) ∧
      ∃ se, construct (entryTlv e) = .ok se ∧ se.dn = e.dn ∧ r = { text := se.text, bin := se.bin } := by
  obtain ⟨se, hc, hdn, h1, h2, h3⟩ := C15_construct e h
  refine ⟨{ text := se.text, bin := se.bin }, ?_, h1, h2, h3, se, hc, hdn, rfl⟩
  rw [readEntryResp_entry e bs rest he hl, hc]
  rfl

/-- … and outside: a DN or an attribute type that is not valid UTF-8 (RFC 4511 makes them UTF-8
strings; the code `expect`s it), or a value that does not begin with a BER element, panics
(documented caller-side behaviour of `RawControl::parse`).  The exact panic set over all trees is
`C15_panic_set` through `C19_readEntry_resp_is_construct`. -/
theorem C19_readEntry_resp_panics (e : Entry) (bs rest : Bytes) (hl : (bs ++ rest).length < 18446744073709551616) :
    (Enc (entryTlv e) bs → ¬ ValidNames utf8Valid e → parseReadEntryResp (bs ++ rest) = .panic) ∧
    ((∀ t r, parseTag bs ≠ .ok t r) → parseReadEntryResp bs = .panic) := by
  refine ⟨fun he hv => ?_, readEntryResp_unparsable bs⟩
  rw [readEntryResp_entry e bs rest he hl, C15_invalid_names_panic e hv]
  rfl

/-- RFC 4532 §2.2: the response value is the authzId (UTF-8) itself; a non-UTF-8 value panics. -/
theorem C19_whoAmI_resp (bs : Bytes) :
    (utf8Valid bs = true → parseWhoAmIResp bs = .ok bs) ∧
    (utf8Valid bs = false → parseWhoAmIResp bs = .panic) := by
  constructor <;> intro h <;> simp [parseWhoAmIResp, h]

/-- RFC 5805 §2.1: the response value is the transaction identifier.  The struct field is a
`String`: proved for UTF-8 identifiers; any other identifier (an OCTET STRING in the RFC) panics. -/
theorem C19_startTxn_resp (bs : Bytes) :
    (utf8Valid bs = true → parseStartTxnResp bs = .ok bs) ∧
    (utf8Valid bs = false → parseStartTxnResp bs = .panic) := by
  constructor <;> intro h <;> simp [parseStartTxnResp, h]

/-- RFC 3062 §2: `SEQUENCE { genPasswd [0] OCTET STRING OPTIONAL }` with genPasswd present and
UTF-8 (the struct field is a `String`). -/
theorem C19_passwordModify_resp (gp bs : Bytes) (he : Enc (Codecs.Spec.passModRespTlv gp) bs)
    (hl : bs.length < 18446744073709551616) (hu : utf8Valid gp = true) :
    parsePasswordModifyResp bs = .ok gp :=
  passModResp_resp gp bs he hl hu

/-- … and outside: genPasswd absent (`30 00`, allowed by the RFC's OPTIONAL) or not UTF-8 panics -/
theorem C19_passwordModify_resp_panics (gp bs : Bytes) (hl : bs.length < 18446744073709551616) :
    (Enc (.cons 0 16 []) bs → parsePasswordModifyResp bs = .panic) ∧
    (Enc (Codecs.Spec.passModRespTlv gp) bs → utf8Valid gp = false →
      parsePasswordModifyResp bs = .panic) :=
  ⟨fun he => passModResp_absent bs he hl, fun he hu => passModResp_nonUtf8 gp bs he hl hu⟩

/-- EndTxn response (RFC 5805 §2.4; not in the property's list) — partial: values without
`updatesControls`, message id in `0..2^31-1`.  Full statement (not proved, and false of the code, see
`C19_endTxnResp_rfc_layout_panics`): every `txnEndRes` value parses to itself. -/
theorem C19_endTxnResp_partial (mid : Option Int) (t : Tlv) (bs : Bytes)
    (ht : Codecs.Spec.EndTxnRespSimpleTlv mid t) (he : Enc t bs)
    (hl : bs.length < 18446744073709551616)
    (hr : ∀ n, mid = some n → 0 ≤ n ∧ n ≤ 2147483647) : parseEndTxnResp bs = .ok ⟨mid, none⟩ :=
  endTxnResp_simple mid t bs ht he hl hr

/-- a `txnEndRes` with a non-empty `updatesControls` in the RFC 5805 layout
(`SEQUENCE OF SEQUENCE { messageID, controls }`) panics: the parser expects the pairs flat -/
theorem C19_endTxnResp_rfc_layout_panics (pre : List Tlv) (sz : Bytes) (ctrls : List Tlv) (bs : Bytes)
    (he : Enc (Codecs.Spec.endTxnRespRfcTlv [] pre sz ctrls) bs)
    (hd : (Codecs.Spec.endTxnRespRfcTlv [] pre sz ctrls).depth ≤ maxDepth)
    (hl : bs.length < 18446744073709551616) : parseEndTxnResp bs = .panic :=
  endTxnResp_rfc_layout pre sz ctrls bs he hd hl

/-- `RawControl::parse` / `Exop::parse` on a control or response without a value -/
theorem C19_absent_value_panics {α : Type} (p : Bytes → Codecs.Outcome α) : parseVal p none = .panic := rfl

/-! ## control lists -/

/-- What `build_tag` emits for each control of a list is read back by `parse_controls` as the same
list, each control tagged with its `CONTROLS` entry.  `h`: the OIDs are UTF-8 (true of every
`String`). -/
theorem C19_controls_envelope (cs : List RawControl) (h : ∀ c ∈ cs, utf8Valid c.ctype = true) :
    parseControls (controlsTlv cs) = some (cs.map tagKnown) :=
  parseControls_tlv cs _ (controlsTlv_spec cs) h

/-- Every RFC 4511 §4.1.11 encoding of a control list — criticality omitted (read as false) or
explicit (FALSE, or TRUE as any non-zero octet), value omitted (read as none) or present, any
definite length forms, trailing bytes untouched — is read as that list. -/
theorem C19_controls_all_forms (cs : List RawControl) (t : Tlv) (bs rest : Bytes)
    (ht : Codecs.Spec.ControlsTlv cs t) (he : Enc t bs)
    (hl : (bs ++ rest).length < 18446744073709551616) (h : ∀ c ∈ cs, utf8Valid c.ctype = true) :
    ∃ t', parseTag (bs ++ rest) = .ok t' rest ∧ parseControls t' = some (cs.map tagKnown) :=
  parseControls_bytes cs t bs rest ht he hl h

/-- the defaults, spelled out on one control -/
theorem C19_control_defaults (oid v : Bytes) (h : utf8Valid oid = true) :
    parseControl (.cons 0 16 [.prim 0 4 oid]) = some ⟨knownType oid, ⟨oid, false, none⟩⟩ ∧
    parseControl (.cons 0 16 [.prim 0 4 oid, .prim 0 1 [0x00]]) = some ⟨knownType oid, ⟨oid, false, none⟩⟩ ∧
    parseControl (.cons 0 16 [.prim 0 4 oid, .prim 0 4 v]) = some ⟨knownType oid, ⟨oid, false, some v⟩⟩ ∧
    parseControl (.cons 0 16 [.prim 0 4 oid, .prim 0 1 [0xFF], .prim 0 4 v]) =
      some ⟨knownType oid, ⟨oid, true, some v⟩⟩ := by
  refine ⟨?_, ?_, ?_, ?_⟩ <;> simp [parseControl, Tlv.expectCons, Tlv.expectPrim, Tlv.id, h]

/-- a controlType that is not UTF-8 makes the whole list a decoding error -/
theorem C19_control_nonUtf8 (rc : RawControl) (t : Tlv) (ht : Codecs.Spec.ControlTlv rc t)
    (hu : utf8Valid rc.ctype = false) : parseControl t = none :=
  parseControl_nonUtf8 rc t ht hu

/-! ### non-vacuity: the hypotheses are met by non-trivial values (tests, labelled as such) -/

/-- PagedResults, size 100, cookie of 3 bytes: emitted control -/
example : encPagedResults ⟨100, [1, 2, 3]⟩ =
    ⟨Codecs.Spec.rfcPagedResults, false, some [0x30, 0x08, 0x02, 0x01, 100, 0x04, 0x03, 1, 2, 3]⟩ := by
  decide
example : valLen (encPagedResults ⟨100, [1, 2, 3]⟩).val < 18446744073709551616 := by decide

/-- … and a response carrying the same value with a non-minimal outer length (`30 81 08 …`) -/
example : Codecs.Spec.PagedTlv ⟨100, [1, 2, 3]⟩ (.cons 0 16 [.prim 0 2 [100], .prim 0 4 [1, 2, 3]]) ∧
    Enc (.cons 0 16 [.prim 0 2 [100], .prim 0 4 [1, 2, 3]])
      [0x30, 0x81, 0x08, 0x02, 0x01, 100, 0x04, 0x03, 1, 2, 3] ∧
    parsePagedResults [0x30, 0x81, 0x08, 0x02, 0x01, 100, 0x04, 0x03, 1, 2, 3] = .ok ⟨100, [1, 2, 3]⟩ := by
  refine ⟨⟨[100], ⟨by decide, by decide⟩, rfl⟩, ?_, by decide⟩
  refine ⟨by decide, by decide, [0x81, 0x08], [0x02, 0x01, 100, 0x04, 0x03, 1, 2, 3], ?_,
    Or.inr ⟨[0x08], by decide, by decide, by decide, by decide⟩, by decide⟩
  exact ⟨[0x02, 0x01, 100], [0x04, 0x03, 1, 2, 3],
    ⟨by decide, by decide, [1], Or.inl ⟨by decide, by decide⟩, by decide⟩,
    ⟨[0x04, 0x03, 1, 2, 3], [], ⟨by decide, by decide, [3], Or.inl ⟨by decide, by decide⟩, by decide⟩,
      rfl, by decide⟩, by decide⟩

/-- SyncRequest refreshAndPersist with cookie and reloadHint -/
example : encSyncRequest ⟨.refreshAndPersist, some [0xAA, 0xBB], true⟩ =
    ⟨Codecs.Spec.rfcSyncRequest, false,
      some [0x30, 0x0a, 0x0a, 0x01, 0x03, 0x04, 0x02, 0xAA, 0xBB, 0x01, 0x01, 0xFF]⟩ := by decide

/-- SyncInfo syncIdSet with two UUIDs, refreshDeletes explicit TRUE, no cookie -/
example : Codecs.Spec.SyncInfoTlv (.syncIdSet none true [[0x61], [0x62]])
      (.cons 2 3 [.prim 0 1 [0xFF], .cons 0 17 [.prim 0 4 [0x61], .prim 0 4 [0x62]]]) ∧
    parseSyncInfo (Codecs.Spec.syncInfoMsg
      [0xa3, 0x0b, 0x01, 0x01, 0xFF, 0x31, 0x06, 0x04, 0x01, 0x61, 0x04, 0x01, 0x62]) =
      .ok (.syncIdSet none true [[0x61], [0x62]]) :=
  ⟨⟨[.prim 0 1 [0xFF]], Or.inr ⟨[0xFF], ⟨0xFF, rfl, rfl⟩, rfl⟩, rfl⟩, by decide⟩

/-- SyncDone with explicit FALSE refreshDeletes (`01 01 00`) and a cookie -/
example : Codecs.Spec.SyncDoneTlv ⟨some [7], false⟩ (.cons 0 16 [.prim 0 4 [7], .prim 0 1 [0]]) ∧
    parseSyncDone [0x30, 0x06, 0x04, 0x01, 7, 0x01, 0x01, 0x00] = .ok ⟨some [7], false⟩ :=
  ⟨⟨[.prim 0 1 [0]], Or.inr ⟨[0], ⟨0, rfl, rfl⟩, rfl⟩, rfl⟩, by decide⟩

/-- Pre/PostRead response: entry "a" with the text attribute `t = ["x", "é"]` and the binary
attribute `b = [FF]`; the value is the minimal encoding of its SearchResultEntry followed by two
stray bytes.  `attrs` gets `t`, `bin_attrs` gets `b`, the DN is not in the struct. -/
def exReadEntry : Entry :=
  { dn := [0x61], attrs := [([0x74], [[0x78], [0xC3, 0xA9]]), ([0x62], [[0xFF]])] }

example : WFEntry utf8Valid exReadEntry := by decide
example : Enc (entryTlv exReadEntry)
    [0x64, 0x1d, 0x04, 0x01, 0x61, 0x30, 0x18,
      0x30, 0x0c, 0x04, 0x01, 0x74, 0x31, 0x07, 0x04, 0x01, 0x78, 0x04, 0x02, 0xC3, 0xA9,
      0x30, 0x08, 0x04, 0x01, 0x62, 0x31, 0x03, 0x04, 0x01, 0xFF] ∧
    ([0x64, 0x1d, 0x04, 0x01, 0x61, 0x30, 0x18,
      0x30, 0x0c, 0x04, 0x01, 0x74, 0x31, 0x07, 0x04, 0x01, 0x78, 0x04, 0x02, 0xC3, 0xA9,
      0x30, 0x08, 0x04, 0x01, 0x62, 0x31, 0x03, 0x04, 0x01, 0xFF] ++ [0x00, 0x00] : Bytes).length
      < 18446744073709551616 := by
  refine ⟨?_, by decide⟩
  have h := enc_encode (entryTlv exReadEntry) (by
    simp [exReadEntry, entryTlv, attrTlv, valueTlv, WF, WFList, encodeList, encode, encType, encLen])
  have e : encode (entryTlv exReadEntry) = [0x64, 0x1d, 0x04, 0x01, 0x61, 0x30, 0x18,
      0x30, 0x0c, 0x04, 0x01, 0x74, 0x31, 0x07, 0x04, 0x01, 0x78, 0x04, 0x02, 0xC3, 0xA9,
      0x30, 0x08, 0x04, 0x01, 0x62, 0x31, 0x03, 0x04, 0x01, 0xFF] := by decide
  rwa [e] at h
example : parseReadEntryResp
    ([0x64, 0x1d, 0x04, 0x01, 0x61, 0x30, 0x18,
      0x30, 0x0c, 0x04, 0x01, 0x74, 0x31, 0x07, 0x04, 0x01, 0x78, 0x04, 0x02, 0xC3, 0xA9,
      0x30, 0x08, 0x04, 0x01, 0x62, 0x31, 0x03, 0x04, 0x01, 0xFF] ++ [0x00, 0x00]) =
    .ok { text := [([0x74], [[0x78], [0xC3, 0xA9]])], bin := [([0x62], [[0xFF]])] } := by decide
/-- both clauses of the theorem are exercised: `t` is all-text, `b` is not -/
example : ([0x74], [[0x78], [0xC3, 0xA9]]) ∈ exReadEntry.attrs ∧
    List.all [[0x78], [0xC3, 0xA9]] utf8Valid = true ∧
    ([0x62], [[0xFF]]) ∈ exReadEntry.attrs ∧ ¬ (List.all [[0xFF]] utf8Valid = true) := by decide
/-- the panic branch: DN `FF` -/
example : parseReadEntryResp [0x64, 0x05, 0x04, 0x01, 0xFF, 0x30, 0x00] = .panic ∧
    parseReadEntryResp [0x64, 0x05, 0x04] = .panic := by decide

/-- PasswordModify with user and new password; all absent: value omitted -/
example : encPasswordModify ⟨some [0x61], none, some [0x62]⟩ =
    ⟨some Codecs.Spec.rfcPassMod, some [0x30, 0x06, 0x80, 0x01, 0x61, 0x82, 0x01, 0x62]⟩ ∧
    (encPasswordModify ⟨none, none, none⟩).val = none := by decide

/-- EndTxn abort -/
example : encEndTxn ⟨[0x74, 0x78], false⟩ =
    ⟨some Codecs.Spec.rfcTxnEnd, some [0x30, 0x07, 0x01, 0x01, 0x00, 0x04, 0x02, 0x74, 0x78]⟩ := by decide

/-- the hypotheses of `C19_assertion_req_parsed` / `C19_matchedValues_req_parsed` are met: `(&(a=b)(c=*))`
is accepted, 13 octets long, nests 2 deep, and the Assertion control carries its BER; `((a=b)(c=*))` is an
accepted matched-values filter; `(a=` is rejected by both parsers (the constructors panic) -/
example : (Filter.parse [0x28, 0x26, 0x28, 0x61, 0x3D, 0x62, 0x29, 0x28, 0x63, 0x3D, 0x2A, 0x29, 0x29]).isSome = true ∧
    Filter.nest 0 [0x28, 0x26, 0x28, 0x61, 0x3D, 0x62, 0x29, 0x28, 0x63, 0x3D, 0x2A, 0x29, 0x29] ≤ 62 ∧
    (match encAssertion ((Filter.parse [0x28, 0x26, 0x28, 0x61, 0x3D, 0x62, 0x29, 0x28, 0x63, 0x3D, 0x2A, 0x29,
        0x29]).map Tag.toTlv) with | .ok rc => rc.val | _ => none) =
      some [0xA0, 0x0B, 0xA3, 0x06, 0x04, 0x01, 0x61, 0x04, 0x01, 0x62, 0x87, 0x01, 0x63] ∧
    (Filter.parseMatchedValues [0x28, 0x28, 0x61, 0x3D, 0x62, 0x29, 0x28, 0x63, 0x3D, 0x2A, 0x29, 0x29]).isSome = true ∧
    Filter.parse [0x28, 0x61, 0x3D] = none ∧ Filter.parseMatchedValues [0x28, 0x61, 0x3D] = none := by decide

/-- a two-control list through build_tag / parse_controls: critical paged results + ManageDsaIT -/
example : (∀ c ∈ [(⟨Codecs.Spec.rfcPagedResults, true, some [0x30, 0x05, 0x02, 0x01, 0x05, 0x04, 0x00]⟩ : RawControl),
      ⟨Codecs.Spec.rfcManageDsaIt, false, none⟩], utf8Valid c.ctype = true) ∧
    parseControls (controlsTlv [⟨Codecs.Spec.rfcPagedResults, true, some [0x30, 0x05, 0x02, 0x01, 0x05, 0x04, 0x00]⟩,
      ⟨Codecs.Spec.rfcManageDsaIt, false, none⟩]) =
    some [⟨some .pagedResults, ⟨Codecs.Spec.rfcPagedResults, true, some [0x30, 0x05, 0x02, 0x01, 0x05, 0x04, 0x00]⟩⟩,
      ⟨some .manageDsaIt, ⟨Codecs.Spec.rfcManageDsaIt, false, none⟩⟩] := by decide

/-- outside the well-formed domain (tests of the panic branches): a non-UTF-8 transaction
identifier; an EndTxn response in the RFC 5805 layout (`updatesControls` as a SEQUENCE OF
SEQUENCE { messageID, controls }), which the parser does not read (it expects the pairs flat) -/
example : parseStartTxnResp [0xFF] = .panic := by decide
example : parseEndTxnResp [0x30, 0x09, 0x30, 0x07, 0x30, 0x05, 0x02, 0x01, 0x01, 0x30, 0x00] = .panic ∧
    parseEndTxnResp [0x30, 0x07, 0x30, 0x05, 0x02, 0x01, 0x01, 0x30, 0x00] = .ok ⟨none, some [(1, [])]⟩ := by
  decide

end Ldap3V

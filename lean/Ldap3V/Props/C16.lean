/-
C16 — "For every result set and page size, a search through the PagedResults adapter yields the
concatenation of all pages' entries in server order, each exactly once; the first request carries the
paging control with the requested size and an empty cookie, every follow-up repeats the same base,
scope, filter, attributes, options and other controls with the cookie the server last returned, paging
stops at the first empty cookie, and the final result carries no paging control. A caller-supplied
paging control is rejected when the search starts."

Model: Model/Stream.lean (`PagedResults::start/next/finish` with the saved handle, the direct
`streaming_search` it issues per page, spliced into the outer stream) over abstract channel scripts:
`pages` lists, per search the stream performs, what its channel delivers; the ghost `reqs` records
every search handed to `op_call` with its controls, options, time-out and query.
Specification: Spec/Stream.lean (`view`, `pagedView`, `pagedRequests`, `pagedReq`).

A server's answer to a paged search is described by `pre` (pages whose first paging control carries
a non-empty cookie: any items, any result, any cookie bytes), `last` (first paging control with an
empty cookie, or no paging control at all) and `rest` (whatever the server would answer to further
requests: the client must not ask).  `pre = []` is the single page; pages may be empty.
-/
import Ldap3V.Lemmas.StreamC16
import Ldap3V.Lemmas.StreamBehindEo
import Ldap3V.Lemmas.StreamPagedFinish
import Ldap3V.Spec.PagedWire
import Ldap3V.Props.C02
import Ldap3V.Props.C19
namespace Ldap3V.Stream
open _root_.Ldap3V.Stream.Spec

/-- the page list of a paged search -/
def pagesOf (pre : List PageD) (last : PageD) (rest : List Page) : List Page :=
  pre.map PageD.page ++ last.page :: rest

/-- everything the server sent for the search, in order -/
def itemsOf (pre : List PageD) (last : PageD) : List Item := (pre ++ [last]).flatMap (·.items)

theorem startOutcome_pagesOf (h : Handle) (q : Query) (pre : List PageD) (last : PageD) (rest : List Page)
    (hh : (h.ctrls.getD []).any RCtl.isPaged = false) (hq : q.filterOk = true) :
    startOutcome [.paged] h q (pagesOf pre last rest) = .ok := by
  cases pre <;> simp [startOutcome, hh, hq, pagesOf, PageD.page]

/-- (general form) For EVERY page list — including disconnects, time-outs, silence, failing follow-up
searches, pages without control — and EVERY call sequence over {start, next, finish, state}: the
outputs of a stream behind PagedResults are those of the cursor on the paged view, i.e. the pages'
items concatenated in server order up to and including the first page with an empty cookie or
without paging control; `finish()` = that page's result without its first paging control at the
end, rc 88 otherwise. -/
theorem C16_refines (size : Int) (h : Handle) (pages : List Page) (q : Query) (calls : List Call)
    (hh : (h.ctrls.getD []).any RCtl.isPaged = false) (hq : q.filterOk = true) :
    run (init [pr size] h pages) (.start q :: calls) =
      Cursor.run (startOutcome [.paged] h q pages) (Cursor.ofView (view [.paged] pages)) (.start q :: calls) :=
  refines_paged_all size h pages q calls hh hq

/-- what the paged view is for a well-formed answer: all items of `pre ++ [last]`, then `last`'s result
without its first paging control; nothing of `rest` -/
theorem C16_view (pre : List PageD) (last : PageD) (rest : List Page) (hpre : ∀ p ∈ pre, p.more) (hlast : last.last) :
    view [.paged] (pagesOf pre last rest) =
      ⟨(itemsOf pre last).map (fun i => ⟨[], i⟩), .done [] { last.res with ctrls := dropPaging last.res.ctrls }⟩ :=
  view_paged_concat pre last rest hpre hlast

/-- Reading the stream: the concatenation of all pages' items in server order, each exactly once, then
`Ok(None)` for ever — for every number of pages (`pre = []`: a single page), page contents (empty
pages included), cookies, handle and page size. -/
theorem C16_entries (size : Int) (h : Handle) (q : Query) (pre : List PageD) (last : PageD) (rest : List Page)
    (hh : (h.ctrls.getD []).any RCtl.isPaged = false) (hq : q.filterOk = true)
    (hpre : ∀ p ∈ pre, p.more) (hlast : last.last) (k : Nat) :
    run (init [pr size] h (pagesOf pre last rest))
        (.start q :: List.replicate ((itemsOf pre last).length + 1 + k) .next) =
      .started .ok :: ((itemsOf pre last).map (fun i => Output.item (.ok (some i))) ++
        List.replicate (k + 1) (.item (.ok none))) := by
  rw [C16_refines size h _ q _ hh hq]
  rw [startOutcome_pagesOf h q pre last rest hh hq, Cursor.run]
  have hc : (Cursor.ofView (view [.paged] (pagesOf pre last rest))).step .ok (.start q) =
      ({ Cursor.ofView (view [.paged] (pagesOf pre last rest)) with state := .active }, .started .ok) := by
    simp [Cursor.step, Cursor.start, Cursor.ofView]
  rw [hc]
  simp only [Output.stuck, Bool.false_eq_true, if_false, List.cons.injEq, true_and]
  have := Cursor.run_nexts_done .ok ((itemsOf pre last).map fun i => (⟨[], i⟩ : Step))
    { Cursor.ofView (view [.paged] (pagesOf pre last rest)) with state := .active } []
    { last.res with ctrls := dropPaging last.res.ctrls } k rfl
    (by simp [Cursor.ofView, C16_view pre last rest hpre hlast])
    (by simp [Cursor.ofView, C16_view pre last rest hpre hlast])
  simp only [List.length_map, List.map_map] at this
  rw [this]
  simp [Function.comp_def]

-- three pages, the middle one empty, a fourth one the client must not ask for
example : run (init [pr 2] {} (pagesOf
      [⟨[⟨.entry, 1, none, []⟩, ⟨.entry, 2, none, []⟩], ⟨0, [], [⟨true, some [7], 0⟩], .server 3⟩, []⟩,
       ⟨[], ⟨0, [], [⟨true, some [8], 0⟩], .server 4⟩, []⟩]
      ⟨[⟨.entry, 5, none, []⟩], ⟨0, [], [⟨false, none, 1⟩, ⟨true, some [], 0⟩], .server 6⟩, []⟩
      [.script [.item ⟨.entry, 99, none, []⟩]]))
    [.start ⟨1, true⟩, .next, .next, .next, .next, .next, .finish] =
    [.started .ok, .item (.ok (some ⟨.entry, 1, none, []⟩)), .item (.ok (some ⟨.entry, 2, none, []⟩)),
     .item (.ok (some ⟨.entry, 5, none, []⟩)), .item (.ok none), .item (.ok none),
     .result ⟨0, [], [⟨false, none, 1⟩], .server 6⟩] := by decide +kernel

/-- the state reached by reading to the end -/
theorem reach_paged_done (size : Int) (h : Handle) (q : Query) (pre : List PageD) (last : PageD) (rest : List Page)
    (hh : (h.ctrls.getD []).any RCtl.isPaged = false) (hq : q.filterOk = true)
    (hpre : ∀ p ∈ pre, p.more) (hlast : last.last) (k : Nat) :
    ∃ c, RelP size (savedOf h q) (othersOf h)
        (pagedRequests (mkReq size (savedOf h q) (othersOf h)) [] (pagesOf pre last rest))
        (exec (init [pr size] h (pagesOf pre last rest))
          (.start q :: List.replicate ((itemsOf pre last).length + 1 + k) .next)) c ∧
      c.state = .done ∧ CInv c ∧ c.ending = .done [] { last.res with ctrls := dropPaging last.res.ctrls } := by
  have hnf : ∀ k' ∈ List.replicate ((itemsOf pre last).length + 1 + k) Call.next, k' ≠ .finish := by
    intro k' hk; rw [List.eq_of_mem_replicate hk]; simp
  have hns : ∀ o ∈ run (init [pr size] h (pagesOf pre last rest))
      (.start q :: List.replicate ((itemsOf pre last).length + 1 + k) .next), o.stuck = false := by
    rw [C16_entries size h q pre last rest hh hq hpre hlast k]
    intro o ho
    simp only [List.mem_cons, List.mem_append, List.mem_map, List.mem_replicate] at ho
    rcases ho with rfl | ⟨i, _, rfl⟩ | ⟨_, rfl⟩ <;> rfl
  refine ⟨_, (refines_paged size h _ q _ hh hq hnf).2 hns, ?_, ?_, ?_⟩
  · rw [startOutcome_pagesOf h q pre last rest hh hq]
    have hc : (Cursor.ofView (view [.paged] (pagesOf pre last rest))).step .ok (.start q) =
        ({ Cursor.ofView (view [.paged] (pagesOf pre last rest)) with state := .active }, .started .ok) := by
      simp [Cursor.step, Cursor.start, Cursor.ofView]
    simp only [Cursor.exec, hc, Output.stuck, Bool.false_eq_true, if_false]
    have := Cursor.exec_nexts_done .ok ((itemsOf pre last).map fun i => (⟨[], i⟩ : Step))
      { Cursor.ofView (view [.paged] (pagesOf pre last rest)) with state := .active } []
      { last.res with ctrls := dropPaging last.res.ctrls } k rfl
      (by simp [Cursor.ofView, C16_view pre last rest hpre hlast])
      (by simp [Cursor.ofView, C16_view pre last rest hpre hlast])
    simpa using this
  · exact CInv.exec _ _ _ (CInv.ofView _)
  · rw [Cursor.exec_ending]; simp [Cursor.ofView, C16_view pre last rest hpre hlast]

/-- The requests, once the stream has been read to its end: the first carries the caller's other
controls followed by the paging control with the requested size and an EMPTY cookie; follow-up `k`
carries the same other controls, the same options, time-out and query (base, scope, filter,
attributes) and the paging control with the same size and the cookie of page `k`; all acknowledged. -/
theorem C16_requests (size : Int) (h : Handle) (q : Query) (pre : List PageD) (last : PageD) (rest : List Page)
    (hh : (h.ctrls.getD []).any RCtl.isPaged = false) (hq : q.filterOk = true)
    (hpre : ∀ p ∈ pre, p.more) (hlast : last.last) (k : Nat) :
    (exec (init [pr size] h (pagesOf pre last rest))
        (.start q :: List.replicate ((itemsOf pre last).length + 1 + k) .next)).s.reqs =
      pagedReq size (othersOf h) h.opts h.tmo q [] true ::
        pre.map (fun p => pagedReq size (othersOf h) h.opts h.tmo q p.cookie true) := by
  obtain ⟨c, hR, hd, _, _⟩ := reach_paged_done size h q pre last rest hh hq hpre hlast k
  rw [hR.reqsDone hd]
  exact pagedRequests_concat _ pre last rest hpre hlast []

example : (exec (init [pr 2] { ctrls := some [.other 7], opts := some 3, tmo := some 1000 } (pagesOf
      [⟨[⟨.entry, 1, none, []⟩], ⟨0, [], [⟨true, some [7], 0⟩], .server 3⟩, []⟩]
      ⟨[⟨.entry, 5, none, []⟩], ⟨0, [], [⟨true, some [], 0⟩], .server 6⟩, []⟩ []))
    [.start ⟨1, true⟩, .next, .next, .next]).s.reqs =
    [⟨some [.other 7, .paged 2 []], some 3, some 1000, ⟨1, true⟩, true⟩,
     ⟨some [.other 7, .paged 2 [7]], some 3, some 1000, ⟨1, true⟩, true⟩] := by decide +kernel

/-- Paging stops at the first empty cookie (or the first result without paging control): exactly one
request per page of `pre ++ [last]`, none for `rest` — and nothing of `rest` is ever yielded
(`C16_entries`). -/
theorem C16_stops_at_first_empty_cookie (size : Int) (h : Handle) (q : Query) (pre : List PageD) (last : PageD)
    (rest : List Page) (hh : (h.ctrls.getD []).any RCtl.isPaged = false) (hq : q.filterOk = true)
    (hpre : ∀ p ∈ pre, p.more) (hlast : last.last) (k : Nat) :
    (exec (init [pr size] h (pagesOf pre last rest))
        (.start q :: List.replicate ((itemsOf pre last).length + 1 + k) .next)).s.reqs.length = pre.length + 1 := by
  rw [C16_requests size h q pre last rest hh hq hpre hlast k]; simp

/-- `finish()` after the stream has been read to the end: the result of the LAST page — code, text,
referrals, the other controls in order — from which the FIRST control tagged as paging control has
been removed, and no scrub is sent.  If the server put at most one paging control into that result
(RFC 2696) the final result carries no paging control.  (With two of them the second one stays:
example below.) -/
theorem C16_final_has_no_paging_control (size : Int) (h : Handle) (q : Query) (pre : List PageD) (last : PageD)
    (rest : List Page) (hh : (h.ctrls.getD []).any RCtl.isPaged = false) (hq : q.filterOk = true)
    (hpre : ∀ p ∈ pre, p.more) (hlast : last.last) (k : Nat) :
    let m := exec (init [pr size] h (pagesOf pre last rest))
      (.start q :: List.replicate ((itemsOf pre last).length + 1 + k) .next)
    (step m .finish).2 = .result { last.res with ctrls := dropPaging last.res.ctrls } ∧
    (step m .finish).1.s.scrubs = m.s.scrubs ∧
    ((last.res.ctrls.filter (·.paged)).length ≤ 1 → ∀ c ∈ dropPaging last.res.ctrls, c.paged = false) := by
  intro m
  obtain ⟨c, hR, hd, hI, hE⟩ := reach_paged_done size h q pre last rest hh hq hpre hlast k
  have hst : m.s.state = .done := by rw [← hd]; exact hR.state
  obtain ⟨g, r, he, hf⟩ := hI.finDone hd
  rw [hE] at he
  simp only [End.done.injEq] at he
  obtain ⟨h1, _, h3⟩ := step_finish_open m (by rw [hst]; simp)
  refine ⟨?_, by rw [h3]; simp [hst], dropPaging_clean _⟩
  rw [h1, hR.fin hd, hf, ← he.2]
  have : m.chain = [.paged size (some (savedOf h q))] := hR.chain
  rw [this]; simp [chainRefs]

-- two paging controls in the last result: only the first is removed
example : (run (init [pr 2] {} (pagesOf [] ⟨[], ⟨0, [], [⟨true, some [], 1⟩, ⟨true, some [9], 2⟩], .server 6⟩, []⟩ []))
    [.start ⟨1, true⟩, .next, .finish]) =
    [.started .ok, .item (.ok none), .result ⟨0, [], [⟨true, some [9], 2⟩], .server 6⟩] := by decide +kernel

/-- A caller-supplied paging control (any size, any cookie, at any position among the caller's
controls) is rejected when the search starts — alone or chained with EntriesOnly in either order:
`start` returns `Err(AdapterInit)`, nothing is handed to the connection, the stream is in state
Error, no page script is consumed. -/
theorem C16_rejects_caller_control (size : Int) (h : Handle) (pages : List Page) (q : Query)
    (hh : (h.ctrls.getD []).any RCtl.isPaged = true) (chain : List Adapter)
    (hc : chain = [pr size] ∨ chain = [eo, pr size] ∨ chain = [pr size, eo]) :
    (step (init chain h pages) (.start q)).2 = .started (.err .adapterInit) ∧
    (step (init chain h pages) (.start q)).1.s.state = .error ∧
    (step (init chain h pages) (.start q)).1.s.reqs = [] ∧
    (step (init chain h pages) (.start q)).1.s.pages = pages := by
  rcases hc with rfl | rfl | rfl <;>
    simp [Ldap3V.Stream.step, init, pr, eo, start, hh, errState]

example : (h : Handle) → h = { ctrls := some [.other 1, .paged 7 [1, 2]] } → (h.ctrls.getD []).any RCtl.isPaged = true := by
  intro h hh; subst hh; decide

/-- PagedResults chained with EntriesOnly, in either order.  (1) For EVERY page list and every call
sequence over {start, next, state}: the outputs are those of the cursor on ONE view, the same for
both chain orders: the entries of the concatenated pages, reference URIs collected, intermediate
messages dropped (with `finish()` anywhere in the calls: `C10_refines_paged`).  (2) Whenever such a run ends in state Done the requests issued are exactly the
sequence C16 prescribes (`pagedRequests`: PR(size, "") first, then PR(size, cookie of page k) with
the same other controls, options, time-out and query), and `stream.res` is the cursor's final
result.  (3) For a well-formed answer that view is: the directory entries of `pre ++ [last]` in
order; final result = `last`'s without its first paging control; gains = the URIs of all reference
messages (they end up in the result's referral list, `C10_states` (4)). -/
theorem C16_behind_entries_only (size : Int) (h : Handle) (pages : List Page) (q : Query) (calls : List Call)
    (hh : (h.ctrls.getD []).any RCtl.isPaged = false) (hq : q.filterOk = true)
    (hnf : ∀ k ∈ calls, k ≠ .finish) :
    (run (init [eo, pr size] h pages) (.start q :: calls) =
      Cursor.run (startOutcome [.entriesOnly, .paged] h q pages)
        (Cursor.ofView (view [.entriesOnly, .paged] pages)) (.start q :: calls)) ∧
    (run (init [pr size, eo] h pages) (.start q :: calls) =
      Cursor.run (startOutcome [.paged, .entriesOnly] h q pages)
        (Cursor.ofView (view [.entriesOnly, .paged] pages)) (.start q :: calls)) ∧
    view [.paged, .entriesOnly] pages = view [.entriesOnly, .paged] pages ∧
    (∀ chain, chain = [eo, pr size] ∨ chain = [pr size, eo] →
      (∀ o ∈ run (init chain h pages) (.start q :: calls), o.stuck = false) →
      (exec (init chain h pages) (.start q :: calls)).s.state = .done →
      (exec (init chain h pages) (.start q :: calls)).s.reqs =
        pagedRequests (pagedReq size (othersOf h) h.opts h.tmo q) [] pages) := by
  refine ⟨(refines_eo_paged size h pages q calls hh hq hnf).1, ?_, view_comm pages, ?_⟩
  · rw [← view_comm]; exact (refines_paged_eo size h pages q calls hh hq hnf).1
  · intro chain hc hns hd
    rcases hc with rfl | rfl
    · have hR := (refines_eo_paged size h pages q calls hh hq hnf).2 hns
      exact hR.reqsDone (by rw [← hR.state]; exact hd)
    · have hR := (refines_paged_eo size h pages q calls hh hq hnf).2 hns
      exact hR.reqsDone (by rw [← hR.state]; exact hd)

/-- the view behind EntriesOnly for a well-formed answer -/
theorem C16_behind_entries_only_view (pre : List PageD) (last : PageD) (rest : List Page)
    (hpre : ∀ p ∈ pre, p.more) (hlast : last.last)
    (hwf : ∀ i ∈ itemsOf pre last, i.kind = .ref → i.uris ≠ none) :
    ∃ g', (view [.entriesOnly, .paged] (pagesOf pre last rest)).ending =
        .done g' { last.res with ctrls := dropPaging last.res.ctrls } ∧
      (view [.entriesOnly, .paged] (pagesOf pre last rest)).steps.map (·.item) =
        (itemsOf pre last).filter (fun i => i.kind == .entry) ∧
      (view [.entriesOnly, .paged] (pagesOf pre last rest)).steps.flatMap (·.gain) ++ g' = refUris (itemsOf pre last) :=
  view_eo_paged_concat pre last rest hpre hlast hwf

-- both chain orders on three pages with references and an intermediate message: same outputs
example : run (init [eo, pr 2] {} (pagesOf
      [⟨[⟨.entry, 1, none, []⟩, ⟨.ref, 2, some [[0x61]], []⟩], ⟨0, [], [⟨true, some [7], 0⟩], .server 3⟩, []⟩,
       ⟨[⟨.inter, 8, none, []⟩], ⟨0, [], [⟨true, some [8], 0⟩], .server 4⟩, []⟩]
      ⟨[⟨.ref, 9, some [[0x62]], []⟩, ⟨.entry, 5, none, []⟩], ⟨0, [[0x63]], [⟨true, some [], 0⟩], .server 6⟩, []⟩ []))
    [.start ⟨1, true⟩, .next, .next, .next, .finish] =
    [.started .ok, .item (.ok (some ⟨.entry, 1, none, []⟩)), .item (.ok (some ⟨.entry, 5, none, []⟩)), .item (.ok none),
     .result ⟨0, [[0x63], [0x61], [0x62]], [], .server 6⟩] ∧
  run (init [pr 2, eo] {} (pagesOf
      [⟨[⟨.entry, 1, none, []⟩, ⟨.ref, 2, some [[0x61]], []⟩], ⟨0, [], [⟨true, some [7], 0⟩], .server 3⟩, []⟩,
       ⟨[⟨.inter, 8, none, []⟩], ⟨0, [], [⟨true, some [8], 0⟩], .server 4⟩, []⟩]
      ⟨[⟨.ref, 9, some [[0x62]], []⟩, ⟨.entry, 5, none, []⟩], ⟨0, [[0x63]], [⟨true, some [], 0⟩], .server 6⟩, []⟩ []))
    [.start ⟨1, true⟩, .next, .next, .next, .finish] =
    [.started .ok, .item (.ok (some ⟨.entry, 1, none, []⟩)), .item (.ok (some ⟨.entry, 5, none, []⟩)), .item (.ok none),
     .result ⟨0, [[0x63], [0x61], [0x62]], [], .server 6⟩] := by decide +kernel

/-
NOT proved (stated for the record): for the two chains with EntriesOnly the closed-form theorems
`C16_entries` / `C16_final_has_no_paging_control` (outputs of `replicate n next` and of the final
`finish()` written out for `pagesOf pre last rest`).  They follow from `C16_behind_entries_only`
(1), (2) and `C16_behind_entries_only_view` by the same cursor computation as for `[PagedResults]`
(`Cursor.run_nexts_done`); the final result there is `last.res` without its first paging control and
with `refs := last.res.refs ++ refUris (itemsOf pre last)`.
-/

/-! ### down to the bytes (C16 ∘ C02 ∘ C19)

`C16_requests` says which searches the adapter hands to `op_call`, in the stream model's terms: query,
options and the caller's other controls are opaque tokens there.  `Interp` (Spec/PagedWire.lean) says what
the tokens stand for; `I.bytes id r` are the bytes `Encoder::encode` writes for the request `r` under
message ID `id` (Model/Requests.lean, Model/Envelope.lean, Model/Codecs.lean `encPagedResults`). -/

/-- Every request of a paged search read to its end, AS BYTES: request number `k` (0 = the first), written
under any message ID, is parsed back by the library-independent reader (`Ldap3V.Spec.decodeRequest`, the RFC
4511 ASN.1) as a SearchRequest with exactly the caller's base, scope, filter and attributes, the search
options in force at `start` (or the defaults), and as controls the caller's other controls in their order
followed by ONE paging control — OID 1.2.840.113556.1.4.319, not critical — whose value the RFC 2696 reader
decodes to the requested size and cookie number `k` of `[] :: cookies of the pages before the last`: empty
on the first request, the cookie the server last returned on every follow-up.

Side conditions are those of C02 / C19 (numbers in the range of their Rust types, a filter lber's parser
can read back, sizes below 2^64) and `0 ≤ size` (RFC 2696: `INTEGER (0..maxInt)`; a negative size is
written as a negative INTEGER, `C19_pagedResults_req_negative`). -/
theorem C16_request_bytes (I : Interp) (size : Int) (h : Handle) (q : Query) (pre : List PageD) (last : PageD)
    (rest : List Page) (hh : (h.ctrls.getD []).any RCtl.isPaged = false) (hq : q.filterOk = true)
    (hpre : ∀ p ∈ pre, p.more) (hlast : last.last) (n k : Nat) (r : Req)
    (hr : (exec (init [pr size] h (pagesOf pre last rest))
        (.start q :: List.replicate ((itemsOf pre last).length + 1 + n) .next)).s.reqs[k]? = some r)
    (id : Nat) (hid : 1 ≤ id ∧ id < 2147483648)
    (ho : Ldap3V.Spec.I32 (I.optsOf h.opts).sizeLimit ∧ Ldap3V.Spec.I32 (I.optsOf h.opts).timeLimit)
    (hf : Ldap3V.Spec.lowTags (I.filter q.tok) = true ∧ (I.filter q.tok).depth ≤ 62)
    (hs : 0 ≤ size ∧ size ≤ 2147483647)
    (hl : (I.bytes id r).length < 18446744073709551616) :
    ∃ ck t, ([] :: pre.map PageD.cookie)[k]? = some ck ∧
      parseTag (I.bytes id r) = .ok t [] ∧
      Ldap3V.Spec.decodeRequest t = some (id,
        .search (I.base q.tok) (I.scope q.tok) (I.optsOf h.opts).deref (I.optsOf h.opts).sizeLimit
          (I.optsOf h.opts).timeLimit (I.optsOf h.opts).typesOnly (I.filter q.tok) (I.attrs q.tok),
        some ((othersOf h).map I.rctl ++ [Codecs.encPagedResults ⟨size, ck⟩])) ∧
      (Codecs.encPagedResults ⟨size, ck⟩).ctype = Codecs.Spec.rfcPagedResults ∧
      (Codecs.encPagedResults ⟨size, ck⟩).crit = false ∧
      (Codecs.valLen (Codecs.encPagedResults ⟨size, ck⟩).val < 18446744073709551616 →
        Codecs.Spec.DecodesTo Codecs.Spec.pagedOfTlv (Codecs.encPagedResults ⟨size, ck⟩).val ⟨size, ck⟩) := by
  rw [C16_requests size h q pre last rest hh hq hpre hlast n] at hr
  have e : pagedReq size (othersOf h) h.opts h.tmo q [] true ::
        pre.map (fun p => pagedReq size (othersOf h) h.opts h.tmo q p.cookie true) =
      ([] :: pre.map PageD.cookie).map (fun ck => pagedReq size (othersOf h) h.opts h.tmo q ck true) := by
    simp [List.map_map, Function.comp_def]
  rw [e, List.getElem?_map] at hr
  cases hck : ([] :: pre.map PageD.cookie)[k]? with
  | none => rw [hck] at hr; cases hr
  | some ck =>
    rw [hck] at hr
    simp only [Option.map_some, Option.some.injEq] at hr
    subst hr
    have hb : I.bytes id (pagedReq size (othersOf h) h.opts h.tmo q ck true) =
        encodeMsg (id : Int) (build (.search (I.base q.tok) (I.scope q.tok) (I.optsOf h.opts).deref
          (I.optsOf h.opts).sizeLimit (I.optsOf h.opts).timeLimit (I.optsOf h.opts).typesOnly (I.filter q.tok)
          (I.attrs q.tok))) (some ((othersOf h).map I.rctl ++ [Codecs.encPagedResults ⟨size, ck⟩])) := by
      simp [Interp.bytes, Interp.request, Interp.ctrls, pagedReq, Interp.rctl]
    rw [hb] at hl ⊢
    have hw : Ldap3V.Spec.WFReq (.search (I.base q.tok) (I.scope q.tok) (I.optsOf h.opts).deref
        (I.optsOf h.opts).sizeLimit (I.optsOf h.opts).timeLimit (I.optsOf h.opts).typesOnly (I.filter q.tok)
        (I.attrs q.tok)) := ⟨rfl, ho⟩
    obtain ⟨t, ht, hd⟩ := C02_roundtrip_bytes id _ _ hid hw hf hl
    refine ⟨ck, t, rfl, ht, hd, ?_, rfl, ?_⟩
    · exact C19_oids.1
    · intro hv
      exact (C19_pagedResults_req ⟨size, ck⟩ hs.1 hs.2 hv).2.2

/-- every element of the prescribed request sequence is a `pagedReq` with some cookie -/
theorem pagedRequests_form (mk : Bytes → Bool → Req) : ∀ (pages : List Page) (ck : Bytes) (r : Req),
    r ∈ pagedRequests mk ck pages → ∃ ck' b, r = mk ck' b
  | [], ck, r, h => by
    simp only [pagedRequests, List.mem_singleton] at h
    exact ⟨ck, true, h⟩
  | .fail _ :: _, ck, r, h => by
    simp only [pagedRequests, List.mem_singleton] at h
    exact ⟨ck, false, h⟩
  | .script l :: ps, ck, r, h => by
    simp only [pagedRequests, List.mem_cons] at h
    rcases h with h | h
    · exact ⟨ck, true, h⟩
    · cases hn : nextCookie l with
      | none => rw [hn] at h; cases h
      | some ck' => rw [hn] at h; exact pagedRequests_form mk ps ck' r h

/-- The same down to the bytes when PagedResults is chained with EntriesOnly, in either order: whenever such a
run ends in state Done, EVERY request it issued, written under any message ID, reads back as the caller's search
with the caller's other controls in order followed by one paging control of the requested size (its cookie:
`C16_behind_entries_only` (2) says which — the prescribed sequence). -/
theorem C16_request_bytes_behind_entries_only (I : Interp) (size : Int) (h : Handle) (pages : List Page) (q : Query)
    (calls : List Call) (hh : (h.ctrls.getD []).any RCtl.isPaged = false) (hq : q.filterOk = true)
    (hnf : ∀ k ∈ calls, k ≠ .finish) (chain : List Adapter) (hc : chain = [eo, pr size] ∨ chain = [pr size, eo])
    (hns : ∀ o ∈ run (init chain h pages) (.start q :: calls), o.stuck = false)
    (hd : (exec (init chain h pages) (.start q :: calls)).s.state = .done)
    (r : Req) (hr : r ∈ (exec (init chain h pages) (.start q :: calls)).s.reqs)
    (id : Nat) (hid : 1 ≤ id ∧ id < 2147483648)
    (ho : Ldap3V.Spec.I32 (I.optsOf h.opts).sizeLimit ∧ Ldap3V.Spec.I32 (I.optsOf h.opts).timeLimit)
    (hf : Ldap3V.Spec.lowTags (I.filter q.tok) = true ∧ (I.filter q.tok).depth ≤ 62)
    (hl : (I.bytes id r).length < 18446744073709551616) :
    ∃ ck t, parseTag (I.bytes id r) = .ok t [] ∧
      Ldap3V.Spec.decodeRequest t = some (id,
        .search (I.base q.tok) (I.scope q.tok) (I.optsOf h.opts).deref (I.optsOf h.opts).sizeLimit
          (I.optsOf h.opts).timeLimit (I.optsOf h.opts).typesOnly (I.filter q.tok) (I.attrs q.tok),
        some ((othersOf h).map I.rctl ++ [Codecs.encPagedResults ⟨size, ck⟩])) := by
  rw [(C16_behind_entries_only size h pages q calls hh hq hnf).2.2.2 chain hc hns hd] at hr
  obtain ⟨ck, b, rfl⟩ := pagedRequests_form _ pages [] r hr
  have hb : I.bytes id (pagedReq size (othersOf h) h.opts h.tmo q ck b) =
      encodeMsg (id : Int) (build (.search (I.base q.tok) (I.scope q.tok) (I.optsOf h.opts).deref
        (I.optsOf h.opts).sizeLimit (I.optsOf h.opts).timeLimit (I.optsOf h.opts).typesOnly (I.filter q.tok)
        (I.attrs q.tok))) (some ((othersOf h).map I.rctl ++ [Codecs.encPagedResults ⟨size, ck⟩])) := by
    simp [Interp.bytes, Interp.request, Interp.ctrls, pagedReq, Interp.rctl]
  rw [hb] at hl ⊢
  have hw : Ldap3V.Spec.WFReq (.search (I.base q.tok) (I.scope q.tok) (I.optsOf h.opts).deref
      (I.optsOf h.opts).sizeLimit (I.optsOf h.opts).timeLimit (I.optsOf h.opts).typesOnly (I.filter q.tok)
      (I.attrs q.tok)) := ⟨rfl, ho⟩
  obtain ⟨t, ht, hdec⟩ := C02_roundtrip_bytes id _ _ hid hw hf hl
  exact ⟨ck, t, ht, hdec⟩

/-- the hypotheses of `C16_request_bytes_behind_entries_only` are met by the three-page run of the example above
(EntriesOnly in front): it ends in Done, no output is stuck, three requests were issued -/
example :
    let pages := pagesOf
      [⟨[⟨.entry, 1, none, []⟩, ⟨.ref, 2, some [[0x61]], []⟩], ⟨0, [], [⟨true, some [7], 0⟩], .server 3⟩, []⟩,
       ⟨[⟨.inter, 8, none, []⟩], ⟨0, [], [⟨true, some [8], 0⟩], .server 4⟩, []⟩]
      ⟨[⟨.ref, 9, some [[0x62]], []⟩, ⟨.entry, 5, none, []⟩], ⟨0, [[0x63]], [⟨true, some [], 0⟩], .server 6⟩, []⟩ []
    let calls : List Call := [.next, .next, .next]
    (exec (init [eo, pr 2] {} pages) (.start ⟨1, true⟩ :: calls)).s.state = .done ∧
    (run (init [eo, pr 2] {} pages) (.start ⟨1, true⟩ :: calls)).all (fun o => !o.stuck) = true ∧
    (exec (init [eo, pr 2] {} pages) (.start ⟨1, true⟩ :: calls)).s.reqs.map (·.ctrls) =
      [some [.paged 2 []], some [.paged 2 [7]], some [.paged 2 [8]]] := by decide +kernel

/-- an interpretation for the examples: base `o=x`, whole subtree, filter `(cn=*)`, attribute `*`; the other
control is ManageDsaIT-like (OID `1`, critical, no value); options: deref always, typesOnly, limits 5 s / 7 -/
def C16_demoI : Interp :=
  { base := fun _ => [0x6f, 0x3d, 0x78], scope := fun _ => .subtree, filter := fun _ => .prim 2 7 [0x63, 0x6e],
    attrs := fun _ => [[0x2a]], ctl := fun _ => ⟨[0x31], true, none⟩, opts := fun _ => ⟨.always, true, 5, 7⟩ }

/-- the follow-up request of the two-page search of the example above (`k = 1`) -/
def C16_demoReq : Req := ⟨some [.other 7, .paged 2 [7]], some 3, some 1000, ⟨1, true⟩, true⟩

/-- the hypotheses of `C16_request_bytes` are met by that search … -/
example : (exec (init [pr 2] { ctrls := some [.other 7], opts := some 3, tmo := some 1000 } (pagesOf
      [⟨[⟨.entry, 1, none, []⟩], ⟨0, [], [⟨true, some [7], 0⟩], .server 3⟩, []⟩]
      ⟨[⟨.entry, 5, none, []⟩], ⟨0, [], [⟨true, some [], 0⟩], .server 6⟩, []⟩ []))
      [.start ⟨1, true⟩, .next, .next, .next]).s.reqs[1]? = some C16_demoReq := by decide +kernel
/-- … and these are its bytes under message ID 2 (`30 50 02 01 02 63 1d … a0 2c 30 06 04 01 31 01 01 ff 30 22
04 16 "1.2.840.113556.1.4.319" 04 08 30 06 02 01 02 04 01 07`): the search, then the controls — the caller's
first, the paging control with size 2 and cookie `07` last; the RFC 2696 reader on the value -/
example : C16_demoI.bytes 2 C16_demoReq =
    [48, 80, 2, 1, 2, 99, 29, 4, 3, 111, 61, 120, 10, 1, 2, 10, 1, 3, 2, 1, 7, 2, 1, 5, 1, 1, 255, 135, 2, 99, 110, 48, 3,
     4, 1, 42, 160, 44, 48, 6, 4, 1, 49, 1, 1, 255, 48, 34, 4, 22, 49, 46, 50, 46, 56, 52, 48, 46, 49, 49, 51, 53, 53, 54,
     46, 49, 46, 52, 46, 51, 49, 57, 4, 8, 48, 6, 2, 1, 2, 4, 1, 7] ∧
    Codecs.Spec.decPaged (Codecs.encPagedResults ⟨2, [7]⟩).val = some ⟨2, [7]⟩ := by decide

end Ldap3V.Stream

/-
C03 — results returned are what the server sent.
"For every well-formed response, the result code, matched DN, diagnostic text, referral list,
response controls (OID, criticality, value) and extended-response name and value handed to the
caller equal the fields the server encoded, regardless of legal BER length-form variations in the
encoding.  The success(), non_error() and equal() helpers treat a result as success exactly for the
documented codes (0; 0 or 10; 5 and 6 as false/true)."

Model: Model/Result.lean (`resultExt` = result.rs `LdapResultExt::try_from_tag`, `opCallResult` =
the tail of ldap.rs `op_call`, the eight helper methods), Model/Envelope.lean (`decodeInner`),
Model/Ber.lean (lber parser).  Spec: Spec/Result.lean (RFC 4511 §4.1.9, §4.2.2, §4.12),
Spec/Envelope.lean (LDAPMessage, Control), Spec/Ber.lean (`Enc` = every definite-length encoding).

`resultExt … = none` is `try_from_tag` returning `None`; the callers (`op_call`, the search stream)
go through `From<Tag>` = `try_from_tag(t).expect("ldap result")`, i.e. a panic on the CALLER's task.
`C03_conversion_domain` gives the exact set of trees on which that happens; every RFC-shaped
response is outside it (`C03_result_fields`).
-/
import Ldap3V.Lemmas.Result
import Ldap3V.Lemmas.FramingWF
import Ldap3V.Lemmas.GenPure
import Ldap3V.Gen.ResRoles
namespace Ldap3V
open Spec

/-- The conversion run on every operation's response returns exactly the server's fields, for every
response kind, every code that fits `u32`, every choice of resultCode content octets (minimal or
padded), with or without referral / SASL credentials / extended name and value. -/
theorem C03_result_fields (r : Resp) (h : WFResp r) :
    resultExt (respOp r) =
      some ⟨r.rc, r.matched, r.text, r.refs.getD [], r.exopName, r.exopVal, r.sasl⟩ :=
  resultExt_respOp r h

/-- Octet level: for every well-formed LDAPMessage carrying the response, EVERY definite-length BER
encoding `e` of it (any legal length form at every nesting level) and whatever bytes `y` follow in
the buffer, the decoder delivers message ID, the protocolOp and the controls, consuming exactly `e`. -/
theorem C03_decode (m : WireMsg) (r : Resp) (e y : Bytes) (hop : m.op = respOp r) (hm : m.WF)
    (he : Enc m.tlv e) (hsz : (e ++ y).length < 18446744073709551616) :
    decodeInner (e ++ y) = .frame (m.id : Int) (respOp r) (ctrlsMeaning m.ctrls) e.length := by
  have := decodeInner_msg m e y hm he hsz
  simpa [WireMsg.frame, hop] using this

/-- End to end (decoder, then the conversion and `result.ctrls = controls` of `op_call`): the caller
gets exactly the server's result code, matched DN, diagnostic text, referral URIs (absent = empty),
extended name/value, SASL credentials, and the controls in order with OID and value as sent,
criticality = the BOOLEAN sent (any non-zero octet is TRUE) and FALSE when absent, value `none`
when absent — for every definite-length encoding of the message. -/
theorem C03_end_to_end (m : WireMsg) (r : Resp) (e y : Bytes) (hop : m.op = respOp r) (hm : m.WF)
    (hr : WFResp r) (he : Enc m.tlv e) (hsz : (e ++ y).length < 18446744073709551616) :
    ∃ op cs, decodeInner (e ++ y) = .frame (m.id : Int) op cs e.length ∧
      opCallResult op cs = some
        (⟨r.rc, r.matched, r.text, r.refs.getD [],
          (m.ctrls.getD []).map fun c =>
            ⟨knownType c.oid, ⟨c.oid, (match c.crit with | some b => b != 0 | none => false), c.val⟩⟩⟩,
         (r.exopName, r.exopVal), r.sasl) := by
  refine ⟨respOp r, ctrlsMeaning m.ctrls, C03_decode m r e y hop hm he hsz, ?_⟩
  simp only [opCallResult, C03_result_fields r hr]
  cases m.ctrls <;> rfl

/-- Two different encodings of the same message (different length forms) give the caller the same
frame and the same result. -/
theorem C03_length_form_independent (m : WireMsg) (r : Resp) (e₁ e₂ y₁ y₂ : Bytes) (hop : m.op = respOp r)
    (hm : m.WF) (h₁ : Enc m.tlv e₁) (h₂ : Enc m.tlv e₂)
    (hs₁ : (e₁ ++ y₁).length < 18446744073709551616) (hs₂ : (e₂ ++ y₂).length < 18446744073709551616) :
    ∃ id op cs, decodeInner (e₁ ++ y₁) = .frame id op cs e₁.length ∧
      decodeInner (e₂ ++ y₂) = .frame id op cs e₂.length :=
  ⟨_, _, _, C03_decode m r e₁ y₁ hop hm h₁ hs₁, C03_decode m r e₂ y₂ hop hm h₂ hs₂⟩

/-- The driver's synthetic acknowledgement (`Tag::Null`, for operations without a response) converts
to an empty success. -/
theorem C03_null_ack (c i : Nat) : resultExtOfTag (.null c i) = some ⟨0, [], [], [], none, none, none⟩ := rfl

/-- How the resultCode octets are read, for ALL octet strings: unsigned big-endian, low 32 bits.
Hence the value handed on equals the two's complement value sent exactly when that value is in
`0 ..< 2^32` (so `rc < 2^32` in `WFResp` is necessary, not only sufficient); a negative code sent in
`k` octets is read as `value + 256^k` (e.g. `FF` = -1 is read as 255), larger ones are truncated. -/
theorem C03_rc_read_unsigned (c : Bytes) :
    rcOfOctets c = beVal c % 4294967296 ∧
    (((rcOfOctets c : Nat) : Int) = twos c ↔ (0 ≤ twos c ∧ twos c < 4294967296)) ∧
    (twos c < 0 → (beVal c : Int) = twos c + (256 : Int) ^ c.length) ∧
    (0 ≤ twos c → (beVal c : Int) = twos c) :=
  ⟨rcOfOctets_eq c, rcOfOctets_exact_iff c, twos_neg_beVal c, twos_nonneg_beVal c⟩

/-- Exact domain of the conversion: it succeeds on a tree iff the tree is constructed (class and tag
number NOT checked), its first element is a universal primitive ENUMERATED, the next two are
primitive (any class/number) with valid UTF-8 content, and every later component NUMBERED (class
ignored) 3 is constructed with primitive UTF-8 children, 7 / 11 primitive, 10 primitive UTF-8 (other
numbers: anything).  On every other tree `From<Tag>` panics (`expect("ldap result")`). -/
theorem C03_conversion_domain (t : Tlv) :
    (resultExt t).isSome = true ↔
      ∃ c i v m x rest, t = .cons c i (.prim 0 10 v :: m :: x :: rest) ∧ PrimUtf8 m ∧ PrimUtf8 x ∧ TailOk rest :=
  resultExt_isSome_iff t

/-- `LdapResult::success` / `non_error`, `CompareResult::equal` / `non_error`, for ALL codes. -/
theorem C03_helpers (rc : Nat) :
    ((success rc).isOk = true ↔ rc = 0) ∧
    ((nonError rc).isOk = true ↔ rc = 0 ∨ rc = 10) ∧
    equal rc = (if rc = 5 then .ok false else if rc = 6 then .ok true else .error ()) ∧
    ((cmpNonError rc).isOk = true ↔ rc = 5 ∨ rc = 6 ∨ rc = 10) := by
  refine ⟨?_, ?_, ?_, ?_⟩
  · unfold success; split <;> simp_all [Except.isOk, Except.toBool]
  · unfold nonError; split <;> simp_all [Except.isOk, Except.toBool]
  · unfold equal; split <;> simp_all
  · unfold cmpNonError; split <;> simp_all [Except.isOk, Except.toBool] <;> omega

/-- `SearchResult::{success,non_error}` and `ExopResult::{success,non_error}` (written out separately
in result.rs) decide exactly like the `LdapResult` ones. -/
theorem C03_helpers_wrappers (rc : Nat) :
    ((searchSuccess rc).isOk = true ↔ rc = 0) ∧ ((searchNonError rc).isOk = true ↔ rc = 0 ∨ rc = 10) ∧
    ((exopSuccess rc).isOk = true ↔ rc = 0) ∧ ((exopNonError rc).isOk = true ↔ rc = 0 ∨ rc = 10) := by
  refine ⟨?_, ?_, ?_, ?_⟩
  · unfold searchSuccess; split <;> simp_all [Except.isOk, Except.toBool]
  · unfold searchNonError; split <;> simp_all [Except.isOk, Except.toBool]
  · unfold exopSuccess; split <;> simp_all [Except.isOk, Except.toBool]
  · unfold exopNonError; split <;> simp_all [Except.isOk, Except.toBool]

/-! ### non-vacuity (tests, labelled as such) -/

/-- BindResponse, saslBindInProgress (14), matched DN "é", text "go on", one referral-less,
server SASL credentials `01 02`; resultCode sent with a redundant leading zero octet -/
def exBind : Resp :=
  ⟨1, [0x00, 0x0E], 14, [0xC3, 0xA9], [0x67, 0x6F, 0x20, 0x6F, 0x6E], none, some [1, 2], none, none⟩

/-- two controls: paged results (criticality absent, with value), and an unknown OID "1.2" with an
explicitly encoded FALSE and no value -/
def exCtrls : List WireControl :=
  [⟨oidPagedResults, none, some [0x30, 0x00]⟩, ⟨[0x31, 0x2E, 0x32], some 0, none⟩]

def exBindMsg : WireMsg := ⟨[0x05], 5, respOp exBind, some exCtrls⟩

/-- ExtendedResponse with referral (two URIs), name and value -/
def exExt : Resp :=
  ⟨24, [0x0A], 10, [], [], some [[0x6C, 0x64, 0x61, 0x70, 0x3A, 0x2F, 0x2F, 0x61], [0x6C, 0x64, 0x61, 0x70, 0x3A, 0x2F, 0x2F, 0x62]],
    none, some [0x31, 0x2E, 0x33], some [0xFF, 0x00]⟩

example : WFResp exBind := by
  refine ⟨by decide, by decide, by decide, by decide, by decide, ?_, ?_, ?_, ?_⟩
  · intro us h; cases h
  · intro n h; cases h
  · intro h; exact absurd rfl h
  · intro _; exact ⟨rfl, rfl⟩

example : WFResp exExt := by
  refine ⟨by decide, by decide, by decide, by decide, by decide, ?_, ?_, ?_, ?_⟩
  · intro us h; cases h; decide
  · intro n h; cases h; decide
  · intro _; rfl
  · intro h; exact absurd rfl h

example : exBindMsg.WF := by
  refine ⟨by decide, by decide, rfl, ?_, ?_⟩
  · intro cs h
    cases h
    simp [exCtrls, oidPagedResults, ascii, utf8Valid]
  · simp [exBindMsg, exBind, exCtrls, respOp, WireMsg.tlv, msgTlv, WireControl.tlv, Tlv.depth, Tlv.depthList, maxDepth]

example : resultExt (respOp exBind) = some ⟨14, [0xC3, 0xA9], [0x67, 0x6F, 0x20, 0x6F, 0x6E], [], none, none, some [1, 2]⟩ := by
  decide

example : resultExt (respOp exExt) =
    some ⟨10, [], [], [[0x6C, 0x64, 0x61, 0x70, 0x3A, 0x2F, 0x2F, 0x61], [0x6C, 0x64, 0x61, 0x70, 0x3A, 0x2F, 0x2F, 0x62]],
      some [0x31, 0x2E, 0x33], some [0xFF, 0x00], none⟩ := by
  decide

/-- the writer's (minimal) encoding is one of the encodings quantified over … -/
example : Enc exBindMsg.tlv (encode exBindMsg.tlv) :=
  enc_encode exBindMsg.tlv (by
    simp [exBindMsg, exBind, exCtrls, respOp, WireMsg.tlv, msgTlv, WireControl.tlv, WF, WFList, encodeList,
      encode, encType, encLen, oidPagedResults, ascii])

/-- … and so is one with redundant length octets: a DelResponse (ID 1, success) with the outer
length as `81 0f`, the op length as `82 00 08` and an empty string as `04 81 00` -/
example : Enc (msgTlv [1] (respOp ⟨11, [0], 0, [], [], none, none, none, none⟩) none)
    [0x30, 0x81, 0x0f, 0x02, 0x01, 0x01, 0x6b, 0x82, 0x00, 0x08, 0x0a, 0x01, 0x00, 0x04, 0x00, 0x04, 0x81, 0x00] := by
  have hid : Enc (.prim 0 2 [1]) [0x02, 0x01, 0x01] :=
    ⟨by decide, by decide, [0x01], Or.inl ⟨by decide, by decide⟩, by decide⟩
  have hrc : Enc (.prim 0 10 [0]) [0x0a, 0x01, 0x00] :=
    ⟨by decide, by decide, [0x01], Or.inl ⟨by decide, by decide⟩, by decide⟩
  have hmd : Enc (.prim 0 4 []) [0x04, 0x00] :=
    ⟨by decide, by decide, [0x00], Or.inl ⟨by decide, by decide⟩, by decide⟩
  have htx : Enc (.prim 0 4 []) [0x04, 0x81, 0x00] :=
    ⟨by decide, by decide, [0x81, 0x00], Or.inr ⟨[0x00], by decide, by decide, by decide, by decide⟩, by decide⟩
  have hop : Enc (.cons 1 11 [.prim 0 10 [0], .prim 0 4 [], .prim 0 4 []])
      [0x6b, 0x82, 0x00, 0x08, 0x0a, 0x01, 0x00, 0x04, 0x00, 0x04, 0x81, 0x00] :=
    ⟨by decide, by decide, [0x82, 0x00, 0x08], [0x0a, 0x01, 0x00, 0x04, 0x00, 0x04, 0x81, 0x00],
      ⟨_, _, hrc, ⟨_, _, hmd, ⟨_, _, htx, rfl, rfl⟩, rfl⟩, rfl⟩,
      Or.inr ⟨[0x00, 0x08], by decide, by decide, by decide, by decide⟩, by decide⟩
  exact ⟨by decide, by decide, [0x81, 0x0f],
    [0x02, 0x01, 0x01, 0x6b, 0x82, 0x00, 0x08, 0x0a, 0x01, 0x00, 0x04, 0x00, 0x04, 0x81, 0x00],
    ⟨_, _, hid, ⟨_, _, hop, rfl, rfl⟩, rfl⟩,
    Or.inr ⟨[0x0f], by decide, by decide, by decide, by decide⟩, by decide⟩

/-- the model on those octets (followed by the first byte of the next message) -/
example : decodeInner [0x30, 0x81, 0x0f, 0x02, 0x01, 0x01, 0x6b, 0x82, 0x00, 0x08, 0x0a, 0x01, 0x00, 0x04, 0x00, 0x04, 0x81, 0x00, 0x30] =
    .frame 1 (respOp ⟨11, [0], 0, [], [], none, none, none, none⟩) [] 18 := by
  rfl

/-- what the caller gets for the bind example: both controls, criticality false for the absent and
for the explicit FALSE, value `none` for the absent one -/
example : opCallResult (respOp exBind) (ctrlsMeaning exBindMsg.ctrls) =
    some (⟨14, [0xC3, 0xA9], [0x67, 0x6F, 0x20, 0x6F, 0x6E], [],
      [⟨some .pagedResults, ⟨oidPagedResults, false, some [0x30, 0x00]⟩⟩, ⟨none, ⟨[0x31, 0x2E, 0x32], false, none⟩⟩]⟩,
      (none, none), some [1, 2]) := by
  simp [opCallResult, exBind, exBindMsg, exCtrls, respOp, resultExt, resTail, utf8Prim, utf8Valid, inRange, isCont,
    rcOfOctets, parseUint, ctrlsMeaning, WireControl.meaning, knownType, controlsTable, oidPagedResults, oidPostRead,
    oidPreRead, oidSyncDone, oidSyncState, oidManageDsaIt, oidMatchedValues, ascii]

/-- resultCode `FF` (-1) is read as 255, `01 00 00 00 05` (2^32 + 5) as 5 -/
example : rcOfOctets [0xFF] = 255 ∧ twos [0xFF] = -1 ∧ rcOfOctets [1, 0, 0, 0, 5] = 5 := by decide

/-- outside the domain: op primitive; too few elements; resultCode as INTEGER; constructed matched
DN; non-UTF-8 diagnostic text; primitive `[3]`; constructed `[10]`; non-UTF-8 URI -/
example : resultExt (.prim 1 7 []) = none ∧
    resultExt (.cons 1 7 [.prim 0 10 [0], .prim 0 4 []]) = none ∧
    resultExt (.cons 1 7 [.prim 0 2 [0], .prim 0 4 [], .prim 0 4 []]) = none ∧
    resultExt (.cons 1 7 [.prim 0 10 [0], .cons 0 4 [], .prim 0 4 []]) = none ∧
    resultExt (.cons 1 7 [.prim 0 10 [0], .prim 0 4 [], .prim 0 4 [0xFF]]) = none ∧
    resultExt (.cons 1 7 [.prim 0 10 [0], .prim 0 4 [], .prim 0 4 [], .prim 2 3 []]) = none ∧
    resultExt (.cons 1 24 [.prim 0 10 [0], .prim 0 4 [], .prim 0 4 [], .cons 2 10 []]) = none ∧
    resultExt (.cons 1 7 [.prim 0 10 [0], .prim 0 4 [], .prim 0 4 [], .cons 2 3 [.prim 0 4 [0xC0]]]) = none := by
  decide

/-- class is ignored in the component loop, unknown numbers are skipped, the last `[11]` wins,
several `[3]` accumulate (none of this is reachable with an RFC-shaped response) -/
example : resultExt (.cons 0 16 [.prim 0 10 [0], .prim 0 4 [], .prim 0 4 [], .cons 0 3 [.prim 0 4 [0x61]],
      .prim 2 5 [9], .prim 1 11 [1], .cons 2 3 [.prim 0 4 [0x62]], .prim 2 11 [2]]) =
    some ⟨0, [], [], [[0x61], [0x62]], none, some [2], none⟩ := by
  decide

example : (success 0).isOk = true ∧ (success 10).isOk = false ∧ (nonError 10).isOk = true ∧
    equal 5 = .ok false ∧ equal 6 = .ok true ∧ equal 0 = .error () ∧ (cmpNonError 0).isOk = false ∧
    (cmpNonError 10).isOk = true ∧ (success 4294967296).isOk = false :=
  ⟨rfl, rfl, rfl, rfl, rfl, rfl, rfl, rfl, rfl⟩

/-! ### tie by regeneration (translate/pure_fns.py): the eight helper methods of the *current*
src/result.rs, as functions of the result code, are the model's. -/

/-- `LdapResult::{success,non_error}`, `SearchResult::…`, `ExopResult::…`, `CompareResult::{equal,non_error}`
as written in src/result.rs today give, for EVERY result code, the verdict of the model functions that
`C03_helpers` / `C03_helpers_wrappers` characterise (`resU`/`resB` only rename `Ok`/`Err`). -/
theorem C03_helpers_source (rc : Nat) :
    Gen.ldapResult_success rc = some (resU (success rc)) ∧
    Gen.ldapResult_non_error rc = some (resU (nonError rc)) ∧
    Gen.searchResult_success rc = some (resU (searchSuccess rc)) ∧
    Gen.searchResult_non_error rc = some (resU (searchNonError rc)) ∧
    Gen.exopResult_success rc = some (resU (exopSuccess rc)) ∧
    Gen.exopResult_non_error rc = some (resU (exopNonError rc)) ∧
    Gen.compareResult_equal rc = some (resB (equal rc)) ∧
    Gen.compareResult_non_error rc = some (resU (cmpNonError rc)) :=
  ⟨gen_ldapResult_success rc, gen_ldapResult_non_error rc, gen_searchResult_success rc,
   gen_searchResult_non_error rc, gen_exopResult_success rc, gen_exopResult_non_error rc,
   gen_compareResult_equal rc, gen_compareResult_non_error rc⟩

example : Gen.exopResult_non_error 10 = some (.ok none) ∧ Gen.exopResult_non_error 11 = some .err ∧
    Gen.compareResult_equal 6 = some (.ok (some true)) := by decide


/-! ### tie by regeneration (translate/res_roles.py): the optional components of a result -/

/-- the dispatch of the model's component loop (`resTail`) on the tag NUMBER of a component -/
def compRoleOf (id : Nat) : Gen.CompRole :=
  if id = 3 then .referral else if id = 7 then .saslCreds else if id = 10 then .exopName
  else if id = 11 then .exopVal else .skipped

/-- The `match comp.id { … }` of `LdapResultExt::try_from_tag` as written in src/result.rs today — which tag number
fills the referral list, the SASL credentials, the extended response's name and value, and that everything else
is skipped — is the dispatch of the model's `resTail`, for EVERY tag number … -/
theorem C03_component_roles_source (id : Nat) : Gen.result_component_role id = compRoleOf id := by
  unfold Gen.result_component_role compRoleOf
  by_cases h3 : id = 3
  · subst h3; rfl
  · by_cases h7 : id = 7
    · subst h7; rfl
    · by_cases h10 : id = 10
      · subst h10; rfl
      · by_cases h11 : id = 11
        · subst h11; rfl
        · simp [h3, h7, h10, h11]

/-- … and `resTail` acts on a component by that role alone (the class is not looked at): one step of the loop,
role by role. -/
theorem C03_resTail_by_role (comp : Tlv) (rest : List Tlv) (a : ResAcc) :
    resTail (comp :: rest) a =
      match compRoleOf comp.id with
      | .referral => (comp.expectCons.bind refUris).bind fun us => resTail rest { a with refs := a.refs ++ us }
      | .saslCreds => comp.expectPrim.bind fun v => resTail rest { a with sasl := some v }
      | .exopName => (utf8Prim comp).bind fun n => resTail rest { a with exopName := some n }
      | .exopVal => comp.expectPrim.bind fun v => resTail rest { a with exopVal := some v }
      | .skipped => resTail rest a := by
  unfold compRoleOf
  by_cases h3 : comp.id = 3
  · simp only [resTail, h3, beq_self_eq_true, if_true]
    cases comp.expectCons with
    | none => rfl
    | some uris => cases h : refUris uris <;> simp [h]
  · by_cases h7 : comp.id = 7
    · simp only [resTail, h7, if_true]
      cases comp.expectPrim <;> rfl
    · by_cases h10 : comp.id = 10
      · simp only [resTail, h10, if_true]
        cases utf8Prim comp <;> rfl
      · by_cases h11 : comp.id = 11
        · simp only [resTail, h11, if_true]
          cases comp.expectPrim <;> rfl
        · have e3 : (comp.id == 3) = false := by simpa using h3
          have e7 : (comp.id == 7) = false := by simpa using h7
          have e10 : (comp.id == 10) = false := by simpa using h10
          have e11 : (comp.id == 11) = false := by simpa using h11
          simp [resTail, h3, h7, h10, h11, e3, e7, e10, e11]

example : Gen.result_component_role 3 = .referral ∧ Gen.result_component_role 10 = .exopName ∧
    Gen.result_component_role 4 = .skipped ∧ Gen.result_component_role 0 = .skipped := by decide

end Ldap3V

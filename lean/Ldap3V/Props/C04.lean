/-
C04 — every operation terminates; losing the connection fails all pending work.
Model: Model/Conn.lean.  Proved here: the logical half — whenever the driver ends (server closes or
resets, undecodable frame, failed write, last handle dropped; at ANY point of ANY history) nothing
is left that anybody could still be waiting for, responses already delivered are kept, later
operations fail at once.  Partial, named: that tokio wakes a task whose oneshot sender / channel
sender was dropped, and that an enabled `select!` arm is eventually taken, is trusted and exercised
by lane `faults` under a virtual-time watchdog (every byte offset of both streams), not proved.

Whole histories (invariant `Pend`, Lemmas/ConnPend.lean, preserved by every event):
`C04_waiting_is_registered` — in EVERY reachable state a call whose request the driver has taken and
whose reply slot is still empty is registered in the result map (somebody will fill the slot or drop
its sender); `C04_dead_connection_nobody_waits` — in EVERY reachable state in which the driver has
ended, for whatever reason and at whatever point, every call that got as far as queueing its request
resolves at its next poll (with the response if one had been delivered, with an error otherwise),
and every started search stream's `next()` returns a queued item or `EndOfStream`, never "pending".
Hypothesis `FreshRun2` (finding F13), discharged for histories with at most 2^31-1 allocations.
After Unbind (`self.stream.close()`: the sink is closed, no later write can succeed):
`C04_after_unbind_no_request_is_sent` — a request the driver takes from the queue then is either discarded (its ID
is no longer reserved) or its write fails and the driver ends; `C04_after_unbind_wire_frozen` — from the moment the
sink is closed it stays closed and nothing more is ever written, `C04_sink_closed_only_by_unbind` — and it is only
ever closed by an Unbind that was written; `C04_after_unbind_next_request_ends_connection` — the first non-discarded
request after Unbind ends the connection, and then nobody is left waiting.
-/
import Ldap3V.Lemmas.ConnPend
import Ldap3V.Lemmas.ConnUnbind
import Ldap3V.Lemmas.ConnDrain
namespace Ldap3V.Conn

/-- Whatever the state, when the driver ends: the queue and both routing maps are dropped; every
operation the driver held a reply sender for finds its mailbox non-empty (the response delivered
earlier, or the "sender dropped" mark that makes its future return an error); mailboxes already
filled are untouched (delivered responses survive, nothing is fabricated); no search channel has a
sender left, so every stream's `next()` ends with the items already queued followed by
`EndOfStream`. -/
theorem C04_end_releases (s : St) (how : Drv) :
    (endDriver s how).drv = how ∧ (endDriver s how).opQ = [] ∧ (endDriver s how).resultmap = [] ∧
    (endDriver s how).searchmap = [] ∧
    (∀ (j : Nat) (o : Op), (endDriver s how).ops[j]? = some o →
      (j ∈ s.opQ ∨ j ∈ s.resultmap.map (·.2)) → o.mail ≠ .empty) ∧
    (∀ (j : Nat) (o : Op), (endDriver s how).ops[j]? = some o →
      ∃ o0 : Op, s.ops[j]? = some o0 ∧ (o0.mail ≠ .empty → o.mail = o0.mail)) ∧
    (∀ c, chanOpen (endDriver s how) c = false) :=
  endDriver_spec s how

/-- every fault kind ends the driver: EOF and undecodable bytes once the frames before them are
consumed, a failed write, the last handle going away -/
theorem C04_faults_end_driver (s : St) (hr : s.drv = .running) :
    (s.srvLog[s.pos]? = none → s.link = .eof → step s .drvResp = some (endDriver s .endedOk, .none)) ∧
    (s.srvLog[s.pos]? = none → s.link = .garbage → step s .drvResp = some (endDriver s .endedErr, .none)) ∧
    (∀ s' ob, step s (.drvOp false) = some (s', ob) → ob = .skipped ∨ s'.drv = .endedErr) ∧
    (s.opQ = [] → s.handles = false → step s .drvOpClosed = some (endDriver s .endedOk, .none)) ∧
    (s.handles = false → step s .drvMiscClosed = some (endDriver s .endedOk, .none)) := by
  refine ⟨?_, ?_, ?_, ?_, ?_⟩
  · intro h1 h2; simp [step, hr, h1, h2]
  · intro h1 h2; simp [step, hr, h1, h2]
  · intro s' ob h
    simp only [step, hr] at h
    split at h
    · cases h
    · cases hq : s.opQ with
      | nil => rw [hq] at h; cases h
      | cons i rest =>
        rw [hq] at h
        simp only at h
        cases ho : s.ops[i]? with
        | none => rw [ho] at h; cases h
        | some o =>
          rw [ho] at h
          simp only at h
          split at h
          · simp only [Option.some.injEq, Prod.mk.injEq] at h; exact Or.inl h.2.symm
          · simp only [Bool.not_false, if_true, Option.some.injEq, Prod.mk.injEq] at h
            right; rw [← h.1]; rfl
  · intro h1 h2; simp [step, hr, h1, h2]
  · intro h2; simp [step, hr, h2]

/-- once the driver has ended, a later operation fails immediately with a send error, nothing
is queued and its message ID is released again (fix F22) -/
theorem C04_later_ops_fail (s : St) (i : Nat) (o : Op) (tmo : Option Nat) (hd : s.drv ≠ .running)
    (ho : s.ops[i]? = some o) (hp : o.phase = .allocated) :
    step s (.enqueue i tmo) =
      some ({ s with ops := s.ops.set i { o with res := some .opSendErr, phase := .taken, mail := .dropped }
                     inUse := eraseId s.inUse o.id },
            .sendErr) := by
  simp [step, ho, hp, hd]

/-- an operation whose mailbox is not empty resolves at its next poll: with the value if one was
delivered (even after a deadline; a decoding error if what was delivered is not an LDAPResult, F27), with an
error if the sender was dropped — never pending, never a panic -/
theorem C04_nonempty_mailbox_resolves (s : St) (i : Nat) (o : Op) (ho : s.ops[i]? = some o)
    (hres : o.res = none) (hph : o.phase ≠ .allocated) (hm : o.mail ≠ .empty) :
    ∃ r s', step s (.poll i) = some (s', .res (some r)) ∧ s'.ops = s.ops.set i { o with res := some r } ∧
      (∀ f, o.mail = .frame f → r = if f.good then .frame f else .decodeErr) ∧ (o.mail = .ack → r = .ack) ∧
      (o.mail = .dropped → r = .recvErr) := by
  cases hmail : o.mail with
  | empty => exact absurd hmail hm
  | ack =>
    refine ⟨.ack, ({ s with ops := s.ops.set i { o with res := some .ack } } : St), ?_, by simp [hmail], by simp, by simp, by simp⟩
    simp [step, ho, hres, hph, hmail]
  | frame f =>
    refine ⟨if f.good then .frame f else .decodeErr,
      ({ s with ops := s.ops.set i { o with res := some (if f.good then .frame f else .decodeErr) } } : St), ?_, by simp [hmail],
      by simp, by simp, by simp⟩
    simp [step, ho, hres, hph, hmail]
  | dropped =>
    refine ⟨.recvErr, ({ s with
        ops := s.ops.set i { o with res := some .recvErr }
        chans := dropRxOf s.chans o.chan } : St), ?_, by simp [hmail], by simp, by simp, by simp⟩
    simp [step, ho, hres, hph, hmail]

/-- a stream whose channel has no sender left gets its queued items and then `EndOfStream` -/
theorem C04_closed_channel_ends (s : St) (c : Nat) (ch : Chan) (dl : Option Nat) (hc : s.chans[c]? = some ch)
    (hack : (s.ops[ch.opIdx]?.bind (·.res)) = some .ack)      -- the stream exists: `start()` returned Ok
    (ha : ch.rxAlive = true) (hclosed : chanOpen s c = false) :
    (∀ it, ch.items[ch.taken]? = some it →
      step s (.recv c dl) = some ({ s with chans := s.chans.set c { ch with taken := ch.taken + 1 } }, .item (some it))) ∧
    (ch.items[ch.taken]? = none → step s (.recv c dl) = some (s, .closed)) := by
  constructor
  · intro it hit; simp [step, hc, ha, hit, hack]
  · intro hn; simp [step, hc, ha, hn, hclosed, hack]

/-- Unbind: the request is written, then the write side is shut down and the sink closed.  (`hsk`: a write can
only succeed while the sink is open, i.e. no earlier Unbind has been written; see `C04_after_unbind_no_request_is_sent`
for what happens to a request taken after that.) -/
theorem C04_unbind_closes (s : St) (i : Nat) (rest : List Nat) (o : Op) (hr : s.drv = .running)
    (hq : s.opQ = i :: rest) (ho : s.ops[i]? = some o) (hk : o.kind = .unbind) (hin : s.inUse.contains o.id = true)
    (hsk : s.sinkClosed = false) :
    ∃ s', step s (.drvOp true) = some (s', .none) ∧ s'.sinkClosed = true ∧ s'.wire = s.wire ++ [(o.id, .unbind)] := by
  simp only [step, hr, hq, ho, hk, hin, hsk]
  simp

/-! ### non-vacuity (tests): two pending operations and a search, then the server disappears -/
example :
    let s := run (init 100) [.alloc .single, .enqueue 0 none, .alloc .search, .enqueue 1 none, .alloc .single,
      .enqueue 2 none, .drvOp true, .drvOp true, .srvSend ⟨1, 11, 7, true⟩, .drvResp, .srvClose, .drvResp]
    s.drv = .endedOk ∧ s.ops.map (·.mail) = [.frame ⟨1, 11, 7, true⟩, .ack, .dropped] ∧ chanOpen s 0 = false := by
  decide

/-- The driver task owns the transport (`self.stream` of `LdapConnAsync`): the peer sees it closed when
an Unbind shut it down, or when the driver has ended and dropped it. -/
def transportClosed (s : St) : Prop := s.sinkClosed = true ∨ s.drv ≠ .running

/-- dropping the last handle closes the transport: once every handle is gone the driver leaves its
loop — at once through the misc channel, or through the request channel when its queue is empty —
and with it the transport goes -/
theorem C04_drop_closes_transport (s : St) (hr : s.drv = .running) (hh : s.handles = false) :
    (∃ s', step s .drvMiscClosed = some (s', .none) ∧ transportClosed s') ∧
    (s.opQ = [] → ∃ s', step s .drvOpClosed = some (s', .none) ∧ transportClosed s') := by
  refine ⟨⟨endDriver s .endedOk, by simp [step, hr, hh], Or.inr (by simp [endDriver])⟩, fun hq => ?_⟩
  exact ⟨endDriver s .endedOk, by simp [step, hr, hh, hq], Or.inr (by simp [endDriver])⟩

/-- **whole histories**: a caller waiting with an empty reply slot is known to the driver -/
theorem C04_waiting_is_registered (N : Nat) (evs : List Ev) (hf : FreshRun2 (init N) evs) (i : Nat) (o : Op)
    (ho : (run (init N) evs).ops[i]? = some o) (hp : o.phase = .taken) (hm : o.mail = .empty) :
    (o.id, i) ∈ (run (init N) evs).resultmap :=
  (reach N evs hf).1 i o ho hp hm

/-- **whole histories**: once the driver has ended nobody is left waiting.  (1) every call that
queued its request and has not returned yet resolves at its next poll — with the response if it had
been delivered (even after a deadline), with an error if not, never with anything else;
(2) `next()` on a started search stream returns an item that was queued before, or `EndOfStream`. -/
theorem C04_dead_connection_nobody_waits (N : Nat) (evs : List Ev) (hf : FreshRun2 (init N) evs)
    (hd : (run (init N) evs).drv ≠ .running) :
    (∀ (i : Nat) (o : Op), (run (init N) evs).ops[i]? = some o → o.phase ≠ .allocated → o.res = none →
      ∃ r s', step (run (init N) evs) (.poll i) = some (s', .res (some r)) ∧
        (∀ f, o.mail = .frame f → r = if f.good then .frame f else .decodeErr) ∧ (o.mail = .ack → r = .ack) ∧
        (o.mail = .dropped → r = .recvErr)) ∧
    (∀ (c : Nat) (ch : Chan) (dl : Option Nat), (run (init N) evs).chans[c]? = some ch →
      ((run (init N) evs).ops[ch.opIdx]?.bind (·.res)) = some .ack → ch.rxAlive = true →
      (∃ it, ch.items[ch.taken]? = some it ∧ ∃ s', step (run (init N) evs) (.recv c dl) = some (s', .item (some it))) ∨
      (ch.items[ch.taken]? = none ∧ step (run (init N) evs) (.recv c dl) = some (run (init N) evs, .closed))) := by
  obtain ⟨hp, _, ha, _⟩ := reach N evs hf
  obtain ⟨d1, d2, d3⟩ := ha.dead hd
  refine ⟨?_, ?_⟩
  · intro i o ho hph hres
    have htaken : o.phase = .taken := by
      cases hq : o.phase with
      | allocated => exact absurd hq hph
      | queued => have := ha.phaseQ i o ho hq; rw [d3] at this; cases this
      | taken => rfl
    have hmail : o.mail ≠ .empty := by
      intro hm
      have := hp i o ho htaken hm
      rw [d1] at this; cases this
    obtain ⟨r, s', h1, _, h2, h3, h4⟩ := C04_nonempty_mailbox_resolves _ i o ho hres hph hmail
    exact ⟨r, s', h1, h2, h3, h4⟩
  · intro c ch dl hc hack hrx
    have hopen : chanOpen (run (init N) evs) c = false := by
      simp [chanOpen, d2, d3]
    cases hi : ch.items[ch.taken]? with
    | some it =>
      left
      refine ⟨it, rfl, { run (init N) evs with chans := (run (init N) evs).chans.set c { ch with taken := ch.taken + 1 } }, ?_⟩
      simp only [step, hc, hack, hrx, hi]
      simp
    | none =>
      right
      refine ⟨rfl, ?_⟩
      simp only [step, hc, hack, hrx, hi, hopen]
      simp

/-- the same — value clauses and stream clause included — for every history with at most `N` (= 2^31-1)
allocations, with no schedule hypothesis -/
theorem C04_dead_connection_nobody_waits_nowrap (N : Nat) (evs : List Ev) (hcount : allocCount evs ≤ N)
    (hd : (run (init N) evs).drv ≠ .running) :
    (∀ (i : Nat) (o : Op), (run (init N) evs).ops[i]? = some o → o.phase ≠ .allocated → o.res = none →
      ∃ r s', step (run (init N) evs) (.poll i) = some (s', .res (some r)) ∧
        (∀ f, o.mail = .frame f → r = if f.good then .frame f else .decodeErr) ∧ (o.mail = .ack → r = .ack) ∧
        (o.mail = .dropped → r = .recvErr)) ∧
    (∀ (c : Nat) (ch : Chan) (dl : Option Nat), (run (init N) evs).chans[c]? = some ch →
      ((run (init N) evs).ops[ch.opIdx]?.bind (·.res)) = some .ack → ch.rxAlive = true →
      (∃ it, ch.items[ch.taken]? = some it ∧ ∃ s', step (run (init N) evs) (.recv c dl) = some (s', .item (some it))) ∨
      (ch.items[ch.taken]? = none ∧ step (run (init N) evs) (.recv c dl) = some (run (init N) evs, .closed))) :=
  C04_dead_connection_nobody_waits N evs (freshRun2_init N evs hcount) hd

/-- F27 (repaired): a frame that is not an LDAPResult, delivered under the ID of a single-result operation, makes
that operation return a decoding error at its next poll; nothing else in the state changes — the driver keeps
running, both routing maps, the ID table and every other operation are as they were (the connection keeps
serving the others), and the caller's task does not panic. -/
theorem C04_non_result_frame_is_an_error (s : St) (i : Nat) (o : Op) (f : Frame) (ho : s.ops[i]? = some o)
    (hres : o.res = none) (hph : o.phase ≠ .allocated) (hm : o.mail = .frame f) (hbad : f.good = false) :
    step s (.poll i) = some ({ s with ops := s.ops.set i { o with res := some .decodeErr } }, .res (some .decodeErr)) := by
  simp [step, ho, hres, hph, hm, hbad]

/-! ### non-vacuity (tests): a connection that dies with one call answered, one waiting, one search open -/
example :
    let evs : List Ev := [.alloc .single, .enqueue 0 none, .alloc .single, .enqueue 1 none, .alloc .search, .enqueue 2 none,
      .drvOp true, .drvOp true, .drvOp true, .srvSend ⟨1, 11, 7, true⟩, .drvResp, .poll 2, .srvClose, .drvResp]
    let s := run (init 100) evs
    s.drv ≠ .running ∧ allocCount evs ≤ 100 ∧ s.ops.map (·.mail) = [.frame ⟨1, 11, 7, true⟩, .dropped, .ack] ∧
    s.ops.map (·.res) = [none, none, some .ack] := by
  decide

/-! ### after Unbind -/

/-- After Unbind nothing more is sent.  In ANY state whose sink is closed, whatever the driver does with the next
request it takes from the queue (`drvOp b`, either outcome `b` of the write): the request is discarded because its ID
is no longer reserved (`skipped`), or the write failed (`b = false`: a successful write, `b = true`, is not an enabled
step) and the driver has ended with an error; in both cases the wire is as it was. -/
theorem C04_after_unbind_no_request_is_sent (s s' : St) (b : Bool) (ob : Obs) (hsk : s.sinkClosed = true)
    (hs : step s (.drvOp b) = some (s', ob)) :
    (ob = .skipped ∨ (b = false ∧ s'.drv = .endedErr)) ∧ s'.wire = s.wire :=
  drvOp_closed hsk hs

/-- **whole histories**: once the sink is closed it stays closed and the wire never grows — whatever events follow -/
theorem C04_after_unbind_wire_frozen (N : Nat) (evs pre post : List Ev) (he : evs = pre ++ post)
    (hsk : (run (init N) pre).sinkClosed = true) :
    (run (init N) evs).wire = (run (init N) pre).wire ∧ (run (init N) evs).sinkClosed = true := by
  subst he
  have e : run (init N) (pre ++ post) = run (run (init N) pre) post := by simp [run, List.foldl_append]
  rw [e]
  exact ⟨(run_closed post _ hsk).2, (run_closed post _ hsk).1⟩

/-- **whole histories**: the sink is only ever closed by an Unbind that was written — in every reachable state with a
closed sink the LAST request on the wire is an Unbind (with `C04_after_unbind_wire_frozen`: nothing follows it) -/
theorem C04_sink_closed_only_by_unbind (N : Nat) (evs : List Ev) (hsk : (run (init N) evs).sinkClosed = true) :
    ∃ w id, (run (init N) evs).wire = w ++ [(id, Kind.unbind)] :=
  closed_by_unbind evs (init N) (fun h => by simp [init] at h) hsk

/-- **whole histories**, composed with `C04_dead_connection_nobody_waits`: after an Unbind has been written, as soon
as the driver takes one more request that it does not discard (`ob ≠ .skipped`), the write can only have failed
(`b = false`), the connection is dead (`endedErr`), nothing was written, and in the resulting state — the state after
the history `evs ++ [.drvOp false]` — nobody is left waiting: every call that queued its request resolves at its next
poll, every started search stream's `next()` returns a queued item or `EndOfStream`. -/
theorem C04_after_unbind_next_request_ends_connection (N : Nat) (evs : List Ev)
    (hf : FreshRun2 (init N) (evs ++ [.drvOp false])) (hsk : (run (init N) evs).sinkClosed = true)
    (b : Bool) (s' : St) (ob : Obs) (hs : step (run (init N) evs) (.drvOp b) = some (s', ob)) (hns : ob ≠ .skipped) :
    let s1 := run (init N) (evs ++ [.drvOp false])
    b = false ∧ s' = s1 ∧ s1.drv = .endedErr ∧ s1.wire = (run (init N) evs).wire ∧ s1.sinkClosed = true ∧
    (∀ (i : Nat) (o : Op), s1.ops[i]? = some o → o.phase ≠ .allocated → o.res = none →
      ∃ r s2, step s1 (.poll i) = some (s2, .res (some r)) ∧
        (∀ f, o.mail = .frame f → r = if f.good then .frame f else .decodeErr) ∧ (o.mail = .ack → r = .ack) ∧
        (o.mail = .dropped → r = .recvErr)) ∧
    (∀ (c : Nat) (ch : Chan) (dl : Option Nat), s1.chans[c]? = some ch →
      (s1.ops[ch.opIdx]?.bind (·.res)) = some .ack → ch.rxAlive = true →
      (∃ it, ch.items[ch.taken]? = some it ∧ ∃ s2, step s1 (.recv c dl) = some (s2, .item (some it))) ∨
      (ch.items[ch.taken]? = none ∧ step s1 (.recv c dl) = some (s1, .closed))) := by
  intro s1
  obtain ⟨hcase, hw⟩ := drvOp_closed hsk hs
  obtain ⟨hb, hdrv⟩ : b = false ∧ s'.drv = .endedErr := by
    rcases hcase with h | h
    · exact absurd h hns
    · exact h
  subst hb
  have e1 : s1 = s' := by
    show run (init N) (evs ++ [.drvOp false]) = s'
    have e : run (init N) (evs ++ [.drvOp false]) = run (run (init N) evs) [.drvOp false] := by
      simp [run, List.foldl_append]
    rw [e]
    generalize run (init N) evs = s0 at hs
    simp [run, hs]
  have hd : s1.drv ≠ .running := by rw [e1, hdrv]; exact fun h => by cases h
  refine ⟨rfl, e1.symm, by rw [e1]; exact hdrv, by rw [e1]; exact hw, by rw [e1]; exact (step_closed _ hsk hs).1, ?_⟩
  exact C04_dead_connection_nobody_waits N (evs ++ [.drvOp false]) hf hd

/-- the same for every history with at most `N` (= 2^31-1) allocations, with no schedule hypothesis -/
theorem C04_after_unbind_next_request_ends_connection_nowrap (N : Nat) (evs : List Ev) (hcount : allocCount evs ≤ N)
    (hsk : (run (init N) evs).sinkClosed = true)
    (b : Bool) (s' : St) (ob : Obs) (hs : step (run (init N) evs) (.drvOp b) = some (s', ob)) (hns : ob ≠ .skipped) :
    let s1 := run (init N) (evs ++ [.drvOp false])
    b = false ∧ s' = s1 ∧ s1.drv = .endedErr ∧ s1.wire = (run (init N) evs).wire ∧ s1.sinkClosed = true ∧
    (∀ (i : Nat) (o : Op), s1.ops[i]? = some o → o.phase ≠ .allocated → o.res = none →
      ∃ r s2, step s1 (.poll i) = some (s2, .res (some r)) ∧
        (∀ f, o.mail = .frame f → r = if f.good then .frame f else .decodeErr) ∧ (o.mail = .ack → r = .ack) ∧
        (o.mail = .dropped → r = .recvErr)) ∧
    (∀ (c : Nat) (ch : Chan) (dl : Option Nat), s1.chans[c]? = some ch →
      (s1.ops[ch.opIdx]?.bind (·.res)) = some .ack → ch.rxAlive = true →
      (∃ it, ch.items[ch.taken]? = some it ∧ ∃ s2, step s1 (.recv c dl) = some (s2, .item (some it))) ∨
      (ch.items[ch.taken]? = none ∧ step s1 (.recv c dl) = some (s1, .closed))) :=
  C04_after_unbind_next_request_ends_connection N evs
    (freshRun2_init N _ (by simpa [allocCount, List.countP_append, isAlloc] using hcount)) hsk b s' ob hs hns

/-! ### non-vacuity (tests): a bind-like operation is answered, an Unbind is written, then one more operation is
issued and the driver takes its request — the write fails (`drvOp false`), the connection ends -/
def exUnbind : List Ev :=
  [.alloc .single, .enqueue 0 none, .drvOp true, .srvSend ⟨1, 1, 7, true⟩, .drvResp, .poll 0,
   .alloc .unbind, .enqueue 1 none, .drvOp true, .poll 1, .alloc .single, .enqueue 2 none]

/-- hypotheses of `C04_after_unbind_no_request_is_sent` at `s = run (init 100) exUnbind`: the sink is closed, the
request of operation 2 waits at the head of the queue; `drvOp false` is enabled, is not a skip, ends the driver and
leaves the wire (the bind-like request and the Unbind) alone; `drvOp true` is not enabled -/
example :
    let s := run (init 100) exUnbind
    s.sinkClosed = true ∧ s.drv = .running ∧ s.opQ = [2] ∧ s.wire = [(1, .single), (2, .unbind)] ∧
    s.ops.map (·.res) = [some (.frame ⟨1, 1, 7, true⟩), some .ack, none] ∧
    (step s (.drvOp false)).map (fun r => (r.2, r.1.drv, r.1.wire)) = some (.none, .endedErr, [(1, .single), (2, .unbind)]) ∧
    (step s (.drvOp true)).isNone = true := by
  decide

/-- … and the other case of `C04_after_unbind_no_request_is_sent`: the operation issued after the Unbind times out
in the queue and its scrub overtakes it; the driver then discards the request (`skipped`; here even `drvOp true` is
enabled, nothing being written) and keeps running -/
example :
    let s := run (init 100) (exUnbind.take 10 ++ [.alloc .single, .enqueue 2 (some 0), .poll 2, .drvScrub])
    s.sinkClosed = true ∧ s.opQ = [2] ∧
    (step s (.drvOp true)).map (fun r => (r.2, r.1.drv, r.1.wire)) = some (.skipped, .running, [(1, .single), (2, .unbind)]) := by
  decide

/-- `C04_after_unbind_wire_frozen` / `C04_sink_closed_only_by_unbind` with `pre` = the history up to the write of
the Unbind, `post` = the rest of `exUnbind` followed by the failed write and the caller's poll -/
example :
    let pre := exUnbind.take 9
    let post := exUnbind.drop 9 ++ [.drvOp false, .poll 2]
    (run (init 100) pre).sinkClosed = true ∧ (run (init 100) pre).wire = [(1, .single), (2, .unbind)] ∧
    (run (init 100) (pre ++ post)).wire = [(1, .single), (2, .unbind)] ∧
    (run (init 100) (pre ++ post)).ops.map (·.res) = [some (.frame ⟨1, 1, 7, true⟩), some .ack, some .recvErr] ∧
    (run (init 100) (exUnbind.take 8)).sinkClosed = false := by
  decide

/-- `C04_after_unbind_next_request_ends_connection_nowrap` at `evs = exUnbind`, `b = false`: the hypotheses hold, and
in `run (init 100) (exUnbind ++ [.drvOp false])` the caller of operation 2 finds its reply sender dropped: its next
poll returns `recvErr` -/
example :
    let s1 := run (init 100) (exUnbind ++ [.drvOp false])
    allocCount exUnbind ≤ 100 ∧ (run (init 100) exUnbind).sinkClosed = true ∧
    (step (run (init 100) exUnbind) (.drvOp false)).map (·.2) = some .none ∧
    s1.drv = .endedErr ∧ s1.ops.map (fun o => (o.phase, o.mail, o.res)) =
      [(.taken, .frame ⟨1, 1, 7, true⟩, some (.frame ⟨1, 1, 7, true⟩)), (.taken, .ack, some .ack), (.taken, .dropped, none)] ∧
    (step s1 (.poll 2)).map (·.2) = some (.res (some .recvErr)) := by
  decide

/-! ### the driver never waits for a consumer

The response arm of `turn` delivers with `send` on an unbounded item channel / a oneshot: it cannot block.
So unread search entries, unpolled futures and callers that are gone stall nothing: the one task that reads
the socket keeps reading, and therefore sees every answer and the loss of the connection.  (Seeded change
C04d made the item channel bounded and awaited the send: with 257 unread entries the driver stood still;
lane `faults`: `unread-search-items-do-not-stall-the-connection`.) -/

/-- With the driver running and a frame in the input, the response step is ENABLED — whatever the search
channels and reply slots hold: no hypothesis on `chans` or `ops` — and it consumes exactly that frame (the
connection may end with an error on it: a frame undecodable for a search). -/
theorem C04_driver_never_waits_for_consumers (s : St) (f : Frame) (hr : s.drv = .running)
    (hf : s.srvLog[s.pos]? = some f) :
    ∃ s', step s .drvResp = some (s', .none) ∧ s'.srvLog = s.srvLog ∧ s'.pos = s.pos + 1 ∧
      (s'.drv = .running ∨ s'.drv = .endedErr) :=
  drvResp_frame s f hr hf

/-- … hence `n` response steps from ANY state consume `n` frames (as far as there are that many) unless the
connection ended on the way; and once everything has been consumed, the end of the input ends the driver —
the loss of the connection is always seen. -/
theorem C04_driver_drains_input (s : St) (n : Nat) (hle : s.pos + n ≤ s.srvLog.length) :
    (run s (List.replicate n .drvResp)).srvLog = s.srvLog ∧
    ((run s (List.replicate n .drvResp)).drv = .running →
      (run s (List.replicate n .drvResp)).pos = s.pos + n ∧
      (s.pos + n = s.srvLog.length → s.link ≠ .up → (run s (List.replicate n .drvResp)).link = s.link →
        ∃ s', step (run s (List.replicate n .drvResp)) .drvResp = some (s', .none) ∧ s'.drv ≠ .running)) := by
  obtain ⟨h1, h2⟩ := run_drvResp n s hle
  refine ⟨h1, fun hr => ?_⟩
  obtain ⟨_, hp⟩ := h2 hr
  refine ⟨hp, fun hall hl hlk => ?_⟩
  apply drvResp_end _ hr
  · rw [h1, hp, hall]; simp
  · rw [hlk]; exact hl

/-- a search with 300 unread entries routed to its channel, a single operation answered after them, then the
peer closes: 301 response steps consume everything (the single operation's reply sits in its slot), the
302nd ends the driver -/
def exUnread : List Ev :=
  [.alloc .search, .enqueue 0 none, .drvOp true, .alloc .single, .enqueue 1 none, .drvOp true] ++
    (List.replicate 300 (.srvSend ⟨1, 4, 7, false⟩)) ++ [.srvSend ⟨2, 11, 9, true⟩, .srvClose]

example :
    let s := run (init 100) exUnread
    s.drv = .running ∧ s.pos = 0 ∧ s.srvLog.length = 301 ∧ s.link = .eof ∧
    let s1 := run s (List.replicate 301 .drvResp)
    s1.drv = .running ∧ s1.pos = 301 ∧ (s1.chans.map (·.items.length)) = [300] ∧
    s1.ops.map (·.mail) = [.ack, .frame ⟨2, 11, 9, true⟩] ∧
    (step s1 .drvResp).map (·.1.drv) = some .endedOk := by
  decide +kernel

end Ldap3V.Conn

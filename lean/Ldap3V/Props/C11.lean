/-
C11 — hostile or corrupt server bytes cannot crash or wedge the connection (decoder level; the
driver-level theorems about what pending operations observe are in Props/C04.lean / C01.lean).
Model: Model/Ber.lean (lber parser with the depth limit and "overrun inside complete content is an
error"), Model/Envelope.lean (decode_inner).  In the code as it is now every `expect`/index of the
decoding path has been replaced by an error return (fix: commits F1, F2, F4), so the model has
three outcomes; that the REAL decoder has no fourth one (a panic) is what lane `hostile` checks.
Driver level, at the end of this file (Model/Conn.lean): `C11_bad_search_frame_ends_connection` — a
frame that decodes as an envelope but, arriving under the ID of a SEARCH, is neither a search item nor
a well-formed SearchResultDone ends the driver with an error (fix F4) — and its composition with
C04's whole-history theorem: after that step nobody is left waiting.
The read loop around the decoder: `C11_framing_rejects` (every segmentation of good messages ++ a rejected
element ++ anything: exactly the good frames, then the error state), `C11_framing_waits_only_for_incomplete`;
composed with the connection model (server events computed from the reads, not supplied by hand):
`C11_undecodable_bytes_end_connection`.
-/
import Ldap3V.Lemmas.FramingWF
import Ldap3V.Lemmas.FramingErr
import Ldap3V.Lemmas.FramingConnRun
import Ldap3V.Lemmas.BerDepth
import Ldap3V.Lemmas.EnvelopeShape
import Ldap3V.Lemmas.ConnGaps
import Ldap3V.Props.C04
namespace Ldap3V
open Spec

/-- For every byte string the decoder answers one of: a frame that consumed between 2 and all of the
bytes, "need more" (buffer untouched), or a decoding error. -/
theorem C11_decoder_total (bs : Bytes) :
    decodeInner bs = .needMore ∨ decodeInner bs = .decodeError ∨
    ∃ id op cs n, decodeInner bs = .frame id op cs n ∧ 2 ≤ n ∧ n ≤ bs.length := by
  cases h : decodeInner bs with
  | needMore => exact Or.inl rfl
  | decodeError => exact Or.inr (Or.inl rfl)
  | frame id op cs n =>
    obtain ⟨h2, hn, _⟩ := decodeInner_frame_append bs [] id op cs n h
    exact Or.inr (Or.inr ⟨id, op, cs, n, rfl, h2, hn⟩)

/-- the bytes announced by the outer header have arrived: identifier octet, *any* definite length
encoding (X.690) of some `n`, and at least `n` further octets -/
def OuterComplete (bs : Bytes) : Prop :=
  ∃ hdr l content extra n, LenEnc n l ∧ n = content.length ∧ n < 18446744073709551616 ∧
    bs = hdr :: (l ++ content ++ extra)

/-- Once the bytes announced by a frame's outer length have arrived the frame is always either
delivered or rejected — the decoder never waits for bytes that cannot complete it (false before
fix F3: `30 07 02 01 01 61 02 0a 05`). -/
theorem C11_outer_complete_decides (bs : Bytes) (h : OuterComplete bs) : decodeInner bs ≠ .needMore := by
  obtain ⟨hdr, l, content, extra, n, hl, hn, hsz, rfl⟩ := h
  have hp : parseLen (l ++ content ++ extra) = .ok n (content ++ extra) := by
    rw [List.append_assoc]; exact parseLen_lenEnc n l _ hl hsz
  have hne : pTag ((hdr :: (l ++ content ++ extra)).length + 1) 0 (hdr :: (l ++ content ++ extra)) ≠ .incomplete := by
    simp only [pTag, hp]
    have : ¬ (content ++ extra).length < n := by simp [hn]
    rw [if_neg this]
    split
    · split
      · simp
      · split <;> simp
    · simp
  unfold decodeInner parseTop parseTag
  cases hq : pTag ((hdr :: (l ++ content ++ extra)).length + 1) 0 (hdr :: (l ++ content ++ extra)) with
  | incomplete => exact absurd hq hne
  | error => simp
  | ok t r =>
    simp only
    split <;> simp

/-- a decided outcome never changes when more bytes arrive (so a rejected frame stays rejected and a
delivered one is not re-read differently) -/
theorem C11_decided_is_stable (x y : Bytes) :
    (decodeInner x = .decodeError → decodeInner (x ++ y) = .decodeError) ∧
    (∀ id op cs n, decodeInner x = .frame id op cs n → decodeInner (x ++ y) = .frame id op cs n) :=
  ⟨decodeInner_error_append x y, fun id op cs n h => (decodeInner_frame_append x y id op cs n h).2.2⟩

/-- shapes that are certainly not an LDAPMessage envelope -/
def NotEnvelope (t : Tlv) : Prop :=
  t.isCons = false ∨ t.id ≠ 16 ∨ (∃ ks, t.expectCons = some ks ∧ ks.length < 2) ∨
  (∃ a b, t.expectCons = some [a, b] ∧ ¬ (∃ v, a = .prim 0 2 v))

theorem envelopeOf_notEnvelope (t : Tlv) (h : NotEnvelope t) : envelopeOf t = none := by
  rcases h with h | h | ⟨ks, hk, hl⟩ | ⟨a, b, hk, hn⟩
  · cases t <;> simp_all [envelopeOf, Tlv.isCons, Tlv.expectCons]
  · simp [envelopeOf, h]
  · simp only [envelopeOf, hk]
    split
    · rfl
    · next hh =>
      simp only [Option.ite_none_right_eq_some, Option.some.injEq] at hh
      obtain ⟨_, rfl⟩ := hh
      match ks, hl with
      | [], _ => rfl
      | [x], _ =>
        simp only [List.reverse_cons, List.reverse_nil, List.nil_append]
        split <;> (try split) <;> simp_all
  · have hid : msgIdOf a = none := by
      unfold msgIdOf
      split
      · next v => exact absurd ⟨v, rfl⟩ hn
      · rfl
    simp only [envelopeOf, hk]
    split
    · rfl
    · next hh =>
      simp only [Option.ite_none_right_eq_some, Option.some.injEq] at hh
      obtain ⟨_, rfl⟩ := hh
      simp only [List.reverse_cons, List.reverse_nil, List.nil_append, List.cons_append]
      by_cases c1 : (b.cls == 2 && b.id == 0) = true
      · simp only [c1, if_true]
        by_cases c2 : b.isCons = true
        · simp only [c2, if_true]
          cases parseControls b <;> rfl
        · simp [c2]
      · by_cases c3 : (b.cls == 2 && b.id == 10) = true
        · simp [c1, c3]
        · simp [c1, c3, hid]

/-- input that parses as BER but is not an LDAPMessage envelope is a decoding error -/
theorem C11_non_envelope_rejected (bs : Bytes) (t : Tlv) (rest : Bytes) (hp : parseTag bs = .ok t rest)
    (hn : NotEnvelope t) : decodeInner bs = .decodeError := by
  unfold decodeInner parseTop
  rw [hp]
  simp [envelopeOf_notEnvelope t hn]

/-- Nesting: whatever the input, a tree accepted by the parser is at most `maxDepth` = 64 deep; the
parser refuses to descend below that level (`depth ≥ maxDepth ⇒ error` precedes the recursive
call), so its recursion depth, and that of the derived clone/drop of the result, is bounded by a
constant instead of by the input size (false before fix F5). -/
theorem C11_depth (bs : Bytes) (t : Tlv) (rest : Bytes) (h : parseTag bs = .ok t rest) : t.depth ≤ maxDepth := by
  have := pTag_depth _ 0 bs t rest h
  omega

theorem C11_no_descent_below_limit (fuel d : Nat) (b : UInt8) (i1 : Bytes) (hd : maxDepth ≤ d)
    (hc : (b.toNat / 32 % 2 == 1) = true) :
    pTag (fuel + 1) d (b :: i1) = .incomplete ∨ pTag (fuel + 1) d (b :: i1) = .error := by
  simp only [pTag]
  cases parseLen i1 with
  | incomplete => exact Or.inl rfl
  | error => exact Or.inr rfl
  | ok len i2 =>
    simp only
    split
    · exact Or.inl rfl
    · exact Or.inr rfl

/-! ## exact characterisation of the three outcomes

`IsEnvelope`, `IsMsgId`, `OuterArrived`, `LenRead` are in Spec/EnvelopeShape.lean, written from
RFC 4511 §4.1.1 and the list L1–L7 of liberties the code takes, without reference to `decodeInner`. -/

/-- The decoder yields a frame `(id, op, controls)` consuming `n` bytes IF AND ONLY IF the buffer
begins with a complete BER element `t` that lber's parser accepts (`parseTag`: definite lengths,
nesting at most 64 — `C11_depth`; exactly the `Spec.Enc` encodings by C07, plus lber's lenient
length forms), `t` has the LDAPMessage envelope shape `IsEnvelope t id op controls`, and `n` is
the size of that element.

The BER layer is stated through the model parser (C07 owns it); for strict X.690 encodings the
parser-free form is `C11_frame_iff_strict`.  Not stated parser-free: which *non*-X.690 octet
strings lber also accepts as an element (length octet `80` read as 0, `FF`, more than 8 length
octets wrapping modulo 2^64, tag number 31 read as a low tag number) — for the outer header alone
that is `LenRead` / `C11_need_more_iff`. -/
theorem C11_frame_iff (bs : Bytes) (id : Int) (op : Tlv) (cs : List Control) (n : Nat) :
    decodeInner bs = .frame id op cs n ↔
      ∃ t rest, parseTag bs = .ok t rest ∧ IsEnvelope t id op cs ∧ n = bs.length - rest.length :=
  decodeInner_frame_iff bs id op cs n

/-- … parser-free for strict encodings: if the buffer begins with ANY definite-length X.690
encoding `pre` (`Spec.Enc`) of a tree `t` at most 64 deep, a frame comes out iff `t` is an envelope,
and then it consumes exactly `pre`. -/
theorem C11_frame_iff_strict (t : Tlv) (pre rest : Bytes) (he : Enc t pre) (hd : t.depth ≤ maxDepth)
    (hl : (pre ++ rest).length < 18446744073709551616)
    (id : Int) (op : Tlv) (cs : List Control) (n : Nat) :
    decodeInner (pre ++ rest) = .frame id op cs n ↔ IsEnvelope t id op cs ∧ n = pre.length := by
  have hp : parseTag (pre ++ rest) = .ok t rest :=
    pTag_enc t pre _ 0 rest he (by simp at hl; omega) (by simp; omega) (by omega)
  rw [C11_frame_iff, hp]
  constructor
  · rintro ⟨t', r', h, hi, rfl⟩
    simp only [PR.ok.injEq] at h
    obtain ⟨rfl, rfl⟩ := h
    exact ⟨hi, by simp⟩
  · rintro ⟨hi, rfl⟩
    exact ⟨t, rest, rfl, hi, by simp⟩

/-- the envelope reader alone, over every tree -/
theorem C11_envelope_iff (t : Tlv) (id : Int) (op : Tlv) (cs : List Control) :
    envelopeOf t = some (id, op, cs) ↔ IsEnvelope t id op cs :=
  envelopeOf_iff t id op cs

/-- (ii) `needMore` is answered exactly when the outer element has not arrived: the identifier
octet, the length octets (as lber reads them, `LenRead`) or part of the content they announce is
missing.  Nothing inside the outer element can cause it. -/
theorem C11_need_more_iff (bs : Bytes) : decodeInner bs = .needMore ↔ ¬ OuterArrived bs :=
  decodeInner_needMore_iff bs

/-- … i.e. exactly on the proper prefixes of arrived outer elements: every such buffer can be
completed by further bytes (and by `C11_need_more_iff` only by a non-empty lot), and arrival is
never undone by further bytes. -/
theorem C11_need_more_is_proper_prefix (bs : Bytes) :
    (decodeInner bs = .needMore → ∃ y, y ≠ [] ∧ OuterArrived (bs ++ y)) ∧
    (∀ y, OuterArrived bs → OuterArrived (bs ++ y)) := by
  refine ⟨fun h => ?_, fun y h => outerArrived_append bs y h⟩
  obtain ⟨y, hy⟩ := outerArrived_extend bs
  refine ⟨y, ?_, hy⟩
  rintro rfl
  rw [List.append_nil] at hy
  exact (C11_need_more_iff bs).mp h hy

/-- (i) a complete outer element that is not an envelope — because its content is not BER that
lber accepts, or nests deeper than 64, or parses to a tree that is not `IsEnvelope` — is a
decoding error, never `needMore` and never a frame. -/
theorem C11_complete_non_envelope_rejected (bs : Bytes) (ha : OuterArrived bs)
    (hn : ∀ t rest id op cs, parseTag bs = .ok t rest → ¬ IsEnvelope t id op cs) :
    decodeInner bs = .decodeError := by
  cases h : decodeInner bs with
  | needMore => exact absurd ha ((C11_need_more_iff bs).mp h)
  | decodeError => rfl
  | frame id op cs n =>
    obtain ⟨t, rest, hp, hi, _⟩ := (C11_frame_iff bs id op cs n).mp h
    exact absurd hi (hn t rest id op cs hp)

/-- the strict notion used by `C11_outer_complete_decides` is an instance of arrival -/
theorem C11_outerComplete_arrived (bs : Bytes) (h : OuterComplete bs) : OuterArrived bs := by
  obtain ⟨hdr, l, content, extra, n, hl, rfl, hsz, rfl⟩ := h
  exact ⟨hdr, l, content, extra, rfl, lenRead_of_lenEnc _ l hl hsz⟩

/-- a message ID in the RFC's range, in any zero-padded encoding, is read as itself -/
theorem C11_msgId_rfc_range (v : Bytes) (h : beVal v < 2147483648) :
    IsMsgId (.prim 0 2 v) (beVal v : Int) :=
  ⟨v, rfl, by omega, by omega, by omega⟩

/-! ### non-vacuity (tests): the historical witnesses -/
example : (match decodeInner [0x30, 0x00] with | .decodeError => true | _ => false) = true := by decide
example : (match decodeInner [0x30, 0x07, 0x02, 0x01, 0x01, 0x61, 0x02, 0x0a, 0x05] with | .decodeError => true | _ => false) = true := by decide
example : OuterComplete [0x30, 0x07, 0x02, 0x01, 0x01, 0x61, 0x02, 0x0a, 0x05] :=
  ⟨0x30, [0x07], [0x02, 0x01, 0x01, 0x61, 0x02, 0x0a, 0x05], [], 7, Or.inl ⟨by decide, rfl⟩, rfl, by decide, rfl⟩
example : NotEnvelope (.cons 0 16 []) := Or.inr (Or.inr (Or.inl ⟨[], rfl, by decide⟩))

/-- `30 00` and `30 03 04 01 41`: arrived, parsed, not envelopes (hypotheses of
`C11_complete_non_envelope_rejected`) -/
example : OuterArrived [0x30, 0x00] ∧ parseTag [0x30, 0x00] = .ok (.cons 0 16 []) [] ∧
    ∀ id op cs, ¬ IsEnvelope (.cons 0 16 []) id op cs := by
  refine ⟨⟨0x30, [0x00], [], [], rfl, Or.inl ⟨0, by decide, rfl, rfl⟩⟩, rfl, ?_⟩
  intro id op cs h
  have := (C11_envelope_iff _ _ _ _).mpr h
  simp [envelopeOf] at this
example : OuterArrived [0x30, 0x03, 0x04, 0x01, 0x41] ∧
    parseTag [0x30, 0x03, 0x04, 0x01, 0x41] = .ok (.cons 0 16 [.prim 0 4 [0x41]]) [] ∧
    ∀ id op cs, ¬ IsEnvelope (.cons 0 16 [.prim 0 4 [0x41]]) id op cs := by
  refine ⟨⟨0x30, [0x03], [0x04, 0x01, 0x41], [], rfl, Or.inl ⟨3, by decide, rfl, rfl⟩⟩, rfl, ?_⟩
  intro id op cs h
  have := (C11_envelope_iff _ _ _ _).mpr h
  simp [envelopeOf] at this
example : (match decodeInner [0x30, 0x03, 0x04, 0x01, 0x41] with | .decodeError => true | _ => false) = true := by decide

/-- proper prefixes: nothing, a lone identifier octet, an unfinished long-form length, a short body -/
example : ¬ OuterArrived [] ∧ ¬ OuterArrived [0x30] ∧ ¬ OuterArrived [0x30, 0x82, 0x01] ∧
    ¬ OuterArrived [0x30, 0x03, 0x04, 0x01] := by
  refine ⟨?_, ?_, ?_, ?_⟩ <;> rw [← C11_need_more_iff] <;> rfl

/-- a BindResponse (success) with message ID 1 and one control "1.2", followed by the first byte
of the next message: both sides of `C11_frame_iff` -/
def exBindResp : Bytes :=
  [0x30, 0x15, 0x02, 0x01, 0x01, 0x61, 0x07, 0x0a, 0x01, 0x00, 0x04, 0x00, 0x04, 0x00,
   0xa0, 0x07, 0x30, 0x05, 0x04, 0x03, 0x31, 0x2e, 0x32, 0x30]
def exBindRespOp : Tlv := .cons 1 1 [.prim 0 10 [0x00], .prim 0 4 [], .prim 0 4 []]
def exBindRespCtl : Tlv := .cons 2 0 [.cons 0 16 [.prim 0 4 [0x31, 0x2e, 0x32]]]

example : parseTag exBindResp = .ok (.cons 0 16 ([] ++ [.prim 0 2 [0x01], exBindRespOp, exBindRespCtl])) [0x30] := rfl
example : IsEnvelope (.cons 0 16 ([] ++ [.prim 0 2 [0x01], exBindRespOp, exBindRespCtl])) 1 exBindRespOp
    [⟨none, ⟨[0x31, 0x2e, 0x32], false, none⟩⟩] :=
  .withControls 0 [] _ _ _ 1 _ ⟨[0x01], rfl, by decide, by decide, by decide⟩ rfl rfl rfl (by decide)
example : decodeInner exBindResp = .frame 1 exBindRespOp [⟨none, ⟨[0x31, 0x2e, 0x32], false, none⟩⟩] 23 :=
  (C11_frame_iff _ _ _ _ _).mpr ⟨_, _, rfl,
    .withControls 0 [] _ _ _ 1 _ ⟨[0x01], rfl, by decide, by decide, by decide⟩ rfl rfl rfl (by decide), rfl⟩

/-- liberties: junk before the message ID is ignored (L2), the ID octets `FF FF FF FF` are read as
-1 (L4), a trailing `[CONTEXT 10]` is dropped (L5) -/
example : IsEnvelope (.cons 3 16 ([.prim 0 4 [0x41]] ++ [.prim 0 2 [0xFF, 0xFF, 0xFF, 0xFF], .prim 1 2 [], .prim 2 10 [0x31]]))
    (-1) (.prim 1 2 []) [] :=
  .adTrailer 3 _ _ _ _ (-1) ⟨_, rfl, by decide, by decide, by decide⟩ rfl rfl

/-! ## the read loop (`FramedRead` around the decoder) on a stream that goes bad

The theorems above are about ONE decoder call.  These two are about the loop that feeds it
successive reads (`Framing.feedAll`, Model/Envelope.lean), for EVERY segmentation of the stream. -/

/-- **The error is reached under every segmentation, after exactly the good frames.**
For every list of well-formed messages, every choice of definite-length encoding of each, every
byte string `bad` whose outer element has arrived and is not an envelope (the hypotheses of
`C11_complete_non_envelope_rejected`), every bytes `y` after it, and EVERY way `cs` of cutting
`e₁ ++ … ++ eₙ ++ bad ++ y` into reads: the loop has delivered exactly the frames of the `n` messages, in
order, and is in the error state; the buffer has been given up.  Nothing of `bad` or of `y` is ever
delivered (and since `y` and the cuts are arbitrary, no later read changes that: FramedRead ends
the stream at the first `Err`).  Size: the whole stream is shorter than 2^64 bytes (lber's `u64`
length arithmetic). -/
theorem C11_framing_rejects (ms : List (WireMsg × Bytes)) (bad y : Bytes) (cs : List Bytes)
    (hwf : ∀ p ∈ ms, p.1.WF ∧ Enc p.1.tlv p.2)
    (hsz : ((ms.map (·.2)).flatten ++ bad ++ y).length < 18446744073709551616)
    (ha : OuterArrived bad)
    (hn : ∀ t rest id op cs, parseTag bad = .ok t rest → ¬ IsEnvelope t id op cs)
    (hc : cs.flatten = (ms.map (·.2)).flatten ++ bad ++ y) :
    Framing.feedAll {} cs = { buf := [], frames := ms.map (·.1.frame), errored := true } :=
  feedAll_wf_then_rejected ms bad y cs hwf hsz (C11_complete_non_envelope_rejected bad ha hn) hc

/-- … the same for ANY element the decoder rejects (not only the complete non-envelopes: also a
malformed length inside, nesting deeper than 64, …): the hypothesis is the outcome of the one call -/
theorem C11_framing_rejects_any (ms : List (WireMsg × Bytes)) (bad y : Bytes) (cs : List Bytes)
    (hwf : ∀ p ∈ ms, p.1.WF ∧ Enc p.1.tlv p.2)
    (hsz : ((ms.map (·.2)).flatten ++ bad ++ y).length < 18446744073709551616)
    (hb : decodeInner bad = .decodeError)
    (hc : cs.flatten = (ms.map (·.2)).flatten ++ bad ++ y) :
    Framing.feedAll {} cs = { buf := [], frames := ms.map (·.1.frame), errored := true } :=
  feedAll_wf_then_rejected ms bad y cs hwf hsz hb hc

/-- **The loop waits only for incomplete elements** (the dual): after ANY reads of ANY bytes, if the
loop is not in the error state then what it holds back is (a) the tail of what was read, (b) a
buffer on which the decoder answers "need more", i.e. (c) one whose outer element has NOT arrived
and (d) which is a proper prefix of an arrived outer element.  Nothing complete is ever left
undecided between reads — neither a complete message (it was delivered) nor a complete non-message
(the loop would be in the error state). -/
theorem C11_framing_waits_only_for_incomplete (cs : List Bytes)
    (he : (Framing.feedAll {} cs).errored = false) :
    (∃ pre, cs.flatten = pre ++ (Framing.feedAll {} cs).buf) ∧
    decodeInner (Framing.feedAll {} cs).buf = .needMore ∧
    ¬ OuterArrived (Framing.feedAll {} cs).buf ∧
    ∃ y, y ≠ [] ∧ OuterArrived ((Framing.feedAll {} cs).buf ++ y) := by
  have hd : decodeInner (Framing.feedAll {} cs).buf = .needMore := by
    rcases feedAll_drained {} cs init_drained with h | h
    · rw [he] at h; cases h
    · exact h
  obtain ⟨pre, hp⟩ := feedAll_suffix {} cs he
  exact ⟨⟨pre, by simpa using hp⟩, hd, (C11_need_more_iff _).mp hd, (C11_need_more_is_proper_prefix _).1 hd⟩

/-- in the strict X.690 vocabulary of `C11_outer_complete_decides`: the buffer held back between
reads is never a complete outer element (with or without bytes after it) -/
theorem C11_framing_never_holds_complete (cs : List Bytes) (he : (Framing.feedAll {} cs).errored = false) :
    ¬ OuterComplete (Framing.feedAll {} cs).buf := fun h =>
  (C11_framing_waits_only_for_incomplete cs he).2.2.1 (C11_outerComplete_arrived _ h)

/-! ### non-vacuity (tests) -/

/-- a DelResponse, message ID 1, success: `30 0c 02 01 01 6b 07 0a 01 00 04 00 04 00` -/
def exDelResp : WireMsg := ⟨[1], 1, .cons 1 11 [.prim 0 10 [0], .prim 0 4 [], .prim 0 4 []], none⟩
def exDelRespBytes : Bytes := [0x30, 0x0c, 0x02, 0x01, 0x01, 0x6b, 0x07, 0x0a, 0x01, 0x00, 0x04, 0x00, 0x04, 0x00]

example : exDelResp.WF ∧ Enc exDelResp.tlv exDelRespBytes := by
  refine ⟨⟨by decide, by decide, rfl, ?_, ?_⟩, ?_⟩
  · intro cs h; cases h
  · simp [WireMsg.tlv, exDelResp, msgTlv, Tlv.depth, Tlv.depthList, maxDepth]
  · have := enc_encode exDelResp.tlv (by simp [exDelResp, WireMsg.tlv, msgTlv, WF, WFList, encodeList, encode, encType, encLen])
    simpa [exDelResp, exDelRespBytes, WireMsg.tlv, msgTlv, encodeList, encode, encType, encLen] using this

/-- one good message, then `30 03 04 01 41` (hypotheses shown above), then the beginning of another
message: all at once, in three reads cutting through the bad element, and one byte at a time — the
one frame (ID 1, protocolOp 11), the error state, an empty buffer -/
example :
    let stream := exDelRespBytes ++ [0x30, 0x03, 0x04, 0x01, 0x41] ++ [0x30, 0x0c, 0x02]
    ∀ cs ∈ [[stream], [stream.take 9, (stream.drop 9).take 7, stream.drop 16], stream.map ([·])],
      cs.flatten = stream ∧
      (Framing.feedAll {} cs).frames.map (fun f => (f.1, f.2.1.id)) = [(1, 11)] ∧
      (Framing.feedAll {} cs).errored = true ∧ (Framing.feedAll {} cs).buf = [] := by decide

/-- the dual: a stream cut off inside the second message — not in the error state, the buffer is
the unfinished element -/
example :
    (Framing.feedAll {} ((exDelRespBytes ++ [0x30, 0x03, 0x04]).map ([·]))).errored = false ∧
    (Framing.feedAll {} ((exDelRespBytes ++ [0x30, 0x03, 0x04]).map ([·]))).buf = [0x30, 0x03, 0x04] := by decide

end Ldap3V

/-! ## driver level: a well-framed but wrong message under a search's ID -/
namespace Ldap3V.Conn

/-- A frame that arrives under the ID of a SEARCH (`searchmap` has an entry for `f.id`) and is neither
a search item (protocolOp 4 SearchResultEntry, 19 SearchResultReference, 25 IntermediateResponse)
nor a SearchResultDone carrying a well-formed LDAPResult cannot be turned into a `SearchItem`: the
driver consumes it and ends with an error (fix F4) — for EVERY state. -/
theorem C11_bad_search_frame_ends_connection (s : St) (f : Frame) (c : Nat) (hr : s.drv = .running)
    (hf : s.srvLog[s.pos]? = some f) (hl : lookup s.searchmap f.id = some c)
    (hitem : ¬ (f.op = 4 ∨ f.op = 25 ∨ f.op = 19)) (hdone : ¬ (f.op = 5 ∧ f.good = true)) :
    step s .drvResp = some (endDriver { s with pos := s.pos + 1 } .endedErr, .none) :=
  drvResp_bad_search s f c hr hf hl hitem hdone

/-- **whole histories**: after ANY history, when the driver's next response step meets such a frame,
the driver has ended with an error and nobody is left waiting: every call that queued its request
and has not returned resolves at its next poll (with the response delivered earlier, or an error),
and every started stream's `next()` returns an item queued earlier or `EndOfStream`.
Composition of the step above with `C04_dead_connection_nobody_waits`. -/
theorem C11_bad_search_frame_nobody_waits (N : Nat) (evs : List Ev) (hfr : FreshRun2 (init N) evs) (f : Frame) (c : Nat)
    (hr : (run (init N) evs).drv = .running)
    (hf : (run (init N) evs).srvLog[(run (init N) evs).pos]? = some f)
    (hl : lookup (run (init N) evs).searchmap f.id = some c)
    (hitem : ¬ (f.op = 4 ∨ f.op = 25 ∨ f.op = 19)) (hdone : ¬ (f.op = 5 ∧ f.good = true)) :
    (run (init N) (evs ++ [.drvResp])).drv = .endedErr ∧
    (∀ (i : Nat) (o : Op), (run (init N) (evs ++ [.drvResp])).ops[i]? = some o → o.phase ≠ .allocated → o.res = none →
      ∃ r s', step (run (init N) (evs ++ [.drvResp])) (.poll i) = some (s', .res (some r)) ∧
        (∀ g, o.mail = .frame g → r = if g.good then .frame g else .decodeErr) ∧ (o.mail = .ack → r = .ack) ∧
        (o.mail = .dropped → r = .recvErr)) ∧
    (∀ (c : Nat) (ch : Chan) (dl : Option Nat), (run (init N) (evs ++ [.drvResp])).chans[c]? = some ch →
      ((run (init N) (evs ++ [.drvResp])).ops[ch.opIdx]?.bind (·.res)) = some .ack → ch.rxAlive = true →
      (∃ it, ch.items[ch.taken]? = some it ∧
        ∃ s', step (run (init N) (evs ++ [.drvResp])) (.recv c dl) = some (s', .item (some it))) ∨
      (ch.items[ch.taken]? = none ∧
        step (run (init N) (evs ++ [.drvResp])) (.recv c dl) = some (run (init N) (evs ++ [.drvResp]), .closed))) := by
  have hd : (run (init N) (evs ++ [.drvResp])).drv = .endedErr := by
    rw [run_snoc, next, C11_bad_search_frame_ends_connection _ f c hr hf hl hitem hdone]; rfl
  have hfr' : FreshRun2 (init N) (evs ++ [.drvResp]) :=
    freshRun2_append_nonalloc _ _ _ hfr (by intro e he; simp at he; subst he; rfl)
  exact ⟨hd, C04_dead_connection_nobody_waits N _ hfr' (by rw [hd]; simp)⟩

/-- the same for every history with at most `N` (= 2^31-1) allocations, with no schedule hypothesis -/
theorem C11_bad_search_frame_nobody_waits_nowrap (N : Nat) (evs : List Ev) (hcount : allocCount evs ≤ N) (f : Frame) (c : Nat)
    (hr : (run (init N) evs).drv = .running)
    (hf : (run (init N) evs).srvLog[(run (init N) evs).pos]? = some f)
    (hl : lookup (run (init N) evs).searchmap f.id = some c)
    (hitem : ¬ (f.op = 4 ∨ f.op = 25 ∨ f.op = 19)) (hdone : ¬ (f.op = 5 ∧ f.good = true)) :
    (run (init N) (evs ++ [.drvResp])).drv = .endedErr ∧
    (∀ (i : Nat) (o : Op), (run (init N) (evs ++ [.drvResp])).ops[i]? = some o → o.phase ≠ .allocated → o.res = none →
      ∃ r s', step (run (init N) (evs ++ [.drvResp])) (.poll i) = some (s', .res (some r)) ∧
        (∀ g, o.mail = .frame g → r = if g.good then .frame g else .decodeErr) ∧ (o.mail = .ack → r = .ack) ∧
        (o.mail = .dropped → r = .recvErr)) ∧
    (∀ (c : Nat) (ch : Chan) (dl : Option Nat), (run (init N) (evs ++ [.drvResp])).chans[c]? = some ch →
      ((run (init N) (evs ++ [.drvResp])).ops[ch.opIdx]?.bind (·.res)) = some .ack → ch.rxAlive = true →
      (∃ it, ch.items[ch.taken]? = some it ∧
        ∃ s', step (run (init N) (evs ++ [.drvResp])) (.recv c dl) = some (s', .item (some it))) ∨
      (ch.items[ch.taken]? = none ∧
        step (run (init N) (evs ++ [.drvResp])) (.recv c dl) = some (run (init N) (evs ++ [.drvResp]), .closed))) :=
  C11_bad_search_frame_nobody_waits N evs (freshRun2_init N evs hcount) f c hr hf hl hitem hdone

/-! ### non-vacuity (tests): a single call waiting, a search with one entry queued and started, then a
BindResponse (op 1), resp. a malformed SearchResultDone, under the search's ID 2 -/
def badSearchHistory (bad : Frame) : List Ev :=
  [.alloc .single, .enqueue 0 none, .alloc .search, .enqueue 1 none, .drvOp true, .drvOp true, .poll 1,
   .srvSend ⟨2, 4, 8, false⟩, .drvResp, .srvSend bad]

example :
    let s := run (init 100) (badSearchHistory ⟨2, 1, 9, true⟩)
    allocCount (badSearchHistory ⟨2, 1, 9, true⟩) ≤ 100 ∧ s.drv = .running ∧ s.srvLog[s.pos]? = some ⟨2, 1, 9, true⟩ ∧
    lookup s.searchmap (2 : Int) = some 0 := by decide

example :
    let s := run (init 100) (badSearchHistory ⟨2, 5, 9, false⟩)
    allocCount (badSearchHistory ⟨2, 5, 9, false⟩) ≤ 100 ∧ s.drv = .running ∧ s.srvLog[s.pos]? = some ⟨2, 5, 9, false⟩ ∧
    lookup s.searchmap (2 : Int) = some 0 := by decide

/-- what the step leaves: the driver ended with an error, the waiting call's reply sender dropped,
the stream with its queued entry and no sender -/
example :
    let s := run (init 100) (badSearchHistory ⟨2, 1, 9, true⟩ ++ [.drvResp])
    s.drv = .endedErr ∧ s.ops.map (·.mail) = [.dropped, .ack] ∧ s.ops.map (·.res) = [none, some .ack] ∧
    s.chans.map (·.items) = [[.entry ⟨2, 4, 8, false⟩]] ∧ chanOpen s 0 = false ∧ s.inUse = [] := by decide

/-! ## byte level and driver level composed: undecodable bytes end the connection, under every segmentation

Until here the connection model was told by hand that the stream went bad (`srvGarbage`).  With
`connFramesWith` / `srvEvents` / `weave` (Lemmas/FramingConn.lean, see Props/C06.lean) its server
events are COMPUTED from the reads of the server's bytes. -/
open Spec

/-- `NobodyWaits s` (Lemmas/FramingConnRun.lean) is the conclusion of `C04_dead_connection_nobody_waits` -/
theorem C11_dead_connection_nobody_waits (N : Nat) (evs : List Ev) (hcount : allocCount evs ≤ N)
    (hd : (run (init N) evs).drv ≠ .running) : NobodyWaits (run (init N) evs) :=
  C04_dead_connection_nobody_waits_nowrap N evs hcount hd

/-- **From bytes to the end of the connection.**  The server sends well-formed messages `ms` (any
definite-length encodings), then a complete outer element `bad` that is not an envelope, then
anything (`y`); TCP cuts the stream into reads `cs` in ANY way; the client's and driver's events
`segs` (any events other than the server's; at most `N` allocations) are interleaved with the reads'
effects in ANY way.  Then at the end of that history
* the server log of the connection model is exactly the frames of `ms`, in order (nothing of `bad`
  or `y` is ever routed to anybody), and the link is `garbage`;
* if the driver is still running and has consumed those frames, its next response step ends it
  with an error and nobody is left waiting (every pending call resolves at its next poll, every
  started stream's `next()` returns a queued item or `EndOfStream`). -/
theorem C11_undecodable_bytes_end_connection (N : Nat) (tokOf : Nat → Int × Tlv × List Control → Nat)
    (ms : List (WireMsg × Bytes)) (bad y : Bytes) (cs : List Bytes)
    (hwf : ∀ p ∈ ms, p.1.WF ∧ Enc p.1.tlv p.2)
    (hsz : ((ms.map (·.2)).flatten ++ bad ++ y).length < 18446744073709551616)
    (ha : OuterArrived bad)
    (hn : ∀ t rest id op cs, parseTag bad = .ok t rest → ¬ IsEnvelope t id op cs)
    (hc : cs.flatten = (ms.map (·.2)).flatten ++ bad ++ y)
    (segs : List (List Ev)) (hs : ∀ seg ∈ segs, ∀ e ∈ seg, isSrv e = false)
    (hcount : allocCount segs.flatten ≤ N) :
    (run (init N) (weave (srvEvents (connFramesWith tokOf cs)) segs)).srvLog =
      (ms.map (·.1.frame)).mapIdx (fun i m => connFrameWith (tokOf i m) m) ∧
    (run (init N) (weave (srvEvents (connFramesWith tokOf cs)) segs)).link = .garbage ∧
    ((run (init N) (weave (srvEvents (connFramesWith tokOf cs)) segs)).drv = .running →
     ms.length ≤ (run (init N) (weave (srvEvents (connFramesWith tokOf cs)) segs)).pos →
      (run (init N) (weave (srvEvents (connFramesWith tokOf cs)) segs ++ [.drvResp])).drv = .endedErr ∧
      NobodyWaits (run (init N) (weave (srvEvents (connFramesWith tokOf cs)) segs ++ [.drvResp]))) := by
  have hfr := connFramesWith_rejected tokOf ms bad y cs hwf hsz (C11_complete_non_envelope_rejected bad ha hn) hc
  rw [hfr]
  obtain ⟨h1, h2⟩ := run_weave_srvEvents ((ms.map (·.1.frame)).mapIdx fun i m => connFrameWith (tokOf i m) m)
    true segs (init N) rfl hs
  have h1' : (run (init N) (weave (srvEvents ((ms.map (·.1.frame)).mapIdx (fun i m => connFrameWith (tokOf i m) m), true)) segs)).srvLog =
      (ms.map (·.1.frame)).mapIdx (fun i m => connFrameWith (tokOf i m) m) := by
    rw [h1]; simp [init]
  refine ⟨h1', h2, fun hr hpos => ?_⟩
  have hp : (run (init N) (weave (srvEvents ((ms.map (·.1.frame)).mapIdx (fun i m => connFrameWith (tokOf i m) m), true)) segs)).srvLog[
      (run (init N) (weave (srvEvents ((ms.map (·.1.frame)).mapIdx (fun i m => connFrameWith (tokOf i m) m), true)) segs)).pos]? = none := by
    rw [List.getElem?_eq_none_iff, h1']
    simpa using hpos
  have hd : (run (init N) (weave (srvEvents ((ms.map (·.1.frame)).mapIdx (fun i m => connFrameWith (tokOf i m) m), true)) segs ++ [.drvResp])).drv = .endedErr := by
    rw [run_drvResp_garbage _ _ hr hp h2]; rfl
  refine ⟨hd, C11_dead_connection_nobody_waits N _ ?_ (by rw [hd]; simp)⟩
  rw [allocCount_append_nonalloc _ _ (by intro e he; simp at he; subst he; rfl),
    allocCount_weave _ _ (srvEvents_nonalloc _)]
  exact hcount

/-- the same with the server's events first and then ANY events `evs` (faults, further server
events — they are not enabled any more — included) -/
theorem C11_undecodable_bytes_end_connection_first (N : Nat) (tokOf : Nat → Int × Tlv × List Control → Nat)
    (ms : List (WireMsg × Bytes)) (bad y : Bytes) (cs : List Bytes)
    (hwf : ∀ p ∈ ms, p.1.WF ∧ Enc p.1.tlv p.2)
    (hsz : ((ms.map (·.2)).flatten ++ bad ++ y).length < 18446744073709551616)
    (ha : OuterArrived bad)
    (hn : ∀ t rest id op cs, parseTag bad = .ok t rest → ¬ IsEnvelope t id op cs)
    (hc : cs.flatten = (ms.map (·.2)).flatten ++ bad ++ y)
    (evs : List Ev) (hcount : allocCount evs ≤ N) :
    (run (init N) (srvEvents (connFramesWith tokOf cs) ++ evs)).srvLog =
      (ms.map (·.1.frame)).mapIdx (fun i m => connFrameWith (tokOf i m) m) ∧
    (run (init N) (srvEvents (connFramesWith tokOf cs) ++ evs)).link = .garbage ∧
    ((run (init N) (srvEvents (connFramesWith tokOf cs) ++ evs)).drv = .running →
     ms.length ≤ (run (init N) (srvEvents (connFramesWith tokOf cs) ++ evs)).pos →
      (run (init N) (srvEvents (connFramesWith tokOf cs) ++ evs ++ [.drvResp])).drv = .endedErr ∧
      NobodyWaits (run (init N) (srvEvents (connFramesWith tokOf cs) ++ evs ++ [.drvResp]))) := by
  have hfr := connFramesWith_rejected tokOf ms bad y cs hwf hsz (C11_complete_non_envelope_rejected bad ha hn) hc
  rw [hfr]
  have h0 := run_srvEvents ((ms.map (·.1.frame)).mapIdx (fun i m => connFrameWith (tokOf i m) m), true) (init N) rfl
  have hfz := run_srv_frozen evs (run (init N) (srvEvents ((ms.map (·.1.frame)).mapIdx (fun i m => connFrameWith (tokOf i m) m), true)))
    (by rw [h0]; simp)
  have h1 : (run (init N) (srvEvents ((ms.map (·.1.frame)).mapIdx (fun i m => connFrameWith (tokOf i m) m), true) ++ evs)).srvLog =
      (ms.map (·.1.frame)).mapIdx (fun i m => connFrameWith (tokOf i m) m) := by
    rw [run_append', hfz.1, h0]; simp [init]
  have h2 : (run (init N) (srvEvents ((ms.map (·.1.frame)).mapIdx (fun i m => connFrameWith (tokOf i m) m), true) ++ evs)).link = .garbage := by
    rw [run_append', hfz.2, h0]; rfl
  refine ⟨h1, h2, fun hr hpos => ?_⟩
  have hp : (run (init N) (srvEvents ((ms.map (·.1.frame)).mapIdx (fun i m => connFrameWith (tokOf i m) m), true) ++ evs)).srvLog[
      (run (init N) (srvEvents ((ms.map (·.1.frame)).mapIdx (fun i m => connFrameWith (tokOf i m) m), true) ++ evs)).pos]? = none := by
    rw [List.getElem?_eq_none_iff, h1]
    simpa using hpos
  have hd : (run (init N) (srvEvents ((ms.map (·.1.frame)).mapIdx (fun i m => connFrameWith (tokOf i m) m), true) ++ evs ++ [.drvResp])).drv = .endedErr := by
    rw [run_drvResp_garbage _ _ hr hp h2]; rfl
  refine ⟨hd, C11_dead_connection_nobody_waits N _ ?_ (by rw [hd]; simp)⟩
  rw [allocCount_append_nonalloc _ _ (by intro e he; simp at he; subst he; rfl), allocCount_srvEvents_append]
  exact hcount

/-! ### non-vacuity (tests): a Delete (ID 1) and a search (ID 2) in flight; the server's bytes are the
DelResponse, then `30 03 04 01 41`, then `30`, read one byte at a time; the driver consumes the
response between the two server events -/
def exBadReads : List Bytes := (exDelRespBytes ++ [0x30, 0x03, 0x04, 0x01, 0x41] ++ [0x30]).map ([·])
def exBadSegs : List (List Ev) :=
  [[.alloc .single, .enqueue 0 none, .alloc .search, .enqueue 1 none, .drvOp true, .drvOp true, .poll 1], [.drvResp]]

example :
    exBadReads.flatten = ([(exDelResp, exDelRespBytes)].map (·.2)).flatten ++ [0x30, 0x03, 0x04, 0x01, 0x41] ++ [0x30] ∧
    (∀ seg ∈ exBadSegs, ∀ e ∈ seg, isSrv e = false) ∧ allocCount exBadSegs.flatten ≤ 100 ∧
    connFrames exBadReads = ([⟨1, 11, 0, true⟩], true) ∧
    (run (init 100) (weave (srvEvents (connFrames exBadReads)) exBadSegs)).drv = .running ∧
    1 ≤ (run (init 100) (weave (srvEvents (connFrames exBadReads)) exBadSegs)).pos := by decide

/-- what is left: the driver ended with an error, the Delete's caller has its response, the search's
stream has no sender -/
example :
    let s := run (init 100) (weave (srvEvents (connFrames exBadReads)) exBadSegs ++ [.drvResp])
    s.drv = .endedErr ∧ s.srvLog = [⟨1, 11, 0, true⟩] ∧ s.link = .garbage ∧
    s.ops.map (·.mail) = [.frame ⟨1, 11, 0, true⟩, .ack] ∧ chanOpen s 0 = false ∧ s.inUse = [] := by decide

end Ldap3V.Conn

/-
C11 — hostile or corrupt server bytes cannot crash or wedge the connection (decoder level; the
driver-level theorems about what pending operations observe are in Props/C04.lean / C01.lean).
Model: Model/Ber.lean (lber parser with the depth limit and "overrun inside complete content is an
error"), Model/Envelope.lean (decode_inner).  In the code as it is now every `expect`/index of the
decoding path has been replaced by an error return (fix: commits F1, F2, F4), so the model has
three outcomes; that the REAL decoder has no fourth one (a panic) is what lane `hostile` checks.
-/
import Ldap3V.Lemmas.FramingWF
import Ldap3V.Lemmas.BerDepth
namespace Ldap3V
open Spec

/-- For every byte string the decoder answers one of: a frame that consumed between 2 and all of the
bytes, "need more" (buffer untouched), or a decoding error. -/
theorem C11_decoder_total (bs : Bytes) :
    decodeInner bs = .needMore ∨ decodeInner bs = .decodeError ∨
    ∃ id op cs n, decodeInner bs = .frame id op cs n ∧ 2 ≤ n ∧ n ≤ bs.length := by
  cases h : decodeInner bs with
  | needMore => exact Or.inl rfl
  | decodeError => exact Or.inr (Or.inl rfl)
  | frame id op cs n =>
    obtain ⟨h2, hn, _⟩ := decodeInner_frame_append bs [] id op cs n h
    exact Or.inr (Or.inr ⟨id, op, cs, n, rfl, h2, hn⟩)

/-- the bytes announced by the outer header have arrived: identifier octet, *any* definite length
encoding (X.690) of some `n`, and at least `n` further octets -/
def OuterComplete (bs : Bytes) : Prop :=
  ∃ hdr l content extra n, LenEnc n l ∧ n = content.length ∧ n < 18446744073709551616 ∧
    bs = hdr :: (l ++ content ++ extra)

/-- Once the bytes announced by a frame's outer length have arrived the frame is always either
delivered or rejected — the decoder never waits for bytes that cannot complete it (false before
fix F3: `30 07 02 01 01 61 02 0a 05`). -/
theorem C11_outer_complete_decides (bs : Bytes) (h : OuterComplete bs) : decodeInner bs ≠ .needMore := by
  obtain ⟨hdr, l, content, extra, n, hl, hn, hsz, rfl⟩ := h
  have hp : parseLen (l ++ content ++ extra) = .ok n (content ++ extra) := by
    rw [List.append_assoc]; exact parseLen_lenEnc n l _ hl hsz
  have hne : pTag ((hdr :: (l ++ content ++ extra)).length + 1) 0 (hdr :: (l ++ content ++ extra)) ≠ .incomplete := by
    simp only [pTag, hp]
    have : ¬ (content ++ extra).length < n := by simp [hn]
    rw [if_neg this]
    split
    · split
      · simp
      · split <;> simp
    · simp
  unfold decodeInner parseTop parseTag
  cases hq : pTag ((hdr :: (l ++ content ++ extra)).length + 1) 0 (hdr :: (l ++ content ++ extra)) with
  | incomplete => exact absurd hq hne
  | error => simp
  | ok t r =>
    simp only
    split <;> simp

/-- a decided outcome never changes when more bytes arrive (so a rejected frame stays rejected and a
delivered one is not re-read differently) -/
theorem C11_decided_is_stable (x y : Bytes) :
    (decodeInner x = .decodeError → decodeInner (x ++ y) = .decodeError) ∧
    (∀ id op cs n, decodeInner x = .frame id op cs n → decodeInner (x ++ y) = .frame id op cs n) :=
  ⟨decodeInner_error_append x y, fun id op cs n h => (decodeInner_frame_append x y id op cs n h).2.2⟩

/-- shapes that are certainly not an LDAPMessage envelope -/
def NotEnvelope (t : Tlv) : Prop :=
  t.isCons = false ∨ t.id ≠ 16 ∨ (∃ ks, t.expectCons = some ks ∧ ks.length < 2) ∨
  (∃ a b, t.expectCons = some [a, b] ∧ ¬ (∃ v, a = .prim 0 2 v))

theorem envelopeOf_notEnvelope (t : Tlv) (h : NotEnvelope t) : envelopeOf t = none := by
  rcases h with h | h | ⟨ks, hk, hl⟩ | ⟨a, b, hk, hn⟩
  · cases t <;> simp_all [envelopeOf, Tlv.isCons, Tlv.expectCons]
  · simp [envelopeOf, h]
  · simp only [envelopeOf, hk]
    split
    · rfl
    · next hh =>
      simp only [Option.ite_none_right_eq_some, Option.some.injEq] at hh
      obtain ⟨_, rfl⟩ := hh
      match ks, hl with
      | [], _ => rfl
      | [x], _ =>
        simp only [List.reverse_cons, List.reverse_nil, List.nil_append]
        split <;> (try split) <;> simp_all
  · have hid : msgIdOf a = none := by
      unfold msgIdOf
      split
      · next v => exact absurd ⟨v, rfl⟩ hn
      · rfl
    simp only [envelopeOf, hk]
    split
    · rfl
    · next hh =>
      simp only [Option.ite_none_right_eq_some, Option.some.injEq] at hh
      obtain ⟨_, rfl⟩ := hh
      simp only [List.reverse_cons, List.reverse_nil, List.nil_append, List.cons_append]
      by_cases c1 : (b.cls == 2 && b.id == 0) = true
      · simp only [c1, if_true]
        by_cases c2 : b.isCons = true
        · simp only [c2, if_true]
          cases parseControls b <;> rfl
        · simp [c2]
      · by_cases c3 : (b.cls == 2 && b.id == 10) = true
        · simp [c1, c3]
        · simp [c1, c3, hid]

/-- input that parses as BER but is not an LDAPMessage envelope is a decoding error -/
theorem C11_non_envelope_rejected (bs : Bytes) (t : Tlv) (rest : Bytes) (hp : parseTag bs = .ok t rest)
    (hn : NotEnvelope t) : decodeInner bs = .decodeError := by
  unfold decodeInner parseTop
  rw [hp]
  simp [envelopeOf_notEnvelope t hn]

/-- Nesting: whatever the input, a tree accepted by the parser is at most `maxDepth` = 64 deep; the
parser refuses to descend below that level (`depth ≥ maxDepth ⇒ error` precedes the recursive
call), so its recursion depth, and that of the derived clone/drop of the result, is bounded by a
constant instead of by the input size (false before fix F5). -/
theorem C11_depth (bs : Bytes) (t : Tlv) (rest : Bytes) (h : parseTag bs = .ok t rest) : t.depth ≤ maxDepth := by
  have := pTag_depth _ 0 bs t rest h
  omega

theorem C11_no_descent_below_limit (fuel d : Nat) (b : UInt8) (i1 : Bytes) (hd : maxDepth ≤ d)
    (hc : (b.toNat / 32 % 2 == 1) = true) :
    pTag (fuel + 1) d (b :: i1) = .incomplete ∨ pTag (fuel + 1) d (b :: i1) = .error := by
  simp only [pTag]
  cases parseLen i1 with
  | incomplete => exact Or.inl rfl
  | error => exact Or.inr rfl
  | ok len i2 =>
    simp only
    split
    · exact Or.inl rfl
    · exact Or.inr rfl

/-! ### non-vacuity (tests): the historical witnesses -/
example : (match decodeInner [0x30, 0x00] with | .decodeError => true | _ => false) = true := by decide
example : (match decodeInner [0x30, 0x07, 0x02, 0x01, 0x01, 0x61, 0x02, 0x0a, 0x05] with | .decodeError => true | _ => false) = true := by decide
example : OuterComplete [0x30, 0x07, 0x02, 0x01, 0x01, 0x61, 0x02, 0x0a, 0x05] :=
  ⟨0x30, [0x07], [0x02, 0x01, 0x01, 0x61, 0x02, 0x0a, 0x05], [], 7, Or.inl ⟨by decide, rfl⟩, rfl, by decide, rfl⟩
example : NotEnvelope (.cons 0 16 []) := Or.inr (Or.inr (Or.inl ⟨[], rfl, by decide⟩))

end Ldap3V

/-
C07 — BER encoding and parsing are mutual inverses and encoding is canonical.
Statements only; proofs are references to Lemmas/*.  Model: Ldap3V/Model/Ber.lean (lber).
-/
import Ldap3V.Lemmas.BerParse
import Ldap3V.Lemmas.BerInt
import Ldap3V.Lemmas.BerMinimal
namespace Ldap3V
open Spec

/-- Parsing the writer's output returns the identical tree and leaves trailing bytes untouched.
`WF`: class 0..3, tag numbers ≤ 30, lengths representable; `depth ≤ 64`: lber's `MAX_DEPTH`
(introduced by the C11 stack-overflow fix; deeper trees are rejected, see `C07_too_deep`). -/
theorem C07_parse_encode (t : Tlv) (rest : Bytes) (h : WF t) (hd : t.depth ≤ maxDepth)
    (hl : (encode t ++ rest).length < 18446744073709551616) :
    parseTag (encode t ++ rest) = .ok t rest :=
  pTag_enc t (encode t) _ 0 rest (enc_encode t h) (by simp at hl; omega) (by simp; omega) (by omega)

/-- Every valid definite-length encoding (any number of redundant length octets) parses to the
tree the independent relation `Spec.Enc` assigns to it. -/
theorem C07_all_definite_forms (t : Tlv) (bs rest : Bytes) (h : Enc t bs) (hd : t.depth ≤ maxDepth)
    (hl : (bs ++ rest).length < 18446744073709551616) :
    parseTag (bs ++ rest) = .ok t rest :=
  pTag_enc t bs _ 0 rest h (by simp at hl; omega) (by simp; omega) (by omega)

/-- Emitted lengths are definite, and minimal among all definite encodings of the same length;
short form below 128, long form with a non-zero leading octet from 128 on. -/
theorem C07_len_definite_minimal (n : Nat) (h : n < 18446744073709551616) :
    LenEnc n (encLen n) ∧ (∀ bs, LenEnc n bs → (encLen n).length ≤ bs.length) ∧
    (n < 128 → encLen n = [n.toUInt8]) ∧
    (128 ≤ n → ∃ d ds, encLen n = (0x80 + (d :: ds).length).toUInt8 :: d :: ds ∧ d ≠ 0 ∧ beVal (d :: ds) = n) := by
  refine ⟨lenEnc_encLen n h, fun bs hb => encLen_minimal n bs hb, ?_, ?_⟩
  · intro hn; simp [encLen, hn]
  · intro hn
    obtain ⟨d, ds, e, hd⟩ := be256_head_ne_zero n (by omega)
    refine ⟨d, ds, ?_, hd, ?_⟩
    · simp [encLen, show ¬ n < 128 by omega, e]
    · rw [← e]; exact beVal_be256 n

/-- Minimality for WHOLE trees.  `Enc t (encode t)` (used by `C07_parse_encode`) allows any definite
length form at every node; the writer in fact emits, at every node of the tree, exactly the minimal length
octets `encLen n` of that node's content length `n` (`MinEnc`: `Spec.Enc` with the length octets fixed to
`encLen`; what `encLen` is: `C07_len_definite_minimal`).  `MinEnc` determines the bytes, so the writer's
output is THE minimal-length-octets encoding; it is one of the encodings of `Spec.Enc`; and no
definite-length encoding of the tree is shorter. -/
theorem C07_encode_lengths_minimal (t : Tlv) (h : WF t) :
    MinEnc t (encode t) ∧
    (∀ bs bs', MinEnc t bs → MinEnc t bs' → bs = bs') ∧
    (∀ bs, MinEnc t bs → bs.length < 18446744073709551616 → Enc t bs) ∧
    (∀ bs, Enc t bs → (encode t).length ≤ bs.length) :=
  ⟨minEnc_encode t h, minEnc_unique t, enc_of_minEnc t, encode_length_min t⟩

/-- … hence `MinEnc` characterises the writer's output -/
theorem C07_minEnc_iff (t : Tlv) (h : WF t) (bs : Bytes) : MinEnc t bs ↔ bs = encode t :=
  ⟨minEnc_eq t bs, fun e => e ▸ minEnc_encode t h⟩

/-- Trees deeper than lber's `MAX_DEPTH` (a constructed value inside 64 constructed values) are refused:
on EVERY definite-length encoding of such a tree the parser answers `error`, whatever follows. -/
theorem C07_too_deep (t : Tlv) (bs rest : Bytes) (h : Enc t bs) (hd : maxDepth < t.depth)
    (hl : (bs ++ rest).length < 18446744073709551616) : parseTag (bs ++ rest) = .error :=
  parseTag_too_deep t bs rest h hd hl

/-- … and whatever the parser returns is at most `maxDepth` levels deep -/
theorem C07_parsed_depth (bs : Bytes) (t : Tlv) (r : Bytes) (h : parseTag bs = .ok t r) : t.depth ≤ maxDepth :=
  parseTag_depth_le bs t r h

/-- INTEGER / ENUMERATED content octets are the shortest two's complement octets of the value,
for every 64-bit integer. -/
theorem C07_int (v : Int) (h1 : -9223372036854775808 ≤ v) (h2 : v < 9223372036854775808) :
    twos (intOctets v) = v ∧ Minimal (intOctets v) ∧ intOctets v ≠ [] :=
  int_main v h1 h2

/-- the typed front end puts exactly those octets into the tree -/
theorem C07_int_tags (c i : Nat) (v : Int) :
    (Tag.integer c i v).toTlv = .prim c i (intOctets v) ∧ (Tag.enumerated c i v).toTlv = .prim c i (intOctets v) :=
  ⟨by simp [Tag.toTlv], by simp [Tag.toTlv]⟩

theorem C07_bool_true : boolOctet true = [0xFF] ∧ boolOctet false = [0x00] := ⟨rfl, rfl⟩

/-- BOOLEAN: the typed front end (`Boolean::into_structure`) puts exactly `boolOctet b` into the tree, so
`C07_bool_true` speaks about the writer's output: TRUE is written `FF` (X.690 §11.1, required by
RFC 4511 §5.1), FALSE `00`, under any class / low tag number. -/
theorem C07_bool_writer (c i : Nat) (b : Bool) (hi : i ≤ 30) :
    (Tag.boolean c i b).toTlv = .prim c i (boolOctet b) ∧
    encode (Tag.boolean c i true).toTlv = [(c * 64 + i).toUInt8, 0x01, 0xFF] ∧
    encode (Tag.boolean c i false).toTlv = [(c * 64 + i).toUInt8, 0x01, 0x00] ∧
    encode (Tag.bool true).toTlv = [0x01, 0x01, 0xFF] ∧ encode (Tag.bool false).toTlv = [0x01, 0x01, 0x00] := by
  refine ⟨by simp [Tag.toTlv], ?_, ?_, by decide, by decide⟩ <;>
    simp [Tag.toTlv, boolOctet, encode, encType_low c false i hi, encLen]

/-! ### non-vacuity: the hypotheses are met by non-trivial values (tests, labelled as such) -/

/-- a nested tree with a constructed child and a 3-octet value -/
example : WF (.cons 0 16 [.prim 0 2 [1], .cons 2 0 [.prim 0 4 [0x61, 0x62, 0x63]]]) ∧
    (Tlv.cons 0 16 [.prim 0 2 [1], .cons 2 0 [.prim 0 4 [0x61, 0x62, 0x63]]]).depth ≤ maxDepth := by
  simp [WF, WFList, encodeList, encode, encType, encLen, Tlv.depth, Tlv.depthList, maxDepth]

/-- a non-minimal length form is in `Enc`: `04 81 01 61` encodes the one-octet string "a" -/
example : Enc (.prim 0 4 [0x61]) [0x04, 0x81, 0x01, 0x61] := by
  refine ⟨by decide, by decide, [0x81, 0x01], Or.inr ⟨[0x01], by decide, by decide, by decide, by decide⟩, by decide⟩

example : intOctets (-129) = [0xFF, 0x7F] ∧ intOctets 128 = [0x00, 0x80] ∧ intOctets (-128) = [0x80] := by decide
example : encLen 127 = [0x7F] ∧ encLen 128 = [0x81, 0x80] ∧ encLen 255 = [0x81, 0xFF] ∧
    encLen 256 = [0x82, 0x01, 0x00] ∧ encLen 65535 = [0x82, 0xFF, 0xFF] ∧ encLen 65536 = [0x83, 0x01, 0x00, 0x00] := by
  simp [encLen, be256]

/-- `MinEnc` of a nested tree with a 200-octet value `v` (long-form length `81 C8` inside, `81 CE` outside), and
the non-minimal `04 81 01 61` above, which is in `Enc`, is not in `MinEnc` -/
example (v : Bytes) (hv : v.length = 200) : MinEnc (.cons 0 16 [.prim 0 2 [1], .prim 0 4 v])
    ([0x30, 0x81, 0xCE, 0x02, 0x01, 0x01, 0x04, 0x81, 0xC8] ++ v) := by
  refine ⟨by decide, by decide, [0x02, 0x01, 0x01, 0x04, 0x81, 0xC8] ++ v,
    ⟨[0x02, 0x01, 0x01], [0x04, 0x81, 0xC8] ++ v, ⟨by decide, by decide, by decide⟩,
      ⟨[0x04, 0x81, 0xC8] ++ v, [], ⟨by decide, by decide, by simp [encLen, be256, hv]⟩, rfl, by simp⟩, by simp⟩,
    by simp [encLen, be256, hv]⟩
example : ¬ MinEnc (.prim 0 4 [0x61]) [0x04, 0x81, 0x01, 0x61] := by
  intro h; have := minEnc_eq _ _ h; revert this; decide
/-- the context-tagged `dnAttributes [4] TRUE` of an extensible match -/
example : encode (Tag.boolean 2 4 true).toTlv = [0x84, 0x01, 0xFF] := by decide
/-- `n` nested `[0]` around an empty SEQUENCE are `n + 1` levels deep: from `n` = 64 on, `C07_too_deep` applies -/
example (n : Nat) : (Nat.repeat (fun t => Tlv.cons 2 0 [t]) n (.cons 0 16 [])).depth = n + 1 := by
  induction n with
  | zero => simp [Nat.repeat, Tlv.depth, Tlv.depthList]
  | succ n ih => simp only [Nat.repeat, Tlv.depth, Tlv.depthList, ih]; omega

end Ldap3V

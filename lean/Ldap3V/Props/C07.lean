/-
C07 — BER encoding and parsing are mutual inverses and encoding is canonical.
Statements only; proofs are references to Lemmas/*.  Model: Ldap3V/Model/Ber.lean (lber).
-/
import Ldap3V.Lemmas.BerParse
import Ldap3V.Lemmas.BerInt
namespace Ldap3V
open Spec

/-- Parsing the writer's output returns the identical tree and leaves trailing bytes untouched.
`WF`: class 0..3, tag numbers ≤ 30, lengths representable; `depth ≤ 64`: lber's `MAX_DEPTH`
(introduced by the C11 stack-overflow fix; deeper trees are rejected, see `C07_too_deep`). -/
theorem C07_parse_encode (t : Tlv) (rest : Bytes) (h : WF t) (hd : t.depth ≤ maxDepth)
    (hl : (encode t ++ rest).length < 18446744073709551616) :
    parseTag (encode t ++ rest) = .ok t rest :=
  pTag_enc t (encode t) _ 0 rest (enc_encode t h) (by simp at hl; omega) (by simp; omega) (by omega)

/-- Every valid definite-length encoding (any number of redundant length octets) parses to the
tree the independent relation `Spec.Enc` assigns to it. -/
theorem C07_all_definite_forms (t : Tlv) (bs rest : Bytes) (h : Enc t bs) (hd : t.depth ≤ maxDepth)
    (hl : (bs ++ rest).length < 18446744073709551616) :
    parseTag (bs ++ rest) = .ok t rest :=
  pTag_enc t bs _ 0 rest h (by simp at hl; omega) (by simp; omega) (by omega)

/-- Emitted lengths are definite, and minimal among all definite encodings of the same length;
short form below 128, long form with a non-zero leading octet from 128 on. -/
theorem C07_len_definite_minimal (n : Nat) (h : n < 18446744073709551616) :
    LenEnc n (encLen n) ∧ (∀ bs, LenEnc n bs → (encLen n).length ≤ bs.length) ∧
    (n < 128 → encLen n = [n.toUInt8]) ∧
    (128 ≤ n → ∃ d ds, encLen n = (0x80 + (d :: ds).length).toUInt8 :: d :: ds ∧ d ≠ 0 ∧ beVal (d :: ds) = n) := by
  refine ⟨lenEnc_encLen n h, fun bs hb => encLen_minimal n bs hb, ?_, ?_⟩
  · intro hn; simp [encLen, hn]
  · intro hn
    obtain ⟨d, ds, e, hd⟩ := be256_head_ne_zero n (by omega)
    refine ⟨d, ds, ?_, hd, ?_⟩
    · simp [encLen, show ¬ n < 128 by omega, e]
    · rw [← e]; exact beVal_be256 n

/-- INTEGER / ENUMERATED content octets are the shortest two's complement octets of the value,
for every 64-bit integer. -/
theorem C07_int (v : Int) (h1 : -9223372036854775808 ≤ v) (h2 : v < 9223372036854775808) :
    twos (intOctets v) = v ∧ Minimal (intOctets v) ∧ intOctets v ≠ [] :=
  int_main v h1 h2

/-- the typed front end puts exactly those octets into the tree -/
theorem C07_int_tags (c i : Nat) (v : Int) :
    (Tag.integer c i v).toTlv = .prim c i (intOctets v) ∧ (Tag.enumerated c i v).toTlv = .prim c i (intOctets v) :=
  ⟨by simp [Tag.toTlv], by simp [Tag.toTlv]⟩

theorem C07_bool_true : boolOctet true = [0xFF] ∧ boolOctet false = [0x00] := ⟨rfl, rfl⟩

/-! ### non-vacuity: the hypotheses are met by non-trivial values (tests, labelled as such) -/

/-- a nested tree with a constructed child and a 3-octet value -/
example : WF (.cons 0 16 [.prim 0 2 [1], .cons 2 0 [.prim 0 4 [0x61, 0x62, 0x63]]]) ∧
    (Tlv.cons 0 16 [.prim 0 2 [1], .cons 2 0 [.prim 0 4 [0x61, 0x62, 0x63]]]).depth ≤ maxDepth := by
  simp [WF, WFList, encodeList, encode, encType, encLen, Tlv.depth, Tlv.depthList, maxDepth]

/-- a non-minimal length form is in `Enc`: `04 81 01 61` encodes the one-octet string "a" -/
example : Enc (.prim 0 4 [0x61]) [0x04, 0x81, 0x01, 0x61] := by
  refine ⟨by decide, by decide, [0x81, 0x01], Or.inr ⟨[0x01], by decide, by decide, by decide, by decide⟩, by decide⟩

example : intOctets (-129) = [0xFF, 0x7F] ∧ intOctets 128 = [0x00, 0x80] ∧ intOctets (-128) = [0x80] := by decide
example : encLen 127 = [0x7F] ∧ encLen 128 = [0x81, 0x80] ∧ encLen 255 = [0x81, 0xFF] ∧
    encLen 256 = [0x82, 0x01, 0x00] ∧ encLen 65535 = [0x82, 0xFF, 0xFF] ∧ encLen 65536 = [0x83, 0x01, 0x00, 0x00] := by
  simp [encLen, be256]

end Ldap3V

/-
C01 — responses are routed to the operation whose message ID they carry.
Model: Model/Conn.lean (the driver loop of conn.rs, `op_call`, the channel-level actions of a
search stream).  The theorems quantify over ALL event lists: any number of operations from any
handles, any server response order, any resolution of the driver's `select!` races, faults at any
point; byte-level segmentation is factored out by C06 (frames, not bytes, arrive here).
-/
import Ldap3V.Lemmas.ConnRouteStep
namespace Ldap3V.Conn

/-- Whatever the history: a response sitting in an operation's mailbox (what `op_call` will return)
carries that operation's own message ID and is one of the frames the server sent; every item
pushed to a search's channel (what `next()` will yield) carries the ID of that search. -/
theorem C01_routing (N : Nat) (evs : List Ev) :
    let s := run (init N) evs
    (∀ (i : Nat) (o : Op) (f : Frame), s.ops[i]? = some o → o.mail = Mail.frame f →
      f.id = (o.id : Int) ∧ f ∈ s.srvLog) ∧
    (∀ (c : Nat) (ch : Chan) (it : Item), s.chans[c]? = some ch → it ∈ ch.items →
      ∃ o : Op, s.ops[ch.opIdx]? = some o ∧ (itemFrame it).id = (o.id : Int) ∧ itemFrame it ∈ s.srvLog) := by
  intro s
  have h := RouteInv.run N evs
  refine ⟨fun i o f ho hm => ⟨h.mail i o f ho hm, List.mem_of_mem_take (h.mailLog i o f ho hm)⟩,
    fun c ch it hc hit => ?_⟩
  obtain ⟨o, ho, hid⟩ := h.items c ch it hc hit
  refine ⟨o, ho, hid, ?_⟩
  have hsub := h.itemsLog c ch hc
  exact List.mem_of_mem_take (hsub.subset (List.mem_map_of_mem hit))

/-- Each search sees its responses in the order the server sent them: the items of a channel form
a subsequence of the server's frames carrying that search's ID, in sending order. -/
theorem C01_order (N : Nat) (evs : List Ev) :
    let s := run (init N) evs
    ∀ (c : Nat) (ch : Chan) (o : Op), s.chans[c]? = some ch → s.ops[ch.opIdx]? = some o →
      (ch.items.map itemFrame).Sublist (s.srvLog.filter fun f => f.id == (o.id : Int)) := by
  intro s c ch o hc ho
  have h := RouteInv.run N evs
  have hsub : (ch.items.map itemFrame).Sublist s.srvLog := (h.itemsLog c ch hc).trans (List.take_sublist _ _)
  have hall : ∀ f ∈ ch.items.map itemFrame, (f.id == (o.id : Int)) = true := by
    intro f hf
    obtain ⟨it, hit, rfl⟩ := List.mem_map.mp hf
    obtain ⟨o2, ho2, hid⟩ := h.items c ch it hc hit
    rw [ho] at ho2; cases ho2
    simp [hid]
  have := hsub.filter (fun f => f.id == (o.id : Int))
  rwa [List.filter_eq_self.mpr hall] at this

/-- A response whose ID matches no outstanding operation (unsolicited, late, unknown) is delivered
to nobody and disturbs nothing: the only effect of the driver step is that the frame is consumed. -/
theorem C01_unmatched_inert (s : St) (f : Frame) (hd : s.drv = .running) (hf : s.srvLog[s.pos]? = some f)
    (h1 : lookup s.searchmap f.id = none) (h2 : lookup s.resultmap f.id = none) :
    step s .drvResp = some ({ s with pos := s.pos + 1 }, .none) := by
  simp [step, hd, hf, h1, h2]

/-- A response under the ID of a registered single-result operation is handed to exactly that
operation (its reply slot is filled if it is still empty) and to nobody else: every other operation
and every search channel is untouched.  With `C01_classification` (search IDs) and
`C01_unmatched_inert` (no registration) this is the complete case analysis of what the driver does
with a frame: it goes to the operation registered under its ID, or to nobody. -/
theorem C01_single_delivery (s : St) (f : Frame) (i : Nat) (hd : s.drv = .running)
    (hf : s.srvLog[s.pos]? = some f) (h1 : lookup s.searchmap f.id = none) (h2 : lookup s.resultmap f.id = some i) :
    ∃ s', step s .drvResp = some (s', .none) ∧ s'.chans = s.chans ∧ s'.searchmap = s.searchmap ∧
      (∀ j, j ≠ i → s'.ops[j]? = s.ops[j]?) ∧
      (∀ o, s.ops[i]? = some o → s'.ops[i]? = some (if o.mail = .empty then { o with mail := .frame f } else o)) := by
  have e : step s .drvResp = some (({ s with
      pos := s.pos + 1
      resultmap := erase s.resultmap f.id
      ops := modifyOp s.ops i (fun o => if o.mail = .empty then { o with mail := .frame f } else o)
      inUse := eraseId s.inUse f.id } : St), .none) := by
    simp [step, hd, hf, h1, h2]
  refine ⟨_, e, rfl, rfl, ?_, ?_⟩
  · intro j hji
    show (modifyOp s.ops i _)[j]? = _
    rw [modifyOp_get, if_neg hji]
  · intro o ho
    show (modifyOp s.ops i _)[i]? = _
    rw [modifyOp_get, if_pos rfl, ho]
    rfl

/-- For a search ID the item kind is decided by the protocolOp number of the frame: entries (4),
intermediate responses (25) and references (19) are handed on as items and the search stays
registered; 5 is the final result, after which the routing entry and the ID are released. -/
theorem C01_classification (s : St) (c : Nat) (ch : Chan) (f : Frame) (hc : s.chans[c]? = some ch)
    (halive : ch.rxAlive = true) :
    ((f.op = 4 ∨ f.op = 25 ∨ f.op = 19) →
      routeSearch s c f = { s with chans := s.chans.set c { ch with items := ch.items ++ [.entry f] } }) ∧
    (f.op = 5 → f.good = true →
      routeSearch s c f = { s with chans := s.chans.set c { ch with items := ch.items ++ [.done f] },
                                   searchmap := erase s.searchmap f.id, inUse := eraseId s.inUse f.id }) := by
  constructor
  · intro h
    simp only [routeSearch, if_pos h, hc, halive, modifyChan]
    simp
  · intro h5 hg
    have h4 : ¬ (f.op = 4 ∨ f.op = 25 ∨ f.op = 19) := by omega
    simp only [routeSearch, if_neg h4, if_pos h5, hg, hc, halive, modifyChan]
    simp

/-! ### non-vacuity (tests): two concurrent operations, responses in the opposite order -/
def exEvs : List Ev :=
  [.alloc .single, .enqueue 0 none, .alloc .search, .enqueue 1 none, .drvOp true, .drvOp true,
   .srvSend ⟨2, 4, 70, false⟩, .srvSend ⟨1, 11, 71, true⟩, .srvSend ⟨9, 11, 72, true⟩, .drvResp, .drvResp, .drvResp]

example : ((run (init 100) exEvs).ops.map (·.mail)) = [.frame ⟨1, 11, 71, true⟩, .ack] ∧
    ((run (init 100) exEvs).chans.map (·.items)) = [[.entry ⟨2, 4, 70, false⟩]] := by decide

end Ldap3V.Conn

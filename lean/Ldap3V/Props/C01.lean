/-
C01 — responses are routed to the operation whose message ID they carry.
Model: Model/Conn.lean (the driver loop of conn.rs, `op_call`, the channel-level actions of a
search stream).  The theorems quantify over ALL event lists: any number of operations from any
handles, any server response order, any resolution of the driver's `select!` races, faults at any
point; byte-level segmentation is factored out by C06 (frames, not bytes, arrive here).
Soundness of delivery: `C01_routing`, `C01_order` (what arrives is a subsequence of what was sent under
that ID).  Completeness of delivery: `C01_complete` (+ `_classified`, `_inv`, `_nowrap`): a search
receives EVERY frame the server sent under its ID from the moment the driver handled its request,
in order, up to and including its Done.  Caller level: `C01_caller_result`, `C01_caller_items`.
Non-interference of unmatched frames over whole histories: `C01_unmatched_is_invisible`.
-/
import Ldap3V.Lemmas.ConnRouteStep
import Ldap3V.Lemmas.ConnCompleteRun
import Ldap3V.Lemmas.ConnCompleteCaller
import Ldap3V.Lemmas.ConnUniq
import Ldap3V.Lemmas.ConnInert
import Ldap3V.Gen.DrvClass
namespace Ldap3V.Conn

/-- Whatever the history: a response sitting in an operation's mailbox (what `op_call` will return)
carries that operation's own message ID and is one of the frames the server sent; every item
pushed to a search's channel (what `next()` will yield) carries the ID of that search. -/
theorem C01_routing (N : Nat) (evs : List Ev) :
    let s := run (init N) evs
    (∀ (i : Nat) (o : Op) (f : Frame), s.ops[i]? = some o → o.mail = Mail.frame f →
      f.id = (o.id : Int) ∧ f ∈ s.srvLog) ∧
    (∀ (c : Nat) (ch : Chan) (it : Item), s.chans[c]? = some ch → it ∈ ch.items →
      ∃ o : Op, s.ops[ch.opIdx]? = some o ∧ (itemFrame it).id = (o.id : Int) ∧ itemFrame it ∈ s.srvLog) := by
  intro s
  have h := RouteInv.run N evs
  refine ⟨fun i o f ho hm => ⟨h.mail i o f ho hm, List.mem_of_mem_take (h.mailLog i o f ho hm)⟩,
    fun c ch it hc hit => ?_⟩
  obtain ⟨o, ho, hid⟩ := h.items c ch it hc hit
  refine ⟨o, ho, hid, ?_⟩
  have hsub := h.itemsLog c ch hc
  exact List.mem_of_mem_take (hsub.subset (List.mem_map_of_mem hit))

/-- Each search sees its responses in the order the server sent them: the items of a channel form
a subsequence of the server's frames carrying that search's ID, in sending order. -/
theorem C01_order (N : Nat) (evs : List Ev) :
    let s := run (init N) evs
    ∀ (c : Nat) (ch : Chan) (o : Op), s.chans[c]? = some ch → s.ops[ch.opIdx]? = some o →
      (ch.items.map itemFrame).Sublist (s.srvLog.filter fun f => f.id == (o.id : Int)) := by
  intro s c ch o hc ho
  have h := RouteInv.run N evs
  have hsub : (ch.items.map itemFrame).Sublist s.srvLog := (h.itemsLog c ch hc).trans (List.take_sublist _ _)
  have hall : ∀ f ∈ ch.items.map itemFrame, (f.id == (o.id : Int)) = true := by
    intro f hf
    obtain ⟨it, hit, rfl⟩ := List.mem_map.mp hf
    obtain ⟨o2, ho2, hid⟩ := h.items c ch it hc hit
    rw [ho] at ho2; cases ho2
    simp [hid]
  have := hsub.filter (fun f => f.id == (o.id : Int))
  rwa [List.filter_eq_self.mpr hall] at this

/-- A response whose ID matches no outstanding operation (unsolicited, late, unknown) is delivered
to nobody and disturbs nothing: the only effect of the driver step is that the frame is consumed. -/
theorem C01_unmatched_inert (s : St) (f : Frame) (hd : s.drv = .running) (hf : s.srvLog[s.pos]? = some f)
    (h1 : lookup s.searchmap f.id = none) (h2 : lookup s.resultmap f.id = none) :
    step s .drvResp = some ({ s with pos := s.pos + 1 }, .none) := by
  simp [step, hd, hf, h1, h2]

/-- A response under the ID of a registered single-result operation is handed to exactly that
operation (its reply slot is filled if it is still empty) and to nobody else: every other operation
and every search channel is untouched.  With `C01_classification` (search IDs) and
`C01_unmatched_inert` (no registration) this is the complete case analysis of what the driver does
with a frame: it goes to the operation registered under its ID, or to nobody. -/
theorem C01_single_delivery (s : St) (f : Frame) (i : Nat) (hd : s.drv = .running)
    (hf : s.srvLog[s.pos]? = some f) (h1 : lookup s.searchmap f.id = none) (h2 : lookup s.resultmap f.id = some i) :
    ∃ s', step s .drvResp = some (s', .none) ∧ s'.chans = s.chans ∧ s'.searchmap = s.searchmap ∧
      (∀ j, j ≠ i → s'.ops[j]? = s.ops[j]?) ∧
      (∀ o, s.ops[i]? = some o → s'.ops[i]? = some (if o.mail = .empty then { o with mail := .frame f } else o)) := by
  have e : step s .drvResp = some (({ s with
      pos := s.pos + 1
      resultmap := erase s.resultmap f.id
      ops := modifyOp s.ops i (fun o => if o.mail = .empty then { o with mail := .frame f } else o)
      inUse := eraseId s.inUse f.id } : St), .none) := by
    simp [step, hd, hf, h1, h2]
  refine ⟨_, e, rfl, rfl, ?_, ?_⟩
  · intro j hji
    show (modifyOp s.ops i _)[j]? = _
    rw [modifyOp_get, if_neg hji]
  · intro o ho
    show (modifyOp s.ops i _)[i]? = _
    rw [modifyOp_get, if_pos rfl, ho]
    rfl

/-- For a search ID the item kind is decided by the protocolOp number of the frame: entries (4),
intermediate responses (25) and references (19) are handed on as items and the search stays
registered; 5 is the final result, after which the routing entry and the ID are released. -/
theorem C01_classification (s : St) (c : Nat) (ch : Chan) (f : Frame) (hc : s.chans[c]? = some ch)
    (halive : ch.rxAlive = true) :
    ((f.op = 4 ∨ f.op = 25 ∨ f.op = 19) →
      routeSearch s c f = { s with chans := s.chans.set c { ch with items := ch.items ++ [.entry f] } }) ∧
    (f.op = 5 → f.good = true →
      routeSearch s c f = { s with chans := s.chans.set c { ch with items := ch.items ++ [.done f] },
                                   searchmap := erase s.searchmap f.id, inUse := eraseId s.inUse f.id }) := by
  constructor
  · intro h
    simp only [routeSearch, if_pos h, hc, halive, modifyChan]
    simp
  · intro h5 hg
    have h4 : ¬ (f.op = 4 ∨ f.op = 25 ∨ f.op = 19) := by omega
    simp only [routeSearch, if_neg h4, if_pos h5, hg, hc, halive, modifyChan]
    simp

/-- the classification `routeSearch` applies to the protocolOp number of a frame for a running search -/
def itemClassOf (op : Nat) : Rust.ItemClass :=
  if op = 4 ∨ op = 25 ∨ op = 19 then .item else if op = 5 then .done else .bad

/-- **tie by regeneration** (translate/drv_class.py): the `match protoop.id { … }` of the driver's response arm as
written in src/conn.rs today — its patterns and what each arm does — classifies EVERY protocolOp number the way
the model's `routeSearch` does (`itemClassOf`; the next theorem says that this is what `routeSearch` acts on). -/
theorem C01_classification_source (op : Nat) : Gen.driver_item_class op = itemClassOf op := by
  unfold Gen.driver_item_class itemClassOf
  by_cases h4 : op = 4
  · subst h4; rfl
  · by_cases h25 : op = 25
    · subst h25; rfl
    · by_cases h19 : op = 19
      · subst h19; rfl
      · by_cases h5 : op = 5
        · subst h5; rfl
        · simp [h4, h25, h19, h5]

/-- … and `routeSearch` acts on that class and on nothing else of the frame's kind: `bad`, or a final result that
does not decode, ends the connection with an error; an item or a well-formed final result leaves the driver running. -/
theorem C01_route_by_class (s : St) (c : Nat) (f : Frame) :
    ((itemClassOf f.op = .bad ∨ (itemClassOf f.op = .done ∧ f.good = false)) →
      routeSearch s c f = endDriver s .endedErr) ∧
    ((itemClassOf f.op = .item ∨ (itemClassOf f.op = .done ∧ f.good = true)) →
      (routeSearch s c f).drv = s.drv ∧ (routeSearch s c f).resultmap = s.resultmap) := by
  unfold itemClassOf
  by_cases h1 : f.op = 4 ∨ f.op = 25 ∨ f.op = 19
  · simp only [h1, if_true]
    refine ⟨fun h => ?_, fun _ => ?_⟩
    · rcases h with h | ⟨h, _⟩ <;> cases h
    · simp only [routeSearch, if_pos h1]
      repeat' split
      all_goals (first | exact ⟨rfl, rfl⟩ | (constructor <;> rfl))
  · simp only [h1, if_false]
    by_cases h5 : f.op = 5
    · simp only [h5, if_true]
      refine ⟨fun h => ?_, fun h => ?_⟩
      · rcases h with h | ⟨_, hg⟩
        · cases h
        · simp [routeSearch, h5, hg]
      · rcases h with h | ⟨_, hg⟩
        · cases h
        · simp only [routeSearch, if_neg h1, if_pos h5, hg, if_true]
          repeat' split
          all_goals (first | exact ⟨rfl, rfl⟩ | (constructor <;> rfl))
    · simp only [h5, if_false]
      refine ⟨fun _ => by simp [routeSearch, h1, h5], fun h => ?_⟩
      rcases h with h | ⟨h, _⟩ <;> cases h

example : Gen.driver_item_class 4 = .item ∧ Gen.driver_item_class 19 = .item ∧ Gen.driver_item_class 5 = .done ∧
    Gen.driver_item_class 11 = .bad ∧ Gen.driver_item_class 0 = .bad := by decide

/-! ### an unmatched response disturbs nobody — now or later

`C01_unmatched_inert` is the single step.  History level: take ANY history `a` after which the driver is
running, the link is up (the server can send) and the driver has read everything the server sent so
far, and a frame `f` whose ID is in neither routing map.  Let the server send `f` and the driver read
it — or not — and then let ANYTHING happen (`b`).  The two executions agree on every component of the
state except the bookkeeping of the server log (`SameBut`: operations with their mailboxes and results,
channels with their items, the wire, the ID table, both routing maps, both queues, the driver's and
the link's state, the clock; and the frames the driver has not read yet are the same), and every
event of `b` is enabled in the same cases and shows the same observation (`observe`: IDs handed out,
`op_call` results, stream items, time-outs, …). -/
theorem C01_unmatched_is_invisible (N : Nat) (a b : List Ev) (f : Frame)
    (hd : (run (init N) a).drv = .running) (hl : (run (init N) a).link = .up)
    (hp : (run (init N) a).pos = (run (init N) a).srvLog.length)
    (h1 : lookup (run (init N) a).searchmap f.id = none) (h2 : lookup (run (init N) a).resultmap f.id = none) :
    SameBut (run (init N) (a ++ b)) (run (init N) (a ++ [.srvSend f, .drvResp] ++ b)) ∧
    observe (run (init N) a) b = observe (run (init N) (a ++ [.srvSend f, .drvResp])) b := by
  rw [List.append_assoc, run_concat a b, run_concat a ([Ev.srvSend f, Ev.drvResp] ++ b), run_concat a [Ev.srvSend f, Ev.drvResp]]
  exact unmatched_invisible (run (init N) a) b f hd hl hp h1 h2

/-- the same from any state (not only reachable ones) -/
theorem C01_unmatched_is_invisible_from (s : St) (b : List Ev) (f : Frame) (hd : s.drv = .running) (hl : s.link = .up)
    (hp : s.pos = s.srvLog.length) (h1 : lookup s.searchmap f.id = none) (h2 : lookup s.resultmap f.id = none) :
    SameBut (run s b) (run s ([.srvSend f, .drvResp] ++ b)) ∧ observe s b = observe (run s [.srvSend f, .drvResp]) b :=
  unmatched_invisible s b f hd hl hp h1 h2

/-! non-vacuity: two operations in flight, a stray frame with ID 7 arrives before their responses -/
def exInertPre : List Ev :=
  [.alloc .single, .enqueue 0 none, .alloc .search, .enqueue 1 none, .drvOp true, .drvOp true, .poll 1]

def exInertPost : List Ev :=
  [.srvSend ⟨2, 4, 70, false⟩, .srvSend ⟨1, 11, 71, true⟩, .drvResp, .recv 0 none, .drvResp, .poll 0, .alloc .single]

def exStray : Frame := ⟨7, 11, 99, true⟩

example :
    (run (init 100) exInertPre).drv = .running ∧ (run (init 100) exInertPre).link = .up ∧
    (run (init 100) exInertPre).pos = (run (init 100) exInertPre).srvLog.length ∧
    lookup (run (init 100) exInertPre).searchmap exStray.id = none ∧
    lookup (run (init 100) exInertPre).resultmap exStray.id = none := by
  refine ⟨by decide, by decide, by decide, by decide, by decide⟩

/-- what the theorem says, computed on the example: same observations, same results, same items; only
the read position differs -/
example :
    observe (run (init 100) exInertPre) exInertPost =
      [some .none, some .none, some .none, some (.item (some (.entry ⟨2, 4, 70, false⟩))), some .none,
       some (.res (some (.frame ⟨1, 11, 71, true⟩))), some (.id 3)] ∧
    observe (run (init 100) (exInertPre ++ [.srvSend exStray, .drvResp])) exInertPost =
      [some .none, some .none, some .none, some (.item (some (.entry ⟨2, 4, 70, false⟩))), some .none,
       some (.res (some (.frame ⟨1, 11, 71, true⟩))), some (.id 3)] ∧
    (run (init 100) (exInertPre ++ [.srvSend exStray, .drvResp] ++ exInertPost)).pos = 3 ∧
    (run (init 100) (exInertPre ++ exInertPost)).pos = 2 := by
  refine ⟨by decide, by decide, by decide, by decide⟩

/-! ### non-vacuity (tests): two concurrent operations, responses in the opposite order -/
def exEvs : List Ev :=
  [.alloc .single, .enqueue 0 none, .alloc .search, .enqueue 1 none, .drvOp true, .drvOp true,
   .srvSend ⟨2, 4, 70, false⟩, .srvSend ⟨1, 11, 71, true⟩, .srvSend ⟨9, 11, 72, true⟩, .drvResp, .drvResp, .drvResp]

example : ((run (init 100) exEvs).ops.map (·.mail)) = [.frame ⟨1, 11, 71, true⟩, .ack] ∧
    ((run (init 100) exEvs).chans.map (·.items)) = [[.entry ⟨2, 4, 70, false⟩]] := by decide

/-! ### completeness: nothing the server sent for a search is dropped

`C01_routing` / `C01_order` say that what a search receives is a SUBSEQUENCE of what the server sent
under its ID; a driver that silently dropped entries would satisfy them.  The theorems below close
that gap, for ALL event lists and without any schedule hypothesis (no `FreshRun`: the facts needed —
`searchmap` has one entry per key, a request sits in the queue once — are structural). -/

/-- Completeness, with the start position pinned.  Take ANY history `pre`, after which the driver
is running and the request at the head of its queue is operation `i` = `o` with channel `c` (a
search); let the driver handle it (`drvOp b`, either outcome of the write), at read position
`p0 = s0.pos`; then let ANYTHING happen (`post`).  In the resulting state `s`:
(a) as long as the search is still registered, the channel holds no Done, only entries/references/
    intermediate responses, and — if its receiver is alive — the frames in it are EXACTLY the frames
    with `o`'s ID among `srvLog[p0 .. pos)`, in order (nothing dropped, nothing added, nothing
    reordered);
(b) if the channel holds a Done `f`, it is the last item, it was read at some position `p1 - 1`, and
    the channel holds EXACTLY the frames with `o`'s ID among `srvLog[p0 .. p1)`.
(If an Unbind has been written in `pre` the sink is closed and `drvOp true` is not an enabled event — `run` skips
it; the statement still holds: such a search is never registered and its channel stays empty, `shut_from`.) -/
theorem C01_complete (N : Nat) (pre post : List Ev) (b : Bool) (i c : Nat) (o : Op) :
    let s0 := run (init N) pre
    let s := run (init N) (pre ++ Ev.drvOp b :: post)
    s0.drv = .running → s0.opQ.head? = some i → s0.ops[i]? = some o → o.chan = some c →
    ∀ ch, s.chans[c]? = some ch →
      ((o.id, c) ∈ s.searchmap →
        (∀ it ∈ ch.items, ∃ f, it = .entry f ∧ (f.op = 4 ∨ f.op = 25 ∨ f.op = 19)) ∧
        (ch.rxAlive = true →
          ch.items.map itemFrame = ((s.srvLog.take s.pos).drop s0.pos).filter (fun f => f.id == (o.id : Int)))) ∧
      (∀ f, Item.done f ∈ ch.items →
        ∃ (p1 : Nat) (es : List Item), s0.pos < p1 ∧ p1 ≤ s.pos ∧ s.srvLog[p1 - 1]? = some f ∧ f.op = 5 ∧ f.good = true ∧
          ch.items = es ++ [Item.done f] ∧ (∀ it ∈ es, ∃ g, it = .entry g ∧ (g.op = 4 ∨ g.op = 25 ∨ g.op = 19)) ∧
          ch.items.map itemFrame = ((s.srvLog.take p1).drop s0.pos).filter (fun g => g.id == (o.id : Int))) := by
  intro s0 s hd hq ho hc ch hch
  by_cases hsk : b = true → s0.sinkClosed = false
  · obtain ⟨hcat, ch2, o2, hc2, hx, ho2, hid, _⟩ := complete_from N pre post b hd hq ho hc hsk
    have hc2 : s.chans[c]? = some ch2 := hc2
    rw [hch] at hc2; cases hc2
    refine ⟨fun hreg => hcat.explicit_open hch hreg, fun f hf => ?_⟩
    have := hcat.explicit_closed (RouteInv.run N _) hch (by rw [hx]; exact ho2) hf
    rw [hid] at this
    exact this
  · -- an Unbind has been written before: `drvOp true` is not enabled, the search is never registered, its channel stays empty
    have hcl : s0.sinkClosed = true := by
      cases hb : s0.sinkClosed with
      | true => rfl
      | false => exact absurd (fun _ => hb) hsk
    have hshut := shut_from N pre (Ev.drvOp b :: post) hq ho hc hcl
    refine ⟨fun hreg => absurd hreg (hshut.unreg _), fun f hf => ?_⟩
    rw [hshut.empty ch hch] at hf; cases hf

/-- (a) of `C01_complete` in the form "every deliverable frame": while the search is registered and
its receiver alive, the channel's content is exactly the consumed frames from `p0` on that carry the
search's ID and are something `routeSearch` hands on (entry 4 / reference 19 / intermediate 25 /
well-formed Done 5).  (Any OTHER frame under a registered search's ID ends the connection, fix F4,
so the two filters agree.) -/
theorem C01_complete_classified (N : Nat) (pre post : List Ev) (b : Bool) (i c : Nat) (o : Op) :
    let s0 := run (init N) pre
    let s := run (init N) (pre ++ Ev.drvOp b :: post)
    s0.drv = .running → s0.opQ.head? = some i → s0.ops[i]? = some o → o.chan = some c →
    ∀ ch, s.chans[c]? = some ch → (o.id, c) ∈ s.searchmap → ch.rxAlive = true →
      ch.items.map itemFrame =
        ((s.srvLog.take s.pos).drop s0.pos).filter (fun f => f.id == (o.id : Int) && deliverable f) := by
  intro s0 s hd hq ho hc ch hch hreg hal
  by_cases hsk : b = true → s0.sinkClosed = false
  · obtain ⟨hcat, _⟩ := complete_from N pre post b hd hq ho hc hsk
    exact filter_deliverable (fun it hit => hcat.cls ch it hch hit) ((hcat.explicit_open hch hreg).2 hal)
  · -- after an Unbind the search is never registered
    have hcl : s0.sinkClosed = true := by
      cases hb : s0.sinkClosed with
      | true => rfl
      | false => exact absurd (fun _ => hb) hsk
    have hshut := shut_from N pre (Ev.drvOp b :: post) hq ho hc hcl
    exact absurd hreg (hshut.unreg _)

/-- Completeness as an invariant of every reachable state (start position existentially
quantified): a search channel whose request the driver has not yet taken off the queue is empty and
not registered; once it has been taken, there is a read position `p0` from which (a) and (b) of
`C01_complete` hold. -/
theorem C01_complete_inv (N : Nat) (evs : List Ev) :
    let s := run (init N) evs
    ∀ (c : Nat) (ch : Chan) (o : Op), s.chans[c]? = some ch → s.ops[ch.opIdx]? = some o →
      (o.phase ≠ .taken → ch.items = [] ∧ ∀ k, (k, c) ∉ s.searchmap) ∧
      (o.phase = .taken → ∃ p0, p0 ≤ s.pos ∧
        ((o.id, c) ∈ s.searchmap →
          (∀ it ∈ ch.items, ∃ f, it = .entry f ∧ (f.op = 4 ∨ f.op = 25 ∨ f.op = 19)) ∧
          (ch.rxAlive = true →
            ch.items.map itemFrame = ((s.srvLog.take s.pos).drop p0).filter (fun f => f.id == (o.id : Int)))) ∧
        (∀ f, Item.done f ∈ ch.items →
          ∃ (p1 : Nat) (es : List Item), p0 < p1 ∧ p1 ≤ s.pos ∧ s.srvLog[p1 - 1]? = some f ∧ f.op = 5 ∧ f.good = true ∧
            ch.items = es ++ [Item.done f] ∧ (∀ it ∈ es, ∃ g, it = .entry g ∧ (g.op = 4 ∨ g.op = 25 ∨ g.op = 19)) ∧
            ch.items.map itemFrame = ((s.srvLog.take p1).drop p0).filter (fun g => g.id == (o.id : Int)))) := by
  intro s c ch o hch ho
  have hg := Good.run N evs
  obtain ⟨o2, ho2, hcase⟩ := hg.p c ch hch
  have ho2 : s.ops[ch.opIdx]? = some o2 := ho2
  rw [ho] at ho2; cases ho2
  constructor
  · intro hnt
    rcases hcase with ⟨ht, _⟩ | ⟨_, he, hno⟩
    · exact absurd ht hnt
    · exact ⟨he, hno⟩
  · intro ht
    rcases hcase with ⟨_, p0, hcat⟩ | ⟨hnt, _⟩
    · refine ⟨p0, ?_, fun hreg => hcat.explicit_open hch hreg, fun f hf => hcat.explicit_closed hg.route hch ho hf⟩
      have := hcat.le
      rwa [consumed_length hg.route.posLe] at this
    · exact absurd ht hnt

/-- `C01_complete` needs no schedule hypothesis.  What the no-wrap hypothesis (at most `N`
allocations, discharging `FreshRun2`, finding F13) ADDS: while the search is registered, no other
operation the connection still knows about (between allocation and queueing, queued, or registered in
a routing map) has the same message ID — so "the frames with `o`'s ID" in (a) can only have been
meant for `o`. -/
theorem C01_complete_nowrap (N : Nat) (pre post : List Ev) (b : Bool) (i c : Nat) (o : Op)
    (hcount : allocCount (pre ++ Ev.drvOp b :: post) ≤ N) :
    let s0 := run (init N) pre
    let s := run (init N) (pre ++ Ev.drvOp b :: post)
    s0.drv = .running → s0.opQ.head? = some i → s0.ops[i]? = some o → o.chan = some c →
    ∀ ch, s.chans[c]? = some ch → (o.id, c) ∈ s.searchmap →
      (ch.rxAlive = true →
        ch.items.map itemFrame = ((s.srvLog.take s.pos).drop s0.pos).filter (fun f => f.id == (o.id : Int))) ∧
      (∀ (j : Nat) (oj : Op), s.ops[j]? = some oj → Live s j oj → oj.id = o.id → j = i) := by
  intro s0 s hd hq ho hc ch hch hreg
  have hsk : b = true → s0.sinkClosed = false := by
    -- after an Unbind the search is never registered
    intro _
    cases hcl : s0.sinkClosed with
    | false => rfl
    | true => exact absurd hreg ((shut_from N pre (Ev.drvOp b :: post) hq ho hc hcl).unreg _)
  obtain ⟨hcat, ch2, o2, hc2, hx, ho2, hid, _⟩ := complete_from N pre post b hd hq ho hc hsk
  have hc2 : s.chans[c]? = some ch2 := hc2
  rw [hch] at hc2; cases hc2
  refine ⟨(hcat.explicit_open hch hreg).2, fun j oj hoj hlive hidj => ?_⟩
  have hu : Uniq s := Uniq.run N _ (freshRun2_init N _ hcount)
  have ha : Acct s := Acct.run N _ (freshRun_init N _ hcount)
  obtain ⟨ch3, o3, hc3, ho3, _, hchan3, _⟩ := ha.smOk (o.id, c) hreg
  simp only at hc3 ho3 hchan3
  have hc3 : s.chans[c]? = some ch3 := hc3
  rw [hch] at hc3; cases hc3
  have ho2 : s.ops[i]? = some o2 := ho2
  rw [hx, ho2] at ho3; cases ho3
  have hlive2 : Live s i o2 := Or.inr (Or.inr (Or.inr ⟨c, hchan3, by rw [hid]; exact hreg⟩))
  exact hu.uniq j i oj o2 hoj ho2 hlive hlive2 (hidj.trans hid.symm)

/-! non-vacuity: two interleaved searches (IDs 1 and 2) and unsolicited frames (IDs 9 and 7).  The
driver registers search 1 at read position 0, reads the unsolicited frame, registers search 2 at
read position 1; then the server's answers arrive interleaved; search 1 completes. -/
def exPre : List Ev :=
  [.alloc .search, .enqueue 0 none, .alloc .search, .enqueue 1 none, .srvSend ⟨9, 4, 60, false⟩, .drvOp true, .drvResp]

def exPost : List Ev :=
  [.srvSend ⟨1, 4, 61, false⟩, .srvSend ⟨2, 4, 62, false⟩, .srvSend ⟨1, 19, 63, false⟩, .srvSend ⟨7, 11, 64, true⟩,
   .srvSend ⟨2, 25, 65, false⟩, .srvSend ⟨1, 5, 66, true⟩, .drvResp, .drvResp, .drvResp, .drvResp, .drvResp, .drvResp]

/-- the hypotheses of `C01_complete` hold for search 2 (operation 1, channel 1), with `p0 = 1` -/
example : (run (init 100) exPre).drv = .running ∧ (run (init 100) exPre).opQ.head? = some 1 ∧
    ((run (init 100) exPre).ops[1]?.map fun o => (o.id, o.chan)) = some (2, some 1) ∧ (run (init 100) exPre).pos = 1 := by
  decide

/-- the extra hypothesis of `C01_complete_nowrap` -/
example : allocCount (exPre ++ Ev.drvOp true :: exPost) ≤ 100 := by decide

/-- … and so does the premise of (a): search 2 is still registered, its receiver alive; its channel
holds the two frames with ID 2, which is what the right-hand side of (a) evaluates to.  Search 1
(channel 0, registered at position 0) is in case (b): Done read at position 7 - 1. -/
example :
    let s := run (init 100) (exPre ++ Ev.drvOp true :: exPost)
    s.searchmap = [(2, 1)] ∧ (s.chans.map (·.rxAlive)) = [true, true] ∧ s.pos = 7 ∧
    (s.chans.map fun ch => ch.items.map itemFrame) =
      [[⟨1, 4, 61, false⟩, ⟨1, 19, 63, false⟩, ⟨1, 5, 66, true⟩], [⟨2, 4, 62, false⟩, ⟨2, 25, 65, false⟩]] ∧
    ((s.srvLog.take s.pos).drop 1).filter (fun f => f.id == 2) = [⟨2, 4, 62, false⟩, ⟨2, 25, 65, false⟩] ∧
    ((s.srvLog.take 7).drop 0).filter (fun f => f.id == 1) = [⟨1, 4, 61, false⟩, ⟨1, 19, 63, false⟩, ⟨1, 5, 66, true⟩] ∧
    s.srvLog[7 - 1]? = some ⟨1, 5, 66, true⟩ := by
  decide

/-! ### what the CALLER received (not just what sits in a mailbox or channel) -/

/-- Whatever the history: a response that `op_call` RETURNED to its caller (`res = some (.frame f)`)
carries that operation's own message ID, decoded as an LDAPResult, and is one of the frames the
driver read from the server. -/
theorem C01_caller_result (N : Nat) (evs : List Ev) :
    let s := run (init N) evs
    ∀ (i : Nat) (o : Op) (f : Frame), s.ops[i]? = some o → o.res = some (.frame f) →
      f.id = (o.id : Int) ∧ f.good = true ∧ f ∈ s.srvLog.take s.pos :=
  fun i o f ho hres => ResInv.run N evs i o f ho hres

/-- Whatever the history: the items `next()` has handed to the consumer of search channel `c`, in
the order of the calls (`handed`: the items observed at the `recv` events of the history), are the
first `taken` items of the channel — no item skipped, repeated or reordered between the mailbox and
the caller.  With `C01_complete` / `C01_order`: a prefix of exactly what the server sent for it. -/
theorem C01_caller_items (N : Nat) (evs : List Ev) (c : Nat) :
    let s := run (init N) evs
    ∀ ch, s.chans[c]? = some ch → handed c (init N) evs = ch.items.take ch.taken ∧ ch.taken ≤ ch.items.length := by
  intro s ch hch
  have h0 : TakenLe (init N) := by intro c ch hc; simp [Conn.init] at hc
  obtain ⟨e1, e2⟩ := got_run c evs (init N) h0
  have hg0 : got (init N) c = [] := by simp [got, Conn.init]
  rw [hg0, List.nil_append] at e1
  refine ⟨?_, e2 c ch hch⟩
  rw [← e1]
  show got s c = _
  simp only [got, hch]

/-! non-vacuity: a single-result operation gets its response while a search is streaming; the
consumer of the search takes two of its three items -/
def exCaller : List Ev :=
  [.alloc .single, .enqueue 0 none, .alloc .search, .enqueue 1 none, .drvOp true, .drvOp true, .poll 1,
   .srvSend ⟨2, 4, 70, false⟩, .srvSend ⟨1, 11, 71, true⟩, .srvSend ⟨2, 4, 72, false⟩, .srvSend ⟨2, 5, 73, true⟩,
   .drvResp, .recv 0 none, .drvResp, .poll 0, .drvResp, .drvResp, .recv 0 none]

example : ((run (init 100) exCaller).ops.map (·.res)) = [some (.frame ⟨1, 11, 71, true⟩), some .ack] ∧
    handed 0 (init 100) exCaller = [.entry ⟨2, 4, 70, false⟩, .entry ⟨2, 4, 72, false⟩] ∧
    ((run (init 100) exCaller).chans.map fun ch => (ch.items.length, ch.taken)) = [(3, 2)] := by decide

end Ldap3V.Conn

import Ldap3V.Driver.Util
import Ldap3V.Model.Filter
import Ldap3V.Spec.Filter
namespace Ldap3V.Driver.FilterD
open Ldap3V Ldap3V.Driver

def showOutcome (o : Filter.Outcome) : String :=
  match o with
  | .ok t => "ok " ++ hexOf (encode t.toTlv)
  | .reject => "reject"
  | .panic => "panic"

mutual
/-- definite-length BER, low tag numbers, no depth limit (oracle side only: lber's own parser stops
at depth 64, filters may nest deeper) -/
partial def decTlv (i : Bytes) : Option (Tlv × Bytes) :=
  match i with
  | [] => none
  | b :: i1 =>
    match parseLen i1 with
    | .ok len i2 =>
      if i2.length < len then none
      else
        let content := i2.take len
        let rest := i2.drop len
        if (b.toNat / 32) % 2 == 1 then
          match decKids content with
          | some ks => some (.cons (b.toNat / 64) (b.toNat % 32) ks, rest)
          | none => none
        else some (.prim (b.toNat / 64) (b.toNat % 32) content, rest)
    | _ => none
partial def decKids (c : Bytes) : Option (List Tlv) :=
  if c.isEmpty then some []
  else match decTlv c with
    | some (t, r) => (decKids r).map (t :: ·)
    | none => none
end

/-- `spec.filter.print`: BER bytes → RFC 4511 filter (strict decoder) → canonical RFC 4515 string -/
def specPrint (bs : Bytes) : String :=
  match decTlv bs with
  | some (t, []) =>
    (match Spec.Filter.ofTlv t with
     | some f => if Spec.Filter.wf f then hexOf (Spec.Filter.print f) else "undecodable"
     | none => "undecodable")
  | _ => "undecodable"

/-- the alphabet of the exhaustive lane, in the lane's order:
`( ) & | ! = * \ : ; . - ~ < > a d n 0 2 f` NUL 0xff -/
def batchAlphabet : Array UInt8 :=
  #[0x28, 0x29, 0x26, 0x7C, 0x21, 0x3D, 0x2A, 0x5C, 0x3A, 0x3B, 0x2E, 0x2D, 0x7E, 0x3C, 0x3E,
    0x61, 0x64, 0x6E, 0x30, 0x32, 0x66, 0x00, 0xFF]

def fnvStep (h : UInt64) (b : UInt8) : UInt64 := (h ^^^ b.toUInt64) * 0x100000001b3

/-- the `idx`-th word of length `k` over the alphabet (most significant symbol first) -/
def batchWord (k idx : Nat) : Bytes := Id.run do
  let mut w : Bytes := []
  let mut n := idx
  for _ in [0:k] do
    w := batchAlphabet[n % 23]! :: w
    n := n / 23
  return w

/-- `filter.batch <prefix> <k>`: outcomes of `parse` on prefix ++ w for all words w of length k:
one letter per word (k = ok, r = reject, p = panic) and the FNV-1a hash of the accepted BERs -/
def filterBatch (pre : Bytes) (k : Nat) : String := Id.run do
  let mut letters : Array Char := #[]
  let mut h : UInt64 := 0xcbf29ce484222325
  for idx in [0:23 ^ k] do
    match Filter.parseO (pre ++ batchWord k idx) with
    | .ok t =>
      letters := letters.push 'k'
      for b in encode t.toTlv do h := fnvStep h b
      h := fnvStep h 0x0A
    | .reject => letters := letters.push 'r'
    | .panic => letters := letters.push 'p'
  return String.ofList letters.toList ++ " " ++ toString h.toNat

/-- `filter.batch3 <prefix>`: the 23 answers of `filter.batch (prefix ++ [a]) 2`, `a` over the
alphabet, joined by `;` (evaluated as parallel tasks) -/
def filterBatch3 (pre : Bytes) : String :=
  let tasks := batchAlphabet.toList.map fun a => Task.spawn fun _ => filterBatch (pre ++ [a]) 2
  ";".intercalate (tasks.map Task.get)

end Ldap3V.Driver.FilterD

namespace Ldap3V.Driver
open Ldap3V Ldap3V.Driver.FilterD

/-- line-protocol handler for the `Filter` family of commands; `none` = not mine -/
def handleFilter (cmd arg : String) : Option String :=
  match cmd with
  | "filter.parse" => some (match unhex arg with
      | some bs => showOutcome (Filter.parseO bs)
      | none => "bad-request")
  | "mv.parse" => some (match unhex arg with
      | some bs => showOutcome (Filter.parseMvO bs)
      | none => "bad-request")
  | "spec.filter.print" => some (match unhex arg with
      | some bs => specPrint bs
      | none => "bad-request")
  | "filter.batch" => some (match arg.splitOn " " with
      | [h, k] => (match unhex h, k.toNat? with
        | some bs, some k => if k ≤ 3 then filterBatch bs k else "bad-request"
        | _, _ => "bad-request")
      | _ => "bad-request")
  | "filter.batch3" => some (match unhex arg with
      | some bs => filterBatch3 bs
      | none => "bad-request")
  | "spec.filter.norm" => some (match unhex arg with
      | some bs => hexOf (Spec.Filter.normTop bs)
      | none => "bad-request")
  | _ => none

end Ldap3V.Driver

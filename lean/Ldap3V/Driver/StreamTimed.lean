import Ldap3V.Driver.Util
import Ldap3V.Model.StreamTimed
/-
Line protocol of the timed stream model (lane `timeouts`, C12):

  tstream.run <T|-> <tie:i|t> <t0> <a1:kind1,a2:kind2,…|-> [<think1,think2,…>]

  <T>      the stream's timeout in ms, `-` = none
  <tie>    `i`: at arrival = deadline the item is made ready before the timer fires; `t`: the timer first
  <t0>     virtual time at which the first next() starts
  <a:kind> arrival time and kind of each channel element: `i<tok>` item, `d<tok>` final result, `c` closed
  <think>  the caller's pause after each completed call (default: none)

Answer: what `drain` returns, `outcome@time;…` with outcome = item:<tok> | done:<tok> | closed | timeout | hang.
-/
namespace Ldap3V.Driver.StreamTimedD
open Ldap3V Ldap3V.StreamTimed Ldap3V.Driver

def parseKind (s : String) : Option What :=
  if s == "c" then some .closed
  else if s.startsWith "i" then (s.drop 1).toString.toNat?.map .item
  else if s.startsWith "d" then (s.drop 1).toString.toNat?.map .done
  else none

def parseElem (s : String) : Option (Nat × What) :=
  match s.splitOn ":" with
  | [a, k] =>
    match a.toNat?, parseKind k with
    | some a, some w => some (a, w)
    | _, _ => none
  | _ => none

def parseChan (s : String) : Option Chan :=
  if s == "-" then some [] else (s.splitOn ",").mapM parseElem

def parseNats (s : String) : Option (List Nat) :=
  if s == "-" then some [] else (s.splitOn ",").mapM (·.toNat?)

def parseT (s : String) : Option (Option Nat) :=
  if s == "-" then some none else s.toNat?.map some

def parseTie : String → Option Bool
  | "i" => some true
  | "t" => some false
  | _ => none

def showOutcome : Outcome → String
  | .item k => s!"item:{k}"
  | .done k => s!"done:{k}"
  | .closed => "closed"
  | .timeout => "timeout"
  | .hang => "hang"

def showDrain (l : List (Outcome × Nat)) : String :=
  ";".intercalate (l.map fun p => s!"{showOutcome p.1}@{p.2}")

def runCmd (arg : String) : String :=
  let ws := (arg.splitOn " ").filter (· ≠ "")
  let go (t tie t0 q : String) (think : String) : String :=
    match parseT t, parseTie tie, t0.toNat?, parseChan q, parseNats think with
    | some T, some tie, some t0, some q, some think => showDrain (drain T tie think t0 q)
    | _, _, _, _, _ => "bad-request"
  match ws with
  | [t, tie, t0, q] => go t tie t0 q "-"
  | [t, tie, t0, q, think] => go t tie t0 q think
  | _ => "bad-request"

end Ldap3V.Driver.StreamTimedD

namespace Ldap3V.Driver

/-- line-protocol handler for the timed stream model; `none` = not mine -/
def handleStreamTimed (cmd arg : String) : Option String :=
  match cmd with
  | "tstream.run" => some (StreamTimedD.runCmd arg)
  | _ => none

end Ldap3V.Driver

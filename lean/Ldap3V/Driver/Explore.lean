/- Random-walk explorer over Model.Conn (a SEARCH AID for counterexamples to candidate invariants
before they are stated as theorems; nothing here is a proof or part of a check's verdict). -/
import Ldap3V.Driver.Conn
namespace Ldap3V.Driver
open Ldap3V Ldap3V.Conn

def lcg (x : Nat) : Nat := (x * 6364136223846793005 + 1442695040888963407) % 18446744073709551616

def doneSeen (ch : Chan) : Bool := (ch.items.take ch.taken).any fun it => match it with | .done _ => true | _ => false

/-- client-visible completion of every operation (for the C13 quiescence candidate) -/
def opDone (s : St) (o : Op) : Bool :=
  match o.kind with
  | .search => o.res.isSome && (match o.chan with
      | some c => (match s.chans[c]? with | some ch => !ch.rxAlive || o.res != some .ack | none => true)
      | none => true)
  | _ => o.res.isSome

def quiescent (s : St) : Bool :=
  s.drv == .running && s.opQ.isEmpty && s.scrubQ.isEmpty && s.ops.all (opDone s) &&
  s.ops.all (fun o => o.kind != .unbind) && s.ops.all (fun o => o.phase != .allocated)

def registered (s : St) (i : Nat) (o : Op) : Bool :=
  o.phase == .allocated || s.opQ.contains i || s.resultmap.any (fun p => p.2 == i) ||
  (match o.chan with | some c => s.searchmap.any (fun p => p.2 == c) | none => false)

def violations (s : St) : List String := Id.run do
  let mut v : List String := []
  if quiescent s && !(s.inUse.isEmpty && s.resultmap.isEmpty && s.searchmap.isEmpty) then
    v := "C13 quiescent but state left" :: v
  -- C05: registered operations have pairwise distinct IDs
  let regs := (s.ops.zipIdx.filter fun (o, i) => registered s i o).map (·.1.id)
  if regs.eraseDups.length != regs.length then v := "C05 duplicate id among registered ops" :: v
  -- C01: a routed frame carries the ID of its operation
  for o in s.ops do
    match o.mail with
    | .frame f => if f.id != (o.id : Int) then v := "C01 misrouted single" :: v
    | _ => pure ()
  for ch in s.chans do
    match s.ops[ch.opIdx]? with
    | some o =>
      for it in ch.items do
        let f := match it with | .entry f => f | .done f => f
        if f.id != (o.id : Int) then v := "C01 misrouted search item" :: v
    | none => pure ()
  -- C04: once the driver has ended nobody can wait forever
  if s.drv != .running then
    for o in s.ops do
      if o.res.isNone && o.phase != .allocated && o.mail == .empty then v := "C04 waiter left pending" :: v
    for c in [0:s.chans.length] do
      if chanOpen s c then v := "C04 channel left open" :: v
  return v

def showEv : Ev → String
  | .alloc k => s!"alloc {repr k}"
  | .enqueue i t => s!"enqueue {i} {t}"
  | .poll i => s!"poll {i}"
  | .recv c d => s!"recv {c} {d}"
  | .finish c b => s!"finish {c} {b}"
  | .dropHandles => "dropHandles"
  | .drvScrub => "drvScrub"
  | .drvOp b => s!"drvOp {b}"
  | .drvOpClosed => "drvOpClosed"
  | .drvMiscClosed => "drvMiscClosed"
  | .drvResp => "drvResp"
  | .srvSend f => s!"srvSend id={f.id} op={f.op} tok={f.tok} good={f.good}"
  | .srvClose => "srvClose"
  | .srvGarbage => "srvGarbage"
  | .tick d => s!"tick {d}"

/-- pick an event; `disciplined` clients always finish streams properly and never reuse handles oddly -/
def pickEv (s : St) (r : Nat) (faults : Bool) : List Ev :=
  let a := r % 100
  let r2 := r / 100
  if a < 14 then
    let k := match r2 % 7 with
      | 0 | 1 | 2 => Kind.single
      | 3 | 4 => Kind.search
      | _ => Kind.abandon ((r2 / 7 % (s.N + 1) : Nat) : Int)
    [.alloc k, .enqueue s.ops.length (if r2 / 100 % 3 == 0 then some (r2 / 300 % 3) else none)]
  else if a < 26 then [.drvOp (!(faults && r2 % 17 == 0))]
  else if a < 38 then [.drvResp]
  else if a < 46 then [.drvScrub]
  else if a < 60 then
    let id : Int := ((r2 % (s.N + 2) : Nat) : Int)
    let op := [11, 4, 5, 19, 25, 7][r2 / 7 % 6]!
    [.srvSend ⟨id, op, r2 % 1000, op != 5 || r2 % 11 != 0⟩]
  else if a < 70 then [.poll (r2 % (s.ops.length + 1))]
  else if a < 80 then
    let c := r2 % (s.chans.length + 1)
    [.recv c (if r2 / 13 % 2 == 0 then some (s.now + r2 % 2) else none)]
  else if a < 87 then
    -- finish(): scrub unless the Done item was seen, then drop the receiver
    let c := r2 % (s.chans.length + 1)
    match s.chans[c]? with
    | some ch => [.finish c (!doneSeen ch)]
    | none => []
  else if a < 93 then [.tick (r2 % 3)]
  else if faults && a < 95 then [.srvClose]
  else if faults && a < 96 then [.srvGarbage]
  else if faults && a < 97 then [.dropHandles, if r2 % 2 == 0 then .drvOpClosed else .drvMiscClosed]
  else []

def explore (seed walks len N : Nat) (faults : Bool) : String := Id.run do
  let mut r := seed
  for w in [0:walks] do
    let mut s : St := Conn.init N
    let mut tr : List String := []
    for _ in [0:len] do
      r := lcg r
      for e in pickEv s (r / 65536) faults do
        match step s e with
        | some (s', _) =>
          s := s'
          tr := showEv e :: tr
          let v := violations s
          if !v.isEmpty then
            return s!"walk {w}: {v} after: {" ; ".intercalate tr.reverse}"
        | none => pure ()
  return "no violation found"

def handleExplore (cmd arg : String) : Option String :=
  match cmd with
  | "conn.explore" =>
    match (arg.splitOn " ").map String.toNat? with
    | [some seed, some walks, some len, some n, some f] => some (explore seed walks len n (f == 1))
    | _ => some "bad-request"
  | _ => none

end Ldap3V.Driver

import Ldap3V.Driver.Util
import Ldap3V.Model.Stream
import Ldap3V.Spec.Stream
/-
Line protocol of the stream model (lanes `streams`, `paged`):

  stream.run <obs> <chain> <handle> <query> <page>… | <call>…
  search.run <handle> <query> <page>…
  spec.stream.view <chain> <page>…

  <obs>     which ghosts are printed after the outputs: `rs` requests and scrubs, `r` requests, `-` none
  <chain>   `d` (direct) or a comma list of `e` (EntriesOnly) / `p<size>` (PagedResults)
  <handle>  c=<rctls>/t=<n|->/o=<n|->     rctls: `none` | `[o<tok>,p<size>:<hex>,…]`
  <query>   q<tok>:<1|0>                  (filter parses / does not)
  <page>    `P <recv>…` | `F`             recv: <k><tok>/<uris>/<ctls>  (k = e|r|i; uris `x` = malformed
            or `[hex,…]`; ctls `[c<tok>,g<tok>:<hex|x>,…]`) | D<rc>/<refs>/<ctls>/<tok> | C | T
  <call>    n (next) | f (finish) | s (state) | S (start again)

The run is `start` followed by the calls.  Answer: the outputs joined by `;`, then the ghosts.
-/
namespace Ldap3V.Driver.StreamD
open Ldap3V Ldap3V.Stream Ldap3V.Driver

def parseList (s : String) : Option (List String) :=
  if s.startsWith "[" && s.endsWith "]" then
    let inner := ((s.drop 1).dropEnd 1).toString
    if inner == "" then some [] else some (inner.splitOn ",")
  else none

def showList (l : List String) : String := "[" ++ ",".intercalate l ++ "]"

def parseCtl (s : String) : Option Ctl :=
  if s.startsWith "c" then (s.drop 1).toString.toNat?.map fun t => ⟨false, none, t⟩
  else if s.startsWith "g" then
    match (s.drop 1).toString.splitOn ":" with
    | [t, ck] =>
      match t.toNat? with
      | some t => if ck == "x" then some ⟨true, none, t⟩ else (unhex ck).map fun b => ⟨true, some b, t⟩
      | none => none
    | _ => none
  else none

def showCtl (c : Ctl) : String :=
  if c.paged then s!"g{c.tok}:" ++ (match c.cookie with | some b => hexOf b | none => "x") else s!"c{c.tok}"

def parseCtls (s : String) : Option (List Ctl) := (parseList s).bind fun l => l.mapM parseCtl
def showCtls (cs : List Ctl) : String := showList (cs.map showCtl)

def parseHexList (s : String) : Option (List Bytes) := (parseList s).bind fun l => l.mapM unhex
def showHexList (l : List Bytes) : String := showList (l.map hexOf)

def parseRecv (s : String) : Option Recv :=
  if s == "C" then some .closed
  else if s == "T" then some .timeout
  else if s.startsWith "D" then
    match (s.drop 1).toString.splitOn "/" with
    | [rc, refs, ctls, tok] =>
      match rc.toNat?, parseHexList refs, parseCtls ctls, tok.toNat? with
      | some rc, some refs, some ctls, some tok => some (.done ⟨rc, refs, ctls, .server tok⟩)
      | _, _, _, _ => none
    | _ => none
  else
    let kind : Option Kind := if s.startsWith "e" then some .entry else if s.startsWith "r" then some .ref
      else if s.startsWith "i" then some .inter else none
    match kind, (s.drop 1).toString.splitOn "/" with
    | some k, [tok, uris, ctls] =>
      match tok.toNat?, parseCtls ctls with
      | some tok, some ctls =>
        if uris == "x" then some (.item ⟨k, tok, none, ctls⟩)
        else (parseHexList uris).map fun u => .item ⟨k, tok, some u, ctls⟩
      | _, _ => none
    | _, _ => none

/-- pages up to the `|` (or the end); returns the rest -/
def parsePages : List String → List Page → Option (List Recv) → Option (List Page × List String)
  | [], acc, cur => some ((acc ++ (match cur with | some l => [Page.script l] | none => [])), [])
  | "|" :: rest, acc, cur => some ((acc ++ (match cur with | some l => [Page.script l] | none => [])), rest)
  | "P" :: rest, acc, cur => parsePages rest (acc ++ (match cur with | some l => [Page.script l] | none => [])) (some [])
  | "F" :: rest, acc, cur => parsePages rest (acc ++ (match cur with | some l => [Page.script l] | none => []) ++ [Page.fail (.op 0)]) none
  | t :: rest, acc, cur =>
    match cur, parseRecv t with
    | some l, some r => parsePages rest acc (some (l ++ [r]))
    | _, _ => none

def parseRCtl (s : String) : Option RCtl :=
  if s.startsWith "o" then (s.drop 1).toString.toNat?.map RCtl.other
  else if s.startsWith "p" then
    match (s.drop 1).toString.splitOn ":" with
    | [sz, ck] =>
      match parseInt sz, unhex ck with
      | some sz, some ck => some (.paged sz ck)
      | _, _ => none
    | _ => none
  else none

def showRCtl : RCtl → String
  | .other t => s!"o{t}"
  | .paged sz ck => s!"p{sz}:{hexOf ck}"

def parseOptN (s : String) : Option (Option Nat) := if s == "-" then some none else s.toNat?.map some
def showOptN : Option Nat → String
  | none => "-"
  | some n => toString n

def parseHandle (s : String) : Option Handle :=
  match s.splitOn "/" with
  | [c, t, o] =>
    if c.startsWith "c=" && t.startsWith "t=" && o.startsWith "o=" then
      let cs : Option (Option (List RCtl)) :=
        if (c.drop 2).toString == "none" then some none
        else ((parseList (c.drop 2).toString).bind fun l => l.mapM parseRCtl).map some
      match cs, parseOptN (t.drop 2).toString, parseOptN (o.drop 2).toString with
      | some cs, some t, some o => some ⟨cs, t, o⟩
      | _, _, _ => none
    else none
  | _ => none

def parseQuery (s : String) : Option Query :=
  if s.startsWith "q" then
    match (s.drop 1).toString.splitOn ":" with
    | [t, ok] => t.toNat?.map fun t => ⟨t, ok == "1"⟩
    | _ => none
  else none

def parseChain (s : String) : Option (List Adapter) :=
  if s == "d" then some [] else
  (s.splitOn ",").mapM fun a =>
    if a == "e" then some eo
    else if a.startsWith "p" then (parseInt (a.drop 1).toString).map pr
    else none

def parseCall (q : Query) (s : String) : Option Call :=
  if s == "n" then some .next else if s == "f" then some .finish else if s == "s" then some .state
  else if s == "S" then some (.start q) else none

def showErr : Err → String
  | .endOfStream => "eos"
  | .timeout => "timeout"
  | .adapterInit => "init"
  | .filterParsing => "filter"
  | .op _ => "op"

def showKind : Kind → String
  | .entry => "e"
  | .ref => "r"
  | .inter => "i"

def showItem (i : Item) : String := s!"{showKind i.kind}{i.tok}/{showCtls i.ctrls}"

def showText : Text → String
  | .server t => s!"t{t}"
  | .userCancelled => "cancelled"
  | .alreadyFinalized => "finalized"

def showRes (r : Res) : String := s!"{r.rc}/{showHexList r.refs}/{showCtls r.ctrls}/{showText r.text}"

def showState : SState → String
  | .fresh => "fresh"
  | .active => "active"
  | .done => "done"
  | .closed => "closed"
  | .error => "error"

def showNext : NextOut → String
  | .ok (some i) => "some:" ++ showItem i
  | .ok none => "none"
  | .err e => "err:" ++ showErr e
  | .panic => "panic"
  | .pending => "pending"
  | .outOfFuel => "fuel"

def showOutput : Output → String
  | .started .ok => "ok"
  | .started (.err e) => "err:" ++ showErr e
  | .item r => showNext r
  | .result r => "res:" ++ showRes r
  | .st s => showState s

def showReq (r : Req) : String :=
  (match r.ctrls with | none => "none" | some cs => showList (cs.map showRCtl)) ++ s!"/o{showOptN r.opts}/q{r.query.tok}"

def showGhosts (obs : String) (s : Stream) : String :=
  (if obs == "rs" || obs == "r" then " reqs=" ++ "+".intercalate ((s.reqs.filter (·.acked)).map showReq) else "") ++
  (if obs == "rs" then " scrubs=" ++ showList (s.scrubs.map toString) else "")

def runCmd (arg : String) : String :=
  match (arg.splitOn " ").filter (· != "") with
  | obs :: chain :: h :: q :: rest =>
    match parseChain chain, parseHandle h, parseQuery q, parsePages rest [] none with
    | some chain, some h, some q, some (pages, calls) =>
      match calls.mapM (parseCall q) with
      | some calls =>
        let m := init chain h pages
        let cs := Call.start q :: calls
        ";".intercalate ((run m cs).map showOutput) ++ showGhosts obs (exec m cs).s
      | none => "bad-request"
    | _, _, _, _ => "bad-request"
  | _ => "bad-request"

def showSearch : SearchOut → String
  | .ok es r => "ok:" ++ showList (es.map showItem) ++ ":" ++ showRes r
  | .err e => "err:" ++ showErr e
  | .panic => "panic"
  | .pending => "pending"
  | .outOfFuel => "fuel"

def searchCmd (arg : String) : String :=
  match (arg.splitOn " ").filter (· != "") with
  | h :: q :: rest =>
    match parseHandle h, parseQuery q, parsePages rest [] none with
    | some h, some q, some (pages, []) => showSearch (search h pages q)
    | _, _, _ => "bad-request"
  | _ => "bad-request"

def showEnd : Spec.End → String
  | .done g r => s!"done:{showHexList g}:{showRes r}"
  | .fail g e => s!"fail:{showHexList g}:{showErr e}"
  | .pending => "pending"
  | .panic => "panic"

def showStep (st : Spec.Step) : String := s!"{showHexList st.gain}>{showItem st.item}"

def viewCmd (arg : String) : String :=
  match (arg.splitOn " ").filter (· != "") with
  | chain :: rest =>
    match parseChain chain, parsePages rest [] none with
    | some chain, some (pages, []) =>
      let v := Spec.view (chain.map Spec.kindOf) pages
      showList (v.steps.map showStep) ++ " " ++ showEnd v.ending
    | _, _ => "bad-request"
  | _ => "bad-request"

end Ldap3V.Driver.StreamD

namespace Ldap3V.Driver

/-- line-protocol handler for the `Stream` family of commands; `none` = not mine -/
def handleStream (cmd arg : String) : Option String :=
  match cmd with
  | "stream.run" => some (StreamD.runCmd arg)
  | "search.run" => some (StreamD.searchCmd arg)
  | "spec.stream.view" => some (StreamD.viewCmd arg)
  | _ => none

end Ldap3V.Driver

import Ldap3V.Driver.Util
import Ldap3V.Spec.Url
namespace Ldap3V.Driver.UrlD
open Ldap3V Ldap3V.Url

def kindName : ExtKind → String
  | .bindname => "bindname"
  | .credentials => "credentials"
  | .saslMech => "saslmech"
  | .startTls => "starttls"
  | .xbindpw => "xbindpw"

/-- canonical order of the set: by kind name -/
def kindOrder : List ExtKind := [.bindname, .credentials, .saslMech, .startTls, .xbindpw]

def showScope : Scope → String
  | .base => "0"
  | .oneLevel => "1"
  | .subtree => "2"

def showUrlResult : Url.Result → String
  | .panic => "panic"
  | .err .decodingUtf8 => "err DecodingUTF8"
  | .err .invalidScope => "err InvalidScope"
  | .err .unrecognizedCritical => "err UnrecognizedCritical"
  | .ok p =>
    let exts := kindOrder.filterMap fun k => p.exts.find? (fun e => e.kind == k)
    "ok base=" ++ hexOf p.base ++ " attrs=[" ++ ",".intercalate (p.attrs.map hexOf) ++ "] scope=" ++
      showScope p.scope ++ " filter=" ++ hexOf p.filter ++ " exts=[" ++
      ",".intercalate (exts.map fun e => kindName e.kind ++ ":" ++ hexOf e.value) ++ "]"

def parseStyle : String → Option Spec.Style
  | "strict" => some Spec.Style.strict
  | "strict-lc" => some { Spec.Style.strict with upper := false }
  | "minimal" => some (Spec.Style.minimal true)
  | "minimal-lc" => some (Spec.Style.minimal false)
  | _ => none

def parseOptHex (s : String) : Option (Option Bytes) :=
  if s == "n" then some none else (unhex s).map some

def parseHexList (s : String) (sep : String) : Option (List Bytes) :=
  if s == "n" then some [] else (s.splitOn sep).mapM unhex

def parseExtC (s : String) : Option Spec.ExtC :=
  match s.splitOn ":" with
  | [c, n, v] =>
    match unhex n, parseOptHex v with
    | some name, some value => if c == "c" || c == "o" then some ⟨name, c == "c", value⟩ else none
    | _, _ => none
  | _ => none

def parseScopeOpt : String → Option (Option Scope)
  | "n" => some none
  | "0" => some (some .base)
  | "1" => some (some .oneLevel)
  | "2" => some (some .subtree)
  | _ => none

def specFormat (arg : String) : Option String :=
  match arg.splitOn " " with
  | [st, sl, kp, b, at_, sc, fl, ex] => do
    let style ← parseStyle st
    let keep ← kp.toNat?
    let base ← unhex b
    let attrs ← parseHexList at_ ","
    let scope ← parseScopeOpt sc
    let filter ← parseOptHex fl
    let exts ← if ex == "n" then some [] else (ex.splitOn ";").mapM parseExtC
    let f := Spec.format style ⟨base, attrs, scope, filter, exts⟩ ⟨sl == "1", keep⟩
    some ("path=" ++ hexOf f.path ++ " query=" ++ (match f.query with | none => "none" | some q => hexOf q))
  | _ => none

/-- line-protocol handler for the `Url` family of commands; `none` = not mine -/
def handleUrl (cmd arg : String) : Option String :=
  match cmd with
  | "url.params" => some (match arg.splitOn " " with
      | [p, q] =>
        match unhex p, (if q == "none" then some none else (unhex q).map some) with
        | some path, some query => showUrlResult (getUrlParams path query)
        | _, _ => "bad-request"
      | _ => "bad-request")
  | "spec.url.format" => some ((specFormat arg).getD "bad-request")
  | _ => none

end Ldap3V.Driver.UrlD

namespace Ldap3V.Driver
def handleUrl := UrlD.handleUrl
end Ldap3V.Driver

import Ldap3V.Driver.Util
import Ldap3V.Model.Envelope
namespace Ldap3V.Driver
open Ldap3V

def showKnown : Option ControlType → String
  | none => "-"
  | some .pagedResults => "PagedResults"
  | some .postReadResp => "PostReadResp"
  | some .preReadResp => "PreReadResp"
  | some .syncDone => "SyncDone"
  | some .syncState => "SyncState"
  | some .manageDsaIt => "ManageDsaIt"
  | some .matchedValues => "MatchedValues"

def showRaw (r : RawControl) : String :=
  s!"{hexOf r.ctype}:{if r.crit then 1 else 0}:{match r.val with | some v => hexOf v | none => "none"}"

def showCtrl (c : Control) : String := s!"{showRaw c.raw}:{showKnown c.known}"

def showCtrls (cs : List Control) : String := "[" ++ ",".intercalate (cs.map showCtrl) ++ "]"

def showDec : DecOut → String
  | .needMore => "needmore"
  | .decodeError => "error"
  | .frame id op cs n => s!"frame {id} {showTlv op} {showCtrls cs} consumed={n}"

/-- `oidhex:crit:valhex|none` -/
def parseRaw (s : String) : Option RawControl :=
  match s.splitOn ":" with
  | [o, c, v] =>
    match unhex o with
    | some oid =>
      if v == "none" then some ⟨oid, c == "1", none⟩
      else (unhex v).map fun b => ⟨oid, c == "1", some b⟩
    | none => none
  | _ => none

/-- `none` | `[]` | `[raw,raw]` -/
def parseRawList (s : String) : Option (Option (List RawControl)) :=
  if s == "none" then some none
  else if s == "[]" then some (some [])
  else
    let inner := ((s.drop 1).dropEnd 1).toString
    let parts := inner.splitOn ","
    (parts.mapM parseRaw).map some

def showFraming (f : Framing) : String :=
  let fr := f.frames.map fun (id, op, cs) => s!"{id}:{showTlv op}:{showCtrls cs}"
  s!"frames=[{";".intercalate fr}] buf={f.buf.length} err={if f.errored then 1 else 0}"

def handleEnvelope (cmd arg : String) : Option String :=
  match cmd with
  | "env.dec" => some (match unhex arg with
      | some bs => showDec (decodeInner bs)
      | none => "bad-request")
  | "env.enc" =>
    -- env.enc <id> <ctrls> <tlv…>
    some (match arg.splitOn " " with
      | id :: cs :: rest =>
        match parseInt id, parseRawList cs, parseTlv (" ".intercalate rest) with
        | some id, some cs, some t => hexOf (encodeMsg id (Tag.structure t) cs)
        | _, _, _ => "bad-request"
      | _ => "bad-request")
  | "frame.feed" =>
    -- frame.feed <hex chunk> … [eof]
    some (
      let toks := arg.splitOn " " |>.filter (· != "")
      let eof := toks.getLast? == some "eof"
      let chunks := if eof then toks.dropLast else toks
      match chunks.mapM unhex with
      | some cs =>
        let f := Framing.feedAll {} cs
        showFraming (if eof then f.eof else f)
      | none => "bad-request")
  | _ => none

end Ldap3V.Driver

import Ldap3V.Driver.Util
import Ldap3V.Model.Entry
namespace Ldap3V.Driver.EntryD
open Ldap3V

/-- `{k:[v,v];k:[]}` with keys in byte-lexicographic order (the order of Rust's `String: Ord`) -/
def showMap (m : AMap (List Bytes)) : String :=
  let sorted := (m.toArray.qsort (fun a b => decide (a.1 < b.1))).toList
  "{" ++ ";".intercalate (sorted.map fun (k, vs) => hexOf k ++ ":[" ++ ",".intercalate (vs.map hexOf) ++ "]") ++ "}"

def showEntryOutcome : Outcome SearchEntry → String
  | .panic => "panic"
  | .ok se => s!"ok dn={hexOf se.dn} text={showMap se.text} bin={showMap se.bin}"

/-- line-protocol handler for the `Entry` family of commands; `none` = not mine -/
def handleEntry (cmd arg : String) : Option String :=
  match cmd with
  | "entry.construct" => some (match parseTlv arg with
      | some t => showEntryOutcome (construct t)
      | none => "bad-request")
  | "utf8.valid" => some (match unhex arg with
      | some bs => toString (utf8Valid bs)
      | none => "bad-request")
  | _ => none

end Ldap3V.Driver.EntryD

namespace Ldap3V.Driver
def handleEntry := EntryD.handleEntry
end Ldap3V.Driver

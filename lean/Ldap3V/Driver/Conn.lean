import Ldap3V.Driver.Util
import Ldap3V.Model.Conn
namespace Ldap3V.Driver
open Ldap3V Ldap3V.Conn

def parseKind (s : String) : Option Kind :=
  if s == "single" then some .single
  else if s == "search" then some .search
  else if s == "unbind" then some .unbind
  else if s.startsWith "abandon:" then (parseInt (s.drop 8).toString).map Kind.abandon
  else none

def showRes : Res → String
  | .ack => "ack"
  | .frame f => s!"frame:{f.tok}"
  | .timeout => "timeout"
  | .recvErr => "recverr"
  | .opSendErr => "opsenderr"
  | .scrubSendErr => "scrubsenderr"
  | .decodeErr => "decode"

def parseOptNat (s : String) : Option (Option Nat) :=
  if s == "none" then some none else s.toNat?.map some

/-- `[1,2,3]` -/
def parseNatList (s : String) : Option (List Nat) :=
  let inner := ((s.drop 1).dropEnd 1).toString
  if inner == "" then some [] else (inner.splitOn ",").mapM (·.toNat?)

def sortNat (l : List Nat) : List Nat := (l.toArray.qsort (· < ·)).toList

def showNatList (l : List Nat) : String := "[" ++ ",".intercalate (l.map toString) ++ "]"

/-- replay one trace event; `Except` message on rejection -/
def replayEv (s : St) (ev : String) : Except String St :=
  let w := (ev.splitOn " ").filter (· != "")
  let stepE (e : Ev) : Except String (St × Obs) :=
    match step s e with
    | some r => .ok r
    | none => .error "not enabled"
  match w with
  | ["issue", i, kind, tmo] =>
    match i.toNat?, parseKind kind, parseOptNat tmo with
    | some i, some k, some t =>
      if s.ops.length != i then .error s!"op index {s.ops.length} expected" else
      match step s (.alloc k) with
      | some (s1, .id _) =>
        match step s1 (.enqueue i t) with
        | some (s2, _) => .ok s2
        | none => .error "enqueue not enabled"
      | some (_, _) => .error "alloc panicked"
      | none => .error "alloc diverges"
    | _, _, _ => .error "bad issue"
  | ["poll", i, res] =>
    match i.toNat? with
    | some i =>
      -- a send error was already returned by the enqueue step
      if (s.ops[i]?.bind (·.res)).map showRes == some res && res == "opsenderr" then .ok s else
      match step s (.poll i) with
      | some (s1, .res (some r)) => if showRes r == res then .ok s1 else .error s!"model resolves to {showRes r}"
      | some (_, .res none) => .error "model: still pending"
      | _ => .error "poll not enabled"
    | none => .error "bad poll"
  | ["recv", i, dl, res] =>
    match i.toNat?, parseOptNat dl with
    | some i, some d =>
      match s.ops[i]? with
      | some o =>
        match o.chan with
        | some c =>
          match step s (.recv c d) with
          | some (s1, ob) =>
            let txt := match ob with
              | .item (some (.entry f)) => s!"item:entry:{f.tok}"
              | .item (some (.done f)) => s!"item:done:{f.tok}"
              | .closed => "closed"
              | .pending => "pending"
              | .timeout => "timeout"
              | .sendErr => "scrubsenderr"
              | _ => "?"
            if txt == res then .ok s1 else .error s!"model recv gives {txt}"
          | none => .error "recv not enabled"
        | none => .error "not a search"
      | none => .error "no such op"
    | _, _ => .error "bad recv"
  | ["finish", i, b] =>
    match i.toNat? with
    | some i =>
      match s.ops[i]? with
      | some o =>
        match o.chan with
        | some c => (match step s (.finish c (b == "1")) with | some (x, _) => .ok x | none => .error "finish not enabled")
        | none => .error "not a search"
      | none => .error "no such op"
    | none => .error "bad finish"
  | ["drvscrub", id] =>
    match id.toNat? with
    | some id =>
      if s.scrubQ.head? != some id then .error s!"scrub queue head is {s.scrubQ.head?}" else
      (stepE .drvScrub).map (·.1)
    | none => .error "bad drvscrub"
  | ["drvop", id, kind, ok] =>
    match id.toNat?, parseKind kind with
    | some id, some k =>
      match s.opQ.head? with
      | some i =>
        match s.ops[i]? with
        | some o =>
          if o.id != id || o.kind != k then .error s!"op queue head is id {o.id}" else
          if ok == "ok" && s.sinkClosed then .error "write succeeded after the sink was closed" else
          match stepE (.drvOp (ok != "fail")) with
          | .ok (s1, ob) =>
            if (ob == .skipped) != (ok == "skipped") then .error s!"model: request {if ob == .skipped then "skipped" else "processed"}"
            else .ok s1
          | .error e => .error e
        | none => .error "dangling op index"
      | none => .error "op queue empty"
    | _, _ => .error "bad drvop"
  | ["drvresp", id, ok] =>
    match parseInt id with
    | some id =>
      match s.srvLog[s.pos]? with
      | some f =>
        if f.id != id then .error s!"next frame has id {f.id}" else
        match stepE .drvResp with
        | .ok (s1, _) =>
          if ok == "bad" && s1.drv != .endedErr then .error "model: frame accepted"
          else if ok == "ok" && s1.drv != .running then .error "model: driver ends on this frame"
          else .ok s1
        | .error e => .error e
      | none => .error "no frame available"
    | none => .error "bad drvresp"
  | ["drvend", how] =>
    if how == "eof" then
      if s.srvLog.length != s.pos || s.link != .eof then .error "model: not at EOF" else (stepE .drvResp).map (·.1)
    else if how == "recverr" then
      if s.srvLog.length != s.pos || s.link != .garbage then .error "model: no receive error due" else (stepE .drvResp).map (·.1)
    else if how == "opclosed" then (stepE .drvOpClosed).map (·.1)
    else if how == "miscclosed" then (stepE .drvMiscClosed).map (·.1)
    else .error "bad drvend"
  | ["drvresult", r] =>
    if (r == "ok" && s.drv == .endedOk) || (r == "err" && s.drv == .endedErr) then .ok s
    else .error s!"model driver state differs"
  | ["maps", r, sm] =>
    let mr := showNatList (sortNat (s.resultmap.map (·.1)))
    let ms := showNatList (sortNat (s.searchmap.map (·.1)))
    if r == "r=" ++ mr && sm == "s=" ++ ms then .ok s else .error s!"model maps r={mr} s={ms}"
  | ["srvsend", id, op, tok, good] =>
    match parseInt id, op.toNat?, tok.toNat? with
    | some id, some op, some tok => (stepE (.srvSend ⟨id, op, tok, good == "1"⟩)).map (·.1)
    | _, _, _ => .error "bad srvsend"
  | ["srvclose"] => (stepE .srvClose).map (·.1)
  | ["srvgarbage"] => (stepE .srvGarbage).map (·.1)
  | ["tick", dt] =>
    match dt.toNat? with
    | some dt => (stepE (.tick dt)).map (·.1)
    | none => .error "bad tick"
  | ["tbl", last, used] =>
    match last.toNat?, parseNatList used with
    | some l, some u =>
      if s.last == l && sortNat s.inUse == u then .ok s
      else .error s!"model table last={s.last} inUse={showNatList (sortNat s.inUse)}"
    | _, _ => .error "bad tbl"
  | ["drophandles"] => (stepE .dropHandles).map (·.1)
  | [] => .ok s
  | _ => .error "unknown event"

def replay (line : String) : String := Id.run do
  let evs := line.splitOn " ; "
  let mut s : St := Conn.init
  let mut k := 0
  for ev in evs do
    match replayEv s ev with
    | .ok s' => s := s'
    | .error e => return s!"reject@{k} [{ev}] {e}"
    k := k + 1
  return "accept"

def handleConn (cmd arg : String) : Option String :=
  match cmd with
  | "conn.trace" => some (replay arg)
  | "id.next" =>
    match arg.splitOn " " with
    | [n, last, used] =>
      match n.toNat?, last.toNat?, parseNatList used with
      | some n, some l, some u =>
        some (match nextId n l u with
          | .ok id => s!"ok {id}"
          | .panic => "panic"
          | .diverge => "diverge")
      | _, _, _ => some "bad-request"
    | _ => some "bad-request"
  | _ => none

end Ldap3V.Driver

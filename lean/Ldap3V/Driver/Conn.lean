import Ldap3V.Driver.Util
namespace Ldap3V.Driver
open Ldap3V

/-- line-protocol handler for the `Conn` family of commands; `none` = not mine -/
def handleConn (cmd arg : String) : Option String :=
  match cmd with
  | _ => none

end Ldap3V.Driver

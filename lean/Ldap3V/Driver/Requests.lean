/-
Line protocol of the request slice (C02).

Canonical text of a request (tokens separated by one space; byte strings lowercase hex, empty = `-`):
  bind <dn> <pw> | saslext | unbind | delete <dn> | abandon <int> | compare <dn> <attr> <val>
  moddn <dn> <rdn> <0|1> <sup|none> | extended <name|none> <val|none>
  add <dn> <attrs>          attrs = `[]` or `name=v,v;name=v`     (an empty value set: `name=`)
  modify <dn> <mods>        mods  = `[]` or `k:name=v,v;k:name=`  (k = 0 add, 1 delete, 2 replace, 3 increment)
  search <base> <scope> <deref> <size> <time> <0|1> <attrs> <filter tlv…>     attrs = `[]` or `a,b,c`
Controls: `none` | `[]` | `[oid:crit:val|none,…]` (Driver/Envelope).

  req.enc <id> <ctrls> <request>      hex of Model.encodeMsg id (build request) ctrls     (value sets in the order given)
  spec.req.dec <hex>                   `<id> <ctrls> <request>` read by Spec.decodeRequest from the parsed bytes,
                                       value sets sorted; `undecodable` otherwise
  handle.run <call> | <call> | …       calls: `wc h <ctrls>`, `wt h <ms>`, `wo h <deref> <0|1> <time> <size>`,
                                       `op h <request>`, `bad h`, `clone src dst`
      answer: one item per call joined by ` | `:  `<what> h<k>=<ctrls>/<timeout|none>/<opts|none>`
      what = `-` (nothing sent) | `refused` | `panic` | `sent <id> <ctrls> <timeout|none> <request>`;
      the handle shown is the one the call acted on (dst of a clone), after the call
-/
import Ldap3V.Driver.Util
import Ldap3V.Driver.Envelope
import Ldap3V.Spec.Requests
namespace Ldap3V.Driver.Req
open Ldap3V

def showOpt (o : Option Bytes) : String := match o with | some v => hexOf v | none => "none"

def showHexList (l : List Bytes) : String := if l.isEmpty then "[]" else ",".intercalate (l.map hexOf)

def showVals (l : List Bytes) : String := ",".intercalate (l.map hexOf)

def showAttrs (l : List (Bytes × List Bytes)) : String :=
  if l.isEmpty then "[]" else ";".intercalate (l.map fun a => hexOf a.1 ++ "=" ++ showVals a.2)

def kindNum : ModKind → Nat | .add => 0 | .delete => 1 | .replace => 2 | .increment => 3
def scopeNum : Scope → Nat | .base => 0 | .oneLevel => 1 | .subtree => 2
def derefNum : Deref → Nat | .never => 0 | .searching => 1 | .finding => 2 | .always => 3

def showMods (l : List (ModKind × Bytes × List Bytes)) : String :=
  if l.isEmpty then "[]" else
    ";".intercalate (l.map fun m => toString (kindNum m.1) ++ ":" ++ hexOf m.2.1 ++ "=" ++ showVals m.2.2)

def b01 (b : Bool) : String := if b then "1" else "0"

def showReq : Request → String
  | .simpleBind dn pw => s!"bind {hexOf dn} {hexOf pw}"
  | .saslExternal => "saslext"
  | .search b s d sl tl to f as =>
    s!"search {hexOf b} {scopeNum s} {derefNum d} {sl} {tl} {b01 to} {showHexList as} {showTlv f}"
  | .add dn as => s!"add {hexOf dn} {showAttrs as}"
  | .compare dn a v => s!"compare {hexOf dn} {hexOf a} {hexOf v}"
  | .delete dn => s!"delete {hexOf dn}"
  | .modify dn ms => s!"modify {hexOf dn} {showMods ms}"
  | .modifyDn dn rdn d sup => s!"moddn {hexOf dn} {hexOf rdn} {b01 d} {showOpt sup}"
  | .extended n v => s!"extended {showOpt n} {showOpt v}"
  | .unbind => "unbind"
  | .abandon id => s!"abandon {id}"

/-- lexicographic order on byte strings -/
def bytesLe : Bytes → Bytes → Bool
  | [], _ => true
  | _ :: _, [] => false
  | a :: as, b :: bs => if a < b then true else if b < a then false else bytesLe as bs

def insertSorted (x : Bytes) : List Bytes → List Bytes
  | [] => [x]
  | y :: ys => if bytesLe x y then x :: y :: ys else y :: insertSorted x ys

def sortBytes (l : List Bytes) : List Bytes := l.foldr insertSorted []

/-- value sets in canonical (sorted) order -/
def canonReq : Request → Request
  | .add dn as => .add dn (as.map fun a => (a.1, sortBytes a.2))
  | .modify dn ms => .modify dn (ms.map fun m => (m.1, m.2.1, sortBytes m.2.2))
  | r => r

def showCtrlsOpt : Option (List RawControl) → String
  | none => "none"
  | some cs => "[" ++ ",".intercalate (cs.map showRaw) ++ "]"

/-! parsing -/

def parseOpt (s : String) : Option (Option Bytes) :=
  if s == "none" then some none else (unhex s).map some

def parseHexList (s : String) : Option (List Bytes) :=
  if s == "[]" then some [] else (s.splitOn ",").mapM unhex

def parseVals (s : String) : Option (List Bytes) :=
  if s == "" then some [] else (s.splitOn ",").mapM unhex

def parseAttr (s : String) : Option (Bytes × List Bytes) :=
  match s.splitOn "=" with
  | [n, vs] => match unhex n, parseVals vs with
    | some n, some vs => some (n, vs)
    | _, _ => none
  | _ => none

def parseAttrs (s : String) : Option (List (Bytes × List Bytes)) :=
  if s == "[]" then some [] else (s.splitOn ";").mapM parseAttr

def kindOf (s : String) : Option ModKind :=
  match s with
  | "0" => some .add | "1" => some .delete | "2" => some .replace | "3" => some .increment | _ => none

def parseMod (s : String) : Option (ModKind × Bytes × List Bytes) :=
  match s.splitOn ":" with
  | [k, rest] => match kindOf k, parseAttr rest with
    | some k, some (n, vs) => some (k, n, vs)
    | _, _ => none
  | _ => none

def parseMods (s : String) : Option (List (ModKind × Bytes × List Bytes)) :=
  if s == "[]" then some [] else (s.splitOn ";").mapM parseMod

def scopeOfS (s : String) : Option Scope :=
  match s with | "0" => some .base | "1" => some .oneLevel | "2" => some .subtree | _ => none

def derefOfS (s : String) : Option Deref :=
  match s with
  | "0" => some .never | "1" => some .searching | "2" => some .finding | "3" => some .always | _ => none

def parseReqToks : List String → Option Request
  | ["bind", dn, pw] => do some (.simpleBind (← unhex dn) (← unhex pw))
  | ["saslext"] => some .saslExternal
  | ["unbind"] => some .unbind
  | ["delete", dn] => do some (.delete (← unhex dn))
  | ["abandon", i] => do some (.abandon (← parseInt i))
  | ["compare", dn, a, v] => do some (.compare (← unhex dn) (← unhex a) (← unhex v))
  | ["moddn", dn, rdn, d, sup] => do some (.modifyDn (← unhex dn) (← unhex rdn) (d == "1") (← parseOpt sup))
  | ["extended", n, v] => do some (.extended (← parseOpt n) (← parseOpt v))
  | ["add", dn, as] => do some (.add (← unhex dn) (← parseAttrs as))
  | ["modify", dn, ms] => do some (.modify (← unhex dn) (← parseMods ms))
  | "search" :: b :: s :: d :: sl :: tl :: to :: as :: f =>
    do some (.search (← unhex b) (← scopeOfS s) (← derefOfS d) (← parseInt sl) (← parseInt tl) (to == "1")
        (← parseTlv (" ".intercalate f)) (← parseHexList as))
  | _ => none

def parseReq (s : String) : Option Request := parseReqToks (s.splitOn " ")

def showSearchOpts (o : SearchOpts) : String := s!"{derefNum o.deref}:{b01 o.typesOnly}:{o.timeLimit}:{o.sizeLimit}"

def showHandle (H : Handle) : String :=
  showCtrlsOpt H.controls ++ "/" ++ (match H.timeout with | some t => toString t | none => "none") ++ "/" ++
    (match H.searchOpts with | some o => showSearchOpts o | none => "none")

def parseCall (s : String) : Option HandleCall :=
  match s.splitOn " " with
  | ["wc", h, cs] => do
    match ← parseRawList cs with
    | some l => some (.withControls (← h.toNat?) l)
    | none => none
  | ["wt", h, t] => do some (.withTimeout (← h.toNat?) (← t.toNat?))
  | ["wo", h, d, to, tl, sl] =>
    do some (.withSearchOptions (← h.toNat?) ⟨← derefOfS d, to == "1", ← parseInt tl, ← parseInt sl⟩)
  | ["bad", h] => do some (.searchBadFilter (← h.toNat?))
  | ["clone", a, b] => do some (.clone (← a.toNat?) (← b.toNat?))
  | "op" :: h :: rest => do some (.op (← h.toNat?) (← parseReqToks rest))
  | _ => none

def callHandle : HandleCall → Nat
  | .withControls h _ | .withTimeout h _ | .withSearchOptions h _ | .op h _ | .searchBadFilter h => h
  | .clone _ dst => dst

def showSent (m : Sent) : String :=
  s!"sent {m.id} {showCtrlsOpt m.ctrls} {match m.timeout with | some t => toString t | none => "none"} {showReq m.req}"

/-- run the script call by call with the model's `step`, reporting each call's effect -/
def runScript (calls : List HandleCall) : String :=
  let (_, items) := calls.foldl (fun (acc : HState × List String) c =>
    let s := acc.1
    let s' := step s c
    let what :=
      if s'.wire.length > s.wire.length then
        match s'.wire.getLast? with | some m => showSent m | none => "?"
      else match c with
        | .op _ r => (match issue r with
          | .errAddNoValues => "refused" | .panic => "panic" | .send _ => "?")
        | _ => "-"
    let h := callHandle c
    (s', acc.2 ++ [what ++ " h" ++ toString h ++ "=" ++ showHandle (s'.handles h)])) (HState.init, [])
  " | ".intercalate items

def handleRequests (cmd arg : String) : Option String :=
  match cmd with
  | "req.enc" =>
    some (match arg.splitOn " " with
      | id :: cs :: rest =>
        match id.toNat?, parseRawList cs, parseReqToks rest with
        | some id, some cs, some r => hexOf (encodeMsg (id : Int) (build r) cs)
        | _, _, _ => "bad-request"
      | _ => "bad-request")
  | "spec.req.dec" =>
    some (match unhex arg with
      | some bs =>
        match parseTag bs with
        | .ok t [] =>
          (match Spec.decodeRequest t with
           | some (id, r, cs) => s!"{id} {showCtrlsOpt cs} {showReq (canonReq r)}"
           | none => "undecodable")
        | _ => "undecodable"
      | none => "bad-request")
  | "handle.run" =>
    some (match (arg.splitOn " | ").mapM parseCall with
      | some calls => runScript calls
      | none => "bad-request")
  | _ => none

end Ldap3V.Driver.Req

namespace Ldap3V.Driver
/-- line-protocol handler of the request slice (definitions live in `Driver.Req` to keep names apart) -/
def handleRequests (cmd arg : String) : Option String := Req.handleRequests cmd arg
end Ldap3V.Driver

/- Line-protocol handler of the `tls` lane (C17): runs `TlsSetup.establish` with the reference
TLS library `refLib` on a configuration and a server behaviour. -/
import Ldap3V.Driver.Util
import Ldap3V.Model.TlsSetup
namespace Ldap3V.Driver.TlsD
open Ldap3V Ldap3V.TlsSetup

def parseBool : String → Option Bool
  | "0" => some false
  | "1" => some true
  | _ => none

def parseScheme : String → Option Scheme
  | "ldap" => some .ldap
  | "ldaps" => some .ldaps
  | _ => none

def parseConnector : String → Option Connector
  | "d" => some .default
  | "c0" => some (.custom false)
  | "c1" => some (.custom true)
  | _ => none

def parseEnd : String → Option End
  | "eof" => some .eof
  | "rst" => some .reset
  | "silent" => some .silent
  | _ => none

def parseHs : String → Option Hs
  | "ok" => some .completes
  | "fail" => some .fails
  | "stall" => some .stalls
  | _ => none

def parseCert : String → Option Bool
  | "t" => some true
  | "u" => some false
  | _ => none

def parseChunks (s : String) : Option (List Bytes) :=
  if s == "-" then some [] else (s.splitOn ",").mapM unhex

def showOutcome : Outcome → String
  | .okSecure => "ok-secure"
  | .okPlain => "ok-plain"
  | .err (.ldapResult rc) => "err:LdapResult:" ++ toString rc
  | .err .driverEnded => "err:DriverEnded"
  | .err .nativeTls => "err:NativeTLS"
  | .err .timeout => "err:Timeout"
  | .err .notLdapResult => "err:Io"
  | .hang => "hang"

def showResult (r : Result) : String :=
  showOutcome r.outcome ++ " writes=" ++
    (if r.cleartextWrites.isEmpty then "-" else ",".intercalate (r.cleartextWrites.map hexOf)) ++
    " tls=" ++ (if r.hasTls then "1" else "0")

/-- `tls.run <scheme> <starttls> <no_verify> <connector> <conn_timeout> <early> <chunks> <end> <hs> <cert>` -/
def run (arg : String) : Option String :=
  match arg.splitOn " " with
  | [sc, st, nv, cn, to, rf, ch, en, hs, ce] => do
    let scheme ← parseScheme sc
    let starttls ← parseBool st
    let noVerify ← parseBool nv
    let connector ← parseConnector cn
    let connTimeout ← parseBool to
    let early ← rf.toNat?
    let chunks ← parseChunks ch
    let atEnd ← parseEnd en
    let h ← parseHs hs
    let certOk ← parseCert ce
    let c : Cfg := { scheme, starttls, noVerify, connector, connTimeout }
    let s : Server := { early, chunks, atEnd, peer := ⟨h, certOk⟩ }
    some (showResult (establish refLib c s))
  | _ => none

/-- more of the result, for inspection: `tls.detail …` -/
def detail (r : Result) : String :=
  showResult r ++ " decoded=" ++ toString r.decoded.length ++ " consumed=" ++ hexOf r.consumed ++
    " discarded=" ++ hexOf r.discarded ++ " stale=" ++ hexOf r.tlsStale ++ " sessionbuf=" ++ hexOf r.sessionBuf

end Ldap3V.Driver.TlsD

namespace Ldap3V.Driver
open Ldap3V.Driver.TlsD

/-- line-protocol handler for the `tls` family of commands; `none` = not mine -/
def handleTls (cmd arg : String) : Option String :=
  match cmd with
  | "tls.run" => some ((run arg).getD "bad-request")
  | "tls.starttls-request" => some (hexOf Ldap3V.TlsSetup.startTlsReq)
  | _ => none

end Ldap3V.Driver

import Ldap3V.Driver.Util
import Ldap3V.Spec.ConnSetup
/-
Line-protocol commands of slice C18 (connection set-up):

  setup.plan <scheme hex> <host hex|none> <port|none> <starttls 0|1> <timeout ms|none> <stream none|tcp|unix|invalid>
      → canonical text of `ConnSetup.plan`
  setup.run  <the same six> <env>
      → canonical text of `ConnSetup.run env (plan …)`
  spec.setup.plan / spec.setup.run: the same through `Spec.plan` (the property's decision table)

<env> is `-` or a `,`-separated list describing resolver + kernel + peers as the lane set them up:
  t:<host hex>:<port>:<id>   `TcpStream::connect("host:port")` reaches endpoint <id>   (else refused)
  tn:<host hex>:<port>       … never completes
  u:<path hex>:<id>          `UnixStream::connect(path)` reaches endpoint <id>         (else refused)
  un:<path hex>              … never completes
  p:<id>:<d|f|n>:<d|f|n>     peer behind <id>: StartTLS exchange, TLS handshake (done/fail/never; default n n)
  pt:<id> / pu:<id>          the endpoint a pre-opened TCP / Unix stream is connected to
-/
namespace Ldap3V.Driver.SetupD
open Ldap3V Ldap3V.ConnSetup

def showSecure : Secure → String
  | .none => "none"
  | .starttls => "starttls"
  | .tls => "tls"

def showBound : Option Nat → String
  | none => "none"
  | some t => toString t

def showErrKind : ErrKind → String
  | .unknownScheme s => "UnknownScheme:" ++ hexOf s
  | .emptyUnixPath => "EmptyUnixPath"
  | .portInUnixPath => "PortInUnixPath"
  | .mismatchedStreamType => "MismatchedStreamType"

def showPlan : Plan → String
  | .tcpConnect h p sec b => s!"tcp host={hexOf h} port={p} secure={showSecure sec} bound={showBound b}"
  | .useTcpStream h sec b => s!"tcpstream host={hexOf h} secure={showSecure sec} bound={showBound b}"
  | .unixConnect p b => s!"unix path={hexOf p} bound={showBound b}"
  | .useUnixStream => "unixstream"
  | .err k => "err " ++ showErrKind k
  | .panic => "panic"

def showContact : Contact → String
  | .none => "none"
  | .tcp e => s!"tcp:{e}"
  | .unix e => s!"unix:{e}"

def showRunErr : RunErr → String
  | .setup k => showErrKind k
  | .io => "Io"
  | .startTls => "StartTls"
  | .tls => "Tls"

/-- what the contacted TCP peer receives first -/
def showFirst (pl : Plan) (c : Contact) : String :=
  match c with
  | .tcp _ =>
    match firstSent pl with
    | .none => "none"
    | .starttls => "starttls"
    | .tls => "hello"
  | _ => "none"

def showOutcome (pl : Plan) : Outcome → String
  | .ok c => s!"ok {showContact c} first={showFirst pl c}"
  | .err e c => s!"err {showRunErr e} {showContact c} first={showFirst pl c}"
  | .timeout c => s!"timeout {showContact c} first={showFirst pl c}"
  | .hang c => s!"hang {showContact c} first={showFirst pl c}"
  | .panic => "panic"

def parseOptHex (s : String) : Option (Option Bytes) :=
  if s == "none" then some none else (unhex s).map some

def parseOptNat (s : String) : Option (Option Nat) :=
  if s == "none" then some none else s.toNat?.map some

def parseStream : String → Option (Option StreamKind)
  | "none" => some none
  | "tcp" => some (some .tcp)
  | "unix" => some (some .unix)
  | "invalid" => some (some .invalid)
  | _ => none

def parseStep : String → Option StepRes
  | "d" => some .done
  | "f" => some .fail
  | "n" => some .never
  | _ => none

structure EnvTab where
  tcp : List (Bytes × Nat × ConnRes) := []
  unix : List (Bytes × ConnRes) := []
  peers : List (Nat × Peer) := []
  preTcp : Nat := 0
  preUnix : Nat := 0

def EnvTab.toEnv (t : EnvTab) : Env :=
  { tcp := fun h p => match t.tcp.find? (fun e => e.1 == h && e.2.1 == p) with
      | some e => e.2.2
      | none => .refused
    unix := fun p => match t.unix.find? (fun e => e.1 == p) with
      | some e => e.2
      | none => .refused
    peer := fun i => match t.peers.find? (fun e => e.1 == i) with
      | some e => e.2
      | none => ⟨.never, .never⟩
    preTcp := t.preTcp
    preUnix := t.preUnix }

def parseEnvItem (t : EnvTab) (item : String) : Option EnvTab :=
  match item.splitOn ":" with
  | ["t", h, p, i] => do
    let h ← unhex h; let p ← p.toNat?; let i ← i.toNat?
    some { t with tcp := t.tcp ++ [(h, p, .reached i)] }
  | ["tn", h, p] => do
    let h ← unhex h; let p ← p.toNat?
    some { t with tcp := t.tcp ++ [(h, p, .never)] }
  | ["u", h, i] => do
    let h ← unhex h; let i ← i.toNat?
    some { t with unix := t.unix ++ [(h, .reached i)] }
  | ["un", h] => do
    let h ← unhex h
    some { t with unix := t.unix ++ [(h, .never)] }
  | ["p", i, a, b] => do
    let i ← i.toNat?; let a ← parseStep a; let b ← parseStep b
    some { t with peers := t.peers ++ [(i, ⟨a, b⟩)] }
  | ["pt", i] => do
    let i ← i.toNat?
    some { t with preTcp := i }
  | ["pu", i] => do
    let i ← i.toNat?
    some { t with preUnix := i }
  | _ => none

def parseEnv (s : String) : Option Env :=
  if s == "-" then some ({} : EnvTab).toEnv
  else ((s.splitOn ",").foldlM parseEnvItem ({} : EnvTab)).map EnvTab.toEnv

def parseInput (ws : List String) : Option (Settings × UrlParts) :=
  match ws with
  | [sc, h, p, st, to, sk] => do
    let sc ← unhex sc
    let h ← parseOptHex h
    let p ← parseOptNat p
    let st ← if st == "1" then some true else if st == "0" then some false else none
    let to ← parseOptNat to
    let sk ← parseStream sk
    some (⟨st, to, sk⟩, ⟨sc, h, p⟩)
  | _ => none

def doPlan (f : Settings → UrlParts → Plan) (arg : String) : String :=
  match parseInput (arg.splitOn " ") with
  | some (s, u) => showPlan (f s u)
  | none => "bad-request"

def doRun (f : Settings → UrlParts → Plan) (arg : String) : String :=
  match arg.splitOn " " with
  | [a, b, c, d, e, g, envs] =>
    match parseInput [a, b, c, d, e, g], parseEnv envs with
    | some (s, u), some env => let pl := f s u; showOutcome pl (run env pl)
    | _, _ => "bad-request"
  | _ => "bad-request"

/-- line-protocol handler for the `Setup` family of commands; `none` = not mine -/
def handleSetup (cmd arg : String) : Option String :=
  match cmd with
  | "setup.plan" => some (doPlan plan arg)
  | "setup.run" => some (doRun plan arg)
  | "spec.setup.plan" => some (doPlan Spec.plan arg)
  | "spec.setup.run" => some (doRun Spec.plan arg)
  | _ => none

end Ldap3V.Driver.SetupD

namespace Ldap3V.Driver
def handleSetup := SetupD.handleSetup
end Ldap3V.Driver

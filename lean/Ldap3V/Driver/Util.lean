/- Text protocol helpers of the line driver (not part of any theorem). -/
import Ldap3V.Model.Ber
namespace Ldap3V.Driver
open Ldap3V

def hexDigit (n : Nat) : Char :=
  if n < 10 then Char.ofNat (48 + n) else Char.ofNat (87 + n)

def hexOf (bs : Bytes) : String :=
  if bs.isEmpty then "-" else
    String.ofList (bs.foldr (fun b acc => hexDigit (b.toNat / 16) :: hexDigit (b.toNat % 16) :: acc) [])

def hexVal (c : Char) : Option Nat :=
  if '0' ≤ c ∧ c ≤ '9' then some (c.toNat - 48)
  else if 'a' ≤ c ∧ c ≤ 'f' then some (c.toNat - 87)
  else if 'A' ≤ c ∧ c ≤ 'F' then some (c.toNat - 55)
  else none

partial def unhexAux : List Char → List UInt8 → Option (List UInt8)
  | [], acc => some acc.reverse
  | a :: b :: rest, acc =>
    match hexVal a, hexVal b with
    | some x, some y => unhexAux rest ((x * 16 + y).toUInt8 :: acc)
    | _, _ => none
  | _, _ => none

def unhex (s : String) : Option Bytes :=
  if s == "-" then some [] else unhexAux s.toList []

partial def showTlv : Tlv → String
  | .prim c i v => s!"(P {c} {i} {hexOf v})"
  | .cons c i ks => "(C " ++ toString c ++ " " ++ toString i ++ (ks.foldl (fun acc k => acc ++ " " ++ showTlv k) "") ++ ")"

/-- tokens: "(" ")" and atoms -/
def tokenize (s : String) : List String := Id.run do
  let mut toks : Array String := #[]
  let mut cur : String := ""
  for c in s.toList do
    if c == '(' || c == ')' then
      if cur != "" then toks := toks.push cur; cur := ""
      toks := toks.push (String.singleton c)
    else if c == ' ' then
      if cur != "" then toks := toks.push cur; cur := ""
    else cur := cur.push c
  if cur != "" then toks := toks.push cur
  return toks.toList

mutual
partial def parseTlvToks : List String → Option (Tlv × List String)
  | "(" :: "P" :: c :: i :: h :: ")" :: rest =>
    match c.toNat?, i.toNat?, unhex h with
    | some c, some i, some v => some (.prim c i v, rest)
    | _, _, _ => none
  | "(" :: "C" :: c :: i :: rest =>
    match c.toNat?, i.toNat? with
    | some c, some i =>
      match parseKidsToks rest [] with
      | some (ks, rest) => some (.cons c i ks, rest)
      | none => none
    | _, _ => none
  | _ => none
partial def parseKidsToks : List String → List Tlv → Option (List Tlv × List String)
  | ")" :: rest, acc => some (acc.reverse, rest)
  | toks, acc =>
    match parseTlvToks toks with
    | some (t, rest) => parseKidsToks rest (t :: acc)
    | none => none
end

def parseTlv (s : String) : Option Tlv :=
  match parseTlvToks (tokenize s) with
  | some (t, []) => some t
  | _ => none

def showPR (r : PR Tlv) : String :=
  match r with
  | .ok t rest => s!"ok {showTlv t} rest={rest.length}"
  | .incomplete => "incomplete"
  | .error => "error"

/-- split "cmd rest" -/
def splitCmd (line : String) : String × String :=
  match line.splitOn " " with
  | [] => ("", "")
  | c :: rest => (c, " ".intercalate rest)

def parseInt (s : String) : Option Int :=
  if s.startsWith "-" then (s.drop 1).toNat?.map fun n => -(n : Int) else s.toNat?.map fun n => (n : Int)

end Ldap3V.Driver

import Ldap3V.Driver.Util
namespace Ldap3V.Driver
open Ldap3V

/-- line-protocol handler for the `Escape` family of commands; `none` = not mine -/
def handleEscape (cmd arg : String) : Option String :=
  match cmd with
  | _ => none

end Ldap3V.Driver

import Ldap3V.Driver.Util
import Ldap3V.Model.Escape
import Ldap3V.Spec.Dn
namespace Ldap3V.Driver.EscapeD
open Ldap3V

def showEsc : EscOutcome → String
  | .ok s => hexOf s
  | .panicExpect => "panic"

def showAttrVal : Spec.Dn.AttrVal → String
  | .str v => "s:" ++ hexOf v
  | .ber v => "b:" ++ hexOf v

/-- `type=s:value+type=s:value;type=…` (all hex), `empty` for the empty DN -/
def showDn (rdns : List (List Spec.Dn.Ava)) : String :=
  if rdns.isEmpty then "empty" else
  ";".intercalate (rdns.map fun rdn => "+".intercalate (rdn.map fun (t, v) => hexOf t ++ "=" ++ showAttrVal v))

/-- line-protocol handler for the `Escape` family of commands; `none` = not mine -/
def handleEscape (cmd arg : String) : Option String :=
  match cmd with
  | "esc.ldap" => some (match unhex arg with
      | some bs => showEsc (ldapEscapeO bs)
      | none => "bad-request")
  | "esc.dn" => some (match unhex arg with
      | some bs => showEsc (dnEscapeO bs)
      | none => "bad-request")
  | "unesc.ldap" => some (match unhex arg with
      | some bs => (match ldapUnescape bs with
          | .ok s => "ok " ++ hexOf s
          | .errDecodingUtf8 => "err")
      | none => "bad-request")
  | "spec.dn.readvalue" => some (match unhex arg with
      | some bs => (match Spec.Dn.readValue bs with
          | some (v, rest) => s!"ok {hexOf v} rest={rest.length}"
          | none => "none")
      | none => "bad-request")
  | "spec.dn.parse" => some (match unhex arg with
      | some bs => (match Spec.Dn.parse bs with
          | some rdns => "ok " ++ showDn rdns
          | none => "none")
      | none => "bad-request")
  | "spec.filtervalue.read" => some (match unhex arg with
      | some bs => (match Spec.readFilterValue bs with
          | some v => "ok " ++ hexOf v
          | none => "none")
      | none => "bad-request")
  | _ => none

end Ldap3V.Driver.EscapeD

namespace Ldap3V.Driver
def handleEscape := EscapeD.handleEscape
end Ldap3V.Driver

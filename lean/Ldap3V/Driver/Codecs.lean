/- Line-protocol commands of the control / extended-operation codecs (C19). Not part of any theorem.
   ctl.enc <name> <fields…>      -> oid=<hex> crit=<0|1> val=<hex|none> | panic
   ctl.parse <name> <hex|none>   -> canonical struct | panic      (syncinfo takes a tree)
   ctl.build <oid> <0|1> <hex|none> -> tree of build_tag
   ctls.parse <tree>             -> [known oid crit val;…] | none
   exop.enc <name> <fields…>     -> name=<hex|none> val=<hex|none>
   exop.parse <name> <hex|none>  -> canonical struct | panic
   exop.construct <hex|none> <hex|none> -> trees | panic
   spec.ctl.dec / spec.exop.dec <name> <hex|none> -> canonical struct by the RFC decoder | none -/
import Ldap3V.Driver.Util
import Ldap3V.Driver.Entry
import Ldap3V.Model.Codecs
import Ldap3V.Spec.Codecs
namespace Ldap3V.Driver.CodecsD
open Ldap3V Ldap3V.Codecs

def optHex (s : String) : Option (Option Bytes) :=
  if s == "none" then some none else (unhex s).map some

def showOptHex : Option Bytes → String
  | none => "none"
  | some b => hexOf b

def showBit (b : Bool) : String := if b then "1" else "0"

def bitOf (s : String) : Option Bool :=
  if s == "1" then some true else if s == "0" then some false else none

def showRaw (rc : RawControl) : String :=
  s!"oid={hexOf rc.ctype} crit={showBit rc.crit} val={showOptHex rc.val}"

def showExop (e : Exop) : String := s!"name={showOptHex e.name} val={showOptHex e.val}"

def showOutcome {α : Type} (f : α → String) : Codecs.Outcome α → String
  | .ok v => f v
  | .panic => "panic"

def words (s : String) : List String := (s.splitOn " ").filter (· ≠ "")

def unhexAll : List String → Option (List Bytes)
  | [] => some []
  | s :: ss => match unhex s, unhexAll ss with
    | some b, some bs => some (b :: bs)
    | _, _ => none

def showHexList (l : List Bytes) : String := "[" ++ ",".intercalate (l.map hexOf) ++ "]"

def optTlv (s : String) : Option (Option Tlv) :=
  if s.trimAscii.toString == "none" then some none else (parseTlv s).map some

def encControl (name rest : String) : Option (Codecs.Outcome RawControl) :=
  let ws := words rest
  match name, ws with
  | "paged", [sz, ck] =>
    match parseInt sz, unhex ck with
    | some n, some c => some (.ok (encPagedResults ⟨n, c⟩))
    | _, _ => none
  | "syncreq", [m, ck, h] =>
    let mode := if m == "1" then some RefreshMode.refreshOnly
      else if m == "3" then some RefreshMode.refreshAndPersist else none
    match mode, optHex ck, bitOf h with
    | some mode, some c, some h => some (.ok (encSyncRequest ⟨mode, c, h⟩))
    | _, _, _ => none
  | "preread", _ => (unhexAll ws).map fun l => .ok (encPreRead l)
  | "postread", _ => (unhexAll ws).map fun l => .ok (encPostRead l)
  | "assertion", _ => (optTlv rest).map encAssertion
  | "matchedvalues", _ => (optTlv rest).map encMatchedValues
  | "proxyauth", [a] => (unhex a).map fun b => .ok (encProxyAuth b)
  | "txnspec", [a] => (unhex a).map fun b => .ok (encTxnSpec b)
  | "managedsait", [] => some (.ok encManageDsaIt)
  | "relaxrules", [] => some (.ok encRelaxRules)
  | _, _ => none

def encExop (name rest : String) : Option Exop :=
  match name, words rest with
  | "whoami", [] => some encWhoAmI
  | "starttls", [] => some encStartTLS
  | "starttxn", [] => some encStartTxn
  | "passmod", [u, o, n] =>
    match optHex u, optHex o, optHex n with
    | some u, some o, some n => some (encPasswordModify ⟨u, o, n⟩)
    | _, _, _ => none
  | "endtxn", [i, c] =>
    match unhex i, bitOf c with
    | some i, some c => some (encEndTxn ⟨i, c⟩)
    | _, _ => none
  | _, _ => none

def stateWord : EntryState → String
  | .present => "present" | .add => "add" | .modify => "modify" | .delete => "delete"

/-- canonical form of the HashSet: sorted, without duplicates -/
def canonSet (l : List Bytes) : List String :=
  let sorted := (l.map hexOf).mergeSort (fun a b => a < b || a == b)
  sorted.foldr (fun x acc => match acc with
    | y :: _ => if x == y then acc else x :: acc
    | [] => [x]) []

def showSyncInfo : SyncInfo → String
  | .newCookie c => s!"newcookie {hexOf c}"
  | .refreshDelete c d => s!"refreshdelete cookie={showOptHex c} done={showBit d}"
  | .refreshPresent c d => s!"refreshpresent cookie={showOptHex c} done={showBit d}"
  | .syncIdSet c d us => s!"syncidset cookie={showOptHex c} rd={showBit d} uuids=[{",".intercalate (canonSet us)}]"

def knownWord : Option ControlType → String
  | none => "-"
  | some .pagedResults => "paged"
  | some .postReadResp => "postread"
  | some .preReadResp => "preread"
  | some .syncDone => "syncdone"
  | some .syncState => "syncstate"
  | some .manageDsaIt => "managedsait"
  | some .matchedValues => "matchedvalues"

def showControl (c : Control) : String :=
  s!"{knownWord c.known} {hexOf c.raw.ctype} {showBit c.raw.crit} {showOptHex c.raw.val}"

def showControls (cs : List Control) : String := "[" ++ ";".intercalate (cs.map showControl) ++ "]"

def showEndTxnResp (r : EndTxnResp) : String :=
  let mid := match r.msgId with | none => "none" | some n => toString n
  let upds := match r.updsCtrls with
    | none => "none"
    | some ps => "[" ++ ",".intercalate (ps.map fun (p : Int × List Control) => s!"{p.1}:{showControls p.2}") ++ "]"
  s!"msg_id={mid} upds={upds}"

def parseCtl (name : String) (val : Option Bytes) : Option String :=
  match name with
  | "paged" => some (showOutcome (fun (v : PagedResults) => s!"size={v.size} cookie={hexOf v.cookie}")
      (parseVal parsePagedResults val))
  | "syncstate" => some (showOutcome (fun (v : SyncState) =>
      s!"state={stateWord v.state} uuid={hexOf v.entryUuid} cookie={showOptHex v.cookie}")
      (parseVal parseSyncState val))
  | "syncdone" => some (showOutcome (fun (v : SyncDone) =>
      s!"cookie={showOptHex v.cookie} rd={showBit v.refreshDeletes}") (parseVal parseSyncDone val))
  | "readentry" => some (showOutcome (fun t => s!"ok {showTlv t}") (parseVal parseReadEntryOuter val))
  | "readentryresp" => some (showOutcome (fun (r : ReadEntryResp) =>
      s!"ok text={EntryD.showMap r.text} bin={EntryD.showMap r.bin}") (parseVal parseReadEntryResp val))
  | _ => none

def parseExop (name : String) (val : Option Bytes) : Option String :=
  match name with
  | "whoami" => some (showOutcome (fun v => s!"authzid={hexOf v}") (parseVal parseWhoAmIResp val))
  | "starttxn" => some (showOutcome (fun v => s!"txn_id={hexOf v}") (parseVal parseStartTxnResp val))
  | "passmod" => some (showOutcome (fun v => s!"gen_pass={hexOf v}") (parseVal parsePasswordModifyResp val))
  | "endtxn" => some (showOutcome showEndTxnResp (parseVal parseEndTxnResp val))
  | _ => none

def showOpt {α : Type} (f : α → String) : Option α → String
  | none => "none"
  | some v => f v

def specDec (name : String) (val : Option Bytes) : Option String :=
  match name with
  | "paged" => some (showOpt (fun (v : PagedResults) => s!"size={v.size} cookie={hexOf v.cookie}") (Spec.decPaged val))
  | "syncreq" => some (showOpt (fun (v : SyncRequest) =>
      s!"mode={v.mode.toInt} cookie={showOptHex v.cookie} hint={showBit v.reloadHint}") (Spec.decSyncReq val))
  | "preread" | "postread" => some (showOpt (fun l => s!"attrs={showHexList l}") (Spec.decAttrSel val))
  | "assertion" => some (showOpt showTlv (Spec.decAssertion val))
  | "matchedvalues" => some (showOpt showTlv (Spec.decMatchedValues val))
  | "proxyauth" | "txnspec" => some (showOpt (fun b => s!"octets={hexOf b}") (Spec.decOctets val))
  | "managedsait" | "relaxrules" | "whoami" | "starttls" | "starttxn" =>
      some (showOpt (fun _ => "absent") (Spec.decAbsent val))
  | "passmod" => some (showOpt (fun (v : PasswordModify) =>
      s!"user={showOptHex v.userId} old={showOptHex v.oldPass} new={showOptHex v.newPass}") (Spec.decPassMod val))
  | "endtxn" => some (showOpt (fun (v : EndTxn) => s!"id={hexOf v.txnId} commit={showBit v.commit}") (Spec.decEndTxn val))
  | _ => none

/-- line-protocol handler for the `Codecs` family of commands; `none` = not mine -/
def handleCodecs (cmd arg : String) : Option String :=
  let bad := "bad-request"
  match cmd with
  | "ctl.enc" =>
    let (name, rest) := splitCmd arg
    let r := if name == "critical" then
        let (n2, r2) := splitCmd rest
        (encControl n2 r2).map fun o => match o with
          | .ok rc => Codecs.Outcome.ok (critical rc)
          | .panic => .panic
      else encControl name rest
    some ((r.map (showOutcome showRaw)).getD bad)
  | "ctl.parse" =>
    let (name, rest) := splitCmd arg
    if name == "syncinfo" then
      some (((parseTlv rest).map fun t => showOutcome showSyncInfo (parseSyncInfo t)).getD bad)
    else some (((optHex rest).bind (parseCtl name)).getD bad)
  | "ctl.build" =>
    match words arg with
    | [o, c, v] =>
      match unhex o, bitOf c, optHex v with
      | some o, some c, some v => some (showTlv (buildControl ⟨o, c, v⟩))
      | _, _, _ => some bad
    | _ => some bad
  | "ctls.parse" =>
    some (((parseTlv arg).map fun t => match parseControls t with
      | none => "none"
      | some cs => showControls cs).getD bad)
  | "exop.enc" =>
    let (name, rest) := splitCmd arg
    some (((encExop name rest).map showExop).getD bad)
  | "exop.parse" =>
    let (name, rest) := splitCmd arg
    some (((optHex rest).bind (parseExop name)).getD bad)
  | "exop.construct" =>
    match words arg with
    | [n, v] =>
      match optHex n, optHex v with
      | some n, some v => some (showOutcome
          (fun ts => " ".intercalate (ts.map fun t => showTlv t.toTlv)) (constructExop ⟨n, v⟩))
      | _, _ => some bad
    | _ => some bad
  | "spec.ctl.dec" | "spec.exop.dec" =>
    let (name, rest) := splitCmd arg
    some (((optHex rest).bind (specDec name)).getD bad)
  | _ => none

end Ldap3V.Driver.CodecsD

namespace Ldap3V.Driver
def handleCodecs := CodecsD.handleCodecs
end Ldap3V.Driver

import Ldap3V.Driver.Util
import Ldap3V.Spec.Ber
namespace Ldap3V.Driver
open Ldap3V

def handleBer (cmd arg : String) : Option String :=
  match cmd with
  | "ber.enc" => some (match parseTlv arg with
      | some t => hexOf (encode t)
      | none => "bad-request")
  | "ber.parse" => some (match unhex arg with
      | some bs => showPR (parseTag bs)
      | none => "bad-request")
  | "int.enc" => some (match parseInt arg with
      | some v => hexOf (intOctets v)
      | none => "bad-request")
  | "bool.enc" => some (hexOf (boolOctet (arg == "true")))
  | "spec.twos" => some (match unhex arg with
      | some bs => toString (Spec.twos bs)
      | none => "bad-request")
  | _ => none

end Ldap3V.Driver

import Ldap3V.Driver.Util
import Ldap3V.Driver.Envelope
import Ldap3V.Model.Result
namespace Ldap3V.Driver
open Ldap3V

def showOptHex : Option Bytes → String
  | some v => hexOf v
  | none => "none"

def showResultExt : Option ResultExt → String
  | none => "none"
  | some r =>
    s!"ok rc={r.rc} matched={hexOf r.matched} text={hexOf r.text} refs=[{",".intercalate (r.refs.map hexOf)}] " ++
    s!"exop={showOptHex r.exopName}/{showOptHex r.exopVal} sasl={showOptHex r.sasl}"

def showVerdict : Except Unit Unit → String
  | .ok _ => "ok"
  | .error _ => "err"

def showEqual : Except Unit Bool → String
  | .ok true => "true"
  | .ok false => "false"
  | .error _ => "err"

def showHelpers (rc : Nat) : String :=
  s!"success={showVerdict (success rc)} non_error={showVerdict (nonError rc)} equal={showEqual (equal rc)} " ++
  s!"cmp_non_error={showVerdict (cmpNonError rc)} " ++
  s!"search={showVerdict (searchSuccess rc)}/{showVerdict (searchNonError rc)} " ++
  s!"exop={showVerdict (exopSuccess rc)}/{showVerdict (exopNonError rc)}"

/-- decode one frame from the buffer, then the tail of `op_call` -/
def showE2E (bs : Bytes) : String :=
  match decodeInner bs with
  | .needMore => "needmore"
  | .decodeError => "error"
  | .frame id op cs n =>
    match opCallResult op cs with
    | none => s!"frame {id} consumed={n} panic"
    | some (r, (en, ev), sasl) =>
      s!"frame {id} consumed={n} " ++
      showResultExt (some ⟨r.rc, r.matched, r.text, r.refs, en, ev, sasl⟩) ++ s!" ctrls={showCtrls r.ctrls}"

/-- line-protocol handler for the `Results` family of commands; `none` = not mine -/
def handleResults (cmd arg : String) : Option String :=
  match cmd with
  | "res.ext" => some (
      if arg == "null" then showResultExt (resultExtOfTag (.null 0 5))
      else if arg == "other" then showResultExt (resultExtOfTag (.integer 0 2 0))
      else match parseTlv arg with
        | some t => showResultExt (resultExtOfTag (.structure t))
        | none => "bad-request")
  -- `LdapResult::from(tag)`: `none` of the model is the `expect("ldap result")` panic
  | "res.from" => some (match parseTlv arg with
      | some t => (match resultExt t with
        | none => "panic"
        | some r => s!"ok rc={r.rc} matched={hexOf r.matched} text={hexOf r.text} refs=[{",".intercalate (r.refs.map hexOf)}]")
      | none => "bad-request")
  | "res.helpers" => some (match arg.toNat? with
      | some rc => showHelpers rc
      | none => "bad-request")
  | "res.e2e" => some (match unhex arg with
      | some bs => showE2E bs
      | none => "bad-request")
  | _ => none

end Ldap3V.Driver

/- Line-protocol handler of the `sync` lane (C14): canonical dumps of the REGENERATED delegation table.
     sync.row <Owner>.<name>      one row, parameters shown by name (M-compared with the lane's own reading of sync.rs)
     sync.table                   all rows, " | "-separated
     sync.faithful                TableFaithful of the regenerated tables, as the driver computes it
     sync.plan <Owner>.<name> <n> what the async API is asked to do for a call with n arguments a0 … a(n-1)
   All helpers live in `Ldap3V.Driver.SyncD`; only `handleSync` is exported. -/
import Ldap3V.Driver.Util
import Ldap3V.Spec.Sync
import Ldap3V.Gen.SyncTable
namespace Ldap3V.Driver.SyncD
open Ldap3V Ldap3V.Sync

def showExpr (ps : List String) : Expr → String
  | .param i => ps.getD i s!"${i}"
  | .into e => showExpr ps e ++ ".into()"
  | .some e => "Some(" ++ showExpr ps e ++ ")"
  | .ref e => "&" ++ showExpr ps e
  | .urlParse e => "Url::parse(" ++ showExpr ps e ++ ")?"
  | .const s => s

def showArgs (ps : List String) (es : List Expr) : String := ",".intercalate (es.map (showExpr ps))

def showRecv : Recv → String
  | .static => "Self"
  | .ldap => "ldap"
  | .stream => "stream"
  | .streamLdap => "stream.ldap_handle()"

def showRet : Ret → String
  | .unchanged => "unchanged"
  | .entryStream => "entry_stream"

def showRow (r : SyncEntry) : String :=
  let ps := r.params
  match r.body with
  | .blockOn rt recv callee es ret => s!"block_on({rt}) {showRecv recv}.{callee}({showArgs ps es}) -> {showRet ret}"
  | .direct recv callee es => s!"direct {showRecv recv}.{callee}({showArgs ps es})"
  | .inline recv e => s!"inline {showRecv recv}.{e}"
  | .assign f v => s!"assign ldap.{f}={showExpr ps v}"
  | .delegate callee es => s!"delegate Self::{callee}({showArgs ps es})"
  | .connect fl callee es dr => s!"connect {fl} {callee}({showArgs ps es}) {if dr then "driven" else "NOT-driven"}"
  | .unclassified w => s!"UNCLASSIFIED {w}"

def showEntry (r : SyncEntry) : String :=
  s!"{r.owner}.{r.name}({",".intercalate r.params}) = {showRow r}"

def findRow (key : String) : Option SyncEntry :=
  match key.splitOn "." with
  | [o, n] => lookup Gen.syncTable o n
  | _ => none

def showVal : Val → String
  | .atom s => s
  | .into v => showVal v ++ ".into()"
  | .some v => "Some(" ++ showVal v ++ ")"
  | .ref v => "&" ++ showVal v
  | .urlParse v => "Url::parse(" ++ showVal v ++ ")?"
  | .const s => s
  | .undef => "UNDEF"

def stripInto : Val → Val
  | .into v => stripInto v
  | v => v

/-- a behaviour that only records what it is asked (for `sync.plan`); `into` on an adapter vector is the identity -/
def recorder : AsyncBehaviour Unit String where
  call _ recv m args := ((), s!"await {showRecv recv}.{m}({",".intercalate ((args.map stripInto).map showVal)})", [])
  setField _ _ _ _ := ()
  readExpr _ recv e := ((), s!"read {showRecv recv}.{e}", [])
  selfRef := "self"
  stuck := "STUCK"
  entryStreamOf r := "EntryStream{" ++ r ++ "}"
  into_absorbed := by intros; simp [stripInto]

end Ldap3V.Driver.SyncD

namespace Ldap3V.Driver
open Ldap3V Ldap3V.Sync Ldap3V.Driver.SyncD

/-- line-protocol handler for the `Sync` family of commands; `none` = not mine -/
def handleSync (cmd arg : String) : Option String :=
  match cmd with
  | "sync.table" => some (" | ".intercalate (Gen.syncTable.map showEntry))
  | "sync.row" =>
    match findRow arg with
    | some r => some (showRow r)
    | none => some "no-such-row"
  | "sync.faithful" => some (toString (TableFaithful Gen.asyncInfo Gen.syncTable))
  | "sync.plan" =>
    match arg.splitOn " " with
    | [key, n] =>
      match key.splitOn ".", n.toNat? with
      | [o, m], some k =>
        let c : ApiCall := ⟨o, m, (List.range k).map (fun i => Val.atom s!"a{i}")⟩
        let rs := stepSync Gen.syncTable Gen.asyncInfo recorder () c
        let ra := stepAsync Gen.asyncInfo recorder () c
        some s!"sync: {rs.2.1} ; async: {ra.2.1}"
      | _, _ => some "bad-request"
    | _ => some "bad-request"
  | _ => none

end Ldap3V.Driver

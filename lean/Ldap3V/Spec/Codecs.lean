/-
What the defining RFCs prescribe for the controls and extended operations implemented by ldap3,
written from the RFCs' ASN.1 alone (no reference to how the Rust code builds or reads the values).
Shared with the model: only the plain value structs (Model/Codecs.lean) and `Tlv`.

Request side: `XOfTlv : Tlv → Option X` reads the abstract value off a BER tree by the ASN.1 of the
RFC; `decX` composes it with a BER decoder of the whole byte string.  Response side: `XTlv v t`
relates a value to every tree that is an encoding of it (optional elements present or absent,
DEFAULT elements omitted *or* explicitly encoded, BOOLEAN TRUE as any non-zero octet — a superset
of what RFC 4511 §5.1 allows, which narrows TRUE to FF and forbids explicit defaults); compose
with `Spec.Enc` (Spec/Ber.lean) for "every definite-length encoding".
-/
import Ldap3V.Model.Codecs
import Ldap3V.Spec.Ber
namespace Ldap3V.Codecs.Spec
open Ldap3V Ldap3V.Spec

/-! ## object identifiers, as ASCII byte lists copied from the RFC texts -/

/-- "1.2.840.113556.1.4.319" — RFC 2696 §2 pagedResultsControl controlType -/
def rfcPagedResults : Bytes :=
  [0x31, 0x2e, 0x32, 0x2e, 0x38, 0x34, 0x30, 0x2e, 0x31, 0x31, 0x33, 0x35, 0x35, 0x36, 0x2e, 0x31, 0x2e, 0x34, 0x2e, 0x33, 0x31, 0x39]
/-- "1.3.6.1.4.1.4203.1.9.1.1" — RFC 4533 §2.2 Sync Request Control -/
def rfcSyncRequest : Bytes :=
  [0x31, 0x2e, 0x33, 0x2e, 0x36, 0x2e, 0x31, 0x2e, 0x34, 0x2e, 0x31, 0x2e, 0x34, 0x32, 0x30, 0x33, 0x2e, 0x31, 0x2e, 0x39, 0x2e, 0x31, 0x2e, 0x31]
/-- "1.3.6.1.4.1.4203.1.9.1.2" — RFC 4533 §2.3 Sync State Control -/
def rfcSyncState : Bytes :=
  [0x31, 0x2e, 0x33, 0x2e, 0x36, 0x2e, 0x31, 0x2e, 0x34, 0x2e, 0x31, 0x2e, 0x34, 0x32, 0x30, 0x33, 0x2e, 0x31, 0x2e, 0x39, 0x2e, 0x31, 0x2e, 0x32]
/-- "1.3.6.1.4.1.4203.1.9.1.3" — RFC 4533 §2.4 Sync Done Control -/
def rfcSyncDone : Bytes :=
  [0x31, 0x2e, 0x33, 0x2e, 0x36, 0x2e, 0x31, 0x2e, 0x34, 0x2e, 0x31, 0x2e, 0x34, 0x32, 0x30, 0x33, 0x2e, 0x31, 0x2e, 0x39, 0x2e, 0x31, 0x2e, 0x33]
/-- "1.3.6.1.4.1.4203.1.9.1.4" — RFC 4533 §2.5 Sync Info Message responseName -/
def rfcSyncInfo : Bytes :=
  [0x31, 0x2e, 0x33, 0x2e, 0x36, 0x2e, 0x31, 0x2e, 0x34, 0x2e, 0x31, 0x2e, 0x34, 0x32, 0x30, 0x33, 0x2e, 0x31, 0x2e, 0x39, 0x2e, 0x31, 0x2e, 0x34]
/-- "1.3.6.1.1.13.1" — RFC 4527 §3.1 Pre-Read controlType -/
def rfcPreRead : Bytes :=
  [0x31, 0x2e, 0x33, 0x2e, 0x36, 0x2e, 0x31, 0x2e, 0x31, 0x2e, 0x31, 0x33, 0x2e, 0x31]
/-- "1.3.6.1.1.13.2" — RFC 4527 §3.2 Post-Read controlType -/
def rfcPostRead : Bytes :=
  [0x31, 0x2e, 0x33, 0x2e, 0x36, 0x2e, 0x31, 0x2e, 0x31, 0x2e, 0x31, 0x33, 0x2e, 0x32]
/-- "1.3.6.1.1.12" — RFC 4528 §3 Assertion controlType -/
def rfcAssertion : Bytes :=
  [0x31, 0x2e, 0x33, 0x2e, 0x36, 0x2e, 0x31, 0x2e, 0x31, 0x2e, 0x31, 0x32]
/-- "1.2.826.0.1.3344810.2.3" — RFC 3876 §2 valuesReturnFilter controlType -/
def rfcMatchedValues : Bytes :=
  [0x31, 0x2e, 0x32, 0x2e, 0x38, 0x32, 0x36, 0x2e, 0x30, 0x2e, 0x31, 0x2e, 0x33, 0x33, 0x34, 0x34, 0x38, 0x31, 0x30, 0x2e, 0x32, 0x2e, 0x33]
/-- "2.16.840.1.113730.3.4.18" — RFC 4370 §3 Proxy Authorization controlType -/
def rfcProxyAuth : Bytes :=
  [0x32, 0x2e, 0x31, 0x36, 0x2e, 0x38, 0x34, 0x30, 0x2e, 0x31, 0x2e, 0x31, 0x31, 0x33, 0x37, 0x33, 0x30, 0x2e, 0x33, 0x2e, 0x34, 0x2e, 0x31, 0x38]
/-- "1.3.6.1.1.21.2" — RFC 5805 §2.2 Transaction Specification controlType -/
def rfcTxnSpec : Bytes :=
  [0x31, 0x2e, 0x33, 0x2e, 0x36, 0x2e, 0x31, 0x2e, 0x31, 0x2e, 0x32, 0x31, 0x2e, 0x32]
/-- "1.3.6.1.1.21.1" — RFC 5805 §2.1 Start Transaction requestName -/
def rfcTxnStart : Bytes :=
  [0x31, 0x2e, 0x33, 0x2e, 0x36, 0x2e, 0x31, 0x2e, 0x31, 0x2e, 0x32, 0x31, 0x2e, 0x31]
/-- "1.3.6.1.1.21.3" — RFC 5805 §2.3 End Transaction requestName -/
def rfcTxnEnd : Bytes :=
  [0x31, 0x2e, 0x33, 0x2e, 0x36, 0x2e, 0x31, 0x2e, 0x31, 0x2e, 0x32, 0x31, 0x2e, 0x33]
/-- "2.16.840.1.113730.3.4.2" — RFC 3296 §3 ManageDsaIT controlType -/
def rfcManageDsaIt : Bytes :=
  [0x32, 0x2e, 0x31, 0x36, 0x2e, 0x38, 0x34, 0x30, 0x2e, 0x31, 0x2e, 0x31, 0x31, 0x33, 0x37, 0x33, 0x30, 0x2e, 0x33, 0x2e, 0x34, 0x2e, 0x32]
/-- "1.3.6.1.4.1.4203.666.5.12" — draft-zeilenga-ldap-relax-03 (OID of the OpenLDAP experimental arc) -/
def rfcRelaxRules : Bytes :=
  [0x31, 0x2e, 0x33, 0x2e, 0x36, 0x2e, 0x31, 0x2e, 0x34, 0x2e, 0x31, 0x2e, 0x34, 0x32, 0x30, 0x33, 0x2e, 0x36, 0x36, 0x36, 0x2e, 0x35, 0x2e, 0x31, 0x32]
/-- "1.3.6.1.4.1.4203.1.11.3" — RFC 4532 §2.1 whoamiOID -/
def rfcWhoAmI : Bytes :=
  [0x31, 0x2e, 0x33, 0x2e, 0x36, 0x2e, 0x31, 0x2e, 0x34, 0x2e, 0x31, 0x2e, 0x34, 0x32, 0x30, 0x33, 0x2e, 0x31, 0x2e, 0x31, 0x31, 0x2e, 0x33]
/-- "1.3.6.1.4.1.4203.1.11.1" — RFC 3062 §2 passwdModifyOID -/
def rfcPassMod : Bytes :=
  [0x31, 0x2e, 0x33, 0x2e, 0x36, 0x2e, 0x31, 0x2e, 0x34, 0x2e, 0x31, 0x2e, 0x34, 0x32, 0x30, 0x33, 0x2e, 0x31, 0x2e, 0x31, 0x31, 0x2e, 0x31]
/-- "1.3.6.1.4.1.1466.20037" — RFC 4511 §4.14.1 StartTLS requestName -/
def rfcStartTLS : Bytes :=
  [0x31, 0x2e, 0x33, 0x2e, 0x36, 0x2e, 0x31, 0x2e, 0x34, 0x2e, 0x31, 0x2e, 0x31, 0x34, 0x36, 0x36, 0x2e, 0x32, 0x30, 0x30, 0x33, 0x37]

/-! ## BER primitives (X.690) -/

/-- X.690 §8.3.2 as a Boolean (`Spec.Minimal`) -/
def minimalB : Bytes → Bool
  | a :: b :: _ => !(a.toNat == 0 && b.toNat < 128) && !(a.toNat == 255 && b.toNat ≥ 128)
  | _ => true

/-- X.690 §8.3: INTEGER / ENUMERATED contents: at least one octet, minimal, two's complement -/
def intOf (bs : Bytes) : Option Int :=
  if bs.isEmpty then none else if minimalB bs then some (twos bs) else none

/-- X.690 §8.2: BOOLEAN contents: one octet, zero is FALSE, anything else TRUE -/
def boolOf : Bytes → Option Bool
  | [b] => some (b != 0)
  | _ => none

/-- The whole byte string is one definite-length TLV.  Executable BER decoder = the model parser,
which `C07_all_definite_forms` proves returns `t` on every `bs` with `Spec.Enc t bs`; the theorems
of C19 additionally state `Spec.Enc` directly, so nothing rests on this choice. -/
def ber (bs : Bytes) : Option Tlv :=
  match parseTag bs with
  | .ok t [] => some t
  | _ => none

/-- decode a control / request value that must be present, via a tree reader -/
def decVia {α : Type} (f : Tlv → Option α) (val : Option Bytes) : Option α :=
  match val with
  | none => none
  | some bs =>
    match ber bs with
    | none => none
    | some t => f t

/-- "the value is present and RFC-decodes to `v`": it is a definite-length BER encoding (the
independent relation `Spec.Enc`) of a tree that the ASN.1 reader `f` maps to `v`, and the
executable decoder `decVia f` returns `v` on it -/
def DecodesTo {α : Type} (f : Tlv → Option α) (val : Option Bytes) (v : α) : Prop :=
  decVia f val = some v ∧ ∃ t bs, val = some bs ∧ Enc t bs ∧ f t = some v

/-- maxInt of RFC 4511 / RFC 2696 -/
def maxInt : Int := 2147483647

/-! ## request side -/

/-- RFC 2696 §2: `realSearchControlValue ::= SEQUENCE { size INTEGER (0..maxInt), cookie OCTET STRING }` -/
def pagedOfTlv : Tlv → Option PagedResults
  | .cons 0 16 [.prim 0 2 sz, .prim 0 4 ck] =>
    match intOf sz with
    | some n => if 0 ≤ n ∧ n ≤ maxInt then some ⟨n, ck⟩ else none
    | none => none
  | _ => none
def decPaged := decVia pagedOfTlv

/-- RFC 4533 §2.2: `mode ENUMERATED { refreshOnly (1), refreshAndPersist (3) }` -/
def modeOf (bs : Bytes) : Option RefreshMode :=
  match intOf bs with
  | some 1 => some .refreshOnly
  | some 3 => some .refreshAndPersist
  | _ => none

/-- RFC 4533 §2.2: `syncRequestValue ::= SEQUENCE { mode ENUMERATED {…}, cookie syncCookie OPTIONAL,
reloadHint BOOLEAN DEFAULT FALSE }`, `syncCookie ::= OCTET STRING` -/
def syncReqOfTlv : Tlv → Option SyncRequest
  | .cons 0 16 (.prim 0 10 m :: rest) =>
    match modeOf m with
    | none => none
    | some mode =>
      match rest with
      | [] => some ⟨mode, none, false⟩
      | [.prim 0 4 ck] => some ⟨mode, some ck, false⟩
      | [.prim 0 1 b] => (boolOf b).map fun h => ⟨mode, none, h⟩
      | [.prim 0 4 ck, .prim 0 1 b] => (boolOf b).map fun h => ⟨mode, some ck, h⟩
      | _ => none
  | _ => none
def decSyncReq := decVia syncReqOfTlv

/-- a list of universal primitive OCTET STRINGs -/
def octetsList : List Tlv → Option (List Bytes)
  | [] => some []
  | .prim 0 4 v :: ts => (octetsList ts).map (v :: ·)
  | _ => none

/-- RFC 4527 §3.1/3.2: controlValue is a BER-encoded `AttributeSelection`
(RFC 4511: `SEQUENCE OF selector LDAPString`) -/
def attrSelOfTlv : Tlv → Option (List Bytes)
  | .cons 0 16 ks => octetsList ks
  | _ => none
def decAttrSel := decVia attrSelOfTlv

/-- RFC 4528 §3: controlValue is a BER-encoded `Filter` (RFC 4511 §4.5.1: a CHOICE of the context
tags [0]..[9]).  Only the outermost tag is read here; the Filter grammar is C08's. -/
def filterOfTlv (t : Tlv) : Option Tlv :=
  if t.cls = 2 ∧ t.id ≤ 9 then some t else none
def decAssertion := decVia filterOfTlv

/-- RFC 3876 §2: `SimpleFilterItem ::= CHOICE { equalityMatch [3] … extensibleMatch [9] }` -/
def isSimpleItem (t : Tlv) : Bool := t.cls == 2 && 3 ≤ t.id && t.id ≤ 9

/-- RFC 3876 §2: `ValuesReturnFilter ::= SEQUENCE OF SimpleFilterItem` -/
def valuesReturnFilterOfTlv : Tlv → Option Tlv
  | .cons 0 16 ks => if ks.all isSimpleItem then some (.cons 0 16 ks) else none
  | _ => none
def decMatchedValues := decVia valuesReturnFilterOfTlv

/-- RFC 4370 §3: controlValue SHALL be present and contains the authzId (or is empty); it is *not*
wrapped in a further TLV.  RFC 5805 §2.2: controlValue is the transaction identifier. -/
def decOctets (val : Option Bytes) : Option Bytes := val

/-- RFC 3296 §3 / relax draft §3 / RFC 4532 §2.1 / RFC 5805 §2.1 / RFC 4511 §4.14.1:
the value is absent -/
def decAbsent (val : Option Bytes) : Option Unit :=
  match val with
  | none => some ()
  | some _ => none

/-- an OPTIONAL context-tagged primitive `[i]` at the head of a component list -/
def optCtx (i : Nat) : List Tlv → Option Bytes × List Tlv
  | .prim 2 j v :: ts => if j = i then (some v, ts) else (none, .prim 2 j v :: ts)
  | ts => (none, ts)

/-- RFC 3062 §2: `PasswdModifyRequestValue ::= SEQUENCE { userIdentity [0] OCTET STRING OPTIONAL,
oldPasswd [1] OCTET STRING OPTIONAL, newPasswd [2] OCTET STRING OPTIONAL }` -/
def passModOfTlv : Tlv → Option PasswordModify
  | .cons 0 16 ks =>
    let (u, r0) := optCtx 0 ks
    let (o, r1) := optCtx 1 r0
    let (n, r2) := optCtx 2 r1
    if r2.isEmpty then some ⟨u, o, n⟩ else none
  | _ => none

/-- the requestValue of an ExtendedRequest is itself OPTIONAL (RFC 4511 §4.12); the library omits it
when all three fields are absent, which denotes the same abstract value as `30 00` -/
def decPassMod (val : Option Bytes) : Option PasswordModify :=
  match val with
  | none => some ⟨none, none, none⟩
  | some _ => decVia passModOfTlv val

/-- RFC 5805 §2.3: `txnEndReq ::= SEQUENCE { commit BOOLEAN DEFAULT TRUE, identifier OCTET STRING }` -/
def endTxnOfTlv : Tlv → Option EndTxn
  | .cons 0 16 [.prim 0 4 ident] => some ⟨ident, true⟩
  | .cons 0 16 [.prim 0 1 b, .prim 0 4 ident] => (boolOf b).map fun c => ⟨ident, c⟩
  | _ => none
def decEndTxn := decVia endTxnOfTlv

/-! ## response side: value ↦ the trees that encode it -/

/-- INTEGER / ENUMERATED contents denoting `n` (minimality is not required of the sender here:
a superset of X.690 §8.3.2) -/
def IntEnc (n : Int) (bs : Bytes) : Prop := bs ≠ [] ∧ twos bs = n

/-- BOOLEAN contents denoting `b` -/
def BoolEnc (b : Bool) (bs : Bytes) : Prop := ∃ x : UInt8, bs = [x] ∧ (x != 0) = b

/-- an `OPTIONAL` universal OCTET STRING -/
def optOctets : Option Bytes → List Tlv
  | none => []
  | some v => [.prim 0 4 v]

/-- a universal `BOOLEAN DEFAULT dflt` with value `b`: omitted when default, or explicitly encoded -/
def BoolOpt (dflt b : Bool) (l : List Tlv) : Prop :=
  (b = dflt ∧ l = []) ∨ (∃ bs, BoolEnc b bs ∧ l = [.prim 0 1 bs])

/-- RFC 2696 §2, the same `realSearchControlValue` in the response -/
def PagedTlv (v : PagedResults) (t : Tlv) : Prop :=
  ∃ sz, IntEnc v.size sz ∧ t = .cons 0 16 [.prim 0 2 sz, .prim 0 4 v.cookie]

/-- RFC 4533 §2.3: `state ENUMERATED { present (0), add (1), modify (2), delete (3) }` -/
def stateNum : EntryState → Int
  | .present => 0 | .add => 1 | .modify => 2 | .delete => 3

/-- RFC 4533 §2.3: `syncStateValue ::= SEQUENCE { state ENUMERATED {…}, entryUUID syncUUID,
cookie syncCookie OPTIONAL }`, `syncUUID ::= OCTET STRING (SIZE(16))` (the size is not needed) -/
def SyncStateTlv (v : SyncState) (t : Tlv) : Prop :=
  ∃ st, IntEnc (stateNum v.state) st ∧
    t = .cons 0 16 ([.prim 0 10 st, .prim 0 4 v.entryUuid] ++ optOctets v.cookie)

/-- RFC 4533 §2.4: `syncDoneValue ::= SEQUENCE { cookie syncCookie OPTIONAL,
refreshDeletes BOOLEAN DEFAULT FALSE }` -/
def SyncDoneTlv (v : SyncDone) (t : Tlv) : Prop :=
  ∃ bl, BoolOpt false v.refreshDeletes bl ∧ t = .cons 0 16 (optOctets v.cookie ++ bl)

/-- RFC 4533 §2.5: `syncInfoValue ::= CHOICE { newcookie [0] syncCookie,
refreshDelete [1] SEQUENCE { cookie syncCookie OPTIONAL, refreshDone BOOLEAN DEFAULT TRUE },
refreshPresent [2] SEQUENCE { cookie syncCookie OPTIONAL, refreshDone BOOLEAN DEFAULT TRUE },
syncIdSet [3] SEQUENCE { cookie syncCookie OPTIONAL, refreshDeletes BOOLEAN DEFAULT FALSE,
syncUUIDs SET OF syncUUID } }` (IMPLICIT tags; the elements of the SET in the listed order) -/
def SyncInfoTlv : SyncInfo → Tlv → Prop
  | .newCookie c, t => t = .prim 2 0 c
  | .refreshDelete ck d, t => ∃ bl, BoolOpt true d bl ∧ t = .cons 2 1 (optOctets ck ++ bl)
  | .refreshPresent ck d, t => ∃ bl, BoolOpt true d bl ∧ t = .cons 2 2 (optOctets ck ++ bl)
  | .syncIdSet ck d us, t => ∃ bl, BoolOpt false d bl ∧
      t = .cons 2 3 (optOctets ck ++ bl ++ [.cons 0 17 (us.map fun u => .prim 0 4 u)])

/-- RFC 4533 §2.5 + RFC 4511 §4.13: the Sync Info Message is an
`IntermediateResponse ::= [APPLICATION 25] SEQUENCE { responseName [0] LDAPOID OPTIONAL,
responseValue [1] OCTET STRING OPTIONAL }` whose responseName is the Sync Info OID and whose
responseValue holds a BER encoding `valBytes` of the syncInfoValue -/
def syncInfoMsg (valBytes : Bytes) : Tlv :=
  .cons 1 25 [.prim 2 0 rfcSyncInfo, .prim 2 1 valBytes]

/-- RFC 3062 §2: `PasswdModifyResponseValue ::= SEQUENCE { genPasswd [0] OCTET STRING OPTIONAL }`,
with genPasswd present -/
def passModRespTlv (genPasswd : Bytes) : Tlv := .cons 0 16 [.prim 2 0 genPasswd]

/-- RFC 5805 §2.4: `txnEndRes ::= SEQUENCE { messageID MessageID OPTIONAL, updatesControls SEQUENCE OF
updateControls SEQUENCE { messageID MessageID, controls Controls } OPTIONAL }` — here only the
values without `updatesControls` -/
def EndTxnRespSimpleTlv (mid : Option Int) (t : Tlv) : Prop :=
  match mid with
  | none => t = .cons 0 16 []
  | some n => ∃ sz, IntEnc n sz ∧ t = .cons 0 16 [.prim 0 2 sz]

/-- RFC 5805 §2.4: a `txnEndRes` whose `updatesControls` is not empty; `pre` are the earlier
`updateControls` elements, the last one is `SEQUENCE { messageID, controls }` -/
def endTxnRespRfcTlv (midPart pre : List Tlv) (sz : Bytes) (ctrls : List Tlv) : Tlv :=
  .cons 0 16 (midPart ++ [.cons 0 16 (pre ++ [.cons 0 16 [.prim 0 2 sz, .cons 0 16 ctrls]])])

/-- RFC 4511 §4.1.11: `Control ::= SEQUENCE { controlType LDAPOID, criticality BOOLEAN DEFAULT FALSE,
controlValue OCTET STRING OPTIONAL }` -/
def ControlTlv (rc : RawControl) (t : Tlv) : Prop :=
  ∃ bl, BoolOpt false rc.crit bl ∧ t = .cons 0 16 ([.prim 0 4 rc.ctype] ++ bl ++ optOctets rc.val)

/-- elementwise `ControlTlv` -/
def ControlsList : List RawControl → List Tlv → Prop
  | [], [] => True
  | c :: cs, t :: ts => ControlTlv c t ∧ ControlsList cs ts
  | _, _ => False
/-- RFC 4511 §4.1.11: `Controls ::= SEQUENCE OF control Control`, carried as `controls [0]` -/
def ControlsTlv (cs : List RawControl) (t : Tlv) : Prop :=
  ∃ ts, ControlsList cs ts ∧ t = .cons 2 0 ts

end Ldap3V.Codecs.Spec

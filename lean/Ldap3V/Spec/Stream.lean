/-
What C10 and C16 say, independent of how search.rs / adapters.rs do it.

* `Cursor`: a sequence of items with a position, an ending (the server's final result, a failure,
  silence) and the five stream states; `next/finish/state` are the property's words:
  items in order, then `Ok(None)`; `finish()` = the server's result if the cursor was read to its
  end, the synthetic "cancelled" result (rc 88) otherwise; a second `finish()` = rc 80;
  `next()` outside `Active` = `Ok(None)`; Fresh → Active → Done → Closed, Error after a failure.
* `view chain pages`: which items in which order a stream with that adapter chain presents, given
  the channel scripts of the searches it performs:
    direct        the first script as it is;
    EntriesOnly   the entries only; the URIs of the references skipped on the way are the `gain`
                  of the next step (they end up in the result's referral list; an early `finish()`
                  reports those gained so far together with rc 88);
    PagedResults  the concatenation of the pages up to and including the first one whose result
                  carries an empty cookie or no paging control; the final result is that page's,
                  without its (first) paging control.
  Adapters compose along the chain in either order.
* `pagedRequests`: the request sequence C16 prescribes.
-/
import Ldap3V.Model.Stream
namespace Ldap3V.Stream.Spec
open Ldap3V Ldap3V.Stream

inductive AKind where | entriesOnly | paged
  deriving DecidableEq, Repr

def kindOf : Adapter → AKind
  | .entriesOnly _ => .entriesOnly
  | .paged .. => .paged

/-- one item of the presented sequence, with the referral URIs acquired on the way to it -/
structure Step where
  gain : List Bytes
  item : Item
  deriving DecidableEq, Repr

inductive End where
  | done (gain : List Bytes) (r : Res)      -- the server's final result
  | fail (gain : List Bytes) (e : Err)      -- connection lost / time-out / a follow-up search failed
  | pending                                 -- nothing more arrives: the caller waits forever
  | panic                                   -- ill-formed input on which the client code panics
  deriving DecidableEq, Repr

structure View where
  steps : List Step
  ending : End
  deriving DecidableEq, Repr

/-- the script of one search as a direct stream presents it -/
def rawView : List Recv → View
  | [] => ⟨[], .pending⟩
  | .item i :: l => let v := rawView l; ⟨⟨[], i⟩ :: v.steps, v.ending⟩
  | .done r :: _ => ⟨[], .done [] r⟩
  | .closed :: _ => ⟨[], .fail [] .endOfStream⟩
  | .timeout :: _ => ⟨[], .fail [] .timeout⟩

def End.addGain (g : List Bytes) : End → End
  | .done g' r => .done (g ++ g') r
  | .fail g' e => .fail (g ++ g') e
  | .pending => .pending
  | .panic => .panic

/-- entries only; `acc` = URIs of the references passed since the last entry -/
def eoSteps (acc : List Bytes) : List Step → End → View
  | [], e => ⟨[], e.addGain acc⟩
  | st :: l, e =>
    match st.item.kind with
    | .entry => let v := eoSteps [] l e; ⟨⟨acc ++ st.gain, st.item⟩ :: v.steps, v.ending⟩
    | .inter => eoSteps (acc ++ st.gain) l e
    | .ref =>
      match st.item.uris with
      | some us => eoSteps (acc ++ st.gain ++ us) l e
      | none => ⟨[], .panic⟩

def eoView (v : View) : View := eoSteps [] v.steps v.ending

/-- the cookie of the first paging control: `none` = no paging control, `some none` = one without a (parsable) value -/
def pagingCookie (cs : List Ctl) : Option (Option Bytes) := (cs.find? (·.paged)).map (·.cookie)

def dropPaging : List Ctl → List Ctl
  | [] => []
  | c :: cs => if c.paged then cs else c :: dropPaging cs

/-- `w` continues after the steps `steps`; `g` = gain of the page boundary -/
def View.after (steps : List Step) (g : List Bytes) (w : View) : View :=
  match w.steps with
  | [] => ⟨steps, w.ending.addGain g⟩
  | st :: tl => ⟨steps ++ ⟨g ++ st.gain, st.item⟩ :: tl, w.ending⟩

/-- pages in server order up to and including the first whose result has an empty cookie / no paging
control; `inner` presents one page's script (through the adapters below PagedResults) -/
def pagedView (inner : List Recv → View) : List Page → View
  | [] => ⟨[], .pending⟩                      -- the next page was asked for and never came
  | .fail e :: _ => ⟨[], .fail [] e⟩
  | .script l :: ps =>
    let v := inner l
    match v.ending with
    | .done g r =>
      match pagingCookie r.ctrls with
      | none => v
      | some none => ⟨v.steps, .panic⟩
      | some (some ck) =>
        if ck.isEmpty then ⟨v.steps, .done g { r with ctrls := dropPaging r.ctrls }⟩
        else View.after v.steps g (pagedView inner ps)
    | _ => v

def view : List AKind → List Page → View
  | [], [] => ⟨[], .pending⟩
  | [], .script l :: _ => rawView l
  | [], .fail e :: _ => ⟨[], .fail [] e⟩
  | .entriesOnly :: rest, pages => eoView (view rest pages)
  | .paged :: rest, pages => pagedView (fun l => view rest [.script l]) pages

/-! ### the cursor -/

structure Cursor where
  rest : List Step                  -- items not yet handed out
  ending : End
  state : SState := .fresh
  pos : Nat := 0                    -- items handed out
  acc : List Bytes := []            -- referral URIs gained so far
  final : Option Res := none        -- the server's result, once the end has been reached
  deriving DecidableEq, Repr

def Cursor.ofView (v : View) : Cursor := { rest := v.steps, ending := v.ending }

/-- what `start` answers: the paging adapter rejects a caller-supplied paging control, then the
filter must parse, then the first search must be accepted -/
def startOutcome (chain : List AKind) (h : Handle) (q : Query) (pages : List Page) : StartOut :=
  if chain.contains .paged && (h.ctrls.getD []).any RCtl.isPaged then .err .adapterInit
  else if !q.filterOk then .err .filterParsing
  else match pages with
    | .fail e :: _ => .err e
    | _ => .ok

def Cursor.start (c : Cursor) (r : StartOut) : Cursor × Output :=
  if c.state ≠ .fresh then (c, .started .ok) else
  match r with
  | .ok => ({ c with state := .active }, .started .ok)
  | .err e => ({ c with state := .error }, .started (.err e))

def Cursor.next (c : Cursor) : Cursor × Output :=
  if c.state ≠ .active then (c, .item (.ok none)) else
  match c.rest with
  | st :: tl => ({ c with rest := tl, pos := c.pos + 1, acc := c.acc ++ st.gain }, .item (.ok (some st.item)))
  | [] =>
    match c.ending with
    | .done g r => ({ c with state := .done, acc := c.acc ++ g, final := some r }, .item (.ok none))
    | .fail g e => ({ c with state := .error, acc := c.acc ++ g }, .item (.err e))
    | .pending => (c, .item .pending)
    | .panic => (c, .item .panic)

def Cursor.finish (c : Cursor) : Cursor × Output :=
  if c.state = .closed then (c, .result alreadyFinalized) else
  let r := c.final.getD cancelled
  ({ c with state := .closed, acc := [], final := none }, .result { r with refs := r.refs ++ c.acc })

def Cursor.step (r : StartOut) (c : Cursor) : Call → Cursor × Output
  | .start _ => c.start r
  | .next => c.next
  | .finish => c.finish
  | .state => (c, .st c.state)

def Cursor.run (r : StartOut) (c : Cursor) : List Call → List Output
  | [] => []
  | k :: ks =>
    let (c', o) := c.step r k
    o :: (if o.stuck then [] else Cursor.run r c' ks)

/-! ### the request sequence of a paged search -/

/-- cookie with which the page after this one is requested, if there is one -/
def nextCookie (l : List Recv) : Option Bytes :=
  match (rawView l).ending with
  | .done _ r =>
    match pagingCookie r.ctrls with
    | some (some ck) => if ck.isEmpty then none else some ck
    | _ => none
  | _ => none

/-- the searches a paged stream read to its end performs: `mk cookie acked` -/
def pagedRequests (mk : Bytes → Bool → Req) : Bytes → List Page → List Req
  | ck, [] => [mk ck true]
  | ck, .fail _ :: _ => [mk ck false]
  | ck, .script l :: ps =>
    mk ck true :: (match nextCookie l with
      | some ck' => pagedRequests mk ck' ps
      | none => [])

/-- request `k` of a paged search: the caller's other controls followed by the paging control with
the requested size and the cookie; the same options, time-out and query every time -/
def pagedReq (size : Int) (others : List RCtl) (opts tmo : Option Nat) (q : Query) (ck : Bytes) (acked : Bool) : Req :=
  ⟨some (others ++ [.paged size ck]), opts, tmo, q, acked⟩

end Ldap3V.Stream.Spec

/-
RFC 4511 responses that carry an LDAPResult, written from the ASN.1:

  LDAPResult ::= SEQUENCE {                                            -- §4.1.9
       resultCode         ENUMERATED { success (0), … , other (80), … },
       matchedDN          LDAPDN,
       diagnosticMessage  LDAPString,
       referral           [3] Referral OPTIONAL }
  Referral ::= SEQUENCE SIZE (1..MAX) OF uri URI                       -- §4.1.10
  BindResponse ::= [APPLICATION 1] SEQUENCE {                          -- §4.2.2
       COMPONENTS OF LDAPResult,
       serverSaslCreds    [7] OCTET STRING OPTIONAL }
  SearchResultDone ::= [APPLICATION 5] LDAPResult       ModifyResponse ::= [APPLICATION 7] LDAPResult
  AddResponse ::= [APPLICATION 9] LDAPResult            DelResponse ::= [APPLICATION 11] LDAPResult
  ModifyDNResponse ::= [APPLICATION 13] LDAPResult      CompareResponse ::= [APPLICATION 15] LDAPResult
  ExtendedResponse ::= [APPLICATION 24] SEQUENCE {                     -- §4.12
       COMPONENTS OF LDAPResult,
       responseName     [10] LDAPOID OPTIONAL,
       responseValue    [11] OCTET STRING OPTIONAL }

Tags are IMPLICIT (§5.1): `[3]` is a constructed context element holding the URIs as OCTET STRINGs,
`[7]`, `[10]`, `[11]` are primitive context elements.
-/
import Ldap3V.Spec.Ber
import Ldap3V.Model.Utf8
namespace Ldap3V.Spec
open Ldap3V

/-- a response as the server means it, plus the server's free choice of content octets for the
resultCode (`rcc`; any octets whose two's complement value is `rc`: minimal or padded) -/
structure Resp where
  kind : Nat                       -- application tag number
  rcc : Bytes                      -- content octets of the resultCode ENUMERATED
  rc : Nat
  matched : Bytes
  text : Bytes
  refs : Option (List Bytes)       -- `referral [3]`, if present (RFC: non-empty; not required here)
  sasl : Option Bytes              -- BindResponse only
  exopName : Option Bytes          -- ExtendedResponse only
  exopVal : Option Bytes           -- ExtendedResponse only
  deriving Repr

def respKinds : List Nat := [1, 5, 7, 9, 11, 13, 15, 24]

/-- the protocolOp element, components in ASN.1 order -/
def respOp (r : Resp) : Tlv :=
  .cons 1 r.kind (
    [Tlv.prim 0 10 r.rcc, Tlv.prim 0 4 r.matched, Tlv.prim 0 4 r.text] ++
    (match r.refs with
     | some us => [Tlv.cons 2 3 (us.map fun u => Tlv.prim 0 4 u)]
     | none => []) ++
    (if r.kind = 1 then
       (match r.sasl with | some s => [Tlv.prim 2 7 s] | none => [])
     else []) ++
    (if r.kind = 24 then
       (match r.exopName with | some n => [Tlv.prim 2 10 n] | none => []) ++
       (match r.exopVal with | some v => [Tlv.prim 2 11 v] | none => [])
     else []))

/-- well-formed: one of the eight response kinds; `rcc` are two's complement octets of `rc`;
`rc` fits the client's `u32` (RFC 4511 codes are far below; maxInt = 2^31-1 is inside the range);
LDAPDN / LDAPString / URI / LDAPOID are UTF-8 text; the bind- and extended-only fields appear only
there. -/
def WFResp (r : Resp) : Prop :=
  r.kind ∈ respKinds ∧ twos r.rcc = (r.rc : Int) ∧ r.rc < 4294967296 ∧
  utf8Valid r.matched = true ∧ utf8Valid r.text = true ∧
  (∀ us, r.refs = some us → ∀ u ∈ us, utf8Valid u = true) ∧
  (∀ n, r.exopName = some n → utf8Valid n = true) ∧
  (r.kind ≠ 1 → r.sasl = none) ∧
  (r.kind ≠ 24 → r.exopName = none ∧ r.exopVal = none)

end Ldap3V.Spec

/-
C18 — what connection set-up SHOULD do, written from the property text as a decision table,
independently of how src/conn.rs is organised (no internal "starttls" scheme word, no staged
matches, no panics).

Property: "ldap URLs connect over TCP to the given host and port (default 389, a missing host
meaning localhost), ldaps over TLS (default 636), ldapi to the percent-decoded Unix socket path,
and a pre-opened stream is used only if its type matches the scheme.  Unknown schemes, empty or
port-bearing ldapi paths, mismatched streams, unparsable URLs and unreachable endpoints return an
error, and a connection timeout bounds the whole establishment including StartTLS.  No URL or
settings combination makes connection setup panic."

Where the text leaves the precedence of two errors open, the table follows the crate's own
documentation: an unknown scheme is reported whatever the stream is (the scheme selects the
transport at all), and for `ldapi` a pre-opened stream is looked at before the path
(`set_std_stream`: "For Unix streams, the URL can be ldapi:///, since the path won't be used").

The vocabulary (`Settings`, `UrlParts`, `Plan`, …) is shared with the model; `percentDecode` is
the RFC 3986 decoder of Model/Url.lean.  The path of the table is the percent-decoded BYTE string
(a Unix socket path is a byte string), and the time-out bounds every plan that has a step which
can wait — the one place where the code is known to differ (see Props/C18.lean,
`C18_matches_spec`).
-/
import Ldap3V.Model.ConnSetup
namespace Ldap3V.ConnSetup.Spec
open Ldap3V Ldap3V.ConnSetup

inductive Scheme
  | ldap | ldaps | ldapi | unknown
  deriving DecidableEq, Repr

/-- scheme names as `Url::scheme()` reports them (lower case) -/
def classify (scheme : Bytes) : Scheme :=
  if scheme = [0x6C, 0x64, 0x61, 0x70] then .ldap
  else if scheme = [0x6C, 0x64, 0x61, 0x70, 0x73] then .ldaps
  else if scheme = [0x6C, 0x64, 0x61, 0x70, 0x69] then .ldapi
  else .unknown

def defaultPort : Scheme → Nat
  | .ldaps => 636
  | _ => 389

/-- "a missing host meaning localhost" (missing = absent or empty) -/
def targetHost (host : Option Bytes) : Bytes :=
  match host with
  | none => [0x6C, 0x6F, 0x63, 0x61, 0x6C, 0x68, 0x6F, 0x73, 0x74]
  | some [] => [0x6C, 0x6F, 0x63, 0x61, 0x6C, 0x68, 0x6F, 0x73, 0x74]
  | some h => h

def targetPort (sch : Scheme) (port : Option Nat) : Nat :=
  port.getD (defaultPort sch)

/-- ldaps is TLS from the first byte, whatever `starttls` says; ldap is StartTLS iff requested -/
def security (sch : Scheme) (starttls : Bool) : Secure :=
  match sch with
  | .ldaps => .tls
  | _ => if starttls then .starttls else .none

/-- the TCP schemes -/
def planTcp (sch : Scheme) (s : Settings) (u : UrlParts) : Plan :=
  match s.stdStream with
  | none => .tcpConnect (targetHost u.host) (targetPort sch u.port) (security sch s.starttls) s.connTimeout
  | some .tcp => .useTcpStream (targetHost u.host) (security sch s.starttls) s.connTimeout
  | some .unix => .err .mismatchedStreamType
  | some .invalid => .err .mismatchedStreamType

def planUnix (s : Settings) (u : UrlParts) : Plan :=
  match s.stdStream with
  | some .unix => .useUnixStream
  | some .tcp => .err .mismatchedStreamType
  | some .invalid => .err .mismatchedStreamType
  | none =>
    match u.host, u.port with
    | none, _ => .err .emptyUnixPath
    | some [], _ => .err .emptyUnixPath
    | some _, some _ => .err .portInUnixPath
    | some p, none =>
      if 0x3A ∈ p then .err .portInUnixPath
      else .unixConnect (Url.percentDecode p) s.connTimeout

def plan (s : Settings) (u : UrlParts) : Plan :=
  match classify u.scheme with
  | .unknown => .err (.unknownScheme u.scheme)
  | .ldapi => planUnix s u
  | sch => planTcp sch s u

/-! ## The one known difference between the table and the code, as a view on plans -/

/-- how the code realises a plan of the table: a Unix-socket connect is not wrapped in the time-out -/
def codeView : Plan → Plan
  | .unixConnect path _ => .unixConnect path none
  | p => p

end Ldap3V.ConnSetup.Spec

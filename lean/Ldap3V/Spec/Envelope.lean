/-
RFC 4511 §4.1.1 LDAPMessage, written from the ASN.1:
  LDAPMessage ::= SEQUENCE { messageID INTEGER (0..maxInt), protocolOp CHOICE {…}, controls [0] Controls OPTIONAL }
  Control ::= SEQUENCE { controlType LDAPOID, criticality BOOLEAN DEFAULT FALSE, controlValue OCTET STRING OPTIONAL }
-/
import Ldap3V.Model.Controls
import Ldap3V.Spec.Ber
namespace Ldap3V.Spec
open Ldap3V

/-- a control as a sender may encode it: criticality absent, or explicitly TRUE/FALSE with any
non-zero octet meaning TRUE (BER) -/
structure WireControl where
  oid : Bytes
  crit : Option UInt8      -- the BOOLEAN content octet, if the element is present
  val : Option Bytes
  deriving Repr

def WireControl.tlv (c : WireControl) : Tlv :=
  .cons 0 16 ([Tlv.prim 0 4 c.oid] ++ (match c.crit with | some b => [Tlv.prim 0 1 [b]] | none => []) ++
    (match c.val with | some v => [Tlv.prim 0 4 v] | none => []))

/-- what the receiver must report: absent criticality = false, absent value = none -/
def WireControl.meaning (c : WireControl) : RawControl :=
  ⟨c.oid, (match c.crit with | some b => b != 0 | none => false), c.val⟩

/-- what the receiver must report for an optional control list -/
def ctrlsMeaning : Option (List WireControl) → List Control
  | some cs => cs.map fun c => ⟨knownType c.oid, c.meaning⟩
  | none => []

/-- the LDAPMessage with message ID content octets `idc`, protocolOp `op`, optional controls -/
def msgTlv (idc : Bytes) (op : Tlv) (ctrls : Option (List WireControl)) : Tlv :=
  .cons 0 16 ([Tlv.prim 0 2 idc, op] ++ (match ctrls with
    | some cs => [Tlv.cons 2 0 (cs.map WireControl.tlv)]
    | none => []))

end Ldap3V.Spec

namespace Ldap3V.Spec
open Ldap3V

/-- a message as a server may send it -/
structure WireMsg where
  idc : Bytes                       -- content octets of the messageID INTEGER
  id : Nat
  op : Tlv
  ctrls : Option (List WireControl)

def WireMsg.tlv (m : WireMsg) : Tlv := msgTlv m.idc m.op m.ctrls

/-- well-formed per RFC 4511: ID in 0..maxInt, protocolOp is an APPLICATION-class element, OIDs are
text; plus the parser's nesting limit -/
def WireMsg.WF (m : WireMsg) : Prop :=
  beVal m.idc = m.id ∧ m.id < 2147483648 ∧ m.op.cls = 1 ∧
  (∀ cs, m.ctrls = some cs → ∀ c ∈ cs, utf8Valid c.oid = true) ∧ m.tlv.depth ≤ maxDepth

/-- what the client must hand on: ID, the protocolOp element, the controls with their meaning -/
def WireMsg.frame (m : WireMsg) : Int × Tlv × List Control :=
  ((m.id : Int), m.op, ctrlsMeaning m.ctrls)

/-- given the encodings `e₁, e₂, …` of the messages and the first `k` bytes of their concatenation:
the messages whose last byte has arrived, and the bytes left over -/
def arrived : List (WireMsg × Bytes) → Nat → List (Int × Tlv × List Control) × Bytes
  | [], _ => ([], [])
  | (m, e) :: rest, k =>
    if e.length ≤ k then ((m.frame :: (arrived rest (k - e.length)).1), (arrived rest (k - e.length)).2)
    else ([], e.take k)

end Ldap3V.Spec

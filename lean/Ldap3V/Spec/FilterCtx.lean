/-
One-hole contexts of the RFC 4515 filter grammar (for C09: "a filter of unchanged structure").
A context is the boolean structure around one parenthesised filter: any nesting of `(&…)`, `(|…)`,
`(!…)`, with arbitrary sibling filters before and after the hole at every `&` / `|` level.  The
siblings are given with their strings (`(tree, text)` pairs of the grammar `G`).
Independent of the model; uses only Spec/Filter.lean.
-/
import Ldap3V.Spec.Filter
namespace Ldap3V.Spec.Filter
open Ldap3V.Spec (Filter)

/-- sibling filters: trees with their strings -/
abbrev Sibs := List (Filter × Bytes)

def Sibs.trees (l : Sibs) : List Filter := l.map (·.1)
def Sibs.text (l : Sibs) : Bytes := (l.map (·.2)).flatten
/-- every sibling's string denotes its tree -/
def Sibs.ok (d : Dialect) (l : Sibs) : Prop := ∀ p ∈ l, G d p.1 p.2

/-- boolean structure around one hole -/
inductive Ctx where
  | hole
  | and (pre : Sibs) (c : Ctx) (post : Sibs)
  | or (pre : Sibs) (c : Ctx) (post : Sibs)
  | not (c : Ctx)

/-- the string of the context with the text `s` of a parenthesised filter in the hole -/
def Ctx.fill : Ctx → Bytes → Bytes
  | .hole, s => s
  | .and pre c post, s => [0x28, 0x26] ++ pre.text ++ c.fill s ++ post.text ++ [0x29]
  | .or pre c post, s => [0x28, 0x7C] ++ pre.text ++ c.fill s ++ post.text ++ [0x29]
  | .not c, s => [0x28, 0x21] ++ c.fill s ++ [0x29]

/-- the tree of the context with the tree `f` in the hole -/
def Ctx.tree : Ctx → Filter → Filter
  | .hole, f => f
  | .and pre c post, f => .and (pre.trees ++ c.tree f :: post.trees)
  | .or pre c post, f => .or (pre.trees ++ c.tree f :: post.trees)
  | .not c, f => .not (c.tree f)

/-- all siblings at all levels are filters of the language -/
def Ctx.ok (d : Dialect) : Ctx → Prop
  | .hole => True
  | .and pre c post => pre.ok d ∧ c.ok d ∧ post.ok d
  | .or pre c post => pre.ok d ∧ c.ok d ∧ post.ok d
  | .not c => c.ok d

/-! ## items with one assertion value -/

/-- the item forms that carry exactly one assertion value: `a=v`, `a>=v`, `a<=v`, `a~=v`, `a:=v` -/
inductive ValItem where
  | eq (a : Bytes)
  | ge (a : Bytes)
  | le (a : Bytes)
  | approx (a : Bytes)
  | ext (a : Bytes)

def ValItem.attr : ValItem → Bytes
  | .eq a => a
  | .ge a => a
  | .le a => a
  | .approx a => a
  | .ext a => a

/-- the operator: `=` `>=` `<=` `~=` `:=` -/
def ValItem.op : ValItem → Bytes
  | .eq _ => [0x3D]
  | .ge _ => [0x3E, 0x3D]
  | .le _ => [0x3C, 0x3D]
  | .approx _ => [0x7E, 0x3D]
  | .ext _ => [0x3A, 0x3D]

/-- `"(" attr op s ")"`: the parenthesised item with the text `s` where the value goes -/
def ValItem.text (it : ValItem) (s : Bytes) : Bytes := [0x28] ++ it.attr ++ it.op ++ s ++ [0x29]

/-- the node the item denotes when its value is `v` -/
def ValItem.tree : ValItem → Bytes → Filter
  | .eq a, v => .eq a v
  | .ge a, v => .ge a v
  | .le a, v => .le a v
  | .approx a, v => .approx a v
  | .ext a, v => .ext none (some a) v false

end Ldap3V.Spec.Filter

/-
RFC 4514 §3 — string representation of distinguished names, as a reader written from the ABNF
(character classes from RFC 4512 §1.4).  Independent of the model of `dn_escape`.

    distinguishedName         = [ relativeDistinguishedName *( COMMA relativeDistinguishedName ) ]
    relativeDistinguishedName = attributeTypeAndValue *( PLUS attributeTypeAndValue )
    attributeTypeAndValue     = attributeType EQUALS attributeValue
    attributeType             = descr / numericoid
    attributeValue            = string / hexstring
    string     = [ ( leadchar / pair ) [ *( stringchar / pair ) ( trailchar / pair ) ] ]
    leadchar   = LUTF1 / UTFMB
    LUTF1      = %x01-1F / %x21 / %x24-2A / %x2D-3A / %x3D / %x3F-5B / %x5D-7F
    trailchar  = TUTF1 / UTFMB
    TUTF1      = %x01-1F / %x21 / %x23-2A / %x2D-3A / %x3D / %x3F-5B / %x5D-7F
    stringchar = SUTF1 / UTFMB
    SUTF1      = %x01-21 / %x23-2A / %x2D-3A / %x3D / %x3F-5B / %x5D-7F
    pair       = ESC ( ESC / special / hexpair )
    special    = escaped / SPACE / SHARP / EQUALS
    escaped    = DQUOTE / PLUS / COMMA / SEMI / LANGLE / RANGLE
    hexstring  = SHARP 1*hexpair
    hexpair    = HEX HEX
    descr      = leadkeychar *keychar          ; ALPHA *( ALPHA / DIGIT / HYPHEN )
    numericoid = number 1*( DOT number )       ; number = DIGIT / ( LDIGIT 1*DIGIT )
    UTFMB      = UTF2 / UTF3 / UTF4            ; RFC 4512, well-formed multi-byte UTF-8 only

Reading is by longest match: none of the bytes that may follow a value (`,` `+` or end of input)
can start a `stringchar` or a `pair`, so a value extends exactly as far as items can be read.
-/
import Ldap3V.Spec.FilterValue
namespace Ldap3V.Spec.Dn
open Ldap3V Ldap3V.Spec

def inR (b : UInt8) (lo hi : Nat) : Bool := lo ≤ b.toNat && b.toNat ≤ hi

def isSUTF1 (b : UInt8) : Bool :=
  inR b 0x01 0x21 || inR b 0x23 0x2A || inR b 0x2D 0x3A || b.toNat = 0x3D || inR b 0x3F 0x5B || inR b 0x5D 0x7F
def isLUTF1 (b : UInt8) : Bool :=
  inR b 0x01 0x1F || b.toNat = 0x21 || inR b 0x24 0x2A || inR b 0x2D 0x3A || b.toNat = 0x3D || inR b 0x3F 0x5B || inR b 0x5D 0x7F
def isTUTF1 (b : UInt8) : Bool :=
  inR b 0x01 0x1F || b.toNat = 0x21 || inR b 0x23 0x2A || inR b 0x2D 0x3A || b.toNat = 0x3D || inR b 0x3F 0x5B || inR b 0x5D 0x7F

/-- `special = escaped / SPACE / SHARP / EQUALS`, `escaped = DQUOTE / PLUS / COMMA / SEMI / LANGLE / RANGLE` -/
def isSpecial (b : UInt8) : Bool :=
  b.toNat = 0x22 || b.toNat = 0x2B || b.toNat = 0x2C || b.toNat = 0x3B || b.toNat = 0x3C || b.toNat = 0x3E ||
  b.toNat = 0x20 || b.toNat = 0x23 || b.toNat = 0x3D

def isUTF0 (b : UInt8) : Bool := inR b 0x80 0xBF

/-- `UTF3 = %xE0 %xA0-BF UTF0 / %xE1-EC 2(UTF0) / %xED %x80-9F UTF0 / %xEE-EF 2(UTF0)` -/
def isUTF3 (b0 b1 b2 : UInt8) : Bool :=
  (b0.toNat = 0xE0 && inR b1 0xA0 0xBF && isUTF0 b2) || (inR b0 0xE1 0xEC && isUTF0 b1 && isUTF0 b2) ||
  (b0.toNat = 0xED && inR b1 0x80 0x9F && isUTF0 b2) || (inR b0 0xEE 0xEF && isUTF0 b1 && isUTF0 b2)

/-- `UTF4 = %xF0 %x90-BF 2(UTF0) / %xF1-F3 3(UTF0) / %xF4 %x80-8F 2(UTF0)` -/
def isUTF4 (b0 b1 b2 b3 : UInt8) : Bool :=
  (b0.toNat = 0xF0 && inR b1 0x90 0xBF && isUTF0 b2 && isUTF0 b3) ||
  (inR b0 0xF1 0xF3 && isUTF0 b1 && isUTF0 b2 && isUTF0 b3) ||
  (b0.toNat = 0xF4 && inR b1 0x80 0x8F && isUTF0 b2 && isUTF0 b3)

/-- `UTFMB = UTF2 / UTF3 / UTF4`: one multi-byte character and the rest -/
def utfmb : Bytes → Option (Bytes × Bytes)
  | b0 :: b1 :: r =>
    if inR b0 0xC2 0xDF && isUTF0 b1 then some ([b0, b1], r)      -- UTF2 = %xC2-DF UTF0
    else
      match r with
      | b2 :: r2 =>
        if isUTF3 b0 b1 b2 then some ([b0, b1, b2], r2)
        else
          match r2 with
          | b3 :: r3 => if isUTF4 b0 b1 b2 b3 then some ([b0, b1, b2, b3], r3) else none
          | [] => none
      | [] => none
  | _ => none

/-- what follows `ESC` in a `pair`: the octet it denotes and the rest -/
def readPairTail : Bytes → Option (UInt8 × Bytes)
  | [] => none
  | c :: r =>
    if c.toNat = 0x5C || isSpecial c then some (c, r)
    else
      match r with
      | d :: r' =>
        match hexVal c, hexVal d with
        | some x, some y => some ((x * 16 + y).toUInt8, r')
        | _, _ => none
      | [] => none

/-- one `stringchar / pair`: the octets it denotes, and whether it may stand first / last -/
structure Item where
  val : Bytes
  lead : Bool
  trail : Bool
  deriving Repr, DecidableEq

def readItem : Bytes → Option (Item × Bytes)
  | [] => none
  | b :: r =>
    if b.toNat = 0x5C then
      match readPairTail r with
      | some (c, r') => some (⟨[c], true, true⟩, r')
      | none => none
    else if b.toNat < 0x80 then
      if isSUTF1 b then some (⟨[b], isLUTF1 b, isTUTF1 b⟩, r) else none
    else
      match utfmb (b :: r) with
      | some (ch, r') => some (⟨ch, true, true⟩, r')
      | none => none

/-- `*( stringchar / pair )` by longest match; returns the octets, whether the last item read (or
`lastOk` if there was none) may stand last, and the rest.  `fuel` ≥ number of items + 1. -/
def readMore : Nat → Bytes → Bool → Bytes × Bool × Bytes
  | 0, bs, lastOk => ([], lastOk, bs)
  | f + 1, bs, lastOk =>
    match readItem bs with
    | none => ([], lastOk, bs)
    | some (it, r) =>
      match readMore f r it.trail with
      | (v, ok, r') => (it.val ++ v, ok, r')

/-- `string`: the value it denotes and the rest; `none` if the first item is not a `leadchar / pair`
or the last not a `trailchar / pair` -/
def readString (bs : Bytes) : Option (Bytes × Bytes) :=
  match readItem bs with
  | none => some ([], bs)
  | some (it, r) =>
    if it.lead then
      match readMore (r.length + 1) r it.trail with
      | (v, ok, r') => if ok then some (it.val ++ v, r') else none
    else none

/-- `*hexpair` -/
def readHexPairs : Bytes → Bytes × Bytes
  | h :: l :: r =>
    match hexVal h, hexVal l with
    | some x, some y =>
      match readHexPairs r with
      | (v, r') => ((x * 16 + y).toUInt8 :: v, r')
    | _, _ => ([], h :: l :: r)
  | r => ([], r)

/-- an attribute value: the octets of the `string` form, or the BER octets of the `hexstring` form -/
inductive AttrVal where
  | str (v : Bytes)
  | ber (octets : Bytes)
  deriving Repr, DecidableEq

/-- `attributeValue = string / hexstring` -/
def readAttrValue (bs : Bytes) : Option (AttrVal × Bytes) :=
  match bs with
  | b :: r =>
    if b.toNat = 0x23 then
      match readHexPairs r with
      | ([], _) => none                       -- `1*hexpair`
      | (v, r') => some (.ber v, r')
    else
      match readString bs with
      | some (v, r') => some (.str v, r')
      | none => none
  | [] => some (.str [], [])

/-- the value of an `attributeValue` given in `string` form (`none` for the `hexstring` form) -/
def readValue (bs : Bytes) : Option (Bytes × Bytes) :=
  match readAttrValue bs with
  | some (.str v, r) => some (v, r)
  | _ => none

/-! ### attribute types -/

def isAlpha (c : UInt8) : Bool := inR c 0x41 0x5A || inR c 0x61 0x7A
def isDigit (c : UInt8) : Bool := inR c 0x30 0x39
def isKeychar (c : UInt8) : Bool := isAlpha c || isDigit c || c.toNat = 0x2D

/-- `descr = keystring = leadkeychar *keychar` -/
def isDescr : Bytes → Bool
  | c :: r => isAlpha c && r.all isKeychar
  | [] => false

/-- `number = DIGIT / ( LDIGIT 1*DIGIT )` -/
def isNumber : Bytes → Bool
  | [] => false
  | [d] => isDigit d
  | d :: r => inR d 0x31 0x39 && r.all isDigit

/-- the pieces between DOTs -/
def splitDots : Bytes → List Bytes
  | [] => [[]]
  | c :: r =>
    if c.toNat = 0x2E then [] :: splitDots r
    else
      match splitDots r with
      | p :: ps => (c :: p) :: ps
      | [] => [[c]]

/-- `numericoid = number 1*( DOT number )` -/
def isNumericoid (a : Bytes) : Bool :=
  let ps := splitDots a
  2 ≤ ps.length && ps.all isNumber

def isAttrType (a : Bytes) : Bool := isDescr a || isNumericoid a

def isTypeChar (c : UInt8) : Bool := isKeychar c || c.toNat = 0x2E

/-- `attributeType`: the longest run of type characters, which must be a `descr` or a `numericoid` -/
def readType (bs : Bytes) : Option (Bytes × Bytes) :=
  let t := bs.takeWhile isTypeChar
  if isAttrType t then some (t, bs.dropWhile isTypeChar) else none

/-! ### DN structure -/

abbrev Ava := Bytes × AttrVal

/-- `attributeTypeAndValue = attributeType EQUALS attributeValue` -/
def readAva (bs : Bytes) : Option (Ava × Bytes) :=
  match readType bs with
  | none => none
  | some (t, r) =>
    match r with
    | c :: r' =>
      if c.toNat = 0x3D then
        match readAttrValue r' with
        | some (v, r'') => some ((t, v), r'')
        | none => none
      else none
    | [] => none

/-- `relativeDistinguishedName = attributeTypeAndValue *( PLUS attributeTypeAndValue )`; `fuel` ≥ number of AVAs -/
def readRdn : Nat → Bytes → Option (List Ava × Bytes)
  | 0, _ => none
  | f + 1, bs =>
    match readAva bs with
    | none => none
    | some (a, r) =>
      match r with
      | c :: r' =>
        if c.toNat = 0x2B then
          match readRdn f r' with
          | some (more, r'') => some (a :: more, r'')
          | none => none
        else some ([a], r)
      | [] => some ([a], [])

/-- `relativeDistinguishedName *( COMMA relativeDistinguishedName )` up to the end of input -/
def readRdns : Nat → Bytes → Option (List (List Ava))
  | 0, _ => none
  | f + 1, bs =>
    match readRdn (bs.length + 1) bs with
    | none => none
    | some (rdn, r) =>
      match r with
      | [] => some [rdn]
      | c :: r' =>
        if c.toNat = 0x2C then
          match readRdns f r' with
          | some more => some (rdn :: more)
          | none => none
        else none

/-- `distinguishedName`: list of RDNs, each a list of (type, value) -/
def parse (bs : Bytes) : Option (List (List Ava)) :=
  match bs with
  | [] => some []
  | _ => readRdns (bs.length + 1) bs

/-! ### rendering (values are given already in their string form) -/

def renderAva (a : Bytes × Bytes) : Bytes := a.1 ++ 0x3D :: a.2

def renderRdn : List (Bytes × Bytes) → Bytes
  | [] => []
  | [a] => renderAva a
  | a :: as => renderAva a ++ 0x2B :: renderRdn as

def render : List (List (Bytes × Bytes)) → Bytes
  | [] => []
  | [r] => renderRdn r
  | r :: rs => renderRdn r ++ 0x2C :: render rs

end Ldap3V.Spec.Dn

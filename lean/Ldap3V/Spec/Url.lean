/-
RFC 4516 §2 LDAP URL formatting, written from the RFC and independent of how `get_url_params`
reads it back:

    ldapurl = scheme COLON SLASH SLASH [host [COLON port]]
                 [SLASH dn [QUESTION [attributes] [QUESTION [scope] [QUESTION [filter] [QUESTION extensions]]]]]
    attributes = attrdesc *(COMMA attrdesc)         scope = "base" / "one" / "sub"
    extensions = extension *(COMMA extension)       extension = [EXCLAMATION] extype [EQUALS exvalue]

Only the part after the authority is formatted here (`path`, `query`): what `Url::path()` and
`Url::query()` return under the environment assumption that the `url` crate hands the text
through unchanged.
-/
import Ldap3V.Model.Url
namespace Ldap3V.Url.Spec
open Ldap3V Ldap3V.Url

/-! ## percent-encoding (RFC 3986 §2.1, RFC 4516 §2.1) -/

def isAlpha (b : UInt8) : Bool := (0x41 ≤ b.toNat && b.toNat ≤ 0x5A) || (0x61 ≤ b.toNat && b.toNat ≤ 0x7A)
def isDigit (b : UInt8) : Bool := 0x30 ≤ b.toNat && b.toNat ≤ 0x39

/-- RFC 3986 `unreserved = ALPHA / DIGIT / "-" / "." / "_" / "~"` -/
def unreserved (b : UInt8) : Bool :=
  isAlpha b || isDigit b || b == 0x2D || b == 0x2E || b == 0x5F || b == 0x7E

/-- hex digit of a nibble, upper or lower case (`HEXDIG` is case-insensitive) -/
def hexDigit (upper : Bool) (n : Nat) : UInt8 :=
  if n < 10 then (0x30 + n).toUInt8 else if upper then (0x37 + n).toUInt8 else (0x57 + n).toUInt8

/-- `raw` = the bytes the producer leaves as they are; every other byte becomes `%HH` -/
def pctEncode (raw : UInt8 → Bool) (upper : Bool) (bs : Bytes) : Bytes :=
  bs.flatMap fun b =>
    if raw b then [b] else [0x25, hexDigit upper (b.toNat / 16), hexDigit upper (b.toNat % 16)]

/-- A producer's freedom in percent-encoding: which bytes stay raw in the dn, in the filter and
in extension values, and the case of the hex digits.  RFC 4516 §2.1 obliges a producer to encode
everything outside `reserved`/`unreserved`, every `?`, and `,` inside extension values; it may
encode more. -/
structure Style where
  dnRaw : UInt8 → Bool
  filterRaw : UInt8 → Bool
  valRaw : UInt8 → Bool
  upper : Bool

/-- What the round-trip proof needs of a style (all of it demanded by RFC 3986/4516 as well):
`%` itself is always encoded; `?` is encoded in the filter (it would end the filter field);
`,` is encoded in extension values (it would end the extension). -/
def Style.Legal (s : Style) : Prop :=
  (∀ b, s.dnRaw b = true → b ≠ 0x25) ∧
  (∀ b, s.filterRaw b = true → b ≠ 0x25 ∧ b ≠ 0x3F) ∧
  (∀ b, s.valRaw b = true → b ≠ 0x25 ∧ b ≠ 0x2C)

/-- the formatter of the property text: encode every byte outside `ALPHA DIGIT - . _ ~` -/
def Style.strict : Style := ⟨unreserved, unreserved, unreserved, true⟩

/-- RFC 3986 `sub-delims` plus `:` `@` `/` (what `pchar`/`query` allow besides unreserved),
without `?` -/
def rfcRaw (b : UInt8) : Bool :=
  unreserved b || ([0x21, 0x24, 0x26, 0x27, 0x28, 0x29, 0x2A, 0x2B, 0x2C, 0x3B, 0x3D, 0x3A, 0x40, 0x2F] : List UInt8).contains b  -- "!$&'()*+,;=:@/"

/-- the least encoding RFC 4516 permits (its own examples, e.g. `o=University%20of%20Michigan,c=US`) -/
def Style.minimal (upper : Bool) : Style := ⟨rfcRaw, rfcRaw, fun b => rfcRaw b && b != 0x2C, upper⟩

/-! ## components -/

/-- one extension: type as written (an OID or a name, any letter case), criticality, value -/
structure ExtC where
  name : Bytes
  critical : Bool
  value : Option Bytes
  deriving Repr, DecidableEq

structure UrlComps where
  base : Bytes
  /-- `[]` = attribute list omitted -/
  attrs : List Bytes
  scope : Option Scope
  filter : Option Bytes
  exts : List ExtC
  deriving Repr, DecidableEq

def UrlComps.setExts (c : UrlComps) (l : List ExtC) : UrlComps := ⟨c.base, c.attrs, c.scope, c.filter, l⟩

/-- `a , b , c` -/
def join (sep : UInt8) : List Bytes → Bytes
  | [] => []
  | [a] => a
  | a :: b :: r => a ++ sep :: join sep (b :: r)

def scopeWord : Option Scope → Bytes
  | none => []
  | some .base => [0x62, 0x61, 0x73, 0x65] /- "base" -/
  | some .oneLevel => [0x6F, 0x6E, 0x65] /- "one" -/
  | some .subtree => [0x73, 0x75, 0x62] /- "sub" -/

/-- `[EXCLAMATION] extype [EQUALS exvalue]` with the value text given -/
def fmtExtRaw (critical : Bool) (name : Bytes) (valTxt : Option Bytes) : Bytes :=
  (if critical then [0x21] else []) ++ name ++
    (match valTxt with | none => [] | some v => 0x3D :: v)

def fmtExt (s : Style) (e : ExtC) : Bytes :=
  fmtExtRaw e.critical e.name (e.value.map (pctEncode s.valRaw s.upper))

/-- the text of the dn and of the four query fields, before joining -/
structure RawUrl where
  dn : Bytes
  attrs : Bytes
  scope : Bytes
  filter : Bytes
  exts : List Bytes
  deriving Repr, DecidableEq

def encodeComps (s : Style) (c : UrlComps) : RawUrl where
  dn := pctEncode s.dnRaw s.upper c.base
  attrs := join 0x2C c.attrs
  scope := scopeWord c.scope
  filter := match c.filter with | none => [] | some f => pctEncode s.filterRaw s.upper f
  exts := c.exts.map (fmtExt s)

/-- the same URL text with another scope / filter field / extension list (for the error theorems) -/
def RawUrl.setScope (r : RawUrl) (w : Bytes) : RawUrl := ⟨r.dn, r.attrs, w, r.filter, r.exts⟩
def RawUrl.setFilter (r : RawUrl) (t : Bytes) : RawUrl := ⟨r.dn, r.attrs, r.scope, t, r.exts⟩
def RawUrl.setExts (r : RawUrl) (l : List Bytes) : RawUrl := ⟨r.dn, r.attrs, r.scope, r.filter, l⟩

def RawUrl.fields (r : RawUrl) : List Bytes := [r.attrs, r.scope, r.filter, join 0x2C r.exts]

/-- How much of the optional syntax the producer writes: the `/` (only omissible when nothing
follows it) and the number `keep` of query fields (`0` = no `?` at all, `k` = the first `k`
fields separated by `k-1` question marks; a `?` with nothing after it is `keep = 1`). -/
structure Omit where
  slash : Bool
  keep : Nat
  deriving Repr, DecidableEq

/-- the least number of fields that must be written: up to the last non-empty one -/
def RawUrl.minFields (r : RawUrl) : Nat :=
  if join 0x2C r.exts ≠ [] then 4 else if r.filter ≠ [] then 3 else if r.scope ≠ [] then 2
  else if r.attrs ≠ [] then 1 else 0

/-- trailing empty fields and their `?` may be omitted; nothing else may -/
def Omit.Legal (o : Omit) (r : RawUrl) : Prop :=
  r.minFields ≤ o.keep ∧ (o.slash = false → r.dn = [] ∧ o.keep = 0)

instance (o : Omit) (r : RawUrl) : Decidable (o.Legal r) := by unfold Omit.Legal; infer_instance

structure Formatted where
  path : Bytes
  query : Option Bytes
  deriving Repr, DecidableEq

def RawUrl.format (r : RawUrl) (o : Omit) : Formatted where
  path := (if o.slash then [0x2F] else []) ++ r.dn
  query := if o.keep = 0 then none else some (join 0x3F (r.fields.take o.keep))

def format (s : Style) (c : UrlComps) (o : Omit) : Formatted := (encodeComps s c).format o

/-! ## what the reader must return -/

/-- extension types the property text calls recognised; names are case-insensitive (RFC 4512
`descr`), OIDs are compared as written -/
def kindOf (name : Bytes) : Option ExtKind :=
  if name = [0x31, 0x2E, 0x33, 0x2E, 0x36, 0x2E, 0x31, 0x2E, 0x34, 0x2E, 0x31, 0x2E, 0x31, 0x30, 0x30, 0x39, 0x34, 0x2E, 0x31, 0x2E, 0x35, 0x2E, 0x31] /- "1.3.6.1.4.1.10094.1.5.1" -/ then some .credentials
  else if name = [0x31, 0x2E, 0x33, 0x2E, 0x36, 0x2E, 0x31, 0x2E, 0x34, 0x2E, 0x31, 0x2E, 0x31, 0x30, 0x30, 0x39, 0x34, 0x2E, 0x31, 0x2E, 0x35, 0x2E, 0x32] /- "1.3.6.1.4.1.10094.1.5.2" -/ then some .saslMech
  else if name = [0x31, 0x2E, 0x33, 0x2E, 0x36, 0x2E, 0x31, 0x2E, 0x34, 0x2E, 0x31, 0x2E, 0x31, 0x34, 0x36, 0x36, 0x2E, 0x32, 0x30, 0x30, 0x33, 0x37] /- "1.3.6.1.4.1.1466.20037" -/ then some .startTls
  else if name.map toAsciiLower = [0x62, 0x69, 0x6E, 0x64, 0x6E, 0x61, 0x6D, 0x65] /- "bindname" -/ then some .bindname
  else if name.map toAsciiLower = [0x78, 0x2D, 0x62, 0x69, 0x6E, 0x64, 0x70, 0x77] /- "x-bindpw" -/ then some .xbindpw
  else none

/-- a recognised extension as it appears in the result: an absent value reads as the empty
string; `LdapUrlExt::StartTLS` has no field, so a value written for StartTLS is not part of the
result (lane probe `ext.starttls-value-dropped`); unknown extensions are not in the result -/
def toExt (e : ExtC) : Option Ext :=
  match kindOf e.name with
  | none => none
  | some .startTls => some ⟨.startTls, []⟩
  | some k => some ⟨k, e.value.getD []⟩

/-- drop every element whose kind was seen before (`seen` = kinds already taken) -/
def firstOfKindAux (seen : List ExtKind) : List Ext → List Ext
  | [] => []
  | e :: es =>
    if seen.contains e.kind then firstOfKindAux seen es
    else e :: firstOfKindAux (e.kind :: seen) es

/-- the first extension of each kind, in order of appearance -/
def firstOfKind (l : List Ext) : List Ext := firstOfKindAux [] l

/-- the documented defaults: all attributes, subtree scope, `(objectClass=*)` -/
def withDefaults (c : UrlComps) : Params where
  base := c.base
  attrs := if c.attrs = [] then [[0x2A] /- "*" -/] else c.attrs
  scope := c.scope.getD .subtree
  filter := c.filter.getD [0x28, 0x6F, 0x62, 0x6A, 0x65, 0x63, 0x74, 0x43, 0x6C, 0x61, 0x73, 0x73, 0x3D, 0x2A, 0x29] /- "(objectClass=*)" -/
  exts := c.exts.filterMap toExt

def _root_.Ldap3V.Url.Params.setExts (p : Params) (l : List Ext) : Params := ⟨p.base, p.attrs, p.scope, p.filter, l⟩

/-! ## well-formed components -/

/-- RFC 4512 `attributedescription` alphabet (`ALPHA DIGIT - . ;`) plus the RFC 4511 selectors
`*` and `+`: none of these needs percent-encoding, and the reader does not decode attribute
names -/
def attrChar (b : UInt8) : Bool :=
  isAlpha b || isDigit b || b == 0x2D || b == 0x2E || b == 0x3B || b == 0x2A || b == 0x2B

/-- RFC 4512 `oid = descr / numericoid` alphabet (`ALPHA DIGIT - .`) -/
def oidChar (b : UInt8) : Bool := isAlpha b || isDigit b || b == 0x2D || b == 0x2E

/-- Hypotheses of the round trip that do not depend on criticality.  Each is forced by the code:
* `base`, `filter`, extension values are valid UTF-8 (they are Rust `str`s; the reader returns
  `DecodingUTF8` otherwise — `C20_err_utf8_*`);
* attribute descriptions are non-empty and over `attrChar`: the reader does not percent-decode
  them, and splits at `,` (lane probes `attr.pct-not-decoded`, `attr.empty-list-entry`);
* a present filter is non-empty (an empty third field reads as the default filter; lane probe
  `filter.empty`);
* extension types are over `oidChar`: they are not percent-decoded, `=` `,` end them and a
  leading `!` is taken as the criticality mark (lane probes `ext.name-pct-not-decoded`,
  `ext.pct-bang-not-critical`). -/
def WFCore (c : UrlComps) : Prop :=
  utf8Valid c.base = true ∧
  (∀ a ∈ c.attrs, a ≠ [] ∧ ∀ b ∈ a, attrChar b = true) ∧
  (∀ f ∈ c.filter, f ≠ [] ∧ utf8Valid f = true) ∧
  (∀ e ∈ c.exts, (∀ b ∈ e.name, oidChar b = true) ∧ (∀ v ∈ e.value, utf8Valid v = true))

instance (c : UrlComps) : Decidable (WFCore c) := by unfold WFCore; infer_instance

/-- `WFCore`, and every unknown extension is non-critical (else: `C20_err_unknown_critical`).
Duplicated kinds are allowed here; `C20_roundtrip` adds `OnePerKind`. -/
def WFC (c : UrlComps) : Prop :=
  WFCore c ∧ ∀ e ∈ c.exts, kindOf e.name = none → e.critical = false

instance (c : UrlComps) : Decidable (WFC c) := by unfold WFC; infer_instance

/-- at most one extension per recognised kind (else the first wins:
`C20_first_extension_of_a_kind_wins`) -/
def OnePerKind (c : UrlComps) : Prop := ((c.exts.filterMap toExt).map (·.kind)).Nodup

instance (c : UrlComps) : Decidable (OnePerKind c) := by unfold OnePerKind; infer_instance

end Ldap3V.Url.Spec

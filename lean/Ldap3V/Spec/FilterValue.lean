/-
RFC 4515 §3, the string form of an assertion value, written from the ABNF and independent of the
model:

    assertionvalue = valueencoding
    valueencoding  = 0*(normal / escaped)
    normal         = UTF1SUBSET / UTFMB
    escaped        = ESC HEX HEX
    UTF1SUBSET     = %x01-27 / %x2B-5B / %x5D-7F      ; UTF1 without NUL, "(", ")", "*", ESC
    HEX            = DIGIT / %x41-46 / %x61-66

At the level of the value's octets: an octet stands for itself unless it is NUL ( ) * \ ,
and any octet may be written `\hh` with hex digits of either case.  (The reader does not check
that unescaped octets ≥ 0x80 form well-formed UTFMB; the value is an octet string.)

This file stands in for the filter parser's value reading until the C08 slice provides the full
RFC 4515 grammar.
-/
import Ldap3V.Model.Ber
namespace Ldap3V.Spec

/-- octets outside `UTF1SUBSET`/`UTFMB`: they must be escaped -/
def fvSpecial (b : UInt8) : Bool :=
  b.toNat = 0x00 || b.toNat = 0x28 || b.toNat = 0x29 || b.toNat = 0x2A || b.toNat = 0x5C

/-- `HEX`: value of a hexadecimal digit of either case -/
def hexVal (c : UInt8) : Option Nat :=
  if 0x30 ≤ c.toNat ∧ c.toNat ≤ 0x39 then some (c.toNat - 0x30)
  else if 0x41 ≤ c.toNat ∧ c.toNat ≤ 0x46 then some (c.toNat - 0x41 + 10)
  else if 0x61 ≤ c.toNat ∧ c.toNat ≤ 0x66 then some (c.toNat - 0x61 + 10)
  else none

/-- `RVal v r`: `r` is an RFC 4515 rendering of the value octets `v`. -/
inductive RVal : Bytes → Bytes → Prop
  | nil : RVal [] []
  | lit (b : UInt8) (v r : Bytes) : fvSpecial b = false → RVal v r → RVal (b :: v) (b :: r)
  | esc (b h l : UInt8) (v r : Bytes) : hexVal h = some (b.toNat / 16) → hexVal l = some (b.toNat % 16) →
      RVal v r → RVal (b :: v) (0x5C :: h :: l :: r)

/-- independent reader: undoes a `valueencoding`; `none` if the text is not one -/
def readFilterValue : Bytes → Option Bytes
  | [] => some []
  | b :: r =>
    if b.toNat = 0x5C then
      match r with
      | h :: l :: r' =>
        match hexVal h, hexVal l, readFilterValue r' with
        | some x, some y, some v => some ((x * 16 + y).toUInt8 :: v)
        | _, _, _ => none
      | _ => none
    else if fvSpecial b then none
    else
      match readFilterValue r with
      | some v => some (b :: v)
      | none => none

end Ldap3V.Spec

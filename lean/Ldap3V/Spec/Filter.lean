/-
What a filter string denotes, written from the RFCs and independent of how filter.rs does it:
* the syntax tree `Filter` of RFC 4515 §3 and its BER form `toTlv` (RFC 4511 §4.5.1, IMPLICIT TAGS,
  §5.1 restrictions: BOOLEAN TRUE = FF, DEFAULT FALSE absent);
* the string grammar `G` (RFC 4515 §3, attribute descriptions per RFC 4512 §1.4 / §2.5, the empty
  `(&)` `(|)` of RFC 4526), parametrised by a `Dialect` that names the places where the library is
  documented / observed to differ from the RFCs;
* `ofTlv`, the decoder from BER back to `Filter`, the canonical printer `print` and the escaping
  normaliser `normEsc` for the "means what it says" oracle.
-/
import Ldap3V.Model.Utf8
namespace Ldap3V.Spec

/-- RFC 4515 §3 `filter` as a tree.  `substr`: `[initial] any [final]`; `ext`: matching rule, type,
value, dnAttributes. -/
inductive Filter where
  | and (fs : List Filter)
  | or (fs : List Filter)
  | not (f : Filter)
  | eq (a v : Bytes)
  | ge (a v : Bytes)
  | le (a v : Bytes)
  | approx (a v : Bytes)
  | present (a : Bytes)
  | substr (a : Bytes) (ini : Option Bytes) (any : List Bytes) (fin : Option Bytes)
  | ext (rule attr : Option Bytes) (v : Bytes) (dn : Bool)
  deriving Inhabited

namespace Filter

/-! ## RFC 4511 §4.5.1: `Filter ::= CHOICE { and [0] SET OF Filter, or [1] SET OF Filter, not [2] Filter,
equalityMatch [3] AVA, substrings [4] SubstringFilter, greaterOrEqual [5] AVA, lessOrEqual [6] AVA,
present [7] AttributeDescription, approxMatch [8] AVA, extensibleMatch [9] MatchingRuleAssertion }` -/

/-- an OPTIONAL context-tagged primitive component -/
def optPrim (id : Nat) : Option Bytes → List Tlv
  | some v => [.prim 2 id v]
  | none => []

/-- `AttributeValueAssertion ::= SEQUENCE { attributeDesc OCTET STRING, assertionValue OCTET STRING }` -/
def avaKids (a v : Bytes) : List Tlv := [.prim 0 4 a, .prim 0 4 v]

mutual
def toTlv : Filter → Tlv
  | .and fs => .cons 2 0 (toTlvList fs)
  | .or fs => .cons 2 1 (toTlvList fs)
  | .not f => .cons 2 2 [toTlv f]           -- CHOICE inside a tagged type: the tag is explicit
  | .eq a v => .cons 2 3 (avaKids a v)
  | .substr a ini any fin =>                -- SEQUENCE { type, SEQUENCE OF CHOICE { initial [0], any [1], final [2] } }
      .cons 2 4 [.prim 0 4 a, .cons 0 16 (optPrim 0 ini ++ any.map (Tlv.prim 2 1) ++ optPrim 2 fin)]
  | .ge a v => .cons 2 5 (avaKids a v)
  | .le a v => .cons 2 6 (avaKids a v)
  | .present a => .prim 2 7 a
  | .approx a v => .cons 2 8 (avaKids a v)
  | .ext rule attr v dn =>                  -- SEQUENCE { matchingRule [1] OPT, type [2] OPT, matchValue [3], dnAttributes [4] DEFAULT FALSE }
      .cons 2 9 (optPrim 1 rule ++ optPrim 2 attr ++ [.prim 2 3 v] ++ (if dn then [.prim 2 4 [0xFF]] else []))
def toTlvList : List Filter → List Tlv
  | [] => []
  | f :: fs => toTlv f :: toTlvList fs
end

/-! ## decoder (strict: exactly the forms above) -/

def ofAva : List Tlv → Option (Bytes × Bytes)
  | [.prim c1 i1 a, .prim c2 i2 v] => if c1 = 0 ∧ i1 = 4 ∧ c2 = 0 ∧ i2 = 4 then some (a, v) else none
  | _ => none

/-- `any*` then an optional `final` as the last element -/
def ofSubAny : List Tlv → Option (List Bytes × Option Bytes)
  | [] => some ([], none)
  | .prim c i v :: r =>
    if c = 2 ∧ i = 1 then
      match ofSubAny r with
      | some (a, f) => some (v :: a, f)
      | none => none
    else if c = 2 ∧ i = 2 ∧ r.isEmpty then some ([], some v)
    else none
  | .cons .. :: _ => none

/-- an optional `initial` as the first element, then `ofSubAny` -/
def ofSubs : List Tlv → Option (Option Bytes × List Bytes × Option Bytes)
  | .prim c i v :: r =>
    if c = 2 ∧ i = 0 then
      match ofSubAny r with
      | some (a, f) => some (some v, a, f)
      | none => none
    else
      match ofSubAny (.prim c i v :: r) with
      | some (a, f) => some (none, a, f)
      | none => none
  | ks =>
    match ofSubAny ks with
    | some (a, f) => some (none, a, f)
    | none => none

/-- peel an OPTIONAL `[id]` primitive off the front -/
def takeOpt (id : Nat) : List Tlv → Option Bytes × List Tlv
  | .prim c i v :: r => if c = 2 ∧ i = id then (some v, r) else (none, .prim c i v :: r)
  | ks => (none, ks)

def ofExtTail : List Tlv → Option (Bytes × Bool)
  | [.prim c i v] => if c = 2 ∧ i = 3 then some (v, false) else none
  | [.prim c i v, .prim c' i' b] =>
    if c = 2 ∧ i = 3 ∧ c' = 2 ∧ i' = 4 ∧ b = [0xFF] then some (v, true) else none
  | _ => none

def ofExt (ks : List Tlv) : Option Filter :=
  let r1 := takeOpt 1 ks
  let r2 := takeOpt 2 r1.2
  match ofExtTail r2.2 with
  | some (v, dn) => some (.ext r1.1 r2.1 v dn)
  | none => none

mutual
def ofTlv : Tlv → Option Filter
  | .prim c i v => if c = 2 ∧ i = 7 then some (.present v) else none
  | .cons c i ks =>
    if c ≠ 2 then none
    else if i = 0 then (match ofTlvList ks with | some fs => some (.and fs) | none => none)
    else if i = 1 then (match ofTlvList ks with | some fs => some (.or fs) | none => none)
    else if i = 2 then (match ofTlvList ks with | some [f] => some (.not f) | _ => none)
    else if i = 3 then (match ofAva ks with | some (a, v) => some (.eq a v) | none => none)
    else if i = 4 then
      (match ks with
       | [.prim c1 i1 a, .cons c2 i2 ss] =>
         if c1 = 0 ∧ i1 = 4 ∧ c2 = 0 ∧ i2 = 16 then
           match ofSubs ss with
           | some (ini, any, fin) => some (.substr a ini any fin)
           | none => none
         else none
       | _ => none)
    else if i = 5 then (match ofAva ks with | some (a, v) => some (.ge a v) | none => none)
    else if i = 6 then (match ofAva ks with | some (a, v) => some (.le a v) | none => none)
    else if i = 8 then (match ofAva ks with | some (a, v) => some (.approx a v) | none => none)
    else if i = 9 then ofExt ks
    else none
def ofTlvList : List Tlv → Option (List Filter)
  | [] => some []
  | k :: ks =>
    match ofTlv k, ofTlvList ks with
    | some f, some fs => some (f :: fs)
    | _, _ => none
end

/-! ## lexical classes (RFC 4512 §1.4) and values (RFC 4515 §3) -/

def ALPHA (c : UInt8) : Bool := (0x41 ≤ c.toNat && c.toNat ≤ 0x5A) || (0x61 ≤ c.toNat && c.toNat ≤ 0x7A)
def DIGIT (c : UInt8) : Bool := 0x30 ≤ c.toNat && c.toNat ≤ 0x39
def LDIGIT (c : UInt8) : Bool := 0x31 ≤ c.toNat && c.toNat ≤ 0x39
/-- `keychar = ALPHA / DIGIT / HYPHEN` -/
def keychar (c : UInt8) : Bool := ALPHA c || DIGIT c || c == 0x2D

/-- `HEX`, with its value -/
def hexVal (c : UInt8) : Option Nat :=
  if 0x30 ≤ c.toNat ∧ c.toNat ≤ 0x39 then some (c.toNat - 0x30)
  else if 0x41 ≤ c.toNat ∧ c.toNat ≤ 0x46 then some (c.toNat - 0x41 + 10)
  else if 0x61 ≤ c.toNat ∧ c.toNat ≤ 0x66 then some (c.toNat - 0x61 + 10)
  else none

/-- the octets that may never stand for themselves in an assertion value: NUL `(` `)` `*` `\` -/
def isSpecial (b : UInt8) : Bool := b == 0 || b == 0x28 || b == 0x29 || b == 0x2A || b == 0x5C

/-- `RVal v s`: the string `s` is a `valueencoding` of the octets `v`: every octet either literally
(`normal`: anything but the five special octets) or as `\` HEX HEX in either case. -/
inductive RVal : Bytes → Bytes → Prop where
  | nil : RVal [] []
  | lit {b : UInt8} {v s : Bytes} : isSpecial b = false → RVal v s → RVal (b :: v) (b :: s)
  | esc {h1 h2 : UInt8} {x y : Nat} {v s : Bytes} : hexVal h1 = some x → hexVal h2 = some y → RVal v s →
      RVal ((16 * x + y).toUInt8 :: v) (0x5C :: h1 :: h2 :: s)

/-- `number = DIGIT / ( LDIGIT 1*DIGIT )` -/
def isNumber : Bytes → Bool
  | [] => false
  | [c] => DIGIT c
  | c :: r => LDIGIT c && r.all DIGIT

/-- `descr = keystring = leadkeychar *keychar` -/
def isDescr : Bytes → Bool
  | [] => false
  | c :: r => ALPHA c && r.all keychar

/-- Where the library's language is allowed to differ from the RFCs. -/
structure Dialect where
  /-- a single `number` is accepted as `numericoid` (RFC 4512 wants `number 1*( DOT number )`) -/
  bareNumber : Bool
  /-- the literal `"dn"` of `dnattrs` is matched case-insensitively (RFC 5234 §2.3) -/
  dnAnyCase : Bool

/-- RFC 4515 / 4512 as written -/
def Dialect.rfc : Dialect := ⟨false, true⟩
/-- the language of `ldap3::parse_filter` -/
def Dialect.lib : Dialect := ⟨true, true⟩
/-- the library's language with the keyword spelled `dn` only: where the canonical strings live -/
def Dialect.libLowerDn : Dialect := ⟨true, false⟩

/-- `numericoid = number 1*( DOT number )` (`*` in the `bareNumber` dialect) -/
def IsNumericOid (d : Dialect) (s : Bytes) : Prop :=
  ∃ (n0 : Bytes) (ns : List Bytes), isNumber n0 = true ∧ (∀ n ∈ ns, isNumber n = true) ∧
    (d.bareNumber = true ∨ ns ≠ []) ∧ s = n0 ++ (ns.map (fun n => 0x2E :: n)).flatten

/-- `oid = descr / numericoid` -/
def IsOid (d : Dialect) (s : Bytes) : Prop := isDescr s = true ∨ IsNumericOid d s

/-- `option = 1*keychar` -/
def isOption (o : Bytes) : Bool := !o.isEmpty && o.all keychar

/-- `attributedescription = attributetype options`, `options = *( SEMI option )` -/
def IsAttrDesc (d : Dialect) (s : Bytes) : Prop :=
  ∃ (t : Bytes) (opts : List Bytes), IsOid d t ∧ (∀ o ∈ opts, isOption o = true) ∧
    s = t ++ (opts.map (fun o => 0x3B :: o)).flatten

/-- spellings of the `dnattrs` keyword -/
def isDnKw (d : Dialect) (k : Bytes) : Bool :=
  k == [0x64, 0x6E] ||
  (d.dnAnyCase && (k == [0x44, 0x4E] || k == [0x44, 0x6E] || k == [0x64, 0x4E]))

/-- an optional, non-empty substring piece (`initial` / `final`) -/
inductive ROpt : Option Bytes → Bytes → Prop where
  | none : ROpt none []
  | some {v s : Bytes} : v ≠ [] → RVal v s → ROpt (some v) s

/-- the part of `any = ASTERISK *(assertionvalue ASTERISK)` after the first asterisk; the values
are non-empty (adjacent asterisks are not a substring filter) -/
inductive RAny : List Bytes → Bytes → Prop where
  | nil : RAny [] []
  | cons {v s : Bytes} {vs : List Bytes} {ss : Bytes} : v ≠ [] → RVal v s → RAny vs ss →
      RAny (v :: vs) (s ++ 0x2A :: ss)

def optStr (pre : Bytes) : Option Bytes → Bytes
  | some r => pre ++ r
  | none => []

/-- RFC 4515 `item = simple / present / substring / extensible`, without the parentheses.
In `extAttr` the RFC grammar is ambiguous for `attr:dn:=v` (`dnattrs` or a matching rule called
`dn`); as everywhere, it is read as `dnattrs`, so a rule spelled like the keyword needs `dn`. -/
inductive GItem (d : Dialect) : Filter → Bytes → Prop where
  | eq {a v sv : Bytes} : IsAttrDesc d a → RVal v sv → GItem d (.eq a v) (a ++ 0x3D :: sv)
  | ge {a v sv : Bytes} : IsAttrDesc d a → RVal v sv → GItem d (.ge a v) (a ++ 0x3E :: 0x3D :: sv)
  | le {a v sv : Bytes} : IsAttrDesc d a → RVal v sv → GItem d (.le a v) (a ++ 0x3C :: 0x3D :: sv)
  | approx {a v sv : Bytes} : IsAttrDesc d a → RVal v sv → GItem d (.approx a v) (a ++ 0x7E :: 0x3D :: sv)
  | present {a : Bytes} : IsAttrDesc d a → GItem d (.present a) (a ++ [0x3D, 0x2A])
  | substr {a : Bytes} {ini fin : Option Bytes} {any : List Bytes} {si sa sf : Bytes} :
      IsAttrDesc d a → ROpt ini si → RAny any sa → ROpt fin sf →
      (ini.isSome = true ∨ any ≠ [] ∨ fin.isSome = true) →
      GItem d (.substr a ini any fin) (a ++ 0x3D :: (si ++ 0x2A :: (sa ++ sf)))
  | extAttr {a v sv kw : Bytes} {rule : Option Bytes} {dn : Bool} :
      IsAttrDesc d a → (dn = true → isDnKw d kw = true) → (∀ r, rule = some r → IsOid d r) →
      (dn = false → ∀ r, rule = some r → isDnKw d r = false) → RVal v sv →
      GItem d (.ext rule (some a) v dn)
        (a ++ ((if dn then 0x3A :: kw else []) ++ (optStr [0x3A] rule ++ 0x3A :: 0x3D :: sv)))
  | extRule {r v sv kw : Bytes} {dn : Bool} :
      IsOid d r → (dn = true → isDnKw d kw = true) → RVal v sv →
      GItem d (.ext (some r) none v dn)
        ((if dn then 0x3A :: kw else []) ++ (0x3A :: r ++ 0x3A :: 0x3D :: sv))

mutual
/-- `filter = LPAREN filtercomp RPAREN`, `filtercomp = and / or / not / item`;
`filterlist = *filter` (RFC 4515 has `1*filter`; RFC 4526 adds the empty lists) -/
def G (d : Dialect) : Filter → Bytes → Prop
  | .and fs, s => ∃ b, GL d fs b ∧ s = 0x28 :: 0x26 :: (b ++ [0x29])
  | .or fs, s => ∃ b, GL d fs b ∧ s = 0x28 :: 0x7C :: (b ++ [0x29])
  | .not f, s => ∃ b, G d f b ∧ s = 0x28 :: 0x21 :: (b ++ [0x29])
  | .eq a v, s => ∃ b, GItem d (.eq a v) b ∧ s = 0x28 :: (b ++ [0x29])
  | .ge a v, s => ∃ b, GItem d (.ge a v) b ∧ s = 0x28 :: (b ++ [0x29])
  | .le a v, s => ∃ b, GItem d (.le a v) b ∧ s = 0x28 :: (b ++ [0x29])
  | .approx a v, s => ∃ b, GItem d (.approx a v) b ∧ s = 0x28 :: (b ++ [0x29])
  | .present a, s => ∃ b, GItem d (.present a) b ∧ s = 0x28 :: (b ++ [0x29])
  | .substr a i y f, s => ∃ b, GItem d (.substr a i y f) b ∧ s = 0x28 :: (b ++ [0x29])
  | .ext r a v n, s => ∃ b, GItem d (.ext r a v n) b ∧ s = 0x28 :: (b ++ [0x29])
def GL (d : Dialect) : List Filter → Bytes → Prop
  | [], s => s = []
  | f :: fs, s => ∃ a b, G d f a ∧ GL d fs b ∧ s = a ++ b
end

/-- the documented extension: an item without the outer parentheses, at top level only -/
def Gtop (d : Dialect) (f : Filter) (s : Bytes) : Prop := G d f s ∨ GItem d f s

/-- the language of RFC 4515 (+ RFC 4526, + bare item): the grammar, over UTF-8 text -/
def GRfc (f : Filter) (s : Bytes) : Prop := Gtop .rfc f s ∧ utf8Valid s = true
/-- the library's language: additionally a bare number as attribute type / matching rule and
arbitrary octets ≥ 0x80 in values (the keyword `dn` in any case, as in the RFC) -/
def GLib (f : Filter) (s : Bytes) : Prop := Gtop .lib f s

/-! ## canonical printing -/

def hexLower (n : Nat) : UInt8 := if n < 10 then (48 + n).toUInt8 else (87 + n).toUInt8

/-- canonical `valueencoding`: only the five special octets are escaped, lower-case hex -/
def escByte (b : UInt8) : Bytes :=
  if isSpecial b then [0x5C, hexLower (b.toNat / 16), hexLower (b.toNat % 16)] else [b]

def escCanon : Bytes → Bytes
  | [] => []
  | b :: v => escByte b ++ escCanon v

def escOpt : Option Bytes → Bytes
  | some v => escCanon v
  | none => []

def escAny : List Bytes → Bytes
  | [] => []
  | v :: vs => escCanon v ++ 0x2A :: escAny vs

/-- an item without parentheses -/
def printItem : Filter → Bytes
  | .eq a v => a ++ 0x3D :: escCanon v
  | .ge a v => a ++ 0x3E :: 0x3D :: escCanon v
  | .le a v => a ++ 0x3C :: 0x3D :: escCanon v
  | .approx a v => a ++ 0x7E :: 0x3D :: escCanon v
  | .present a => a ++ [0x3D, 0x2A]
  | .substr a ini any fin => a ++ 0x3D :: (escOpt ini ++ 0x2A :: (escAny any ++ escOpt fin))
  | .ext rule attr v dn =>
      optStr [] attr ++ ((if dn then [0x3A, 0x64, 0x6E] else []) ++ (optStr [0x3A] rule ++ 0x3A :: 0x3D :: escCanon v))
  | _ => []

mutual
def print : Filter → Bytes
  | .and fs => 0x28 :: 0x26 :: (printList fs ++ [0x29])
  | .or fs => 0x28 :: 0x7C :: (printList fs ++ [0x29])
  | .not f => 0x28 :: 0x21 :: (print f ++ [0x29])
  | .eq a v => 0x28 :: (printItem (.eq a v) ++ [0x29])
  | .ge a v => 0x28 :: (printItem (.ge a v) ++ [0x29])
  | .le a v => 0x28 :: (printItem (.le a v) ++ [0x29])
  | .approx a v => 0x28 :: (printItem (.approx a v) ++ [0x29])
  | .present a => 0x28 :: (printItem (.present a) ++ [0x29])
  | .substr a i y f => 0x28 :: (printItem (.substr a i y f) ++ [0x29])
  | .ext r a v n => 0x28 :: (printItem (.ext r a v n) ++ [0x29])
def printList : List Filter → Bytes
  | [] => []
  | f :: fs => print f ++ printList fs
end

/-- escaping normal form of a filter string: every well-formed `\hh` is replaced by the canonical
rendering of its octet; everything else is kept (a malformed escape ends the normalisation: such
strings are not in the language) -/
def normEsc : Bytes → Bytes
  | [] => []
  | c :: r =>
    if c = 0x5C then
      match r with
      | h1 :: h2 :: r' =>
        (match hexVal h1, hexVal h2 with
         | some x, some y => escByte (16 * x + y).toUInt8 ++ normEsc r'
         | _, _ => c :: r)
      | _ => c :: r
    else c :: normEsc r

/-- where the scan for the `dnattrs` keyword is inside an item: at its first octet, inside its
attribute description, past the point where the keyword can occur, or on the two letters of a
keyword being rewritten -/
inductive KwState where
  | start
  | inAttr
  | other
  | kwD
  | kwN
  deriving DecidableEq

def isD (c : UInt8) : Bool := c == 0x64 || c == 0x44
def isN (c : UInt8) : Bool := c == 0x6E || c == 0x4E
/-- octets of an attribute description -/
def attrOctet (c : UInt8) : Bool := keychar c || c == 0x2E || c == 0x3B

/-- after a `:` met in state `st`: the next octets are `dn` in some case followed by `:`, and this
is the `dnattrs` keyword: it follows an attribute description, or a matching rule follows it
(`(:DN:=x)` is the rule called `DN`) -/
def kwAt (st : KwState) : Bytes → Bool
  | c1 :: c2 :: c3 :: r' => isD c1 && isN c2 && c3 == 0x3A && (st == .inAttr || r'.head? != some 0x3D)
  | _ => false

/-- spelling normal form of the `dnattrs` keyword: `:dn` in any case becomes `:dn` where it is the
keyword, i.e. where it is the first `:`-segment of an item and `kwAt` holds.  Everything else,
values in particular, is copied. -/
def lowerKw : KwState → Bytes → Bytes
  | _, [] => []
  | st, c :: r =>
    if st = .kwD then 0x64 :: lowerKw .kwN r
    else if st = .kwN then 0x6E :: lowerKw .other r
    else if c = 0x28 then c :: lowerKw .start r
    else if c = 0x3A ∧ st ≠ .other then c :: lowerKw (if kwAt st r then .kwD else .other) r
    else if attrOctet c ∧ st ≠ .other then c :: lowerKw .inAttr r
    else c :: lowerKw .other r

/-- normal form of a filter string: keyword spelling, then escaping, with the outer parentheses of
a bare top-level item supplied -/
def normTop (s : Bytes) : Bytes :=
  match s with
  | 0x28 :: _ => normEsc (lowerKw .start s)
  | _ => 0x28 :: (normEsc (lowerKw .start s) ++ [0x29])

/-- what the trees denoted by filter strings look like: at least one substring piece, none
empty; an extensible match has a rule or a type, and a rule following a type without `:dn` is not
spelled like the keyword -/
def wfItem : Filter → Bool
  | .substr _ ini any fin =>
      (ini.isSome || !any.isEmpty || fin.isSome) &&
      (match ini with | some v => !v.isEmpty | none => true) &&
      any.all (fun v => !v.isEmpty) &&
      (match fin with | some v => !v.isEmpty | none => true)
  | .ext rule attr _ dn =>
      (rule.isSome || attr.isSome) &&
      !(attr.isSome && !dn && (match rule with | some r => isDnKw .rfc r | none => false))
  | _ => true

mutual
def wf : Filter → Bool
  | .and fs => wfList fs
  | .or fs => wfList fs
  | .not f => wf f
  | .eq .. => true
  | .ge .. => true
  | .le .. => true
  | .approx .. => true
  | .present .. => true
  | .substr a i y f => wfItem (.substr a i y f)
  | .ext r a v n => wfItem (.ext r a v n)
def wfList : List Filter → Bool
  | [] => true
  | f :: fs => wf f && wfList fs
end

/-! ## the classes of strings the property says are rejected, as predicates on the string alone
(parentheses never stand for themselves in a filter string, so every `(` `)` octet is structure) -/

/-- parenthesis depth starting at `d`: no `)` without an open `(`, none left open at the end -/
def balanced : Nat → Bytes → Bool
  | d, [] => d == 0
  | d, c :: r =>
    if c = 0x28 then balanced (d + 1) r
    else if c = 0x29 then
      match d with
      | 0 => false
      | d' + 1 => balanced d' r
    else balanced d r

/-- every backslash is followed by two hex digits -/
def escapesOk : Bytes → Bool
  | [] => true
  | c :: r =>
    if c = 0x5C then
      match r with
      | h1 :: h2 :: r' => (hexVal h1).isSome && (hexVal h2).isSome && escapesOk r'
      | _ => false
    else escapesOk r

/-- no two adjacent asterisks (`lastStar`: the previous octet was an asterisk) -/
def noAdjacentStars : Bool → Bytes → Bool
  | _, [] => true
  | lastStar, c :: r => !(lastStar && c == 0x2A) && noAdjacentStars (c == 0x2A) r

/-- what may follow `(`: `&` `|` `!`, or the first octet of an item (letter, digit, `:`);
in particular not an operator: the attribute description is not empty -/
def okAfterParen (c : UInt8) : Bool := c == 0x26 || c == 0x7C || c == 0x21 || c == 0x3A || ALPHA c || DIGIT c

/-- every `(` is followed by something that can start a `filtercomp` -/
def parenFollowOk : Bool → Bytes → Bool
  | afterParen, [] => !afterParen
  | afterParen, c :: r => (!afterParen || okAfterParen c) && parenFollowOk (c == 0x28) r

/-- every `(` is the first octet or follows one of `(` `&` `|` `!` `)`: none inside a value or an
attribute description (`prevOk`: a parenthesis may come next) -/
def parenPrevOk : Bool → Bytes → Bool
  | _, [] => true
  | prevOk, c :: r =>
    (c != 0x28 || prevOk) && parenPrevOk (c == 0x28 || c == 0x26 || c == 0x7C || c == 0x21 || c == 0x29) r

end Filter
end Ldap3V.Spec

/-
X.690 definite-length BER, written from the standard and independent of how lber does it.
-/
import Ldap3V.Model.Ber
namespace Ldap3V.Spec
open Ldap3V

/-- big-endian value of a byte string (unbounded) -/
def beVal (bs : Bytes) : Nat := bs.foldl (fun r b => r * 256 + b.toNat) 0

/-- two's complement value of content octets (X.690 §8.3.3) -/
def twos (bs : Bytes) : Int :=
  match bs with
  | [] => 0
  | b :: _ => if b.toNat ≥ 128 then (beVal bs : Int) - (256 : Int) ^ bs.length else (beVal bs : Int)

/-- X.690 §8.3.2: the leading nine bits are not all equal -/
def Minimal (bs : Bytes) : Prop :=
  match bs with
  | a :: b :: _ => ¬ (a.toNat = 0 ∧ b.toNat < 128) ∧ ¬ (a.toNat = 255 ∧ b.toNat ≥ 128)
  | _ => True

/-- `bs` is *a* definite-length encoding of the length `n` (X.690 §8.1.3.3–5): the short form
for `n < 128`, or `0x80 + k` followed by `k` octets (`1 ≤ k ≤ 126`) whose big-endian value is
`n`; leading zero octets are allowed. -/
def LenEnc (n : Nat) (bs : Bytes) : Prop :=
  (n < 128 ∧ bs = [n.toUInt8]) ∨
  (∃ ds : Bytes, 1 ≤ ds.length ∧ ds.length ≤ 126 ∧ beVal ds = n ∧ bs = (128 + ds.length).toUInt8 :: ds)

mutual
/-- `Enc t bs`: `bs` is *a* definite-length BER encoding of `t` (low tag numbers): identifier
octet, any `LenEnc` of the content length, then the value octets / the concatenation of
encodings of the children. -/
def Enc : Tlv → Bytes → Prop
  | .prim c i v, bs => c < 4 ∧ i ≤ 30 ∧ ∃ l, LenEnc v.length l ∧ bs = (c * 64 + i).toUInt8 :: (l ++ v)
  | .cons c i ks, bs => c < 4 ∧ i ≤ 30 ∧ ∃ l body, EncList ks body ∧ LenEnc body.length l ∧
      bs = (c * 64 + 32 + i).toUInt8 :: (l ++ body)
def EncList : List Tlv → Bytes → Prop
  | [], bs => bs = []
  | t :: ts, bs => ∃ a b, Enc t a ∧ EncList ts b ∧ bs = a ++ b
end

mutual
/-- what the writer can represent and the parser reads back: class 0..3, low tag number,
every content length a `usize` -/
def WF : Tlv → Prop
  | .prim c i v => c < 4 ∧ i ≤ 30 ∧ v.length < 18446744073709551616
  | .cons c i ks => c < 4 ∧ i ≤ 30 ∧ (encodeList ks).length < 18446744073709551616 ∧ WFList ks
def WFList : List Tlv → Prop
  | [] => True
  | t :: ts => WF t ∧ WFList ts
end

end Ldap3V.Spec

/- The stream model (Model/Stream.lean) treats the arguments of a search — base, scope, filter, attributes —
as one opaque token (`Query.tok`), the caller's other controls as tokens (`RCtl.other`) and the search
options as a token (`Handle.opts`): the adapters only move them around.  An `Interp` says what the tokens
stand for; with it a `Req` of the stream model becomes a `Request` of Model/Requests.lean and hence the
bytes `Encoder::encode` writes for it (`encodeMsg`, `build`), the paging control being the one
`PagedResults { size, cookie }.into()` builds (Model/Codecs.lean `encPagedResults`).

This is what connects the request-sequence law of C16 (`C16_requests`: which searches the adapter hands to
`op_call`) with the byte level of C02 / C19: `C16_request_bytes` in Props/C16.lean. -/
import Ldap3V.Model.Stream
import Ldap3V.Model.Requests
import Ldap3V.Model.Codecs
namespace Ldap3V.Stream

/-- what the opaque tokens of the stream model stand for -/
structure Interp where
  base : Nat → Bytes
  scope : Nat → Scope
  filter : Nat → Tlv                    -- the parsed filter (`Query.filterOk`: it parsed)
  attrs : Nat → List Bytes
  ctl : Nat → RawControl                -- `RCtl.other`
  opts : Nat → SearchOpts               -- `Handle.opts`

/-- a control of the stream model as the `RawControl` handed to `op_call` -/
def Interp.rctl (I : Interp) : RCtl → RawControl
  | .paged size cookie => Codecs.encPagedResults ⟨size, cookie⟩
  | .other t => I.ctl t

/-- the search options in force: `self.ldap.search_opts.take()` or `SearchOptions::new()` -/
def Interp.optsOf (I : Interp) : Option Nat → SearchOpts
  | some t => I.opts t
  | none => SearchOpts.default

/-- the Search `start_inner` builds for a `Req` -/
def Interp.request (I : Interp) (r : Req) : Request :=
  .search (I.base r.query.tok) (I.scope r.query.tok) (I.optsOf r.opts).deref (I.optsOf r.opts).sizeLimit
    (I.optsOf r.opts).timeLimit (I.optsOf r.opts).typesOnly (I.filter r.query.tok) (I.attrs r.query.tok)

def Interp.ctrls (I : Interp) (r : Req) : Option (List RawControl) := r.ctrls.map (·.map I.rctl)

/-- the bytes written for a `Req` under message ID `id` -/
def Interp.bytes (I : Interp) (id : Nat) (r : Req) : Bytes := encodeMsg (id : Int) (build (I.request r)) (I.ctrls r)

end Ldap3V.Stream

/-
What RFC 4511 §4.5.2 and property C15 say about a search result entry, independent of how
`SearchEntry::construct` works.

  SearchResultEntry ::= [APPLICATION 4] SEQUENCE {
       objectName      LDAPDN,                     -- OCTET STRING
       attributes      PartialAttributeList }
  PartialAttributeList ::= SEQUENCE OF partialAttribute PartialAttribute
  PartialAttribute ::= SEQUENCE { type AttributeDescription, vals SET OF value AttributeValue }
-/
import Ldap3V.Model.Ber
namespace Ldap3V.Spec
open Ldap3V

/-- the entry the server sends: DN, then attributes in order, each with its values in order -/
structure Entry where
  dn : Bytes
  attrs : List (Bytes × List Bytes)
  deriving Repr, DecidableEq

def valueTlv (v : Bytes) : Tlv := .prim 0 4 v
/-- `SEQUENCE { type OCTET STRING, vals SET OF OCTET STRING }` -/
def attrTlv (p : Bytes × List Bytes) : Tlv :=
  .cons 0 16 [.prim 0 4 p.1, .cons 0 17 (p.2.map valueTlv)]
/-- `[APPLICATION 4] SEQUENCE { objectName, attributes }` (implicit tagging: class 1, number 4) -/
def entryTlv (e : Entry) : Tlv :=
  .cons 1 4 [.prim 0 4 e.dn, .cons 0 16 (e.attrs.map attrTlv)]

/-- the names (DN and attribute descriptions) are text -/
def ValidNames (valid : Bytes → Bool) (e : Entry) : Prop :=
  valid e.dn = true ∧ ∀ p ∈ e.attrs, valid p.1 = true

/-- well-formed entry: DN and attribute types are valid UTF-8 and no attribute type occurs
twice (RFC 4511 §4.5.2 does not forbid it outright, X.501 does; the real code accepts
repetitions, see `C15_duplicates_characterised`). -/
def WFEntry (valid : Bytes → Bool) (e : Entry) : Prop :=
  ValidNames valid e ∧ (e.attrs.map (·.1)).Nodup

instance (valid : Bytes → Bool) (e : Entry) : Decidable (ValidNames valid e) := by
  unfold ValidNames; infer_instance
instance (valid : Bytes → Bool) (e : Entry) : Decidable (WFEntry valid e) := by
  unfold WFEntry; infer_instance

/-! ### what the two maps must hold when attribute types may repeat -/

/-- values of the last occurrence of `a` all of whose values are text -/
def lastText (valid : Bytes → Bool) (attrs : List (Bytes × List Bytes)) (a : Bytes) : Option (List Bytes) :=
  (attrs.reverse.find? fun p => p.1 == a && p.2.all valid).map (·.2)

/-- one binary occurrence contributes its non-text values in order, then its text values in order -/
def binChunk (valid : Bytes → Bool) (vals : List Bytes) : List Bytes :=
  vals.filter (fun v => !valid v) ++ vals.filter valid

/-- the chunks of all occurrences of `a` having a non-text value, in order of occurrence -/
def binVals (valid : Bytes → Bool) (attrs : List (Bytes × List Bytes)) (a : Bytes) : List Bytes :=
  (attrs.filter fun p => p.1 == a && !p.2.all valid).flatMap fun p => binChunk valid p.2

/-! ### lenient reading: the shapes the real code gets through without panicking -/

/-- every element is primitive (class and number are not looked at) -/
def readVals : List Tlv → Option (List Bytes)
  | [] => some []
  | t :: ts =>
    match t.expectPrim, readVals ts with
    | some v, some vs => some (v :: vs)
    | _, _ => none

/-- constructed, first element primitive, second constructed of primitives; anything after is ignored -/
def readAttr : Tlv → Option (Bytes × List Bytes)
  | .cons _ _ (.prim _ _ ty :: .cons _ _ vs :: _) => (readVals vs).map fun l => (ty, l)
  | _ => none

def readAttrs : List Tlv → Option (List (Bytes × List Bytes))
  | [] => some []
  | t :: ts =>
    match readAttr t, readAttrs ts with
    | some a, some as => some (a :: as)
    | _, _ => none

/-- tag number 4 (any class), constructed, first element primitive, second constructed of
attributes; anything after is ignored -/
def readEntry : Tlv → Option Entry
  | .cons _ i (.prim _ _ dn :: .cons _ _ as :: _) =>
    if i = 4 then (readAttrs as).map fun l => { dn := dn, attrs := l } else none
  | _ => none

end Ldap3V.Spec

/-
C14 — what "the sync façade is the async API" means, independent of how sync.rs is written.

* `expectedRecv / expectedCallee / expectedArgs / expectedRet / expectedRt`: the correspondence
  `LdapConn ↔ Ldap`, `EntryStream ↔ SearchStream` the property talks about.
* `TableFaithful a t`: every row of the (regenerated) table `t` of sync.rs is that correspondence, judged
  against the async side `a` as extracted from ldap.rs / search.rs / conn.rs (source-to-source).
* an abstract interpreter: `AsyncBehaviour` is the async API + the server + the network as an OPAQUE
  function; `runAsync` runs a script of API calls against it, `runSync t` runs the same script through the
  table `t`.  Props/C14.lean proves them equal for every script and every behaviour when `t` is faithful.
-/
import Ldap3V.Model.Sync
namespace Ldap3V.Sync

/-! ## the correspondence -/

/-- argument i is parameter i -/
def passThrough (n : Nat) : List Expr := (List.range n).map Expr.param

/-- The method of the async API a sync method stands for.  Identity, except that `EntryStream::result`
is `SearchStream::finish` ("The name `result()` was kept for backwards compatibility"). -/
def expectedCallee (owner name : String) : String :=
  if owner = "EntryStream" ∧ name = "result" then "finish" else name

/-- `LdapConn` methods are `Ldap` methods on `self.ldap`; `EntryStream` methods are `SearchStream` methods
on `self.stream`, except `EntryStream::last_id`, documented as "calls `Ldap::last_id()` on the `Ldap`
handle encapsulated by the underlying stream", i.e. `stream.ldap_handle().last_id()`. -/
def expectedRecv (owner name : String) : Recv :=
  if owner = "EntryStream" then (if name = "last_id" then .streamLdap else .stream) else .ldap

/-- Arguments are passed through in order.  One documented exception: `LdapConn::streaming_search_with`
hands `adapters.into()` (a `Vec<Box<dyn Adapter>>`) to `Ldap::streaming_search_with`, which applies
`IntoAdapterVec::into` itself; on a `Vec` that is the identity (adapters.rs) — `AsyncBehaviour.into_absorbed`. -/
def expectedArgs (owner name : String) (n : Nat) : List Expr :=
  if owner = "LdapConn" ∧ name = "streaming_search_with" then
    match passThrough n with
    | [] => []
    | a :: rest => Expr.into a :: rest
  else passThrough n

/-- The two stream-opening methods wrap the `SearchStream` into an `EntryStream` (after `?`); every other
method returns what the async method returned. -/
def expectedRet (owner name : String) : Ret :=
  if owner = "LdapConn" ∧ (name = "streaming_search" ∨ name = "streaming_search_with") then .entryStream else .unchanged

/-- the runtime a method blocks on: the connection's own -/
def expectedRt (owner : String) : String :=
  if owner = "EntryStream" then "self.conn.rt" else "self.rt"

/-- the field a modifier is named after -/
def expectedField (name : String) : String :=
  if name = "with_search_options" then "search_opts"
  else if name = "with_controls" then "controls"
  else if name = "with_timeout" then "timeout"
  else "(not a modifier)"

/-- `Some(arg)`, possibly converted with `.into()` -/
def isSomeOfArg (e : Expr) : Bool :=
  e = .some (.param 0) ∨ e = .some (.into (.param 0))

def lookup (t : List SyncEntry) (owner name : String) : Option SyncEntry :=
  t.find? (fun r => r.owner = owner ∧ r.name = name)

def AsyncInfo.setter (a : AsyncInfo) (name : String) : Option SetterRow := a.setters.find? (fun r => r.name = name)
def AsyncInfo.getter (a : AsyncInfo) (name : String) : Option String := (a.getters.find? (fun r => r.1 = name)).map (·.2)
def AsyncInfo.ctor (a : AsyncInfo) (name : String) : Option CtorRow := a.ctors.find? (fun r => r.name = name)

/-- is `name` a public method of the async type behind `recv`, and is it `async`? -/
def AsyncInfo.method (a : AsyncInfo) (recv : Recv) (name : String) : Option Bool :=
  match recv with
  | .ldap | .streamLdap => (a.ldapMethods.find? (fun r => r.1 = name)).map (·.2)
  | .stream => (a.streamMethods.find? (fun r => r.1 = name)).map (·.2)
  | .static => none

/-- is this call a constructor call (as far as the async side is concerned)? -/
def AsyncInfo.isCtor (a : AsyncInfo) (owner name : String) : Bool :=
  owner = "LdapConn" ∧ (a.ctor name).isSome

/-- a constructor body with the sync-only details (runtime flavour, `drive!`) removed -/
def ctorCore : Body → Body
  | .connect _ callee args _ => .connect "" callee args false
  | b => b

def isCtorBody : Body → Bool
  | .delegate .. | .connect .. => true
  | _ => false

/-- One row of sync.rs is the correspondence.  (`t` is needed for constructors only: a delegation must
stay inside the table.) -/
def rowOk (a : AsyncInfo) (t : List SyncEntry) (r : SyncEntry) : Bool :=
  match r.body with
  | .blockOn rt recv callee args ret =>
      -- blocks on the connection's runtime, on the async method of the same name, parameters in order
      decide (a.isCtor r.owner r.name = false ∧ rt = expectedRt r.owner ∧ recv = expectedRecv r.owner r.name ∧
        callee = expectedCallee r.owner r.name ∧ args = expectedArgs r.owner r.name r.params.length ∧
        ret = expectedRet r.owner r.name ∧ a.method recv callee = some true ∧
        a.setter callee = none ∧ a.getter callee = none)
  | .direct recv callee args =>
      -- a non-async method of the async API, called directly
      decide (a.isCtor r.owner r.name = false ∧ expectedRet r.owner r.name = .unchanged ∧ recv = expectedRecv r.owner r.name ∧
        callee = expectedCallee r.owner r.name ∧ args = passThrough r.params.length ∧
        a.method recv callee = some false)
  | .inline recv e =>
      -- the body of the async API's getter of the same name, inlined
      decide (a.isCtor r.owner r.name = false ∧ expectedRet r.owner r.name = .unchanged ∧ r.params = [] ∧ recv = expectedRecv r.owner r.name ∧ recv ≠ .stream ∧
        recv ≠ .static ∧ a.method recv (expectedCallee r.owner r.name) = some false ∧
        a.setter (expectedCallee r.owner r.name) = none ∧ a.getter (expectedCallee r.owner r.name) = some e)
  | .assign field value =>
      -- a modifier: writes the field it is named after with Some(arg), exactly as `Ldap::with_*` does
      decide (a.isCtor r.owner r.name = false ∧ expectedRet r.owner r.name = .unchanged ∧ r.owner = "LdapConn" ∧ r.params.length = 1 ∧
        field = expectedField r.name ∧ isSomeOfArg value = true ∧
        a.setter r.name = some ⟨r.name, field, value⟩ ∧ a.method .ldap r.name = some false)
  | .delegate callee _ =>
      -- a constructor delegating like the async constructor of the same name, to another constructor of the table
      decide (r.owner = "LdapConn" ∧ a.ctor r.name = some ⟨r.name, r.params.length, r.body⟩ ∧
        ((lookup t "LdapConn" callee).map (fun r' => isCtorBody r'.body)) = some true)
  | .connect flavour _ args driven =>
      -- the constructor that opens the connection: the async one, on a current-thread runtime, driver spawned
      decide (r.owner = "LdapConn" ∧ a.ctor r.name = some ⟨r.name, r.params.length, ctorCore r.body⟩ ∧
        args = passThrough r.params.length ∧ flavour = "current_thread" ∧ driven = true)
  | .unclassified _ => false

/-- every row is the correspondence -/
def TableFaithful (a : AsyncInfo) (t : List SyncEntry) : Bool := t.all (rowOk a t)

/-! ## the abstract interpreter -/

/-- abstract argument values: whatever the caller passes (`atom`), and the conversions sync.rs applies -/
inductive Val where
  | atom (s : String)
  | into (v : Val)
  | some (v : Val)
  | ref (v : Val)
  | urlParse (v : Val)
  | const (s : String)
  | undef                    -- a parameter that was not supplied
  deriving DecidableEq, Repr

def Expr.eval (args : List Val) : Expr → Val
  | .param i => args.getD i .undef
  | .into e => .into (e.eval args)
  | .some e => .some (e.eval args)
  | .ref e => .ref (e.eval args)
  | .urlParse e => .urlParse (e.eval args)
  | .const s => .const s

abbrev Bytes := List UInt8
/-- bytes put on the wire by one call, message by message -/
abbrev Wire := List Bytes

/-- The async API together with the network and the server, as an opaque state machine.
`σ`: everything that exists (handle fields, driver, socket, server script position, open streams);
`ρ`: results, errors, stream items.  Nothing is assumed about `call`, `setField`, `readExpr` except
`into_absorbed` — so the theorems hold for every server behaviour (success, error codes, silence, disconnect). -/
structure AsyncBehaviour (σ ρ : Type) where
  /-- awaiting / calling a method of the async API to completion -/
  call : σ → Recv → String → List Val → σ × ρ × Wire
  /-- `handle.FIELD = v` -/
  setField : σ → Recv → String → Val → σ
  /-- evaluating `handle.EXPR` -/
  readExpr : σ → Recv → String → σ × ρ × Wire
  /-- the `&mut Self` a modifier returns -/
  selfRef : ρ
  /-- a call that does not exist (never reached by a covered script) -/
  stuck : ρ
  /-- `Ok(stream) ↦ Ok(EntryStream { stream, conn })`, `Err(e) ↦ Err(e)`: the sync name of an opened stream -/
  entryStreamOf : ρ → ρ
  /-- `Ldap::streaming_search_with` starts with `adapters.into()`, and `into` on a `Vec<Box<dyn Adapter>>` is the identity -/
  into_absorbed : ∀ s v rest, call s .ldap "streaming_search_with" (Val.into v :: rest) = call s .ldap "streaming_search_with" (v :: rest)

/-- one call of the scripts: on `LdapConn` / `EntryStream` — or, read through the correspondence, on `Ldap` / `SearchStream` -/
structure ApiCall where
  owner : String
  name : String
  args : List Val
  deriving DecidableEq, Repr

abbrev Transcript (ρ : Type) := List (ρ × Wire)

variable {σ ρ : Type}

/-- A method of the async API on a handle.  Its three modifiers and two getters are what ldap.rs says they are
(a field write, a field read: `a.setters`, `a.getters`); every other method is opaque. -/
def asyncMethod (a : AsyncInfo) (b : AsyncBehaviour σ ρ) (s : σ) (recv : Recv) (m : String) (args : List Val) : σ × ρ × Wire :=
  if recv = .ldap ∨ recv = .streamLdap then
    match a.setter m with
    | some r => (b.setField s recv r.field (r.value.eval args), b.selfRef, [])
    | none =>
      match a.getter m with
      | some e => b.readExpr s recv e
      | none => b.call s recv m args
  else b.call s recv m args

def applyRet (b : AsyncBehaviour σ ρ) : Ret → σ × ρ × Wire → σ × ρ × Wire
  | .unchanged, x => x
  | .entryStream, x => (x.1, b.entryStreamOf x.2.1, x.2.2)

def ctorFuel : Nat := 16

/-- follow constructor delegations to the constructor that opens the connection -/
def resolveCtor (look : String → Option Body) : Nat → String → List Val → Option (String × List Val)
  | 0, _, _ => none
  | fuel + 1, name, args =>
    match look name with
    | some (.delegate callee es) => resolveCtor look fuel callee (es.map (·.eval args))
    | some (.connect _ callee es _) => some (callee, es.map (·.eval args))
    | _ => none

def openWith (b : AsyncBehaviour σ ρ) (s : σ) : Option (String × List Val) → σ × ρ × Wire
  | some (callee, vs) => b.call s .static callee vs
  | none => (s, b.stuck, [])

/-- one call made on the async API -/
def stepAsync (a : AsyncInfo) (b : AsyncBehaviour σ ρ) (s : σ) (c : ApiCall) : σ × ρ × Wire :=
  if a.isCtor c.owner c.name then
    openWith b s (resolveCtor (fun n => (a.ctor n).map (·.body)) ctorFuel c.name c.args)
  else
    -- an opened `SearchStream` is reported under its sync name, so that the two transcripts are comparable
    applyRet b (expectedRet c.owner c.name)
      (asyncMethod a b s (expectedRecv c.owner c.name) (expectedCallee c.owner c.name) c.args)

/-- one call made on the sync façade: whatever the table row says -/
def stepSync (t : List SyncEntry) (a : AsyncInfo) (b : AsyncBehaviour σ ρ) (s : σ) (c : ApiCall) : σ × ρ × Wire :=
  match lookup t c.owner c.name with
  | none => (s, b.stuck, [])
  | some r =>
    match r.body with
    | .blockOn _ recv callee es ret => applyRet b ret (asyncMethod a b s recv callee (es.map (·.eval c.args)))
    | .direct recv callee es => asyncMethod a b s recv callee (es.map (·.eval c.args))
    | .inline recv e => b.readExpr s recv e
    | .assign f v => (b.setField s .ldap f (v.eval c.args), b.selfRef, [])
    | .delegate .. | .connect .. =>
        openWith b s (resolveCtor (fun n => (lookup t "LdapConn" n).map (·.body)) ctorFuel c.name c.args)
    | .unclassified _ => (s, b.stuck, [])

def runAsync (a : AsyncInfo) (b : AsyncBehaviour σ ρ) : σ → List ApiCall → Transcript ρ
  | _, [] => []
  | s, c :: cs => let r := stepAsync a b s c; (r.2.1, r.2.2) :: runAsync a b r.1 cs

def runSync (t : List SyncEntry) (a : AsyncInfo) (b : AsyncBehaviour σ ρ) : σ → List ApiCall → Transcript ρ
  | _, [] => []
  | s, c :: cs => let r := stepSync t a b s c; (r.2.1, r.2.2) :: runSync t a b r.1 cs

/-- every call of the script names a method of the table and supplies as many arguments as it has parameters -/
def Covered (t : List SyncEntry) (script : List ApiCall) : Bool :=
  script.all fun c => ((lookup t c.owner c.name).map (fun r => decide (r.params.length = c.args.length))) = some true

/-! ## the surface -/

/-- the async method a non-constructor row stands for: receiver and name -/
def SyncEntry.target (r : SyncEntry) : Option (Recv × String) :=
  match r.body with
  | .blockOn _ recv callee _ _ | .direct recv callee _ => some (recv, callee)
  | .inline recv _ => some (recv, expectedCallee r.owner r.name)
  | .assign _ _ => some (.ldap, r.name)
  | _ => none

/-- the async methods reached from `owner` on receiver `recv`, in source order -/
def calleesOf (t : List SyncEntry) (owner : String) (recv : Recv) : List String :=
  (t.filter (fun r => r.owner = owner)).filterMap fun r =>
    match r.target with
    | some (rc, m) => if rc = recv then some m else none
    | none => none

def ctorNames (t : List SyncEntry) : List String :=
  (t.filter (fun r => isCtorBody r.body)).map (·.name)

def sameSet (xs ys : List String) : Bool := xs.all (· ∈ ys) && ys.all (· ∈ xs)

/-- Public methods of `SearchStream` WITHOUT a counterpart on `EntryStream`: `start` (documented as not meant
for user code), `adapter_chain_tail` (for adapter authors), `state`, and `ldap_handle` (reached only through
`EntryStream::last_id`).  A sync caller cannot ask an `EntryStream` for its `StreamState`. -/
def streamOnlyAsync : List String := ["start", "adapter_chain_tail", "state", "ldap_handle"]

end Ldap3V.Sync

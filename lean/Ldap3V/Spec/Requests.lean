/-
An independent reader of LDAP *request* messages, written from the ASN.1 of RFC 4511 (and RFC 4525
for the increment modification), and the one-shot law of per-operation modifiers stated without
reference to how the handle implements it.

  LDAPMessage ::= SEQUENCE { messageID MessageID, protocolOp CHOICE {…}, controls [0] Controls OPTIONAL }
  MessageID ::= INTEGER (0 .. maxInt)                                   maxInt = 2^31 - 1
  Controls ::= SEQUENCE OF control Control
  Control ::= SEQUENCE { controlType LDAPOID, criticality BOOLEAN DEFAULT FALSE, controlValue OCTET STRING OPTIONAL }
  BindRequest ::= [APPLICATION 0] SEQUENCE { version INTEGER (1..127), name LDAPDN, authentication AuthenticationChoice }
  AuthenticationChoice ::= CHOICE { simple [0] OCTET STRING, sasl [3] SaslCredentials }
  SaslCredentials ::= SEQUENCE { mechanism LDAPString, credentials OCTET STRING OPTIONAL }
  UnbindRequest ::= [APPLICATION 2] NULL
  SearchRequest ::= [APPLICATION 3] SEQUENCE { baseObject LDAPDN, scope ENUMERATED {0,1,2}, derefAliases ENUMERATED {0..3},
        sizeLimit INTEGER, timeLimit INTEGER, typesOnly BOOLEAN, filter Filter, attributes AttributeSelection }
  ModifyRequest ::= [APPLICATION 6] SEQUENCE { object LDAPDN, changes SEQUENCE OF change SEQUENCE {
        operation ENUMERATED { add (0), delete (1), replace (2), increment (3) }, modification PartialAttribute } }
  PartialAttribute ::= SEQUENCE { type AttributeDescription, vals SET OF value AttributeValue }
  AddRequest ::= [APPLICATION 8] SEQUENCE { entry LDAPDN, attributes SEQUENCE OF Attribute }   -- Attribute: vals SIZE (1..MAX)
  DelRequest ::= [APPLICATION 10] LDAPDN
  ModifyDNRequest ::= [APPLICATION 12] SEQUENCE { entry LDAPDN, newrdn RelativeLDAPDN, deleteoldrdn BOOLEAN, newSuperior [0] LDAPDN OPTIONAL }
  CompareRequest ::= [APPLICATION 14] SEQUENCE { entry LDAPDN, ava AttributeValueAssertion }
  AttributeValueAssertion ::= SEQUENCE { attributeDesc AttributeDescription, assertionValue AssertionValue }
  AbandonRequest ::= [APPLICATION 16] MessageID
  ExtendedRequest ::= [APPLICATION 23] SEQUENCE { requestName [0] LDAPOID, requestValue [1] OCTET STRING OPTIONAL }

Reading conventions (X.690): INTEGER / ENUMERATED contents are one or more octets of two's complement
(`Spec.twos`); a BOOLEAN is one octet, zero = FALSE, anything else = TRUE.  Implicit tagging keeps the
primitive/constructed form of the underlying type.  The size and time limits and the abandoned ID are
read as the signed numbers on the wire (the API takes `i32`s; a negative value is read back negative —
the RFC's `(0 .. maxInt)` subtype is not enforced by this reader).  The filter is returned as the element
found in the filter position; what it denotes is the subject of C08.
-/
import Ldap3V.Model.Requests
import Ldap3V.Spec.Ber
namespace Ldap3V.Spec
open Ldap3V

/-! ## element readers -/

/-- content octets of an INTEGER or ENUMERATED -/
def readInt (v : Bytes) : Option Int := if v.isEmpty then none else some (twos v)

/-- universal OCTET STRING (LDAPDN, LDAPString, AttributeValue, …) -/
def rdOctets : Tlv → Option Bytes
  | .prim 0 4 v => some v
  | _ => none

def rdInteger : Tlv → Option Int
  | .prim 0 2 v => readInt v
  | _ => none

def rdEnum : Tlv → Option Int
  | .prim 0 10 v => readInt v
  | _ => none

def rdBool : Tlv → Option Bool
  | .prim 0 1 [b] => some (b != 0)
  | _ => none

/-- SEQUENCE OF / SET OF: every element through `f` -/
def rdAll {α : Type} (f : Tlv → Option α) : List Tlv → Option (List α)
  | [] => some []
  | t :: ts => match f t with
    | none => none
    | some a => match rdAll f ts with
      | none => none
      | some as => some (a :: as)

/-- PartialAttribute / Attribute -/
def rdAttribute : Tlv → Option (Bytes × List Bytes)
  | .cons 0 16 [ty, .cons 0 17 vals] =>
    match rdOctets ty, rdAll rdOctets vals with
    | some ty, some vs => some (ty, vs)
    | _, _ => none
  | _ => none

def scopeOf (v : Int) : Option Scope :=
  if v = 0 then some .base else if v = 1 then some .oneLevel else if v = 2 then some .subtree else none

def derefOf (v : Int) : Option Deref :=
  if v = 0 then some .never else if v = 1 then some .searching else if v = 2 then some .finding
  else if v = 3 then some .always else none

def modKindOf (v : Int) : Option ModKind :=
  if v = 0 then some .add else if v = 1 then some .delete else if v = 2 then some .replace
  else if v = 3 then some .increment else none

def rdChange : Tlv → Option (ModKind × Bytes × List Bytes)
  | .cons 0 16 [op, modification] =>
    match (rdEnum op).bind modKindOf, rdAttribute modification with
    | some k, some (ty, vs) => some (k, ty, vs)
    | _, _ => none
  | _ => none

/-- Control -/
def rdControl : Tlv → Option RawControl
  | .cons 0 16 [ty] => (rdOctets ty).map fun o => ⟨o, false, none⟩
  | .cons 0 16 [ty, x] =>
    match rdOctets ty with
    | none => none
    | some o =>
      match rdBool x, rdOctets x with
      | some b, _ => some ⟨o, b, none⟩
      | none, some v => some ⟨o, false, some v⟩
      | none, none => none
  | .cons 0 16 [ty, c, v] =>
    match rdOctets ty, rdBool c, rdOctets v with
    | some o, some b, some v => some ⟨o, b, some v⟩
    | _, _, _ => none
  | _ => none

/-- the attribute list of an AddRequest: every `vals` has at least one element -/
def allNonEmpty (attrs : List (Bytes × List Bytes)) : Bool := attrs.all fun a => !a.2.isEmpty

/-! ## protocolOp -/

def rdBind (kids : List Tlv) : Option Request :=
  match kids with
  | [ver, name, auth] =>
    match rdInteger ver, rdOctets name with
    | some v, some dn =>
      if v = 3 then
        match auth with
        | .prim 2 0 pw => some (.simpleBind dn pw)
        | .cons 2 3 [mech, creds] =>
          match rdOctets mech, rdOctets creds with
          | some m, some c =>
            -- the only SASL bind among the requests: EXTERNAL with empty name and empty credentials
            if m = ascii "EXTERNAL" ∧ dn = [] ∧ c = [] then some .saslExternal else none
          | _, _ => none
        | _ => none
      else none
    | _, _ => none
  | _ => none

def rdSearch (kids : List Tlv) : Option Request :=
  match kids with
  | [base, scope, deref, size, time, typesOnly, filter, .cons 0 16 attrs] =>
    match rdOctets base, (rdEnum scope).bind scopeOf, (rdEnum deref).bind derefOf, rdInteger size,
        rdInteger time, rdBool typesOnly, rdAll rdOctets attrs with
    | some b, some s, some d, some sl, some tl, some to, some as => some (.search b s d sl tl to filter as)
    | _, _, _, _, _, _, _ => none
  | _ => none

def rdModify (kids : List Tlv) : Option Request :=
  match kids with
  | [object, .cons 0 16 changes] =>
    match rdOctets object, rdAll rdChange changes with
    | some dn, some ms => some (.modify dn ms)
    | _, _ => none
  | _ => none

def rdAdd (kids : List Tlv) : Option Request :=
  match kids with
  | [entry, .cons 0 16 attrs] =>
    match rdOctets entry, rdAll rdAttribute attrs with
    | some dn, some as => if allNonEmpty as then some (.add dn as) else none
    | _, _ => none
  | _ => none

def rdModDn (kids : List Tlv) : Option Request :=
  match kids with
  | [entry, newrdn, del] =>
    match rdOctets entry, rdOctets newrdn, rdBool del with
    | some dn, some rdn, some d => some (.modifyDn dn rdn d none)
    | _, _, _ => none
  | [entry, newrdn, del, .prim 2 0 sup] =>
    match rdOctets entry, rdOctets newrdn, rdBool del with
    | some dn, some rdn, some d => some (.modifyDn dn rdn d (some sup))
    | _, _, _ => none
  | _ => none

def rdCompare (kids : List Tlv) : Option Request :=
  match kids with
  | [entry, .cons 0 16 [desc, value]] =>
    match rdOctets entry, rdOctets desc, rdOctets value with
    | some dn, some a, some v => some (.compare dn a v)
    | _, _, _ => none
  | _ => none

def rdExtended (kids : List Tlv) : Option Request :=
  match kids with
  | [.prim 2 0 name] => some (.extended (some name) none)
  | [.prim 2 0 name, .prim 2 1 val] => some (.extended (some name) (some val))
  | _ => none

/-- the protocolOp CHOICE, requests only: `[APPLICATION n]` -/
def rdOp : Tlv → Option Request
  | .cons 1 0 kids => rdBind kids
  | .prim 1 2 [] => some .unbind
  | .cons 1 3 kids => rdSearch kids
  | .cons 1 6 kids => rdModify kids
  | .cons 1 8 kids => rdAdd kids
  | .prim 1 10 dn => some (.delete dn)
  | .cons 1 12 kids => rdModDn kids
  | .cons 1 14 kids => rdCompare kids
  | .prim 1 16 v => (readInt v).map .abandon
  | .cons 1 23 kids => rdExtended kids
  | _ => none

/-- messageID: INTEGER (0 .. maxInt) -/
def rdMsgId (t : Tlv) : Option Nat :=
  match rdInteger t with
  | some v => if 0 ≤ v ∧ v ≤ 2147483647 then some v.toNat else none
  | none => none

/-- LDAPMessage carrying a request -/
def decodeRequest : Tlv → Option (Nat × Request × Option (List RawControl))
  | .cons 0 16 [idt, op] =>
    match rdMsgId idt, rdOp op with
    | some id, some r => some (id, r, none)
    | _, _ => none
  | .cons 0 16 [idt, op, .cons 2 0 ctrls] =>
    match rdMsgId idt, rdOp op, rdAll rdControl ctrls with
    | some id, some r, some cs => some (id, r, some cs)
    | _, _, _ => none
  | _ => none

/-! ## which calls must fail locally (API documentation)

`add`: "None of the HashSets of values for an attribute may be empty."  `Mod::Add`: "Add an attribute,
with at least one value."  `Exop`: "when sending an extended request, name must not be None". -/

def mustReject : Request → Bool
  | .add _ attrs => attrs.any fun a => a.2.isEmpty
  | .modify _ mods => mods.any fun m => m.1 == .add && m.2.2.isEmpty
  | .extended none _ => true
  | _ => false

/-! ## which requests the API can express and does not refuse

The numeric arguments are `i32`s (`SearchOptions::{sizelimit, timelimit}`, `RequestId`). -/

def I32 (v : Int) : Prop := -2147483648 ≤ v ∧ v ≤ 2147483647

def InRange : Request → Prop
  | .search _ _ _ sizeLimit timeLimit _ _ _ => I32 sizeLimit ∧ I32 timeLimit
  | .abandon id => I32 id
  | _ => True

/-- not refused locally, numbers in the range of their Rust types -/
def WFReq (r : Request) : Prop := mustReject r = false ∧ InRange r

instance (v : Int) : Decidable (I32 v) := by unfold I32; infer_instance
instance (r : Request) : Decidable (InRange r) := by cases r <;> unfold InRange <;> infer_instance
instance (r : Request) : Decidable (WFReq r) := by unfold WFReq; infer_instance

/-! ## side conditions of the byte-level statement

The filter element is arbitrary at this level; to be written and parsed back it must use classes 0..3
and low tag numbers throughout (every RFC 4511 filter does: context tags 0..9 and universal types),
and must not nest deeper than lber's parser accepts (`MAX_DEPTH` = 64 including the two levels of
LDAPMessage and SearchRequest around it). -/

mutual
def lowTags : Tlv → Bool
  | .prim c i _ => decide (c < 4) && decide (i ≤ 30)
  | .cons c i ks => decide (c < 4) && decide (i ≤ 30) && lowTagsList ks
def lowTagsList : List Tlv → Bool
  | [] => true
  | t :: ts => lowTags t && lowTagsList ts
end

def FilterOk : Request → Prop
  | .search _ _ _ _ _ _ filter _ => lowTags filter = true ∧ filter.depth ≤ 62
  | _ => True

instance (r : Request) : Decidable (FilterOk r) := by cases r <;> unfold FilterOk <;> infer_instance

/-! ## the one-shot law

"Controls, timeout and search options set on a handle affect exactly the next operation invoked on it
and none after it."  Stated on the call script alone: the value of a modifier *pending* on handle `h`
after a prefix of calls is found by looking backwards from the end of the prefix for the most recent
call which either sets that modifier on `h`, or invokes an operation on `h` (which uses the modifiers
up, whatever its outcome), or creates `h` as a clone (a clone starts without modifiers).

`consumes r` says whether invoking `r` uses the modifiers up.  The law of the property is
`consumes = fun _ => true` (`expectedWire`, `pendingAfter`).  The same definitions with
`consumesUnlessPanic` describe what happens in scripts which contain a panicking call. -/

/-- does call `c` end the life of whatever was pending on `h`? -/
def resets (consumes : Request → Bool) (h : Nat) : HandleCall → Bool
  | .op h' r => h' == h && consumes r
  | .searchBadFilter h' => h' == h
  | .clone _ dst => dst == h
  | _ => false

/-- pending value of the modifier selected by `set` on handle `h`; `pre` = the calls so far, most
recent first -/
def pending {α : Type} (consumes : Request → Bool) (set : HandleCall → Option (Nat × α)) (h : Nat) :
    List HandleCall → Option α
  | [] => none
  | c :: older =>
    match set c with
    | some (h', v) => if h' = h then some v else pending consumes set h older
    | none => if resets consumes h c then none else pending consumes set h older

def setsControls : HandleCall → Option (Nat × List RawControl)
  | .withControls h cs => some (h, cs)
  | _ => none

def setsTimeout : HandleCall → Option (Nat × Nat)
  | .withTimeout h t => some (h, t)
  | _ => none

def setsSearchOpts : HandleCall → Option (Nat × SearchOpts)
  | .withSearchOptions h o => some (h, o)
  | _ => none

/-- all three pending modifiers of `h` -/
def pendingHandle (consumes : Request → Bool) (h : Nat) (pre : List HandleCall) : Handle :=
  { controls := pending consumes setsControls h pre,
    timeout := pending consumes setsTimeout h pre,
    searchOpts := pending consumes setsSearchOpts h pre }

/-- the messages the remaining calls `rest` put on the wire, after the calls `pre` (most recent
first) which issued `issued` messages: an operation that must fail locally sends nothing; any
other is the next message, with ID = its ordinal number (fresh connection), carrying the controls
and timeout pending on its handle; a Search takes the pending search options (or the defaults), any
other operation ignores them. -/
def expectedFrom (consumes : Request → Bool) (pre : List HandleCall) (issued : Nat) :
    List HandleCall → List Sent
  | [] => []
  | c :: rest =>
    match c with
    | .op h r =>
      if mustReject r then expectedFrom consumes (c :: pre) issued rest
      else
        let o := match pending consumes setsSearchOpts h pre with | some o => o | none => SearchOpts.default
        ⟨issued + 1, r.withOpts o, pending consumes setsControls h pre, pending consumes setsTimeout h pre⟩ ::
          expectedFrom consumes (c :: pre) (issued + 1) rest
    | _ => expectedFrom consumes (c :: pre) issued rest

/-- THE LAW: every invoked operation uses the modifiers up -/
def expectedWire (calls : List HandleCall) : List Sent := expectedFrom (fun _ => true) [] 0 calls

/-- what is still pending on handle `h` after the whole script -/
def pendingAfter (calls : List HandleCall) (h : Nat) : Handle := pendingHandle (fun _ => true) h calls.reverse

/-- An `Exop` without a name violates the caller contract of `extended` ("when sending an extended
request, name must not be None"); the call panics.  Such calls are outside the law: it is stated for
scripts without them (`NoNamelessExop`). -/
def panics : Request → Bool
  | .extended none _ => true
  | _ => false

/-- the reading which also covers scripts with such calls (a caller that catches the unwind): the
panicking call leaves the modifiers pending; everything else uses them up -/
def consumesUnlessPanic (r : Request) : Bool := !panics r

def namedExop : HandleCall → Bool
  | .op _ r => !panics r
  | _ => true

/-- every `extended` call of the script carries a named `Exop` -/
def NoNamelessExop (calls : List HandleCall) : Prop := ∀ c ∈ calls, namedExop c = true

instance (calls : List HandleCall) : Decidable (NoNamelessExop calls) := by unfold NoNamelessExop; infer_instance

end Ldap3V.Spec

/-
C11: which byte strings the frame decoder turns into a frame — stated without reference to
`decode_inner`.

RFC 4511 §4.1.1:
  LDAPMessage ::= SEQUENCE {
       messageID       MessageID,                  -- INTEGER (0 .. maxInt)
       protocolOp      CHOICE { bindRequest …, … },
       controls        [0] Controls OPTIONAL }
`IsEnvelope t id op cs` says that the element `t` has this shape *as the code accepts it* and that
`id`, `op`, `cs` are the message ID, the protocolOp element and the controls it carries.  The
liberties the code takes with the RFC are numbered L1–L7 below; each is a place where `IsEnvelope`
is wider (or, L6, narrower) than the ASN.1.

The BER layer below the envelope (which octets make a complete element) is `Spec.Enc` (strict
X.690 definite-length, Spec/Ber.lean) and, for the outer header alone, `LenRead` / `OuterArrived`
here: the length octets as lber reads them.
-/
import Ldap3V.Model.Controls
import Ldap3V.Spec.Ber
namespace Ldap3V.Spec
open Ldap3V

/-- `l` are length octets that lber reads as the length `n`: the short form, or `0x80 + k`
followed by exactly `k` octets, `0 ≤ k ≤ 127`, read big-endian into a `u64`.
Wider than X.690 §8.1.3 (`Spec.LenEnc`) in three ways: `k = 0` (the octet `0x80`, which X.690 uses
for the indefinite form) is read as length 0; `k = 127` (`0xFF`, reserved) is accepted; more than
eight significant octets wrap modulo 2^64. -/
def LenRead (n : Nat) (l : Bytes) : Prop :=
  (∃ b : UInt8, b.toNat < 128 ∧ l = [b] ∧ n = b.toNat) ∨
  (∃ (b : UInt8) (ds : Bytes), 128 ≤ b.toNat ∧ ds.length = b.toNat - 128 ∧ l = b :: ds ∧
    n = beVal ds % 18446744073709551616)

/-- the outer element has arrived: an identifier octet, complete length octets, and at least as
many further octets as they announce (`extra`: whatever follows — the next message) -/
def OuterArrived (bs : Bytes) : Prop :=
  ∃ (hdr : UInt8) (l content extra : Bytes), bs = hdr :: (l ++ content ++ extra) ∧ LenRead content.length l

/-- `t` is a messageID element read as `id`.
L4: UNIVERSAL 2 primitive is required, but the content octets are read as an *unsigned* big-endian
number of any length (also none: 0) of which the low 32 bits are kept as an `i32`
(`parse_uint(..) as i32`): `id` is the representative in `-2^31 .. 2^31-1` of that number modulo
2^32.  For the RFC's range `0 .. 2^31-1` in its minimal (or zero-padded) encoding this is the
value itself (`isMsgId_small`). -/
def IsMsgId (t : Tlv) (id : Int) : Prop :=
  ∃ v, t = .prim 0 2 v ∧ -2147483648 ≤ id ∧ id < 2147483648 ∧ ((beVal v : Int) - id) % 4294967296 = 0

/-- the LDAPMessage envelope as `decode_inner` accepts it.

* L1  the outer element must be constructed with tag number 16; its class is not checked.
* L2  the components are taken from the END of the SEQUENCE; whatever precedes the messageID
      (`pre`) is ignored.
* L3  the protocolOp is not checked at all here (any class, number, primitive or constructed): the
      CHOICE is resolved later, per operation (C04 / C12).
* L4  messageID: see `IsMsgId`.
* L5  `adTrailer`: a last element `[CONTEXT 10]` (primitive or constructed) is dropped — the work-
      around for Active Directory's Notice of Disconnection, which puts the responseName outside
      the ExtendedResponse.
* L6  narrower than a reader that ignores unknown trailing elements: a last element `[CONTEXT 0]`
      is always taken for the controls, so it must be constructed and `parse_controls` must
      accept it, and a `[CONTEXT 0]` / `[CONTEXT 10]` element can be the protocolOp only when
      something follows it.
* L7  controls: what `parse_controls` accepts (characterised in C19: `C19_controls_all_forms`). -/
inductive IsEnvelope : Tlv → Int → Tlv → List Control → Prop where
  | plain (c : Nat) (pre : List Tlv) (idt op : Tlv) (id : Int) :
      IsMsgId idt id → ¬ (op.cls = 2 ∧ (op.id = 0 ∨ op.id = 10)) →
      IsEnvelope (.cons c 16 (pre ++ [idt, op])) id op []
  | withControls (c : Nat) (pre : List Tlv) (idt op ctl : Tlv) (id : Int) (cs : List Control) :
      IsMsgId idt id → ctl.cls = 2 → ctl.id = 0 → ctl.isCons = true → parseControls ctl = some cs →
      IsEnvelope (.cons c 16 (pre ++ [idt, op, ctl])) id op cs
  | adTrailer (c : Nat) (pre : List Tlv) (idt op x : Tlv) (id : Int) :
      IsMsgId idt id → x.cls = 2 → x.id = 10 →
      IsEnvelope (.cons c 16 (pre ++ [idt, op, x])) id op []

end Ldap3V.Spec

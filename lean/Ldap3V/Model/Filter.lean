/-
Model of src/filter.rs as written at /repo HEAD: the nom-7 ("complete") parser of RFC 4515 filter
strings, re-implemented combinator by combinator.  Core Lean only, total, computable.

nom semantics modelled (nom 7.1.3, `complete` flavour, no `cut`, so the only error is `Err::Error`):
* a parser is `Bytes → Res α` with `ok a rest | err | panic` (`panic` = a Rust panic unwinding through
  every combinator; the three places of filter.rs that could panic return it explicitly);
* `alt` = ordered choice, the next branch is tried only on `err`;
* `many0 / many1 / fold_many0` stop at the first `err` of the element parser, and fail with `err`
  when the element parser succeeds without consuming (the "infinite loop check": nom tests
  `rest.len() == input.len()`, the model `¬ rest.len() < input.len()`, the same thing for parsers that
  return a suffix of their input); the loop is a recursion on a fuel argument initialised to
  `|input| + 1`, which the completeness theorems show is never the reason for a rejection;
* `map_res / verify` turn a rejection into `err`; `opt`, `peek`, `recognize`, `preceded`,
  `terminated`, `delimited`, `tag`, `tag_no_case`, `take_while`, `take_while1`, `digit1`, `be_u8` as in nom.
-/
import Ldap3V.Model.Unescaper
namespace Ldap3V.Filter

/-- `IResult<&[u8], α>` of a nom-complete parser, plus `panic` -/
inductive Res (α : Type) where
  | ok (a : α) (rest : Bytes)
  | err
  | panic
  deriving Repr

abbrev P (α : Type) := Bytes → Res α

/-! ## nom combinators -/

def ret {α : Type} (a : α) : P α := fun i => .ok a i
def failP {α : Type} : P α := fun _ => .err

/-- sequencing: `let (i, a) = p(i)?; f(a)(i)` -/
def andThen {α β : Type} (p : P α) (f : α → P β) : P β := fun i =>
  match p i with
  | .ok a r => f a r
  | .err => .err
  | .panic => .panic

/-- `tag(t)` (complete): the input starts with `t` -/
def tag (t : Bytes) : P Bytes := fun i =>
  if t.isPrefixOf i then .ok t (i.drop t.length) else .err

/-- `lowercase_byte` of nom's `compare_no_case`: ASCII upper-case letters only -/
def lowercaseByte (c : UInt8) : UInt8 :=
  if 0x41 ≤ c.toNat && c.toNat ≤ 0x5A then c - 0x41 + 0x61 else c

/-- `compare_no_case(t) == CompareResult::Ok`: no position of the zip differs after lower-casing
and the input is at least as long as the tag -/
def eqNoCase : Bytes → Bytes → Bool
  | [], _ => true
  | _ :: _, [] => false
  | a :: t, b :: i => lowercaseByte b == lowercaseByte a && eqNoCase t i

/-- `tag_no_case(t)` (complete); the output is the slice of the *input* -/
def tagNoCase (t : Bytes) : P Bytes := fun i =>
  if eqNoCase t i then .ok (i.take t.length) (i.drop t.length) else .err

/-- `alt((p, q))`: `q` is tried only when `p` returns `Err::Error` -/
def alt {α : Type} (p q : P α) : P α := fun i =>
  match p i with
  | .err => q i
  | r => r

def opt {α : Type} (p : P α) : P (Option α) := fun i =>
  match p i with
  | .ok a r => .ok (some a) r
  | .err => .ok none i
  | .panic => .panic

def peek {α : Type} (p : P α) : P α := fun i =>
  match p i with
  | .ok a _ => .ok a i
  | .err => .err
  | .panic => .panic

def mapP {α β : Type} (p : P α) (f : α → β) : P β := andThen p fun a => ret (f a)
def preceded {α β : Type} (p : P α) (q : P β) : P β := andThen p fun _ => q
def terminated {α β : Type} (p : P α) (q : P β) : P α := andThen p fun a => andThen q fun _ => ret a
def delimited {α β γ : Type} (p : P α) (q : P β) (r : P γ) : P β :=
  andThen p fun _ => andThen q fun b => andThen r fun _ => ret b

/-- `map_res(p, f)`: `Err(_)` of the closure becomes `Err::Error` -/
def mapRes {α β : Type} (p : P α) (f : α → Option β) : P β := andThen p fun a =>
  match f a with
  | some b => ret b
  | none => failP

def verify {α : Type} (p : P α) (c : α → Bool) : P α := andThen p fun a => if c a then ret a else failP

/-- `verify` with a predicate that may panic (`none`) -/
def verifyP {α : Type} (p : P α) (c : α → Option Bool) : P α := andThen p fun a => fun i =>
  match c a with
  | some true => .ok a i
  | some false => .err
  | none => .panic

/-- `recognize(p)`: the consumed slice -/
def recognize {α : Type} (p : P α) : P Bytes := fun i =>
  match p i with
  | .ok _ r => .ok (i.take (i.length - r.length)) r
  | .err => .err
  | .panic => .panic

/-- `number::complete::be_u8` -/
def beU8 : P UInt8
  | [] => .err
  | c :: r => .ok c r

def takeWhile (c : UInt8 → Bool) : P Bytes := fun i => .ok (i.takeWhile c) (i.dropWhile c)

def takeWhile1 (c : UInt8 → Bool) : P Bytes := fun i =>
  if (i.takeWhile c).isEmpty then .err else .ok (i.takeWhile c) (i.dropWhile c)

/-- the loop shared by `many0` and `many1`; fuel `> |i|` is never exhausted -/
def many0Go {α : Type} (p : P α) : Nat → Bytes → Res (List α)
  | 0, _ => .err
  | n + 1, i =>
    match p i with
    | .err => .ok [] i
    | .panic => .panic
    | .ok o i1 =>
      if i1.length < i.length then
        match many0Go p n i1 with
        | .ok os r => .ok (o :: os) r
        | .err => .err
        | .panic => .panic
      else .err            -- infinite loop check: the parser must always consume

def many0 {α : Type} (p : P α) : P (List α) := fun i => many0Go p (i.length + 1) i

/-- `many1`: the first application is not subject to the progress check -/
def many1 {α : Type} (p : P α) : P (List α) := fun i =>
  match p i with
  | .err => .err
  | .panic => .panic
  | .ok o i1 =>
    match many0Go p (i1.length + 1) i1 with
    | .ok os r => .ok (o :: os) r
    | .err => .err
    | .panic => .panic

def foldMany0Go {α β : Type} (p : P α) (g : β → α → β) : Nat → Bytes → β → Res β
  | 0, _, _ => .err
  | n + 1, i, acc =>
    match p i with
    | .err => .ok acc i
    | .panic => .panic
    | .ok o i1 => if i1.length < i.length then foldMany0Go p g n i1 (g acc o) else .err

def foldMany0 {α β : Type} (p : P α) (init : β) (g : β → α → β) : P β := fun i =>
  foldMany0Go p g (i.length + 1) i init

/-! ## character classes (nom::character) -/

def isAlpha (c : UInt8) : Bool :=
  (0x41 ≤ c.toNat && c.toNat ≤ 0x5A) || (0x61 ≤ c.toNat && c.toNat ≤ 0x7A)
def isDigit (c : UInt8) : Bool := 0x30 ≤ c.toNat && c.toNat ≤ 0x39
def isAlnum (c : UInt8) : Bool := isAlpha c || isDigit c
/-- `is_alnum_hyphen` -/
def isAlnumHyphen (c : UInt8) : Bool := isAlnum c || c == 0x2D
/-- `is_value_char`: not NUL `(` `)` `*` -/
def isValueChar (c : UInt8) : Bool := c != 0 && c != 0x28 && c != 0x29 && c != 0x2A

def digit1 : P Bytes := takeWhile1 isDigit

/-! ## attribute descriptions -/

/-- `number`: `verify(digit1, |d| d.len() == 1 || d[0] != b'0')`; `d[0]` on an empty slice would
panic (`digit1` never returns one) -/
def number : P Bytes := verifyP digit1 fun d =>
  if d.length == 1 then some true
  else match d with
    | c :: _ => some (c != 0x30)
    | [] => none

def numericoid : P Bytes :=
  recognize (andThen number fun _ => andThen (many0 (preceded (tag [0x2E]) number)) fun _ => ret ())

def descr : P Bytes :=
  recognize (andThen (verify beU8 isAlpha) fun _ => andThen (takeWhile isAlnumHyphen) fun _ => ret ())

def attributetype : P Bytes := alt numericoid descr

def attributedescription : P Bytes :=
  recognize (andThen attributetype fun _ =>
    andThen (many0 (preceded (tag [0x3B]) (takeWhile1 isAlnumHyphen))) fun _ => ret ())

/-! ## assertion values -/

/-- the closure of `fold_many0` in `unescaped` -/
def unescStep (s : Unescaper × Bytes) (c : UInt8) : Unescaper × Bytes :=
  match s.1.feed c with
  | .value c' => (.value c', s.2 ++ [c'])
  | u => (u, s.2)

def unescaped : P Bytes :=
  mapRes (foldMany0 (verify beU8 isValueChar) (Unescaper.value 0, []) unescStep)
    fun s => match s.1 with
      | .value _ => some s.2
      | _ => none

/-! ## items -/

def octets (v : Bytes) : Tag := .octetString 0 4 v

/-- `filtertag`; `none` = `unimplemented!()` -/
def filtertag (op : Bytes) : Option Nat :=
  if op = [0x3E, 0x3D] then some 5          -- ">=" GTE_MATCH
  else if op = [0x3C, 0x3D] then some 6     -- "<=" LTE_MATCH
  else if op = [0x7E, 0x3D] then some 8     -- "~=" APPROX_MATCH
  else none

def nonEq : P Tag :=
  andThen attributedescription fun attr =>
  andThen (alt (tag [0x3E, 0x3D]) (alt (tag [0x3C, 0x3D]) (tag [0x7E, 0x3D]))) fun op =>
  andThen unescaped fun value => fun i =>
    match filtertag op with
    | some id => .ok (.sequence 2 id [octets attr, octets value]) i
    | none => .panic

/-- the `fold` of the `map_res` closure in `eq`: some element other than the last is empty -/
def midBad (len : Nat) : Nat → List Bytes → Bool
  | _, [] => false
  | n, ve :: r => (ve.isEmpty && n + 1 != len) || midBad len (n + 1) r

/-- the `for (i, sub_elem) in mid_final.into_iter().enumerate()` loop of `eq` -/
def subLoop (n : Nat) : Nat → List Bytes → List Tag
  | _, [] => []
  | i, e :: es =>
    if e.isEmpty then []
    else .octetString 2 (if i + 1 != n then 1 else 2) e :: subLoop n (i + 1) es

/-- the tag built by `eq`; `none` = index panic at `mid_final[0]` (guarded by `len() == 1`) -/
def eqTag (attr initial : Bytes) (mf : List Bytes) : Option Tag :=
  if mf.isEmpty then some (.sequence 2 3 [octets attr, octets initial])
  else
    let pres : Option Bool :=
      if initial.isEmpty && mf.length == 1 then
        match mf with
        | e :: _ => some e.isEmpty
        | [] => none
      else some false
    match pres with
    | none => none
    | some true => some (.octetString 2 7 attr)
    | some false =>
      let inner0 : List Tag := if !initial.isEmpty then [.octetString 2 0 initial] else []
      some (.sequence 2 4 [octets attr, .sequence 0 16 (inner0 ++ subLoop mf.length 0 mf)])

def eq : P Tag :=
  andThen attributedescription fun attr =>
  andThen (tag [0x3D]) fun _ =>
  andThen unescaped fun initial =>
  andThen (mapRes (many0 (preceded (tag [0x2A]) unescaped))
    fun v => if midBad v.length 0 v then none else some v) fun midFinal => fun i =>
    match eqTag attr initial midFinal with
    | some t => .ok t i
    | none => .panic

def extensibleTag (mrule attr : Option Bytes) (value : Bytes) (dn : Bool) : Tag :=
  .sequence 2 9
    ((match mrule with | some m => [Tag.octetString 2 1 m] | none => []) ++
     (match attr with | some a => [Tag.octetString 2 2 a] | none => []) ++
     [Tag.octetString 2 3 value] ++
     (if dn then [Tag.boolean 2 4 dn] else []))

def attrDnMrule : P Tag :=
  andThen attributedescription fun attr =>
  andThen (opt (terminated (tagNoCase [0x3A, 0x64, 0x6E]) (peek (tag [0x3A])))) fun dn =>
  andThen (opt (preceded (tag [0x3A]) attributetype)) fun mrule =>
  andThen (tag [0x3A, 0x3D]) fun _ =>
  andThen unescaped fun value =>
  ret (extensibleTag mrule (some attr) value dn.isSome)

def dnMrule : P Tag :=
  andThen (opt (terminated (tagNoCase [0x3A, 0x64, 0x6E]) (peek (preceded (tag [0x3A]) attributetype)))) fun dn =>
  andThen (preceded (tag [0x3A]) attributetype) fun mrule =>
  andThen (tag [0x3A, 0x3D]) fun _ =>
  andThen unescaped fun value =>
  ret (extensibleTag (some mrule) none value dn.isSome)

def extensible : P Tag := alt attrDnMrule dnMrule

def item : P Tag := alt eq (alt nonEq extensible)

/-! ## boolean structure -/

def andF (flt : P Tag) : P Tag := mapP (preceded (tag [0x26]) (many0 flt)) fun ts => .sequence 2 0 ts
def orF (flt : P Tag) : P Tag := mapP (preceded (tag [0x7C]) (many0 flt)) fun ts => .sequence 2 1 ts
def notF (flt : P Tag) : P Tag := mapP (preceded (tag [0x21]) flt) fun t => .explicit 2 2 t

/-- `filtercomp`, given the parser for the recursive occurrences of `filter` -/
def filtercomp (flt : P Tag) : P Tag := alt (andF flt) (alt (orF flt) (alt (notF flt) item))

/-- `filter`, by recursion on fuel (`> |i|` is never exhausted: each level consumes a `(`) -/
def filter : Nat → P Tag
  | 0 => fun _ => .err
  | n + 1 => delimited (tag [0x28]) (filtercomp (filter n)) (tag [0x29])

def filtexpr : P Tag := fun i => alt (filter (i.length + 1)) item i

def mvFilteritems : P (List Tag) := many1 (delimited (tag [0x28]) item (tag [0x29]))
def mvFilterlist : P Tag := mapP mvFilteritems fun ts => Tag.seq ts
def mvFiltexpr : P Tag := delimited (tag [0x28]) mvFilterlist (tag [0x29])

/-- result of the public entry points: `Ok(tag)`, `Err(())`, or a panic -/
inductive Outcome where
  | ok (t : Tag)
  | reject
  | panic

def finish (r : Res Tag) : Outcome :=
  match r with
  | .ok t rest => if rest.isEmpty then .ok t else .reject
  | .err => .reject
  | .panic => .panic

/-- the grammar run to the end of the input: `filtexpr(input)` and the test `r.is_empty()` of `filter::parse` -/
def parseCoreO (i : Bytes) : Outcome := finish (filtexpr i)
/-- `filter::parse_matched_values` -/
def parseMvO (i : Bytes) : Outcome := finish (mvFiltexpr i)

def Outcome.toOption : Outcome → Option Tag
  | .ok t => some t
  | _ => none

def parseCore (i : Bytes) : Option Tag := (parseCoreO i).toOption

/-- `MAX_NESTING` -/
def maxNesting : Nat := 128

/-- the loop of `nesting_within_limit`, from depth `d`: every `(` opens a level (refused beyond
`MAX_NESTING`), every `)` closes one (`saturating_sub`) -/
def nestingGo : Nat → Bytes → Bool
  | _, [] => true
  | d, c :: r =>
    if c = 0x28 then (if d + 1 > maxNesting then false else nestingGo (d + 1) r)
    else if c = 0x29 then nestingGo (d - 1) r
    else nestingGo d r

/-- `nesting_within_limit` -/
def nestingWithinLimit (i : Bytes) : Bool := nestingGo 0 i

/-- `ldap3::parse_filter` (`filter::parse`): the nesting guard, then the grammar -/
def parseO (i : Bytes) : Outcome := if nestingWithinLimit i then parseCoreO i else .reject

def parse (i : Bytes) : Option Tag := (parseO i).toOption
def parseMatchedValues (i : Bytes) : Option Tag := (parseMvO i).toOption

end Ldap3V.Filter

/-
Model of the `lber` crate (lber/src/{parse,write,structure}.rs, structures/*.rs) as it is
written at /repo HEAD (after the `fix:` commits: depth limit, inner-overrun = error,
two's-complement integer octets).  Core Lean only, total, computable.
-/
namespace Ldap3V

abbrev Bytes := List UInt8

/-- `lber::structure::StructureTag`: class (0..3), tag number, primitive or constructed payload. -/
inductive Tlv where
  | prim (cls : Nat) (id : Nat) (val : Bytes)
  | cons (cls : Nat) (id : Nat) (kids : List Tlv)
  deriving Repr, Inhabited

namespace Tlv
def cls : Tlv → Nat | prim c _ _ => c | cons c _ _ => c
def id : Tlv → Nat | prim _ i _ => i | cons _ i _ => i
def isCons : Tlv → Bool | prim .. => false | cons .. => true
/-- `expect_primitive` -/
def expectPrim : Tlv → Option Bytes | prim _ _ v => some v | cons .. => none
/-- `expect_constructed` -/
def expectCons : Tlv → Option (List Tlv) | prim .. => none | cons _ _ k => some k
end Tlv

mutual
def Tlv.beq : Tlv → Tlv → Bool
  | .prim c i v, .prim c' i' v' => c == c' && i == i' && v == v'
  | .cons c i k, .cons c' i' k' => c == c' && i == i' && Tlv.beqList k k'
  | _, _ => false
def Tlv.beqList : List Tlv → List Tlv → Bool
  | [], [] => true
  | a :: as, b :: bs => Tlv.beq a b && Tlv.beqList as bs
  | _, _ => false
end

/-! ## Writer (lber/src/write.rs) -/

/-- minimal big-endian base-256 digits; `be256 0 = [0]` -/
def be256 (n : Nat) : Bytes :=
  if h : n < 256 then [n.toUInt8] else be256 (n / 256) ++ [(n % 256).toUInt8]
termination_by n
decreasing_by omega

/-- `write_length` (exact for `n < 2^64`, i.e. every `usize`) -/
def encLen (n : Nat) : Bytes :=
  if n < 128 then [n.toUInt8]
  else (0x80 + (be256 n).length).toUInt8 :: be256 n

/-- base-128 digits, least significant first (the `tagbytes` vector of `write_type`) -/
def le128 (n : Nat) : List Nat :=
  if _h : n = 0 then [] else (n % 128) :: le128 (n / 128)
termination_by n
decreasing_by omega

/-- `write_type`: identifier octet(s); high-tag-number form for `id > 30` -/
def encType (cls : Nat) (constructed : Bool) (id : Nat) : Bytes :=
  let pc := if constructed then 32 else 0
  if id > 30 then
    let body := match le128 id with
      | [] => []
      | d0 :: hi => (hi.reverse.map fun d => (d + 128).toUInt8) ++ [d0.toUInt8]
    (cls * 64 + pc + 31).toUInt8 :: body
  else [(cls * 64 + pc + id).toUInt8]

mutual
/-- `encode_inner` -/
def encode : Tlv → Bytes
  | .prim c i v => encType c false i ++ encLen v.length ++ v
  | .cons c i ks => encType c true i ++ encLen (encodeList ks).length ++ encodeList ks
def encodeList : List Tlv → Bytes
  | [] => []
  | t :: ts => encode t ++ encodeList ts
end

/-! ## Parser (lber/src/parse.rs) -/

/-- nom streaming outcome: `Ok((rest, a))`, `Err(Incomplete)`, `Err(Error | Failure)` -/
inductive PR (α : Type) where
  | ok (a : α) (rest : Bytes)
  | incomplete
  | error
  deriving Repr

/-- `parse_uint`: `fold(0, |res, b| (res << 8) | b)` on `u64` (wraps) -/
def parseUint (bs : Bytes) : Nat :=
  bs.foldl (fun r b => (r * 256 + b.toNat) % 18446744073709551616) 0

/-- `parse_length` (0x80 is read as length 0; more than 8 length octets wrap) -/
def parseLen : Bytes → PR Nat
  | [] => .incomplete
  | b :: rest =>
    if b.toNat < 128 then .ok b.toNat rest
    else
      let k := b.toNat - 128
      if rest.length < k then .incomplete
      else .ok (parseUint (rest.take k)) (rest.drop k)

/-- `MAX_DEPTH` of lber/src/parse.rs -/
def maxDepth : Nat := 64

mutual
/-- `parse_tag_inner(i, depth)`; structural on `fuel` (`fuel > |i|` suffices). -/
def pTag : Nat → Nat → Bytes → PR Tlv
  | 0, _, _ => .error
  | fuel + 1, depth, i =>
    match i with
    | [] => .incomplete
    | b :: i1 =>
      let cls := b.toNat / 64
      let constructed := (b.toNat / 32) % 2 == 1
      let id := b.toNat % 32
      match parseLen i1 with
      | .incomplete => .incomplete
      | .error => .error
      | .ok len i2 =>
        if i2.length < len then .incomplete
        else
          let content := i2.take len
          let rest := i2.drop len
          if constructed then
            if depth ≥ maxDepth then .error
            else match pKids fuel (depth + 1) content with
              | .ok kids _ => .ok (.cons cls id kids) rest
              | _ => .error            -- Incomplete inside complete content is an error (fix F3)
          else .ok (.prim cls id content) rest
/-- the `while content.input_len() > 0` loop -/
def pKids : Nat → Nat → Bytes → PR (List Tlv)
  | 0, _, _ => .error
  | fuel + 1, depth, c =>
    match c with
    | [] => .ok [] []
    | _ :: _ =>
      match pTag fuel depth c with
      | .ok t r =>
        (match pKids fuel depth r with
         | .ok ts _ => .ok (t :: ts) []
         | .incomplete => .incomplete
         | .error => .error)
      | .incomplete => .incomplete
      | .error => .error
end

/-- `parse_tag` -/
def parseTag (i : Bytes) : PR Tlv := pTag (i.length + 1) 0 i

/-- `Parser::parse`: empty input is `Incomplete` -/
def parseTop (i : Bytes) : PR Tlv := parseTag i

/-! ## Typed tags (lber/src/structures) -/

/-- the `k` low-order base-256 digits of `n`, most significant first -/
def toBEk : Nat → Nat → Bytes
  | 0, _ => []
  | k + 1, n => toBEk k (n / 256) ++ [(n % 256).toUInt8]

/-- big-endian 8 octets of `n mod 2^64` (`i64::to_be_bytes` of the two's complement) -/
def toBE8 (n : Nat) : Bytes := toBEk 8 n

/-- the `while count > 1 && inner >> (8*(count-1)-1) == inner >> 63` loop, from `count` -/
def intCount (v : Int) : Nat → Nat
  | 0 => 1
  | 1 => 1
  | c + 2 => if v >>> (8 * (c + 1) - 1) = v >>> 63 then intCount v (c + 1) else c + 2

/-- content octets of `Integer`/`Enumerated::into_structure` for an `i64` value `v` -/
def intOctets (v : Int) : Bytes :=
  (toBE8 (v % 18446744073709551616).toNat).drop (8 - intCount v 8)

def boolOctet (b : Bool) : Bytes := if b then [0xFF] else [0x00]

/-- `lber::structures::Tag` (the typed front end used by ldap3 to build requests) -/
inductive Tag where
  | integer (cls id : Nat) (v : Int)
  | enumerated (cls id : Nat) (v : Int)
  | sequence (cls id : Nat) (inner : List Tag)
  | set (cls id : Nat) (inner : List Tag)
  | octetString (cls id : Nat) (v : Bytes)
  | boolean (cls id : Nat) (b : Bool)
  | null (cls id : Nat)
  | explicit (cls id : Nat) (inner : Tag)
  | structure (t : Tlv)

mutual
/-- `ASNTag::into_structure` -/
def Tag.toTlv : Tag → Tlv
  | .integer c i v => .prim c i (intOctets v)
  | .enumerated c i v => .prim c i (intOctets v)
  | .sequence c i ts => .cons c i (Tag.toTlvList ts)
  | .set c i ts => .cons c i (Tag.toTlvList ts)
  | .octetString c i v => .prim c i v
  | .boolean c i b => .prim c i (boolOctet b)
  | .null c i => .prim c i []
  | .explicit c i t => .cons c i [Tag.toTlv t]
  | .structure t => t
def Tag.toTlvList : List Tag → List Tlv
  | [] => []
  | t :: ts => Tag.toTlv t :: Tag.toTlvList ts
end

/-- universal defaults -/
def Tag.int (v : Int) : Tag := .integer 0 2 v
def Tag.enum (v : Int) : Tag := .enumerated 0 10 v
def Tag.seq (ts : List Tag) : Tag := .sequence 0 16 ts
def Tag.setOf (ts : List Tag) : Tag := .set 0 17 ts
def Tag.octets (v : Bytes) : Tag := .octetString 0 4 v
def Tag.bool (b : Bool) : Tag := .boolean 0 1 b

mutual
/-- nesting depth of constructed values: a primitive has depth 0 -/
def Tlv.depth : Tlv → Nat
  | .prim .. => 0
  | .cons _ _ ks => 1 + Tlv.depthList ks
def Tlv.depthList : List Tlv → Nat
  | [] => 0
  | t :: ts => max (Tlv.depth t) (Tlv.depthList ts)
end

end Ldap3V

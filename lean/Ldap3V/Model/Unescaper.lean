/-
`Unescaper` of src/filter.rs (shared by the filter parser's `unescaped` and by
`util::ldap_unescape`): the `\hh` state machine.
-/
import Ldap3V.Model.Ber
namespace Ldap3V

inductive Unescaper where
  | wantFirst
  | wantSecond (partial_ : UInt8)
  | value (c : UInt8)
  | error
  deriving Repr, DecidableEq

/-- `nom::character::is_hex_digit` -/
def isHexDigit (c : UInt8) : Bool :=
  (0x30 ≤ c.toNat && c.toNat ≤ 0x39) || (0x41 ≤ c.toNat && c.toNat ≤ 0x46) || (0x61 ≤ c.toNat && c.toNat ≤ 0x66)

/-- `c - if c <= b'9' { b'0' } else { (c & 0x20) + b'A' - 10 }` for a hex digit `c` -/
def hexNibble (c : UInt8) : UInt8 :=
  if c.toNat ≤ 0x39 then c - 0x30 else c - ((c &&& 0x20) + 0x41 - 10)

/-- `Unescaper::feed` -/
def Unescaper.feed (u : Unescaper) (c : UInt8) : Unescaper :=
  match u with
  | .error => .error
  | .wantFirst => if isHexDigit c then .wantSecond (hexNibble c) else .error
  | .wantSecond p => if isHexDigit c then .value ((p <<< 4) + hexNibble c) else .error
  | .value _ => if c != 0x5C then .value c else .wantFirst

end Ldap3V

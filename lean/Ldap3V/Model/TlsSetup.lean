/-
Model of TLS establishment in `LdapConnAsync::new_tcp` (src/conn.rs, the `"ldaps" | "starttls"` arm)
as written at /repo HEAD, with src/exop_impl/starttls.rs, the single-operation driver turn
(`single_op` = `turn(LoopMode::SingleOp)`), the tail of `Ldap::op_call` and `ExopResult::success`.

Code order mirrored here (native-tls build):

    scheme = "ldap" (no StartTLS) | "starttls" (ldap + settings.starttls) | "ldaps" (starttls forced off)
    (conn, ldap) = conn_pair(ConnType::Tcp(stream))                 -- has_tls: false, fresh Framed
    "ldap"      => return Ok((conn, ldap))
    "starttls"  => spawn(conn.single_op(tx));
                   try_join!(rx, ldap.extended(StartTLS))            -- see `startTls` below
                   conn = conn_res?;  res.success()?;                -- rc != 0 => Err(LdapResult)
    both        => parts = conn.stream.into_parts();                 -- parts.read_buf is DROPPED
                   tls = create_tls_stream(settings, hostname, parts.io).await?   -- Err => NativeTLS
                   conn.stream = parts.codec.framed(ConnType::Tls(tls));          -- fresh, empty buffers
                   ldap.has_tls = true;  Ok((conn, ldap))

The single-operation turn: the `select!` loop takes the queued op, writes it (`stream.send` flushes),
registers it in `resultmap` and `continue`s (so the `SingleOp` exit after the `select!` is skipped);
the next `select!` event is the socket: `Framed::poll_next` reads until ONE frame decodes and returns
it; the turn routes that one frame and then leaves the loop (`if let SingleOp = mode { break }`).
Nothing more is decoded in cleartext: whatever `Framed` had read behind that frame stays in its read
buffer, and the buffer is dropped by `into_parts()` (only `parts.io` and `parts.codec` are reused).
Bytes not yet read from the socket are read by the TLS library, never by the LDAP decoder.

How the turn and `ldap.extended` end, from the code:
  * the frame carries the request's message ID (1: first ID of a fresh handle): the result goes to
    `op_call`, which converts it (`LdapResultExt::from` = `try_from_tag(..).expect("ldap result")`,
    a PANIC on the caller's task if the protocolOp is not a well-formed LDAPResult);
  * the frame carries another ID: "unmatched id" is logged, the turn ends with `Ok(conn)` all the
    same, the connection object (with the registered result sender) stays alive in `try_join!`, and
    `ldap.extended` waits for ever: establishment STALLS (ends only by `conn_timeout`, if set);
  * end of stream with an empty buffer (`None => break`): the turn ends `Ok(conn)`: STALLS likewise;
  * decoding error, "bytes remaining on stream" at EOF, read error (reset): the turn returns `Err`,
    the connection object is dropped and with it the result sender: `ldap.extended` fails with
    `ResultRecv` (or `OpSend` if the driver ended before the op was queued) - `try_join!` returns the
    first `Err`, which is that one (the driver's own `Err` travels inside an `Ok` of the oneshot);
  * nothing arrives: STALLS.
`conn_timeout` wraps `new_tcp` as a whole (`time::timeout(timeout, conn_future)`): a stall is
`Err(Timeout)` when it is set and a future which never resolves otherwise.

Scheduling: `select!` polls its branches in random order.  If the server's first bytes are already
in the socket when the turn starts and the socket branch is polled first (`readFirst`), a complete
frame is consumed (unmatched: nothing is registered yet) and the turn ends before the request was
ever written; `ldap.extended` then stalls.  An incomplete frame leaves the branch pending and the
op branch is taken as usual.

Parameter, not modelled: the TLS library (native-tls over OpenSSL): handshake, certificate chain
and host name verification, record layer.  `TlsLib` is its verdict with the contract `TlsLib.Sound`.
Also outside: TCP connect, the resolver, `TlsConnector::builder().build()` (`expect("connector")`).
Core Lean only, total, computable.
-/
import Ldap3V.Model.Requests
import Ldap3V.Model.Result
namespace Ldap3V.TlsSetup
open Ldap3V

/-! ## Inputs -/

inductive Scheme where
  | ldap | ldaps
  deriving Repr, DecidableEq

/-- `settings.connector`: `None` (the library builds one, `danger_accept_invalid_certs(true)` iff
`no_tls_verify`) or the caller's own, which is used as it is - `no_tls_verify` is then NOT consulted;
`acceptInvalid` says whether the caller switched verification off in it -/
inductive Connector where
  | default
  | custom (acceptInvalid : Bool)
  deriving Repr, DecidableEq

structure Cfg where
  scheme : Scheme
  starttls : Bool
  noVerify : Bool
  connector : Connector := .default
  /-- `conn_timeout` is set -/
  connTimeout : Bool := false
  deriving Repr, DecidableEq

/-- the `scheme` string computed at the top of `new_tcp` -/
inductive Mode where
  | plain      -- "ldap"
  | startTls   -- "starttls"
  | direct     -- "ldaps" (`settings.set_starttls(false)`)
  deriving Repr, DecidableEq

def Cfg.mode (c : Cfg) : Mode :=
  match c.scheme with
  | .ldaps => .direct
  | .ldap => if c.starttls then .startTls else .plain

/-- certificate verification explicitly disabled, as `create_tls_stream` sees it -/
def Cfg.verifyOff (c : Cfg) : Bool :=
  match c.connector with
  | .default => c.noVerify
  | .custom a => a

/-- what a cleartext read finds once all `chunks` are consumed -/
inductive End where
  | eof      -- orderly close: `read` returns 0
  | reset    -- `read` returns an error
  | silent   -- nothing, for ever
  deriving Repr, DecidableEq

/-- the peer in the TLS handshake (ground truth, judged by the TLS library) -/
inductive Hs where
  | completes | fails | stalls
  deriving Repr, DecidableEq

structure Peer where
  hs : Hs
  /-- the chain it presents verifies for the host name under the client's roots -/
  certOk : Bool
  deriving Repr, DecidableEq

/-- everything the server side does during establishment.
`chunks`: the cleartext bytes it sends after the TCP connect, cut the way the client's `read`
calls return them (one chunk per successful `read`; bytes written together with the StartTLS
response are in the same chunk as the response). For `ldaps` they precede the handshake. -/
structure Server where
  readFirst : Bool := false
  chunks : List Bytes
  atEnd : End
  peer : Peer
  deriving Repr

/-- verdict of `TokioTlsConnector::connect(hostname, stream).await` -/
inductive HsVerdict where
  | ok | error | pending
  deriving Repr, DecidableEq

/-- the TLS library: `stale` = cleartext bytes still unread in the socket when it starts (it reads
them as TLS records), the peer, and whether verification is off -/
abbrev TlsLib := (stale : Bytes) → Peer → (verifyOff : Bool) → HsVerdict

/-- CONTRACT of the parameter: `connect` returns `Ok` only if the handshake completed and, unless
verification is disabled, the chain verified for the host name -/
def TlsLib.Sound (lib : TlsLib) : Prop :=
  ∀ stale p off, lib stale p off = .ok → p.hs = .completes ∧ (off = false → p.certOk = true)

/-- the library as observed on loopback (OpenSSL): stale cleartext (not TLS records) is a fatal
error; otherwise the peer decides -/
def refLib : TlsLib := fun stale p off =>
  if !stale.isEmpty then .error else
  match p.hs with
  | .stalls => .pending
  | .fails => .error
  | .completes => if off || p.certOk then .ok else .error

/-! ## Outputs -/

inductive ErrKind where
  | ldapResult (rc : Nat)   -- `res.success()?`
  | driverEnded             -- `ResultRecv` / `OpSend`: the driver turn returned `Err`
  | nativeTls               -- `create_tls_stream(..)?`
  | timeout                 -- `conn_timeout` elapsed
  deriving Repr, DecidableEq

inductive Outcome where
  | okSecure                -- `Ok((conn, ldap))`, `conn.stream` runs over TLS
  | okPlain                 -- `Ok((conn, ldap))` over TCP (scheme `ldap` without StartTLS)
  | err (k : ErrKind)
  | panic                   -- `expect("ldap result")` in `op_call`, on the caller's task
  | hang                    -- the future never resolves
  deriving Repr, DecidableEq

structure Result where
  outcome : Outcome
  /-- LDAP messages written to the socket in cleartext, in order -/
  cleartextWrites : List Bytes := []
  /-- frames the LDAP decoder produced from cleartext bytes -/
  decoded : List (Int × Tlv) := []
  /-- cleartext bytes of those frames -/
  consumed : Bytes := []
  /-- `parts.read_buf`: read by `Framed` behind the last decoded frame, dropped by `into_parts()` -/
  discarded : Bytes := []
  /-- cleartext bytes left in the socket, read by the TLS library -/
  tlsStale : Bytes := []
  /-- read buffer of the `Framed` in the handle handed back (`codec.framed(..)`: always fresh) -/
  sessionBuf : Bytes := []
  hasTls : Bool := false
  deriving Repr

/-! ## The StartTLS request -/

def startTlsOid : Bytes := ascii "1.3.6.1.4.1.1466.20037"

/-- `ldap.extended(StartTLS)` on the fresh handle: message ID 1, no controls -/
def startTlsReq : Bytes := encodeMsg 1 (build (.extended (some startTlsOid) none)) none

/-! ## `Framed::poll_next`, lazily: read chunk after chunk until one frame decodes -/

inductive ReadOut where
  | frame (id : Int) (op : Tlv) (ctrls : List Control) (consumed rest : Bytes) (unread : List Bytes)
  | error       -- `Some(Err(_))`: decoding error, bytes remaining at EOF, read error
  | eof         -- `None`
  | pending     -- never ready
  deriving Repr

/-- `buf` is the read buffer (a prefix on which `decode` answered `None`) -/
def readFrame (atEnd : End) : Bytes → List Bytes → ReadOut
  | buf, [] =>
    match atEnd with
    | .eof => if buf.isEmpty then .eof else .error      -- `decode_eof`: "bytes remaining on stream"
    | .reset => .error
    | .silent => .pending
  | buf, c :: cs =>
    match decodeInner (buf ++ c) with
    | .needMore => readFrame atEnd (buf ++ c) cs
    | .decodeError => .error
    | .frame id op ctrls n => .frame id op ctrls ((buf ++ c).take n) ((buf ++ c).drop n) cs

/-! ## Establishment -/

/-- a stall: `time::timeout(conn_timeout, ..)` or a future that never resolves -/
def stall (c : Cfg) : Outcome := if c.connTimeout then .err .timeout else .hang

/-- from `conn.stream.into_parts()` on -/
def tlsPhase (lib : TlsLib) (c : Cfg) (s : Server) (r : Result) (stale : Bytes) : Result :=
  match lib stale s.peer c.verifyOff with
  | .ok => { r with outcome := .okSecure, tlsStale := stale, hasTls := true }
  | .error => { r with outcome := .err .nativeTls, tlsStale := stale }
  | .pending => { r with outcome := stall c, tlsStale := stale }

/-- after the request has been written: the rest of the single-operation turn, `try_join!`,
`conn_res?`, `res.success()?`, then the TLS phase -/
def afterRequest (lib : TlsLib) (c : Cfg) (s : Server) (buf : Bytes) (chunks : List Bytes) : Result :=
  let w : Result := { outcome := .hang, cleartextWrites := [startTlsReq] }
  match readFrame s.atEnd buf chunks with
  | .error => { w with outcome := .err .driverEnded }
  | .eof => { w with outcome := stall c }
  | .pending => { w with outcome := stall c }
  | .frame id op _ consumed rest unread =>
    let w := { w with decoded := [(id, op)], consumed := consumed }
    if id ≠ 1 then { w with outcome := stall c }          -- "unmatched id": nobody answers the op
    else
      match resultExt op with
      | none => { w with outcome := .panic }
      | some r =>
        if r.rc ≠ 0 then { w with outcome := .err (.ldapResult r.rc) }
        else tlsPhase lib c s { w with discarded := rest } unread.flatten

/-- how the single-operation turn gets to the request -/
inductive FirstEvent where
  /-- the op branch: the request is written; `buf` = what `Framed` has read so far, `chunks` = unread -/
  | sent (buf : Bytes) (chunks : List Bytes)
  /-- the socket branch came first and ended the turn with `Ok(conn)` (a frame, routed to nobody:
  nothing is registered yet; or `None`): the request is never written -/
  | endedOk (decoded : List (Int × Tlv)) (consumed : Bytes)
  /-- the socket branch came first and ended the turn with `Err` -/
  | endedErr
  deriving Repr

def firstEvent (s : Server) : FirstEvent :=
  if s.readFirst then
    match s.chunks with
    | [] =>
      match s.atEnd with
      | .eof => .endedOk [] []
      | .reset => .endedErr
      | .silent => .sent [] []
    | ch :: cs =>
      match decodeInner ch with
      | .frame id op _ n => .endedOk [(id, op)] (ch.take n)
      | .decodeError => .endedErr
      | .needMore => .sent ch cs                           -- branch pending: the op branch is taken
  else .sent [] s.chunks

/-- what the server answered to the request, as `Framed` sees it (`none`: the request was never sent) -/
def answer (s : Server) : Option ReadOut :=
  match firstEvent s with
  | .sent buf chunks => some (readFrame s.atEnd buf chunks)
  | _ => none

/-- the `"starttls"` arm -/
def startTls (lib : TlsLib) (c : Cfg) (s : Server) : Result :=
  match firstEvent s with
  | .sent buf chunks => afterRequest lib c s buf chunks
  | .endedOk decoded consumed => { outcome := stall c, decoded := decoded, consumed := consumed }
  | .endedErr => { outcome := .err .driverEnded }

/-- `LdapConnAsync::new_tcp` from `conn_pair` on (wrapped in `conn_timeout`) -/
def establish (lib : TlsLib) (c : Cfg) (s : Server) : Result :=
  match c.mode with
  | .plain => { outcome := .okPlain }
  | .direct => tlsPhase lib c s { outcome := .hang } s.chunks.flatten
  | .startTls => startTls lib c s

end Ldap3V.TlsSetup

/-
Model of TLS establishment in `LdapConnAsync::new_tcp` (src/conn.rs, the `"ldaps" | "starttls"` arm)
as written at /repo HEAD, with src/exop_impl/starttls.rs, the single-operation driver turn
(`single_op` = `turn(LoopMode::SingleOp)`), the tail of `Ldap::op_call` and `ExopResult::success`.

Code order mirrored here (native-tls build):

    scheme = "ldap" (no StartTLS) | "starttls" (ldap + settings.starttls) | "ldaps" (starttls forced off)
    (conn, ldap) = conn_pair(ConnType::Tcp(stream))                 -- has_tls: false, fresh Framed
    "ldap"      => return Ok((conn, ldap))
    "starttls"  => spawn(conn.single_op(tx));
                   try_join!(rx, ldap.extended(StartTLS))            -- see `startTls` below
                   conn = conn_res?;  res.success()?;                -- rc != 0 => Err(LdapResult)
    both        => parts = conn.stream.into_parts();                 -- parts.read_buf is DROPPED
                   tls = create_tls_stream(settings, hostname, parts.io).await?   -- Err => NativeTLS
                   conn.stream = parts.codec.framed(ConnType::Tls(tls));          -- fresh, empty buffers
                   ldap.has_tls = true;  Ok((conn, ldap))

The single-operation turn (as repaired by "fix: StartTLS establishment fails instead of hanging
when the peer closes or answers another ID"): the `select!` loop takes the queued op, writes it
(`stream.send` flushes), registers it in `resultmap` and `continue`s; from then on every `select!`
event is the socket: `Framed::poll_next` first decodes from what it has buffered and reads only when
that is not a whole frame, and returns ONE frame per call.  The turn looks the frame's ID up:
  * the request's ID (1: first ID of a fresh handle): the result goes to `op_call`, `single_done` is
    set and the turn leaves the loop with `Ok(conn)`.  Nothing more is decoded in cleartext:
    whatever `Framed` had read behind that frame stays in its read buffer, and the buffer is dropped
    by `into_parts()` (only `parts.io` and `parts.codec` are reused).  Bytes not yet read from the
    socket are read by the TLS library, never by the LDAP decoder.  `op_call` converts the result
    (`LdapResultExt::from` = `try_from_tag(..).expect("ldap result")`, a PANIC on the caller's task
    if the protocolOp is not a well-formed LDAPResult - the documented `From<Tag>` behaviour);
  * another ID: "unmatched id" is logged, the frame is delivered to NOBODY (`searchmap` is empty,
    `resultmap` holds only the request's ID) and the turn keeps waiting for the real response;
  * end of stream while the operation is awaited: the turn returns `Err(UnexpectedEof)`;
  * decoding error, "bytes remaining on stream" at EOF, read error (reset): the turn returns `Err`.
    In both `Err` cases the connection object is dropped and with it the result sender:
    `ldap.extended` fails with `ResultRecv` (or `OpSend` if the driver ended before the op was
    queued) - `try_join!` returns the first `Err`, which is that one (the driver's own `Err`
    travels inside an `Ok` of the oneshot);
  * nothing arrives: the turn waits; establishment STALLS.
`conn_timeout` wraps `new_tcp` as a whole (`time::timeout(timeout, conn_future)`): a stall is
`Err(Timeout)` when it is set and a future which never resolves otherwise (the caller's choice).

Scheduling: `select!` polls its branches in random order.  While the request is still queued the
socket branch may win `early` times if whole frames are already there: each such frame is
unmatched (nothing is registered yet, whatever its ID), hence dropped, and the turn goes on; an
end of stream or an error met there ends the turn with `Err` before the request is written.  A
pending socket branch means that the op branch is taken.

Parameter, not modelled: the TLS library (native-tls over OpenSSL): handshake, certificate chain
and host name verification, record layer.  `TlsLib` is its verdict with the contract `TlsLib.Sound`.
Also outside: TCP connect, the resolver, `TlsConnector::builder().build()` (`expect("connector")`).
Core Lean only, total, computable.
-/
import Ldap3V.Model.Requests
import Ldap3V.Model.Result
namespace Ldap3V.TlsSetup
open Ldap3V

/-! ## Inputs -/

inductive Scheme where
  | ldap | ldaps
  deriving Repr, DecidableEq

/-- `settings.connector`: `None` (the library builds one, `danger_accept_invalid_certs(true)` iff
`no_tls_verify`) or the caller's own, which is used as it is - `no_tls_verify` is then NOT consulted;
`acceptInvalid` says whether the caller switched verification off in it -/
inductive Connector where
  | default
  | custom (acceptInvalid : Bool)
  deriving Repr, DecidableEq

structure Cfg where
  scheme : Scheme
  starttls : Bool
  noVerify : Bool
  connector : Connector := .default
  /-- `conn_timeout` is set -/
  connTimeout : Bool := false
  deriving Repr, DecidableEq

/-- the `scheme` string computed at the top of `new_tcp` -/
inductive Mode where
  | plain      -- "ldap"
  | startTls   -- "starttls"
  | direct     -- "ldaps" (`settings.set_starttls(false)`)
  deriving Repr, DecidableEq

def Cfg.mode (c : Cfg) : Mode :=
  match c.scheme with
  | .ldaps => .direct
  | .ldap => if c.starttls then .startTls else .plain

/-- certificate verification explicitly disabled, as `create_tls_stream` sees it -/
def Cfg.verifyOff (c : Cfg) : Bool :=
  match c.connector with
  | .default => c.noVerify
  | .custom a => a

/-- what a cleartext read finds once all `chunks` are consumed -/
inductive End where
  | eof      -- orderly close: `read` returns 0
  | reset    -- `read` returns an error
  | silent   -- nothing, for ever
  deriving Repr, DecidableEq

/-- the peer in the TLS handshake (ground truth, judged by the TLS library) -/
inductive Hs where
  | completes | fails | stalls
  deriving Repr, DecidableEq

structure Peer where
  hs : Hs
  /-- the chain it presents verifies for the host name under the client's roots -/
  certOk : Bool
  deriving Repr, DecidableEq

/-- everything the server side does during establishment.
`chunks`: the cleartext bytes it sends after the TCP connect, cut the way the client's `read`
calls return them (one chunk per successful `read`; bytes written together with the StartTLS
response are in the same chunk as the response). For `ldaps` they precede the handshake. -/
structure Server where
  /-- how many whole frames the socket branch of `select!` delivers before the op branch is taken -/
  early : Nat := 0
  chunks : List Bytes
  atEnd : End
  peer : Peer
  deriving Repr

/-- verdict of `TokioTlsConnector::connect(hostname, stream).await` -/
inductive HsVerdict where
  | ok | error | pending
  deriving Repr, DecidableEq

/-- the TLS library: `stale` = cleartext bytes still unread in the socket when it starts (it reads
them as TLS records), the peer, and whether verification is off -/
abbrev TlsLib := (stale : Bytes) → Peer → (verifyOff : Bool) → HsVerdict

/-- CONTRACT of the parameter: `connect` returns `Ok` only if the handshake completed and, unless
verification is disabled, the chain verified for the host name -/
def TlsLib.Sound (lib : TlsLib) : Prop :=
  ∀ stale p off, lib stale p off = .ok → p.hs = .completes ∧ (off = false → p.certOk = true)

/-- the library as observed on loopback (OpenSSL): stale cleartext (not TLS records) is a fatal
error; otherwise the peer decides -/
def refLib : TlsLib := fun stale p off =>
  if !stale.isEmpty then .error else
  match p.hs with
  | .stalls => .pending
  | .fails => .error
  | .completes => if off || p.certOk then .ok else .error

/-! ## Outputs -/

inductive ErrKind where
  | ldapResult (rc : Nat)   -- `res.success()?`
  | driverEnded             -- `ResultRecv` / `OpSend`: the driver turn returned `Err`
  | nativeTls               -- `create_tls_stream(..)?`
  | timeout                 -- `conn_timeout` elapsed
  | notLdapResult           -- the response under the request's ID is not an LDAPResult: `op_call`'s decoding error (F27; a panic before)
  deriving Repr, DecidableEq

inductive Outcome where
  | okSecure                -- `Ok((conn, ldap))`, `conn.stream` runs over TLS
  | okPlain                 -- `Ok((conn, ldap))` over TCP (scheme `ldap` without StartTLS)
  | err (k : ErrKind)
  | hang                    -- the future never resolves
  deriving Repr, DecidableEq

structure Result where
  outcome : Outcome
  /-- LDAP messages written to the socket in cleartext, in order -/
  cleartextWrites : List Bytes := []
  /-- frames the LDAP decoder produced from cleartext bytes, in order -/
  decoded : List (Int × Tlv) := []
  /-- cleartext bytes of those frames -/
  consumed : Bytes := []
  /-- the bytes of the last of them when it was routed to `op_call` (the StartTLS response) -/
  response : Bytes := []
  /-- `parts.read_buf`: read by `Framed` behind the last decoded frame, dropped by `into_parts()` -/
  discarded : Bytes := []
  /-- cleartext bytes left in the socket, read by the TLS library -/
  tlsStale : Bytes := []
  /-- read buffer of the `Framed` in the handle handed back (`codec.framed(..)`: always fresh) -/
  sessionBuf : Bytes := []
  hasTls : Bool := false
  deriving Repr

/-! ## The StartTLS request -/

def startTlsOid : Bytes := ascii "1.3.6.1.4.1.1466.20037"

/-- `ldap.extended(StartTLS)` on the fresh handle: message ID 1, no controls -/
def startTlsReq : Bytes := encodeMsg 1 (build (.extended (some startTlsOid) none)) none

/-! ## `Framed::poll_next`, lazily: read chunk after chunk until one frame decodes -/

inductive ReadOut where
  | frame (id : Int) (op : Tlv) (ctrls : List Control) (consumed rest : Bytes) (unread : List Bytes)
  | error       -- `Some(Err(_))`: decoding error, bytes remaining at EOF, read error
  | eof         -- `None`
  | pending     -- never ready
  deriving Repr

/-- `buf` is the read buffer (a prefix on which `decode` answered `None`) -/
def readFrame (atEnd : End) : Bytes → List Bytes → ReadOut
  | buf, [] =>
    match atEnd with
    | .eof => if buf.isEmpty then .eof else .error      -- `decode_eof`: "bytes remaining on stream"
    | .reset => .error
    | .silent => .pending
  | buf, c :: cs =>
    match decodeInner (buf ++ c) with
    | .needMore => readFrame atEnd (buf ++ c) cs
    | .decodeError => .error
    | .frame id op ctrls n => .frame id op ctrls ((buf ++ c).take n) ((buf ++ c).drop n) cs

/-- one `poll_next`: decode from the buffer first (`is_readable`), read only if that is not a frame -/
def nextFrame (atEnd : End) (buf : Bytes) (chunks : List Bytes) : ReadOut :=
  match decodeInner buf with
  | .frame id op ctrls n => .frame id op ctrls (buf.take n) (buf.drop n) chunks
  | .decodeError => .error
  | .needMore => readFrame atEnd buf chunks

/-! ## Establishment -/

/-- a stall: `time::timeout(conn_timeout, ..)` or a future that never resolves -/
def stall (c : Cfg) : Outcome := if c.connTimeout then .err .timeout else .hang

/-- from `conn.stream.into_parts()` on -/
def tlsPhase (lib : TlsLib) (c : Cfg) (s : Server) (r : Result) (stale : Bytes) : Result :=
  match lib stale s.peer c.verifyOff with
  | .ok => { r with outcome := .okSecure, tlsStale := stale, hasTls := true }
  | .error => { r with outcome := .err .nativeTls, tlsStale := stale }
  | .pending => { r with outcome := stall c, tlsStale := stale }

/-- how the turn ends once the request is registered -/
inductive Await where
  /-- the frame with the request's ID: `skipped` = frames dropped before it (with their bytes) -/
  | response (op : Tlv) (skipped : List (Int × Tlv)) (skippedBytes resp rest : Bytes) (unread : List Bytes)
  /-- the turn returned `Err` (decoding error, end of stream, read error) -/
  | driverErr (skipped : List (Int × Tlv)) (skippedBytes : Bytes)
  /-- nothing (more) arrives -/
  | waiting (skipped : List (Int × Tlv)) (skippedBytes : Bytes)
  deriving Repr

/-- the loop of the turn after the request: frames for other IDs are dropped.  `fuel` bounds the
number of frames; `(buf ++ chunks.flatten).length + 1` suffices (a frame has at least two bytes):
`awaitResponse_fuel` in Lemmas/TlsSetup.lean. -/
def awaitResponse (atEnd : End) : Nat → Bytes → List Bytes → List (Int × Tlv) → Bytes → Await
  | 0, _, _, sk, skb => .waiting sk skb
  | fuel + 1, buf, chunks, sk, skb =>
    match nextFrame atEnd buf chunks with
    | .error => .driverErr sk skb
    | .eof => .driverErr sk skb                       -- `None if SingleOp => return Err(UnexpectedEof)`
    | .pending => .waiting sk skb
    | .frame id op _ consumed rest unread =>
      if id = 1 then .response op sk skb consumed rest unread
      else awaitResponse atEnd fuel rest unread (sk ++ [(id, op)]) (skb ++ consumed)

/-- the loop with sufficient fuel -/
def await (atEnd : End) (buf : Bytes) (chunks : List Bytes) (sk : List (Int × Tlv)) (skb : Bytes) : Await :=
  awaitResponse atEnd ((buf ++ chunks.flatten).length + 1) buf chunks sk skb

/-- after the request has been written: the rest of the single-operation turn, `try_join!`,
`conn_res?`, `res.success()?`, then the TLS phase.  `sk`/`skb`: frames dropped before the request. -/
def afterRequest (lib : TlsLib) (c : Cfg) (s : Server) (buf : Bytes) (chunks : List Bytes)
    (sk : List (Int × Tlv)) (skb : Bytes) : Result :=
  let w : Result := { outcome := .hang, cleartextWrites := [startTlsReq] }
  match await s.atEnd buf chunks sk skb with
  | .driverErr sk skb => { w with outcome := .err .driverEnded, decoded := sk, consumed := skb }
  | .waiting sk skb => { w with outcome := stall c, decoded := sk, consumed := skb }
  | .response op sk skb resp rest unread =>
    let w := { w with decoded := sk ++ [(1, op)], consumed := skb ++ resp, response := resp }
    match resultExt op with
    | none => { w with outcome := .err .notLdapResult }
    | some r =>
      if r.rc ≠ 0 then { w with outcome := .err (.ldapResult r.rc) }
      else tlsPhase lib c s { w with discarded := rest } unread.flatten

/-- how the single-operation turn gets to the request -/
inductive FirstEvent where
  /-- the op branch: the request is written; `buf` = `Framed`'s read buffer, `chunks` = unread,
  `skipped` = frames the socket branch delivered (to nobody) before -/
  | sent (buf : Bytes) (chunks : List Bytes) (skipped : List (Int × Tlv)) (skippedBytes : Bytes)
  /-- the socket branch came first and ended the turn with `Err`: the request is never written -/
  | endedErr (skipped : List (Int × Tlv)) (skippedBytes : Bytes)
  deriving Repr

/-- `early` socket events before the op branch -/
def preRequest (atEnd : End) : Nat → Bytes → List Bytes → List (Int × Tlv) → Bytes → FirstEvent
  | 0, buf, chunks, sk, skb => .sent buf chunks sk skb
  | k + 1, buf, chunks, sk, skb =>
    match nextFrame atEnd buf chunks with
    | .frame id op _ consumed rest unread => preRequest atEnd k rest unread (sk ++ [(id, op)]) (skb ++ consumed)
    | .error => .endedErr sk skb
    | .eof => .endedErr sk skb
    | .pending => .sent buf chunks sk skb              -- branch pending: the op branch is taken

def firstEvent (s : Server) : FirstEvent := preRequest s.atEnd s.early [] s.chunks [] []

/-- what the server answered to the request, as the turn sees it (`none`: the request was never sent) -/
def answer (s : Server) : Option Await :=
  match firstEvent s with
  | .sent buf chunks sk skb =>
    some (await s.atEnd buf chunks sk skb)
  | .endedErr _ _ => none

/-- the `"starttls"` arm -/
def startTls (lib : TlsLib) (c : Cfg) (s : Server) : Result :=
  match firstEvent s with
  | .sent buf chunks sk skb => afterRequest lib c s buf chunks sk skb
  | .endedErr sk skb => { outcome := .err .driverEnded, decoded := sk, consumed := skb }

/-- `LdapConnAsync::new_tcp` from `conn_pair` on (wrapped in `conn_timeout`) -/
def establish (lib : TlsLib) (c : Cfg) (s : Server) : Result :=
  match c.mode with
  | .plain => { outcome := .okPlain }
  | .direct => tlsPhase lib c s { outcome := .hang } s.chunks.flatten
  | .startTls => startTls lib c s

end Ldap3V.TlsSetup

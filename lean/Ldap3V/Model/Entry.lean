/-
Model of `SearchEntry::construct` (/repo/src/search.rs) as written at /repo HEAD.
Core Lean only, total, computable.  Every `expect(..)` the input can reach is an explicit
`Outcome.panic`; the two `HashMap`s are association lists (`insert` = replace-or-append, so the
list order is first-insertion order; printing sorts by key).

`String::from_utf8` / `std::str::from_utf8` acceptance is the parameter `valid`
(`construct` instantiates it with `utf8Valid` of Model/Utf8.lean); a `String` is its UTF-8 bytes.
-/
import Ldap3V.Model.Utf8
namespace Ldap3V

/-- result of a Rust function that may panic -/
inductive Outcome (α : Type) where
  | ok (a : α)
  | panic
  deriving Repr, DecidableEq

/-- `HashMap<String, V>` as an association list with unique keys (by construction) -/
abbrev AMap (β : Type) := List (Bytes × β)

namespace AMap
/-- `HashMap::get` -/
def lookup {β : Type} : AMap β → Bytes → Option β
  | [], _ => none
  | (k', v) :: r, k => if k' = k then some v else lookup r k

/-- `HashMap::insert`: replaces the value of an existing key -/
def insert {β : Type} : AMap β → Bytes → β → AMap β
  | [], k, v => [(k, v)]
  | (k', v') :: r, k, v => if k' = k then (k, v) :: r else (k', v') :: insert r k v

/-- `m.entry(k).or_insert_with(Vec::new).push(v)` -/
def pushAt : AMap (List Bytes) → Bytes → Bytes → AMap (List Bytes)
  | [], k, v => [(k, [v])]
  | (k', l) :: r, k, v => if k' = k then (k', l ++ [v]) :: r else (k', l) :: pushAt r k v

/-- `m.get_mut(&k).map(|l| l.extend(vs))`: `none` when the key is absent -/
def extendAt : AMap (List Bytes) → Bytes → List Bytes → Option (AMap (List Bytes))
  | [], _, _ => none
  | (k', l) :: r, k, vs =>
    if k' = k then some ((k', l ++ vs) :: r)
    else match extendAt r k vs with
      | some r' => some ((k', l) :: r')
      | none => none

def keys {β : Type} (m : AMap β) : List Bytes := m.map (·.1)
end AMap

/-- `ldap3::SearchEntry` -/
structure SearchEntry where
  dn : Bytes
  /-- `attrs` -/
  text : AMap (List Bytes)
  /-- `bin_attrs` -/
  bin : AMap (List Bytes)
  deriving Repr, DecidableEq

/-- the `.map(expect_primitive).filter_map(..)` pipeline over the value elements of one
attribute: `text` is the `Vec<String>` collected so far, `bin` is `bin_attr_vals`, `ab` is
`any_binary`.  An invalid value is pushed into `bin` at once, i.e. before the valid ones. -/
def valuesLoop (valid : Bytes → Bool) (aType : Bytes) :
    List Tlv → List Bytes → AMap (List Bytes) → Bool → Outcome (List Bytes × AMap (List Bytes) × Bool)
  | [], text, bin, ab => .ok (text, bin, ab)
  | t :: ts, text, bin, ab =>
    match t.expectPrim with
    | none => .panic                                   -- expect("octet string")
    | some s =>
      if valid s then valuesLoop valid aType ts (text ++ [s]) bin ab
      else valuesLoop valid aType ts text (bin.pushAt aType s) true

/-- body of `for a_v in attrs` -/
def attrStep (valid : Bytes → Bool) (text bin : AMap (List Bytes)) (av : Tlv) :
    Outcome (AMap (List Bytes) × AMap (List Bytes)) :=
  match av.expectCons with
  | none => .panic                                     -- expect("partial attribute")
  | some part =>
    match part with
    | [] => .panic                                     -- expect("element")
    | ty :: rest =>
      match ty.expectPrim with
      | none => .panic                                 -- expect("octet string")
      | some aType =>
        if !valid aType then .panic                    -- expect("attribute type")
        else match rest with
          | [] => .panic                               -- expect("element")
          | vs :: _ =>                                 -- further elements are never looked at
            match vs.expectCons with
            | none => .panic                           -- expect("values")
            | some vals =>
              match valuesLoop valid aType vals [] bin false with
              | .panic => .panic
              | .ok (values, bin', anyBinary) =>
                if anyBinary then
                  match bin'.extendAt aType values with
                  | none => .panic                     -- expect("bin vector")
                  | some bin'' => .ok (text, bin'')
                else .ok (text.insert aType values, bin')

def attrsLoop (valid : Bytes → Bool) :
    List Tlv → AMap (List Bytes) → AMap (List Bytes) → Outcome (AMap (List Bytes) × AMap (List Bytes))
  | [], text, bin => .ok (text, bin)
  | av :: avs, text, bin =>
    match attrStep valid text bin av with
    | .panic => .panic
    | .ok (text', bin') => attrsLoop valid avs text' bin'

/-- `SearchEntry::construct(ResultEntry(t, _))`; `match_id(4)` looks at the tag number only,
the class is ignored, and so are class and number of every inner element. -/
def constructWith (valid : Bytes → Bool) (t : Tlv) : Outcome SearchEntry :=
  if t.id ≠ 4 then .panic                              -- match_id(4) … expect("entry")
  else match t.expectCons with
    | none => .panic                                   -- expect("entry")
    | some tags =>
      match tags with
      | [] => .panic                                   -- expect("element")
      | d :: rest =>
        match d.expectPrim with
        | none => .panic                               -- expect("octet string")
        | some dn =>
          if !valid dn then .panic                     -- expect("dn")
          else match rest with
            | [] => .panic                             -- expect("element")
            | as :: _ =>                               -- further elements are never looked at
              match as.expectCons with
              | none => .panic                         -- expect("attrs")
              | some attrs =>
                match attrsLoop valid attrs [] [] with
                | .panic => .panic
                | .ok (text, bin) => .ok { dn := dn, text := text, bin := bin }

def construct (t : Tlv) : Outcome SearchEntry := constructWith utf8Valid t

end Ldap3V

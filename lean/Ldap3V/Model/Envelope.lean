/-
Model of src/protocol.rs: `decode_inner` (LDAPMessage envelope extraction as now written, after the
fix: commits — every malformed envelope is a decoding error), the `Encoder` impl, and the
`tokio_util::codec::FramedRead` loop around the decoder (modelled, not verified).
-/
import Ldap3V.Model.Controls
namespace Ldap3V

/-- outcome of `decode_inner(buf)`: `Ok(Some(frame))` with the number of bytes consumed
(`buf.advance`), `Ok(None)`, or `Err(decoding error)` -/
inductive DecOut where
  | frame (id : Int) (op : Tlv) (ctrls : List Control) (consumed : Nat)
  | needMore
  | decodeError
  deriving Repr

/-- `parse_uint(..) as i32`: low 32 bits, two's complement -/
def asI32 (u : Nat) : Int :=
  let w := u % 4294967296
  if w ≥ 2147483648 then (w : Int) - 4294967296 else (w : Int)

/-- message ID extraction: `match_class(Universal).match_id(Integer).expect_primitive()` -/
def msgIdOf (t : Tlv) : Option Int :=
  match t with
  | .prim 0 2 v => some (asI32 (parseUint v))
  | _ => none

/-- envelope extraction from the parsed outer tag (everything after `buf.advance`) -/
def envelopeOf (tag : Tlv) : Option (Int × Tlv × List Control) :=
  -- `tag.match_id(Sequence).and_then(expect_constructed)`: the class is NOT checked
  match (if tag.id == 16 then tag.expectCons else none) with
  | none => none
  | some tags =>
    -- `tags.pop()` takes from the end
    match tags.reverse with
    | [] => none
    | last :: r1 =>
      -- has_controls / AD work-around
      let step : Option (Tlv × Option Tlv × List Tlv) :=
        if last.cls == 2 && last.id == 0 then
          (if last.isCons then
            match r1 with
            | [] => none
            | op :: r2 => some (op, some last, r2)
           else none)
        else if last.cls == 2 && last.id == 10 then
          match r1 with
          | [] => none
          | op :: r2 => some (op, none, r2)
        else some (last, none, r1)
      match step with
      | none => none
      | some (op, mctl, r) =>
        let ctrls : Option (List Control) := match mctl with
          | none => some []
          | some c => parseControls c
        match ctrls with
        | none => none
        | some cs =>
          match r with
          | [] => none
          | idt :: _ =>
            match msgIdOf idt with
            | none => none
            | some id => some (id, op, cs)

/-- `decode_inner` -/
def decodeInner (buf : Bytes) : DecOut :=
  match parseTop buf with
  | .incomplete => .needMore
  | .error => .decodeError
  | .ok tag rest =>
    match envelopeOf tag with
    | none => .decodeError
    | some (id, op, cs) => .frame id op cs (buf.length - rest.length)

/-- `Encoder::encode((id, tag, controls))` -/
def encodeMsg (id : Int) (op : Tag) (ctrls : Option (List RawControl)) : Bytes :=
  let base : List Tag := [Tag.int id, op]
  let all := match ctrls with
    | none => base
    | some cs => base ++ [Tag.structure (.cons 2 0 (cs.map buildControl))]
  encode (Tag.seq all).toTlv

/-! ## `FramedRead` (tokio-util 0.7): append what was read, call `decode` until it returns `None`;
an `Err` ends the stream for good. -/

structure Framing where
  buf : Bytes := []
  frames : List (Int × Tlv × List Control) := []   -- delivered so far, in order
  errored : Bool := false
  deriving Repr

/-- repeatedly decode from the buffer; `fuel` ≥ number of frames that can start (|buf| + 1 suffices,
every frame consumes at least two bytes) -/
def Framing.drain : Nat → Framing → Framing
  | 0, s => s
  | fuel + 1, s =>
    if s.errored then s else
    match decodeInner s.buf with
    | .needMore => s
    | .decodeError => { s with errored := true, buf := [] }    -- the buffer is never looked at again
    | .frame id op cs n => Framing.drain fuel { s with buf := s.buf.drop n, frames := s.frames ++ [(id, op, cs)] }

/-- one successful read of `chunk` -/
def Framing.feed (s : Framing) (chunk : Bytes) : Framing :=
  if s.errored then s else
  let s1 := { s with buf := s.buf ++ chunk }
  Framing.drain (s1.buf.length + 1) s1

def Framing.feedAll (s : Framing) (chunks : List Bytes) : Framing := chunks.foldl Framing.feed s

/-- end of input: `decode_eof` — leftover bytes are an error ("bytes remaining on stream") -/
def Framing.eof (s : Framing) : Framing :=
  if s.errored then s else if s.buf.isEmpty then s else { s with errored := true, buf := [] }

end Ldap3V

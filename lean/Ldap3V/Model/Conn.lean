/-
Model of the multiplexing connection: `LdapConnAsync::turn` (src/conn.rs, one rule per `select!`
arm), `Ldap::next_msgid` / `op_call` (src/ldap.rs) and the channel-level actions of a search stream
(`next_inner` receive with its per-call timeout, the scrub sent by `finish_inner`) (src/search.rs),
as a transition system over events.  ANY interleaving of enabled events is an execution; faults
are events.  Frames are abstract: message ID, protocolOp tag number, an opaque token standing for
the rest of the content, and whether a SearchResultDone is a well-formed LDAPResult.
Append-only logs (`srvLog`, channel `items`, `wire`) with cursors are used instead of queues that
shrink, so that "who got what, in which order" can be stated over histories.
Modelled, not verified: tokio mpsc/oneshot semantics (FIFO; dropping the sender wakes the receiver
with an error), `select!` picking some ready arm, `time::timeout` polling the inner future first.
-/
import Ldap3V.Model.IdAlloc
namespace Ldap3V.Conn
open Ldap3V

inductive Kind where
  | single
  | search
  | abandon (target : Int)
  | unbind
  deriving Repr, DecidableEq

structure Frame where
  id : Int          -- as decoded: low 32 bits, signed
  op : Nat          -- protocolOp tag number
  tok : Nat         -- opaque identity of the rest of the frame
  good : Bool       -- for op = 5: the LDAPResult inside is well-formed
  deriving Repr, DecidableEq

/-- oneshot mailbox of an operation (`ResultSender`/receiver pair) -/
inductive Mail where
  | empty                 -- sender alive, nothing sent
  | ack                   -- the driver's synthetic `Tag::Null` acknowledgement
  | frame (f : Frame)     -- a response routed by message ID
  | dropped               -- sender dropped without sending
  deriving Repr, DecidableEq

/-- what `op_call` returned to its caller -/
inductive Res where
  | ack | frame (f : Frame) | timeout | recvErr | opSendErr | scrubSendErr
  | decodeErr     -- what arrived under the operation's ID is not an LDAPResult (`try_from_tag` = None): decoding error (F27)
  deriving Repr, DecidableEq

inductive Phase where
  | allocated     -- ID taken, request not yet in the queue
  | queued        -- in the op queue
  | taken         -- received by the driver
  deriving Repr, DecidableEq

structure Op where
  id : Nat
  kind : Kind
  mail : Mail := .empty
  deadline : Option Nat := none
  res : Option Res := none
  chan : Option Nat := none
  phase : Phase := .allocated
  deriving Repr, DecidableEq

inductive Item where
  | entry (f : Frame)       -- SearchItem::Entry (op 4 or 25) / Referral (op 19): handed on as is
  | done (f : Frame)        -- SearchItem::Done
  deriving Repr, DecidableEq

structure Chan where
  opIdx : Nat
  items : List Item := []   -- everything ever pushed, in order
  taken : Nat := 0          -- how many the receiver has consumed
  rxAlive : Bool := true
  finScrub : Bool := false  -- ghost: finish() asked for a scrub (the stream was not Done)
  timedOut : Bool := false  -- ghost: a next() call timed out (it asked for a scrub)
  deriving Repr, DecidableEq

inductive Link where | up | eof | garbage
  deriving Repr, DecidableEq

inductive Drv where | running | endedOk | endedErr
  deriving Repr, DecidableEq

structure St where
  N : Nat := maxId
  last : Nat := 0
  inUse : List Nat := []
  ops : List Op := []
  chans : List Chan := []
  opQ : List Nat := []              -- indices into `ops`
  scrubQ : List Nat := []           -- message IDs
  srvLog : List Frame := []         -- every frame the server sent (decoded), in order
  pos : Nat := 0                    -- how many of them the driver has consumed
  link : Link := .up
  resultmap : List (Nat × Nat) := []   -- id ↦ op index (holds the oneshot sender)
  searchmap : List (Nat × Nat) := []   -- id ↦ channel index (holds a sender clone)
  drv : Drv := .running
  handles : Bool := true            -- some `Ldap` handle (an op-queue sender) is alive
  sinkClosed : Bool := false
  now : Nat := 0
  wire : List (Nat × Kind) := []    -- requests written, in order
  deriving Repr

/-! ### helpers -/

def lookup (m : List (Nat × Nat)) (k : Int) : Option Nat :=
  (m.find? fun p => (p.1 : Int) == k).map (·.2)

def erase (m : List (Nat × Nat)) (k : Int) : List (Nat × Nat) := m.filter fun p => !((p.1 : Int) == k)

/-- `HashMap::insert`: replace -/
def insert (m : List (Nat × Nat)) (k v : Nat) : List (Nat × Nat) := (erase m (k : Int)) ++ [(k, v)]

/-- `HashSet::remove` of an `i32` key -/
def eraseId (s : List Nat) (k : Int) : List Nat := s.filter fun i => !((i : Int) == k)

def modifyOp (ops : List Op) (i : Nat) (f : Op → Op) : List Op :=
  match ops[i]? with
  | some o => ops.set i (f o)
  | none => ops

def modifyChan (cs : List Chan) (i : Nat) (f : Chan → Chan) : List Chan :=
  match cs[i]? with
  | some c => cs.set i (f c)
  | none => cs

/-- the oneshot sender of op `i` is dropped: an empty mailbox becomes `dropped` -/
def dropSender (ops : List Op) (i : Nat) : List Op :=
  modifyOp ops i fun o => if o.mail = .empty then { o with mail := .dropped } else o

def dropSenderOpt (ops : List Op) : Option Nat → List Op
  | some i => dropSender ops i
  | none => ops

/-- `streaming_search_with`: when `start()` fails the stream, and with it the item receiver, is dropped -/
def dropRxOf (cs : List Chan) : Option Nat → List Chan
  | some c => modifyChan cs c fun ch => { ch with rxAlive := false }
  | none => cs

/-- a mailbox whose sender is dropped -/
def dropIf (m : Mail) : Mail := if m = .empty then .dropped else m

/-- the driver ends (any cause): it drops the op queue with its contents (the requests in it are
gone for good), both maps and the transport; every reply sender it held is dropped -/
def endDriver (s : St) (how : Drv) : St :=
  let ops' := s.ops.mapIdx fun j o =>
    if s.opQ.contains j then { o with phase := .taken, mail := dropIf o.mail }
    else if s.resultmap.any (fun p => p.2 == j) then { o with mail := dropIf o.mail }
    else o
  -- `drive` clears the ID table when the loop is over (fix F22)
  { s with ops := ops', opQ := [], resultmap := [], searchmap := [], drv := how, inUse := [] }

/-- does channel `c` still have a sender? (a clone in `searchmap`, or the original travelling in the op queue) -/
def chanOpen (s : St) (c : Nat) : Bool :=
  s.searchmap.any (fun p => p.2 == c) || s.opQ.any (fun i => match s.ops[i]? with
    | some o => o.chan == some c
    | none => false)

/-! ### events -/

inductive Ev where
  -- client, `op_call` part 1: `next_msgid()` under the mutex
  | alloc (kind : Kind)
  -- client, `op_call` part 2: `tx.send(..)`, arming the timeout
  | enqueue (i : Nat) (tmo : Option Nat)
  -- client polls the future of `op_call` for op `i`
  | poll (i : Nat)
  -- search stream: `rx.recv()` polled, with the deadline of this `next()` call if any
  | recv (c : Nat) (deadline : Option Nat)
  -- search stream: `finish_inner`: `id_scrub_tx.send(last_id)` unless the stream is Done (the
  -- stream state machine, C10, decides `scrub`), then the receiver is dropped
  | finish (c : Nat) (scrub : Bool)
  | dropHandles
  -- driver, one per `select!` arm
  | drvScrub
  | drvOp (sendOk : Bool)
  | drvOpClosed
  | drvMiscClosed        -- the misc (certificate request) channel is closed: all handles are gone
  | drvResp
  -- environment
  | srvSend (f : Frame)
  | srvClose
  | srvGarbage
  | tick (dt : Nat)
  deriving Repr

/-- what a step lets the outside see -/
inductive Obs where
  | none
  | id (n : Nat)                 -- the ID handed out
  | allocPanic
  | res (r : Option Res)         -- poll: `some` = the future resolved
  | item (i : Option Item)       -- recv: an item
  | closed                       -- recv: channel closed and drained (`EndOfStream`)
  | pending
  | timeout
  | sendErr
  | skipped                      -- drvOp: request discarded, its ID was no longer in use
  deriving Repr, DecidableEq

def routeSearch (s : St) (c : Nat) (f : Frame) : St :=
  -- by protocolOp number only (class ignored)
  let classify : Option (Item × Bool) :=
    if f.op = 4 ∨ f.op = 25 ∨ f.op = 19 then some (.entry f, false)
    else if f.op = 5 then (if f.good then some (.done f, true) else none)
    else none
  match classify with
  | none => endDriver s .endedErr                   -- undecodable for a search: connection ends (fix F4)
  | some (item, isDone) =>
    let alive := match s.chans[c]? with
      | some ch => ch.rxAlive
      | none => false
    let chans' := if alive then modifyChan s.chans c fun ch => { ch with items := ch.items ++ [item] } else s.chans
    let remove := isDone || !alive
    if remove then
      { s with chans := chans', searchmap := erase s.searchmap f.id, inUse := eraseId s.inUse f.id }   -- fix F8
    else { s with chans := chans' }

def step (s : St) (e : Ev) : Option (St × Obs) :=
  match e with
  | .alloc kind =>
    match nextId s.N s.last s.inUse with
    | .ok id =>
      let ch : Option Nat := match kind with
        | .search => some s.chans.length
        | _ => none
      let chans' : List Chan := match kind with
        | .search => s.chans ++ [({ opIdx := s.ops.length } : Chan)]
        | _ => s.chans
      some ({ s with last := id, inUse := id :: s.inUse, chans := chans',
                     ops := s.ops ++ [({ id := id, kind := kind, chan := ch } : Op)] }, .id id)
    | .panic => some (s, .allocPanic)
    | .diverge => none
  | .enqueue i tmo =>
    match s.ops[i]? with
    | none => none
    | some o =>
      if o.phase ≠ .allocated then none
      else if s.drv ≠ .running then
        -- the queue's receiver is gone: `Err(OpSend)`; the ID is released (fix F22);
        -- the request (and a search's item sender in it) is dropped
        some ({ s with ops := s.ops.set i { o with res := some .opSendErr, phase := .taken, mail := .dropped },
                       inUse := eraseId s.inUse o.id }, .sendErr)
      else
        some ({ s with ops := s.ops.set i { o with phase := .queued, deadline := tmo.map (s.now + ·) },
                       opQ := s.opQ ++ [i] }, .none)
  | .poll i =>
    match s.ops[i]? with
    | none => none
    | some o =>
      if o.res.isSome ∨ o.phase = .allocated then none
      else match o.mail with
        | .ack => some ({ s with ops := s.ops.set i { o with res := some .ack } }, .res (some .ack))
        | .frame f =>
          -- `LdapResultExt::try_from_tag(response.0)`: the driver hands on whatever the server sent under this ID
          let r := if f.good then Res.frame f else Res.decodeErr
          some ({ s with ops := s.ops.set i { o with res := some r } }, .res (some r))
        | .dropped => some ({ s with ops := s.ops.set i { o with res := some .recvErr },
                                      chans := dropRxOf s.chans o.chan }, .res (some .recvErr))
        | .empty =>
          match o.deadline with
          | some d =>
            if s.now ≥ d then
              if s.drv = .running then
                some ({ s with ops := s.ops.set i { o with res := some .timeout }, scrubQ := s.scrubQ ++ [o.id],
                               chans := dropRxOf s.chans o.chan }, .res (some .timeout))
              else some ({ s with ops := s.ops.set i { o with res := some .scrubSendErr },
                                  chans := dropRxOf s.chans o.chan }, .res (some .scrubSendErr))
            else some (s, .res none)
          | none => some (s, .res none)
  | .recv c deadline =>
    match s.chans[c]? with
    | none => none
    | some ch =>
      -- a SearchStream exists only once `start()` has returned Ok, i.e. the acknowledgement was polled
      if (s.ops[ch.opIdx]?.bind (·.res)) ≠ some .ack then none else
      if !ch.rxAlive then none
      else match ch.items[ch.taken]? with
        | some it => some ({ s with chans := s.chans.set c { ch with taken := ch.taken + 1 } }, .item (some it))
        | none =>
          if !chanOpen s c then some (s, .closed)
          else match deadline with
            | some d =>
              if s.now ≥ d then
                match s.ops[ch.opIdx]? with
                | some o =>
                  if s.drv = .running then
                    some ({ s with scrubQ := s.scrubQ ++ [o.id], chans := s.chans.set c { ch with timedOut := true } }, .timeout)
                  else some (s, .sendErr)
                | none => none
              else some (s, .pending)
            | none => some (s, .pending)
  | .finish c scrub =>
    match s.chans[c]? with
    | none => none
    | some ch =>
      if (s.ops[ch.opIdx]?.bind (·.res)) ≠ some .ack then none else
      if !ch.rxAlive then none else
      match s.ops[ch.opIdx]? with
      | none => none
      | some o =>
        let q := if scrub ∧ s.drv = .running then s.scrubQ ++ [o.id] else s.scrubQ
        some ({ s with scrubQ := q, chans := s.chans.set c { ch with rxAlive := false, finScrub := scrub } }, .none)
  | .dropHandles => some ({ s with handles := false }, .none)
  | .drvScrub =>
    if s.drv ≠ .running then none else
    match s.scrubQ with
    | [] => none
    | i :: rest =>
      some ({ s with scrubQ := rest,
                     ops := dropSenderOpt s.ops (lookup s.resultmap i),
                     resultmap := erase s.resultmap i, searchmap := erase s.searchmap i,
                     inUse := eraseId s.inUse i }, .none)
  | .drvOp sendOk =>
    if s.drv ≠ .running then none else
    match s.opQ with
    | [] => none
    | i :: rest =>
      match s.ops[i]? with
      | none => none
      | some o =>
        let s0 := { s with opQ := rest, ops := s.ops.set i { o with phase := .taken } }
        -- the ID was released while the request waited in the queue (its scrub overtook it):
        -- the request is neither sent nor registered, the op tuple is dropped (fix F15)
        if !s.inUse.contains o.id then some ({ s0 with ops := dropSender s0.ops i }, .skipped) else
        -- `if let LdapOp::Search(ref search_tx) = op { self.searchmap.insert(id, search_tx.clone()) }`
        let sm1 := match o.kind, o.chan with
          | .search, some c => insert s.searchmap o.id c
          | _, _ => s.searchmap
        let s1 := { s0 with searchmap := sm1 }
        if !sendOk then
          -- `stream.send` failed: the op tuple in hand is dropped with everything else
          some (endDriver { s1 with ops := dropSender s1.ops i } .endedErr, .none)
        else if s.sinkClosed then
          -- after Unbind the sink is closed (`self.stream.close()`): no later write can succeed, so a request the
          -- driver takes from the queue then can only fail its send and end the connection (branch above)
          none
        else
          let s2 := { s1 with wire := s1.wire ++ [(o.id, o.kind)] }
          match o.kind with
          | .single =>
            some ({ s2 with ops := dropSenderOpt s2.ops (lookup s2.resultmap o.id),
                            resultmap := insert s2.resultmap o.id i }, .none)
          | .search =>
            some ({ s2 with ops := modifyOp s2.ops i fun o => { o with mail := .ack } }, .none)
          | .abandon t =>
            some ({ s2 with ops := modifyOp (dropSenderOpt s2.ops (lookup s2.resultmap t)) i fun o => { o with mail := .ack },
                            resultmap := erase s2.resultmap t, searchmap := erase s2.searchmap t,
                            inUse := eraseId (eraseId s2.inUse o.id) t }, .none)      -- fix F9: also `t`
          | .unbind =>
            some ({ s2 with ops := modifyOp s2.ops i fun o => { o with mail := .ack }, sinkClosed := true }, .none)
  | .drvOpClosed =>
    if s.drv = .running ∧ s.opQ = [] ∧ s.handles = false then some (endDriver s .endedOk, .none) else none
  | .drvMiscClosed =>
    if s.drv = .running ∧ s.handles = false then some (endDriver s .endedOk, .none) else none
  | .drvResp =>
    if s.drv ≠ .running then none else
    match s.srvLog[s.pos]? with
    | some f =>
      let s1 := { s with pos := s.pos + 1 }
      match lookup s1.searchmap f.id with
      | some c => some (routeSearch s1 c f, .none)
      | none =>
        match lookup s1.resultmap f.id with
        | some i =>
          some ({ s1 with resultmap := erase s1.resultmap f.id,
                          ops := modifyOp s1.ops i fun o => if o.mail = .empty then { o with mail := .frame f } else o,
                          inUse := eraseId s1.inUse f.id }, .none)
        | none => some (s1, .none)                    -- unmatched: dropped, nothing else changes
    | none =>
      match s.link with
      | .up => none
      | .eof => some (endDriver s .endedOk, .none)
      | .garbage => some (endDriver s .endedErr, .none)
  | .srvSend f => if s.link = .up then some ({ s with srvLog := s.srvLog ++ [f] }, .none) else none
  | .srvClose => if s.link = .up then some ({ s with link := .eof }, .none) else none
  | .srvGarbage => if s.link = .up then some ({ s with link := .garbage }, .none) else none
  | .tick dt => some ({ s with now := s.now + dt }, .none)

/-- run a list of events from `s`, ignoring events that are not enabled -/
def run (s : St) (evs : List Ev) : St :=
  evs.foldl (fun s e => match step s e with
    | some (s', _) => s'
    | none => s) s

def init (N : Nat := maxId) : St := { N := N }

end Ldap3V.Conn

/-
Model of src/result.rs as written at /repo HEAD: `LdapResultExt::try_from_tag` (the conversion run
on the response of every single-result operation; `From<Tag>` is `try_from_tag(t).expect("ldap
result")`), the way `Ldap::op_call` (src/ldap.rs) attaches the response controls, and the helper
methods `LdapResult::{success,non_error}`, `SearchResult::{success,non_error}`,
`CompareResult::{equal,non_error}`, `ExopResult::{success,non_error}`.
Core Lean only, total, computable.
-/
import Ldap3V.Model.Ber
import Ldap3V.Model.Utf8
import Ldap3V.Model.Controls
namespace Ldap3V

/-- `LdapResultExt(LdapResult, Exop, SaslCreds)` without the control list (which `try_from_tag`
always leaves empty: `ctrls: vec![]`; `op_call` fills it in, see `opCallResult`). -/
structure ResultExt where
  rc : Nat                      -- `u32`
  matched : Bytes
  text : Bytes
  refs : List Bytes
  exopName : Option Bytes       -- `Exop.name`
  exopVal : Option Bytes        -- `Exop.val`
  sasl : Option Bytes           -- `SaslCreds.0`
  deriving Repr, DecidableEq

/-- `String::from_utf8(t.expect_primitive()?).ok()?` — class and tag number are NOT looked at -/
def utf8Prim (t : Tlv) : Option Bytes :=
  match t.expectPrim with
  | none => none
  | some v => if utf8Valid v then some v else none

/-- `for uri in comp.expect_constructed()? { refs.push(String::from_utf8(uri.expect_primitive()?).ok()?) }`:
the URIs of one `[3]` element, in order; the first bad one aborts the whole conversion -/
def refUris : List Tlv → Option (List Bytes)
  | [] => some []
  | u :: us =>
    match utf8Prim u with
    | none => none
    | some s =>
      match refUris us with
      | none => none
      | some r => some (s :: r)

/-- the four `let mut` accumulators of the component loop -/
structure ResAcc where
  refs : List Bytes := []
  exopName : Option Bytes := none
  exopVal : Option Bytes := none
  sasl : Option Bytes := none
  deriving Repr

/-- the `loop { match tags.next() … match comp.id { 3 | 7 | 10 | 11 | _ } }`: dispatch on the tag
NUMBER only (the class is ignored), several `[3]` accumulate, for 7/10/11 the last one wins,
anything else is skipped -/
def resTail : List Tlv → ResAcc → Option ResAcc
  | [], a => some a
  | comp :: rest, a =>
    if comp.id == 3 then
      match comp.expectCons with
      | none => none
      | some uris =>
        match refUris uris with
        | none => none
        | some us => resTail rest { a with refs := a.refs ++ us }
    else if comp.id == 7 then
      match comp.expectPrim with
      | none => none
      | some v => resTail rest { a with sasl := some v }
    else if comp.id == 10 then
      match utf8Prim comp with
      | none => none
      | some n => resTail rest { a with exopName := some n }
    else if comp.id == 11 then
      match comp.expectPrim with
      | none => none
      | some v => resTail rest { a with exopVal := some v }
    else resTail rest a

/-- `parse_uint(octets) as u32`: unsigned big-endian (NOT two's complement), wrapped to 64 bits by
`parse_uint`, then truncated to the low 32 bits -/
def rcOfOctets (v : Bytes) : Nat := parseUint v % 4294967296

/-- `LdapResultExt::try_from_tag(Tag::StructureTag(t))`.
`none` is the `None` of `try_from_tag`; on the caller's side (`From<Tag>`, used by `op_call` and the
search stream) that is the panic `expect("ldap result")` on the caller's task. -/
def resultExt (t : Tlv) : Option ResultExt :=
  match t.expectCons with                                  -- `t.expect_constructed()?` (class/id not checked)
  | none => none
  | some tags =>
    match tags with
    | [] => none                                           -- `tags.next()?`
    | .prim 0 10 v :: r1 =>                                -- Universal, ENUMERATED, primitive
      (match r1 with
       | [] => none
       | m :: r2 =>
         match utf8Prim m with
         | none => none
         | some matched =>
           match r2 with
           | [] => none
           | x :: r3 =>
             match utf8Prim x with
             | none => none
             | some text =>
               match resTail r3 {} with
               | none => none
               | some a => some ⟨rcOfOctets v, matched, text, a.refs, a.exopName, a.exopVal, a.sasl⟩)
    | _ :: _ => none

/-- `try_from_tag` on the typed `Tag`: a parsed response is always `Tag::StructureTag`; `Tag::Null`
is the connection driver's synthetic acknowledgement (Abandon/Unbind have no response) and converts
to an all-empty success; every other variant is `None`. -/
def resultExtOfTag : Tag → Option ResultExt
  | .structure t => resultExt t
  | .null _ _ => some ⟨0, [], [], [], none, none, none⟩
  | _ => none

/-- `LdapResult` as handed to the caller -/
structure LdapResult where
  rc : Nat
  matched : Bytes
  text : Bytes
  refs : List Bytes
  ctrls : List Control
  deriving Repr, DecidableEq

/-- the tail of `Ldap::op_call`: `LdapResultExt::from(response.0)` then `result.ctrls = controls`;
`none` = the `expect` panic -/
def opCallResult (op : Tlv) (ctrls : List Control) : Option (LdapResult × (Option Bytes × Option Bytes) × Option Bytes) :=
  match resultExt op with
  | none => none
  | some r => some (⟨r.rc, r.matched, r.text, r.refs, ctrls⟩, (r.exopName, r.exopVal), r.sasl)

/-! ## Helpers.  `Ok(…)` carries the value itself (moved, unchanged), `Err` carries
`LdapError::LdapResult { result }` with the same result; only the verdict is modelled. -/

/-- `LdapResult::success` -/
def success (rc : Nat) : Except Unit Unit := if rc == 0 then .ok () else .error ()
/-- `LdapResult::non_error` -/
def nonError (rc : Nat) : Except Unit Unit := if rc == 0 || rc == 10 then .ok () else .error ()
/-- `CompareResult::equal` -/
def equal (rc : Nat) : Except Unit Bool :=
  match rc with
  | 5 => .ok false
  | 6 => .ok true
  | _ => .error ()
/-- `CompareResult::non_error` -/
def cmpNonError (rc : Nat) : Except Unit Unit := if rc == 5 || rc == 6 || rc == 10 then .ok () else .error ()
/-- `SearchResult::success` (separately written in result.rs) -/
def searchSuccess (rc : Nat) : Except Unit Unit := if rc == 0 then .ok () else .error ()
/-- `SearchResult::non_error` -/
def searchNonError (rc : Nat) : Except Unit Unit := if rc == 0 || rc == 10 then .ok () else .error ()
/-- `ExopResult::success` -/
def exopSuccess (rc : Nat) : Except Unit Unit := if rc == 0 then .ok () else .error ()
/-- `ExopResult::non_error` -/
def exopNonError (rc : Nat) : Except Unit Unit := if rc == 0 || rc == 10 then .ok () else .error ()

end Ldap3V

/-
Model of `Ldap::next_msgid` (src/ldap.rs): the loop over the shared table `(last, in_use)`,
parametric in the largest ID `N` (= i32::MAX = 2^31 - 1 in the instance; never unfolded).
-/
namespace Ldap3V

inductive AllocOut where
  | ok (id : Nat)
  | panic            -- `assert_ne!(next, last, "LDAP message id wraparound with no free slots")`
  | diverge          -- the loop does not terminate (only if `last = 0` and 1..N all in use)
  deriving Repr, DecidableEq

/-- one trip round the loop body, `fuel` bounding the number of iterations -/
def nextIdAux (N last : Nat) (inUse : List Nat) : Nat → Nat → AllocOut
  | 0, _ => .diverge
  | fuel + 1, cur =>
    let nxt := if cur = N then 1 else cur + 1
    if ¬ inUse.contains nxt then .ok nxt
    else if nxt = last then .panic
    else nextIdAux N last inUse fuel nxt

/-- `next_msgid`: the candidate sequence is last+1, …, N, 1, …, last -/
def nextId (N last : Nat) (inUse : List Nat) : AllocOut := nextIdAux N last inUse (N + 1) last

/-- instance used by the driver -/
def maxId : Nat := 2147483647

end Ldap3V

/-
Model of `ldap_escape`, `dn_escape`, `ldap_unescape` of src/util.rs as written at /repo HEAD.

`&str`/`Cow<str>` are `Bytes` (the UTF-8 bytes).  The Rust input type guarantees valid UTF-8; the
model is defined on every byte string and the theorems carry `utf8Valid v` where they need it.

Partiality of the Rust code and how it shows up here:
* `String::from_utf8(output).expect("ldap escaped")` / `.expect("dn escaped")`: explicit outcome
  `EscOutcome.panicExpect` of `ldapEscapeO` / `dnEscapeO` (proved dead for valid UTF-8 input in
  Props/C09: `C09_escape_total`).  `ldapEscape` / `dnEscape : Bytes → Bytes` are the byte strings the
  functions hold just before that check (the `Vec`, or the untouched input).
* `lit[..i]` (str slicing, panics off a char boundary): `i` is always the index of the byte `c` that
  is being escaped / of the backslash; `str::is_char_boundary(i)` only inspects that byte
  (`(b as i8) >= -0x40`, i.e. not `0x80..=0xBF`), and every such `c` is ASCII.  So the slice cannot
  panic for any byte content; it is modelled as `List.take i` (see `needsEscape_ascii`,
  `dnNeeds_ascii` in Lemmas/Escape.lean for the ASCII fact).
* `xdigit(c)`: `c + …` on `u8` (the harness builds with overflow checks).  The argument is `x >> 4`
  or `x & 0xF`, hence `< 16`, and `15 + (b'a' - 10) = 102`: no overflow (`xdigit_lt` in Lemmas).
-/
import Ldap3V.Model.Unescaper
import Ldap3V.Model.Utf8
namespace Ldap3V

/-- `needs_escape` inside `ldap_escape` -/
def needsEscape (c : UInt8) : Bool :=
  c == 0x5C || c == 0x2A || c == 0x28 || c == 0x29 || c == 0

/-- `xdigit` (identical in both functions): `c + if c < 10 { b'0' } else { b'a' - 10 }` -/
def xdigit (c : UInt8) : UInt8 :=
  c + (if c < 10 then 0x30 else 0x61 - 10)

/-- the three bytes pushed for an escaped `c` -/
def escTriple (c : UInt8) : Bytes := [0x5C, xdigit (c >>> 4), xdigit (c &&& 0xF)]

/-- The `for (i, &c) in lit.as_bytes().iter().enumerate()` loop shared (textually duplicated) by
`ldap_escape` and `dn_escape`; `need i c` is the `if` condition, `output : Option<Vec<u8>>`. -/
def escapeLoop (need : Nat → UInt8 → Bool) (lit : Bytes) : Bytes → Nat → Option Bytes → Option Bytes
  | [], _, output => output
  | c :: rest, i, output =>
    if need i c then
      -- `if output.is_none() { output = Some(Vec..); output.extend(lit[..i]) }`
      let o := match output with
        | none => lit.take i
        | some o => o
      escapeLoop need lit rest (i + 1) (some (o ++ escTriple c))
    else
      match output with
      | some o => escapeLoop need lit rest (i + 1) (some (o ++ [c]))
      | none => escapeLoop need lit rest (i + 1) none

/-- result of the two escape functions, with the `expect` made explicit -/
inductive EscOutcome where
  | ok (s : Bytes)
  | panicExpect
  deriving Repr, DecidableEq

/-- `if let Some(output) = output { Cow::Owned(String::from_utf8(output).expect(..)) } else { lit }` -/
def escFinish (lit : Bytes) : Option Bytes → EscOutcome
  | some o => if utf8Valid o then .ok o else .panicExpect
  | none => .ok lit

def ldapNeed (_ : Nat) (c : UInt8) : Bool := needsEscape c

/-- `ldap_escape`, as written -/
def ldapEscapeO (lit : Bytes) : EscOutcome :=
  escFinish lit (escapeLoop ldapNeed lit lit 0 none)

/-- the bytes `ldap_escape` returns (before the `from_utf8().expect()` check) -/
def ldapEscape (lit : Bytes) : Bytes :=
  (escapeLoop ldapNeed lit lit 0 none).getD lit

/-- `always_escape` inside `dn_escape` -/
def alwaysEscape (c : UInt8) : Bool :=
  c == 0x22 || c == 0x2B || c == 0x2C || c == 0x3B || c == 0x3C || c == 0x3D || c == 0x3E || c == 0x5C || c == 0

/-- `escape_leading` -/
def escapeLeading (c : UInt8) : Bool := c == 0x20 || c == 0x23

/-- `escape_trailing` -/
def escapeTrailing (c : UInt8) : Bool := c == 0x20

/-- `always_escape(c) || i == 0 && escape_leading(c) || i + 1 == val.len() && escape_trailing(c)` -/
def dnNeed (len : Nat) (i : Nat) (c : UInt8) : Bool :=
  alwaysEscape c || (i == 0 && escapeLeading c) || (i + 1 == len && escapeTrailing c)

/-- `dn_escape`, as written -/
def dnEscapeO (val : Bytes) : EscOutcome :=
  escFinish val (escapeLoop (dnNeed val.length) val val 0 none)

def dnEscape (val : Bytes) : Bytes :=
  (escapeLoop (dnNeed val.length) val val 0 none).getD val

/-- `Result<Cow<str>>` of `ldap_unescape` -/
inductive UnescOutcome where
  | ok (s : Bytes)
  | errDecodingUtf8
  deriving Repr, DecidableEq

/-- the loop of `ldap_unescape`: state `(esc, output)` -/
def unescLoop (val : Bytes) : Bytes → Nat → Unescaper → Option Bytes → Unescaper × Option Bytes
  | [], _, esc, output => (esc, output)
  | c :: rest, i, esc, output =>
    let esc' := esc.feed c
    match esc' with
    | .wantFirst =>
      let output' := match output with
        | none => some (val.take i)
        | some o => some o
      unescLoop val rest (i + 1) esc' output'
    | .value d =>
      let output' := match output with
        | some o => some (o ++ [d])
        | none => none
      unescLoop val rest (i + 1) esc' output'
    | _ => unescLoop val rest (i + 1) esc' output

/-- `ldap_unescape`, as written -/
def ldapUnescape (val : Bytes) : UnescOutcome :=
  match unescLoop val val 0 (.value 0) none with
  | (esc, some o) =>
    match esc with
    | .value _ => if utf8Valid o then .ok o else .errDecodingUtf8
    | _ => .errDecodingUtf8
  | (_, none) => .ok val

end Ldap3V

/-
Timed model of `SearchStream::next_inner` (/repo/src/search.rs) over a virtual clock:

    let item = if let Some(timeout) = self.timeout {
        let res = time::timeout(timeout, self.rx.as_mut().unwrap().recv()).await;
        if res.is_err() { self.ldap.id_scrub_tx.send(self.msgid)?; }
        res?
    } else {
        self.rx.as_mut().unwrap().recv().await
    };

and of the caller's loop `loop { stream.next() }` (`SearchStream::next` leaves the `Active` state
after `Ok(None)` (Done) and after any `Err` (Error): later calls return `Ok(None)` at once, the loop
is over).

The channel is the list of what WILL be put into the stream's mpsc receiver, with the virtual time
at which each element arrives there: `item tok` (entry / referral), `done tok` (the final result)
or `closed` (every sender dropped: `recv()` yields `None`).  Nothing after the end of the list ever
arrives and the sender stays alive.

`time::timeout(d, fut)` started at time `t` polls `fut` first and only then its timer (deadline
`t + d`): an element that is already there is returned whatever the clock says; at the very instant
`t + d` the order in which the runtime makes the element ready and fires the timer decides
(`tieItemFirst`; both orders occur in lane `timeouts`).
-/
namespace Ldap3V.StreamTimed

/-- what arrives in the stream's receiver -/
inductive What where
  | item (tok : Nat)
  | done (tok : Nat)
  | closed
  deriving DecidableEq, Repr

/-- the channel: `(arrival time, what)` in queue order -/
abbrev Chan := List (Nat × What)

/-- what one `next()` call gives its caller -/
inductive Outcome where
  /-- `Ok(Some(entry))`: the stream stays Active -/
  | item (tok : Nat)
  /-- `Ok(None)` with the result stored: state Done -/
  | done (tok : Nat)
  /-- `Err(EndOfStream)`: state Error -/
  | closed
  /-- `Err(Timeout)` after the scrub request was sent: state Error; the element waited for is NOT consumed -/
  | timeout
  /-- the call never returns (no timeout configured, nothing will ever arrive) -/
  | hang
  deriving DecidableEq, Repr

def What.isItem : What → Bool
  | .item _ => true
  | _ => false

/-- the `match item { … }` after the receive -/
def deliver : What → Outcome
  | .item k => .item k
  | .done k => .done k
  | .closed => .closed

/-- One call of `next_inner` started at virtual time `t`: (outcome, time of return, channel left). -/
def nextAt (T : Option Nat) (tieItemFirst : Bool) (t : Nat) : Chan → Outcome × Nat × Chan
  | [] =>
    match T with
    | some d => (.timeout, t + d, [])
    | none => (.hang, t, [])
  | (a, w) :: rest =>
    if a ≤ t then (deliver w, t, rest)                    -- already there: the receive is polled first
    else
      match T with
      | none => (deliver w, a, rest)                      -- waits as long as it takes
      | some d =>
        if a < t + d then (deliver w, a, rest)
        else if a = t + d ∧ tieItemFirst = true then (deliver w, a, rest)
        else (.timeout, t + d, (a, w) :: rest)

/-- The caller's loop: every call starts when the previous one returned, plus the caller's think time
(`think`: one entry per completed call, missing entries are 0); it ends with the first outcome that
is not an item.  Result: (outcome, time of return) of every call.

The recursion is on the channel: a call that returns an item has consumed exactly the head of the
channel (`nextAt_item_rest` in Lemmas/StreamTimed.lean: the channel left by that call is `rest`). -/
def drain (T : Option Nat) (tieItemFirst : Bool) : List Nat → Nat → Chan → List (Outcome × Nat)
  | _, t, [] => [((nextAt T tieItemFirst t []).1, (nextAt T tieItemFirst t []).2.1)]
  | think, t, e :: rest =>
    let r := nextAt T tieItemFirst t (e :: rest)
    (r.1, r.2.1) ::
      (match r.1 with
       | .item _ => drain T tieItemFirst think.tail (r.2.1 + think.headD 0) rest
       | _ => [])

/-! ### vocabulary of the theorems (Props/C12.lean) -/

/-- every element arrives less than `d` after the call that will receive it STARTED
(the call for the head starts at `t`; it returns at `max a t`; the next one starts after the think time) -/
def InTime (d : Nat) : List Nat → Nat → Chan → Prop
  | _, _, [] => True
  | think, t, (a, _) :: rest => a < t + d ∧ InTime d think.tail (max a t + think.headD 0) rest

instance instDecidableInTime (d : Nat) : (think : List Nat) → (t : Nat) → (q : Chan) → Decidable (InTime d think t q)
  | _, _, [] => isTrue trivial
  | think, t, (a, _) :: rest =>
    have := instDecidableInTime d think.tail (max a t + think.headD 0) rest
    inferInstanceAs (Decidable (_ ∧ _))

/-- the same for a caller that calls back at once, read off the GAPS: the first element arrives
less than `d` after `prev`, each further one less than `d` after its predecessor -/
def GapsBelow (d : Nat) : Nat → Chan → Prop
  | _, [] => True
  | prev, (a, _) :: rest => a < prev + d ∧ GapsBelow d a rest

instance instDecidableGapsBelow (d : Nat) : (prev : Nat) → (q : Chan) → Decidable (GapsBelow d prev q)
  | _, [] => isTrue trivial
  | _, (a, _) :: rest =>
    have := instDecidableGapsBelow d a rest
    inferInstanceAs (Decidable (_ ∧ _))

/-- what the caller gets when every element is received by the call whose turn it is: each element,
in order, at the later of its arrival and the start of its call -/
def delivered : List Nat → Nat → Chan → List (Outcome × Nat)
  | _, _, [] => []
  | think, t, (a, w) :: rest => (deliver w, max a t) :: delivered think.tail (max a t + think.headD 0) rest

/-- the time at which the call AFTER the ones that received `q` starts -/
def startAfter : List Nat → Nat → Chan → Nat
  | _, t, [] => t
  | think, t, (a, _) :: rest => startAfter think.tail (max a t + think.headD 0) rest

/-- `done` / `closed` occur at most as the last element -/
def TerminalOnlyLast : Chan → Bool
  | [] => true
  | [_] => true
  | (_, w) :: rest => w.isItem && TerminalOnlyLast rest

/-- the channel does not end with `done` / `closed`: after its last element the server is silent -/
def endsOpen : Chan → Bool
  | [] => true
  | [(_, w)] => w.isItem
  | _ :: rest => endsOpen rest

/-- `n` items with tokens `toks`, the k-th arriving at `t0 + k*g` (k = 1, 2, …) -/
def evenly (t0 g : Nat) : Nat → List Nat → Chan
  | _, [] => []
  | k, tok :: toks => (t0 + k * g, .item tok) :: evenly t0 g (k + 1) toks

/-- … and what a caller that receives them all gets: the k-th at `t0 + k*g` -/
def evenlyDelivered (t0 g : Nat) : Nat → List Nat → List (Outcome × Nat)
  | _, [] => []
  | k, tok :: toks => (.item tok, t0 + k * g) :: evenlyDelivered t0 g (k + 1) toks

end Ldap3V.StreamTimed

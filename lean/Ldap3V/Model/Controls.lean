/-
Model of src/controls_impl.rs: `RawControl`, `Control`, `build_tag`, `parse_controls`
(as now written: fallible, returns `Option`), and the `CONTROLS` OID table.
-/
import Ldap3V.Model.Ber
import Ldap3V.Model.Utf8
namespace Ldap3V

/-- ASCII bytes of a string literal -/
def ascii (s : String) : Bytes := s.toList.map fun c => c.toNat.toUInt8

structure RawControl where
  ctype : Bytes
  crit : Bool
  val : Option Bytes
  deriving Repr, DecidableEq

/-- `ControlType` (recognised response controls) -/
inductive ControlType where
  | pagedResults | postReadResp | preReadResp | syncDone | syncState | manageDsaIt | matchedValues
  deriving Repr, DecidableEq

structure Control where
  known : Option ControlType
  raw : RawControl
  deriving Repr, DecidableEq

def oidPagedResults := ascii "1.2.840.113556.1.4.319"
def oidPostRead := ascii "1.3.6.1.1.13.2"
def oidPreRead := ascii "1.3.6.1.1.13.1"
def oidSyncDone := ascii "1.3.6.1.4.1.4203.1.9.1.3"
def oidSyncState := ascii "1.3.6.1.4.1.4203.1.9.1.2"
def oidManageDsaIt := ascii "2.16.840.1.113730.3.4.2"
def oidMatchedValues := ascii "1.2.826.0.1.3344810.2.3"

/-- the `CONTROLS` lazy_static map -/
def controlsTable : List (Bytes × ControlType) :=
  [(oidPagedResults, .pagedResults), (oidPostRead, .postReadResp), (oidPreRead, .preReadResp),
   (oidSyncDone, .syncDone), (oidSyncState, .syncState), (oidManageDsaIt, .manageDsaIt),
   (oidMatchedValues, .matchedValues)]

def knownType (oid : Bytes) : Option ControlType := (controlsTable.find? fun p => p.1 == oid).map (·.2)

/-- `build_tag` -/
def buildControl (rc : RawControl) : Tlv :=
  .cons 0 16 ([Tlv.prim 0 4 rc.ctype] ++ (if rc.crit then [Tlv.prim 0 1 [0xFF]] else []) ++
    (match rc.val with | some v => [Tlv.prim 0 4 v] | none => []))

/-- one iteration of the `for ctrl in tags` loop of `parse_controls` -/
def parseControl (ctrl : Tlv) : Option Control :=
  match ctrl.expectCons with
  | none => none
  | some comps =>
    match comps with
    | [] => none
    | c0 :: rest =>
      match c0.expectPrim with
      | none => none
      | some oid =>
        if !utf8Valid oid then none else
        let finish (crit : Bool) (mv : Option Tlv) : Option Control :=
          match mv with
          | none => some ⟨knownType oid, ⟨oid, crit, none⟩⟩
          | some v => match v.expectPrim with
            | none => none
            | some b => some ⟨knownType oid, ⟨oid, crit, some b⟩⟩
        match rest with
        | [] => finish false none
        | c1 :: rest2 =>
          if c1.id == 1 then           -- `id == Types::Boolean`, class ignored
            match c1 with
            | .prim _ _ v => match v with
              | [] => none
              | b :: _ => finish (b != 0) rest2.head?
            | .cons .. => none
          else if c1.id == 4 then      -- `id == Types::OctetString`, class ignored
            finish false (some c1)
          else none

def parseControlList : List Tlv → Option (List Control)
  | [] => some []
  | t :: ts => match parseControl t with
    | none => none
    | some c => match parseControlList ts with
      | none => none
      | some cs => some (c :: cs)

/-- `parse_controls` -/
def parseControls (t : Tlv) : Option (List Control) :=
  match t.expectCons with
  | none => none
  | some tags => parseControlList tags

end Ldap3V

/-
Model of connection set-up (src/conn.rs at /repo HEAD, features `tls-native` + `sync`, cfg(unix)):
`LdapConnAsync::from_url_with_settings` / `new_unix` / `new_tcp`, reached from
`LdapConnAsync::{new, with_settings, from_url}` and from the sync wrappers
`LdapConn::{new, with_settings, from_url, from_url_with_settings}` (src/sync.rs; they build a
current-thread runtime with `enable_all()` and `block_on` the async function, adding nothing to
the dispatch).

The model starts at what the `url` crate hands over — NAMED ENVIRONMENT ASSUMPTION:
`Url::parse(text)` either fails (the caller gets `LdapError::UrlParsing`, nothing below runs) or
yields a `Url` of which the code reads exactly `url.scheme()`, `url.host_str()`, `url.port()`;
these three are `UrlParts`.  The scheme, host and (therefore) socket path are ARBITRARY byte
strings here; no fact about what `Url::parse` can produce is used.

Part 1 (`plan`) is the dispatch: which endpoint, which security step, which error, and which part
of the work the connection time-out wraps.  Every `panic!`/`expect`/`unimplemented!` arm of
`new_tcp` is an explicit `panic` outcome (proved unreachable in Lemmas/ConnSetup.lean).
Part 2 (`run`) executes a plan against an abstract environment (resolver + kernel + peer): every
step either completes, fails, or never completes.  The TLS handshake and the StartTLS exchange are
opaque steps (slice C17).

Not modelled: the tokio runtime (the caller must provide one with the I/O and time drivers
enabled — `TcpStream::connect`, `from_std`, `time::timeout` and `tokio::spawn` panic without it;
`LdapConn` always does), `set_nonblocking`/`from_std` failing on a pre-opened stream (an `Io`
error), `create_connector`'s `expect("connector")` (inside the opaque TLS step, C17).
Core Lean only, total, computable.
-/
import Ldap3V.Model.Url
namespace Ldap3V.ConnSetup
open Ldap3V

/-! ## What the code is given -/

/-- the variant of `StdStream` placed in the settings; `invalid` is what `Clone` produces -/
inductive StreamKind
  | tcp | unix | invalid
  deriving DecidableEq, Repr, Inhabited

/-- `url.scheme()`, `url.host_str()`, `url.port()` -/
structure UrlParts where
  scheme : Bytes
  host : Option Bytes
  port : Option Nat
  deriving DecidableEq, Repr, Inhabited

/-- the fields of `LdapConnSettings` that the dispatch reads (`connector`, `no_tls_verify` only
reach the opaque TLS step) ; `connTimeout` in any unit (the lane uses milliseconds) -/
structure Settings where
  starttls : Bool
  connTimeout : Option Nat
  stdStream : Option StreamKind
  deriving DecidableEq, Repr, Inhabited

/-! ## What comes out -/

/-- what happens on the TCP connection after it exists -/
inductive Secure
  | none       -- plain LDAP
  | starttls   -- StartTLS extended operation, then the TLS handshake
  | tls        -- TLS handshake at once (ldaps)
  deriving DecidableEq, Repr, Inhabited

inductive ErrKind
  | unknownScheme (scheme : Bytes)
  | emptyUnixPath
  | portInUnixPath
  | mismatchedStreamType
  deriving DecidableEq, Repr, Inhabited

/-- `bound` = the duration given to `time::timeout` around everything the plan does
(`none` = no time-out wraps it). -/
inductive Plan
  | tcpConnect (host : Bytes) (port : Nat) (secure : Secure) (bound : Option Nat)
  | useTcpStream (host : Bytes) (secure : Secure) (bound : Option Nat)
  | unixConnect (path : Bytes) (bound : Option Nat)
  | useUnixStream
  | err (k : ErrKind)
  | panic
  deriving DecidableEq, Repr, Inhabited

/-! ## String constants -/

def litLdap : Bytes := [0x6C, 0x64, 0x61, 0x70] /- "ldap" -/
def litLdaps : Bytes := [0x6C, 0x64, 0x61, 0x70, 0x73] /- "ldaps" -/
def litLdapi : Bytes := [0x6C, 0x64, 0x61, 0x70, 0x69] /- "ldapi" -/
def litStarttls : Bytes := [0x73, 0x74, 0x61, 0x72, 0x74, 0x74, 0x6C, 0x73] /- "starttls" -/
def litLocalhost : Bytes := [0x6C, 0x6F, 0x63, 0x61, 0x6C, 0x68, 0x6F, 0x73, 0x74] /- "localhost" -/
/-! ## `new_unix` (cfg(unix)) -/

def newUnix (s : Settings) (u : UrlParts) : Plan :=
  match s.stdStream with
  | none =>
    let path := match u.host with | some h => h | none => []   -- url.host_str().unwrap_or("")
    if path.isEmpty then .err .emptyUnixPath
    else if path.contains 0x3A || u.port.isSome then .err .portInUnixPath
    -- `percent_decode(path.as_bytes()).collect::<Vec<u8>>()`, handed over as an `OsStr`: byte for byte
    else .unixConnect (Url.percentDecode path) none
  | some .unix => .useUnixStream
  | some .tcp => .err .mismatchedStreamType
  | some .invalid => .err .mismatchedStreamType

/-! ## `new_tcp` -/

/-- the `ConnType` variant inside the freshly made `Framed` -/
inductive ConnKind
  | tcp | tls | unix
  deriving DecidableEq, Repr

/-- what `new_tcp` does, before the time-out wrapper of the caller -/
inductive TcpPlan
  | connect (host : Bytes) (port : Nat) (secure : Secure)
  | useStream (host : Bytes) (secure : Secure)
  | err (k : ErrKind)
  | panic
  deriving DecidableEq, Repr

/-- first `match url.scheme()`: the internal scheme word, the settings afterwards, the default port;
`none` = `return Err(UnknownScheme)` -/
def schemeStep (s : Settings) (scheme : Bytes) : Option (Bytes × Settings × Nat) :=
  if scheme = litLdap then
    some (if s.starttls then litStarttls else litLdap, s, 389)
  else if scheme = litLdaps then
    some (litLdaps, { s with starttls := false }, 636)
  else none

/-- `match url.host_str() { Some(h) if !h.is_empty() => h, _ => "localhost" }` -/
def hostName (host : Option Bytes) : Bytes :=
  match host with
  | some h => if !h.isEmpty then h else litLocalhost
  | none => litLocalhost

/-- `match settings.std_stream {…}`: `some true` = connect, `some false` = use the stream;
the two inner panics (`expect("StdStream")`, `"non-tcp stream in enum"`) are explicit -/
inductive StreamStep
  | connect | useStream | mismatched | panic
  deriving DecidableEq, Repr

def streamStep (std : Option StreamKind) : StreamStep :=
  match std with
  | none => .connect
  | some .tcp =>
    -- settings.std_stream.take().expect("StdStream")
    match std with
    | none => .panic
    | some .tcp => .useStream
    | some _ => .panic    -- "non-tcp stream in enum"
  | some _ => .mismatched

/-- last `match scheme {…}`; `none` = panic (`"underlying stream not TCP"` or `unimplemented!()`) -/
def secureStep (scheme : Bytes) (io : ConnKind) : Option Secure :=
  if scheme = litLdap then some .none
  else if scheme = litLdaps || scheme = litStarttls then
    match io with
    | .tcp => some (if scheme = litStarttls then .starttls else .tls)
    | _ => none    -- panic!("underlying stream not TCP")
  else none        -- unimplemented!()

def newTcp (s : Settings) (u : UrlParts) : TcpPlan :=
  match schemeStep s u.scheme with
  | none => .err (.unknownScheme u.scheme)
  | some (scheme, s', port0) =>
    let port := match u.port with | some p => p | none => port0
    let host := hostName u.host
    match streamStep s'.stdStream with
    | .mismatched => .err .mismatchedStreamType
    | .panic => .panic
    | .connect =>
      -- conn_pair(ConnType::Tcp(stream))
      match secureStep scheme .tcp with
      | some sec => .connect host port sec
      | none => .panic
    | .useStream =>
      match secureStep scheme .tcp with
      | some sec => .useStream host sec
      | none => .panic

/-! ## `from_url_with_settings` -/

def plan (s : Settings) (u : UrlParts) : Plan :=
  if u.scheme = litLdapi then newUnix s u
  else
    let timeout := s.connTimeout              -- settings.conn_timeout.take()
    match newTcp { s with connTimeout := none } u with
    | .connect h p sec => .tcpConnect h p sec timeout
    | .useStream h sec => .useTcpStream h sec timeout
    | .err k => .err k                          -- returned from inside the wrapped future
    | .panic => .panic

/-! ## Part 2: running a plan against the world

`never` = the step does not complete (packets dropped, a peer that accepts and stays silent). -/

inductive StepRes
  | done | fail | never
  deriving DecidableEq, Repr, Inhabited

/-- result of `TcpStream::connect` / `UnixStream::connect` -/
inductive ConnRes
  | reached (endpoint : Nat) | refused | never
  deriving DecidableEq, Repr, Inhabited

/-- how the peer behind an endpoint treats the two opaque steps -/
structure Peer where
  startTls : StepRes    -- the StartTLS exchange (`fail` = a non-zero result code or a broken connection)
  handshake : StepRes   -- the TLS handshake
  deriving DecidableEq, Repr, Inhabited

structure Env where
  tcp : Bytes → Nat → ConnRes     -- resolver + kernel: `TcpStream::connect("host:port")`
  unix : Bytes → ConnRes          -- kernel: `UnixStream::connect(path)`
  peer : Nat → Peer
  preTcp : Nat                    -- the endpoint a pre-opened TCP stream is connected to
  preUnix : Nat

inductive Contact
  | none | tcp (endpoint : Nat) | unix (endpoint : Nat)
  deriving DecidableEq, Repr, Inhabited

inductive RunErr
  | setup (k : ErrKind)   -- the dispatch errors
  | io                    -- connect failed
  | startTls              -- StartTLS refused / broken
  | tls                   -- handshake failed
  deriving DecidableEq, Repr, Inhabited

/-- `timeout` = `Err(LdapError::Timeout)` delivered when the bound expires;
`hang` = the future never resolves -/
inductive Outcome
  | ok (c : Contact)
  | err (e : RunErr) (c : Contact)
  | timeout (c : Contact)
  | hang (c : Contact)
  | panic
  deriving DecidableEq, Repr, Inhabited

/-- a step that never completes, under `time::timeout(bound, …)` or bare -/
def stuck (bound : Option Nat) (c : Contact) : Outcome :=
  match bound with
  | some _ => .timeout c
  | none => .hang c

def runHandshake (p : Peer) (bound : Option Nat) (c : Contact) : Outcome :=
  match p.handshake with
  | .done => .ok c
  | .fail => .err .tls c
  | .never => stuck bound c

def runSecure (p : Peer) (sec : Secure) (bound : Option Nat) (c : Contact) : Outcome :=
  match sec with
  | .none => .ok c
  | .tls => runHandshake p bound c
  | .starttls =>
    match p.startTls with
    | .done => runHandshake p bound c
    | .fail => .err .startTls c
    | .never => stuck bound c

def run (env : Env) (pl : Plan) : Outcome :=
  match pl with
  | .panic => .panic
  | .err k => .err (.setup k) .none
  | .tcpConnect h p sec bound =>
    match env.tcp h p with
    | .refused => .err .io .none
    | .never => stuck bound .none
    | .reached e => runSecure (env.peer e) sec bound (.tcp e)
  | .useTcpStream _ sec bound => runSecure (env.peer env.preTcp) sec bound (.tcp env.preTcp)
  | .unixConnect path bound =>
    match env.unix path with
    | .refused => .err .io .none
    | .never => stuck bound .none
    | .reached e => .ok (.unix e)
  | .useUnixStream => .ok (.unix env.preUnix)

/-- what the peer sees first on a contacted TCP endpoint: nothing, the StartTLS request, a ClientHello -/
def firstSent : Plan → Secure
  | .tcpConnect _ _ sec _ => sec
  | .useTcpStream _ sec _ => sec
  | _ => .none

end Ldap3V.ConnSetup

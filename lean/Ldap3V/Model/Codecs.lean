/-
Model of the control / extended-operation codecs of ldap3 as written at /repo HEAD:
  src/controls_impl/{paged_results,content_sync,read_entry,assertion,matched_values,proxy_auth,
                     txn,manage_dsa_it,relax_rules}.rs, the `CriticalControl` wrapper of
  src/controls_impl.rs, src/exop_impl.rs (`construct_exop`, `Exop::parse`) and
  src/exop_impl/{whoami,starttls,passmod,txn}.rs.
`RawControl`, `build_tag`, `parse_controls` and the `CONTROLS` table are in Model/Controls.lean.

Request side: `X → RawControl` / `X → Exop`, the value bytes are `encode (Tag.toTlv …)` of exactly
the typed tag the Rust builds.  Response side: every `expect`/`unwrap`/`panic!`/index is the explicit
outcome `Outcome.panic`.  `String`/`&str` fields are `Bytes` (the Rust type guarantees UTF-8 on the
request side; on the response side `from_utf8(..).expect(..)` is modelled by `utf8Valid`).
Core Lean only, total, computable.
-/
import Ldap3V.Model.Controls
import Ldap3V.Model.Entry
namespace Ldap3V.Codecs
open Ldap3V

/-- result of a function that can panic -/
inductive Outcome (α : Type) where
  | ok (v : α)
  | panic
  deriving Repr, DecidableEq

/-- `exop_impl::Exop` -/
structure Exop where
  name : Option Bytes
  val : Option Bytes
  deriving Repr, DecidableEq

/-! ## OID constants of the request controls / exops (the response ones are in Model/Controls) -/

def oidAssertion := ascii "1.3.6.1.1.12"                    -- assertion.rs ASSERTION_OID
def oidSyncRequest := ascii "1.3.6.1.4.1.4203.1.9.1.1"      -- content_sync.rs SYNC_REQUEST_OID
def oidSyncInfo := ascii "1.3.6.1.4.1.4203.1.9.1.4"         -- content_sync.rs SYNC_INFO_OID
def oidProxyAuth := ascii "2.16.840.1.113730.3.4.18"        -- proxy_auth.rs PROXY_AUTH_OID
def oidRelaxRules := ascii "1.3.6.1.4.1.4203.666.5.12"      -- relax_rules.rs RELAX_RULES_OID
def oidTxnSpec := ascii "1.3.6.1.1.21.2"                    -- controls_impl/txn.rs TXN_REQUEST_OID
def oidWhoAmI := ascii "1.3.6.1.4.1.4203.1.11.3"            -- whoami.rs WHOAMI_OID
def oidStartTLS := ascii "1.3.6.1.4.1.1466.20037"           -- starttls.rs STARTTLS_OID
def oidPassMod := ascii "1.3.6.1.4.1.4203.1.11.1"           -- passmod.rs PASSMOD_OID
def oidTxnStart := ascii "1.3.6.1.1.21.1"                   -- exop_impl/txn.rs TXN_START_OID
def oidTxnEnd := ascii "1.3.6.1.1.21.3"                     -- exop_impl/txn.rs TXN_END_OID

/-! ## value structs (mirrors of the Rust structs) -/

/-- `PagedResults { size: i32, cookie: Vec<u8> }` -/
structure PagedResults where
  size : Int
  cookie : Bytes
  deriving Repr, DecidableEq

inductive RefreshMode where
  | refreshOnly | refreshAndPersist
  deriving Repr, DecidableEq

/-- `impl From<RefreshMode> for i64` -/
def RefreshMode.toInt : RefreshMode → Int
  | .refreshOnly => 1
  | .refreshAndPersist => 3

structure SyncRequest where
  mode : RefreshMode
  cookie : Option Bytes
  reloadHint : Bool
  deriving Repr, DecidableEq

inductive EntryState where
  | present | add | modify | delete
  deriving Repr, DecidableEq

structure SyncState where
  state : EntryState
  entryUuid : Bytes
  cookie : Option Bytes
  deriving Repr, DecidableEq

structure SyncDone where
  cookie : Option Bytes
  refreshDeletes : Bool
  deriving Repr, DecidableEq

/-- `SyncInfo`.  `uuids` is the sequence of elements inserted into the `HashSet<Vec<u8>>`, in
insertion order; the Rust value is the *set* of its elements (printing sorts and dedups). -/
inductive SyncInfo where
  | newCookie (cookie : Bytes)
  | refreshDelete (cookie : Option Bytes) (refreshDone : Bool)
  | refreshPresent (cookie : Option Bytes) (refreshDone : Bool)
  | syncIdSet (cookie : Option Bytes) (refreshDeletes : Bool) (uuids : List Bytes)
  deriving Repr, DecidableEq

structure PasswordModify where
  userId : Option Bytes
  oldPass : Option Bytes
  newPass : Option Bytes
  deriving Repr, DecidableEq

structure EndTxn where
  txnId : Bytes
  commit : Bool
  deriving Repr, DecidableEq

/-- `EndTxnResp { msg_id: Option<i32>, upds_ctrls: Option<Vec<(i32, Vec<Control>)>> }` -/
structure EndTxnResp where
  msgId : Option Int
  updsCtrls : Option (List (Int × List Control))
  deriving Repr, DecidableEq

/-! ## request side -/

/-- `write::encode_into(&mut buf, tag.into_structure())` -/
def berOf (t : Tag) : Bytes := encode t.toTlv

/-- `impl From<PagedResults> for RawControl` (`pr.size as i64`: sign extension, the value itself) -/
def encPagedResults (v : PagedResults) : RawControl :=
  { ctype := oidPagedResults, crit := false,
    val := some (berOf (Tag.seq [Tag.int v.size, Tag.octets v.cookie])) }

/-- the `tags` vector of `impl From<SyncRequest> for RawControl` -/
def syncRequestTags (v : SyncRequest) : List Tag :=
  [Tag.enum v.mode.toInt] ++
  (match v.cookie with | some c => [Tag.octets c] | none => []) ++
  (if v.reloadHint then [Tag.bool v.reloadHint] else [])

def encSyncRequest (v : SyncRequest) : RawControl :=
  { ctype := oidSyncRequest, crit := false, val := some (berOf (Tag.seq (syncRequestTags v))) }

/-- `from_read_entry` -/
def encReadEntry (oid : Bytes) (attrs : List Bytes) : RawControl :=
  { ctype := oid, crit := false, val := some (berOf (Tag.seq (attrs.map Tag.octets))) }

def encPreRead (attrs : List Bytes) : RawControl := encReadEntry oidPreRead attrs
def encPostRead (attrs : List Bytes) : RawControl := encReadEntry oidPostRead attrs

/-- `impl From<Assertion<S>> for RawControl`.  `filter` is the result of
`crate::filter::parse(filter_ref)` after `.into_structure()` (`none` = `Err(())`; the filter parser
is owned by the C08 slice); `.expect("filter")` panics on `Err`. -/
def encAssertion (filter : Option Tlv) : Outcome RawControl :=
  match filter with
  | none => .panic
  | some t => .ok { ctype := oidAssertion, crit := false, val := some (encode t) }

/-- `impl From<MatchedValues<S>> for RawControl`; `filter` is the result of
`parse_matched_values(filter_ref)` after `.into_structure()`. -/
def encMatchedValues (filter : Option Tlv) : Outcome RawControl :=
  match filter with
  | none => .panic
  | some t => .ok { ctype := oidMatchedValues, crit := false, val := some (encode t) }

/-- `impl From<ProxyAuth> for RawControl` -/
def encProxyAuth (authzid : Bytes) : RawControl :=
  { ctype := oidProxyAuth, crit := true, val := some authzid }

/-- `impl From<TxnSpec> for RawControl` -/
def encTxnSpec (txnId : Bytes) : RawControl :=
  { ctype := oidTxnSpec, crit := true, val := some txnId }

def encManageDsaIt : RawControl := { ctype := oidManageDsaIt, crit := false, val := none }
def encRelaxRules : RawControl := { ctype := oidRelaxRules, crit := false, val := none }

/-- `impl From<CriticalControl<T>> for RawControl`: `rc.crit = true` on the inner conversion -/
def critical (rc : RawControl) : RawControl := { rc with crit := true }

def encWhoAmI : Exop := { name := some oidWhoAmI, val := none }
def encStartTLS : Exop := { name := some oidStartTLS, val := none }
def encStartTxn : Exop := { name := some oidTxnStart, val := none }

/-- the `pm_vec` vector of `impl From<PasswordModify> for Exop` -/
def passModTags (v : PasswordModify) : List Tag :=
  (match v.userId with | some u => [Tag.octetString 2 0 u] | none => []) ++
  (match v.oldPass with | some o => [Tag.octetString 2 1 o] | none => []) ++
  (match v.newPass with | some n => [Tag.octetString 2 2 n] | none => [])

def encPasswordModify (v : PasswordModify) : Exop :=
  { name := some oidPassMod,
    val := if (passModTags v).isEmpty then none else some (berOf (Tag.seq (passModTags v))) }

/-- `impl From<EndTxn> for Exop` -/
def encEndTxn (v : EndTxn) : Exop :=
  { name := some oidTxnEnd,
    val := some (berOf (Tag.seq ((if !v.commit then [Tag.bool false] else []) ++ [Tag.octets v.txnId]))) }

/-- `construct_exop`: `assert!(exop.name.is_some())` -/
def constructExop (e : Exop) : Outcome (List Tag) :=
  match e.name with
  | none => .panic
  | some n => .ok ([Tag.octetString 2 0 n] ++
      (match e.val with | some v => [Tag.octetString 2 1 v] | none => []))

/-! ## response side -/

/-- `x as i32` for a `u64` -/
def asI32 (n : Nat) : Int :=
  let m := n % 4294967296
  if m < 2147483648 then (m : Int) else (m : Int) - 4294967296

/-- `match parse_tag(val) { Ok((_, tag)) => tag, _ => panic!() }.expect_constructed().expect(..)`
(trailing bytes after the first TLV are ignored) -/
def parseSeq (val : Bytes) : Outcome (List Tlv) :=
  match parseTag val with
  | .ok t _ =>
    match t.expectCons with
    | some ks => .ok ks
    | none => .panic
  | _ => .panic

/-- `.match_class(cls).and_then(|t| t.match_id(id)).and_then(|t| t.expect_primitive())` -/
def matchPrim (t : Tlv) (cls id : Nat) : Option Bytes :=
  if t.cls == cls then (if t.id == id then t.expectPrim else none) else none

/-- `RawControl::parse::<T>()` / `Exop::parse::<T>()`: `T::parse(self.val.as_ref().expect("value"))` -/
def parseVal {α : Type} (p : Bytes → Outcome α) (val : Option Bytes) : Outcome α :=
  match val with
  | none => .panic
  | some v => p v

/-- `impl ControlParser for PagedResults` (the size is read *unsigned* and truncated to `i32`) -/
def parsePagedResults (val : Bytes) : Outcome PagedResults :=
  match parseSeq val with
  | .panic => .panic
  | .ok comps =>
    match comps with
    | [] => .panic
    | c0 :: rest =>
      match matchPrim c0 0 2 with
      | none => .panic
      | some sz =>
        match rest with
        | [] => .panic
        | c1 :: _ =>
          match c1.expectPrim with
          | none => .panic
          | some ck => .ok ⟨asI32 (parseUint sz), ck⟩

/-- `impl ControlParser for SyncState` -/
def parseSyncState (val : Bytes) : Outcome SyncState :=
  match parseSeq val with
  | .panic => .panic
  | .ok comps =>
    match comps with
    | [] => .panic
    | c0 :: rest =>
      match matchPrim c0 0 10 with
      | none => .panic
      | some st =>
        let n := parseUint st
        let state : Option EntryState :=
          if n = 0 then some .present else if n = 1 then some .add
          else if n = 2 then some .modify else if n = 3 then some .delete else none
        match state with
        | none => .panic
        | some state =>
          match rest with
          | [] => .panic
          | c1 :: rest2 =>
            match c1.expectPrim with
            | none => .panic
            | some uuid =>
              match rest2 with
              | [] => .ok ⟨state, uuid, none⟩
              | c2 :: _ =>
                match c2.expectPrim with
                | none => .panic
                | some ck => .ok ⟨state, uuid, some ck⟩

/-- the `for tag in tags` loop of `impl ControlParser for SyncDone` (class never checked;
`ostr[0]` panics on an empty BOOLEAN) -/
def syncDoneLoop : List Tlv → Option Bytes → Bool → Outcome SyncDone
  | [], ck, rd => .ok ⟨ck, rd⟩
  | t :: ts, ck, rd =>
    if t.id == 4 then
      match t with
      | .prim _ _ v => syncDoneLoop ts (some v) rd
      | .cons .. => .panic
    else if t.id == 1 then
      match t with
      | .prim _ _ v =>
        match v with
        | [] => .panic
        | b :: _ => syncDoneLoop ts ck (b != 0)
      | .cons .. => .panic
    else .panic

def parseSyncDone (val : Bytes) : Outcome SyncDone :=
  match parseSeq val with
  | .panic => .panic
  | .ok comps => syncDoneLoop comps none false

/-- `.into_iter().map(|u| u.expect_primitive().expect("octet string")).collect()` -/
def allPrims : List Tlv → Option (List Bytes)
  | [] => some []
  | t :: ts =>
    match t.expectPrim with
    | none => none
    | some v =>
      match allPrims ts with
      | none => none
      | some vs => some (v :: vs)

/-- the `'it: loop` of `parse_syncinfo` over the components of `[1]`/`[2]`/`[3]`;
state: `pass`, `sync_cookie`, `flag`, `uuids` -/
def syncInfoInner : List Tlv → Nat → Option Bytes → Bool → List Bytes →
    Outcome (Option Bytes × Bool × List Bytes)
  | [], _, ck, fl, us => .ok (ck, fl, us)
  | comp :: rest, pass, ck, fl, us =>
    if comp.cls == 0 && comp.id == 4 && pass ≤ 1 then
      -- `sync_cookie = comp.expect_primitive()`: a constructed one gives `None`, no panic
      syncInfoInner rest (pass + 1) comp.expectPrim fl us
    else if comp.cls == 0 && comp.id == 1 && pass ≤ 2 then
      match comp.expectPrim with
      | none => .panic
      | some [] => .panic
      | some (b :: _) => syncInfoInner rest (pass + 1) ck (b != 0) us
    else if comp.cls == 0 && comp.id == 17 && pass ≤ 3 then
      match comp.expectCons with
      | none => .panic
      | some ks =>
        match allPrims ks with
        | none => .panic
        | some us' => syncInfoInner rest (pass + 1) ck fl us'
    else .panic

/-- the `return match syncinfo_val { … }` of `parse_syncinfo` -/
def syncInfoValue (t : Tlv) : Outcome SyncInfo :=
  if t.cls == 2 && t.id < 4 then
    match t with
    | .prim _ id v => if id == 0 then .ok (.newCookie v) else .panic
    | .cons _ id ks =>
      if id == 0 then .panic else
      match syncInfoInner ks 1 none (id != 3) [] with
      | .panic => .panic
      | .ok (ck, fl, us) =>
        if id == 1 then .ok (.refreshDelete ck fl)
        else if id == 2 then .ok (.refreshPresent ck fl)
        else .ok (.syncIdSet ck fl us)
  else .panic

/-- the outer `loop` of `parse_syncinfo` over the elements of the IntermediateResponse -/
def syncInfoLoop : List Tlv → Outcome SyncInfo
  | [] => .panic
  | t :: ts =>
    if t.id == 0 then
      match t.expectPrim with
      | none => .panic
      | some oid =>
        if !utf8Valid oid then .panic
        else if oid != oidSyncInfo then .panic
        else syncInfoLoop ts
    else if t.id == 1 then
      match t.expectPrim with
      | none => .panic
      | some v =>
        match parseTag v with
        | .ok sv _ => syncInfoValue sv
        | _ => .panic
    else .panic

/-- `parse_syncinfo(entry)`; `entry` is `ResultEntry.0` (`match_id(25)`: class not checked) -/
def parseSyncInfo (entry : Tlv) : Outcome SyncInfo :=
  if entry.id != 25 then .panic else
  match entry.expectCons with
  | none => .panic
  | some ts => syncInfoLoop ts

/-- the part of `impl ControlParser for ReadEntryResp` before `SearchEntry::construct` (owned by
the C15 slice): the tag handed to `ResultEntry::new` -/
def parseReadEntryOuter (val : Bytes) : Outcome Tlv :=
  match parseTag val with
  | .ok t _ => .ok t
  | _ => .panic

/-- `controls_impl::read_entry::ReadEntryResp { attrs, bin_attrs }` (the struct has no `dn` field:
the `dn` of the `SearchEntry` that `construct` returns is dropped) -/
structure ReadEntryResp where
  /-- `attrs` -/
  text : AMap (List Bytes)
  /-- `bin_attrs` -/
  bin : AMap (List Bytes)
  deriving Repr, DecidableEq

/-- `impl ControlParser for ReadEntryResp`, whole: `parse_tag` (trailing bytes ignored, failure
panics), then `SearchEntry::construct(ResultEntry::new(tag))` (Model/Entry.lean `construct`, every
panic of which is a panic here), then the two maps are moved into the response struct. -/
def parseReadEntryResp (val : Bytes) : Outcome ReadEntryResp :=
  match parseReadEntryOuter val with
  | .panic => .panic
  | .ok tag =>
    match construct tag with
    | .panic => .panic
    | .ok se => .ok { text := se.text, bin := se.bin }

/-- `impl ExopParser for WhoAmIResp`: `str::from_utf8(val).expect("authzid")` -/
def parseWhoAmIResp (val : Bytes) : Outcome Bytes :=
  if utf8Valid val then .ok val else .panic

/-- `impl ExopParser for StartTxnResp`: `str::from_utf8(val).expect("txn_id")` -/
def parseStartTxnResp (val : Bytes) : Outcome Bytes :=
  if utf8Valid val then .ok val else .panic

/-- `impl ExopParser for PasswordModifyResp` (result: `gen_pass`) -/
def parsePasswordModifyResp (val : Bytes) : Outcome Bytes :=
  match parseSeq val with
  | .panic => .panic
  | .ok comps =>
    match comps with
    | [] => .panic
    | c0 :: _ =>
      match matchPrim c0 2 0 with
      | none => .panic
      | some v => if utf8Valid v then .ok v else .panic

/-- the `while !tags.is_empty()` loop of `EndTxnResp::parse`; the argument is the children vector
*reversed* (`tags.pop()` takes from the end): controls first, then the message id -/
def endTxnPairs : List Tlv → Outcome (List (Int × List Control))
  | [] => .ok []
  | [_] => .panic     -- `parse_controls(..).expect("controls")` or else `tags.pop().expect("element")`
  | c :: m :: rest =>
    match parseControls c with
    | none => .panic
    | some ctrls =>
      match matchPrim m 0 2 with
      | none => .panic
      | some v =>
        match endTxnPairs rest with
        | .panic => .panic
        | .ok ps => .ok ((asI32 (parseUint v), ctrls) :: ps)

/-- the `while let Some(tag) = tags.next()` loop of `EndTxnResp::parse` -/
def endTxnLoop : List Tlv → Option Int → Outcome EndTxnResp
  | [], mid => .ok ⟨mid, none⟩
  | t :: ts, mid =>
    match t with
    | .prim c i v =>
      if i == 2 && c == 0 then endTxnLoop ts (some (asI32 (parseUint v))) else .panic
    | .cons c i ks =>
      if i == 16 && c == 0 then
        match endTxnPairs ks.reverse with
        | .panic => .panic
        | .ok ps => if ts.isEmpty then .ok ⟨mid, some ps⟩ else .panic
      else .panic

/-- `impl ExopParser for EndTxnResp` -/
def parseEndTxnResp (val : Bytes) : Outcome EndTxnResp :=
  match parseSeq val with
  | .panic => .panic
  | .ok comps => endTxnLoop comps none

end Ldap3V.Codecs

/-
Model of the request side of ldap3 as written at /repo HEAD:
  src/ldap.rs      simple_bind, sasl_external_bind (sasl_bind_req), add, compare, delete, modify, modifydn,
                   extended, unbind, abandon, op_call, with_controls / with_timeout / with_search_options,
                   `Clone for Ldap`, streaming_search_with
  src/search.rs    SearchStream::start_inner (the SearchRequest)
  src/exop_impl.rs construct_exop
The Encoder of src/protocol.rs is `encodeMsg` in Model/Envelope.lean.

`&str` / `AsRef<[u8]>` arguments are `Bytes`.  A `HashSet` of values is taken as the list of its
elements in the order its iterator yields them (unspecified in Rust; the correspondence lane
re-expresses every request with the order observed on the wire).  The filter string is owned by
slice C08: a request carries the already parsed filter as a `Tlv`; a string which does not parse is
the separate handle call `searchBadFilter` (nothing is built, nothing is sent).
-/
import Ldap3V.Model.Envelope
namespace Ldap3V

/-- `ldap3::Scope` (`scope as i64`) -/
inductive Scope where
  | base | oneLevel | subtree
  deriving Repr, DecidableEq

def Scope.toInt : Scope → Int
  | .base => 0 | .oneLevel => 1 | .subtree => 2

/-- `ldap3::DerefAliases` (`opts.deref as i64`) -/
inductive Deref where
  | never | searching | finding | always
  deriving Repr, DecidableEq

def Deref.toInt : Deref → Int
  | .never => 0 | .searching => 1 | .finding => 2 | .always => 3

/-- `ldap3::Mod` variants; the number is the `num` of `Ldap::modify` -/
inductive ModKind where
  | add | delete | replace | increment
  deriving Repr, DecidableEq

def ModKind.toInt : ModKind → Int
  | .add => 0 | .delete => 1 | .replace => 2 | .increment => 3

/-- one API call with all its arguments (search: including the `SearchOptions` in force) -/
inductive Request where
  | simpleBind (dn pw : Bytes)
  | saslExternal
  | search (base : Bytes) (scope : Scope) (deref : Deref) (sizeLimit timeLimit : Int) (typesOnly : Bool)
      (filter : Tlv) (attrs : List Bytes)
  | add (dn : Bytes) (attrs : List (Bytes × List Bytes))
  | compare (dn attr val : Bytes)
  | delete (dn : Bytes)
  /-- `Mod::Increment(attr, v)` is `(increment, attr, [v])` (`HashSet::from([val])`) -/
  | modify (dn : Bytes) (mods : List (ModKind × Bytes × List Bytes))
  | modifyDn (dn rdn : Bytes) (deleteOld : Bool) (newSup : Option Bytes)
  | extended (name : Option Bytes) (val : Option Bytes)
  | unbind
  | abandon (id : Int)

/-- `Sequence { inner: [OctetString(name), Set { inner: vals… }] }` -/
def partialAttr (name : Bytes) (vals : List Bytes) : Tag :=
  Tag.seq [Tag.octets name, Tag.setOf (vals.map Tag.octets)]

/-- one element of the `changes` sequence of `Ldap::modify` -/
def modItem (m : ModKind × Bytes × List Bytes) : Tag :=
  Tag.seq [Tag.enum m.1.toInt, partialAttr m.2.1 m.2.2]

/-- `construct_exop` after its `assert!(exop.name.is_some())` -/
def exopItems (name : Bytes) (val : Option Bytes) : List Tag :=
  [Tag.octetString 2 0 name] ++ (match val with | some v => [Tag.octetString 2 1 v] | none => [])

/-- `sasl_bind_req(mech, creds)` -/
def saslBindReq (mech : Bytes) (creds : Option Bytes) : Tag :=
  .sequence 1 0 [Tag.int 3, Tag.octets [],
    .sequence 2 3 ([Tag.octets mech] ++ (match creds with | some c => [Tag.octets c] | none => []))]

/-- the protocolOp `Tag` each builder hands to `op_call`.  For `extended none _` the real code never
gets that far (`construct_exop` panics, see `issue`); the value here is only a placeholder without
the name element and is not used by any theorem. -/
def build : Request → Tag
  | .simpleBind dn pw => .sequence 1 0 [Tag.int 3, Tag.octets dn, .octetString 2 0 pw]
  | .saslExternal => saslBindReq (ascii "EXTERNAL") (some [])
  | .search base scope deref sizeLimit timeLimit typesOnly filter attrs =>
    .sequence 1 3 [Tag.octets base, Tag.enum scope.toInt, Tag.enum deref.toInt, Tag.int sizeLimit,
      Tag.int timeLimit, Tag.bool typesOnly, .structure filter, Tag.seq (attrs.map Tag.octets)]
  | .add dn attrs =>
    .sequence 1 8 [Tag.octets dn, Tag.seq (attrs.map fun a => partialAttr a.1 a.2)]
  | .compare dn attr val =>
    .sequence 1 14 [Tag.octets dn, Tag.seq [Tag.octets attr, Tag.octets val]]
  | .delete dn => .octetString 1 10 dn
  | .modify dn mods => .sequence 1 6 [Tag.octets dn, Tag.seq (mods.map modItem)]
  | .modifyDn dn rdn deleteOld newSup =>
    .sequence 1 12 ([Tag.octets dn, Tag.octets rdn, Tag.bool deleteOld] ++
      (match newSup with | some s => [Tag.octetString 2 0 s] | none => []))
  | .extended (some name) val => .sequence 1 23 (exopItems name val)
  | .extended none val => .sequence 1 23 (match val with | some v => [Tag.octetString 2 1 v] | none => [])
  | .unbind => .null 1 2
  | .abandon id => .integer 1 16 id

/-- what an API call does before anything reaches `op_call` -/
inductive Verdict where
  /-- the request `Tag` is passed to `op_call` -/
  | send (t : Tag)
  /-- `return Err(LdapError::AddNoValues)` -/
  | errAddNoValues
  /-- `assert!(exop.name.is_some())` in `construct_exop` -/
  | panic

/-- `any_empty` of `Ldap::add` -/
def anyEmpty (attrs : List (Bytes × List Bytes)) : Bool := attrs.any fun a => a.2.isEmpty

/-- `any_add_empty` of `Ldap::modify` -/
def anyAddEmpty (mods : List (ModKind × Bytes × List Bytes)) : Bool :=
  mods.any fun m => m.1 == .add && m.2.2.isEmpty

/-- the local part of each API call: build the request, or fail before `op_call` -/
def issue (r : Request) : Verdict :=
  match r with
  | .add _ attrs => if anyEmpty attrs then .errAddNoValues else .send (build r)
  | .modify _ mods => if anyAddEmpty mods then .errAddNoValues else .send (build r)
  | .extended none _ => .panic
  | _ => .send (build r)

/-- the call returns (or unwinds) without having sent anything -/
def rejected (r : Request) : Bool :=
  match issue r with
  | .send _ => false
  | _ => true

def Request.isSearch : Request → Bool
  | .search .. => true
  | _ => false

/-! ## The handle: per-operation modifiers (`Ldap::{controls, timeout, search_opts}`) -/

/-- `SearchOptions` -/
structure SearchOpts where
  deref : Deref
  typesOnly : Bool
  timeLimit : Int
  sizeLimit : Int
  deriving Repr, DecidableEq

/-- `SearchOptions::new()` -/
def SearchOpts.default : SearchOpts := ⟨.never, false, 0, 0⟩

/-- the three `Option` fields of `Ldap`; the timeout is a `Duration`, here a number (of ms) -/
structure Handle where
  controls : Option (List RawControl) := none
  timeout : Option Nat := none
  searchOpts : Option SearchOpts := none
  deriving Repr, DecidableEq

/-- a search request as invoked: base, scope, filter and attribute list come from the call, the
other four fields from the `SearchOptions` in force (`start_inner`) -/
def Request.withOpts (r : Request) (o : SearchOpts) : Request :=
  match r with
  | .search base scope _ _ _ _ filter attrs =>
    .search base scope o.deref o.sizeLimit o.timeLimit o.typesOnly filter attrs
  | r => r

/-- Handles are named by numbers.  All clones share the connection and its message-ID table; a
clone starts with its three modifier fields `None`, so a handle which was never touched is a fresh
clone. -/
inductive HandleCall where
  | withControls (h : Nat) (cs : List RawControl)
  | withTimeout (h : Nat) (ms : Nat)
  | withSearchOptions (h : Nat) (o : SearchOpts)
  /-- any operation; for a `Request.search` the four option fields of `r` are ignored (a Search call
  has no such arguments) and filled from the handle: `search` / `streaming_search(_with)` -/
  | op (h : Nat) (r : Request)
  /-- a Search call whose filter string does not parse -/
  | searchBadFilter (h : Nat)
  /-- `let dst = src.clone();` (an existing `dst` is replaced) -/
  | clone (src dst : Nat)

/-- what was handed to the connection for one message: `(id, req, controls)` of `self.tx.send(…)`
and the `timeout` `op_call` waits with -/
structure Sent where
  id : Nat
  req : Request
  ctrls : Option (List RawControl)
  timeout : Option Nat

structure HState where
  handles : Nat → Handle
  /-- `msgmap.0`, shared by all clones -/
  lastId : Nat
  wire : List Sent

def HState.init : HState := ⟨fun _ => {}, 0, []⟩

def setHandle (hs : Nat → Handle) (h : Nat) (v : Handle) : Nat → Handle :=
  fun i => if i = h then v else hs i

/-- `op_call(op, req)` on handle `H`: `next_msgid()` (fresh connection, no wrap: last + 1),
`self.search_opts = None`, `self.controls.take()`, `self.timeout.take()` -/
def opCall (H : Handle) (lastId : Nat) (req : Request) : Handle × Sent :=
  let id := lastId + 1
  let H1 : Handle := { H with searchOpts := none }
  let ctrls := H1.controls
  let H2 : Handle := { H1 with controls := none }
  let tmo := H2.timeout
  let H3 : Handle := { H2 with timeout := none }
  (H3, ⟨id, req, ctrls, tmo⟩)

/-- `streaming_search_with` up to and including `start_inner`, given that the filter parsed:
the caller's handle keeps nothing, the stream's clone carries the three modifiers; returns what
is left on the caller's handle and what is sent -/
def searchCall (H : Handle) (lastId : Nat) (r : Request) : Handle × Sent :=
  -- let mut ldap = self.clone(); ldap.controls = self.controls.take(); … (all three)
  let ldap : Handle := { controls := H.controls, timeout := H.timeout, searchOpts := H.searchOpts }
  let H' : Handle := { controls := none, timeout := none, searchOpts := none }
  -- start_inner: opts = self.ldap.search_opts.take() or SearchOptions::new()
  let opts := match ldap.searchOpts with | some o => o | none => SearchOpts.default
  let ldap1 : Handle := { ldap with searchOpts := none }
  -- self.timeout = self.ldap.timeout; if let Some(t) = self.timeout { self.ldap.with_timeout(t) }: no change
  let (_, sent) := opCall ldap1 lastId (r.withOpts opts)
  (H', sent)

/-- one call -/
def step (s : HState) (c : HandleCall) : HState :=
  match c with
  | .withControls h cs => { s with handles := setHandle s.handles h { s.handles h with controls := some cs } }
  | .withTimeout h t => { s with handles := setHandle s.handles h { s.handles h with timeout := some t } }
  | .withSearchOptions h o => { s with handles := setHandle s.handles h { s.handles h with searchOpts := some o } }
  | .clone _ dst => { s with handles := setHandle s.handles dst {} }
  | .searchBadFilter h =>
    -- the modifiers were moved to the stream's clone, which is dropped with the error
    { s with handles := setHandle s.handles h {} }
  | .op h r =>
    if r.isSearch then
      let (H', sent) := searchCall (s.handles h) s.lastId r
      { handles := setHandle s.handles h H', lastId := sent.id, wire := s.wire ++ [sent] }
    else
      match issue r with
      | .send _ =>
        let (H', sent) := opCall (s.handles h) s.lastId r
        { handles := setHandle s.handles h H', lastId := sent.id, wire := s.wire ++ [sent] }
      -- `self.discard_modifiers(); return Err(LdapError::AddNoValues)`: controls, timeout and search
      -- options are set to `None`; no ID is allocated, nothing is sent
      | .errAddNoValues => { s with handles := setHandle s.handles h {} }
      -- `assert!` in `construct_exop` (a nameless `Exop` violates the caller contract): the call unwinds
      -- before `op_call`; a caller that catches the unwind finds the handle untouched
      | .panic => s

/-- a script of calls on a fresh connection: what is sent, and the handles afterwards -/
def runHandle (calls : List HandleCall) : HState := calls.foldl step HState.init

/-- the bytes written for one sent message (`Encoder::encode((id, tag, controls))`) -/
def Sent.bytes (m : Sent) : Bytes := encodeMsg (m.id : Int) (build m.req) m.ctrls

end Ldap3V

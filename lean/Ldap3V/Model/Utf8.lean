/-
Acceptance of `std::str::from_utf8` / `String::from_utf8` (Unicode Standard table 3-7:
no overlong forms, no surrogates, at most U+10FFFF).  Modelled, not verified: the lanes compare it
with the real functions (exhaustively on short sequences).
-/
import Ldap3V.Model.Ber
namespace Ldap3V

def isCont (b : UInt8) : Bool := 0x80 ≤ b.toNat && b.toNat ≤ 0xBF
def inRange (b : UInt8) (lo hi : Nat) : Bool := lo ≤ b.toNat && b.toNat ≤ hi

def utf8Valid : Bytes → Bool
  | [] => true
  | b0 :: r =>
    if b0.toNat < 0x80 then utf8Valid r
    else if inRange b0 0xC2 0xDF then
      match r with
      | b1 :: r1 => isCont b1 && utf8Valid r1
      | _ => false
    else if inRange b0 0xE0 0xEF then
      match r with
      | b1 :: b2 :: r2 =>
        (if b0.toNat = 0xE0 then inRange b1 0xA0 0xBF
         else if b0.toNat = 0xED then inRange b1 0x80 0x9F
         else isCont b1) && isCont b2 && utf8Valid r2
      | _ => false
    else if inRange b0 0xF0 0xF4 then
      match r with
      | b1 :: b2 :: b3 :: r3 =>
        (if b0.toNat = 0xF0 then inRange b1 0x90 0xBF
         else if b0.toNat = 0xF4 then inRange b1 0x80 0x8F
         else isCont b1) && isCont b2 && isCont b3 && utf8Valid r3
      | _ => false
    else false

end Ldap3V

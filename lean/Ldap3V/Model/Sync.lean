/-
Model of /repo/src/sync.rs (C14): the synchronous façade `LdapConn` / `EntryStream` is a table of
one-line delegations.  This file holds the ROW TYPES of that table; the table itself
(`Ldap3V.Gen.syncTable`, `Ldap3V.Gen.asyncInfo`) is regenerated from the Rust sources by
translate/sync_table.py on every run of ./check.  Import-free.

Shapes of sync.rs which the translator recognises (anything else is `Body.unclassified`):

  blockOn   let rt = &mut self.rt; let ldap = &mut self.ldap;
            rt.block_on(async move { ldap.CALLEE(ARGS).await })                       ret = unchanged
            let stream = rt.block_on(async move { ldap.CALLEE(ARGS).await })?;
            Ok(EntryStream { stream, conn: self })                                    ret = entryStream
            (EntryStream: let rt = &mut self.conn.rt; let stream = &mut self.stream; … stream.CALLEE(ARGS) …)
  direct    self.ldap.CALLEE(ARGS)   |   self.stream.ldap_handle().CALLEE(ARGS)      (no runtime involved)
  inline    self.ldap.EXPR           (e.g. `self.ldap.tx.is_closed()`: the body of the async API's getter, inlined)
  assign    self.ldap.FIELD = VALUE; self
  delegate  Self::CALLEE(ARGS)       possibly after `let url = Url::parse(url)?;`
  connect   let rt = runtime::Builder::new_FLAVOUR().enable_all().build()?;
            let ldap = rt.block_on(async move { let (conn, ldap) = match CALLEE(ARGS).await { Ok(p) => p,
                Err(e) => return Err(e) }; super::drive!(conn); Ok(ldap) })?;
            Ok(LdapConn { ldap, rt })
-/
namespace Ldap3V.Sync

/-- argument / value expressions that occur in sync.rs; a parameter is named by its position -/
inductive Expr where
  | param (i : Nat)          -- the i-th parameter of the enclosing fn (self not counted)
  | into (e : Expr)          -- `e.into()`
  | some (e : Expr)          -- `Some(e)`
  | ref (e : Expr)           -- `&e`
  | urlParse (e : Expr)      -- `Url::parse(e)?`
  | const (s : String)       -- `LdapConnSettings::new()`, `vec![]`
  deriving DecidableEq, Repr

/-- what a call is made on -/
inductive Recv where
  | static                   -- an associated function (constructors)
  | ldap                     -- the `Ldap` handle (`self.ldap`)
  | stream                   -- the `SearchStream` (`self.stream`)
  | streamLdap               -- `self.stream.ldap_handle()`: the `Ldap` handle inside the stream
  deriving DecidableEq, Repr

/-- what happens to the value produced inside `block_on` -/
inductive Ret where
  | unchanged                -- it is the fn's value
  | entryStream              -- `?`, then `Ok(EntryStream { stream, conn: self })`
  deriving DecidableEq, Repr

inductive Body where
  | blockOn (rt : String) (recv : Recv) (callee : String) (args : List Expr) (ret : Ret)
  | direct (recv : Recv) (callee : String) (args : List Expr)
  | inline (recv : Recv) (expr : String)
  | assign (field : String) (value : Expr)
  | delegate (callee : String) (args : List Expr)
  | connect (flavour : String) (callee : String) (args : List Expr) (driven : Bool)
  | unclassified (why : String)
  deriving DecidableEq, Repr

/-- one `pub fn` of sync.rs -/
structure SyncEntry where
  owner : String             -- "LdapConn" | "EntryStream"
  name : String
  params : List String       -- parameter names in order, without self
  body : Body
  deriving DecidableEq, Repr

/-- a modifier of the async API (`Ldap::with_*`): `self.FIELD = VALUE; self` -/
structure SetterRow where
  name : String
  field : String
  value : Expr
  deriving DecidableEq, Repr

/-- a constructor of the async API (`LdapConnAsync::…`): a `delegate` body, or `connect "" callee params false`
for the one that is the implementation itself -/
structure CtorRow where
  name : String
  arity : Nat
  body : Body
  deriving DecidableEq, Repr

/-- what the translator reads from the async side (ldap.rs, search.rs, conn.rs) -/
structure AsyncInfo where
  ldapMethods : List (String × Bool)      -- `pub fn`s of `impl Ldap`: name, is it `async`
  streamMethods : List (String × Bool)    -- `pub fn`s of `impl SearchStream`
  setters : List SetterRow                -- non-async `pub fn`s of `Ldap` with body `self.f = v; self`
  getters : List (String × String)        -- non-async `pub fn`s of `Ldap` with body `self.EXPR`
  ctors : List CtorRow                    -- `pub async fn … -> Result<(Self, Ldap)>` of `LdapConnAsync`
  deriving Repr

end Ldap3V.Sync
